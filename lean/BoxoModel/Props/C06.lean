import BoxoModel.C06.Lemmas
import BoxoModel.C06.Go
/-!
C06 — Chunkers are lossless, bounded and deterministic.

All theorems are about the executable model of `BoxoModel/C06/Model.lean` (the splitters as state machines over
`io.ReadFull` over a reader with an arbitrary fragmentation oracle `frags`/`eofWithData`), for every input,
every oracle and every parameter value satisfying the stated side conditions.  The side conditions are exactly
what `c06_parse_sound` derives for every spec string the (repaired) parser accepts.
-/
namespace C06

/-! ### fixed-size splitter (`size-N`, `default`) -/

theorem c06_size_concat (rd : Rd) (n : Nat) (hn : 0 < n) : (sizeChunks rd n).flatten = rd.data := by
  rw [sizeChunks_eq rd n hn]; exact spec_flatten (cutSize_ok hn) _ _ _ (by omega)

theorem c06_size_nonempty (rd : Rd) (n : Nat) (hn : 0 < n) : ∀ c ∈ sizeChunks rd n, c ≠ [] := by
  rw [sizeChunks_eq rd n hn]; exact spec_nonempty (cutSize_ok hn) _ _ _

/-- every chunk has at most `n` bytes and every chunk but the last has exactly `n` -/
theorem c06_size_minmax (rd : Rd) (n : Nat) (hn : 0 < n) :
    (∀ c ∈ sizeChunks rd n, c.length ≤ n) ∧ (∀ c ∈ (sizeChunks rd n).dropLast, c.length = n) := by
  rw [sizeChunks_eq rd n hn]
  have hle : ∀ c ∈ specChunks (fun _ => cutSize n) (rd.data.length + 1) 0 rd.data, c.length ≤ n :=
    spec_le (M := n) (by intro _ d _; simp only [cutSize]; omega) _ _ _
  refine ⟨hle, fun c hc => ?_⟩
  have h1 := spec_dropLast_ge (m := n) (cutSize_ok hn) (by intro _ d hlt; simp only [cutSize] at hlt ⊢; omega) _ _ _ c hc
  have h2 := hle c (List.dropLast_subset _ hc)
  omega

/-- the chunk list does not depend on how the reader fragments its reads -/
theorem c06_size_frag_indep (d : Bytes) (f1 f2 : List Nat) (e1 e2 : Bool) (n : Nat) (hn : 0 < n) :
    sizeChunks { data := d, frags := f1, eofWithData := e1 } n =
    sizeChunks { data := d, frags := f2, eofWithData := e2 } n := by
  rw [sizeChunks_eq _ n hn, sizeChunks_eq _ n hn]

/-! ### buzhash (any table, any mask; `32 ≤ min ≤ max`) -/

theorem c06_buz_concat (P : BuzP) (h : BuzOk P) (rd : Rd) : (buzChunks P rd).flatten = rd.data := by
  rw [buzChunks_eq P h]; exact spec_flatten (cutBuz_ok P h) _ _ _ (by omega)

theorem c06_buz_nonempty (P : BuzP) (h : BuzOk P) (rd : Rd) : ∀ c ∈ buzChunks P rd, c ≠ [] := by
  rw [buzChunks_eq P h]; exact spec_nonempty (cutBuz_ok P h) _ _ _

theorem c06_buz_minmax (P : BuzP) (h : BuzOk P) (rd : Rd) :
    (∀ c ∈ buzChunks P rd, c.length ≤ P.max) ∧ (∀ c ∈ (buzChunks P rd).dropLast, P.min ≤ c.length) := by
  rw [buzChunks_eq P h]
  constructor
  · apply spec_le
    intro _ d hd
    simp only [cutBuz]
    split
    · have := h.2; omega
    · have := (buzCut_bounds P h (d.take P.max) (by simp only [List.length_take]; have := h.2; omega)).2
      simp only [List.length_take] at this; omega
  · apply spec_dropLast_ge (cutBuz_ok P h)
    intro _ d hlt
    simp only [cutBuz] at hlt ⊢
    split
    · rename_i hs; rw [if_pos hs] at hlt; omega
    · exact (buzCut_bounds P h (d.take P.max) (by simp only [List.length_take]; have := h.2; omega)).1

theorem c06_buz_frag_indep (P : BuzP) (h : BuzOk P) (d : Bytes) (f1 f2 : List Nat) (e1 e2 : Bool) :
    buzChunks P { data := d, frags := f1, eofWithData := e1 } =
    buzChunks P { data := d, frags := f2, eofWithData := e2 } := by
  rw [buzChunks_eq P h, buzChunks_eq P h]

/-! ### generic content-defined chunker (rabin's shape): any boundary automaton -/

theorem c06_cdc_concat {σ : Type} (A : Cdc σ) (h : CdcOk A) (rd : Rd) : (cdcChunks A rd).flatten = rd.data := by
  rw [cdcChunks_eq A h]; exact spec_flatten (cutCdc_ok A) _ _ _ (by omega)

theorem c06_cdc_nonempty {σ : Type} (A : Cdc σ) (h : CdcOk A) (rd : Rd) : ∀ c ∈ cdcChunks A rd, c ≠ [] := by
  rw [cdcChunks_eq A h]; exact spec_nonempty (cutCdc_ok A) _ _ _

theorem c06_cdc_minmax {σ : Type} (A : Cdc σ) (h : CdcOk A) (rd : Rd) :
    (∀ c ∈ cdcChunks A rd, c.length ≤ A.max) ∧ (∀ c ∈ (cdcChunks A rd).dropLast, A.min ≤ c.length) := by
  rw [cdcChunks_eq A h]
  exact ⟨spec_le (fun off d _ => cutCdc_le_max A h off d) _ _ _,
    spec_dropLast_ge (cutCdc_ok A) (fun off d hlt => cutCdc_ge_min A off d hlt) _ _ _⟩

theorem c06_cdc_frag_indep {σ : Type} (A : Cdc σ) (h : CdcOk A) (d : Bytes) (f1 f2 : List Nat) (e1 e2 : Bool) :
    cdcChunks A { data := d, frags := f1, eofWithData := e1 } =
    cdcChunks A { data := d, frags := f2, eofWithData := e2 } := by
  rw [cdcChunks_eq A h, cdcChunks_eq A h]

/-! ### rabin: the transcribed `whyrusleeping/chunker` loop (`Next()`), fingerprint automaton as a parameter -/

/-- The transcribed loop (block refills, unhashed prefix `pre`, incremental scan across blocks, EOF tail) computes
exactly the one-pass cut function `cutRab` — for ANY parameters, also degenerate ones. -/
theorem c06_rab_eq_spec {σ : Type} (A : Rab σ) (hblk : 0 < A.blk) (rd : Rd) :
    rabChunks A rd = specChunks (cutRab A) (rd.data.length + 1) 0 rd.data :=
  rabChunks_eq A hblk rd

theorem c06_rab_concat {σ : Type} (A : Rab σ) (hblk : 0 < A.blk) (rd : Rd) : (rabChunks A rd).flatten = rd.data := by
  rw [rabChunks_eq A hblk]; exact spec_flatten (cutRab_ok A) _ _ _ (by omega)

theorem c06_rab_nonempty {σ : Type} (A : Rab σ) (hblk : 0 < A.blk) (rd : Rd) : ∀ c ∈ rabChunks A rd, c ≠ [] := by
  rw [rabChunks_eq A hblk]; exact spec_nonempty (cutRab_ok A) _ _ _

theorem c06_rab_minmax {σ : Type} (A : Rab σ) (h : RabOk A) (rd : Rd) :
    (∀ c ∈ rabChunks A rd, c.length ≤ A.max) ∧ (∀ c ∈ (rabChunks A rd).dropLast, A.min ≤ c.length) := by
  rw [rabChunks_eq A h.2.2.2.2]
  exact ⟨spec_le (fun off d _ => cutRab_le_max A h off d) _ _ _,
    spec_dropLast_ge (cutRab_ok A) (fun off d hlt => cutRab_ge_min A off d hlt) _ _ _⟩

theorem c06_rab_frag_indep {σ : Type} (A : Rab σ) (hblk : 0 < A.blk) (d : Bytes) (f1 f2 : List Nat) (e1 e2 : Bool) :
    rabChunks A { data := d, frags := f1, eofWithData := e1 } =
    rabChunks A { data := d, frags := f2, eofWithData := e2 } := by
  rw [rabChunks_eq A hblk, rabChunks_eq A hblk]

/-- The defect behind the parser fix, as a theorem about the transcribed loop: with `MinSize < windowSize` the
uint64 subtraction `MinSize - windowSize` wraps and every input (shorter than 2^64 - 16 bytes) is ONE chunk,
whatever `MaxSize` is. -/
theorem c06_rab_small_min_one_chunk {σ : Type} (A : Rab σ) (hblk : 0 < A.blk) (hmin : A.min < A.win)
    (hw : A.win ≤ 2 ^ 64) (rd : Rd) (hne : rd.data ≠ []) (hlen : rd.data.length ≤ 2 ^ 64 - A.win) :
    rabChunks A rd = [rd.data] := by
  rw [rabChunks_eq A hblk]
  have hl : 0 < rd.data.length := List.length_pos_iff.mpr hne
  obtain ⟨n, hn⟩ : ∃ n, rd.data.length = n + 1 := ⟨rd.data.length - 1, by omega⟩
  rw [hn]
  simp only [specChunks, hne, if_false, cutRab_small_min A hmin hw 0 rd.data hlen, List.take_length, List.drop_length]
  cases n <;> simp [specChunks]

/-! ### the parser, and the property for every accepted spec string -/

/-- every spec string the parser accepts yields parameters satisfying the side conditions above -/
theorem c06_parse_sound (L : Limits) (hL : L.ok) (s : String) (spec : Spec)
    (h : parseSpec L s = some spec) : spec.wf L :=
  parseChars_sound L hL _ _ h

theorem c06_concat {σ : Type} (L : Limits) (hL : L.ok) (P : BuzP) (hP : BuzFits L P) (blk : Nat) (hblk : 0 < blk)
    (init : Nat → σ) (upd : σ → UInt8 → σ) (isB : σ → Bool) (s : String) (spec : Spec)
    (h : parseSpec L s = some spec) (rd : Rd) :
    (chunksOf P blk init upd isB spec rd).flatten = rd.data := by
  have hw := c06_parse_sound L hL s spec h
  cases spec with
  | size n => exact c06_size_concat rd n hw.1
  | buzhash => exact c06_buz_concat P hP.1 rd
  | rabin mn avg mx => exact c06_rab_concat _ hblk rd

theorem c06_nonempty {σ : Type} (L : Limits) (hL : L.ok) (P : BuzP) (hP : BuzFits L P) (blk : Nat) (hblk : 0 < blk)
    (init : Nat → σ) (upd : σ → UInt8 → σ) (isB : σ → Bool) (s : String) (spec : Spec)
    (h : parseSpec L s = some spec) (rd : Rd) :
    ∀ c ∈ chunksOf P blk init upd isB spec rd, c ≠ [] := by
  have hw := c06_parse_sound L hL s spec h
  cases spec with
  | size n => exact c06_size_nonempty rd n hw.1
  | buzhash => exact c06_buz_nonempty P hP.1 rd
  | rabin mn avg mx => exact c06_rab_nonempty _ hblk rd

/-- no chunk exceeds `ChunkSizeLimit` -/
theorem c06_le_limit {σ : Type} (L : Limits) (hL : L.ok) (P : BuzP) (hP : BuzFits L P) (blk : Nat) (hblk : 0 < blk)
    (init : Nat → σ) (upd : σ → UInt8 → σ) (isB : σ → Bool) (s : String) (spec : Spec)
    (h : parseSpec L s = some spec) (rd : Rd) :
    ∀ c ∈ chunksOf P blk init upd isB spec rd, c.length ≤ L.chunkSizeLimit := by
  have hw := c06_parse_sound L hL s spec h
  intro c hc
  cases spec with
  | size n => have := (c06_size_minmax rd n hw.1).1 c hc; have := hw.2; omega
  | buzhash => have := (c06_buz_minmax P hP.1 rd).1 c hc; have := hP.2; omega
  | rabin mn avg mx =>
    have := (c06_rab_minmax (σ := σ) { min := mn, max := mx, blk := blk, win := 16, init := init, upd := upd, isB := isB }
      ⟨Nat.succ_pos 15, by have := hL.1; have := hw.1; show 16 ≤ mn; omega, hw.2.1,
       by have := hL.2.1; have := hw.2.1; have := hw.2.2.2; show mn < 2 ^ 64; omega, hblk⟩ rd).1 c hc
    have := hw.2.2.2
    simp only at *; omega

/-- every chunk is at most the spec's maximum; every chunk except the last is at least its minimum -/
theorem c06_minmax {σ : Type} (L : Limits) (hL : L.ok) (P : BuzP) (hP : BuzFits L P) (blk : Nat) (hblk : 0 < blk)
    (init : Nat → σ) (upd : σ → UInt8 → σ) (isB : σ → Bool) (s : String) (spec : Spec)
    (h : parseSpec L s = some spec) (rd : Rd) :
    (∀ c ∈ chunksOf P blk init upd isB spec rd, c.length ≤ spec.hi P) ∧
    (∀ c ∈ (chunksOf P blk init upd isB spec rd).dropLast, spec.lo P ≤ c.length) := by
  have hw := c06_parse_sound L hL s spec h
  cases spec with
  | size n =>
    have := c06_size_minmax rd n hw.1
    exact ⟨this.1, fun c hc => by have := this.2 c hc; simp only [Spec.lo]; omega⟩
  | buzhash => exact c06_buz_minmax P hP.1 rd
  | rabin mn avg mx =>
    exact c06_rab_minmax (σ := σ) { min := mn, max := mx, blk := blk, win := 16, init := init, upd := upd, isB := isB }
      ⟨Nat.succ_pos 15, by have := hL.1; have := hw.1; show 16 ≤ mn; omega, hw.2.1,
       by have := hL.2.1; have := hw.2.1; have := hw.2.2.2; show mn < 2 ^ 64; omega, hblk⟩ rd

/-- chunk boundaries depend only on the input bytes, not on the read fragmentation -/
theorem c06_frag_indep {σ : Type} (L : Limits) (hL : L.ok) (P : BuzP) (hP : BuzFits L P) (blk : Nat) (hblk : 0 < blk)
    (init : Nat → σ) (upd : σ → UInt8 → σ) (isB : σ → Bool) (s : String) (spec : Spec)
    (h : parseSpec L s = some spec) (d : Bytes) (f1 f2 : List Nat) (e1 e2 : Bool) :
    chunksOf P blk init upd isB spec { data := d, frags := f1, eofWithData := e1 } =
    chunksOf P blk init upd isB spec { data := d, frags := f2, eofWithData := e2 } := by
  have hw := c06_parse_sound L hL s spec h
  cases spec with
  | size n => exact c06_size_frag_indep d f1 f2 e1 e2 n hw.1
  | buzhash => exact c06_buz_frag_indep P hP.1 d f1 f2 e1 e2
  | rabin mn avg mx => exact c06_rab_frag_indep _ hblk d f1 f2 e1 e2

/-! ### registry -/

/-- `Register` is add-only: a successful registration leaves the meaning of every spec string whose chunker name
was already registered (and of "" / "default") unchanged; in particular built-in specs keep their parse. -/
theorem c06_register_preserves (L : Limits) (reg reg' : Registry) (n : List Char) (h : register reg n = some reg')
    (cs : List Char) (hk : cs = [] ∨ cs = ['d', 'e', 'f', 'a', 'u', 'l', 't'] ∨ (splitOn '-' cs).head! ∈ reg) :
    parseWith L reg' cs = parseWith L reg cs :=
  parseWith_register L reg reg' n h cs hk

/-- a built-in name cannot be re-registered (the call panics), so built-ins cannot be shadowed -/
theorem c06_register_builtin_panics (reg : Registry) (n : List Char) (hb : ∀ m ∈ builtinNames, m ∈ reg)
    (hn : n ∈ builtinNames) : register reg n = none :=
  register_builtin_panics reg n hb hn

/-- with only the built-ins registered, `parseWith` is `parseChars` -/
theorem c06_parseWith_builtin (L : Limits) (cs : List Char) :
    parseWith L builtinNames cs = (parseChars L cs).map .builtin := by
  unfold parseWith parseChars
  by_cases hd : cs = [] ∨ cs = ['d', 'e', 'f', 'a', 'u', 'l', 't']
  · simp only [hd, if_true, Option.map_some]
  · simp only [hd, if_false]
    by_cases hin : (splitOn '-' cs).head! ∈ builtinNames
    · simp only [hin, if_true, parseChars, hd, if_false]
    · simp only [hin, if_false]
      have h1 : (splitOn '-' cs).head! ≠ ['s', 'i', 'z', 'e'] := fun h => hin (by rw [h]; decide)
      have h2 : (splitOn '-' cs).head! ≠ ['r', 'a', 'b', 'i', 'n'] := fun h => hin (by rw [h]; decide)
      have h3 : (splitOn '-' cs).head! ≠ ['b', 'u', 'z', 'h', 'a', 's', 'h'] := fun h => hin (by rw [h]; decide)
      simp only [h1, h2, h3, if_false, Option.map_none]

/-! ### non-vacuity: the extracted constants satisfy the hypotheses; the parser accepts and rejects -/

example : goLimits.ok := by decide
example : BuzFits goLimits goBuzP := by
  refine ⟨⟨?_, ?_⟩, ?_⟩ <;> decide
/-- the floor used by `goLimits` is the literal 16 found in the source by the extractor -/
example : goLimits.rabinMinFloor = 16 := by decide
example : parseChars goLimits ['r', 'a', 'b', 'i', 'n', '-', '4', '8'] = some (.rabin 16 48 72) := by decide
example : parseChars goLimits ['r', 'a', 'b', 'i', 'n', '-', '4', '7'] = none := by decide
example : parseChars goLimits ['r', 'a', 'b', 'i', 'n', '-', '0'] = none := by decide
example : parseChars goLimits ['s', 'i', 'z', 'e', '-', '5'] = some (.size 5) := by decide
example : parseChars goLimits ['s', 'i', 'z', 'e', '-', '0'] = none := by decide
example : parseChars goLimits ['r', 'a', 'b', 'i', 'n', '-', '1', '6', '-', 'a', 'v', 'g', ':', '3', '2', '-', '6', '4']
    = some (.rabin 16 32 64) := by decide
example : sizeChunks { data := [1, 2, 3, 4, 5], frags := [1, 0, 3], eofWithData := true } 2 = [[1, 2], [3, 4], [5]] := by
  decide
/-- a generic chunker that cuts after every byte equal to 0, with min 2 and max 4 -/
example : cdcChunks { min := 2, max := 4, blk := 3, init := fun _ => false, upd := fun _ b => b == 0, isB := id }
    { data := [7, 0, 0, 1, 1, 1, 1, 1, 0, 5], frags := [1, 2] } = [[7, 0], [0, 1, 1, 1], [1, 1, 0], [5]] := by decide
/-- the transcribed rabin loop on the same input (window 1: the first byte of every chunk is not hashed),
refills of 3 bytes, fragmented reader -/
example : rabChunks { min := 2, max := 4, blk := 3, win := 1, init := fun _ => false, upd := fun _ b => b == 0, isB := id }
    { data := [7, 0, 0, 1, 1, 1, 1, 1, 0, 5], frags := [1, 2] } = [[7, 0], [0, 1, 1, 1], [1, 1, 0], [5]] := by decide
/-- min < window: one chunk, although max = 4 -/
example : rabChunks { min := 2, max := 4, blk := 3, win := 16, init := fun _ => false, upd := fun _ b => b == 0, isB := id }
    { data := [7, 0, 0, 1, 1, 1, 1, 1, 0, 5] } = [[7, 0, 0, 1, 1, 1, 1, 1, 0, 5]] := by decide
example : register builtinNames ['v', 'x'] = some (['v', 'x'] :: builtinNames) := by decide
example : register builtinNames ['v', '-', 'x'] = none := by decide
example : parseWith goLimits (['v', 'x'] :: builtinNames) ['v', 'x', '-', '9'] = some (.custom ['v', 'x']) := by decide

end C06
