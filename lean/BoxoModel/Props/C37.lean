import BoxoModel.C37.Lemmas
import BoxoModel.C37.SWLemmas
/-!
# C37 — Bitswap exchange delivers requested blocks exactly once and cleans up (the getter / notification core)

Property theorems only. Every statement quantifies over every request `keys` (duplicates allowed, empty allowed)
and every schedule `evs : List Ev` of publishes (of any CID, requested or not, any number of times), context /
session cancellations, the channel operations of the two goroutines and consumer reads — i.e. over every
interleaving at the granularity of channel operations. Sessions, the network and timers are not modelled.
-/
namespace C37

/-- state of one GetBlocks request after a schedule -/
def after (keys : List Cid) (evs : List Ev) : St := run (start keys) evs

/-- each distinct requested key is delivered on the output channel at most once (duplicate keys in the request,
repeated publishes and any interleaving included) -/
theorem c37_at_most_once (keys : List Cid) (evs : List Ev) : (after keys evs).delivered.Nodup := by
  have h : Inv (after keys evs) := run_inv evs _ (inv_start keys)
  have hk : (after keys evs).keys = keys := by rw [after, run_keys, start_keys]
  apply nodup_of_count_le_one
  intro c
  have := h.cnt c
  simp only [tot] at this
  exact Nat.le_trans (by omega) this

/-- nothing but requested blocks is delivered -/
theorem c37_only_requested (keys : List Cid) (evs : List Ev) (c : Cid) (hc : c ∈ (after keys evs).delivered) :
    c ∈ keys := by
  have h : Inv (after keys evs) := run_inv evs _ (inv_start keys)
  have hk : (after keys evs).keys = keys := by rw [after, run_keys, start_keys]
  rw [← hk]
  apply h.inKeys c
  have : 0 < (after keys evs).delivered.count c := List.count_pos_iff.mpr hc
  simp only [tot]
  exact Nat.lt_of_lt_of_le this (by omega)

/-- **Cleanup.** `cancelWants` (the `cfun` of handleIncoming) is not called before handleIncoming returns; when it
has returned (for a non-empty request) it has been called exactly once, the output channel is closed, and the
argument is exactly the set of requested keys whose block handleIncoming did not receive — where what it received
is what the consumer was delivered plus at most one block it was holding when a context was cancelled. -/
theorem c37_cleanup (keys : List Cid) (evs : List Ev) :
    ((after keys evs).hExited = false → (after keys evs).cancelCalls = 0 ∧ (after keys evs).outClosed = false) ∧
    ((after keys evs).hExited = true → keys ≠ [] →
      ∃ r, (after keys evs).cancelArg = some r ∧ (after keys evs).cancelCalls = 1 ∧ (after keys evs).outClosed = true ∧
        (∀ c, c ∈ r ↔ (c ∈ keys ∧ c ∉ (after keys evs).taken)) ∧
        ∃ x, (after keys evs).taken = (after keys evs).delivered ++ x ∧ x.length ≤ 1) := by
  have h : Inv (after keys evs) := run_inv evs _ (inv_start keys)
  have hk : (after keys evs).keys = keys := by rw [after, run_keys, start_keys]
  refine ⟨fun he => ⟨(h.cw.1 he).2.1, (h.cw.1 he).2.2⟩, fun he hne => ?_⟩
  obtain ⟨a, b, c⟩ := h.cw.2 he (by rw [hk]; exact hne)
  obtain ⟨x, t1, t2, _⟩ := h.taken
  exact ⟨_, a, b, c, fun c => by rw [h.rem c, hk], x, t1, t2⟩

/-- **Completion.** If no context was cancelled and handleIncoming has returned, every requested key was
delivered and `cancelWants` was called with no keys. -/
theorem c37_complete (keys : List Cid) (evs : List Ev)
    (hctx : (after keys evs).ctxDone = false) (hsess : (after keys evs).sessDone = false)
    (he : (after keys evs).hExited = true) (hne : keys ≠ []) :
    (∀ c ∈ keys, c ∈ (after keys evs).delivered) ∧ (after keys evs).cancelArg = some [] := by
  have h : Inv (after keys evs) := run_inv evs _ (inv_start keys)
  have hk : (after keys evs).keys = keys := by rw [after, run_keys, start_keys]
  obtain ⟨l1, l2, l3⟩ := h.live hctx hsess
  obtain ⟨b1, b2, b3⟩ := l3 he
  obtain ⟨s1, s2⟩ := l2 b2
  have hdel : ∀ c ∈ keys, c ∈ (after keys evs).delivered := by
    intro c hc
    have hpos := l1 c (by rw [hk]; exact hc)
    simp only [tot, s1, s2, b1, h.heldNone he, h.fheldNone b2, List.count_nil, Option.toList_none] at hpos
    exact List.count_pos_iff.mp (by omega)
  refine ⟨hdel, ?_⟩
  obtain ⟨a, _, _⟩ := h.cw.2 he (by rw [hk]; exact hne)
  rw [a]
  congr 1
  apply List.eq_nil_iff_forall_not_mem.mpr
  intro c hc
  obtain ⟨hc1, hc2⟩ := (h.rem c).mp hc
  rw [hk] at hc1
  rw [b3] at hc2
  exact hc2 (hdel c hc1)

/-- **Why Subscribe must precede want() — the model's ordering assumption, and what breaks without it.**
`start` models AsyncGetBlocks as the code has it: `notif.Subscribe(keys)` first, then `want(keys)`. A block that is
published BEFORE the subscription exists reaches nobody (cskr/pubsub delivers to current subscribers only), i.e. it
is no event of the request at all. This theorem is the consequence: if the only publish of a requested key `c`
happened before the subscription (so the schedule after `start` contains no publish of `c`), then for EVERY
schedule `c` is never delivered — with want-before-subscribe a zero-latency peer's block is lost for good and the
request cannot complete (`c37_complete` needs every key delivered). The harness ties the real order with the
`zget` scenario (blocks published from inside the want callback must be delivered). -/
theorem c37_want_before_subscribe_loses_block (keys : List Cid) (c : Cid) (evs : List Ev)
    (hnopub : ∀ e ∈ evs, e ≠ .publish c) : c ∉ (after keys evs).delivered := by
  have h0 : inFlight (start keys) c = 0 := by
    unfold start; split <;> simp [inFlight]
  have h := run_nopub_inFlight c evs hnopub (start keys) h0
  intro hc
  have : 0 < (after keys evs).delivered.count c := List.count_pos_iff.mpr hc
  simp only [inFlight, after] at h this
  omega

/-! ## The session's want bookkeeping (sessionWants): cancelled CIDs are never broadcast again -/

/-- **CancelPending clears.** After `CancelPending(ks)` no `k ∈ ks` is wanted by the session any more (neither a
live want nor in the fetch queue), whatever the state was. -/
theorem c37_cancel_pending_clears (s : SW.St) (ks : List Cid) (k : Cid) (hk : k ∈ ks) :
    SW.isWanted (SW.cancelPending s ks) k = false :=
  (SW.nw_iff _ k).mp (SW.cancel_nw ks k hk s)

/-- **No re-broadcast after cancel.** From any state, after `CancelPending(ks)`, for EVERY later script of session
calls (idle-tick `PrepareBroadcast`, periodic-search `RandomLiveWant` with any random draw, `GetNextWants`,
`WantsSent`, `BlocksReceived`, `LiveWants`, further cancels, requests for other CIDs) that does not request
`k ∈ ks` again: no call returns `k` — the session never puts a cancelled CID back on the wire — and `k` is still
unwanted at the end. (The seeded change C37-A, CancelPending without `delete(liveWants, k)`, falsifies exactly this.) -/
theorem c37_no_rebroadcast_after_cancel (s : SW.St) (ks : List Cid) (k : Cid) (hk : k ∈ ks) (ops : List SW.Op)
    (hops : ∀ op ∈ ops, SW.requests k op = false) :
    (∀ out ∈ (SW.run (SW.cancelPending s ks) ops).2, k ∉ out) ∧
    SW.isWanted (SW.run (SW.cancelPending s ks) ops).1 k = false := by
  obtain ⟨a, b⟩ := SW.run_nw ops k hops _ (SW.cancel_nw ks k hk s)
  exact ⟨b, (SW.nw_iff _ k).mp a⟩

/-- The same for any CID the session does not want (e.g. one whose block was received): it is returned by no call
until it is requested again. -/
theorem c37_unwanted_never_broadcast (s : SW.St) (k : Cid) (h : SW.isWanted s k = false) (ops : List SW.Op)
    (hops : ∀ op ∈ ops, SW.requests k op = false) : ∀ out ∈ (SW.run s ops).2, k ∉ out :=
  (SW.run_nw ops k hops s ((SW.nw_iff s k).mpr h)).2

/-- non-vacuity: request 1 2 3 with limit 2, two become live, cancel 1; the idle tick broadcasts only 2 -/
example : (SW.run { limit := 2 } [.req [1, 2, 3], .next, .cancel [1], .bcast, .next, .bcast]).2 =
    [[], [1, 2], [], [2], [3], [2, 3]] := by decide

/-! Non-vacuity: a request with a duplicate key; every block published twice, one unrequested publish -/
def exSched : List Ev :=
  [.publish 7, .publish 1, .publish 1, .fRecv, .fSend, .hRecv, .read, .publish 2, .publish 2, .fRecv, .fSend, .hRecv,
   .read, .fRecv, .hRecv]
example : (after [1, 2, 1] exSched).delivered = [1, 2] := by decide
example : (after [1, 2, 1] exSched).cancelArg = some [] ∧ (after [1, 2, 1] exSched).outClosed = true := by decide
/-- cancellation while a block is in handleIncoming's hand: it is neither delivered nor cancelled -/
example : (after [1, 2] [.publish 1, .fRecv, .fSend, .hRecv, .cancel, .hCtx]).cancelArg = some [2] ∧
    (after [1, 2] [.publish 1, .fRecv, .fSend, .hRecv, .cancel, .hCtx]).delivered = [] := by decide

end C37
