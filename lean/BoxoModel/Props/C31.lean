import BoxoModel.C31.Lemmas
import BoxoModel.C31.TreeLemmas
/-!
C31 — trustless gateway responses are verifiable and sufficient: the part boxo's own code decides.

PARTIAL (see docs/notes/C31.md): these theorems cover the `entity-bytes` parser, the translation of a
range into Seek + Copy/CopyN (after the overflow fix) and the set of blocks a ranged read of a UnixFS file
loads — hence what a CAR recorded through that read contains — together with the statement that exactly
these blocks are needed to re-read the range.  Path traversal, directories, HAMT, dag-scope=all/block,
CAR framing, hashing and the selector engine are NOT modelled: they are checked on the real handler by the
offline replay of every response (harness/cmd/c31).
-/
namespace C31
open FileTree

/-- Accepted `entity-bytes` strings have exactly the shape `<int64> ":" (<int64> | "*")` with the
sign-dependent ordering rule: both bounds non-negative or both negative ⇒ from ≤ to. -/
theorem c31_range_parse_sound (s : Bytes) (r : Rng) (h : newDagByteRange s = some r) :
    ∃ a b, s = a ++ 58 :: b ∧ 58 ∉ a ∧ 58 ∉ b ∧ parseInt64 a = some r.from_ ∧ int64 r.from_
      ∧ ((b = [42] ∧ r.to = none)
         ∨ ∃ t, parseInt64 b = some t ∧ r.to = some t ∧ int64 t
             ∧ ¬ (r.from_ ≥ 0 ∧ t ≥ 0 ∧ r.from_ > t) ∧ ¬ (r.from_ < 0 ∧ t < 0 ∧ r.from_ > t)) := by
  unfold newDagByteRange at h
  split at h
  · rename_i a b hsp
    obtain ⟨e1, e2, e3⟩ := splitColon_join s a b hsp
    cases ha : parseInt64 a with
    | none => simp [ha] at h
    | some f =>
      simp only [ha] at h
      have hfb := parseInt64_bounds a f ha
      by_cases hstar : b = [42]
      · simp only [hstar, if_true, Option.some.injEq] at h
        subst h
        exact ⟨a, b, e1, e2, e3, ha, hfb, Or.inl ⟨hstar, rfl⟩⟩
      · simp only [hstar, if_false] at h
        cases hb : parseInt64 b with
        | none => simp [hb] at h
        | some t =>
          simp only [hb] at h
          split at h
          · simp at h
          · split at h
            · simp at h
            · rename_i h1 h2
              simp only [Option.some.injEq] at h
              subst h
              exact ⟨a, b, e1, e2, e3, ha, hfb, Or.inr ⟨t, hb, rfl, parseInt64_bounds b t hb, h1, h2⟩⟩
  · simp at h

/-- Completeness: two parsable integers around a single colon are accepted iff the ordering rule holds,
and yield exactly those bounds; `<int>:*` is always accepted. -/
theorem c31_range_parse_complete (a b : Bytes) (f : Int) (ha : 58 ∉ a) (hb : 58 ∉ b)
    (hf : parseInt64 a = some f) :
    newDagByteRange (a ++ 58 :: [42]) = some ⟨f, none⟩
    ∧ ∀ t, parseInt64 b = some t →
        newDagByteRange (a ++ 58 :: b)
          = if (f ≥ 0 ∧ t ≥ 0 ∧ f > t) ∨ (f < 0 ∧ t < 0 ∧ f > t) then none else some ⟨f, some t⟩ := by
  constructor
  · unfold newDagByteRange
    rw [splitColon_two a [42] ha (by simp)]
    simp [hf]
  · intro t ht
    unfold newDagByteRange
    rw [splitColon_two a b ha hb]
    have hne : b ≠ [42] := by
      intro he
      rw [he] at ht
      simp [parseInt64, parseDigits, isDigit] at ht
    simp only [hf, ht, hne, if_false]
    by_cases h1 : f ≥ 0 ∧ t ≥ 0 ∧ f > t
    · simp [h1]
    · by_cases h2 : f < 0 ∧ t < 0 ∧ f > t
      · simp [h2]
      · simp [h1, h2]

/-- Range → reads: unless the request is inverted (`err`, exactly when the last requested byte lies more
than one before the first), the bytes delivered by Seek(start) + Copy/CopyN are precisely the requested
bytes that exist in a file of `size` bytes (documented semantics of From/To, negative = from the end,
open end, beyond the end, To = MaxInt64 included). -/
theorem c31_range_plan (size : Nat) (r : Rng) (hf : int64 r.from_) (ht : ∀ t, r.to = some t → int64 t)
    (hs : (size : Int) < 2 ^ 63) :
    (plan size r = .err ↔ ∃ e, endOf size r = some e ∧ e < startOf size r - 1)
    ∧ ∀ off n, span size (plan size r) = some (off, n) →
        ∀ i : Nat, (off ≤ i ∧ i < off + n) ↔ wanted size r i :=
  ⟨plan_err_iff size r, fun off n hsp i => span_iff_wanted size r hf ht hs off n hsp i⟩

/-- The (fixed) Go computation never leaves int64 on int64 inputs, so the `Int` model is exact. -/
theorem c31_range_no_overflow (size : Int) (r : Rng) (hs0 : 0 ≤ size) (hs : size < 2 ^ 63) (hf : int64 r.from_)
    (ht : ∀ t, r.to = some t → int64 t) :
    (r.from_ < 0 → int64 (size + r.from_)) ∧ int64 (startOf size r) ∧ int64 (startOf size r - 1)
    ∧ ∀ e, endOf size r = some e →
        int64 e ∧ (¬ e < startOf size r - 1 → int64 (e - startOf size r)
          ∧ (e - startOf size r ≠ 2 ^ 63 - 1 → int64 (e - startOf size r + 1))) :=
  plan_no_overflow size r hs0 hs hf ht

/-- Sufficiency: over ANY block set containing `cover t idx off n`, re-reading `n` bytes at `off` of a
well-sized file DAG (any shape, any depth) succeeds and yields exactly those bytes of the file. -/
theorem c31_cover_sufficient (hv : Nat → Bool) (t : FNode) (idx off n : Nat) (hw : wellSized t = true)
    (hall : ∀ i ∈ cover t idx off n, hv i = true) :
    readP hv t idx off n = some (((content t).drop off).take n) := by
  rw [readP_eq hv t idx off n hw]
  have : (cover t idx off n).all hv = true := List.all_eq_true.mpr hall
  simp [this]

/-- Minimality for this reader: if any block of `cover` is absent the read fails — the CAR recorded
through the ranged read contains no block the replay could do without. -/
theorem c31_cover_minimal (hv : Nat → Bool) (t : FNode) (idx off n : Nat) (hw : wellSized t = true)
    (i : Nat) (hi : i ∈ cover t idx off n) (habs : hv i = false) :
    readP hv t idx off n = none := by
  rw [readP_eq hv t idx off n hw]
  have : (cover t idx off n).all hv = false := by
    apply Bool.eq_false_iff.mpr
    intro hall
    have := List.all_eq_true.mp hall i hi
    simp [habs] at this
  simp [this]

/-- End to end for dag-scope=entity on a file: when the request is not inverted, the blocks the model
predicts for the CAR suffice to re-read exactly the requested bytes of the file. -/
theorem c31_entity_file_sufficient (hv : Nat → Bool) (t : FNode) (r : Rng) (hw : wellSized t = true)
    (hf : int64 r.from_) (ht : ∀ t', r.to = some t' → int64 t') (hs : ((size t : Nat) : Int) < 2 ^ 63)
    (bl : List Nat) (hb : entityBlocks t r = (false, bl)) (hall : ∀ i ∈ bl, hv i = true) :
    ∃ off n, span (size t) (plan (size t) r) = some (off, n)
      ∧ (∀ i : Nat, (off ≤ i ∧ i < off + n) ↔ wanted (size t) r i)
      ∧ (n > 0 → readP hv t 0 off n = some (((content t).drop off).take n)) := by
  unfold entityBlocks at hb
  cases hsp : span (size t) (plan (size t) r) with
  | none => simp [hsp] at hb
  | some p =>
    obtain ⟨off, n⟩ := p
    simp only [hsp, Prod.mk.injEq, true_and] at hb
    refine ⟨off, n, rfl, fun i => span_iff_wanted (size t) r hf ht hs off n hsp i, ?_⟩
    intro hn
    apply c31_cover_sufficient hv t 0 off n hw
    intro i hi
    apply hall
    rw [← hb]
    unfold coverTop
    have : ¬ n = 0 := by omega
    simp [this, hi]

/-- Raw block response: the body is the stored bytes of the resolved CID (specification lemma; the hash
check is done on the real response by the harness). -/
theorem c31_block {κ : Type} [DecidableEq κ] (store : κ → Option Bytes) (c : κ) (b : Bytes)
    (h : store c = some b) : rawResponse store c = some b := h

/-! ### every scope, every terminal kind: the CAR block set over the labelled tree model -/

/-- Path part: the offline re-run of ResolveToLastNode over a partial block set succeeds — with the same
outcome as over the full store (the terminal element, or the same ErrNoLink / error, i.e. a verifiable
absence) — iff the set contains `pathBlocks` (root, intermediate nodes, and the HAMT child shards on the
digit path of every looked-up name). No hypothesis on the tree. -/
theorem c31_path_replay (hv : Nat → Bool) (H : Bytes → Bytes) (root : Tr) (segs : List Bytes) :
    resolveP hv H root segs
      = if (pathBlocks H root segs).all hv then some (resolveT H root segs).1 else none :=
  resolveP_eq hv H root segs

/-- Scope part: the replay of the requested scope on the terminal element (block: the block; entity:
the requested bytes of a file / the complete listing of a basic or HAMT directory / the symlink node;
all: a walk of the whole DAG) succeeds iff the set contains `scopeBlocks`, and then yields the complete
answer `scopeSpec`. -/
theorem c31_scope_replay (hv : Nat → Bool) (t : Tr) (sc : Scope) (r : Rng) (hw : t.wellSizedFile = true) :
    scopeP hv t sc r = if (scopeBlocks t sc r).2.all hv then some (scopeSpec t sc r) else none :=
  scopeP_eq hv t sc r hw

/-- Sufficiency for every scope: over any block set containing the model's CAR block set
(`carBlocks` = `pathBlocks ++ scopeBlocks`, the set the real CAR is diffed against) the whole replay
succeeds and returns the complete answer. -/
theorem c31_car_sufficient (hv : Nat → Bool) (H : Bytes → Bytes) (root : Tr) (segs : List Bytes) (sc : Scope)
    (r : Rng) (e : Bool) (bl : List Nat) (hc : carBlocks H root segs sc r = some (e, bl))
    (hall : ∀ i ∈ bl, hv i = true) :
    ∃ t, (resolveT H root segs).1 = .ok t
      ∧ (t.wellSizedFile = true → replayP hv H root segs sc r = some (some (scopeSpec t sc r))) := by
  unfold carBlocks at hc
  cases ht : (resolveT H root segs).1 with
  | ok t =>
    simp only [ht, Option.some.injEq, Prod.mk.injEq] at hc
    refine ⟨t, rfl, fun hw => ?_⟩
    rw [replayP_eq hv H root segs sc r t ht hw]
    have : (pathBlocks H root segs ++ (scopeBlocks t sc r).2).all hv = true := by
      rw [hc.2]; exact List.all_eq_true.mpr hall
    simp [this]
  | noLink n => simp [ht] at hc
  | err => simp [ht] at hc

/-- Minimality for every scope: if any block of the model's CAR block set is absent, the replay fails. -/
theorem c31_car_minimal (hv : Nat → Bool) (H : Bytes → Bytes) (root : Tr) (segs : List Bytes) (sc : Scope)
    (r : Rng) (e : Bool) (bl : List Nat) (hc : carBlocks H root segs sc r = some (e, bl))
    (i : Nat) (hi : i ∈ bl) (habs : hv i = false)
    (hw : ∀ t, (resolveT H root segs).1 = .ok t → t.wellSizedFile = true) :
    replayP hv H root segs sc r = none := by
  unfold carBlocks at hc
  cases ht : (resolveT H root segs).1 with
  | ok t =>
    simp only [ht, Option.some.injEq, Prod.mk.injEq] at hc
    rw [replayP_eq hv H root segs sc r t ht (hw t ht)]
    have : (pathBlocks H root segs ++ (scopeBlocks t sc r).2).all hv = false := by
      rw [hc.2]
      apply Bool.eq_false_iff.mpr
      intro hall
      have := List.all_eq_true.mp hall i hi
      simp [habs] at this
    simp [this]
  | noLink n => simp [ht] at hc
  | err => simp [ht] at hc

/-! ### non-vacuity -/

private def exH : Bytes → Bytes
  | [97] => [0x20, 0, 0, 0, 0, 0, 0, 0]   -- "a": digits 1,…
  | [98] => [0xA8, 0, 0, 0, 0, 0, 0, 0]   -- "b": digits 5,2,…
  | [99] => [0xB8, 0, 0, 0, 0, 0, 0, 0]   -- "c": digits 5,6,…
  | _ => [0, 0, 0, 0, 0, 0, 0, 0]

/-- root dir(0) / "d" → HAMT(1) { "a" → file(2); child shard(3) { "b" → file(4,5,6), "c" → sym(7) } } -/
private def exTr : Tr :=
  .dir 0 [([100], .hdir 1 8 0x22
    (.val [49, 97] (.file 2 true (.leaf [1, 2]) [2])
      (.sub [53] 3 8 0x44
        (.val [50, 98] (.file 4 false (.node 4 [(.leaf [1, 2], 2), (.leaf [3, 4], 2)]) [4, 5, 6])
          (.val [54, 99] (.sym 7) .nil)) .nil)))]

example : carBlocks exH exTr [[100], [98]] .entity ⟨2, none⟩ = some (false, [0, 1, 3, 4, 6]) := by decide
example : carBlocks exH exTr [[100], [98]] .block ⟨0, none⟩ = some (false, [0, 1, 3, 4]) := by decide
example : carBlocks exH exTr [[100]] .entity ⟨0, none⟩ = some (false, [0, 1, 3]) := by decide
example : carBlocks exH exTr [[100]] .all ⟨0, none⟩ = some (false, [0, 1, 2, 3, 4, 5, 6, 7]) := by decide
example : carBlocks exH exTr [[100], [122]] .all ⟨0, none⟩ = none := by decide
example : pathBlocks exH exTr [[100], [122]] = [0, 1] := by decide
example : replayP (fun i => i != 3) exH exTr [[100], [98]] .block ⟨0, none⟩ = none := by decide
example : replayP (fun i => i != 5) exH exTr [[100], [98]] .entity ⟨2, none⟩ = some (some (.bytes [3, 4])) := by decide


private def exTree : FNode :=
  .node 10 [(.node 6 [(.leaf [1, 2, 3], 3), (.leaf [4, 5, 6], 3)], 6), (.leaf [7, 8, 9, 10], 4)]

example : wellSized exTree = true := by decide
example : cover exTree 0 2 3 = [0, 1, 2, 3] := by decide         -- bytes 2..4: both leaves of the first subtree
example : cover exTree 0 6 2 = [0, 4] := by decide               -- bytes 6..7: the last leaf only
example : readP (fun i => i != 3) exTree 0 2 3 = none := by decide
example : readP (fun i => i != 4) exTree 0 2 3 = some [3, 4, 5] := by decide
example : newDagByteRange [49, 48, 58, 50, 48] = some ⟨10, some 20⟩ := by decide
example : newDagByteRange [45, 53, 58, 42] = some ⟨-5, none⟩ := by decide
example : newDagByteRange [53, 58, 51] = none := by decide
example : newDagByteRange [53, 58, 45, 51] = some ⟨5, some (-3)⟩ := by decide
example : plan 10 ⟨0, some (2 ^ 63 - 1)⟩ = .toEnd 0 := by decide
example : plan 10 ⟨5, some (-8)⟩ = .err := by decide
example : entityBlocks exTree ⟨-3, none⟩ = (false, [0, 4]) := by decide

end C31
