import BoxoModel.C44.Lemmas
import BoxoModel.Gen.C44
/-!
# C44 — Reproviding announces every allowed key and terminates

Property theorems only (helpers: `BoxoModel/C44/Lemmas.lean`; model: `BoxoModel/C44/Model.lean`).
`cfg.fixed = true` is the code with the `fix:` commit "provider: Reprovide never terminates with a zero
batch size".  All statements quantify over every allowlist, every key stream (any length, duplicates,
rejected CIDs anywhere), every batch limit and threshold (0 included), every pattern of router failures
(`ok`) and every behaviour of the throughput callback (`more`).
-/
namespace C44
open C04

/-- what `New` guarantees: a router without ProvideMany gets batch size 1 -/
def Cfg.wf (cfg : Cfg) : Prop := cfg.many = false → cfg.maxBatch = 1

/-- Termination: the reprovide loop ends (within `ks.length + 1` iterations) for EVERY configuration. -/
theorem c44_terminates (cfg : Cfg) (hfix : cfg.fixed = true) (st : St) (ks : List Cid) (ok more : Nat → Bool) :
    (reprovide cfg st ks ok more).isSome = true := by
  have := loop_fuel_ok cfg (batchSize cfg st) ok more (batchSize_pos cfg hfix st) (ks.length + 1)
    { rest := ks, cids := [], st := st } (by simp)
  unfold reprovide
  cases h : loop cfg (batchSize cfg st) ok more (ks.length + 1) { rest := ks, cids := [], st := st } with
  | none => simp [h] at this
  | some r => simp

/-- The finding (code before the fix): with a zero batch size — `MaxBatchSize(0)`, or a live throughput
callback with threshold 0 — the loop makes no progress: whatever the fuel, it never finishes, and it
never calls the router. Holds for every key stream, the empty one included. -/
theorem c44_unfixed_counterexample (cfg : Cfg) (hunf : cfg.fixed = false) (st : St)
    (hz : cfg.maxBatch = 0 ∨ (st.cbLive = true ∧ cfg.thr = 0 ∧ cfg.maxBatch > 0)) (ks : List Cid)
    (ok more : Nat → Bool) :
    ∀ fuel, loop cfg (batchSize cfg st) ok more fuel { rest := ks, cids := [], st := st } = none := by
  have hb : batchSize cfg st = 0 := by
    simp only [batchSize, hunf, Bool.false_and, Bool.false_eq_true, if_false]
    rcases hz with h | ⟨h1, h2, h3⟩
    · simp [h]
    · simp [h1, h2, h3]
  intro fuel
  rw [hb]
  exact loop_zero cfg ok more fuel _ rfl

/-- Every key of the stream that passes the allowlist is passed to the router (as a multihash) at least once. -/
theorem c44_announces (cfg : Cfg) (hwf : cfg.wf) (st st' : St) (ks : List Cid) (ok more : Nat → Bool)
    (evs : List Ev) (h : reprovide cfg st ks ok more = some (st', evs)) :
    ∀ c ∈ ks, valid cfg.al c = true → c.mh ∈ announced evs := by
  unfold reprovide at h
  cases hl : loop cfg (batchSize cfg st) ok more (ks.length + 1) { rest := ks, cids := [], st := st } with
  | none => simp [hl] at h
  | some r =>
    simp only [hl, Option.some.injEq, Prod.mk.injEq] at h
    obtain ⟨_, rfl⟩ := h
    have hs : cfg.many = false → batchSize cfg st ≤ 1 := by
      intro hm; have := (batchSize_le cfg st).1; rw [hwf hm] at this; simpa using this
    exact (loop_spec cfg _ ok more hs _ _ r.1 r.2 (by simp) hl).1

/-- Nothing else is announced: every announced multihash is the multihash of a key of the stream that
passes the allowlist — in particular a rejected key is never announced. -/
theorem c44_only_allowed (cfg : Cfg) (hwf : cfg.wf) (st st' : St) (ks : List Cid) (ok more : Nat → Bool)
    (evs : List Ev) (h : reprovide cfg st ks ok more = some (st', evs)) :
    ∀ k ∈ announced evs, (∃ c ∈ ks, valid cfg.al c = true ∧ c.mh = k) ∧ validate cfg.al k.1 k.2.1 = .ok := by
  unfold reprovide at h
  cases hl : loop cfg (batchSize cfg st) ok more (ks.length + 1) { rest := ks, cids := [], st := st } with
  | none => simp [hl] at h
  | some r =>
    simp only [hl, Option.some.injEq, Prod.mk.injEq] at h
    obtain ⟨_, rfl⟩ := h
    have hs : cfg.many = false → batchSize cfg st ≤ 1 := by
      intro hm; have := (batchSize_le cfg st).1; rw [hwf hm] at this; simpa using this
    intro k hk
    obtain ⟨c, hc, hv, rfl⟩ := (loop_spec cfg _ ok more hs _ _ r.1 r.2 (by simp) hl).2.1 k hk
    exact ⟨⟨c, hc, hv, rfl⟩, (valid_iff cfg.al c).1 hv⟩

/-- Every router call carries at most `max 1 MaxBatchSize` keys, and at most `max 1 threshold` keys while
a throughput callback is set (a configured 0 counts as 1 — the fix). -/
theorem c44_batch_bound (cfg : Cfg) (hwf : cfg.wf) (st st' : St) (ks : List Cid) (ok more : Nat → Bool)
    (evs : List Ev) (h : reprovide cfg st ks ok more = some (st', evs)) :
    ∀ keys, Ev.prov keys ∈ evs →
      keys.length ≤ max 1 cfg.maxBatch ∧ (st.cbLive = true → keys.length ≤ max 1 cfg.thr) := by
  unfold reprovide at h
  cases hl : loop cfg (batchSize cfg st) ok more (ks.length + 1) { rest := ks, cids := [], st := st } with
  | none => simp [hl] at h
  | some r =>
    simp only [hl, Option.some.injEq, Prod.mk.injEq] at h
    obtain ⟨_, rfl⟩ := h
    have hb := batchSize_le cfg st
    have hs : cfg.many = false → batchSize cfg st ≤ 1 := by
      intro hm; have := hb.1; rw [hwf hm] at this; simpa using this
    intro keys hk
    have := (loop_spec cfg _ ok more hs _ _ r.1 r.2 (by simp) hl).2.2 keys hk
    exact ⟨Nat.le_trans this hb.1, fun hc => Nat.le_trans this (hb.2 hc)⟩

/-- Prioritized provider: every key of every stream (whose KeyChanFunc did not fail) is emitted. -/
theorem c44_prioritized_complete (streams : List (Option (List Cid))) (ks : List Cid) (h : some ks ∈ streams) :
    ∀ c ∈ ks, c ∈ prioritized streams := by
  intro c hc
  simpa [prioritized] using (prioParts_spec streams []).1 ks h c hc

/-- Prioritized provider: the output is the concatenation of one part per stream (the i-th part made of
keys of the i-th stream), and a key emitted for a stream is never emitted again for a later stream. -/
theorem c44_prioritized_no_repeat (streams : List (Option (List Cid))) :
    prioritized streams = (prioParts [] streams).flatten ∧
    (prioParts [] streams).length = streams.length ∧
    (∀ (i : Nat) (p : List Cid), (prioParts [] streams)[i]? = some p → ∀ c ∈ p, ∃ ks, streams[i]? = some (some ks) ∧ c ∈ ks) ∧
    (prioParts [] streams).Pairwise (fun earlier later => ∀ c ∈ earlier, c ∉ later) :=
  ⟨rfl, prioParts_length streams [], prioParts_sub streams [], (prioParts_spec streams []).2.2⟩

/-- within a stream that is not the last one, repeats are suppressed too -/
theorem c44_prioritized_nodup (visited ks : List Cid) : (handleStream true visited ks).1.Nodup :=
  ((handleStream_spec true ks visited).2.2.2.1 rfl).2

/-! ## Deepening: early exits, statistics, Ready(), the other key-provider combinators -/

/-- Reprovide terminates in every case: a failing key provider or an already cancelled context ends it before
anything is provided (no router call, no callback, state untouched, an error is returned); otherwise `c44_terminates`. -/
theorem c44_terminates_all (cfg : Cfg) (hfix : cfg.fixed = true) (st : St) (early : Option Early) (ks : List Cid)
    (ok more : Nat → Bool) :
    (reprovideE cfg st early ks ok more).isSome = true ∧
    (∀ e, early = some e → reprovideE cfg st early ks ok more = some (st, [], true)) := by
  cases early with
  | some e => simp [reprovideE]
  | none =>
    refine ⟨?_, by simp⟩
    have := c44_terminates cfg hfix st ks ok more
    unfold reprovide at this
    unfold reprovideE
    cases h : loop cfg (batchSize cfg st) ok more (ks.length + 1) { rest := ks, cids := [], st := st } with
    | none => simp [h] at this
    | some r => simp

/-- Statistics: Stat().TotalReprovides grows by exactly the number of multihashes in SUCCESSFUL router calls —
with a router that never fails, by the number of announced multihashes; LastReprovideBatchSize and the number of
Ready() polls are bounded by the batch size resp. the number of router calls. -/
theorem c44_stats (cfg : Cfg) (st st' : St) (ks : List Cid) (more : Nat → Bool) (evs : List Ev)
    (hwf : cfg.wf) (h : reprovide cfg st ks (fun _ => true) more = some (st', evs)) :
    st'.total = st.total + (announced evs).length := by
  unfold reprovide at h
  cases hl : loop cfg (batchSize cfg st) (fun _ => true) more (ks.length + 1) { rest := ks, cids := [], st := st } with
  | none => simp [hl] at h
  | some r =>
    simp only [hl, Option.some.injEq, Prod.mk.injEq] at h
    obtain ⟨rfl, rfl⟩ := h
    have hs : cfg.many = false → batchSize cfg st ≤ 1 := by
      intro hm; have := (batchSize_le cfg st).1; rw [hwf hm] at this; simpa using this
    exact loop_total cfg _ more hs _ _ r.1 r.2 (by simp) hl

/-- NewConcatProvider: the keys of all (non-failing) streams, in order, with their multiplicities. -/
theorem c44_concat (streams : List (Option (List Cid))) :
    concat streams = (streams.filterMap id).flatten ∧
    (∀ ks, some ks ∈ streams → ∀ c ∈ ks, c ∈ concat streams) := by
  have h1 : concat streams = (streams.filterMap id).flatten := by
    induction streams with
    | nil => rfl
    | cons x r ih => cases x <;> simp [concat, ih]
  refine ⟨h1, ?_⟩
  intro ks hks c hc
  rw [h1]
  simp only [List.mem_flatten, List.mem_filterMap, id]
  exact ⟨ks, ⟨some ks, hks, rfl⟩, hc⟩

/-! Non-vacuity -/
example : reprovide { al := .dflt, maxBatch := 2, thr := 0, many := true } { cbLive := false }
    [⟨1, 0x12, 32, 0⟩, ⟨1, 0xd5, 16, 0⟩, ⟨1, 0x12, 32, 1⟩, ⟨1, 0x12, 32, 0⟩, ⟨1, 0x12, 32, 2⟩] (fun _ => true) (fun _ => true)
    = some ({ cbLive := false, cnt := 4, total := 4, lastBatch := 1 }, [.prov [(0x12, 32, 0)], .prov [(0x12, 32, 1), (0x12, 32, 0)], .prov [(0x12, 32, 2)]]) := by
  decide
example : reprovide { al := .dflt, maxBatch := 0, thr := 0, many := true } { cbLive := false }
    [⟨1, 0x12, 32, 0⟩] (fun _ => true) (fun _ => true) = some ({ cbLive := false, cnt := 1, total := 1, lastBatch := 1 }, [.prov [(0x12, 32, 0)]]) := by
  decide
example : reprovide { al := .dflt, maxBatch := 0, thr := 0, many := true, fixed := false } { cbLive := false }
    [⟨1, 0x12, 32, 0⟩] (fun _ => true) (fun _ => true) = none := by decide
example : prioritized [some [⟨1, 0x12, 32, 0⟩, ⟨1, 0x12, 32, 1⟩, ⟨1, 0x12, 32, 0⟩], none,
    some [⟨1, 0x12, 32, 1⟩, ⟨1, 0x12, 32, 2⟩, ⟨1, 0x12, 32, 2⟩]] =
    [⟨1, 0x12, 32, 0⟩, ⟨1, 0x12, 32, 1⟩, ⟨1, 0x12, 32, 2⟩, ⟨1, 0x12, 32, 2⟩] := by decide

/-- T-gen tie: the model's `batchSize` is the computation at the top of `Reprovide` with its two guards
REGENERATED from provider/reprovider.go on every run (`Gen.C44.capByThroughput`, `Gen.C44.zeroBatch` — the
second is the guard added by the zero-batch `fix:` commit; removing it makes the regeneration fail). -/
theorem c44_gen_batchSize (cfg : Cfg) (hfix : cfg.fixed = true) (st : St) :
    batchSize cfg st =
      (let b := if Gen.C44.capByThroughput st.cbLive cfg.thr cfg.maxBatch then cfg.thr else cfg.maxBatch
       if Gen.C44.zeroBatch b then 1 else b) := by
  simp [batchSize, hfix, Gen.C44.capByThroughput, Gen.C44.zeroBatch]

/-- T-gen tie: the model calls the throughput callback after a successful batch exactly when the regenerated
condition `s.throughputCallback != nil && count >= minimum` holds (and then resets the counter). -/
theorem c44_gen_callback (cfg : Cfg) (more : Nat → Bool) (st : St) (cbCalls n : Nat) (all : Bool)
    (hr : cfg.hasReady = false) :
    (Gen.C44.callbackDue st.cbLive (st.cnt + n) cfg.thr = true →
      (account cfg more st cbCalls n true all).2.2 = [.cb all (st.cnt + n)] ∧
      (account cfg more st cbCalls n true all).1.cnt = 0) ∧
    (Gen.C44.callbackDue st.cbLive (st.cnt + n) cfg.thr = false →
      (account cfg more st cbCalls n true all).2.2 = [] ∧
      (account cfg more st cbCalls n true all).1.cnt = st.cnt + n) := by
  constructor
  · intro h
    have h' : st.cbLive = true ∧ cfg.thr ≤ st.cnt + n := by simpa [Gen.C44.callbackDue] using h
    simp [account, hr, h'.1, h'.2]
  · intro h
    have h' : st.cbLive = true → st.cnt + n < cfg.thr := by simpa [Gen.C44.callbackDue] using h
    cases hc : st.cbLive with
    | false => simp [account, hr, hc]
    | true =>
      have := h' hc
      have hn : ¬ cfg.thr ≤ st.cnt + n := by omega
      simp [account, hr, hc, hn]

example : Gen.C44.zeroBatch 0 = true ∧ Gen.C44.capByThroughput true 3 10 = true ∧ Gen.C44.callbackDue true 5 5 = true ∧
    Gen.C44.callbackDue false 5 5 = false := by decide

end C44
