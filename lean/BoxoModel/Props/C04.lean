import BoxoModel.C04.Lemmas
/-!
# C04 — Only allowlisted hashes and digest sizes enter or leave the block service

Property theorems only (helpers: `BoxoModel/C04/Lemmas.lean`; model: `BoxoModel/C04/Model.lean`;
regenerated definitions of the default allowlist: `BoxoModel/Gen/C04.lean`).
All statements quantify over every allowlist constructible from package verifcid (any nesting of
overrides, any allow-set), every multihash code and digest length (unbounded naturals, resp. every
`uint64` for the regenerated definitions), every request history and every behaviour of the exchange.
-/
namespace C04

/-- ValidateCid accepts exactly when the function is allowed and the digest length is within
`[min, max]` of that function. -/
theorem c04_validate_iff (al : Allowlist) (code len : Nat) :
    validate al code len = .ok ↔
      (al.isAllowed code = true ∧ al.minDigest code ≤ len ∧ len ≤ al.maxDigest code) :=
  validate_ok_iff al code len

/-- which error is reported: disallowed function first, then too small, then too large -/
theorem c04_validate_errors (al : Allowlist) (code len : Nat) :
    (validate al code len = .insecure ↔ al.isAllowed code = false) ∧
    (validate al code len = .small ↔ al.isAllowed code = true ∧ len < al.minDigest code) ∧
    (validate al code len = .large ↔
      al.isAllowed code = true ∧ al.minDigest code ≤ len ∧ al.maxDigest code < len) := by
  unfold validate
  cases h : al.isAllowed code <;> simp
  by_cases h1 : len < al.minDigest code
  · simp [h1]; try omega
  · by_cases h2 : len > al.maxDigest code
    · simp [h1, h2]; try omega
    · simp [h1, h2]; try omega

/-- closed form of the default allowlist: sha1, sha2-256/512, sha3-224..512, keccak-224..512, shake-256,
dbl-sha2-256, blake3, identity, blake2b-160..512, blake2s-160..256 -/
theorem c04_default_allowed (code : Nat) :
    Allowlist.dflt.isAllowed code = true ↔
      code ∈ [0x00, 0x11, 0x12, 0x13, 0x14, 0x15, 0x16, 0x17, 0x19, 0x1a, 0x1b, 0x1c, 0x1d, 0x1e, 0x56] ∨
      (0xb201 + 19 ≤ code ∧ code ≤ 0xb240) ∨ (0xb241 + 19 ≤ code ∧ code ≤ 0xb260) := by
  simp only [Allowlist.isAllowed, defaultIsAllowed_eq]
  simp
  omega

/-- minimum 20 (identity: 0), maximum 128, for every allowlist (overrides delegate down to the default) -/
theorem c04_digest_bounds (al : Allowlist) (code : Nat) :
    al.minDigest code = (if code = 0 then 0 else 20) ∧ al.maxDigest code = 128 := by
  induction al with
  | dflt => constructor <;> (simp only [Allowlist.minDigest, Allowlist.maxDigest, defaultMin, defaultMax]; split <;> simp_all)
  | plain s => constructor <;> (simp only [Allowlist.minDigest, Allowlist.maxDigest, defaultMin, defaultMax]; split <;> simp_all)
  | over ov s ih => simpa [Allowlist.minDigest, Allowlist.maxDigest] using ih

/-- an allow-set entry decides; otherwise the override (or "not allowed") -/
theorem c04_override (ov : Allowlist) (set : List (Nat × Bool)) (code : Nat) :
    (Allowlist.over ov set).isAllowed code = (match set.lookup code with | some g => g | none => ov.isAllowed code) ∧
    (Allowlist.plain set).isAllowed code = (match set.lookup code with | some g => g | none => false) := by
  constructor <;> rfl

/-! T-gen obligations: the definitions regenerated from verifcid/allowlist.go on every run are the ones
the model (and so every theorem above and below) uses. A semantic change of `defaultAllowlist` breaks these. -/
theorem c04_gen_isAllowed (code : BitVec 64) : Gen.C04.isAllowed code = Allowlist.dflt.isAllowed code.toNat :=
  gen_isAllowed code
theorem c04_gen_minDigest (code : BitVec 64) :
    (Gen.C04.minDigestSize code).toNat = Allowlist.dflt.minDigest code.toNat := gen_minDigest code
theorem c04_gen_maxDigest (code : BitVec 64) :
    (Gen.C04.maxDigestSize code).toNat = Allowlist.dflt.maxDigest code.toNat := gen_maxDigest code

/-- the validator with the default allowlist, stated over the regenerated definitions -/
theorem c04_validate_default_gen (code : BitVec 64) (len : Nat) :
    validate .dflt code.toNat len = .ok ↔
      (Gen.C04.isAllowed code = true ∧ (Gen.C04.minDigestSize code).toNat ≤ len ∧
        len ≤ (Gen.C04.maxDigestSize code).toNat) := by
  rw [c04_validate_iff, c04_gen_isAllowed, c04_gen_minDigest, c04_gen_maxDigest]

/-- The two-phase key filtering of getBlocks (first-invalid-index loop, whose index is off by one when
every key is valid, followed by the re-scan) is `filter valid`, for every key list. -/
theorem c04_filter_eq (al : Allowlist) (ks : List Cid) : filterKeys al ks = ks.filter (valid al) :=
  filterKeys_eq al ks

/-- No store write, exchange request, exchange notification or returned block carries a CID the
validator rejects — for every history of AddBlock / AddBlocks / GetBlock / GetBlocks / DeleteBlock calls
(single, batched, session or not: the same functions), every initial store, every exchange behaviour and every
pattern of blockstore write failures and read failures (each `Op` carries its `pf` and `rd`; attempted writes
count too: `Ev.putFail`). -/
theorem c04_no_invalid_io (cfg : Cfg) (hfix : cfg.fixed = true) (ops : List Op) (st : Store) :
    ∀ ev ∈ (run cfg st ops).2, evOk cfg.al ev = true :=
  (run_ok cfg hfix ops st).1

/-- The blockstore never acquires a key the validator rejects. -/
theorem c04_store_ok (cfg : Cfg) (hfix : cfg.fixed = true) (ops : List Op) (st : Store)
    (hs : storeOk cfg.al st) : storeOk cfg.al (run cfg st ops).1 :=
  (run_ok cfg hfix ops st).2 hs

/-- AddBlocks is all-or-nothing: one rejected CID anywhere in the batch ⇒ nothing is written or announced. -/
theorem c04_addBlocks_all_or_nothing (cfg : Cfg) (st : Store) (bs : List Blk) (pf : Option Nat) (b : Blk) (hb : b ∈ bs)
    (hbad : valid cfg.al b.1 = false) :
    (addBlocks cfg st bs pf).1 = st ∧ (addBlocks cfg st bs pf).2.2 = [] := by
  unfold addBlocks
  cases hf : firstErr cfg.al bs with
  | some e => simp
  | none => have := firstErr_none hf b hb; simp [hbad] at this

/-- GetBlock / AddBlock with a rejected CID touch nothing. -/
theorem c04_rejected_single (cfg : Cfg) (st : Store) (c : Cid) (d : Data) (ans : Option Blk) (nOk : Bool)
    (pf : Option Nat) (rdOk : Bool) (hbad : valid cfg.al c = false) :
    getBlock cfg st c ans nOk pf rdOk = (st, .verr (validate cfg.al c.code c.len), []) ∧
    addBlock cfg st (c, d) pf = (st, .verr (validate cfg.al c.code c.len), []) := by
  unfold getBlock addBlock
  cases hv : validate cfg.al c.code c.len <;> simp_all [valid]

/-- The code before the fix violates the property: an exchange answering a GetBlocks request with an
unrequested block whose CID is rejected (identity, 129 bytes) gets it stored and returned. -/
theorem c04_unfixed_counterexample :
    let cfg : Cfg := { al := .dflt, fixed := false }
    let r := getBlocks cfg [] [⟨0x55, 0x12, 32, 1⟩] (some [(⟨0x55, 0x00, 129, 0⟩, 0)]) none
    (∃ ev ∈ r.2, evOk cfg.al ev = false) ∧ ¬ storeOk cfg.al r.1 := by
  refine ⟨⟨.put (⟨0x55, 0x00, 129, 0⟩, 0), by decide, by decide⟩, ?_⟩
  intro h
  have := h ((0x00, 129, 0), 0) (by decide)
  revert this
  decide

/-! Non-vacuity -/
example : validate .dflt 0x12 32 = .ok := by decide
example : validate .dflt 0x12 19 = .small := by decide
example : validate .dflt 0x00 0 = .ok ∧ validate .dflt 0x00 129 = .large := by decide
example : validate .dflt 0xb213 32 = .insecure ∧ validate .dflt 0xb214 32 = .ok := by decide
example : validate (.over .dflt [(0x12, false), (0xd5, true)]) 0x12 32 = .insecure ∧
    validate (.over .dflt [(0x12, false), (0xd5, true)]) 0xd5 20 = .ok := by decide
example : filterKeys .dflt [⟨1, 0x12, 32, 0⟩, ⟨1, 0xd5, 16, 0⟩, ⟨1, 0x12, 32, 1⟩] =
    [⟨1, 0x12, 32, 0⟩, ⟨1, 0x12, 32, 1⟩] := by decide
example : (getBlocks { al := .dflt } [] [⟨1, 0x12, 32, 0⟩, ⟨1, 0xd5, 16, 0⟩]
    (some [(⟨1, 0xd5, 16, 0⟩, 7), (⟨1, 0x12, 32, 0⟩, 0)]) none).2 =
    [.reqMany [⟨1, 0x12, 32, 0⟩], .put (⟨1, 0x12, 32, 0⟩, 0), .notify [(⟨1, 0x12, 32, 0⟩, 0)],
     .emit (⟨1, 0x12, 32, 0⟩, 0)] := by decide

end C04
