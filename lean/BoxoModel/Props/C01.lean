import BoxoModel.C01.Lemmas
/-!
# C01 — Blockstore is a faithful multihash-keyed block map

Property theorems only (definitions of the abstract map are in `C01/Spec.lean`, helper lemmas in
`C01/Lemmas.lean`).  Everything is stated for every configuration `cfg` (WriteThrough, NoPrefix,
identity wrapper on/off), every datastore state `s` whose keys are block keys (`KeysWF`; true of the
empty datastore and preserved), every operation list (any length), and arbitrary byte strings as
multihashes and block contents — CIDs are `(defined, version, codec, multihash)`.
-/
namespace C01
open BaseN

/-- **Refinement.** For every history the composed blockstore answers exactly like the abstract map
`multihash ↦ bytes last stored` (with the identity layer on top when `idWrap`), and its final
datastore abstracts to the final map.  Hypothesis: `WriteThrough`, or the pool is functional — the
bytes of every block that reaches the base store are a function `f` of its multihash (honest,
content-addressed blocks), and the initial contents agree with `f`. -/
theorem c01_refines_map (cfg : Cfg) (f : Bytes → Bytes) (s : Store) (ops : List Op)
    (hk : KeysWF cfg s)
    (h : cfg.writeThrough = true ∨ (Consistent f (abs cfg s) ∧ OpsHonest cfg f ops)) :
    Refines cfg (abs cfg s) ops (run cfg s ops).2 ∧
      abs cfg (run cfg s ops).1 = specRun cfg (abs cfg s) ops :=
  let r := run_sim cfg f s ops hk h
  ⟨r.1, r.2.1⟩

/-- the same from the empty datastore: only the functional-pool hypothesis remains -/
theorem c01_refines_map_from_empty (cfg : Cfg) (f : Bytes → Bytes) (ops : List Op)
    (h : cfg.writeThrough = true ∨ OpsHonest cfg f ops) :
    Refines cfg (fun _ => none) ops (run cfg [] ops).2 ∧
      abs cfg (run cfg [] ops).1 = specRun cfg (fun _ => none) ops := by
  have e : abs cfg [] = fun _ => none := by funext x; simp [abs]
  have := c01_refines_map cfg f [] ops (keysWF_nil cfg)
    (h.elim Or.inl fun hh => Or.inr ⟨by rw [e]; intro mh d hd; simp at hd, hh⟩)
  rwa [e] at this

/-- with `WriteThrough` "the bytes last stored" holds with no hypothesis on the blocks at all
(dishonest blocks, repeated multihashes with different bytes, …) -/
theorem c01_writeThrough_last_write (cfg : Cfg) (hw : cfg.writeThrough = true) (s : Store)
    (ops : List Op) (hk : KeysWF cfg s) :
    Refines cfg (abs cfg s) ops (run cfg s ops).2 :=
  (c01_refines_map cfg (fun _ => []) s ops hk (Or.inl hw)).1

/-- without `WriteThrough` the functional-pool hypothesis is necessary: the code keeps the *first*
bytes stored under a multihash (counter-model: two puts of different bytes under one multihash) -/
theorem c01_noWriteThrough_keeps_first :
    (run { writeThrough := false, noPrefix := false, idWrap := false } []
      [.put ⟨⟨true, 1, 85, [0x12, 0x01, 0xaa]⟩, [1]⟩, .put ⟨⟨true, 1, 85, [0x12, 0x01, 0xaa]⟩, [2]⟩,
       .get ⟨true, 1, 85, [0x12, 0x01, 0xaa]⟩]).2 = [.ok, .ok, .data [1]] := by decide

/-- **Aliases.** Two CIDs that share a multihash (CIDv0 / CIDv1-raw / CIDv1-dag-pb …) address the
same entry: every operation gives the same new state and the same answer. -/
theorem c01_alias (cfg : Cfg) (s : Store) (c1 c2 : Cid) (d : Bytes)
    (hm : c1.mh = c2.mh) (hd : c1.defined = c2.defined) :
    step cfg s (.get c1) = step cfg s (.get c2) ∧ step cfg s (.has c1) = step cfg s (.has c2) ∧
    step cfg s (.getSize c1) = step cfg s (.getSize c2) ∧ step cfg s (.view c1) = step cfg s (.view c2) ∧
    step cfg s (.delete c1) = step cfg s (.delete c2) ∧
    step cfg s (.put ⟨c1, d⟩) = step cfg s (.put ⟨c2, d⟩) := by
  have he := extractContents_congr c1 c2 hm
  cases hi : cfg.idWrap <;>
    simp [step, hi, bsStep, idStep, idGet, bsGet, bsHas, bsGetSize, bsDelete, bsPut, he, hm, hd]

/-- **Identity CIDs (answers).** Wrapped in the identity store, a CID with an identity multihash is
always present and yields its inlined bytes, whatever the datastore holds; no operation on it changes
the datastore. -/
theorem c01_identity (cfg : Cfg) (hi : cfg.idWrap = true) (s : Store) (c : Cid) (d x : Bytes)
    (hc : extractContents c = some d) :
    step cfg s (.has c) = (s, .bool true) ∧ step cfg s (.get c) = (s, .data d) ∧
    step cfg s (.view c) = (s, .data d) ∧ step cfg s (.getSize c) = (s, .size d.length) ∧
    step cfg s (.put ⟨c, x⟩) = (s, .ok) ∧ step cfg s (.delete c) = (s, .ok) ∧
    ∀ bs, (step cfg s (.putMany bs)).1 =
      (step cfg s (.putMany (bs.filter fun b => (extractContents b.cid).isNone))).1 := by
  simp [step, hi, idStep, idGet, hc, List.filter_filter]

/-- **Identity CIDs (never written).** With the identity wrapper, after any history from a datastore
that does not hold the key of an identity multihash, the datastore still does not hold it. -/
theorem c01_identity_never_stored (cfg : Cfg) (hi : cfg.idWrap = true) (s : Store) (ops : List Op)
    (c : Cid) (d : Bytes) (hc : extractContents c = some d) (hs : rk cfg c.mh ∉ AMap.keys s) :
    rk cfg c.mh ∉ AMap.keys (run cfg s ops).1 :=
  no_identity_key_run cfg hi s ops c d hc hs

/-- **Enumeration.** `AllKeysChan` delivers exactly the multihashes present in the map (as a set).
Stated exactly as the code behaves: through the "/blocks" namespace the key of the *empty* multihash
(only the undefined CID has it) is not enumerated. -/
theorem c01_allKeys (cfg : Cfg) (s : Store) (hk : KeysWF cfg s) (mh : Bytes) :
    mh ∈ bsAllKeys cfg s ↔ ((abs cfg s mh).isSome = true ∧ (cfg.noPrefix = true ∨ mh ≠ [])) :=
  mem_bsAllKeys cfg s hk mh

/-- the key-shape invariant `KeysWF` holds after every history from the empty datastore -/
theorem c01_keysWF_reachable (cfg : Cfg) (ops : List Op) : KeysWF cfg (run cfg [] ops).1 :=
  keysWF_run cfg [] ops (keysWF_nil cfg)

/-- the datastore key of a multihash is `"/" ++ base32(mh)` (prefixed by "/blocks" unless NoPrefix),
contains no further '/', and determines the multihash -/
theorem c01_key_injective (cfg : Cfg) (a b : Bytes) (h : rk cfg a = rk cfg b) : a = b :=
  rk_injective cfg a b h

/-- **Provider option.** Whatever is announced through `StartProviding` during an operation is the
multihash of a block of that operation that the identity layer let through; in particular, with the
identity wrapper an identity multihash is never announced (as it is never stored). -/
theorem c01_provided_sound (cfg : Cfg) (s : Store) (op : Op) :
    ∀ call ∈ provided cfg s op, ∀ mh ∈ call, ∃ b ∈ op.blks, isId cfg b.cid = none ∧ mh = b.cid.mh :=
  provided_sound cfg s op

/-- a `Put` that writes announces exactly its multihash; a `Put` skipped because the block is present
(no WriteThrough) announces nothing; the Provider never changes state or answers (`step` ignores it) -/
theorem c01_provided_put (cfg : Cfg) (hp : cfg.provider = true) (hi : cfg.idWrap = false) (s : Store) (b : Blk) :
    provided cfg s (.put b) =
      if !cfg.writeThrough && (abs cfg s b.cid.mh).isSome then [] else [[b.cid.mh]] := by
  simp [provided, hp, hi, bsProvidedPut, abs]

/-- **Interrupted enumeration.** If the consumer of `AllKeysChanWithErr` stops after `j` delivered
keys, every delivered key is present in the map, and when the error function reports no error the
delivery was complete (the caveat the `AllKeysChanWithErrer` documentation states). -/
theorem c01_allKeys_cut (cfg : Cfg) (s : Store) (hk : KeysWF cfg s) (j : Nat) :
    (∀ mh ∈ (bsAllKeysCut cfg s j).1, (abs cfg s mh).isSome = true) ∧
    ((bsAllKeysCut cfg s j).2 = false → (bsAllKeysCut cfg s j).1 = bsAllKeys cfg s) := by
  refine ⟨fun mh hm => ?_, fun h => ?_⟩
  · exact ((mem_bsAllKeys cfg s hk mh).mp (List.mem_of_mem_take hm)).1
  · simp only [bsAllKeysCut, decide_eq_false_iff_not, Nat.not_lt] at h
    simp only [bsAllKeysCut]
    exact List.take_of_length_le h

/-- on the keys the blockstore writes, go-base32's lenient decoder (modelled for arbitrary foreign
keys: case-insensitive, newline-stripping, odd trailing groups dropped) inverts the encoder -/
theorem c01_decode_own_keys (mh : Bytes) : binaryFromDsKey (dsKey mh) = some mh :=
  binaryFromDsKey_dsKey mh

/-! Non-vacuity: a pool with a v0/v1 alias pair, an identity CID and the empty block. -/
section Examples
/-- sha2-256-shaped multihash (shortened digest: the model never hashes) -/
private def mhA : Bytes := [0x12, 0x03, 1, 2, 3]
private def mhB : Bytes := [0x12, 0x03, 9, 9, 9]
private def idC : Bytes := [0x00, 0x02, 0xca, 0xfe]
private def v0A : Cid := ⟨true, 0, 0x70, mhA⟩
private def v1A : Cid := ⟨true, 1, 0x55, mhA⟩
private def v1B : Cid := ⟨true, 1, 0x55, mhB⟩
private def cidI : Cid := ⟨true, 1, 0x55, idC⟩

example : (run { writeThrough := false, noPrefix := false, idWrap := true } []
    [.put ⟨v0A, [7, 7]⟩, .get v1A, .putMany [⟨v1B, []⟩, ⟨cidI, [0xca, 0xfe]⟩], .get cidI, .has v1B,
     .delete v1A, .get v0A, .allKeys]).2 =
    [.ok, .data [7, 7], .ok, .data [0xca, 0xfe], .bool true, .ok, .notfound, .keys [mhB]] := by decide

example : extractContents cidI = some [0xca, 0xfe] := by decide
/-- PutMany through the identity layer with the Provider option: one call, identity block filtered -/
example : provided { writeThrough := false, noPrefix := false, idWrap := true, provider := true } []
    (.putMany [⟨v1B, []⟩, ⟨cidI, [0xca, 0xfe]⟩, ⟨v0A, [7]⟩]) = [[mhB, mhA]] := by decide
/-- foreign keys: lower case accepted, a 3-character tail yields nothing, '1' is not in the alphabet -/
example : decodeGo32 "mzxw6".toList = some [0x66, 0x6f, 0x6f] ∧ decodeGo32 "MZX".toList = some [] ∧
    decodeGo32 "MZXW1".toList = none := by decide +kernel
example : OpsHonest { writeThrough := false, noPrefix := false, idWrap := true } (fun mh => if mh = mhA then [7, 7] else [])
    [.put ⟨v0A, [7, 7]⟩, .get v1A, .putMany [⟨v1B, []⟩, ⟨cidI, [0xca, 0xfe]⟩]] := by
  intro op hop b hb hid
  simp at hop
  rcases hop with rfl | rfl | rfl <;> simp [Op.blks] at hb
  · subst hb; decide
  · rcases hb with rfl | rfl
    · decide
    · exact absurd hid (by decide)
end Examples

end C01
