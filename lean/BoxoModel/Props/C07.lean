import BoxoModel.C07.Lemmas
import BoxoModel.C07.GenBridge
import BoxoModel.C07.BlocksLemmas
/-!
# C07 — UnixFS file import round-trips with consistent metadata and layout

Property theorems only (helper lemmas are in `BoxoModel/C07/Lemmas.lean`).
Every statement quantifies over every chunk list `cs` the splitter may return (any number of chunks of any
sizes, empty chunks included), every DAG width, both leaf kinds and every requested mode / mtime; the only
hypotheses are the explicit width guards (`2 ≤ w` balanced, `1 ≤ w` trickle: below them the Go loops do
not terminate, see `c07_bal_w1_diverges`).  Hash function and CID builder do not occur: children are held
structurally, so the theorems hold for every hash.
-/
namespace C07
open FileTree

/-! ## Balanced layout -/

/-- the Go loops terminate for every input when `Maxlinks ≥ 2` (the model's fuel is never exhausted) -/
theorem c07_bal_total (c : Cfg) (cs : List Chunk) (hw : 2 ≤ c.w) : ∃ o, balancedLayout c cs = some o :=
  balancedLayout_total c cs hw

/-- reading the leaves left to right gives back exactly the input bytes -/
theorem c07_bal_content (c : Cfg) (cs : List Chunk) (o : Out) (h : balancedLayout c cs = some o) :
    content o.root = cs.flatten := (balancedLayout_spec c cs o h).2

/-- every internal node's recorded filesize is the sum of its recorded block sizes and every recorded
block size is the child's recorded size -/
theorem c07_bal_wellSized (c : Cfg) (cs : List Chunk) (o : Out) (h : balancedLayout c cs = some o) :
    wellSized o.root = true := (balancedLayout_spec c cs o h).1

/-- the root reports the input length as its size (and so does every node for its part of the input) -/
theorem c07_bal_size (c : Cfg) (cs : List Chunk) (o : Out) (h : balancedLayout c cs = some o) :
    size o.root = cs.flatten.length := by
  rw [size_eq_of_wellSized _ (c07_bal_wellSized c cs o h), c07_bal_content c cs o h]

/-- shape: all leaves at one depth `d`, every internal node has between 1 and `w` children and every
child except the last one is a complete `w`-ary tree -/
theorem c07_bal_shape (c : Cfg) (cs : List Chunk) (o : Out) (h : balancedLayout c cs = some o)
    (hw : 2 ≤ c.w) : ∃ d, bshape c.w d o.root = true :=
  balancedLayout_shape c cs o h hw

/-- … in particular the two clauses of the property statement -/
theorem c07_bal_leaves_equal_depth (c : Cfg) (cs : List Chunk) (o : Out) (h : balancedLayout c cs = some o)
    (hw : 2 ≤ c.w) : ∃ d, leavesAt d o.root = true := by
  obtain ⟨d, hd⟩ := c07_bal_shape c cs o h hw
  exact ⟨d, leavesAt_of_bshape c.w d o.root (by omega) hd⟩

theorem c07_bal_max_width (c : Cfg) (cs : List Chunk) (o : Out) (h : balancedLayout c cs = some o)
    (hw : 2 ≤ c.w) : maxWidth c.w o.root = true := by
  obtain ⟨d, hd⟩ := c07_bal_shape c cs o h hw
  exact maxWidth_of_bshape c.w d o.root (by omega) hd

/-- why the width guard is there: with `Maxlinks ≤ 1` and something left after the first chunk, the loop
of layoutData consumes nothing per iteration — no amount of fuel suffices (the Go code hangs). -/
theorem c07_bal_w1_diverges (w : Nat) (hw : w ≤ 1) (fuel dm1 : Nat) (root : FNode) (fs : Nat) (db : DB)
    (h : db.pending ≠ []) : layoutLoop w fuel dm1 root fs db = none :=
  layoutLoop_w1_diverges w hw fuel dm1 root fs db h

/-! ## Trickle layout -/

theorem c07_tri_total (c : Cfg) (cs : List Chunk) (hw : 1 ≤ c.w) : ∃ o, trickleLayout c cs = some o :=
  trickleLayout_total c cs hw

theorem c07_tri_content (c : Cfg) (cs : List Chunk) (o : Out) (h : trickleLayout c cs = some o) :
    content o.root = cs.flatten := (trickleLayout_spec c cs o h).2.1

theorem c07_tri_wellSized (c : Cfg) (cs : List Chunk) (o : Out) (h : trickleLayout c cs = some o) :
    wellSized o.root = true := (trickleLayout_spec c cs o h).1

theorem c07_tri_size (c : Cfg) (cs : List Chunk) (o : Out) (h : trickleLayout c cs = some o) :
    size o.root = cs.flatten.length := by
  rw [size_eq_of_wellSized _ (c07_tri_wellSized c cs o h), c07_tri_content c cs o h]

/-- the result passes `VerifyTrickleDagStructure` with `Direct = w`, `LayerRepeat = 4` (its structural part) -/
theorem c07_tri_shape (c : Cfg) (cs : List Chunk) (o : Out) (h : trickleLayout c cs = some o)
    (hw : 1 ≤ c.w) : tshape c.w (-1) o.root = true :=
  trickleLayout_shape c cs o h hw

/-! ## Metadata and determinism -/

/-- The root carries the requested mode / mtime — EXCEPT when it is a raw leaf: `SetFileAttributes` only
handles `*dag.ProtoNode` roots (known finding `attrs-dropped-raw-root`).  The guard excludes exactly the
balanced imports with raw leaves of at most one chunk. -/
theorem c07_bal_attrs_partial (c : Cfg) (cs : List Chunk) (o : Out) (h : balancedLayout c cs = some o)
    (guard : ¬ (c.rawLeaves = true ∧ cs.length ≤ 1)) : o.attrs = { mode := c.mode, mtime := c.mtime } := by
  have hroot : isProtoNode c.rawLeaves o.root = true := by
    by_cases hr : c.rawLeaves = true
    · have h2 : 2 ≤ cs.length := by
        by_cases h1 : cs.length ≤ 1
        · exact absurd ⟨hr, h1⟩ guard
        · omega
      have := balancedLayout_isNode c cs o h h2
      cases ho : o.root with
      | leaf d => simp [ho, isNode] at this
      | node fs l => simp [isProtoNode]
    · cases ho : o.root with
      | leaf d => simpa [isProtoNode] using hr
      | node fs l => simp [isProtoNode]
  have ha : o.attrs = setFileAttributes c o.root := by
    unfold balancedLayout at h
    simp only at h
    split at h
    · simp only [Option.some.injEq] at h; subst h; rfl
    · split at h
      · simp at h
      · simp only [Option.some.injEq] at h; subst h; rfl
  rw [ha]
  unfold setFileAttributes
  simp only [hroot, if_true]
  by_cases hf : c.hasFileAttributes = true
  · simp [hf]
  · simp only [hf, Bool.false_eq_true, if_false]
    simp only [Cfg.hasFileAttributes, Bool.or_eq_true, bne_iff_ne, ne_eq, not_or, Decidable.not_not,
      Option.isSome_iff_ne_none] at hf
    simp [hf.1, hf.2]

/-- the finding, as a theorem about the model of the code as it is: one chunk, raw leaves, mode 0644
requested — nothing is stored -/
theorem c07_bal_attrs_counterexample :
    (balancedLayout { w := 174, rawLeaves := true, mode := 0o644 } [[1, 2, 3]]).map (·.attrs)
      = some { mode := 0, mtime := none } := by decide

/-- a trickle root is always a dag-pb node, it always carries the requested attributes -/
theorem c07_tri_attrs (c : Cfg) (cs : List Chunk) (o : Out) (h : trickleLayout c cs = some o) :
    o.attrs = { mode := c.mode, mtime := c.mtime } := by
  have hn := (trickleLayout_spec c cs o h).2.2
  have hroot : isProtoNode c.rawLeaves o.root = true := by
    cases ho : o.root with
    | leaf d => simp [ho, isNode] at hn
    | node fs l => simp [isProtoNode]
  have ha : o.attrs = setFileAttributes c o.root := by
    unfold trickleLayout at h
    split at h
    · simp at h
    · simp only [Option.some.injEq] at h; subst h; rfl
  rw [ha]
  unfold setFileAttributes
  simp only [hroot, if_true]
  by_cases hf : c.hasFileAttributes = true
  · simp [hf]
  · simp only [hf, Bool.false_eq_true, if_false]
    simp only [Cfg.hasFileAttributes, Bool.or_eq_true, bne_iff_ne, ne_eq, not_or, Decidable.not_not,
      Option.isSome_iff_ne_none] at hf
    simp [hf.1, hf.2]

/-- the layouts are functions of (configuration, chunk list): no hidden state.  Trivial for the model;
stated because the tie checks that the Go side agrees with this function on every run (and re-imports). -/
theorem c07_deterministic (c : Cfg) (cs : List Chunk) (o₁ o₂ : Out) :
    (balancedLayout c cs = some o₁ → balancedLayout c cs = some o₂ → o₁ = o₂) ∧
    (trickleLayout c cs = some o₁ → trickleLayout c cs = some o₂ → o₁ = o₂) :=
  ⟨fun h1 h2 => Option.some.inj (h1.symm.trans h2), fun h1 h2 => Option.some.inj (h1.symm.trans h2)⟩

/-! ## T-gen: the loop conditions of the Go builders, regenerated from the source on every run
(`extract intsq` → `BoxoModel/Gen/C07.lean`), are the conditions the model uses — for all Go `int`s that
are child counts / widths / depths (0 ≤ · < 2^63). A change of a comparison or constant in the Go source
changes the generated definition and breaks these theorems. -/

/-- `for node.NumChildren() < db.Maxlinks() && !db.Done()` of balanced.fillNodeRec = the test of `fillLoop` -/
theorem c07_gen_fillNodeRec_loop (n w : Nat) (done : Bool) (hn : n < 2 ^ 63) (hw : w < 2 ^ 63) :
    Gen.C07.fillNodeRecLoopCond done (BitVec.ofNat 64 w) (BitVec.ofNat 64 n) = (decide (n < w) && !done) := by
  simp [Gen.C07.fillNodeRecLoopCond, GoSmall.slt n w hn hw]

/-- `for node.NumChildren() < db.maxlinks && !db.Done()` of FillNodeLayer = the same test -/
theorem c07_gen_fillNodeLayer_loop (n w : Nat) (done : Bool) (hn : n < 2 ^ 63) (hw : w < 2 ^ 63) :
    Gen.C07.fillNodeLayerLoopCond done (BitVec.ofNat 64 w) (BitVec.ofNat 64 n) = (decide (n < w) && !done) := by
  simp [Gen.C07.fillNodeLayerLoopCond, GoSmall.slt n w hn hw]

/-- fillNodeRec: `depth < 1` is the error case the model leaves out (its argument is `depth - 1`), and
`depth == 1` selects the leaf level (the model's `dm1 = 0`) -/
theorem c07_gen_fillNodeRec_depth (dm1 : Nat) (h : dm1 + 1 < 2 ^ 63) :
    Gen.C07.fillNodeRecDepthError (BitVec.ofNat 64 (dm1 + 1)) = false ∧
    Gen.C07.fillNodeRecLeafLevel (BitVec.ofNat 64 (dm1 + 1)) = decide (dm1 = 0) := by
  constructor
  · have := GoSmall.slt (dm1 + 1) 1 h (by omega)
    simp only [Gen.C07.fillNodeRecDepthError]
    rw [show (1#64) = BitVec.ofNat 64 1 from rfl, this]; simp
  · simp only [Gen.C07.fillNodeRecLeafLevel]
    by_cases h0 : dm1 = 0
    · subst h0; simp
    · simp only [h0, decide_false, beq_eq_false_iff_ne, ne_eq]
      intro e
      have := congrArg BitVec.toNat e
      rw [GoSmall.toNat_ofNat _ h] at this
      simp at this; omega

/-- `for depth := 1; maxDepth == -1 || depth < maxDepth; depth++` of fillTrickleRec = the condition of `depthLoop` -/
theorem c07_gen_trickle_depth_loop (depth : Nat) (maxDepth : Int) (hd : depth < 2 ^ 63)
    (hm : -(2 ^ 63 : Int) ≤ maxDepth) (hm' : maxDepth < 2 ^ 63) :
    Gen.C07.fillTrickleDepthLoopCond (BitVec.ofNat 64 depth) (BitVec.ofInt 64 maxDepth) =
      decide (maxDepth = -1 ∨ (depth : Int) < maxDepth) := by
  simp only [Gen.C07.fillTrickleDepthLoopCond, GoSmall.slt_int depth maxDepth hd hm hm']
  have e : (BitVec.ofInt 64 maxDepth == BitVec.ofInt 64 (-1)) = decide (maxDepth = -1) := by
    by_cases h : maxDepth = -1
    · subst h; simp
    · simp only [h, decide_false, beq_eq_false_iff_ne, ne_eq]
      intro e
      have := congrArg BitVec.toInt e
      simp only [BitVec.toInt_ofInt] at this
      have h1 : maxDepth.bmod (2 ^ 64) = maxDepth := by apply Int.bmod_eq_of_le <;> omega
      have h2 : (-1 : Int).bmod (2 ^ 64) = -1 := by decide
      rw [h1, h2] at this
      exact h this
  rw [e]
  by_cases h1 : maxDepth = -1 <;> by_cases h2 : (depth : Int) < maxDepth <;> simp [h1, h2]

/-- `for repeatIndex := 0; repeatIndex < depthRepeat && !db.Done()`: at most `depthRepeat = 4` sub-graphs per depth,
the bound of `repeatLoop` -/
theorem c07_gen_trickle_repeat_loop (i : Nat) (done : Bool) (hi : i < 2 ^ 63) :
    Gen.C07.fillTrickleRepeatLoopCond done (BitVec.ofNat 64 i) = (decide (i < depthRepeat) && !done) := by
  simp only [Gen.C07.fillTrickleRepeatLoopCond, depthRepeat]
  rw [show (4#64) = BitVec.ofNat 64 4 from rfl, GoSmall.slt i 4 hi (by omega)]; rfl

/-! ## Blocks: the layout model composed with the dag-pb encoder (C11) and the UnixFS Data encoder (C18) -/

/-- The block the model emits for an internal node decodes, through the C11 and C18 decoders, to exactly the
node's links (one per child, in order, unnamed, carrying the child's CID and cumulative size) and to the UnixFS
message {File, filesize, blocksizes} of the tree — for every tree and every CID assignment whose links pass
`checkLink` (non-empty CID, Tsize < 2^63) and C11's CID syntax check `cidWf`, and whose sizes fit their Go types. -/
theorem c07_block_roundtrip (c : BlockCfg) (fs : Nat) (cs : List (FNode × Nat)) (cids : List (List UInt8))
    (hfs : fs < 2 ^ 64) (hbs : ∀ x ∈ cs, x.2 < 2 ^ 64)
    (hl : ∀ l ∈ (blocksOfL c cs cids.tail).2.1, C11.checkLink l = true)
    (hcid : ∀ l ∈ (blocksOfL c cs cids.tail).2.1, C11.cidWf l.cid)
    (hd : (C18.encode { type := 2, filesize := some fs, blocksizes := cs.map (·.2) }).length < 2 ^ 64)
    (hb : ((blocksOf c {} (.node fs cs) cids).blocks.headD []).length < 2 ^ 64) :
    ∃ data, C11.decodePB ((blocksOf c {} (.node fs cs) cids).blocks.headD []) =
        some ((blocksOfL c cs cids.tail).2.1, some data) ∧
      C18.decode data = some { type := 2, filesize := some fs, blocksizes := cs.map (·.2) } := by
  have hw : withAttrs ({ type := 2, filesize := some fs, blocksizes := cs.map (·.2) } : C18.FSNode) {} =
      { type := 2, filesize := some fs, blocksizes := cs.map (·.2) } := by simp [withAttrs]
  rw [blocksOf_node, hw] at hb ⊢
  simp only [List.headD_cons] at hb ⊢
  refine ⟨C18.encode { type := 2, filesize := some fs, blocksizes := cs.map (·.2) }, ?_, ?_⟩
  · rw [C11.c11_roundtrip _ _ hl hcid hb, sortLinks_unnamed _ (blocksOfL_unnamed c cs cids.tail)]
  · apply C18.c18_codec_rt _ ?_ hd
    exact { type := by simp, filesize := by intro v h; simp at h; omega,
            blocks := by
              intro v hv
              simp only [List.mem_map] at hv
              obtain ⟨x, hx, rfl⟩ := hv
              exact hbs x hx,
            hashType := by intro v h; simp at h, fanout := by intro v h; simp at h,
            secs := by intro m h; simp at h, nanos := by intro m v h; simp at h,
            unk := ⟨[], by simp [Proto.decodeMsgRaw, Proto.decodeMsgRawAux], by simp⟩ }

/-! ## Non-vacuity: concrete deep trees -/

private def b (n : Nat) : Chunk := [UInt8.ofNat n]

/-- balanced, width 2, 5 chunks: height 3 -/
example : (balancedLayout { w := 2 } [b 1, b 2, b 3, b 4, b 5]).map (fun o => (content o.root, size o.root,
    wellSized o.root, bshape 2 3 o.root)) = some ([1, 2, 3, 4, 5], 5, true, true) := by decide +kernel
/-- trickle, width 2, 11 chunks: 2 leaves, 4 subtrees of depth 1, one of depth 2 -/
example : (trickleLayout { w := 2, mode := 0o755 } ((List.range 11).map b)).map (fun o =>
    (size o.root, wellSized o.root, tshape 2 (-1) o.root, o.attrs.mode)) = some (11, true, true, 0o755) := by
  decide +kernel
example : (balancedLayout { w := 2, rawLeaves := true, mode := 0o644 } [b 1, b 2]).map (·.attrs.mode)
    = some 0o644 := by decide

end C07
