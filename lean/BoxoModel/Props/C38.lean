import BoxoModel.C38.Lemmas
/-!
# C38 — tar extraction never touches anything outside the target

Property theorems only (helpers: `BoxoModel/C38/Lemmas.lean`, `Lib/FSLemmas.lean`).  They are about the
model of the REPAIRED extractor (`fixed = true`: deferred directory metadata is applied only if
`os.Lstat` still reports a directory) on the `Lib.FS` world, in which every file-system call resolves its
path the way the kernel does (intermediate symlinks followed, `chmod` follows a final symlink, …).

Quantification: EVERY archive (any number of entries; arbitrary names — `..`, empty, absolute, repeated
slashes, NUL — types, link targets, modes, times, contents), EVERY initial world (fresh or pre-populated
target, files / directories / symlinks anywhere, the target's ancestors present or missing), every temp
name, every target path made of ordinary components whose proper ancestors are not symbolic links (the
user's own choice of `Extractor.Path`; a symlink AT the target is allowed).
-/
namespace C38
open FS

/-- **Confinement.** After `Extract`, whether it fails or not, every node of the world that is not at or
below the target is exactly as before (kind, mode, mtime, bytes, link target; not created, not removed) —
with the single exception of the directories on the way to the target, which may be created when missing
(`MkdirAll`) and get a new mtime when the target itself is created / replaced inside them; an existing
one keeps its kind and mode (`AncOK`). -/
theorem c38_confined (tmp : String) (htmp : simple tmp = true) (w : World) (T : Path) (entries : List Entry)
    (hroot : isDir (find w []) = true) (hT : T ≠ []) (hsT : ∀ c ∈ T, simple c = true)
    (hanc : NoLinkUpTo w T.dropLast) :
    Confined T w (extract true tmp w T entries).1 := by
  unfold extract
  cases entries with
  | nil => exact Chg.refl _ _ _
  | cons h rest =>
    simp only
    split
    · exact Chg.refl _ _ _
    split
    · exact Chg.refl _ _ _
    · split
      · exact Chg.refl _ _ _
      · rename_i hname
        have hrn : simple (h.name.headD "") = true := by
          rw [simple_iff]
          simp only [Bool.or_eq_true, beq_iff_eq, not_or] at hname
          exact ⟨hname.1.1, hname.1.2, hname.2⟩
        cases ht : h.typ with
        | other => exact Chg.refl _ _ _
        | bad => exact Chg.refl _ _ _
        | dir =>
          simp only
          obtain ⟨hpm, hok⟩ := extractDir_spec hroot T hsT hanc
          generalize extractDir w T = r at hpm hok
          have hc := hpm.confined (List.prefix_refl T)
          cases hr : r.2 with
          | some _ => exact hc
          | none =>
            simp only
            have hl : LexDir r.1 T := hok hr hT
            have I0 : LInv T w r.1 [] := ⟨hc, hl, fun d hd => by simp at hd⟩
            have P0 : Present r.1 [] := fun d hd => by simp at hd
            have := deferUpdate_inv hT I0 P0 T (List.prefix_refl T) hl h
            generalize deferUpdate true r.1 [] T h = r2 at this
            obtain ⟨⟨w2, e2⟩, ds2⟩ := r2
            simp only at this ⊢
            split
            · exact doUpdates_inv hT ds2 w2 this.1
            · rename_i hnone
              have he2 : e2 = none := by cases e2 <;> simp_all
              have I2 := loopEntries_inv tmp htmp hT (h.name.headD "") rest { w := w2, ds := ds2 } this.1 (this.2 he2)
              exact doUpdates_inv hT _ _ I2
        | reg =>
          have h1 := c38_root_entry tmp htmp w T h rest hroot hT hsT hanc hrn true (by simp [ht])
          simp only [ht] at h1 ⊢
          exact h1
        | symlink =>
          have h1 := c38_root_entry tmp htmp w T h rest hroot hT hsT hanc hrn false (by simp [ht])
          simp only [ht] at h1 ⊢
          exact h1

/-- Corollary: a node that is neither at/below the target nor one of its ancestors is bit-identical
afterwards (in particular: never created, removed, chmod-ed or touched through a symlink). -/
theorem c38_outside_untouched (tmp : String) (htmp : simple tmp = true) (w : World) (T : Path) (entries : List Entry)
    (hroot : isDir (find w []) = true) (hT : T ≠ []) (hsT : ∀ c ∈ T, simple c = true)
    (hanc : NoLinkUpTo w T.dropLast) (q : Path) (h1 : ¬ T <+: q) (h2 : ¬ q <+: T) :
    find (extract true tmp w T entries).1 q = find w q := by
  rcases c38_confined tmp htmp w T entries hroot hT hsT hanc q with e | e | ⟨e, _⟩
  · exact e
  · exact absurd e h1
  · exact absurd e h2

/-- Corollary: an existing ancestor directory of the target keeps its kind, permission bits, (empty)
content and link target; only its mtime may change. -/
theorem c38_ancestor_kept (tmp : String) (htmp : simple tmp = true) (w : World) (T : Path) (entries : List Entry)
    (hroot : isDir (find w []) = true) (hT : T ≠ []) (hsT : ∀ c ∈ T, simple c = true)
    (hanc : NoLinkUpTo w T.dropLast) (q : Path) (h1 : ¬ T <+: q) (n : Node) (hq : find w q = some n) :
    ∃ n', find (extract true tmp w T entries).1 q = some n' ∧
      n'.kind = n.kind ∧ n'.mode = n.mode ∧ n'.data = n.data ∧ n'.target = n.target := by
  rcases c38_confined tmp htmp w T entries hroot hT hsT hanc q with e | e | ⟨_, _, e⟩
  · exact ⟨n, by rw [e, hq], rfl, rfl, rfl, rfl⟩
  · exact absurd e h1
  · rcases e with e | e
    · rw [hq] at e; simp at e
    · rw [hq] at e
      unfold Eqv at e
      cases hf : find (extract true tmp w T entries).1 q with
      | none => rw [hf] at e; simp at e
      | some n' =>
        rw [hf] at e
        simp only [Option.map_some, Option.some.injEq, clearM] at e
        refine ⟨n', rfl, ?_⟩
        cases n; cases n'; simp_all

/-! ### non-vacuity -/

/-- `/out` (mode 0711), `/out/ol -> ../t` (a symlink outside), `/t`, pre-populated target `/t/x` with a
symlink inside pointing out -/
def wEx : World :=
  AMap.insert (AMap.insert (AMap.insert (AMap.insert (AMap.insert FS.empty
    ["out"] (dirNode 0o711)) ["out", "ol"] (linkNode ["..", "t"])) ["t"] (dirNode 0o755))
    ["t", "x"] (dirNode 0o755)) ["t", "x", "esc"] (linkNode ["", "out"])

/-- the hypotheses of `c38_confined` hold for target `/t/x` in `wEx` (symlinks elsewhere are fine) -/
example : isDir (find wEx []) = true ∧ (["t", "x"] : Path) ≠ [] ∧ (∀ c ∈ (["t", "x"] : Path), simple c = true) ∧
    NoLinkUpTo wEx (["t", "x"] : Path).dropLast := by
  refine ⟨by decide, by decide, by decide, fun q hq => ?_⟩
  have : q = [] ∨ q = ["t"] := by
    rcases List.prefix_cons_iff.mp (show q <+: ["t"] from hq) with e | ⟨t, e, ht⟩
    · exact Or.inl e
    · simp at ht; subst ht; exact Or.inr e
  rcases this with e | e <;> subst e <;> decide

/-- `Confined` is not trivially true: a world in which `/out` got another mode is NOT confined w.r.t. `/t/x` -/
example : ¬ Confined ["t", "x"] wEx (AMap.insert wEx ["out"] (dirNode 0o700)) := by
  intro h
  rcases h ["out"] with e | e | ⟨e, _⟩
  · revert e; decide
  · revert e; decide
  · revert e; decide

/-! ### the code before the fix violates the property (concrete witness, evaluated by the kernel) -/

/-- `/out` (mode 0711), `/t`, empty target `/t/x` -/
def wWit : World :=
  AMap.insert (AMap.insert (AMap.insert FS.empty ["out"] (dirNode 0o711)) ["t"] (dirNode 0o755)) ["t", "x"] (dirNode 0o755)

/-- `root/` (0755), `root/a/` (0700), then `root/a` again as a symlink to `/out` -/
def archWit : List Entry := [
  { name := ["root"], typ := .dir, mode := 0o755, mtime := 1 },
  { name := ["root", "a"], typ := .dir, mode := 0o700, mtime := 2 },
  { name := ["root", "a"], typ := .symlink, linkname := ["", "out"], mode := 0o777, mtime := 3 } ]

/-- **Counterexample (unrepaired code, `fixed = false`).** The deferred `chmod 0700` of `root/a` follows the
symlink that replaced the directory: `/out`, outside the target `/t/x`, ends with mode 0700. -/
theorem c38_unfixed_counterexample :
    (find (extract false "tmp" wWit ["t", "x"] archWit).1 ["out"]).map (·.mode) = some 0o700 ∧
    ¬ Confined ["t", "x"] wWit (extract false "tmp" wWit ["t", "x"] archWit).1 := by
  refine ⟨by decide, fun h => ?_⟩
  rcases h ["out"] with e | e | ⟨e, _⟩
  · revert e; decide
  · revert e; decide
  · revert e; decide

/-- the repaired code on the same witness: the extraction succeeds, `/t/x/a` is the symlink, `/out` is untouched -/
example : (extract true "tmp" wWit ["t", "x"] archWit).2 = false ∧
    isLink (find (extract true "tmp" wWit ["t", "x"] archWit).1 ["t", "x", "a"]) = true ∧
    find (extract true "tmp" wWit ["t", "x"] archWit).1 ["out"] = find wWit ["out"] := by decide

end C38
