import BoxoModel.C03.Lemmas
/-!
# C03 — Verified reads never return bytes that do not hash to the requested CID

Property theorems only.  Every statement is for an arbitrary `World`: arbitrary hash verdict function
(`verdict c data` = outcome of `c.Prefix().Sum(data)` against `c`), arbitrary backing blockstore,
arbitrary reference datastore, arbitrary file system and HTTP world, both readers, both flags.  They
therefore say nothing about SHA-2 itself: what a user additionally relies on is collision resistance
of the real hash function (trusted base).
-/
namespace C03

/-- **ValidatingBlockstore, soundness.** A block is returned only if the backing store holds exactly
these bytes under the multihash and they hash to the requested CID. -/
theorem c03_validating_sound (w : World) (c : Cid) (b : Bytes) (h : validatingGet w c = .ok b) :
    w.inner c.mh = .block b ∧ w.verdict c b = .eq := by
  unfold validatingGet at h
  cases hi : w.inner c.mh with
  | notFound => simp [hi] at h
  | error => simp [hi] at h
  | block d =>
    cases hv : w.verdict c d <;> simp [hi, hv] at h
    subst h; exact ⟨rfl, hv⟩

/-- **ValidatingBlockstore, completeness.** An honest block is returned unchanged. -/
theorem c03_validating_complete (w : World) (c : Cid) (b : Bytes) (hi : w.inner c.mh = .block b)
    (hv : w.verdict c b = .eq) : validatingGet w c = .ok b := by
  simp [validatingGet, hi, hv]

/-- **ValidatingBlockstore, error otherwise.** Whatever else the backing store holds under the
multihash (flipped, truncated, extended bytes …) the answer is an error: `ErrHashMismatch`, or the
error of `Sum` itself. -/
theorem c03_validating_reports (w : World) (c : Cid) (d : Bytes) (hi : w.inner c.mh = .block d)
    (hv : w.verdict c d ≠ .eq) : validatingGet w c = .mismatch ∨ validatingGet w c = .error := by
  cases hv' : w.verdict c d with
  | eq => exact absurd hv' hv
  | ne => left; simp [validatingGet, hi, hv']
  | err => right; simp [validatingGet, hi, hv']

/-- **Filestore, soundness.** `FileManager.Get` returns bytes only if a reference is stored for the
multihash, the bytes hash to CIDv1-raw of the requested multihash, and they are exactly the referenced
region of the file (file references) / the first `size` bytes of the HTTP body (URL references). -/
theorem c03_filestore_sound (w : World) (c : Cid) (b : Bytes) (h : fmGet w c = .ok b) :
    w.verdict (rawCid c.mh) b = .eq ∧
    ∃ d, w.refs c.mh = .ref d ∧
      (isURL d.path = true →
        w.allowUrls = true ∧ ∃ st body, w.fetch d.path d.offset d.size = .resp st body ∧ b = body.take d.size) ∧
      (isURL d.path = false →
        w.allowFiles = true ∧
          ((∃ data, w.fs (absPath w.root d.path) = .file data ∧ b = slice data d.offset d.size ∧
              (d.size = 0 ∨ d.offset + d.size ≤ data.length)) ∨
           (w.fs (absPath w.root d.path) = .dir ∧ d.size = 0 ∧ b = []))) := by
  unfold fmGet at h
  cases hr : w.refs c.mh with
  | absent => simp [hr] at h
  | dsError => simp [hr] at h
  | garbage => simp [hr] at h
  | ref d =>
    simp only [hr] at h
    cases hu : isURL d.path with
    | true =>
      simp only [hu, if_true] at h
      unfold readURLDataObj at h
      cases ha : w.allowUrls with
      | false => simp [ha] at h
      | true =>
        simp only [ha, Bool.not_true, Bool.false_eq_true, if_false] at h
        cases hf : w.fetch d.path d.offset d.size with
        | connError => simp [hf] at h
        | resp st body =>
          simp only [hf] at h
          split at h
          · simp at h
          · split at h
            · simp at h
            · obtain ⟨hv, hb⟩ := checkHash_ok w _ _ _ h
              exact ⟨hv, d, rfl, fun _ => ⟨rfl, st, body, hf, hb⟩, fun hc => by simp [hu] at hc⟩
    | false =>
      simp only [hu, Bool.false_eq_true, if_false] at h
      unfold readFileDataObj at h
      cases ha : w.allowFiles with
      | false => simp [ha] at h
      | true =>
        simp only [ha, Bool.not_true, Bool.false_eq_true, if_false] at h
        cases hfs : w.fs (absPath w.root d.path) with
        | missing => simp [hfs] at h
        | unreadable => simp [hfs] at h
        | dir =>
          cases hrd : w.reader with
          | mmap => simp [hfs, hrd] at h
          | std =>
            simp only [hfs, hrd] at h
            split at h
            · simp at h
            · split at h
              · rename_i hz
                obtain ⟨hv, hb⟩ := checkHash_ok w _ _ _ h
                exact ⟨hv, d, rfl, fun hc => by simp [hu] at hc, fun _ => ⟨rfl, Or.inr ⟨hfs, hz, hb⟩⟩⟩
              · simp at h
        | file data =>
          simp only [hfs] at h
          cases hrd : w.reader with
          | std =>
            simp only [hrd] at h
            cases hra : stdReadAt data d.offset d.size with
            | eof => simp [hra] at h
            | otherError => simp [hra] at h
            | ok out =>
              simp only [hra] at h
              obtain ⟨hv, hb⟩ := checkHash_ok w _ _ _ h
              obtain ⟨ho, hl⟩ := stdReadAt_ok _ _ _ _ hra
              exact ⟨hv, d, rfl, fun hc => by simp [hu] at hc,
                fun _ => ⟨rfl, Or.inl ⟨data, hfs, by rw [hb, ho], hl⟩⟩⟩
          | mmap =>
            simp only [hrd] at h
            cases hra : mmapReadAt data d.offset d.size with
            | eof => simp [hra] at h
            | otherError => simp [hra] at h
            | ok out =>
              simp only [hra] at h
              obtain ⟨hv, hb⟩ := checkHash_ok w _ _ _ h
              obtain ⟨ho, hl⟩ := mmapReadAt_ok _ _ _ _ hra
              exact ⟨hv, d, rfl, fun hc => by simp [hu] at hc,
                fun _ => ⟨rfl, Or.inl ⟨data, hfs, by rw [hb, ho], Or.inr hl⟩⟩⟩

/-- **Filestore, corrupt references are reported.** For a stored file reference with files enabled:
the file vanished ⇒ `FileNotFound`; the file shrank below `offset+size` ⇒ a `CorruptReferenceError`
(`FileChanged`; `FileError` with the mmap reader when even the offset is beyond the end); the region
is readable but no longer hashes to the multihash ⇒ `FileChanged`. -/
theorem c03_filestore_corrupt (w : World) (c : Cid) (d : DataObj) (hr : w.refs c.mh = .ref d)
    (hu : isURL d.path = false) (ha : w.allowFiles = true) (hoff : d.offset < 2 ^ 63) :
    (w.fs (absPath w.root d.path) = .missing → fmGet w c = .fileNotFound) ∧
    (∀ data, w.fs (absPath w.root d.path) = .file data → d.size > 0 → data.length < d.offset + d.size →
      (fmGet w c).isCorrupt = true ∧ (w.reader = .std → fmGet w c = .fileChanged)) ∧
    (∀ data, w.fs (absPath w.root d.path) = .file data → d.offset + d.size ≤ data.length →
      w.verdict (rawCid c.mh) (slice data d.offset d.size) = .ne → fmGet w c = .fileChanged) := by
  have hno : ¬ d.offset ≥ 2 ^ 63 := Nat.not_le.mpr hoff
  refine ⟨?_, ?_, ?_⟩
  · intro hm
    simp [fmGet, hr, hu, readFileDataObj, ha, hm]
  · intro data hf hs hlen
    have hnz : d.size ≠ 0 := Nat.pos_iff_ne_zero.mp hs
    have hnle : ¬ d.offset + d.size ≤ data.length := Nat.not_le.mpr hlen
    cases hrd : w.reader with
    | std =>
      have : fmGet w c = .fileChanged := by
        simp [fmGet, hr, hu, readFileDataObj, ha, hf, hrd, stdReadAt, hno, hnz, hnle]
      exact ⟨by rw [this]; rfl, fun _ => this⟩
    | mmap =>
      refine ⟨?_, fun h => by cases h⟩
      by_cases ho : data.length < d.offset
      · have : fmGet w c = .fileError := by
          simp [fmGet, hr, hu, readFileDataObj, ha, hf, hrd, mmapReadAt, ho]
        rw [this]; rfl
      · have : fmGet w c = .fileChanged := by
          simp [fmGet, hr, hu, readFileDataObj, ha, hf, hrd, mmapReadAt, hno, ho, hnle]
        rw [this]; rfl
  · intro data hf hle hv
    have hol : ¬ data.length < d.offset := by omega
    cases hrd : w.reader with
    | std =>
      by_cases hz : d.size = 0
      · have hs : slice data d.offset d.size = [] := by simp [slice, hz]
        rw [hs] at hv
        simp [fmGet, hr, hu, readFileDataObj, ha, hf, hrd, stdReadAt, hno, hz, checkHash, hv]
      · simp only [slice] at hv
        simp [fmGet, hr, hu, readFileDataObj, ha, hf, hrd, stdReadAt, hno, hz, hle, checkHash, hv]
    | mmap =>
      simp only [slice] at hv
      simp [fmGet, hr, hu, readFileDataObj, ha, hf, hrd, mmapReadAt, hno, hol, hle, checkHash, hv]

/-- **Filestore, intact references are served.** -/
theorem c03_filestore_complete (w : World) (c : Cid) (d : DataObj) (data : Bytes)
    (hr : w.refs c.mh = .ref d) (hu : isURL d.path = false) (ha : w.allowFiles = true)
    (hoff : d.offset < 2 ^ 63) (hf : w.fs (absPath w.root d.path) = .file data)
    (hle : d.offset + d.size ≤ data.length)
    (hv : w.verdict (rawCid c.mh) (slice data d.offset d.size) = .eq) :
    fmGet w c = .ok (slice data d.offset d.size) := by
  have hno : ¬ d.offset ≥ 2 ^ 63 := Nat.not_le.mpr hoff
  have hol : ¬ data.length < d.offset := by omega
  cases hrd : w.reader with
  | std =>
    by_cases hz : d.size = 0
    · have hs : slice data d.offset d.size = [] := by simp [slice, hz]
      rw [hs] at hv ⊢
      simp [fmGet, hr, hu, readFileDataObj, ha, hf, hrd, stdReadAt, hno, hz, checkHash, hv]
    · simp only [slice] at hv ⊢
      simp [fmGet, hr, hu, readFileDataObj, ha, hf, hrd, stdReadAt, hno, hz, hle, checkHash, hv]
  | mmap =>
    simp only [slice] at hv ⊢
    simp [fmGet, hr, hu, readFileDataObj, ha, hf, hrd, mmapReadAt, hno, hol, hle, checkHash, hv]

/-- **URL references.** A body shorter than `size` ⇒ `FileChanged`; a status other than 200/206 or a
failed request ⇒ `FileError`; altered bytes ⇒ `FileChanged`. -/
theorem c03_url_corrupt (w : World) (c : Cid) (d : DataObj) (hr : w.refs c.mh = .ref d)
    (hu : isURL d.path = true) (ha : w.allowUrls = true) :
    (w.fetch d.path d.offset d.size = .connError → fmGet w c = .fileError) ∧
    (∀ st body, w.fetch d.path d.offset d.size = .resp st body → st ≠ 200 → st ≠ 206 → fmGet w c = .fileError) ∧
    (∀ st body, w.fetch d.path d.offset d.size = .resp st body → (st = 200 ∨ st = 206) →
      body.length < d.size → fmGet w c = .fileChanged) ∧
    (∀ st body, w.fetch d.path d.offset d.size = .resp st body → (st = 200 ∨ st = 206) →
      d.size ≤ body.length → w.verdict (rawCid c.mh) (body.take d.size) = .ne → fmGet w c = .fileChanged) := by
  refine ⟨?_, ?_, ?_, ?_⟩
  · intro hf; simp [fmGet, hr, hu, readURLDataObj, ha, hf]
  · intro st body hf h1 h2; simp [fmGet, hr, hu, readURLDataObj, ha, hf, h1, h2]
  · intro st body hf hs hl
    have : ¬ (st ≠ 200 ∧ st ≠ 206) := by omega
    simp [fmGet, hr, hu, readURLDataObj, ha, hf, this, hl]
  · intro st body hf hs hl hv
    have h1 : ¬ (st ≠ 200 ∧ st ≠ 206) := by omega
    have h2 : ¬ body.length < d.size := by omega
    simp [fmGet, hr, hu, readURLDataObj, ha, hf, h1, h2, checkHash, hv]

/-- **Filestore.Get** consults the FileManager exactly when the main blockstore reports not-found, so
its reference-backed answers inherit `c03_filestore_sound`. -/
theorem c03_filestoreGet (w : World) (c : Cid) :
    (w.inner c.mh = .notFound → filestoreGet w c = fmGet w c) ∧
    (∀ b, w.inner c.mh = .notFound → filestoreGet w c = .ok b → w.verdict (rawCid c.mh) b = .eq) := by
  refine ⟨fun h => by simp [filestoreGet, h], fun b h hg => ?_⟩
  have : fmGet w c = .ok b := by simpa [filestoreGet, h] using hg
  exact (c03_filestore_sound w c b this).1

/-- **The unverified queries are unverified (as documented).** `Has`/`GetSize` of the FileManager
answer from the reference alone: there are worlds in which they succeed although `Get` reports the
reference as corrupt — so callers must not take them as evidence that the data is retrievable. What
they do guarantee: `Has = true` / a size exactly when a reference entry is stored, and the size is
the recorded one. -/
theorem c03_has_getsize_unverified (w : World) (c : Cid) (d : DataObj) (hr : w.refs c.mh = .ref d) :
    fmHas w c = .bool true ∧ fmGetSize w c = .size d.size ∧
    (isURL d.path = false → w.allowFiles = true → w.fs (absPath w.root d.path) = .missing →
      fmGet w c = .fileNotFound) := by
  refine ⟨by simp [fmHas, hr], by simp [fmGetSize, hr], fun hu ha hm => ?_⟩
  simp [fmGet, hr, hu, readFileDataObj, ha, hm]

/-- when `Get` succeeds, `GetSize` agrees with the length of the returned bytes for file references
whose region lies inside the file (sizes recorded by `Put` are the block's length) -/
theorem c03_getsize_consistent (w : World) (c : Cid) (b : Bytes) (h : fmGet w c = .ok b) :
    ∃ d, w.refs c.mh = .ref d ∧ fmGetSize w c = .size d.size ∧ b.length ≤ d.size := by
  obtain ⟨_, d, hr, hu, hf⟩ := c03_filestore_sound w c b h
  refine ⟨d, hr, by simp [fmGetSize, hr], ?_⟩
  cases hurl : isURL d.path with
  | true =>
    obtain ⟨_, st, body, _, hb⟩ := hu hurl
    rw [hb]; simp [List.length_take]; omega
  | false =>
    obtain ⟨_, h' | h'⟩ := hf hurl
    · obtain ⟨data, _, hb, _⟩ := h'
      rw [hb]; simp [slice, List.length_take]; omega
    · rw [h'.2.2]; simp

/-- `Filestore.Put` dispatch: nothing is written when `Has` already answers true; a
`*posinfo.FilestoreNode` goes to the FileManager, anything else to the main blockstore -/
theorem c03_put_dispatch (w : World) (c : Cid) (node : Bool) :
    (filestoreHas w c = .bool true → filestorePutTarget w c node = .skip) ∧
    (filestoreHas w c = .bool false →
      filestorePutTarget w c node = if node then .fileManager else .blockstore) := by
  constructor <;> intro h <;> simp [filestorePutTarget, h]

/-! Non-vacuity: a world with a toy hash (`H data = [sum of bytes mod 256]`), a 5-byte file and a
reference to its middle 3 bytes; then the file shrinks / a byte flips. -/
section Examples
private def toyH (data : Bytes) : Bytes := [0x12, 0x01, UInt8.ofNat (data.foldl (fun a b => a + b.toNat) 0)]
private def w0 (file : FileState) : World :=
  { verdict := fun c d => if toyH d = c.mh then .eq else .ne
    inner := fun m => if m = toyH [9] then .block [9] else if m = toyH [7] then .block [8] else .notFound
    refs := fun m => if m = toyH [2, 3, 4] then .ref ⟨"a.bin".toList, 1, 3⟩ else .absent
    fs := fun p => if p = "/r/a.bin".toList then file else .missing
    fetch := fun _ _ _ => .connError
    allowFiles := true, allowUrls := false, reader := .std, root := "/r".toList }
example : fmGet (w0 (.file [1, 2, 3, 4, 5])) ⟨1, 0x70, toyH [2, 3, 4]⟩ = .ok [2, 3, 4] := by decide
example : fmGet (w0 (.file [1, 2, 3])) ⟨1, 0x70, toyH [2, 3, 4]⟩ = .fileChanged := by decide
example : fmGet (w0 (.file [1, 2, 7, 4, 5])) ⟨1, 0x70, toyH [2, 3, 4]⟩ = .fileChanged := by decide
example : fmGet (w0 .missing) ⟨1, 0x70, toyH [2, 3, 4]⟩ = .fileNotFound := by decide
example : validatingGet (w0 .missing) ⟨1, 0x55, toyH [9]⟩ = .ok [9] := by decide
example : validatingGet (w0 .missing) ⟨1, 0x55, toyH [7]⟩ = .mismatch := by decide
end Examples

end C03
