import BoxoModel.C12.Termination
/-!
# C12 — DAG walks visit exactly the reachable nodes and report the right CIDs

Property theorems only (vocabulary — `eff`, `Path`, `InLim`, `survive`, `ChainLogs`, `Safe`, `Full`, `PReach` — and
helpers are in `BoxoModel/C12/Lemmas.lean`).  The model is that of the *repaired* code (fix commits
`4178e8f`, `58f062d` on branch verif/walks).  Every statement quantifies over every graph (any size, sharing,
cycles, failing nodes of both kinds), every root, every option record (SkipRoot, provider, any list of error
options in any order with repetitions, any depth limit); the statements about the parallel walk over every
worker count and every reachable state of the small-step system, i.e. every interleaving of the workers'
steps and channel rendezvous.
-/
namespace C12

/-- "`c` was visited": the visit callback was called for it and answered true -/
def Visited (l : Logs) (c : Nat) : Prop := ∃ d, (c, d, true) ∈ l.visits

/-- "`c` is within the limit": some link path of admissible length leads from the root to it, through nodes
whose fetch succeeds (a swallowed error leaves no links); with SkipRoot the root itself does not count.
A path of length ≤ lim exists iff the shortest distance is ≤ lim. -/
def Within (g : Graph) (cfg : Cfg) (root c : Nat) : Prop :=
  ∃ n, Path g cfg root c n ∧ InLim cfg.lim n ∧ (cfg.skipRoot = true → n ≥ 1)

/-! ## options compose -/

/-- Any list of error options yields a handler chain that terminates (it is a fold) and whose effect is:
the error that survives is `survive hs e`, OnMissing callbacks receive exactly the failing CID and only for
a not-found error, OnError handlers receive exactly the failing CID, nothing else is touched. -/
theorem c12_options_compose (hs : List HK) (c : Nat) (e0 : Err) (l : Logs) :
    (runChain hs c (some e0) l).1 = survive hs (some e0) ∧ ChainLogs c e0 l (runChain hs c (some e0) l).2 :=
  ⟨runChain_fst hs c _ l, runChain_logs hs c e0 _ l (Or.inl rfl)⟩

/-- documented meaning of the built-in options, in any combination and order: the error is swallowed iff
IgnoreErrors is present, or IgnoreMissing is present and the error is not-found; otherwise it is returned
unchanged (OnMissing never changes it). -/
theorem c12_options_meaning (hs : List HK) (hb : ∀ h ∈ hs, ∀ m, h ≠ .onError m) (e : Err) :
    survive hs (some e) =
      if (.ignoreErrors ∈ hs ∨ (.ignoreMissing ∈ hs ∧ e = .notfound)) then none else some e := by
  have hnone : ∀ hs : List HK, (∀ h ∈ hs, ∀ m, h ≠ .onError m) → survive hs none = none := by
    intro hs
    induction hs with
    | nil => intro _; rfl
    | cons h hs ih =>
      intro hb
      have : surviveH h none = none := by
        cases h with
        | onError m => exact absurd rfl (hb _ List.mem_cons_self m)
        | _ => simp [surviveH]
      simp only [survive, List.foldl_cons, this]
      exact ih (fun h' hh => hb h' (List.mem_cons_of_mem _ hh))
  induction hs with
  | nil => simp [survive]
  | cons h hs ih =>
    have hb' : ∀ h' ∈ hs, ∀ m, h' ≠ .onError m := fun h' hh => hb h' (List.mem_cons_of_mem _ hh)
    have ih' := ih hb'
    have hcons : survive (h :: hs) (some e) = survive hs (surviveH h (some e)) := rfl
    rw [hcons]
    cases h with
    | ignoreErrors => rw [show surviveH .ignoreErrors (some e) = none from rfl, hnone hs hb']; simp
    | ignoreMissing =>
      by_cases he : e = .notfound
      · subst he; rw [show surviveH .ignoreMissing (some .notfound) = none from rfl, hnone hs hb']; simp
      · rw [show surviveH .ignoreMissing (some e) = some e from by simp [surviveH, he], ih']; simp [he]
    | onMissing => rw [show surviveH .onMissing (some e) = some e from rfl, ih']; simp
    | onError m => exact absurd rfl (hb _ List.mem_cons_self m)

/-! ## sequential walk -/

/-- The sequential walk that completes visits exactly the nodes within the limit; one that aborts has
visited only such nodes. In both cases the logs are `Safe` (see `c12_handler_cid`, `c12_provider`). -/
theorem c12_seq_visits (g : Graph) (cfg : Cfg) (root fuel : Nat) (o : Outcome) (s' : WSt)
    (h : seqWalk g cfg fuel root 0 {} = (o, s')) :
    (o = .ok → ∀ c, Visited s'.logs c ↔ Within g cfg root c) ∧
    (∀ e, o = .abort e → ∀ c, Visited s'.logs c → Within g cfg root c) := by
  have F0 := Full.init g cfg root
  have r := (seq_ok g cfg root fuel).1 root 0 {} o s' (fun _ _ => False) (fun _ _ => False) h
    (fun hs => F0.congr (fun x y => by simp [hs.1]) (fun x y => by simp [addI, hs.1]))
    (fun hs => by
      have hf : cfg.skipRoot = false := by
        cases h' : cfg.skipRoot with
        | false => rfl
        | true => exact absurd ⟨h', rfl⟩ hs
      exact F0.congr (fun x y => by simp [addI, hf]) (fun x y => by simp [hf]))
  have snd : ∀ w : WSt, Safe g cfg root w → ∀ c, Visited w.logs c → Within g cfg root c := by
    intro w S c hv
    have := (S.lv c).2 hv
    cases hf : Vis.find w.vis c with
    | none => rw [hf] at this; simp at this
    | some od => exact ⟨od, S.sv c od hf⟩
  refine ⟨fun ho => ?_, fun e he c hv => snd s' (r.2 e he) c hv⟩
  have F := r.1 ho
  intro c
  refine ⟨snd s' F.safe c, ?_⟩
  rintro ⟨n, hp, hl, hs⟩
  rcases F.inv.complete (fun _ _ h => h) (fun _ _ h => h) c n hp hl with ⟨rfl, h1⟩ | hcov
  · have := hs h1; omega
  · rcases hcov with ⟨h1, h2⟩ | ⟨od, h1, _⟩
    · rcases hl with hl | hl <;> omega
    · exact (F.safe.lv c).1 (by rw [h1]; rfl)

/-- The sequential walk never runs out of the model's fuel: there is a bound (visitor budget × (max degree + 2))
such that with any larger fuel the outcome is `ok` or `abort`. So the statements about the sequential walk
(`c12_seq_visits`, `c12_handler_cid_seq`, `c12_provider_seq`) are about *every* sequential walk. -/
theorem c12_seq_fuel_ok (g : Graph) (cfg : Cfg) (root : Nat) :
    ∃ F, ∀ fuel, F ≤ fuel → (seqWalk g cfg fuel root 0 {}).1 ≠ .fuel := by
  obtain ⟨M, hB⟩ := bounded_exists g root
  exact ⟨seqFuel g cfg M, fun fuel hf => seqWalk_fuel_ok hB fuel hf⟩

/-- … packaged: for every large enough fuel the walk completes or aborts; if it completes the visited set is
exactly `Within`; in both cases only nodes within the limit were visited. -/
theorem c12_seq_total (g : Graph) (cfg : Cfg) (root : Nat) :
    ∃ F, ∀ fuel, F ≤ fuel → ∃ o s', seqWalk g cfg fuel root 0 {} = (o, s') ∧ o ≠ .fuel ∧
      (o = .ok → ∀ c, Visited s'.logs c ↔ Within g cfg root c) ∧ (∀ c, Visited s'.logs c → Within g cfg root c) := by
  obtain ⟨F, hF⟩ := c12_seq_fuel_ok g cfg root
  refine ⟨F, fun fuel hf => ⟨(seqWalk g cfg fuel root 0 {}).1, (seqWalk g cfg fuel root 0 {}).2, rfl, hF fuel hf, ?_, ?_⟩⟩
  · exact (c12_seq_visits g cfg root fuel _ _ rfl).1
  · intro c hv
    have h := c12_seq_visits g cfg root fuel _ _ rfl
    cases ho : (seqWalk g cfg fuel root 0 {}).1 with
    | ok => exact ((h.1 ho) c).1 hv
    | abort e => exact h.2 e ho c hv
    | fuel => exact absurd ho (hF fuel hf)

/-! ## parallel walk: every schedule -/

/-- the dispatcher/worker system is never stuck: while parallelWalkDepth has not returned, some event is enabled -/
theorem c12_par_no_deadlock (g : Graph) (cfg : Cfg) (root conc : Nat) (hc : conc ≥ 1) (s : PSt)
    (hr : PReach g cfg root conc s) (hrun : s.result = none) : ∃ i s', pstep g cfg s i = some s' := by
  have hlen : s.workers.length = conc := hr.len
  obtain ⟨_, S⟩ := hr.pinv
  by_cases hb : busy s.workers = 0
  · -- all idle: the dispatcher can send `next` to worker 0
    have hidle := busy_zero s.workers hb 0 (by omega)
    have hnext := S.live hrun hb
    cases hn : s.next with
    | none => rw [hn] at hnext; cases hnext
    | some cd =>
      refine ⟨0, ?_⟩
      unfold pstep
      have h0 : s.workers[0]? = some .idle := by
        rw [List.getElem?_eq_getElem (by omega), hidle]
      simp only [hrun, Option.isSome_none, Bool.false_eq_true, if_false, h0, hn]
      exact ⟨_, rfl⟩
  · -- some worker is busy: its next event is enabled
    have : ∃ j, ∃ h : j < s.workers.length, s.workers[j] ≠ .idle := busy_ne_zero s.workers hb
    obtain ⟨j, hj, hne⟩ := this
    refine ⟨j, ?_⟩
    unfold pstep
    have hj' : s.workers[j]? = some s.workers[j] := List.getElem?_eq_getElem hj
    simp only [hrun, Option.isSome_none, Bool.false_eq_true, if_false, hj']
    cases hph : s.workers[j] with
    | idle => exact absurd hph hne
    | got c d => simp only; split <;> exact ⟨_, rfl⟩
    | fetch c d => simp only; split <;> exact ⟨_, rfl⟩
    | out ks d => exact ⟨_, rfl⟩
    | done => exact ⟨_, rfl⟩
    | err e c d => exact ⟨_, rfl⟩

/-- Every schedule is finite: there is a measure on states (visitor budget × weight + weights of the items
in flight) that every event strictly decreases. Together with `c12_par_no_deadlock` (a state without an
enabled event has returned): under every schedule parallelWalkDepth returns after at most `m (init)` events. -/
theorem c12_par_terminates (g : Graph) (cfg : Cfg) (root conc : Nat) :
    ∃ m : PSt → Nat, ∀ s, PReach g cfg root conc s → ∀ i s', pstep g cfg s i = some s' → m s' < m s := by
  obtain ⟨M, hB⟩ := bounded_exists g root
  exact ⟨mu g cfg M, fun s hr i s' hs => (pstep_mu hB hs hr.pinv (hr.inb hB)).1⟩

/-- In every reachable state — whatever the schedule, whether or not an error has occurred — only nodes
within the limit have been visited; and when parallelWalkDepth returns nil, nothing is left in flight and
the visited nodes are *exactly* the nodes within the limit (the same set as for the sequential walk). -/
theorem c12_par_visits (g : Graph) (cfg : Cfg) (root conc : Nat) (s : PSt) (hr : PReach g cfg root conc s) :
    (∀ c, Visited s.w.logs c → Within g cfg root c) ∧
    (s.result = some none → (∀ j (h : j < s.workers.length), s.workers[j] = .idle) ∧ s.next = none ∧ s.queue = [] ∧
      ∀ c, Visited s.w.logs c ↔ Within g cfg root c) := by
  obtain ⟨F, S⟩ := hr.pinv
  have snd : ∀ c, Visited s.w.logs c → Within g cfg root c := by
    intro c hv
    have := (F.safe.lv c).2 hv
    cases hf : Vis.find s.w.vis c with
    | none => rw [hf] at this; simp at this
    | some od => exact ⟨od, F.safe.sv c od hf⟩
  refine ⟨snd, fun hres => ?_⟩
  obtain ⟨hb, hn⟩ := S.fin hres
  have hidle := busy_zero s.workers hb
  have hq := S.nq hn
  have noHas : ∀ f : Phase → Prop, f .idle = False → ¬ Has s.workers f := by
    rintro f hf ⟨j, hj, h⟩
    rw [hidle j hj, hf] at h; exact h
  have hP : ∀ x y, ¬ PP cfg s x y := by
    rintro x y ⟨_, (h | h | h) | h⟩
    · rw [hn] at h; cases h
    · rw [hq] at h; cases h
    · exact noHas _ rfl h
    · exact noHas _ rfl h
  have hO : ∀ x y, ¬ OO cfg s x y := by
    rintro x y (h | ⟨_, _, h | h | h⟩)
    · exact noHas _ rfl h
    · rw [hn] at h; cases h
    · rw [hq] at h; cases h
    · exact noHas _ rfl h
  refine ⟨hidle, hn, hq, fun c => ⟨snd c, ?_⟩⟩
  rintro ⟨n, hp, hl, hs⟩
  rcases F.inv.complete hP hO c n hp hl with ⟨rfl, h1⟩ | hcov
  · have := hs h1; omega
  · rcases hcov with ⟨h1, h2⟩ | ⟨od, h1, _⟩
    · rcases hl with hl | hl <;> omega
    · exact (F.safe.lv c).1 (by rw [h1]; rfl)

/-! ## callbacks receive the right CIDs -/

/-- Sequential walk, completed or aborted: every OnMissing callback received a CID whose getLinks failed
with not-found; every OnError handler received a CID whose getLinks failed. -/
theorem c12_handler_cid_seq (g : Graph) (cfg : Cfg) (root fuel : Nat) (o : Outcome) (s' : WSt)
    (h : seqWalk g cfg fuel root 0 {} = (o, s')) (hne : o ≠ .fuel) :
    (∀ c ∈ s'.logs.missing, g.get c = .fail .notfound) ∧ (∀ p ∈ s'.logs.onerr, ∃ e, g.get p.1 = .fail e) := by
  have F0 := Full.init g cfg root
  have r := (seq_ok g cfg root fuel).1 root 0 {} o s' (fun _ _ => False) (fun _ _ => False) h
    (fun hs => F0.congr (fun x y => by simp [hs.1]) (fun x y => by simp [addI, hs.1]))
    (fun hs => by
      have hf : cfg.skipRoot = false := by
        cases h' : cfg.skipRoot with
        | false => rfl
        | true => exact absurd ⟨h', rfl⟩ hs
      exact F0.congr (fun x y => by simp [addI, hf]) (fun x y => by simp [hf]))
  have S : Safe g cfg root s' := by
    cases o with
    | ok => exact (r.1 rfl).safe
    | abort e => exact r.2 e rfl
    | fuel => exact absurd rfl hne
  exact ⟨S.lm, S.le⟩

/-- Parallel walk, every reachable state of every schedule: the same. -/
theorem c12_handler_cid (g : Graph) (cfg : Cfg) (root conc : Nat) (s : PSt) (hr : PReach g cfg root conc s) :
    (∀ c ∈ s.w.logs.missing, g.get c = .fail .notfound) ∧ (∀ p ∈ s.w.logs.onerr, ∃ e, g.get p.1 = .fail e) :=
  ⟨hr.pinv.1.safe.lm, hr.pinv.1.safe.le⟩

/-- Provider (parallel walk, every schedule): it is only ever asked to announce a visited node (or the
skipped root) whose fetch did not abort the walk; and when the walk returns nil every visited node — and the
skipped root — has been announced. -/
theorem c12_provider (g : Graph) (cfg : Cfg) (root conc : Nat) (s : PSt) (hr : PReach g cfg root conc s) :
    (∀ c ∈ s.w.logs.prov, cfg.provider = true ∧ (∃ ks, eff g cfg c = .ok ks) ∧
        (Visited s.w.logs c ∨ (cfg.skipRoot = true ∧ c = root))) ∧
    (s.result = some none → cfg.provider = true →
        (∀ c, Visited s.w.logs c → c ∈ s.w.logs.prov) ∧ (cfg.skipRoot = true → root ∈ s.w.logs.prov)) := by
  obtain ⟨F, S⟩ := hr.pinv
  refine ⟨fun c hc => ?_, fun hres hp => ?_⟩
  · obtain ⟨a, b, c'⟩ := F.safe.lp c hc
    exact ⟨a, b, c'.elim (fun h => Or.inl ((F.safe.lv c).1 h)) Or.inr⟩
  · obtain ⟨hb, hn⟩ := S.fin hres
    have hidle := busy_zero s.workers hb
    have hq := S.nq hn
    have noHas : ∀ f : Phase → Prop, f .idle = False → ¬ Has s.workers f := by
      rintro f hf ⟨j, hj, h⟩
      rw [hidle j hj, hf] at h; exact h
    have hO : ∀ x y, ¬ OO cfg s x y := by
      rintro x y (h | ⟨_, _, h | h | h⟩)
      · exact noHas _ rfl h
      · rw [hn] at h; cases h
      · rw [hq] at h; cases h
      · exact noHas _ rfl h
    obtain ⟨a, b⟩ := F.lc hp
    refine ⟨fun c hv => ?_, fun hs => (b hs).elim id (fun h => absurd h (hO _ _))⟩
    have := (F.safe.lv c).2 hv
    cases hf : Vis.find s.w.vis c with
    | none => rw [hf] at this; simp at this
    | some od => exact (a c od hf).elim id (fun h => absurd h (hO _ _))

/-- Provider, sequential walk that completes: announced = visited (plus the skipped root). -/
theorem c12_provider_seq (g : Graph) (cfg : Cfg) (root fuel : Nat) (s' : WSt)
    (h : seqWalk g cfg fuel root 0 {} = (.ok, s')) :
    (∀ c ∈ s'.logs.prov, Visited s'.logs c ∨ (cfg.skipRoot = true ∧ c = root)) ∧
    (cfg.provider = true → (∀ c, Visited s'.logs c → c ∈ s'.logs.prov) ∧ (cfg.skipRoot = true → root ∈ s'.logs.prov)) := by
  have F0 := Full.init g cfg root
  have r := (seq_ok g cfg root fuel).1 root 0 {} .ok s' (fun _ _ => False) (fun _ _ => False) h
    (fun hs => F0.congr (fun x y => by simp [hs.1]) (fun x y => by simp [addI, hs.1]))
    (fun hs => by
      have hf : cfg.skipRoot = false := by
        cases h' : cfg.skipRoot with
        | false => rfl
        | true => exact absurd ⟨h', rfl⟩ hs
      exact F0.congr (fun x y => by simp [addI, hf]) (fun x y => by simp [hf]))
  have F := r.1 rfl
  refine ⟨fun c hc => ?_, fun hp => ?_⟩
  · exact (F.safe.lp c hc).2.2.elim (fun h => Or.inl ((F.safe.lv c).1 h)) Or.inr
  · obtain ⟨a, b⟩ := F.lc hp
    refine ⟨fun c hv => ?_, fun hs => (b hs).elim id (fun h => h.elim)⟩
    have := (F.safe.lv c).2 hv
    cases hf : Vis.find s'.vis c with
    | none => rw [hf] at this; simp at this
    | some od => exact (a c od hf).elim id (fun h => h.elim)

/-- A failing provider is only logged: which CIDs `StartProviding` fails for has no influence on the
sequential walk (outcome, visits, callbacks, announcements) nor on any event of the parallel walk — hence on
no reachable state, result or visited set under any schedule. -/
theorem c12_provider_error_ignored (g : Graph) (cfg : Cfg) (f : Nat → Bool) :
    (∀ fuel c d s, seqWalk g { cfg with provFail := f } fuel c d s = seqWalk g cfg fuel c d s) ∧
    (∀ s i, pstep g { cfg with provFail := f } s i = pstep g cfg s i) ∧
    (∀ root conc s, PReach g { cfg with provFail := f } root conc s ↔ PReach g cfg root conc s) := by
  refine ⟨fun fuel => (seq_provFail g cfg f fuel).1, pstep_provFail g cfg f, fun root conc s => ?_⟩
  constructor
  · intro h
    induction h with
    | init => exact PReach.init
    | step _ hs ih => exact PReach.step ih (by rw [← pstep_provFail g cfg f]; exact hs)
  · intro h
    induction h with
    | init => exact PReach.init
    | step _ hs ih => exact PReach.step ih (by rw [pstep_provFail g cfg f]; exact hs)

/-- FetchGraph (no SkipRoot, depth-aware visitor): when it returns nil, the blocks fetched — the visited
CIDs — are exactly those at shortest distance ≤ the limit from the root (all reachable ones for a negative
limit), for every worker count and schedule. -/
theorem c12_fetch_local (g : Graph) (cfg : Cfg) (hs : cfg.skipRoot = false) (root conc : Nat) (s : PSt)
    (hr : PReach g cfg root conc s) (hres : s.result = some none) (c : Nat) :
    Visited s.w.logs c ↔ ∃ n, Path g cfg root c n ∧ (cfg.lim < 0 ∨ (n : Int) ≤ cfg.lim) := by
  rw [((c12_par_visits g cfg root conc s hr).2 hres).2.2.2 c]
  constructor
  · rintro ⟨n, hp, hl, _⟩; exact ⟨n, hp, hl⟩
  · rintro ⟨n, hp, hl⟩; exact ⟨n, hp, hl, fun h => by rw [hs] at h; cases h⟩

/-! ## non-vacuity -/

/-- 0 ← 2 → 1(missing), 3 → {2, 0}, 4 → {3, 1}; depth limit 2 from root 4 -/
def exG : Graph where
  n := 5
  links := fun c => match c with
    | 0 => .ok []
    | 1 => .fail .notfound
    | 2 => .ok [0, 1]
    | 3 => .ok [2, 0]
    | _ => .ok [3, 1]

def exCfg : Cfg := { handlers := [.onMissing, .ignoreMissing], provider := true, lim := 2 }

example : (seqWalk exG exCfg 100 4 0 {}).1 = .ok := by decide
example : (seqWalk exG exCfg 100 4 0 {}).2.logs.missing = [1] := by decide
example : (seqWalk exG exCfg 100 4 0 {}).2.logs.prov = [4, 3, 2, 0, 1] := by decide
example : (seqWalk exG { exCfg with handlers := [.ignoreMissing, .onMissing] } 100 4 0 {}).2.logs.missing = [] := by decide
example : (seqWalk exG { exCfg with handlers := [] } 100 4 0 {}).1 = .abort .notfound := by decide
-- the parallel walk under two different schedules returns nil with the same visited set
example : (prun exG exCfg (fun _ => [0, 1, 2]) 200 (PSt.init 4 3)).result = some none := by decide
example : (prun exG exCfg (fun t => if t % 2 = 0 then [2, 1, 0] else [1, 0, 2]) 200 (PSt.init 4 3)).result = some none := by
  decide
example : Within exG exCfg 4 0 := ⟨2, Path.step (k := 0) (Path.step (k := 3) Path.zero (ks := [3, 1]) rfl (by decide)) (ks := [2, 0]) rfl (by decide),
  Or.inr (by decide), fun h => by cases h⟩

end C12
