import BoxoModel.C13.Lemmas
/-!
# C13 — Provide-walker emits each reachable CID once in pre-order

Property theorems only (helpers and the specification vocabulary `Dfs`, `Reach`, `ReachE`, `AliasOK`,
`Closed` are in `BoxoModel/C13/Lemmas.lean`).  Every statement quantifies over every `Graph` (any
number of CIDs, any link lists — cycles and self-links included —, any tracker-key function, any locality
verdicts, any set of identity CIDs), every initial tracker content and every root; the Bloom theorems
over every probe-position family `h` and every visit history.
-/
namespace C13

/-! ## walkLoop with an exact tracker -/

/-- the walk terminates within the fuel it is given (the `none` result of `loop` is unreachable) -/
theorem c13_fuel_ok (g : Graph) (stopAt : Nat) (tr : MapT) (root : Nat) :
    (walk g stopAt tr root).isSome = true :=
  loop_fuel_ok g stopAt _ _ (Nat.le_refl _)

/-- The iterative explicit-stack walk *is* the recursive pre-order DFS (children in link order,
mark-on-entry keyed by the tracker key, identity CIDs traversed but not emitted, non-local / unfetchable
CIDs marked and skipped): its final tracker set and its emission sequence are those of `Dfs`. -/
theorem c13_preorder (g : Graph) (tr : MapT) (root : Nat) (r : St) (h : walk g 0 tr root = some r) :
    r.stack = [] ∧ Dfs g tr.set [root] r.tr.set r.out := by
  obtain ⟨S, d⟩ := tr
  obtain ⟨S', o, d', f', _, hd, hl⟩ := loop_decompose g _ [root] [] S d [] r (by simpa [walk] using h)
  cases f' with
  | zero => simp [loop] at hl
  | succ n =>
    simp [loop] at hl; subst hl
    exact ⟨rfl, hd⟩

/-- … and the reference traversal is a function: there is no other admissible result. -/
theorem c13_preorder_unique (g : Graph) (tr : MapT) (root : Nat) (r : St) (h : walk g 0 tr root = some r)
    (S' o : List Nat) (hd : Dfs g tr.set [root] S' o) : r.tr.set = S' ∧ r.out = o :=
  (c13_preorder g tr root r h).2.deterministic hd

/-- each CID at most once — even up to aliasing: the tracker keys of the emitted CIDs are pairwise
distinct, and none of them was already in the tracker (nothing an earlier walk marked is emitted again) -/
theorem c13_once (g : Graph) (tr : MapT) (root : Nat) (r : St) (h : walk g 0 tr root = some r) :
    (r.out.map g.key).Nodup ∧ ∀ c ∈ r.out, g.key c ∉ tr.set ∧ g.key c ∈ r.tr.set := by
  have := (c13_preorder g tr root r h).2.emitted_new
  exact ⟨this.2, this.1⟩

/-- nothing failing the locality check, no identity CID, nothing unfetched, nothing unreachable is emitted -/
theorem c13_sound (g : Graph) (tr : MapT) (root : Nat) (r : St) (h : walk g 0 tr root = some r) :
    ∀ c ∈ r.out, g.ident c = false ∧ g.loc c = true ∧ g.fetch c ≠ none ∧ Reach g root c := by
  intro c hc
  obtain ⟨h1, r', hr, h2⟩ := (c13_preorder g tr root r h).2.sound c hc
  simp at hr; subst hr
  have hav : avail g c := by
    cases h2 with
    | refl hav => exact hav
    | step _ _ _ hav => exact hav
  exact ⟨h1, hav.1, hav.2, h2⟩

/-- every CID reachable through available blocks ends up marked, and — unless it was marked before the
walk or is an identity CID — (an alias of) it is emitted.  `Closed` holds for the empty tracker and is
re-established by every completed walk (`c13_shared`). -/
theorem c13_complete (g : Graph) (hA : AliasOK g) (tr : MapT) (hC : Closed g tr.set) (root : Nat) (r : St)
    (h : walk g 0 tr root = some r) :
    Closed g r.tr.set ∧ ∀ c, Reach g root c → g.key c ∈ r.tr.set ∧
      (g.key c ∉ tr.set → g.ident c = false → ∃ c' ∈ r.out, g.key c' = g.key c) := by
  have hd := (c13_preorder g tr root r h).2
  have hC' := hd.closed hA hC
  refine ⟨hC', fun c hr => ?_⟩
  have hm : g.key c ∈ r.tr.set := hC'.reach (hd.roots_marked root (by simp)) hr
  refine ⟨hm, fun hn hid => ?_⟩
  have hav : avail g c := by
    cases hr with
    | refl hav => exact hav
    | step _ _ _ hav => exact hav
  exact (hd.processed hA c hm hn hav).2 hid

/-- `AliasOK` cannot be dropped from `c13_complete`: CID 1 is the raw-codec view and CID 2 the dag-pb view of
one block (same tracker key 1); the root 0 links the raw view first. The walk emits the root and the raw
view, skips the dag-pb view as already seen, and the child 3 — reachable through available blocks — is
never emitted under any alias (known finding `c13-multihash-alias-subtree-skipped`). -/
theorem c13_complete_counterexample :
    let g : Graph := { n := 4, key := fun c => if c = 2 then 1 else c,
                       links := fun c => match c with | 0 => some [1, 2] | 2 => some [3] | _ => some [],
                       loc := fun _ => true, ident := fun _ => false }
    (walk g 0 {} 0).map (·.out) = some [0, 1] ∧ Reach g 0 3 ∧ ¬ AliasOK g := by
  refine ⟨by decide, ?_, ?_⟩
  · exact Reach.step (b := 2) (ks := [3])
      (Reach.step (b := 0) (ks := [1, 2]) (Reach.refl ⟨rfl, by decide⟩) rfl (by decide) ⟨rfl, by decide⟩)
      rfl (by decide) ⟨rfl, by decide⟩
  · intro h
    have := (h 1 2 rfl).2.2
    simp [Graph.fetch] at this

/-- Fresh exact tracker, no two CIDs sharing a key: the emitted CIDs are *exactly* the non-identity CIDs
reachable from the root through locally available, fetchable blocks — each exactly once. -/
theorem c13_exact (g : Graph) (hk : ∀ c, g.key c = c) (root : Nat) (r : St) (h : walk g 0 {} root = some r) :
    r.out.Nodup ∧ ∀ c, c ∈ r.out ↔ (Reach g root c ∧ g.ident c = false) := by
  have hA : AliasOK g := by
    intro c c' e; rw [hk, hk] at e; subst e; exact ⟨rfl, rfl, rfl⟩
  have hC : Closed g ({} : MapT).set := by intro c hc; simp at hc
  have h1 := (c13_once g {} root r h).1
  have hkey : r.out.map g.key = r.out := by
    have : g.key = id := funext hk
    rw [this]; simp
  rw [hkey] at h1
  refine ⟨h1, fun c => ⟨fun hc => ?_, fun ⟨hr, hid⟩ => ?_⟩⟩
  · have := c13_sound g {} root r h c hc
    exact ⟨this.2.2.2, this.1⟩
  · obtain ⟨c', hc', e⟩ := ((c13_complete g hA {} hC root r h).2 c hr).2 (by simp) hid
    rw [hk, hk] at e; subst e; exact hc'

/-- emit returning false on its k-th call: the walk emitted exactly the first k CIDs of the full walk -/
theorem c13_stop_prefix (g : Graph) (k : Nat) (hk : 0 < k) (tr : MapT) (root : Nat) (r0 : St)
    (h : walk g 0 tr root = some r0) :
    ∃ r, walk g k tr root = some r ∧ r.out = r0.out.take k :=
  loop_stop_take g true k _ _ r0 (by simpa using hk) h

/-! ## a tracker shared by several walks -/

/-- consecutive complete walks from `roots` sharing one tracker; result = final tracker, all emissions -/
def walkMany (g : Graph) : List Nat → MapT → Option (MapT × List Nat)
  | [], tr => some (tr, [])
  | root :: rs, tr =>
    match walk g 0 tr root with
    | none => none
    | some s =>
      match walkMany g rs s.tr with
      | none => none
      | some r => some (r.1, s.out ++ r.2)

/-- nothing is emitted twice overall (up to aliasing), and nothing the tracker already held -/
theorem c13_shared_once (g : Graph) : ∀ (roots : List Nat) (tr : MapT) (r : MapT × List Nat),
    walkMany g roots tr = some r →
    (r.2.map g.key).Nodup ∧ (∀ c ∈ r.2, g.key c ∉ tr.set ∧ g.key c ∈ r.1.set) ∧ ∀ k ∈ tr.set, k ∈ r.1.set := by
  intro roots
  induction roots with
  | nil => intro tr r h; simp [walkMany] at h; subst h; simp
  | cons root rs ih =>
    intro tr r h
    simp only [walkMany] at h
    cases hw : walk g 0 tr root with
    | none => simp [hw] at h
    | some s =>
      cases hm : walkMany g rs s.tr with
      | none => simp [hw, hm] at h
      | some r' =>
        simp [hw, hm] at h; subst h
        obtain ⟨n1, m1⟩ := c13_once g tr root s hw
        obtain ⟨n2, m2, sub2⟩ := ih s.tr r' hm
        have sub1 := (c13_preorder g tr root s hw).2.mono
        refine ⟨?_, ?_, fun k hk => sub2 k (sub1 k hk)⟩
        · rw [List.map_append, List.nodup_append]
          refine ⟨n1, n2, ?_⟩
          intro a ha b hb hab
          obtain ⟨x, hx, rfl⟩ := List.mem_map.1 ha
          obtain ⟨y, hy, rfl⟩ := List.mem_map.1 hb
          exact (m2 y hy).1 (hab ▸ (m1 x hx).2)
        · intro c hc
          rcases List.mem_append.1 hc with hc | hc
          · exact ⟨(m1 c hc).1, sub2 _ (m1 c hc).2⟩
          · exact ⟨fun hS => (m2 c hc).1 (sub1 _ hS), (m2 c hc).2⟩

/-- starting from a closed tracker (e.g. the empty one), after the walks every CID reachable from any
of the roots is marked, and — unless it was marked before the first walk or is an identity CID — was
emitted by one of the walks -/
theorem c13_shared_complete (g : Graph) (hA : AliasOK g) : ∀ (roots : List Nat) (tr : MapT) (r : MapT × List Nat),
    Closed g tr.set → walkMany g roots tr = some r →
    Closed g r.1.set ∧ ∀ root ∈ roots, ∀ c, Reach g root c → g.key c ∈ r.1.set ∧
      (g.key c ∉ tr.set → g.ident c = false → ∃ c' ∈ r.2, g.key c' = g.key c) := by
  intro roots
  induction roots with
  | nil => intro tr r hC h; simp [walkMany] at h; subst h; exact ⟨hC, by simp⟩
  | cons root rs ih =>
    intro tr r hC h
    simp only [walkMany] at h
    cases hw : walk g 0 tr root with
    | none => simp [hw] at h
    | some s =>
      cases hm : walkMany g rs s.tr with
      | none => simp [hw, hm] at h
      | some r' =>
        simp [hw, hm] at h; subst h
        obtain ⟨hC1, hR1⟩ := c13_complete g hA tr hC root s hw
        obtain ⟨hC2, hR2⟩ := ih s.tr r' hC1 hm
        obtain ⟨_, _, sub2⟩ := c13_shared_once g rs s.tr r' hm
        refine ⟨hC2, ?_⟩
        intro root' hr' c hr
        have first : g.key c ∈ s.tr.set → g.key c ∈ r'.1.set ∧
            (g.key c ∉ tr.set → g.ident c = false → ∃ c' ∈ s.out ++ r'.2, g.key c' = g.key c) := by
          intro hin
          refine ⟨sub2 _ hin, fun hn hid => ?_⟩
          have hav : avail g c := by
            cases hr with
            | refl hav => exact hav
            | step _ _ _ hav => exact hav
          obtain ⟨c', hc', e⟩ := ((c13_preorder g tr root s hw).2.processed hA c hin hn hav).2 hid
          exact ⟨c', List.mem_append_left _ hc', e⟩
        rcases List.mem_cons.1 hr' with rfl | hr'
        · exact first (hR1 c hr).1
        · obtain ⟨a, b⟩ := hR2 root' hr' c hr
          by_cases hin : g.key c ∈ s.tr.set
          · exact first hin
          · refine ⟨a, fun _ hid => ?_⟩
            obtain ⟨c', hc', e⟩ := b hin hid
            exact ⟨c', List.mem_append_right _ hc', e⟩

/-! ## entity-root walk (WalkEntityRoots = the same loop over the cut graph) -/

/-- The entity walk with a fresh exact tracker emits exactly the non-identity CIDs reachable from the root
without passing *through* a File or Symlink entity (their chunks are not descended), each once, in the
pre-order of the cut graph. -/
theorem c13_entity (g : Graph) (ent : Nat → Entity) (hk : ∀ c, g.key c = c) (root : Nat) (r : St)
    (h : walk (cut g ent) 0 {} root = some r) :
    Dfs (cut g ent) [] [root] r.tr.set r.out ∧ r.out.Nodup ∧
    ∀ c, c ∈ r.out ↔ (ReachE g ent root c ∧ g.ident c = false) := by
  have e := c13_exact (cut g ent) hk root r h
  refine ⟨(c13_preorder (cut g ent) {} root r h).2, e.1, fun c => ?_⟩
  rw [e.2 c, reach_cut_iff]
  exact Iff.rfl

/-- a CID below a File / Symlink entity only is never emitted by the entity walk, whatever the tracker -/
theorem c13_entity_sound (g : Graph) (ent : Nat → Entity) (tr : MapT) (root : Nat) (r : St)
    (h : walk (cut g ent) 0 tr root = some r) :
    ∀ c ∈ r.out, g.ident c = false ∧ g.loc c = true ∧ ReachE g ent root c := by
  intro c hc
  have := c13_sound (cut g ent) tr root r h c hc
  exact ⟨this.1, this.2.1, (reach_cut_iff g ent root c).1 this.2.2.2⟩

/-- `detectEntityType` never classifies anything but dag-pb UnixFS Directory / HAMTShard nodes and
non-UnixFS nodes as descendable -/
theorem c13_detect (codec : Codec) (data : Option (Option Nat)) :
    (detect codec data = .file ↔ (codec = .raw ∨ (codec = .dagpb ∧ (data = some (some 2) ∨ data = some (some 0))))) ∧
    (detect codec data = .symlink ↔ (codec = .dagpb ∧ data = some (some 4))) ∧
    (detect codec data = .directory ↔ (codec = .dagpb ∧ data = some (some 1))) ∧
    (detect codec data = .hamt ↔ (codec = .dagpb ∧ data = some (some 5))) := by
  cases codec
  · simp [detect]
  · rcases data with _ | _ | t
    · simp [detect]
    · simp [detect]
    · simp only [detect, Option.some.injEq]
      by_cases h2 : t = 2
      · subst h2; simp
      by_cases h0 : t = 0
      · subst h0; simp
      by_cases h1 : t = 1
      · subst h1; simp
      by_cases h5 : t = 5
      · subst h5; simp
      by_cases h4 : t = 4
      · subst h4; simp
      simp [h2, h0, h1, h5, h4]
  · simp [detect]

/-! ## BloomTracker -/

/-- any number of further `Visit`s (of any keys) -/
def BT.visits (h : Nat → Nat → List Nat) (bt : BT) (ks : List Nat) : BT :=
  ks.foldl (fun b k => (b.visit h k).1) bt

/-- Once `Visit k` has been called — whatever it answered — every later `Has k` is true and every later
`Visit k` answers false, for every probe family and across any number of growth steps. -/
theorem c13_bloom_monotone (h : Nat → Nat → List Nat) (bt : BT) (hne : bt.chain ≠ []) (k : Nat) (later : List Nat) :
    ((bt.visit h k).1.visits h later).has h k = true ∧
    (((bt.visit h k).1.visits h later).visit h k).2 = false := by
  have key : ∀ (later : List Nat) (b : BT), b.chain ≠ [] → b.has h k = true →
      (b.visits h later).chain ≠ [] ∧ (b.visits h later).has h k = true := by
    intro later
    induction later with
    | nil => intro b h1 h2; exact ⟨h1, h2⟩
    | cons k' ks ih =>
      intro b h1 h2
      obtain ⟨n1, l1, m1, _, _⟩ := BT.visit_chain h b k' h1
      exact ih _ n1 (hasFrom_mono h k _ _ 0 l1 m1 h2)
  obtain ⟨n1, _, _, c1, _⟩ := BT.visit_chain h bt k hne
  obtain ⟨n2, c2⟩ := key later _ n1 c1
  refine ⟨c2, ?_⟩
  rw [(BT.visit_chain h _ k n2).2.2.2.2, c2]; rfl

/-- `Visit` answers "new" exactly when `Has` was false, and then `Count` goes up by one; otherwise
`Deduplicated` goes up by one -/
theorem c13_bloom_visit_has (h : Nat → Nat → List Nat) (bt : BT) (hne : bt.chain ≠ []) (k : Nat) :
    (bt.visit h k).2 = !bt.has h k ∧
    (bt.visit h k).1.totalInserts + (bt.visit h k).1.dedup = bt.totalInserts + bt.dedup + 1 ∧
    ((bt.visit h k).2 = true → (bt.visit h k).1.totalInserts = bt.totalInserts + 1) := by
  refine ⟨(BT.visit_chain h bt k hne).2.2.2.2, ?_, ?_⟩ <;>
  · simp only [BT.visit]
    split
    · simp; try omega
    · split <;> simp <;> omega

/-- inserts that filled the first `i` filters of a chain started at capacity `cap` -/
def filled (cap : Nat) : Nat → Nat
  | 0 => 0
  | i + 1 => filled cap i + cap * 4 ^ i + 1

/-- the growth discipline: capacities `cap·4^i`, the current filter never holds more than its capacity
after `Visit` returns, `Count` determines the chain length -/
def Grows (cap : Nat) (bt : BT) : Prop :=
  bt.chain ≠ [] ∧ bt.lastCap = cap * 4 ^ (bt.chain.length - 1) ∧ bt.curInserts ≤ bt.lastCap ∧
  bt.totalInserts = filled cap (bt.chain.length - 1) + bt.curInserts

theorem c13_growth (h : Nat → Nat → List Nat) (cap : Nat) :
    Grows cap (BT.new cap) ∧ ∀ bt k, Grows cap bt → Grows cap (bt.visit h k).1 := by
  constructor
  · simp [Grows, BT.new, filled]
  · intro bt k ⟨hne, hcap, hcur, htot⟩
    obtain ⟨a, _, _, _, _⟩ := visitFrom_spec h k bt.chain 0 hne
    have hlen : bt.chain.length ≥ 1 := by
      cases hc : bt.chain with
      | nil => exact absurd hc hne
      | cons _ _ => simp
    simp only [BT.visit]
    split
    · exact ⟨hne, hcap, hcur, htot⟩
    · split
      · rename_i hgt
        refine ⟨by simp, ?_, by simp, ?_⟩
        · simp [a, hcap]
          have : bt.chain.length = (bt.chain.length - 1) + 1 := by omega
          rw [this, Nat.pow_succ]; simp [Nat.mul_assoc]
        · simp [a]
          have : bt.chain.length = (bt.chain.length - 1) + 1 := by omega
          rw [this, filled]; simp
          rw [← hcap]; omega
      · rename_i hle
        refine ⟨?_, by simpa [a] using hcap, by simp; omega, by simp [a]; omega⟩
        intro hnil; simp at hnil; rw [hnil] at a; simp at a
        omega

/-! ## the relational form run by the driver is an abstraction of the mechanism, for every probe family -/

/-- `rb` (exact key set + counters, fed with the answers) mirrors `bt` (filters) -/
def Sim (h : Nat → Nat → List Nat) (bt : BT) (rb : RB) : Prop :=
  bt.chain ≠ [] ∧ rb.chainLen = bt.chain.length ∧ rb.lastCap = bt.lastCap ∧ rb.curInserts = bt.curInserts ∧
  rb.totalInserts = bt.totalInserts ∧ rb.dedup = bt.dedup ∧ ∀ k, rb.seen.contains k = true → bt.has h k = true

/-- feeding the relational model with the answers of the mechanism model keeps all counters equal and
every answer is admissible (`Visit` of a seen key is never "new", `Has` of a seen key is never false) -/
theorem c13_bloom_refines (h : Nat → Nat → List Nat) (bt : BT) (rb : RB) (hs : Sim h bt rb) (k : Nat) :
    Sim h (bt.visit h k).1 (rb.visit k (bt.visit h k).2).1 ∧
    (rb.visit k (bt.visit h k).2).2 = true ∧ rb.has k (bt.has h k) = true := by
  obtain ⟨hne, e1, e2, e3, e4, e5, hseen⟩ := hs
  obtain ⟨n1, l1, m1, c1, a1⟩ := BT.visit_chain h bt k hne
  obtain ⟨a, _, _, _, _⟩ := visitFrom_spec h k bt.chain 0 hne
  have hseen' : ∀ k', ((rb.seen.insert k).contains k' = true) → (bt.visit h k).1.has h k' = true := by
    intro k' hk'
    rw [Std.HashSet.contains_insert] at hk'
    simp only [Bool.or_eq_true, beq_iff_eq] at hk'
    rcases hk' with rfl | hk'
    · exact c1
    · exact hasFrom_mono h k' _ _ 0 l1 m1 (hseen k' hk')
  have hadm : (rb.seen.contains k && (bt.visit h k).2) = false := by
    cases hc : rb.seen.contains k with
    | false => simp
    | true => simp [a1, hseen k hc]
  have hadm2 : rb.has k (bt.has h k) = true := by
    unfold RB.has
    cases hc : rb.seen.contains k with
    | false => simp
    | true => simp [hseen k hc]
  refine ⟨?_, ?_, hadm2⟩
  · -- counters
    cases hv : (bt.visit h k).2 with
    | false =>
      have hr : (visitFrom h k 0 bt.chain).2 = false := by
        simp only [BT.visit] at hv; split at hv
        · rename_i hh; simpa using hh
        · split at hv <;> simp at hv
      have hbt : (bt.visit h k).1 = { bt with dedup := bt.dedup + 1 } := by
        simp [BT.visit, hr]
      refine ⟨n1, ?_, ?_, ?_, ?_, ?_, ?_⟩ <;> simp [RB.visit, hbt, e1, e2, e3, e4, e5]
      intro k' hk'
      have := hseen' k' (by simpa [RB.visit] using hk')
      simpa [hbt, BT.has] using this
    | true =>
      have hr : (visitFrom h k 0 bt.chain).2 = true := by
        simp only [BT.visit] at hv; split at hv
        · simp at hv
        · rename_i hh; simpa using hh
      by_cases hg : bt.curInserts + 1 > bt.lastCap
      · have hbt : (bt.visit h k).1 =
            { bt with chain := (visitFrom h k 0 bt.chain).1 ++ [[]], lastCap := bt.lastCap * 4, curInserts := 0, totalInserts := bt.totalInserts + 1 } := by
          simp [BT.visit, hr, hg]
        have hg' : rb.curInserts + 1 > rb.lastCap := by omega
        refine ⟨n1, ?_, ?_, ?_, ?_, ?_, ?_⟩ <;> simp [RB.visit, hg, hbt, e1, e2, e3, e4, e5, a]
        intro k' hk'
        have := hseen' k' (by simpa [RB.visit, hg, e2, e3] using hk')
        simpa [hbt, BT.has] using this
      · have hbt : (bt.visit h k).1 =
            { bt with chain := (visitFrom h k 0 bt.chain).1, curInserts := bt.curInserts + 1, totalInserts := bt.totalInserts + 1 } := by
          simp [BT.visit, hr, hg]
        have hg' : ¬ rb.curInserts + 1 > rb.lastCap := by omega
        refine ⟨n1, ?_, ?_, ?_, ?_, ?_, ?_⟩ <;> simp [RB.visit, hg, hbt, e1, e2, e3, e4, e5, a]
        intro k' hk'
        have := hseen' k' (by simpa [RB.visit, hg, e2, e3] using hk')
        simpa [hbt, BT.has] using this
  · unfold RB.visit
    simp only [hadm]
    split <;> (try split) <;> rfl

/-! ## non-vacuity -/

/-- diamond with a missing block, a non-local CID, an identity CID and a v0/v1 alias pair:
CIDs 0..7; key 6 = key 1 (alias of 1); 3 is an identity CID; 4 is not local; 5 is missing. -/
def exG : Graph where
  n := 8
  key := fun c => if c = 6 then 1 else c
  links := fun c => match c with
    | 0 => some [1, 2, 3]
    | 1 => some [4, 7]
    | 2 => some [6, 5, 7]
    | 3 => some [7, 2]
    | 4 => some [7]
    | 5 => none
    | 6 => some [4, 7]
    | _ => some []
  loc := fun c => c != 4
  ident := fun c => c == 3

example : (walk exG 0 {} 0).map (·.out) = some [0, 1, 7, 2] := by decide
example : (walk exG 3 {} 0).map (·.out) = some [0, 1, 7] := by decide
example : (walk exG 0 { set := [7] } 0).map (·.out) = some [0, 1, 2] := by decide
example : (walk exG 0 {} 0).map (·.tr.dedup) = some 4 := by decide
example : Reach exG 0 7 :=
  Reach.step (b := 1) (ks := [4, 7])
    (Reach.step (b := 0) (ks := [1, 2, 3]) (Reach.refl ⟨by decide, by decide⟩) rfl (by decide) ⟨by decide, by decide⟩)
    rfl (by decide) ⟨by decide, by decide⟩
-- entity walk: node 1 is a file, so 7 is reached through 3 (identity directory) instead
example : (walk (cut exG (fun c => if c = 1 then .file else .directory)) 0 {} 0).map (·.out) = some [0, 1, 2, 7] := by
  decide
-- Bloom chain with a tiny capacity and degenerate probe families: false positives occur (first line:
-- every key probes bit 0, so only the first Visit is "new"), growth happens, `Grows` is inhabited
example : ((BT.new 2).visits (fun _ _ => [0]) [0, 1, 2, 3, 4, 5, 6]).dedup = 6 := by decide
example : ((BT.new 2).visits (fun i k => [k % (3 + 4 * i)]) [0, 1, 2, 3, 4, 5, 6]).chain.length = 2 := by decide
example : Grows 2 ((BT.new 2).visits (fun i k => [k % (3 + 4 * i)]) [0, 1, 2, 3, 4, 5, 6]) := by
  refine ⟨by decide, by decide, by decide, by decide⟩

end C13
