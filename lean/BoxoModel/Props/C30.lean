import BoxoModel.C30.Lemmas
/-!
# C30 — the gateway serves exactly the requested file bytes

Property theorems only (helper lemmas are in `BoxoModel/C30/Lemmas.lean`).
`serve f r` is the model of the whole GET/HEAD path for `/ipfs/<cid of f>` AFTER the two `fix:`
commits of branch verif/gw and the HEAD fix of verif/gw4 (`serveWith false false` is the tree before them).  Every statement quantifies
over every file `f` (any content, ETag strings and mtime) and every request `r` (any byte strings as
Range / If-Range / If-None-Match / If-Match values, any parse result of the three date headers,
GET or HEAD, sniffed or known content type).
-/
namespace C30

/-- the bytes `a..b` (inclusive) of the file -/
def slice (c : Bytes) (a b : Int) : Bytes := (c.drop a.toNat).take (b - a + 1).toNat

/-- **Consistency.** Status, Content-Range, Content-Length and body always fit together:
* 200 ⇒ no Content-Range, Content-Length = size, and (GET) the body is the whole file;
* 206 ⇒ Content-Range `a-b/size` with `0 ≤ a ≤ b+1`, `b < size`, Content-Length = `b-a+1`, and (GET) the
  body is exactly the bytes `a..b` of the file (so it has `b-a+1` bytes);
* HEAD ⇒ no body;
* the status is one of 200, 206, 304, 400, 412, 416 (the request is never answered 500). -/
theorem c30_consistent (f : File) (r : Req) :
    ((serve f r).status = 200 → (serve f r).contentRange = .none ∧
        (serve f r).contentLength = some (f.content.length : Int) ∧
        (r.head = false → (serve f r).body = f.content)) ∧
    ((serve f r).status = 206 → ∃ a b : Int, (serve f r).contentRange = .range a b f.content.length ∧
        0 ≤ a ∧ a ≤ b + 1 ∧ b < f.content.length ∧ (serve f r).contentLength = some (b - a + 1) ∧
        (r.head = false → (serve f r).body = slice f.content a b ∧
          (((serve f r).body.length : Nat) : Int) = b - a + 1)) ∧
    (r.head = true → (serve f r).body = []) ∧
    ((serve f r).status = 200 ∨ (serve f r).status = 206 ∨ (serve f r).status = 304 ∨
      (serve f r).status = 400 ∨ (serve f r).status = 412 ∨ (serve f r).status = 416) := by
  have hsz : (0 : Int) ≤ f.content.length := Int.natCast_nonneg _
  cases he : early304 f r
  · cases hh : r.head
    · -- GET
      cases hw : parseRangeWL r.range with
      | none =>
        have : serve f r = { status := 400 } := by
          unfold early304 at he
          unfold serve serveWith
          simp [he, hh, hw]
        simp [this]
      | some ws =>
        obtain ⟨seekable, pos0, hp0, hs⟩ := serve_get f r he hh ws hw
        rcases plan_cases f r with ⟨resp, hpl, hb, hst⟩ | hpl | ⟨ra, hdr, rs, hpl, hpre, hpr, hhd⟩
        · rw [hpl] at hs
          simp only [] at hs
          rw [hs]
          rcases hst with h | h | h <;> simp [h, hb]
        · rw [hpl] at hs
          simp only [] at hs
          have hbody : (serve f r).body = f.content := by
            rw [hs]; simp only []
            cases hsk : seekable
            · rw [(hp0 hsk).1]; exact readAt_whole _
            · exact readAt_whole _
          refine ⟨fun _ => ⟨by rw [hs], by rw [hs], fun _ => hbody⟩, fun h => ?_, by simp, by rw [hs]; simp⟩
          rw [hs] at h; simp at h
        · rw [hpl] at hs
          simp only [] at hs
          have hin := parseRange_inside hsz hpr ra (List.mem_of_mem_head? hhd)
          unfold Inside at hin
          have hbody : (serve f r).body = readAt f.content ra.start ra.length := by
            rw [hs]; simp only []
            cases hsk : seekable
            · have hz := (hp0 hsk).2
              have hp : pos0 = 0 := (hp0 hsk).1
              simp only [Bool.false_eq_true, ↓reduceIte]
              rcases pre_go hpre with rfl | ⟨rfl, _, _⟩
              · rcases parsers_agree_at_zero hsz hw hpr hz ra hhd with h0 | h0
                · rw [hp, h0]
                · rw [h0]; exact readAt_zero_len _ _ _
              · rw [parseRange_nil] at hpr
                simp at hpr; subst hpr; simp at hhd
            · rfl
          refine ⟨fun h => ?_, fun _ => ?_, by simp, by rw [hs]; simp⟩
          · rw [hs] at h; simp at h
          · refine ⟨ra.start, ra.start + ra.length - 1, by rw [hs], hin.1, by omega, by omega, ?_, fun _ => ?_⟩
            · rw [hs]; simp; omega
            · rw [hbody]
              refine ⟨?_, ?_⟩
              · unfold readAt slice
                congr 2
                omega
              · rw [readAt_length hin.1 hin.2.1 hin.2.2]; omega
    · -- HEAD
      cases hw : parseRangeWL r.range with
      | none =>
        have : serve f r = { status := 400 } := by
          unfold early304 at he
          unfold serve serveWith
          simp [he, hh, hw]
        simp [this]
      | some ws =>
      have hs := serve_head f r he hh ws hw
      rcases plan_cases f r with ⟨resp, hpl, hb, hst⟩ | hpl | ⟨ra, hdr, rs, hpl, hpre, hpr, hhd⟩
      · rw [hpl] at hs
        simp only [] at hs
        rw [hs]
        rcases hst with h | h | h <;> simp [h, hb]
      · rw [hpl] at hs
        simp only [] at hs
        rw [hs]; simp
      · rw [hpl] at hs
        simp only [] at hs
        have hin := parseRange_inside hsz hpr ra (List.mem_of_mem_head? hhd)
        unfold Inside at hin
        refine ⟨fun h => ?_, fun _ => ?_, fun _ => by rw [hs], by rw [hs]; simp⟩
        · rw [hs] at h; simp at h
        · refine ⟨ra.start, ra.start + ra.length - 1, by rw [hs], hin.1, by omega, by omega, ?_, fun h => ?_⟩
          · rw [hs]; simp; omega
          · simp at h
  · have : serve f r = { status := 304, etag := if etagMatchAny r.ifNoneMatch [f.etag] then f.etag
        else if etagMatchAny r.ifNoneMatch [f.dirEtag] then f.dirEtag else f.dagEtag } := by
      unfold early304 at he
      unfold serve serveWith
      simp only [he, ↓reduceIte]
    simp [this]


/-- RFC 7233 §2.1 reading of one byte-range-spec against a representation of `size` bytes:
the first and last byte position it selects, if it is satisfiable. -/
def rfcResolve (size : Int) : Lex → Option (Int × Int)
  | .suffix n => some (size - min n size, size - 1)
  | .open i => if i < size then some (i, size - 1) else none
  | .closed i j => if i < size ∧ i ≤ j then some (i, min j (size - 1)) else none
  | _ => none

/-- **The body is the requested slice.** A 206 answers the first byte-range-spec of the Range header that
is satisfiable (every piece before it is empty or starts at/after the end of the file), read as RFC 7233
says; the preconditions passed and If-Range (if any) held. Together with `c30_consistent` the body is that
slice of the file. -/
theorem c30_206_first_satisfiable (f : File) (r : Req) (a b s : Int)
    (h : (serve f r).status = 206) (hc : (serve f r).contentRange = .range a b s) :
    s = f.content.length ∧ checkPreconditions f r = .go r.range ∧
    ∃ pre p post, pieces r.range = pre ++ p :: post ∧
      (∀ q ∈ pre, lex q = .skip ∨ Beyond (f.content.length : Int) (lex q)) ∧
      rfcResolve (f.content.length : Int) (lex p) = some (a, b) := by
  have hsz : (0 : Int) ≤ f.content.length := Int.natCast_nonneg _
  rcases serve_cases f r with ⟨_, h3⟩ | ⟨_, _, h4⟩ | ⟨_, _, hpl⟩
  · rw [h3] at h; simp at h
  · rw [h4] at h; simp at h
  · rcases hpl with ⟨resp, hp, hs⟩ | ⟨st, cr, start, n, hp, hst, hcr, _⟩
    · rcases plan_cases f r with ⟨resp', hp', _, hst'⟩ | hp' | ⟨ra, hdr, rs, hp', _, _, _⟩
      · rw [hp] at hp'; simp at hp'; subst hp'
        rw [hs] at h; rcases hst' with h' | h' | h' <;> rw [h'] at h <;> simp at h
      · rw [hp] at hp'; simp at hp'
      · rw [hp] at hp'; simp at hp'
    · rcases plan_cases f r with ⟨resp', hp', _, _⟩ | hp' | ⟨ra, hdr, rs, hp', hpre, hpr, hhd⟩
      · rw [hp] at hp'; simp at hp'
      · rw [hp] at hp'; simp at hp'
        rw [hst, hp'.1] at h; simp at h
      · rw [hp] at hp'
        simp at hp'
        obtain ⟨_, hcr', _, _⟩ := hp'
        rw [hcr, hcr'] at hc
        simp at hc
        obtain ⟨rfl, rfl, rfl⟩ := hc
        have hhdr : hdr = r.range := by
          rcases pre_go hpre with h1 | ⟨h1, _, _⟩
          · exact h1
          · subst h1; rw [parseRange_nil] at hpr; simp at hpr; subst hpr; simp at hhd
        subst hhdr
        refine ⟨rfl, hpre, ?_⟩
        obtain ⟨pre, p, post, e, h1, h2⟩ := parseRange_head hpr hhd
        refine ⟨pre, p, post, e, h1, ?_⟩
        have ok := lex_ok p
        cases hl : lex p with
        | skip => simp [hl, lOf] at h2
        | bad => simp [hl, lOf] at h2
        | suffix m =>
          simp only [hl, LexOK] at ok
          simp only [hl, lOf] at h2
          simp at h2
          subst h2
          simp only [rfcResolve]
          simp
          split <;> omega
        | «open» i =>
          simp only [hl, LexOK] at ok
          rw [hl, lOf_open ok] at h2
          by_cases h0 : i ≥ (f.content.length : Int)
          · simp [h0] at h2
          · simp [h0] at h2
            subst h2
            have : i < (f.content.length : Int) := by omega
            simp [rfcResolve, this]
            omega
        | closed i j =>
          simp only [hl, LexOK] at ok
          rw [hl, lOf_closed j ok] at h2
          by_cases h0 : i ≥ (f.content.length : Int)
          · simp [h0] at h2
          · by_cases hij : i > j
            · simp [h0, hij] at h2
            · simp [h0, hij] at h2
              subst h2
              have : i < (f.content.length : Int) ∧ i ≤ j := by omega
              simp [rfcResolve, this]
              split <;> omega
        | badEnd i =>
          simp only [hl, LexOK] at ok
          rw [hl, lOf_badEnd ok] at h2
          by_cases h0 : i ≥ (f.content.length : Int) <;> simp [h0] at h2

/-- **Zero-length 206, characterised.** The only way to get a 206 whose Content-Range has `first = last + 1`
(Content-Length 0, empty body: `bytes 36-35/36`, or `bytes 0--1/0` on an empty file — inherited from net/http) is
a suffix range-spec `-n` with `n = 0` or an empty file; every other 206 has `first ≤ last` and a non-empty body. -/
theorem c30_zero_length_206 (f : File) (r : Req) (a b s : Int)
    (h : (serve f r).status = 206) (hc : (serve f r).contentRange = .range a b s) (hz : a = b + 1) :
    ∃ p ∈ pieces r.range, ∃ n, lex p = .suffix n ∧ (n = 0 ∨ f.content.length = 0) := by
  obtain ⟨_, _, pre, p, post, hp, _, hres⟩ := c30_206_first_satisfiable f r a b s h hc
  have ok := lex_ok p
  refine ⟨p, by rw [hp]; simp, ?_⟩
  cases hl : lex p with
  | skip => simp [hl, rfcResolve] at hres
  | bad => simp [hl, rfcResolve] at hres
  | badEnd i => simp [hl, rfcResolve] at hres
  | suffix n =>
    simp only [hl, LexOK] at ok
    simp only [hl, rfcResolve, Option.some.injEq, Prod.mk.injEq] at hres
    refine ⟨n, rfl, ?_⟩
    have : (0 : Int) ≤ f.content.length := Int.natCast_nonneg _
    omega
  | «open» i =>
    simp only [hl, rfcResolve] at hres
    split at hres
    · simp at hres; omega
    · simp at hres
  | closed i j =>
    simp only [hl, rfcResolve] at hres
    split at hres
    · simp at hres; omega
    · simp at hres

/-- **From header text to bytes (single closed range).** `GET` with only `Range: bytes=a-b` (decimal, `a ≤ b`,
`a` inside the file): 206, `Content-Range: bytes a-e/size` with `e = min b (size-1)`, Content-Length `e-a+1`,
and the body is exactly the bytes `a..e` of the file. -/
theorem c30_single_range (f : File) (a b : Nat) (k : Bool) (hab : a ≤ b) (hb : b < 2 ^ 63)
    (ha : a < f.content.length) :
    (serve f (rangeOnly a b k)).status = 206 ∧
    (serve f (rangeOnly a b k)).contentRange = .range a (min (b : Int) (f.content.length - 1)) f.content.length ∧
    (serve f (rangeOnly a b k)).contentLength = some (min (b : Int) (f.content.length - 1) - a + 1) ∧
    (serve f (rangeOnly a b k)).body = slice f.content a (min (b : Int) (f.content.length - 1)) := by
  obtain ⟨hplan, hwl⟩ := plan_closedRange f a b k hab hb ha
  have he : early304 f (rangeOnly a b k) = false := by simp [early304, rangeOnly]
  rcases serve_cases f (rangeOnly a b k) with ⟨he', _⟩ | ⟨_, hw, _⟩ | ⟨_, _, hpl⟩
  · rw [he] at he'; simp at he'
  · simp only [rangeOnly] at hw; rw [hwl] at hw; simp at hw
  · rcases hpl with ⟨resp, hp, _⟩ | ⟨st, cr, start, n, hp, hst, hcr, hcl⟩
    · rw [hplan] at hp; simp at hp
    · rw [hplan] at hp
      simp only [Plan.send.injEq] at hp
      obtain ⟨rfl, rfl, rfl, rfl⟩ := hp
      refine ⟨hst, hcr, hcl, ?_⟩
      obtain ⟨a', b', hcr', _, _, _, _, hbody⟩ := (c30_consistent f (rangeOnly a b k)).2.1 hst
      rw [hcr] at hcr'
      simp only [CRange.range.injEq] at hcr'
      obtain ⟨rfl, rfl, _⟩ := hcr'
      exact (hbody rfl).1


/-- **416 only when no requested range overlaps the file.** A 416 answer (GET or HEAD) means: a Range header
was present, syntactically valid and honoured, the file is not empty, every non-empty piece of it is a
range-spec whose first-byte-pos is at or beyond the end of the file and there is at least one such piece;
the answer carries `Content-Range: bytes */size`. -/
theorem c30_416_only_if (f : File) (r : Req) (h : (serve f r).status = 416) :
    r.range ≠ [] ∧ checkPreconditions f r = .go r.range ∧ (∃ ws, parseRangeWL r.range = some ws) ∧
    (0 : Int) < f.content.length ∧
    (∀ p ∈ pieces r.range, lex p = .skip ∨ Beyond (f.content.length : Int) (lex p)) ∧
    (∃ p ∈ pieces r.range, Beyond (f.content.length : Int) (lex p)) ∧
    (serve f r).contentRange = .unsat f.content.length := by
  have hsz : (0 : Int) ≤ f.content.length := Int.natCast_nonneg _
  rcases serve_cases f r with ⟨_, h3⟩ | ⟨_, _, h4⟩ | ⟨_, hm, hpl⟩
  · rw [h3] at h; simp at h
  · rw [h4] at h; simp at h
  · rcases hpl with ⟨resp, hp, hs⟩ | ⟨st, cr, start, n, hp, hst, _, _⟩
    · rw [hs] at h
      obtain ⟨hdr, hpre, hcase⟩ := plan_416 hp h
      have hhdr : hdr = r.range := by
        rcases pre_go hpre with h1 | ⟨h1, _, _⟩
        · exact h1
        · subst h1; rw [parseRange_nil] at hcase; simp at hcase
      subst hhdr
      have hne : r.range ≠ [] := by
        intro he; rw [he, parseRange_nil] at hcase; simp at hcase
      refine ⟨hne, hpre, hm, ?_⟩
      rcases hcase with ⟨hno, hz, hcr⟩ | ⟨hinv, _⟩
      · obtain ⟨_, _, h1, h2⟩ := parseRange_noOverlap_iff.mp hno
        exact ⟨by omega, h1, h2, by rw [hs]; exact hcr⟩
      · obtain ⟨ws, hw⟩ := hm
        exact absurd hinv (parseRange_valid_of_WL _ hw)
    · rcases plan_cases f r with ⟨resp', hp', _, _⟩ | hp' | ⟨ra, hdr, rs, hp', _, _, _⟩
      · rw [hp] at hp'; simp at hp'
      · rw [hp] at hp'; simp at hp'; rw [hst, hp'.1] at h; simp at h
      · rw [hp] at hp'; simp at hp'; rw [hst, hp'.1] at h; simp at h

/-- **…and then it is 416.** Without conditional headers: if the Range header is accepted by the
length-less parser (the syntax check of GET and HEAD), the file is not empty and no requested range overlaps it,
the answer is 416 with `Content-Range: bytes */size`. -/
theorem c30_416_if (f : File) (r : Req) (h1 : r.ifRange = []) (h2 : r.ifNoneMatch = []) (h3 : r.ifMatch = [])
    (h4 : r.iusT = none) (h5 : r.imsT = none)
    (hm : ∃ ws, parseRangeWL r.range = some ws)
    (hne : r.range ≠ []) (hp : hasPrefix r.range bytesPrefix = true) (hsz : (0 : Int) < f.content.length)
    (hall : ∀ p ∈ pieces r.range, lex p = .skip ∨ Beyond (f.content.length : Int) (lex p))
    (hex : ∃ p ∈ pieces r.range, Beyond (f.content.length : Int) (lex p)) :
    (serve f r).status = 416 ∧ (serve f r).contentRange = .unsat f.content.length := by
  have hno := parseRange_noOverlap_iff.mpr ⟨hne, hp, hall, hex⟩
  have hpre : checkPreconditions f r = .go r.range := pre_none h1 h2 h3 h4 h5
  have hplan : planContent f r =
      .final (⟨416, .unsat f.content.length, none, hasMod f, f.etag, []⟩ : Resp) := by
    unfold planContent
    simp only [hpre, hno]
    have : ((f.content.length : Int) == 0) = false := by rw [beq_eq_false_iff_ne]; omega
    simp [this]
  have he : early304 f r = false := by simp [early304, h2]
  rcases serve_cases f r with ⟨he', _⟩ | ⟨_, hw, _⟩ | ⟨_, _, hpl⟩
  · rw [he] at he'; simp at he'
  · obtain ⟨ws, hw'⟩ := hm
    rw [hw] at hw'; simp at hw'
  · rcases hpl with ⟨resp, hp', hs⟩ | ⟨st, cr, start, n, hp', _⟩
    · rw [hplan] at hp'; simp at hp'; subst hp'; rw [hs]; simp
    · rw [hplan] at hp'; simp at hp'

/-- **HEAD answers like GET**: same status and headers, no body — for every request. -/
theorem c30_head_same (f : File) (r : Req) (hh : r.head = true) :
    serve f r = { serve f { r with head := false } with body := [] } := by
  have e : early304 f { r with head := false } = early304 f r := rfl
  rcases serve_cases f { r with head := false } with ⟨he, _⟩ | ⟨he, hw, h4⟩ | ⟨he, ⟨ws, hw⟩, _⟩
  · rw [e] at he
    unfold early304 at he
    unfold serve serveWith
    simp only [he, ↓reduceIte]
  · rw [h4]
    rw [e] at he
    unfold early304 at he
    unfold serve serveWith
    have hw' : parseRangeWL r.range = none := hw
    simp [he, hh, hw']
  · rw [e] at he
    obtain ⟨sk, pos0, _, hs⟩ := serve_get f { r with head := false } (by rw [e]; exact he) rfl ws hw
    rw [hs, planContent_head]
    rw [serve_head f r he hh ws hw]
    cases hp : planContent f r with
    | send st cr start n => rfl
    | final resp =>
      simp only []
      rcases plan_cases f r with ⟨resp', hp', hb, _⟩ | hp' | ⟨ra, hdr, rs, hp', _⟩
      · rw [hp] at hp'; simp at hp'; subst hp'
        cases resp; simp at hb; subst hb; rfl
      · rw [hp] at hp'; simp at hp'
      · rw [hp] at hp'; simp at hp'

/-- **A failing If-Range gives the whole file** (GET): status 200, full Content-Length and the whole
content as body — divergence (a) of the unrepaired tree. -/
theorem c30_if_range_failed_whole_file (f : File) (r : Req) (hh : r.head = false)
    (hpre : checkPreconditions f r = .go []) (he : early304 f r = false)
    (ws : List ByteRange) (hw : parseRangeWL r.range = some ws) :
    (serve f r).status = 200 ∧ (serve f r).contentLength = some (f.content.length : Int) ∧
      (serve f r).body = f.content := by
  have hplan : planContent f r = .send 200 .none 0 f.content.length := by
    unfold planContent
    simp [hpre, parseRange_nil, sumRangesSize]
  rcases serve_cases f r with ⟨he', _⟩ | ⟨_, hw', _⟩ | ⟨_, _, hpl⟩
  · rw [he] at he'; simp at he'
  · rw [hw] at hw'; simp at hw'
  · rcases hpl with ⟨resp, hp', _⟩ | ⟨st, cr, start, n, hp', hst, _, hcl⟩
    · rw [hplan] at hp'; simp at hp'
    · rw [hplan] at hp'; simp at hp'
      obtain ⟨rfl, _, _, rfl⟩ := hp'
      exact ⟨hst, hcl, ((c30_consistent f r).1 hst).2.2 hh⟩


/-! ## The unrepaired tree violates the property (`serveWith false`), with the witnesses replayed
through httptest by the harness (corpus/C30/divergences.ops); and non-vacuity of the theorems above. -/

/-- a 12-byte file `0123456789ab` with ETag `"c"` and no mtime -/
def f0 : File :=
  { content := [48, 49, 50, 51, 52, 53, 54, 55, 56, 57, 97, 98], etag := [34, 99, 34],
    dirEtag := [34, 100, 34], dagEtag := [34, 103, 34], modSec := 0 }

def get (range ifRange : Bytes) : Req :=
  { head := false, ctypeKnown := true, range := range, ifRange := ifRange, ifNoneMatch := [], ifMatch := [],
    iusT := none, imsT := none, irT := none }

def bytesEq (rest : Bytes) : Bytes := bytesPrefix ++ rest

/-- `Range: bytes=2-5`, `If-Range: "x"` (does not match) -/
def reqA : Req := get (bytesEq [50, 45, 53]) [34, 120, 34]
/-- `Range: bytes=99-,0-3` -/
def reqB : Req := get (bytesEq [57, 57, 45, 44, 48, 45, 51]) []
/-- `Range: bytes=-100` -/
def reqC : Req := get (bytesEq [45, 49, 48, 48]) []
/-- `Range: bytes=5-11,0-11` (sum of the ranges exceeds the size ⇒ ranges ignored) -/
def reqD : Req := get (bytesEq [53, 45, 49, 49, 44, 48, 45, 49, 49]) []

/-- (a) failing If-Range: 200 with the full Content-Length but the body starts at byte 2 -/
theorem c30_unfixed_counterexample_a :
    (serveWith false false f0 reqA).status = 200 ∧ (serveWith false false f0 reqA).contentLength = some 12 ∧
      (serveWith false false f0 reqA).body = f0.content.drop 2 := by decide +kernel

/-- (b) first range beyond the end is skipped by parseRange but not by the pre-seek:
`Content-Range: bytes 0-3/12`, Content-Length 4, empty body -/
theorem c30_unfixed_counterexample_b :
    (serveWith false false f0 reqB).status = 206 ∧ (serveWith false false f0 reqB).contentRange = .range 0 3 12 ∧
      (serveWith false false f0 reqB).contentLength = some 4 ∧ (serveWith false false f0 reqB).body = [] := by decide +kernel

/-- (c) suffix longer than the file: the backend fails (500) instead of serving the whole file -/
theorem c30_unfixed_counterexample_c : (serveWith false false f0 reqC).status = 500 := by decide +kernel

/-- (d) ranges whose sum exceeds the size are ignored: 200, Content-Length 12, body starts at byte 5 -/
theorem c30_unfixed_counterexample_d :
    (serveWith false false f0 reqD).status = 200 ∧ (serveWith false false f0 reqD).contentLength = some 12 ∧
      (serveWith false false f0 reqD).body = f0.content.drop 5 := by decide +kernel

/-! the same requests against the repaired code -/
/-- `c30_single_range` is not vacuous: `bytes=2-5` on the 12-byte file -/
example : (serve f0 (rangeOnly 2 5 true)).body = [50, 51, 52, 53] := by decide +kernel
example : (serve f0 reqA).status = 200 ∧ (serve f0 reqA).body = f0.content := by decide +kernel
example : (serve f0 reqB).status = 206 ∧ (serve f0 reqB).contentRange = .range 0 3 12 ∧
    (serve f0 reqB).body = [48, 49, 50, 51] := by decide +kernel
example : (serve f0 reqC).status = 206 ∧ (serve f0 reqC).contentRange = .range 0 11 12 ∧
    (serve f0 reqC).body = f0.content := by decide +kernel
example : (serve f0 reqD).status = 200 ∧ (serve f0 reqD).body = f0.content := by decide +kernel
/-- `bytes=12-` on 12 bytes: 416 with `bytes */12`; the hypotheses of `c30_416_if` are satisfiable -/
example : (serve f0 (get (bytesEq [49, 50, 45]) [])).status = 416 ∧
    (serve f0 (get (bytesEq [49, 50, 45]) [])).contentRange = .unsat 12 := by decide +kernel
/-- Before "HEAD rejects a malformed Range header like GET does": HEAD `bytes=0-3,x` answered 416 although the
range 0-3 overlaps the file (GET: 400); HEAD `bytes=99-x,0-3` even answered 206 -/
theorem c30_unfixed_head_malformed_counterexample :
    (serveWith true false f0 { get (bytesEq [48, 45, 51, 44, 120]) [] with head := true }).status = 416 ∧
    (serveWith true false f0 (get (bytesEq [48, 45, 51, 44, 120]) [])).status = 400 ∧
    (serveWith true false f0 { get (bytesEq [57, 57, 45, 120, 44, 48, 45, 51]) [] with head := true }).status = 206 := by
  decide +kernel
example : (serve f0 { get (bytesEq [48, 45, 51, 44, 120]) [] with head := true }).status = 400 := by decide +kernel
/-- matching If-Range keeps the range; `If-None-Match: "c"` gives 304 -/
example : (serve f0 (get (bytesEq [50, 45, 53]) [34, 99, 34])).status = 206 ∧
    (serve f0 (get (bytesEq [50, 45, 53]) [34, 99, 34])).body = [50, 51, 52, 53] := by decide +kernel
example : (serve f0 { get [] [] with ifNoneMatch := [34, 99, 34] }).status = 304 := by decide +kernel

end C30
