import BoxoModel.C36.Safe
import BoxoModel.C36.Overflow
import BoxoModel.C36.Answer
import BoxoModel.C36.Worker
import BoxoModel.Gen.C36
/-!
# C36 — Bitswap server sends only wanted, present, permitted data and bounds queues

Property theorems only (helper lemmas: `BoxoModel/C36/Lemmas.lean`). Every statement quantifies over every
configuration `cfg` (limits, thresholds, CID parameters, request filter, tie order), every history `ops`
(want-list messages of any shape, block additions / removals, acks, disconnects) and every pop order:
`Op.pop p sel` carries the scheduler's choice (peer and order of topics) as an unconstrained argument.
-/
namespace C36
open AMap

/-- states reachable from the empty engine -/
def reach (cfg : Cfg) (ops : List Op) : State := run cfg {} ops

/-- `peers` and `cids` mirror each other after every operation: `peers[p][c] = cids[c][p]`. -/
theorem c36_ledger_consistent (cfg : Cfg) (ops : List Op) (p : Peer) (c : Cid) :
    lookP (reach cfg ops).ledger p c = lookC (reach cfg ops).ledger c p :=
  run_ledgerInv cfg (consistent_inv cfg.limit) ops {} (fun _ _ => rfl) p c

/-- No peer's want-list and no peer's queue of pending tasks ever exceeds the configured limit
(limit 0 means "unlimited" in the ledger and is excluded). -/
theorem c36_bound (cfg : Cfg) (hpos : 0 < cfg.limit) (ops : List Op) (p : Peer) :
    ((reach cfg ops).ledger.wantlistForPeer p).length ≤ cfg.limit ∧
    ((reach cfg ops).pq p).pending.length ≤ cfg.limit := by
  refine ⟨?_, ?_⟩
  · have h := run_ledgerInv cfg (bounded_inv cfg.limit hpos) ops {} (by intro p w hf; simp at hf)
    unfold Ledger.wantlistForPeer
    cases hf : find (reach cfg ops).ledger.peers p with
    | none => simp
    | some w => exact h p w hf
  · have : ∀ (ops : List Op) (s : State), QBounded cfg.limit s → QBounded cfg.limit (run cfg s ops) := by
      intro ops
      induction ops with
      | nil => intro s hs; exact hs
      | cons op r ih => intro s hs; exact ih _ (step_qBounded cfg s op hs)
    exact this ops {} (by intro p; simp [State.pq]) p

/-- **Overflow order.** For every ledger, store, queue and overflow list, the evictions `handleOverflow`
performs (its log) are exactly: first the existing wants WITHOUT a local block, in ascending priority, each
replaced by the next-best overflow entry (`zip1`); then, only if overflow entries are left, the wants WITH a
local block, lowest priority first, each replaced by the next-best overflow entry as long as that entry's
priority is not lower than the want it replaces (`zip2`). `existing` is sorted by ascending priority, `over`
by descending priority (ties in the order `cfg.tie`, which the Go code leaves to map iteration). -/
theorem c36_overflow_order (cfg : Cfg) (s : State) (p : Peer) (l : Ledger) (q : PQ) (overflow wants : List MEntry) :
    let existing := (l.wantlistForPeer p).mergeSort (existLe cfg)
    let over := overflow.mergeSort (overLe cfg)
    (handleOverflow cfg s p l q overflow wants).log =
        zip1 (existing.filter (noBlk cfg s)) over ++
        zip2 (existing.filter fun ce => !noBlk cfg s ce) (over.drop (existing.filter (noBlk cfg s)).length) ∧
    existing.Pairwise (fun a b => a.2.prio ≤ b.2.prio) ∧ over.Pairwise (fun a b => b.prio ≤ a.prio) :=
  ⟨handleOverflow_log cfg s p l q overflow wants, existLe_sorted cfg _, overLe_sorted cfg _⟩

/-- Corollary: a want with a local block is evicted only for a newcomer of at least its priority, and only after
every want without a local block has been evicted. -/
theorem c36_overflow_noblock_first (cfg : Cfg) (s : State) (p : Peer) (l : Ledger) (q : PQ) (overflow wants : List MEntry)
    (ev : Evict) (hev : ev ∈ (handleOverflow cfg s p l q overflow wants).log) (h2 : ev.stage = 2) :
    ev.prio ≤ ev.by_.prio ∧
    ∀ ce ∈ l.wantlistForPeer p, noBlk cfg s ce = true →
      ∃ ev1 ∈ (handleOverflow cfg s p l q overflow wants).log, ev1.stage = 1 ∧ ev1.cid = ce.1 := by
  have hlog := handleOverflow_log cfg s p l q overflow wants
  simp only at hlog
  rw [hlog] at hev ⊢
  rcases List.mem_append.mp hev with h | h
  · have := (zip1_mem _ _ ev h).1; omega
  · refine ⟨(zip2_mem _ _ ev h).2.2.1, ?_⟩
    intro ce hce hnb
    -- overflow entries were left for the second loop, so the first loop consumed every want without a block
    have hlen : ((List.mergeSort (l.wantlistForPeer p) (existLe cfg)).filter (noBlk cfg s)).length ≤
        (overflow.mergeSort (overLe cfg)).length := by
      have hmem := (zip2_mem _ _ ev h).2.2.2.2
      have : (List.drop ((List.mergeSort (l.wantlistForPeer p) (existLe cfg)).filter (noBlk cfg s)).length
          (overflow.mergeSort (overLe cfg))) ≠ [] := List.ne_nil_of_mem hmem
      have h3 : ¬ (overflow.mergeSort (overLe cfg)).length ≤
          ((List.mergeSort (l.wantlistForPeer p) (existLe cfg)).filter (noBlk cfg s)).length :=
        fun hle => this (List.drop_eq_nil_iff.mpr hle)
      omega
    have hin : ce ∈ (List.mergeSort (l.wantlistForPeer p) (existLe cfg)).filter (noBlk cfg s) :=
      List.mem_filter.mpr ⟨List.mem_mergeSort.mpr hce, hnb⟩
    obtain ⟨ev1, h1, a⟩ := zip1_all _ _ hlen ce hin
    exact ⟨ev1, List.mem_append_left _ h1, a⟩

/-- Corollary: the wants with a local block are evicted lowest priority first (a prefix of the ascending list),
the newcomers are accepted highest priority first, and where the second loop stops with candidates left on both
sides the best refused newcomer has a lower priority than the lowest-priority want that was kept. -/
theorem c36_overflow_lowest_first (ws : List (Cid × Entry)) (ns : List MEntry) :
    ((zip2 ws ns).map fun ev => (ev.cid, ev.prio)) <+: (ws.map fun ce => (ce.1, ce.2.prio)) ∧
    ((zip2 ws ns).map (·.by_)) <+: ns ∧
    (∀ ce n, ws[(zip2 ws ns).length]? = some ce → ns[(zip2 ws ns).length]? = some n → n.prio < ce.2.prio) :=
  ⟨zip2_prefix ws ns, zip2_prefix_over ws ns, zip2_stop ws ns⟩

/-- engine state and protocol-level ghost state (`Spec`: current want-list `W`, ever-present blocks `E`,
absent/denied/empty lookups `A`, DONT_HAVE requests `D`) after a history -/
def reachBoth (cfg : Cfg) (ops : List Op) : State × Spec := runBoth cfg {} {} ops

theorem reachBoth_fst (cfg : Cfg) (ops : List Op) : (reachBoth cfg ops).1 = reach cfg ops := runBoth_fst cfg ops {} {}

/-- **Send safety.** After any history of wire-format messages (`Op.WF`: no CID both wanted and cancelled in one
message), block additions/removals, acks and disconnects, for EVERY pop choice `(p, sel)`: an envelope holds
* a block only if the block is in the store at send time, the peer's current protocol-level want-list contains
  it (wanted, and not since cancelled / dropped by a full want-list / disconnected) and the filter permits it;
* a HAVE only for a CID the peer currently wants, the filter permits, and whose block has been in the store;
* a DONT_HAVE only if the peer asked for DONT_HAVE for that CID, and the block is absent at send time or was
  looked up for that peer when it was denied / absent (`A`; see `c36_donthave`). -/
theorem c36_send_safe (cfg : Cfg) (ops : List Op) (hwf : ∀ op ∈ ops, op.WF) (p : Peer) (sel : List Cid) (env : Env)
    (h : (popOnce cfg (reachBoth cfg ops).1 p sel).2 = some env) :
    env.peer = p ∧
    (∀ c ∈ env.blocks, (reachBoth cfg ops).1.has c = true ∧ (reachBoth cfg ops).2.W p c = true ∧ cfg.denied p c = false) ∧
    (∀ c ∈ env.haves, (reachBoth cfg ops).2.W p c = true ∧ cfg.denied p c = false ∧ (reachBoth cfg ops).2.E c = true) ∧
    (∀ c ∈ env.dontHaves, (reachBoth cfg ops).2.D p c = true ∧
        ((reachBoth cfg ops).1.has c = false ∨ (reachBoth cfg ops).2.A p c = true)) := by
  have hinv := runBoth_inv cfg ops {} {} hwf (inv_init cfg)
  obtain ⟨e0, e1, e2, e3⟩ := popOnce_env cfg _ p sel env h
  refine ⟨e0, ?_, ?_, ?_⟩
  · intro c hc
    obtain ⟨hs, t, ht, rfl, hb⟩ := e1 c hc
    obtain ⟨a, b, _⟩ := (hinv.que p t (popped_pending cfg _ p sel t ht)).1 hb
    exact ⟨hs, a, b⟩
  · intro c hc
    obtain ⟨t, ht, rfl, hb⟩ := e2 c hc
    exact (hinv.que p t (popped_pending cfg _ p sel t ht)).1 hb
  · intro c hc
    obtain ⟨t, ht, rfl, hb⟩ := e3 c hc
    have hq := hinv.que p t (popped_pending cfg _ p sel t ht)
    rcases hb with hb | ⟨hb, hd⟩
    · obtain ⟨a, _, c⟩ := hq.2.1 hb
      exact ⟨hq.2.2 a, Or.inr c⟩
    · exact ⟨hq.2.2 hd, Or.inl hb⟩

/-- **DONT_HAVE only for absent blocks.** For a CID the filter permits, a DONT_HAVE in an envelope means the
block is absent at send time, or it was absent when some earlier message of that peer asked for it. (Full
strength since the fix `getBlockSizes no longer treats size 0 as missing`; it used to need the guard
`cfg.size c ≠ 0`.) -/
theorem c36_donthave (cfg : Cfg) (ops : List Op) (hwf : ∀ op ∈ ops, op.WF) (p : Peer) (sel : List Cid) (env : Env)
    (h : (popOnce cfg (reachBoth cfg ops).1 p sel).2 = some env) (c : Cid) (hc : c ∈ env.dontHaves)
    (hperm : cfg.denied p c = false) :
    (reachBoth cfg ops).1.has c = false ∨
    ∃ pre full es post, ops = pre ++ Op.msg p full es :: post ∧ (∃ e ∈ es, isAsk cfg e = true ∧ e.cid = c) ∧
      (reach cfg pre).has c = false := by
  rcases ((c36_send_safe cfg ops hwf p sel env h).2.2.2 c hc).2 with h1 | h1
  · left; exact h1
  · right
    rcases specA_origin cfg p c ops {} {} h1 with h2 | ⟨pre, full, es, post, e1, e2, e3⟩
    · simp at h2
    · refine ⟨pre, full, es, post, e1, e2, ?_⟩
      rcases e3 with e3 | e3
      · rw [hperm] at e3; simp at e3
      · exact e3

/-- The ledger never holds a want the peer does not currently have at the protocol level, nor one the filter
denies (so `WantlistForPeer` reports no cancelled / replaced wants). -/
theorem c36_ledger_current (cfg : Cfg) (ops : List Op) (hwf : ∀ op ∈ ops, op.WF) (p : Peer) (c : Cid)
    (h : (lookP (reachBoth cfg ops).1.ledger p c).isSome) :
    (reachBoth cfg ops).2.W p c = true ∧ cfg.denied p c = false :=
  (runBoth_inv cfg ops {} {} hwf (inv_init cfg)).led p c h

/-- **Answered (progress).** In EVERY state, for every peer and every pop order that names at least one of
the peer's pending topics, the pop step strictly shortens that peer's pending queue (so no state has a
non-empty queue and no enabled pop, and every drain terminates with all queued tasks popped), and every popped
task is answered: its CID is in the envelope as block, HAVE or DONT_HAVE — or it was a want-block task whose
block has vanished from the store and whose sender did not ask for DONT_HAVE (the one case the Go code drops). -/
theorem c36_answered (cfg : Cfg) (htarget : 0 < cfg.target) (s : State) (p : Peer) (sel : List Cid)
    (h : ∃ c ∈ sel, ∃ t ∈ (s.pq p).pending, t.topic = c) :
    ((popOnce cfg s p sel).1.pq p).pending.length < (s.pq p).pending.length ∧
    ∀ t ∈ popped cfg s p sel, Answered s (popOnce cfg s p sel).2 t :=
  ⟨popOnce_progress cfg htarget s p sel h, popOnce_answered cfg s p sel⟩

/-- **Accepted wants are queued — partial**: guarded by "PushTasksTruncated does not truncate" (pending tasks +
pushed tasks ≤ limit). Without the guard the claim is false (known finding
`accepted-want-unanswered-after-queue-truncation`): the library truncates the pushed tasks before merging them.
Under the guard, every want that MessageReceived accepted (it is on the ledger and was not evicted again) and
for which there is something to answer (block found, or DONT_HAVE requested and enabled) has a pending task
after the message, or is covered by tasks for the same CID that were popped already and are still outstanding
(the task merger found no new information in it). -/
theorem c36_accepted_queued_partial (cfg : Cfg) (s : State) (p : Peer) (full : Bool) (es : List MEntry)
    (hne : es.isEmpty = false) :
    let sp := split cfg p es [] [] []
    let o := intake cfg s p full sp.1
    let lq := applyCancels p sp.2.1 (o.ledger, o.q)
    let bs := blockSizeFor cfg s sp.1
    let active := activeEntries cfg bs sp.2.2 o.wants
    lq.2.pending.length + active.length ≤ cfg.limit →
    ∀ et ∈ o.wants, ((bs et.cid).isSome = true ∨ (cfg.sdh = true ∧ et.sdh = true)) →
      ∃ t ∈ wantTask cfg bs et, t.topic = et.cid ∧
        ((∃ x ∈ ((msgReceived cfg s p full es).state.pq p).pending, x.topic = et.cid) ∨ Covered lq.2 t) := by
  intro sp o lq bs active hguard et het hans
  obtain ⟨t, ht, htop⟩ := wantTask_exists cfg bs et hans
  refine ⟨t, ht, htop, ?_⟩
  have hta : t ∈ active := by
    show t ∈ activeEntries cfg bs sp.2.2 o.wants
    unfold activeEntries
    exact List.mem_append_right _ (List.mem_flatten.mpr ⟨_, List.mem_map.mpr ⟨et, het, rfl⟩, ht⟩)
  have hq : (msgReceived cfg s p full es).state.pq p = pushTrunc cfg.limit lq.2 active := by
    rw [msgReceived_pq]
    simp only [hne, Bool.false_eq_true, if_false, if_true]
    rw [if_neg]
    intro hemp
    have : active = [] := by simpa using hemp
    rw [this] at hta; simp at hta
  rw [hq, pushTrunc_no_trunc _ _ _ hguard]
  rcases (foldl_pushOne_queued active lq.2).2 t hta with ⟨x, hx, e⟩ | h
  · left; exact ⟨x, hx, by rw [e, htop]⟩
  · right; exact h

/-- **No lost wake-up.** With `n` task workers, after every schedule of pushes (+ signalNewWork), Sent() signals,
Outbox consumer receives, PopTasks calls, workSignal receives and ticker ticks: if tasks are pending, the workSignal
token is there or some worker is not asleep in nextEnvelope's wait loop. (So the 100 ms ticker is not needed for
liveness.) -/
theorem c36_no_lost_wakeup (n : Nat) (evs : List Worker.WEv) :
    Worker.Inv (Worker.run { atOutbox := n } evs) ∧ Worker.workers (Worker.run { atOutbox := n } evs) = n :=
  ⟨Worker.run_inv evs _ (by intro h; simp at h), by rw [Worker.run_workers]; rfl⟩

/-- **Eventually answered, under fairness.** In every reachable worker state with pending tasks (n ≥ 1 workers):
some worker / consumer event is enabled (consumer takes an outbox slot, a running worker pops, or a sleeping worker
is woken by the signal), and EVERY worker / consumer event that happens strictly decreases the well-founded order
(number of pending tasks, then number of workers not yet running). Hence, if workers and the Outbox consumer are
scheduled fairly and no new work arrives, every pending task is popped after finitely many steps; with
`c36_answered` every popped task is answered. -/
theorem c36_worker_progress (n : Nat) (hn : 0 < n) (evs : List Worker.WEv)
    (hp : (Worker.run { atOutbox := n } evs).pending > 0) :
    ((Worker.step (Worker.run { atOutbox := n } evs) .take).isSome ∨
     (Worker.step (Worker.run { atOutbox := n } evs) (.pop 0 false)).isSome ∨
     (Worker.step (Worker.run { atOutbox := n } evs) .wake).isSome) ∧
    ∀ e s', Worker.isPush e = false → Worker.step (Worker.run { atOutbox := n } evs) e = some s' →
      Worker.lt s' (Worker.run { atOutbox := n } evs) := by
  obtain ⟨hi, hw⟩ := c36_no_lost_wakeup n evs
  refine ⟨Worker.enabled _ hi (by unfold Worker.workers at hw; omega) hp, fun e s' he hs => Worker.progress _ e s' hp he hs⟩

/-! ## T-gen: the integer / boolean conditions of the Go code, regenerated on every run (`extract condexpr`,
`BoxoModel/Gen/C36.lean`), agree with the hand-written model. A semantic change of one of these conditions in
engine.go / peer_ledger.go changes the generated definition and breaks the corresponding theorem. -/

theorem c36_gen_sendAsBlock (cfg : Cfg) (wt : WT) (bs : Nat) :
    Gen.C36.sendAsBlock (decide (wt = .block)) bs cfg.replace = sendAsBlock cfg wt bs := by
  simp [Gen.C36.sendAsBlock, sendAsBlock]

/-- the oversize-CID test and the intake truncation test of splitWantsCancelsDenials, as the model's `split` uses them -/
theorem c36_gen_split (cfg : Cfg) (p : Peer) (et : MEntry) (r wants cancels denials : List MEntry) :
    split cfg p (et :: r) wants cancels denials =
      if Gen.C36.cidTooBig cfg.maxCid (cfg.byteLen et.cid) then split cfg p r wants cancels denials
      else if cfg.isIdent et.cid then split cfg p r wants cancels denials
      else if et.cancel then split cfg p r wants (cancels ++ [et]) denials
      else if cfg.denied p et.cid then split cfg p r wants cancels (denials ++ [et])
      else if Gen.C36.roomForWant wants.length cfg.limit then split cfg p r (wants ++ [et]) cancels denials
      else split cfg p r wants cancels denials := by
  conv => lhs; unfold split
  simp [Gen.C36.cidTooBig, Gen.C36.roomForWant]

/-- the "newcomer's priority is too low" test of handleOverflow's second loop -/
theorem c36_gen_stopReplacing (cfg : Cfg) (p : Peer) (i : Nat) (c : Cid) (e : Entry) (ws : List (Cid × Entry))
    (removed : List Nat) (n : MEntry) (ns : List MEntry) (o : OvSt)
    (hskip : removed.head? ≠ some i) (hstop : Gen.C36.stopReplacing n.prio e.prio = true) :
    ovStage2 cfg p i ((c, e) :: ws) removed (n :: ns) o = o := by
  have : n.prio < e.prio := by simpa [Gen.C36.stopReplacing] using hstop
  unfold ovStage2
  simp [hskip, this]

/-- the "list is full" test of peerLedger.Wants: a new CID is refused exactly when it holds -/
theorem c36_gen_ledgerFull (l : Ledger) (limit : Nat) (p : Peer) (c : Cid) (e : Entry) (w : Map Cid Entry)
    (hf : find l.peers p = some w) (hnew : (find w c).isNone = true) :
    (l.wants limit p c e).2 = !Gen.C36.ledgerFull limit w.length := by
  unfold Ledger.wants
  simp only [hf]
  by_cases h : limit ≠ 0 ∧ w.length = limit
  · have : (limit ≠ 0 ∧ w.length = limit ∧ (find w c).isNone = true) := ⟨h.1, h.2, hnew⟩
    simp [Gen.C36.ledgerFull, this, h.1, h.2]
  · have h' : ¬ (limit ≠ 0 ∧ w.length = limit ∧ (find w c).isNone = true) := fun x => h ⟨x.1, x.2.1⟩
    rw [if_neg h']
    simp only [Gen.C36.ledgerFull]
    by_cases h0 : limit = 0
    · simp [h0]
    · have : w.length ≠ limit := fun x => h ⟨h0, x⟩
      simp [h0, this]

/-! ## Non-vacuity: concrete histories (limit 2, three CIDs of 10 bytes, all in the store) -/

def exCfg : Cfg where
  limit := 2
  replace := 0
  sdh := true
  target := 16384
  maxCid := 0
  byteLen _ := 36
  isIdent _ := false
  pres _ := 38
  size _ := 10
  denied _ _ := false
  tie c := c

def exW (c : Cid) (prio : Int) : MEntry := { cid := c, prio := prio, wt := .block, cancel := false, sdh := true }

/-- full want-list [0], then full want-list [1]: only block 1 is on the ledger and only block 1 is sent
(the replay of the probe-confirmed defect; on the unfixed code block 0 is sent too) -/
def exOps : List Op := [.add 0, .add 1, .add 2, .msg 0 true [exW 0 1], .msg 0 true [exW 1 1]]

example : ((reach exCfg exOps).ledger.wantlistForPeer 0).map (·.1) = [1] := by decide
example : ((popOnce exCfg (reach exCfg exOps) 0 [0, 1, 2]).2.map (·.blocks)) = some [1] := by decide
example : ∀ op ∈ exOps, op.WF := by
  intro op hop
  simp only [exOps, List.mem_cons, List.mem_singleton, List.not_mem_nil, or_false] at hop
  rcases hop with rfl | rfl | rfl | rfl | rfl <;> simp [Op.WF, exW]
/-- overflow (the two list functions of `c36_overflow_order` on concrete lists): existing wants of priority 1
and 10 with blocks; a newcomer of priority 7 evicts the priority-1 want only; one of priority 0 evicts nothing -/
example : (zip2 [(1, ⟨1, .block⟩), (0, ⟨10, .block⟩)] [exW 2 7]).map (fun ev => (ev.cid, ev.prio, ev.by_.cid)) = [(1, 1, 2)] := by
  decide
example : zip2 [(1, ⟨1, .block⟩), (0, ⟨10, .block⟩)] [exW 2 0] = [] := by decide
example : (zip1 [(1, ⟨5, .block⟩)] [exW 2 0]).map (fun ev => (ev.cid, ev.by_.cid)) = [(1, 2)] := by decide
/-- the guard of `c36_accepted_queued_partial` is needed: with a full queue of want-have tasks the upgrade to
want-block is dropped and the peer is only ever sent HAVEs -/
example : ((popOnce exCfg (reach { exCfg with limit := 2 }
    [.add 0, .add 1, .msg 0 false [{ exW 0 1 with wt := .have }, { exW 1 1 with wt := .have }],
     .msg 0 false [exW 0 1, exW 1 1]]) 0 [0, 1]).2.map fun e => (e.blocks, e.haves)) = some ([], [0, 1]) := by decide

/-- the wake-up is needed and works: one worker asleep, a push arrives, the worker is woken and pops -/
example : (Worker.run { atOutbox := 1 } [.take, .pop 0 false, .push 0, .wake, .pop 0 false]).pending = 0 := by decide
example : (Worker.run { atOutbox := 1 } [.take, .pop 0 false, .push 0]).waiting = 1 := by decide

end C36
