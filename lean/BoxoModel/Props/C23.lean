import BoxoModel.C22.Recovery
/-!
# C23 — Pin state survives crashes consistently

Property theorems only (model: `BoxoModel/C22/Model.lean`, shared with C22; helper lemmas:
`BoxoModel/C22/Lemmas.lean`).

A *crash point* is a number `n`: the process stops after the first `n` datastore writes of one API
call (`n = 0`: before the first write, `n ≥` length of the log: after the last).  What was persisted
is the store before the call plus that prefix of the call's write log (each datastore write is
atomic and durable in order — the stated assumption of the property).  `crashReopen` opens a new
pinner on it (`New`: dirty flag, `rebuildIndexes`).

All theorems quantify over every DAG, every state satisfying the invariant `Inv` (which holds of
the empty pinner and is preserved by every call *and* by every crash + reopen, so it covers every
reachable state including states reached through earlier crashes), every call `op` (pin / pin with
mode / unpin / update with any arguments, failing or not) and every crash point `n`.
-/
namespace C22

/-- the empty pinner (fresh datastore) satisfies the invariant -/
theorem c23_inv_init (present : List Nat) : Inv { present := present } := by
  refine ⟨⟨⟨?_, ?_, ?_⟩, ?_⟩, by simp, ?_, RMap.noDupKeys_nil⟩
  · intro c id h; simp [Store.has, Store.idx] at h
  · intro c id h; simp [Store.has, Store.idx] at h
  · intro c id h; simp [Store.has, Store.idx] at h
  · intro id pp h; simp [Store.rec?] at h
  · intro id _; simp [Store.rec?]

/-- every API call preserves the invariant (records ↔ indexes, clean flag, fresh ids) -/
theorem c23_inv_step (dag : Dag) (s : St) (op : Op) (h : Inv s) : Inv (step dag s op).1 :=
  inv_step dag h op

/-- the store after a call is exactly the store before it plus the call's write log -/
theorem c23_log_is_complete (dag : Dag) (s : St) (op : Op) (h : Inv s) :
    (step dag s op).1.store = s.store.applyAll (step dag s op).1.log :=
  (good_step dag h op).tr.1

/-- write-order discipline: at every crash point no index entry lacks its pin record, and the
indexes are complete unless the dirty flag is (still) set -/
theorem c23_crash_image_safe (dag : Dag) (s : St) (op : Op) (n : Nat) (h : Inv s) :
    (s.store.applyAll ((step dag s op).1.log.take n)).Safe :=
  (good_step dag h op).tr.2 n

/-- reopening on any crash image yields a pinner that satisfies the invariant again, so histories
continue from recovered states -/
theorem c23_reopen_inv (dag : Dag) (s : St) (op : Op) (n : Nat) (h : Inv s) :
    Inv (crashReopen dag s op n) :=
  (crashReopen_spec dag s op n h).1

/-- **records and indexes agree after reopen**: every indexed CID has a matching pin record and
every pin record is indexed (cid index of its mode, name index when named) -/
theorem c23_reopen_consistent (dag : Dag) (s : St) (op : Op) (n : Nat) (h : Inv s) :
    (crashReopen dag s op n).store.Consistent :=
  (c23_reopen_inv dag s op n h).cons

/-- **no pin is lost**: a CID that was pinned (recursively, directly or indirectly) before the
interrupted call and is pinned after the complete call is pinned after crash + reopen -/
theorem c23_keeps_pins (dag : Dag) (s : St) (op : Op) (n : Nat) (h : Inv s) (c : Nat)
    (hb : Pinned dag s.store c) (ha : Pinned dag (step dag s op).1.store c) :
    Pinned dag (crashReopen dag s op n).store c := by
  have hrecs : ∀ id, (crashReopen dag s op n).store.rec? id =
      (s.store.applyAll ((step dag s op).1.log.take n)).rec? id := by
    intro id; simp [Store.rec?, (crashReopen_spec dag s op n h).2]
  rw [pinned_iff_recPinned dag _ (c23_reopen_consistent dag s op n h)]
  rw [pinned_iff_recPinned dag _ h.cons] at hb
  rw [pinned_iff_recPinned dag _ (c23_inv_step dag s op h).cons, c23_log_is_complete dag s op h] at ha
  rcases crash_recs dag s op n with hs | hs
  · exact recPinned_mono dag _ _ (fun id pp hp => by rw [hrecs]; exact hs id pp hp) c hb
  · exact recPinned_mono dag _ _ (fun id pp hp => by rw [hrecs]; exact hs id pp hp) c ha

/-! ### a crash during the recovery itself

`crashReopen2 dag s op n j`: the process stops after n writes of the call, is restarted, stops again
after j writes of New + rebuildIndexes, and is restarted once more. -/

/-- every prefix of the recovery's own writes leaves a safe image again (rebuildIndexes only adds index
entries of existing records; the dirty flag is cleared by its last write) -/
theorem c23_recovery_crash_image_safe (dag : Dag) (s : St) (op : Op) (n j : Nat) (h : Inv s) :
    ((s.store.applyAll ((step dag s op).1.log.take n)).applyAll
      ((crashReopen dag s op n).log.take j)).Safe :=
  (reopen_tr _ _ _ (c23_crash_image_safe dag s op n h) (applyAll_nodup _ _ h.nodup)).1.2 j

/-- the second restart yields a consistent pinner satisfying the invariant, with the same pin records -/
theorem c23_recovery_crash_reopen_inv (dag : Dag) (s : St) (op : Op) (n j : Nat) (h : Inv s) :
    Inv (crashReopen2 dag s op n j) ∧
    (crashReopen2 dag s op n j).store.recs = (s.store.applyAll ((step dag s op).1.log.take n)).recs := by
  have hs := c23_crash_image_safe dag s op n h
  have hnd := applyAll_nodup ((step dag s op).1.log.take n) s.store h.nodup
  have hcr : crashReopen dag s op n = reopenStore (s.store.applyAll ((step dag s op).1.log.take n))
      (step dag s op).1.nextId (step dag s op).1.present := rfl
  obtain ⟨ht, hnr⟩ := reopen_tr (s.store.applyAll ((step dag s op).1.log.take n))
    (step dag s op).1.nextId (step dag s op).1.present hs hnd
  rw [← hcr] at ht hnr
  have hrecs : ((s.store.applyAll ((step dag s op).1.log.take n)).applyAll
      ((crashReopen dag s op n).log.take j)).recs = (s.store.applyAll ((step dag s op).1.log.take n)).recs :=
    applyAll_noRecW _ _ (fun w hw => hnr w (List.mem_of_mem_take hw))
  have hn : (crashReopen dag s op n).nextId = (step dag s op).1.nextId := by
    rw [hcr]
    exact (reopen_inv _ _ _ hs hnd (crash_fresh dag s op n h)).2.2.1
  have := reopen_inv ((s.store.applyAll ((step dag s op).1.log.take n)).applyAll
      ((crashReopen dag s op n).log.take j)) (crashReopen dag s op n).nextId (crashReopen dag s op n).present
    (ht.2 j) (applyAll_nodup _ _ hnd) (by
      intro id hid
      have := crash_fresh dag s op n h id (by rw [← hn]; exact hid)
      simpa [Store.rec?, hrecs] using this)
  refine ⟨this.1, ?_⟩
  show (reopenStore _ _ _).store.recs = _
  rw [this.2.1, hrecs]

/-- … and no pin is lost by the double crash either -/
theorem c23_recovery_crash_keeps_pins (dag : Dag) (s : St) (op : Op) (n j : Nat) (h : Inv s) (c : Nat)
    (hb : Pinned dag s.store c) (ha : Pinned dag (step dag s op).1.store c) :
    Pinned dag (crashReopen2 dag s op n j).store c := by
  have h1 := c23_keeps_pins dag s op n h c hb ha
  have i1 := c23_reopen_inv dag s op n h
  obtain ⟨i2, r2⟩ := c23_recovery_crash_reopen_inv dag s op n j h
  rw [pinned_iff_recPinned dag _ i1.cons] at h1
  rw [pinned_iff_recPinned dag _ i2.cons]
  refine recPinned_mono dag _ _ (fun id pp hp => ?_) c h1
  simpa [Store.rec?, r2, (crashReopen_spec dag s op n h).2] using hp

/-! ### a datastore write that fails (I/O error instead of a crash)

`stepIO dag s op k`: the k-th write attempt of the call fails.  The derived model (validated by the
correspondence with scripted Put/Delete failures) says: a failed flag write is ignored; any other failed
write makes the call return the error at once. -/

/-- the live pinner after a failed write never has an index entry without its pin record -/
theorem c23_ioerr_no_orphan (dag : Dag) (s : St) (op : Op) (k : Nat) (h : Inv s)
    (he : (stepIO dag s op k).res = none) : (stepIO dag s op k).st.store.NoOrphan :=
  stepIO_noOrphan dag h op k he

/-- the datastore left by a call that returned the injected error is exactly the crash image after k
writes (unless the failed write was addPin's name-index entry, where one compensating delete follows);
restarting the pinner on it is `crashReopen`, so `c23_reopen_consistent` and `c23_keeps_pins` apply -/
theorem c23_ioerr_restart (dag : Dag) (s : St) (op : Op) (k : Nat)
    (he : (stepIO dag s op k).res = none)
    (hn : ∀ a b, (step dag s op).1.log[k]? ≠ some (.addIdx .N a b)) :
    (stepIO dag s op k).st.store = s.store.applyAll ((step dag s op).1.log.take k) ∧
    reopenStore (stepIO dag s op k).st.store (step dag s op).1.nextId (step dag s op).1.present =
      crashReopen dag s op k := by
  obtain ⟨comp, _, hc, e⟩ := stepIO_abort dag s op k he
  have := hc hn
  subst this
  have e' : (stepIO dag s op k).st.store = s.store.applyAll ((step dag s op).1.log.take k) := by
    simpa [Store.applyAll] using e
  exact ⟨e', by rw [e']; rfl⟩

/-! ### the code before the fix violates the property (witness found by the harness, replayed here) -/

/-- 0 → {1}; every block present -/
def exDag23 : Dag := { n := 2, links := fun i => if i = 0 then [1] else [] }
/-- after PinWithMode(0, Recursive, "n1") on the empty pinner -/
def exT1 : St := (step exDag23 { present := [0, 1] } (.pinMode 0 0 1 .ok)).1

/-- `doPinRecursive` as it was: re-pinning cid 0 under a new name removes the old pin first; if the
process stops after the 4th write (dirty flag, cid index, name index, record) the reopened pinner has
no pin for cid 0 although it was pinned before the call and is pinned after the complete call -/
theorem c23_old_code_crash_loses_pin :
    let r := pinRecursiveOld exDag23 { exT1 with log := [] } 0 false 2 .ok
    isPinnedWithType exDag23 exT1 0 5 = .recursive ∧ r.2 = .ok ∧
    isPinnedWithType exDag23 r.1 0 5 = .recursive ∧
    isPinnedWithType exDag23 (reopenStore (exT1.store.applyAll (r.1.log.take 4)) r.1.nextId r.1.present) 0 5 = .no := by
  decide

/-! ### non-vacuity -/

/-- the repaired code on the same call: 8 writes, and at every crash point cid 0 (and its child) stay pinned -/
example : (step exDag23 exT1 (.pinMode 0 0 2 .ok)).1.log.length = 8 ∧
    ∀ n ∈ List.range 10, isPinnedWithType exDag23 (crashReopen exDag23 exT1 (.pinMode 0 0 2 .ok) n) 0 5 = .recursive ∧
      isPinnedWithType exDag23 (crashReopen exDag23 exT1 (.pinMode 0 0 2 .ok) n) 1 5 = .via 0 := by decide
/-- a crash image with incomplete indexes exists (dirty flag set, record without its index entry) and is repaired -/
example : (exT1.store.applyAll ((step exDag23 exT1 (.pinMode 1 1 3 .ok)).1.log.take 2)).dirty = some 1 ∧
    (exT1.store.applyAll ((step exDag23 exT1 (.pinMode 1 1 3 .ok)).1.log.take 2)).idxD = [] ∧
    (crashReopen exDag23 exT1 (.pinMode 1 1 3 .ok) 2).store.idxD = [(1, 2)] ∧
    (crashReopen exDag23 exT1 (.pinMode 1 1 3 .ok) 2).store.idxN = [(1, 1), (3, 2)] := by decide
example : Inv exT1 := c23_inv_step _ _ _ (c23_inv_init _)
/-- an I/O error can hide a pin from the live pinner although the call returned the error: Unpin(0) whose
3rd write (the name-index delete) fails has already deleted the cid index entry; the restart restores it -/
example : (stepIO exDag23 exT1 (.unpin 0 true .ok) 2).res = none ∧
    isPinnedWithType exDag23 (stepIO exDag23 exT1 (.unpin 0 true .ok) 2).st 0 5 = .no ∧
    isPinnedWithType exDag23 (crashReopen exDag23 exT1 (.unpin 0 true .ok) 2) 0 5 = .recursive := by decide

end C22
