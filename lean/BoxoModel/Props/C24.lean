import BoxoModel.C24.SyncLemmas
/-!
# C24 — Pin index is an exact multimap

Property theorems only (model: `C24/Model.lean`, multimap spec: `C24/Spec.lean`, lemmas:
`C24/Lemmas.lean`).  Keys and values are arbitrary byte strings (Go strings), histories have any
length, the index name `ns` is any admissible namespace (`NsOk`: "/" or a name whose first component
does not start with 'u' — boxo's names start with "/pins").
-/
namespace C24
open BaseN

/-- **Refinement.** From any datastore state that holds exactly the keys of a multimap `l`, every
history gives exactly the outputs of the multimap (errors for empty key / value, counts, search
results, membership, enumeration) and ends in a datastore state that again holds exactly the keys of
the resulting multimap. -/
theorem c24_refines (ns : Key) (h : NsOk ns) (s : Store) (l : MM) (ops : List Op) (hs : Sim ns s l) :
    (run ns s ops).2 = (specRun l ops).2 ∧ Sim ns (run ns s ops).1 (specRun l ops).1 :=
  run_sim ns h s l ops hs

/-- the same from the empty index -/
theorem c24_refines_from_empty (ns : Key) (h : NsOk ns) (ops : List Op) :
    (run ns [] ops).2 = (specRun [] ops).2 ∧ Sim ns (run ns [] ops).1 (specRun [] ops).1 :=
  run_sim ns h [] [] ops (sim_nil ns)

/-- the multimap is a *set* of pairs: no history creates a duplicate pair … -/
theorem c24_spec_is_set (ops : List Op) : (specRun [] ops).1.Nodup :=
  specRun_nodup [] ops List.nodup_nil

/-- … and its operations have the set meaning (order-free reading of `specStep`). -/
theorem c24_spec_meaning (l : MM) (k v : Bytes) (hk : k ≠ []) (hv : v ≠ []) (p : Pair) :
    (p ∈ (specStep l (.add k v)).1 ↔ (p = (k, v) ∨ p ∈ l)) ∧
    (p ∈ (specStep l (.delete k v)).1 ↔ (p ≠ (k, v) ∧ p ∈ l)) ∧
    (p ∈ (specStep l (.deleteKey k)).1 ↔ (p.1 ≠ k ∧ p ∈ l)) ∧
    (p ∉ (specStep l .deleteAll).1) ∧
    (specStep l (.search k)).2 = .values ((l.filter (·.1 = k)).map (·.2)) ∧
    (∀ w, w ∈ (l.filter (·.1 = k)).map (·.2) ↔ (k, w) ∈ l) := by
  refine ⟨?_, ?_, ?_, ?_, ?_, ?_⟩
  · simp only [specStep, hk, hv, if_false, List.mem_cons, List.mem_filter]
    constructor
    · rintro (e | ⟨h1, _⟩)
      · exact Or.inl e
      · exact Or.inr h1
    · rintro (e | h1)
      · exact Or.inl e
      · by_cases e : p = (k, v)
        · exact Or.inl e
        · exact Or.inr ⟨h1, by simpa using e⟩
  · simp only [specStep, hk, hv, if_false, List.mem_filter]
    constructor
    · rintro ⟨h1, h2⟩; exact ⟨by simpa using h2, h1⟩
    · rintro ⟨h1, h2⟩; exact ⟨h2, by simpa using h1⟩
  · simp only [specStep, hk, if_false, List.mem_filter]
    constructor
    · rintro ⟨h1, h2⟩; exact ⟨by simpa using h2, h1⟩
    · rintro ⟨h1, h2⟩; exact ⟨h2, by simpa using h1⟩
  · simp [specStep]
  · simp [specStep, hk]
  · intro w
    simp only [List.mem_map, List.mem_filter]
    constructor
    · rintro ⟨q, ⟨hq, hqk⟩, rfl⟩
      have : q.1 = k := by simpa using hqk
      rw [← this]; exact hq
    · intro hm; exact ⟨(k, w), ⟨hm, by simp⟩, rfl⟩

/-- **No prefix leak (mechanism).** The datastore query issued for key `k₁` does not match the raw
key of any pair stored under a different key `k₂` — whatever the relation between the two byte strings
or between their base64url encodings (e.g. "abc"/"abcd", `YWJj`/`YWJjZA`): the encoding contains no
'/', and the query prefix is compared as a whole path component. -/
theorem c24_no_prefix_leak (ns : Key) (h : NsOk ns) (k₁ k₂ v : Bytes) (hne : k₂ ≠ k₁) :
    (convertKey ns (newKey (enc k₁)) ++ ['/']).isPrefixOf (rkp ns (k₂, v)) = false := by
  rw [match_key ns h k₁ (k₂, v)]; simp [hne]

/-- **No prefix leak (observable).** After any history, `Search k` returns only values that the
multimap holds under exactly `k`, and `ForEach k` only pairs with key `k`. -/
theorem c24_search_exact (ns : Key) (h : NsOk ns) (ops : List Op) (k : Bytes) (hk : k ≠ []) :
    (step ns (run ns [] ops).1 (.search k)).2 =
        .values (((specRun [] ops).1.filter (·.1 = k)).map (·.2)) ∧
      (step ns (run ns [] ops).1 (.forEach k)).2 = .pairs ((specRun [] ops).1.filter (·.1 = k)) := by
  have hs := (c24_refines_from_empty ns h ops).2
  exact ⟨by rw [(step_sim ns h _ _ (.search k) hs).1]; simp [specStep, hk],
         by rw [(step_sim ns h _ _ (.forEach k) hs).1]; simp [specStep, hk]⟩

/-- contrast: the *encodings* of prefix-related keys are string prefixes of one another, so a
datastore that matched raw string prefixes (without the component boundary) would leak -/
theorem c24_raw_prefix_would_leak :
    (enc [0x61, 0x62, 0x63]).isPrefixOf (enc [0x61, 0x62, 0x63, 0x64]) = true := by decide

/-- what `NsOk` excludes: an index *named* like an encoded key ("/uYQ" = encode "a") makes the
namespace wrapper store the pairs of key "a" outside the index (observed on the real code too) -/
theorem c24_index_name_collision :
    (run "/uYQ".toList [] [.add [0x61] [0x78], .search [0x61], .forEach []]).2
      = [.ok, .values [], .errDecode] := by decide

/-- empty key / empty value are rejected without touching the datastore -/
theorem c24_empty_rejected (ns : Key) (s : Store) (k v : Bytes) :
    step ns s (.add [] v) = (s, .errEmptyKey) ∧ step ns s (.delete [] v) = (s, .errEmptyKey) ∧
    step ns s (.hasValue [] v) = (s, .errEmptyKey) ∧ step ns s (.deleteKey []) = (s, .errEmptyKey) ∧
    step ns s (.search []) = (s, .errEmptyKey) ∧
    (k ≠ [] → step ns s (.add k []) = (s, .errEmptyValue) ∧ step ns s (.delete k []) = (s, .errEmptyValue) ∧
      step ns s (.hasValue k []) = (s, .errEmptyValue)) := by
  simp [step]

/-- **SyncIndex.** When every value occurs under one key only in the reference and in the target
(the package's documented assumption; violated inputs make Go's value-keyed maps drop pairs), then
`SyncIndex(reference, target)` with a non-empty reference leaves the target's datastore holding
exactly the reference's pairs, and reports a change exactly when the two differed … -/
theorem c24_syncIndex (ns : Key) (hns : NsOk ns) (sT : Store) (lR lT : MM) (hs : Sim ns sT lT)
    (huR : ValuesUnique lR) (huT : ValuesUnique lT) (hnR : NonEmptyPairs lR) (hne : lR ≠ []) :
    ∃ lT', (syncIndex ns sT (some lR)).2 = .changed (!(syncOps lR lT).isEmpty) ∧
      Sim ns (syncIndex ns sT (some lR)).1 lT' ∧ (∀ p, p ∈ lT' ↔ p ∈ lR) ∧
      ((syncOps lR lT).isEmpty = true ↔ ∀ p, p ∈ lT ↔ p ∈ lR) :=
  syncIndex_sim ns hns sT lR lT hs huR huT hnR hne

/-- … while an EMPTY reference leaves the target untouched and reports "unchanged" (the early return
of the Go code: an empty reference does not clear the target). -/
theorem c24_syncIndex_empty_ref (ns : Key) (sT : Store) :
    syncIndex ns sT (some []) = (sT, .changed false) := by
  simp [syncIndex, refsOf]

/-- the multimap-level core of `c24_syncIndex` -/
theorem c24_syncOps (lR lT : MM) (huR : ValuesUnique lR) (huT : ValuesUnique lT)
    (hnR : NonEmptyPairs lR) (hnT : NonEmptyPairs lT) :
    (∀ p, p ∈ (specRun lT (syncOps lR lT)).1 ↔ p ∈ lR) ∧
    (∀ o ∈ (specRun lT (syncOps lR lT)).2, o = .ok) ∧
    (syncOps lR lT = [] ↔ ∀ p, p ∈ lT ↔ p ∈ lR) :=
  syncOps_spec lR lT huR huT hnR hnT

/-! Non-vacuity: prefix-related keys "abc" / "abcd" under the namespace "/pins/index". -/
example : NsOk "/pins/index".toList := Or.inr ⟨'p', "ins/index".toList, by decide, by decide⟩
example : (run "/pins/index".toList []
    [.add [0x61, 0x62, 0x63] [1], .add [0x61, 0x62, 0x63, 0x64] [2], .add [0x61, 0x62, 0x63] [3],
     .search [0x61, 0x62, 0x63], .deleteKey [0x61, 0x62, 0x63], .forEach [], .hasAny [0x61, 0x62]]).2
    = [.ok, .ok, .ok, .values [[3], [1]], .count 2, .pairs [([0x61, 0x62, 0x63, 0x64], [2])], .bool false] := by
  decide

/-- SyncIndex: target {(a,1),(b,2)}, reference {(a,1),(c,2),(d,5)} -/
example : (syncIndex "/idx".toList
    (run "/idx".toList [] [.add [0x61] [1], .add [0x62] [2]]).1
    (some [([0x61], [1]), ([0x63], [2]), ([0x64], [5])])).2 = .changed true := by decide
example : ValuesUnique [([0x61], [1]), ([0x63], [2]), ([0x64], [5])] := by unfold ValuesUnique; decide

end C24
