import BoxoModel.C29.Conc
/-!
# C29 — Name publishing is monotone and resolution is consistent

Property theorems only (helper lemmas are in `BoxoModel/C29/Lemmas.lean`).  The model is the namesys
code with the three `fix:` commits of branch verif/ipns.  All statements quantify over every state
(any cache content, size, max-TTL setting, clock value, store content) unless a hypothesis says
otherwise, and over every history (list of operations of any length).
-/
namespace C29

def run (s : St) (ops : List Op) : St := ops.foldl step s

/-- A rejected publish (ErrInvalidSequence) changes no record. -/
theorem c29_publish_rejected (s : St) (k : Nat) (v : Path) (t : Option Int) (q : Option Nat)
    (h : (publish s k v t q).2 = .badseq) :
    (publish s k v t q).1.store = s.store ∧ (publish s k v t q).1.dstore = s.dstore := by
  rcases publish_cases s k v t q with ⟨_, _, h1, h2⟩ | ⟨n, _, _, hr, _⟩ | ⟨n, _, _, hr, _⟩
  · exact ⟨h1, h2⟩
  · rw [hr] at h; simp at h
  · rw [hr] at h; simp at h

/-- An accepted publish (also one whose routing put then failed) stores, in the publisher's
datastore, a record with the published value whose sequence is ≥ the current record's, > when the
value changed, and equal to the explicit sequence when one was given. -/
theorem c29_publish_accepted (s : St) (k : Nat) (v : Path) (t : Option Int) (q : Option Nat)
    (h : (publish s k v t q).2 ≠ .badseq) :
    ∃ r, afind (publish s k v t q).1.dstore k = some r ∧ r.value = v ∧
      (∀ cur, getPublished s k = some cur → cur.seq ≤ r.seq ∧ (v ≠ cur.value → cur.seq < r.seq)) ∧
      (∀ x, q = some x → r.seq = x) := by
  have main : ∀ n, nextSeq (getPublished s k) v q = some n →
      (publish s k v t q).1.dstore = aput s.dstore k (newRec v t n) →
      ∃ r, afind (publish s k v t q).1.dstore k = some r ∧ r.value = v ∧
        (∀ cur, getPublished s k = some cur → cur.seq ≤ r.seq ∧ (v ≠ cur.value → cur.seq < r.seq)) ∧
        (∀ x, q = some x → r.seq = x) := by
    intro n hn hd
    refine ⟨newRec v t n, by rw [hd, afind_aput_same], rfl, ?_, ?_⟩
    · intro cur hc
      rw [hc] at hn
      have := nextSeq_ge cur v q n hn
      exact ⟨this.1, this.2.1⟩
    · intro x hx
      cases hc : getPublished s k with
      | some cur => rw [hc] at hn; exact ((nextSeq_ge cur v q n hn).2.2 x hx).2
      | none => rw [hc, hx] at hn; exact nextSeq_none_explicit v x n hn
  rcases publish_cases s k v t q with ⟨_, hr, _⟩ | ⟨n, hn, _, _, _, hd⟩ | ⟨n, hn, _, _, _, hd⟩
  · exact absurd hr h
  · exact main n hn hd
  · exact main n hn hd

/-- An explicit sequence number that is not greater than the current one is rejected. -/
theorem c29_explicit_stale_rejected (s : St) (k : Nat) (v : Path) (t : Option Int) (x : Nat) (cur : Rec)
    (hc : getPublished s k = some cur) (hx : x ≤ cur.seq) : (publish s k v t (some x)).2 = .badseq := by
  rcases publish_cases s k v t (some x) with ⟨_, hr, _⟩ | ⟨n, hn, _⟩ | ⟨n, hn, _⟩
  · exact hr
  · rw [hc] at hn; have := ((nextSeq_ge cur v _ n hn).2.2 x rfl).1; omega
  · rw [hc] at hn; have := ((nextSeq_ge cur v _ n hn).2.2 x rfl).1; omega

/-- After a successful publish the routing store holds the record just written. -/
theorem c29_publish_ok_store (s : St) (k : Nat) (v : Path) (t : Option Int) (q : Option Nat)
    (h : (publish s k v t q).2 = .ok) :
    ∃ r, afind (publish s k v t q).1.store k = some r ∧ afind (publish s k v t q).1.dstore k = some r ∧
      r.value = v := by
  rcases publish_cases s k v t q with ⟨_, hr, _⟩ | ⟨n, _, _, hr, _⟩ | ⟨n, _, _, _, hs, hd⟩
  · rw [hr] at h; simp at h
  · rw [hr] at h; simp at h
  · exact ⟨newRec v t n, by rw [hs, afind_aput_same], by rw [hd, afind_aput_same], rfl⟩

/-- Publishing under one key never touches the records of another. -/
theorem c29_publish_other_names (s : St) (k k' : Nat) (v : Path) (t : Option Int) (q : Option Nat)
    (hk : k' ≠ k) :
    afind (publish s k v t q).1.dstore k' = afind s.dstore k' ∧
    afind (publish s k v t q).1.store k' = afind s.store k' := by
  rcases publish_cases s k v t q with ⟨_, _, hs, hd⟩ | ⟨n, _, _, _, hs, hd⟩ | ⟨n, _, _, _, hs, hd⟩
  · rw [hs, hd]; exact ⟨rfl, rfl⟩
  · rw [hs, hd]; exact ⟨afind_aput_other _ _ _ _ hk, rfl⟩
  · rw [hs, hd]; exact ⟨afind_aput_other _ _ _ _ hk, afind_aput_other _ _ _ _ hk⟩

/-- Over every history (publishes, resolves, foreign writes to the routing store, DNS changes, put
failures, in any order and number): the sequence number of the publisher's record of every name
never decreases, and a record never disappears. -/
theorem c29_seq_monotone (ops : List Op) (s : St) (k : Nat) : optLe (dsSeq s k) (dsSeq (run s ops) k) := by
  induction ops generalizing s with
  | nil => exact optLe_refl _
  | cons op rest ih =>
    refine optLe_trans _ _ _ ?_ (ih (step s op))
    cases op with
    | publish k' v t q =>
      simp only [step]
      by_cases hk : k = k'
      · subst hk
        by_cases hb : (publish (tick s) k v t q).2 = .badseq
        · unfold dsSeq; rw [(c29_publish_rejected _ _ _ _ _ hb).2]; exact optLe_refl _
        · obtain ⟨r, h1, _, h3, _⟩ := c29_publish_accepted (tick s) k v t q hb
          simp only [dsSeq, h1, Option.map_some]
          cases hd : afind s.dstore k with
          | none => simp [optLe]
          | some cur =>
            have : getPublished (tick s) k = some cur := by simp [getPublished, tick, hd]
            simpa [optLe] using (h3 cur this).1
      · unfold dsSeq; rw [(c29_publish_other_names (tick s) k' k v t q hk).1]; exact optLe_refl _
    | put k' v t q => exact optLe_refl _
    | setDns d e => cases e <;> exact optLe_refl _
    | failPut => exact optLe_refl _
    | resolve p d =>
      simp only [step, dsSeq, (resolve_store d (tick s) p d).2]; exact optLe_refl _

/-- the routing-store record of `k` is never newer than the publisher's own record -/
def Lag (s : St) (k : Nat) : Prop :=
  ∀ d r, afind s.dstore k = some d → afind s.store k = some r → r.seq ≤ d.seq

def noPutFor (k : Nat) : Op → Bool
  | .put k' _ _ _ => k' != k
  | _ => true

/-- The same for the routing store, over every history in which nobody else writes the name's
record (starting, e.g., from empty stores): the stored sequence never decreases. -/
theorem c29_store_monotone (ops : List Op) (s : St) (k : Nat) (hl : Lag s k)
    (hn : ops.all (noPutFor k) = true) :
    optLe (stSeq s k) (stSeq (run s ops) k) ∧ Lag (run s ops) k := by
  induction ops generalizing s with
  | nil => exact ⟨optLe_refl _, hl⟩
  | cons op rest ih =>
    simp only [List.all_cons, Bool.and_eq_true] at hn
    have step_ok : optLe (stSeq s k) (stSeq (step s op) k) ∧ Lag (step s op) k := by
      cases op with
      | publish k' v t q =>
        simp only [step]
        by_cases hk : k = k'
        · subst hk
          rcases publish_cases (tick s) k v t q with ⟨_, _, hs, hd⟩ | ⟨n, hnx, _, _, hs, hd⟩ | ⟨n, hnx, _, _, hs, hd⟩
          · simp only [stSeq, Lag, hs, hd]; exact ⟨optLe_refl _, hl⟩
          · refine ⟨by simp only [stSeq, hs]; exact optLe_refl _, ?_⟩
            intro d r h1 h2
            rw [hd, afind_aput_same] at h1
            rw [hs] at h2
            simp at h1; subst h1
            simp only [newRec]
            cases hdd : afind s.dstore k with
            | some cur =>
              have hg : getPublished (tick s) k = some cur := by simp [getPublished, tick, hdd]
              rw [hg] at hnx
              have := (nextSeq_ge cur v q n hnx).1
              have := hl cur r hdd h2
              omega
            | none =>
              have hg : getPublished (tick s) k = some r := by
                simp only [getPublished, tick, hdd]; exact h2
              rw [hg] at hnx
              exact (nextSeq_ge r v q n hnx).1
          · refine ⟨?_, ?_⟩
            · simp only [stSeq, hs, afind_aput_same, Option.map_some]
              cases hss : afind s.store k with
              | none => simp [optLe]
              | some r =>
                simp only [Option.map_some, optLe, newRec]
                cases hdd : afind s.dstore k with
                | some cur =>
                  have hg : getPublished (tick s) k = some cur := by simp [getPublished, tick, hdd]
                  rw [hg] at hnx
                  have := (nextSeq_ge cur v q n hnx).1
                  have := hl cur r hdd hss
                  omega
                | none =>
                  have hg : getPublished (tick s) k = some r := by
                    simp only [getPublished, tick, hdd]; exact hss
                  rw [hg] at hnx
                  exact (nextSeq_ge r v q n hnx).1
            · intro d r h1 h2
              rw [hd, afind_aput_same] at h1
              rw [hs, afind_aput_same] at h2
              simp at h1 h2; subst h1; subst h2; exact Nat.le_refl _
        · have ho := c29_publish_other_names (tick s) k' k v t q hk
          simp only [stSeq, Lag, ho.1, ho.2]; exact ⟨optLe_refl _, hl⟩
      | put k' v t q =>
        have hk : k ≠ k' := by
          have := hn.1; simp [noPutFor] at this; exact fun e => this e.symm
        simp only [step, stSeq, Lag, tick, afind_aput_other _ _ _ _ hk]
        exact ⟨optLe_refl _, hl⟩
      | setDns d e => cases e <;> exact ⟨optLe_refl _, hl⟩
      | failPut => exact ⟨optLe_refl _, hl⟩
      | resolve p d =>
        simp only [step, stSeq, Lag, (resolve_store d (tick s) p d).1, (resolve_store d (tick s) p d).2]
        exact ⟨optLe_refl _, hl⟩
    have := ih (step s op) step_ok.2 hn.2
    exact ⟨optLe_trans _ _ _ step_ok.1 this.1, this.2⟩


/-! ## Resolution right after a publish -/

/-- Immediately after — in fact at any later clock value after — a successful publish of `v` under
key `k`, one resolution step of the name, written in ANY textual form and with any remainder, returns
`v` with the remainder appended: for every cache size (0 included), max-cache-TTL setting, previous
cache content and TTL option. (The unfixed code fails this: see docs/notes/C29.md.) -/
theorem c29_publish_then_resolve (s : St) (k : Nat) (v : Path) (t : Option Int) (q : Option Nat)
    (form : Nat) (segs : List String) (tr : Bool) (n' : Int) (h : (publish s k v t q).2 = .ok) :
    ∃ ttl, (resolveOnce { (publish s k v t q).1 with now := n' } ⟨.name k form, segs, tr⟩).2 =
      .ok (joinPaths v ⟨.name k form, segs, tr⟩) ttl := by
  obtain ⟨r, hs, _, hv⟩ := c29_publish_ok_store s k v t q h
  have hc := coh_now _ _ _ n' (publish_ok_coherent s k v t q h)
  have := resolveOnce_coherent { (publish s k v t q).1 with now := n' } k form segs tr r hs (hv ▸ hc)
  rw [hv] at this
  exact this

/-- … hence a full `Resolve` returns the published immutable value (remainder appended) … -/
theorem c29_publish_then_resolve_immutable (s : St) (k : Nat) (v : Path) (t : Option Int) (q : Option Nat)
    (form : Nat) (segs : List String) (tr : Bool) (n' : Int) (fuel d : Nat)
    (h : (publish s k v t q).2 = .ok) (hv : v.mutable = false) :
    ∃ ttl, (resolve (fuel + 1) { (publish s k v t q).1 with now := n' } ⟨.name k form, segs, tr⟩ d).2 =
      .ok (joinPaths v ⟨.name k form, segs, tr⟩) ttl := by
  obtain ⟨ttl, h1⟩ := c29_publish_then_resolve s k v t q form segs tr n' h
  refine ⟨ttl, ?_⟩
  have hm : (joinPaths v ⟨.name k form, segs, tr⟩).mutable = false := by
    unfold joinPaths; split
    · exact hv
    · simpa [Path.mutable] using hv
  unfold resolve
  cases hr : resolveOnce { (publish s k v t q).1 with now := n' } ⟨.name k form, segs, tr⟩ with
  | mk s1 hop =>
    rw [hr] at h1
    simp only at h1
    subst h1
    simp [hm]

/-- … and with depth limit 1 a mutable published value is reported in the recursion error. -/
theorem c29_publish_then_resolve_mutable (s : St) (k : Nat) (v : Path) (t : Option Int) (q : Option Nat)
    (form : Nat) (segs : List String) (tr : Bool) (n' : Int) (fuel : Nat)
    (h : (publish s k v t q).2 = .ok) (hv : v.mutable = true) :
    (resolve (fuel + 1) { (publish s k v t q).1 with now := n' } ⟨.name k form, segs, tr⟩ 1).2 =
      .recursion (joinPaths v ⟨.name k form, segs, tr⟩) := by
  obtain ⟨ttl, h1⟩ := c29_publish_then_resolve s k v t q form segs tr n' h
  have hm : (joinPaths v ⟨.name k form, segs, tr⟩).mutable = true := by
    unfold joinPaths; split
    · exact hv
    · simpa [Path.mutable] using hv
  unfold resolve
  cases hr : resolveOnce { (publish s k v t q).1 with now := n' } ⟨.name k form, segs, tr⟩ with
  | mk s1 hop =>
    rw [hr] at h1
    simp only at h1
    subst h1
    simp [hm]

/-! ## Recursive resolution of chains -/

/-- A chain whose hops succeed, whose first immutable result appears at hop `hs.length`, resolved
with a depth limit `d` that is 0 (unlimited) or at least the chain length: the result is that final
path with the TTL folded by `minNonZeroTTL` from the innermost hop outwards. -/
theorem c29_chain_ok {s p hs last s'} (w : Walk s p hs last s') (hl : last.mutable = false)
    (d fuel : Nat) (hd : d = 0 ∨ hs.length ≤ d) (hf : hs.length ≤ fuel) :
    resolve fuel s p d = (s', .ok last (foldTTL (hs.map (·.2)))) := by
  induction w generalizing d fuel with
  | @one s p s1 q t h1 =>
    cases fuel with
    | zero => simp at hf
    | succ fuel => simp [resolve, h1, hl, foldTTL]
  | @cons s p s1 q t rest last s2 h1 hq w ih =>
    cases fuel with
    | zero => simp at hf
    | succ fuel =>
      have hne := w.ne_nil
      have hlen : 1 ≤ rest.length := by
        cases rest with
        | nil => exact absurd rfl hne
        | cons _ _ => simp
      have hd1 : d ≠ 1 := by
        rcases hd with rfl | hd
        · omega
        · simp only [List.length_cons] at hd; omega
      have := ih hl (if d > 1 then d - 1 else d) fuel
        (by
          rcases hd with rfl | hd
          · left; simp
          · right; simp only [List.length_cons] at hd; split <;> omega)
        (by simp only [List.length_cons] at hf; omega)
      simp only [resolve, h1, hq, Bool.not_true, Bool.false_eq_true, if_false, beq_iff_eq, hd1, this]
      rw [List.map_cons, foldTTL_cons _ _ (by simpa using hne)]

/-- A chain still mutable after `d ≥ 1` hops, resolved with depth limit `d`: recursion error (carrying
the mutable path reached). In particular every cycle fails like this for every `d ≥ 1`. -/
theorem c29_chain_recursion {s p hs last s'} (w : Walk s p hs last s') (hl : last.mutable = true)
    (fuel : Nat) (hf : hs.length ≤ fuel) :
    resolve fuel s p hs.length = (s', .recursion last) := by
  induction w generalizing fuel with
  | @one s p s1 q t h1 =>
    cases fuel with
    | zero => simp at hf
    | succ fuel => simp [resolve, h1, hl]
  | @cons s p s1 q t rest last s2 h1 hq w ih =>
    cases fuel with
    | zero => simp at hf
    | succ fuel =>
      have hne := w.ne_nil
      have hlen : 1 ≤ rest.length := by
        cases rest with
        | nil => exact absurd rfl hne
        | cons _ _ => simp
      have := ih hl fuel (by simp only [List.length_cons] at hf; omega)
      have hd1 : rest.length + 1 ≠ 1 := by omega
      have hgt : rest.length + 1 > 1 := by omega
      simp only [resolve, h1, hq, List.length_cons, Bool.not_true, Bool.false_eq_true, if_false,
        beq_iff_eq, hd1, hgt, if_true, Nat.add_sub_cancel, this]

/-- Fuel sufficiency: with a depth limit `d ≥ 1` the model's recursion never needs more than `d`
units of fuel — extra fuel changes nothing, so `resolve d s p d` is THE result (the out-of-fuel
answer of the model is unreachable for `d ≥ 1`). -/
theorem c29_fuel_suffices (d : Nat) (hd : 1 ≤ d) : ∀ (extra : Nat) (s : St) (p : Path),
    resolve (d + extra) s p d = resolve d s p d := by
  induction d with
  | zero => omega
  | succ d ih =>
    intro extra s p
    have e : d + 1 + extra = (d + extra) + 1 := by omega
    rw [e]
    unfold resolve
    cases hr : resolveOnce s p with
    | mk s1 hop =>
      cases hop with
      | none => rfl
      | err e => rfl
      | ok q t =>
        simp only
        by_cases hq : q.mutable = true
        · simp only [hq, Bool.not_true, Bool.false_eq_true, if_false]
          by_cases h1 : d + 1 = 1
          · simp [h1]
          · have hd' : 1 ≤ d := by omega
            have hgt : d + 1 > 1 := by omega
            simp only [beq_iff_eq, h1, if_false, hgt, if_true, Nat.add_sub_cancel]
            rw [ih hd' extra s1 q]
        · simp [hq]

/-- Depth 0 means "unlimited": a chain that is still mutable after `n` hops exhausts ANY amount `n`
of model fuel (the `.failed` out-of-fuel answer), for every `n` — i.e. on a cycle the real code,
which has no fuel, does not terminate. (On a chain that reaches an immutable path after `n` hops,
`c29_chain_ok` with `d = 0` gives the answer for every fuel ≥ n.) -/
theorem c29_depth0_unbounded {s p hs last s'} (w : Walk s p hs last s') (hl : last.mutable = true) :
    resolve hs.length s p 0 = (s', .failed) := by
  induction w with
  | @one s p s1 q t h1 => simp [resolve, h1, hl]
  | @cons s p s1 q t rest last s2 h1 hq w ih =>
    have := ih hl
    simp only [List.length_cons, resolve, h1, hq, Bool.not_true, Bool.false_eq_true, if_false]
    simp [this]

/-- The TTL of a resolved chain is the smallest positive hop TTL; it is 0 when no hop has a positive
TTL (for chains of ≥ 2 hops; a single hop reports its own TTL unchanged), and never negative —
for hop TTLs in the int64 range of a time.Duration. -/
theorem c29_ttl_min (ts : List Int) (h : 2 ≤ ts.length) (hr : ∀ t ∈ ts, inI64 t) :
    0 ≤ foldTTL ts ∧ (∀ t ∈ ts, 0 < t → foldTTL ts ≤ t) ∧
    ((foldTTL ts = 0 ∧ ∀ t ∈ ts, t ≤ 0) ∨ (0 < foldTTL ts ∧ foldTTL ts ∈ ts)) := by
  have hne : ts ≠ [] := by intro e; simp [e] at h
  have g := foldTTL_good ts hne hr
  have h0 : 0 ≤ foldTTL ts := by
    match ts, h, hr with
    | a :: b :: r, _, hr =>
      rw [foldTTL_cons a (b :: r) (by simp)]
      exact minNonZeroTTL_nonneg _ _ (hr a (by simp)) (foldTTL_range (b :: r) (fun t ht => hr t (by simp [ht])))
  refine ⟨h0, g.1, ?_⟩
  rcases g.2 with ⟨hm, hall⟩ | hpos
  · exact .inl ⟨by omega, hall⟩
  · exact .inr hpos

/-- `minNonZeroTTL` as regenerated from the Go source (T-gen `extract ints`, `Gen.C29`), read on
int64 durations, is the intended function: the smaller of the two when both are positive, the
positive one when only one is, 0 otherwise. -/
theorem c29_minNonZeroTTL_regenerated (a b : Int) (ha : inI64 a) (hb : inI64 b) :
    minNonZeroTTL a b = (if min a b ≤ 0 then max 0 (max a b) else min a b) :=
  minNonZeroTTL_eq a b ha hb

/-- Every hop appends the unresolved remainder of the path it was asked about to the value found
(cached or stored): segments after the root, and the trailing slash. -/
theorem c29_hop_appends_remainder (s : St) (p q : Path) (t : Int) (hp : p.mutable = true)
    (h : (resolveOnce s p).2 = .ok q t) :
    ∃ v, q = joinPaths v p ∧ q.root = v.root ∧
      ((p.segs = [] ∧ p.trailing = false → q = v) ∧
       (¬ (p.segs = [] ∧ p.trailing = false) → q.segs = v.segs ++ p.segs ∧ q.trailing = p.trailing)) := by
  have hj : ∀ v, (joinPaths v p).root = v.root ∧
      ((p.segs = [] ∧ p.trailing = false → joinPaths v p = v) ∧
       (¬ (p.segs = [] ∧ p.trailing = false) →
          (joinPaths v p).segs = v.segs ++ p.segs ∧ (joinPaths v p).trailing = p.trailing)) := by
    intro v
    unfold joinPaths
    split
    · rename_i hc
      simp only [Bool.and_eq_true, List.isEmpty_iff, Bool.not_eq_eq_eq_not, Bool.not_true] at hc
      exact ⟨rfl, fun _ => rfl, fun hn => absurd hc hn⟩
    · rename_i hc
      simp only [Bool.and_eq_true, List.isEmpty_iff, Bool.not_eq_eq_eq_not, Bool.not_true] at hc
      exact ⟨rfl, fun hn => absurd hn hc, fun _ => ⟨rfl, rfl⟩⟩
  unfold resolveOnce at h
  simp only [hp, Bool.not_true, Bool.false_eq_true, if_false] at h
  split at h
  · simp only [Hop.ok.injEq] at h
    exact ⟨_, h.1.symm, h.1 ▸ (hj _).1, h.1 ▸ (hj _).2⟩
  · split at h
    · split at h
      · simp at h
      · simp only [Hop.ok.injEq] at h
        exact ⟨_, h.1.symm, h.1 ▸ (hj _).1, h.1 ▸ (hj _).2⟩
    · split at h
      · simp at h
      · simp only [Hop.ok.injEq] at h
        exact ⟨_, h.1.symm, h.1 ▸ (hj _).1, h.1 ▸ (hj _).2⟩
    · simp at h
    · rename_i hr
      simp [Path.mutable, hr] at hp

/-- Without a cache a hop neither reads nor writes any state: it is the lookup in the routing store
(or the DNS table), so a `Walk` is a path in the graph those tables describe. -/
theorem c29_once_nocache (s : St) (p : Path) (h : s.cap = 0) : (resolveOnce s p).1 = s := by
  unfold resolveOnce
  split
  · rfl
  · simp only [cacheGet, h, beq_self_eq_true, if_true, cacheSet, Bool.true_or]
    split <;> (try split) <;> rfl

/-! ## Concurrent publishes

The small-step system of `Model.lean`: each publish is `lock+read` ; `write+unlock` ; `routing put` ;
`cache update`, the steps of different publishes interleave arbitrarily (`sched` = any list of
thread indices, of any length; blocked and finished threads idle). -/

/-- Because `p.mu` covers the read of the current record AND the write of the new one (the real
code), every interleaving of any number of concurrent publishes leaves the publisher's datastore
exactly as SOME sequential run of (a sub-multiset of) those publishes leaves it — the order in which
the threads held the lock. Routing puts and cache updates, which happen outside the lock, cannot
disturb this (with a plain or a sequence-validating routing store). -/
theorem c29_conc_linearizable (validating : Bool) (s : St) (reqs : List Req) (sched : List Nat) :
    ∃ ord : List Req, (∀ r ∈ ord, r ∈ reqs) ∧
      (runSched validating (initConc s reqs) sched).st.dstore = (run s (ord.map reqOp)).dstore := by
  obtain ⟨ord, h1, h2⟩ := runSched_sim validating sched (initConc s reqs) s (inv_init s reqs)
    ⟨rfl, fun _ _ => rfl⟩
  refine ⟨ord, ?_, h2.1⟩
  intro r hr
  have := h1 r hr
  simpa [reqsOf, initConc, Function.comp_def] using this

/-- … hence the sequence rule extends to concurrent histories: under every interleaving the
sequence number of the publisher's record of every name never decreases (and each accepted publish
obeys `c29_publish_accepted` at its place in the equivalent sequential order). -/
theorem c29_conc_seq_monotone (validating : Bool) (s : St) (reqs : List Req) (sched : List Nat) (k : Nat) :
    optLe (dsSeq s k) (dsSeq (runSched validating (initConc s reqs) sched).st k) := by
  obtain ⟨ord, _, h⟩ := c29_conc_linearizable validating s reqs sched
  have := c29_seq_monotone (ord.map reqOp) s k
  unfold dsSeq at this ⊢
  rw [h]; exact this

/-- The lock must cover the read: if two publishes read the current record before either writes
(the read moved out of the critical section), both are accepted with the SAME sequence number for
different values, and two publishes carrying the same explicit sequence are both accepted. -/
theorem c29_unlocked_read_counterexample :
    ∃ (s : St) (a b : Req) (ra rb : Rec), a.k = b.k ∧
      (pubWrite s (getPublished s a.k) a).2 = some ra ∧
      (pubWrite (pubWrite s (getPublished s a.k) a).1 (getPublished s a.k) b).2 = some rb ∧
      ra.seq = rb.seq ∧ ra.value ≠ rb.value ∧
      ∃ (a' b' : Req), a'.seq = some 7 ∧ b'.seq = some 7 ∧
        (pubWrite s (getPublished s 0) a').2.isSome = true ∧
        (pubWrite (pubWrite s (getPublished s 0) a').1 (getPublished s 0) b').2.isSome = true := by
  refine ⟨{ dstore := [(0, ⟨⟨.cid 0, [], false⟩, 3, 0⟩)] }, ⟨0, ⟨.cid 1, [], false⟩, none, none⟩,
    ⟨0, ⟨.cid 2, [], false⟩, none, none⟩, ⟨⟨.cid 1, [], false⟩, 4, 5 * minute⟩, ⟨⟨.cid 2, [], false⟩, 4, 5 * minute⟩,
    rfl, by decide, by decide, rfl, by decide,
    ⟨0, ⟨.cid 1, [], false⟩, none, some 7⟩, ⟨0, ⟨.cid 2, [], false⟩, none, some 7⟩, rfl, rfl, by decide, by decide⟩

/-- Known finding `concurrent-publish-cache-loser`, in the model: an interleaving of two publishes in
which the one that held the lock FIRST updates the cache LAST. Datastore and (validating) routing
store hold the second publish's record, one resolution step through the cache returns the first
publish's value. -/
theorem c29_conc_cache_loser_example :
    ∃ (s : St) (a b : Req) (sched : List Nat),
      let c := runSched true (initConc s [a, b]) sched
      (afind c.st.dstore 0).map (·.value) = some b.value ∧ (afind c.st.store 0).map (·.value) = some b.value ∧
      (resolveOnce c.st ⟨.name 0 0, [], false⟩).2 = .ok a.value (5 * minute) ∧ a.value ≠ b.value := by
  refine ⟨{ cap := 8 }, ⟨0, ⟨.cid 1, [], false⟩, none, none⟩, ⟨0, ⟨.cid 2, [], false⟩, none, none⟩,
    [0, 0, 1, 1, 1, 1, 0, 0], by decide, by decide, by decide, by decide⟩

/-! Non-vacuity: a three-hop chain (name → domain → name → /ipfs/C0/x) with remainders, through a
warm two-entry cache. -/
def exSt : St :=
  { cap := 2, maxTTL := some (3 * minute), now := 7,
    store := [(0, ⟨⟨.dns 1, ["d"], false⟩, 3, 5 * minute⟩), (2, ⟨⟨.cid 0, ["x"], false⟩, 0, 2 * minute⟩)],
    dns := [(1, (⟨.name 2 1, [], false⟩, 10 * minute))] }

example : (resolve 32 exSt ⟨.name 0 2, ["r"], true⟩ 32).2 =
    .ok ⟨.cid 0, ["x", "d", "r"], true⟩ (2 * minute) := by decide
example : (resolve 2 exSt ⟨.name 0 2, ["r"], true⟩ 2).2 = .recursion ⟨.name 2 1, ["d", "r"], true⟩ := by decide
example : (publish exSt 0 ⟨.cid 1, [], false⟩ none none).2 = .ok ∧
    dsSeq (publish exSt 0 ⟨.cid 1, [], false⟩ none none).1 0 = some 4 := by decide
example : (publish exSt 0 ⟨.cid 1, [], false⟩ none (some 3)).2 = .badseq := by decide
example : Walk exSt ⟨.name 2 0, [], false⟩ [(⟨.cid 0, ["x"], false⟩, 2 * minute)] ⟨.cid 0, ["x"], false⟩
    (resolveOnce exSt ⟨.name 2 0, [], false⟩).1 := Walk.one (Prod.ext rfl (by decide))

end C29
