import BoxoModel.C22.Window
import BoxoModel.C22.Fetch
/-!
# C22 — Pinner state follows the pin model and failed calls change nothing

Property theorems only.  Model: `BoxoModel/C22/Model.lean` (pin records, the three dsindex
indexes, the write log; transcribed from dspinner/pin.go with the two `fix:` commits of branch
verif/pin).  Helper lemmas: `BoxoModel/C22/{Lemmas,Effects,Dfs,Spec,Queries,Steps}.lean`.

The **pin model** of a state is read off the indexes and records:
`IsR s c` / `IsD s c` (c is a recursive root / a direct pin), `RName s c nm` / `DName s c nm`
(its name), `Reach dag r c` (c is below r by at least one link).  The DAG (`dag.links`), the block
store (`s.present`) and the outcomes of `FetchGraph` / `DiffEnumerate` (`fetchOk`, `diffEnum`) are
parameters: every theorem holds for all of them.

All theorems quantify over every state satisfying the invariant (`Inv`, `Uniq`, `NodupIdx`: true
of the empty pinner, preserved by every call — theorems `c22_init`, `c22_index_consistent`,
`c22_unique`), hence over every history of calls, of any length, including failing calls.
-/
namespace C22

/-- the empty pinner satisfies all invariants -/
theorem c22_init (present : List Nat) :
    Inv { present := present } ∧ Uniq { present := present } ∧
      ({ present := present } : St).store.NodupIdx := by
  refine ⟨⟨⟨⟨?_, ?_, ?_⟩, ?_⟩, by simp, ?_, RMap.noDupKeys_nil⟩, ?_, ?_⟩
  · intro c id h; simp [Store.has, Store.idx] at h
  · intro c id h; simp [Store.has, Store.idx] at h
  · intro c id h; simp [Store.has, Store.idx] at h
  · intro id pp h; simp [Store.rec?] at h
  · intro id _; simp [Store.rec?]
  · intro c id1 id2; constructor <;> intro h <;> simp [Store.has, Store.idx] at h
  · simp [Store.NodupIdx]

/-- **index consistency** is preserved by every call: every index entry has a matching record
(cid, mode, name) and every record is indexed; the dirty flag is clear; pin ids are fresh -/
theorem c22_index_consistent (dag : Dag) (s : St) (op : Op) (h : Inv s) : Inv (step dag s op).1 :=
  inv_step dag h op

/-- **one record per (cid, mode)** is preserved by every call -/
theorem c22_unique (dag : Dag) (s : St) (op : Op) (h : Inv s) (hu : Uniq s) (hn : s.store.NodupIdx) :
    Uniq (step dag s op).1 ∧ (step dag s op).1.store.NodupIdx :=
  ⟨step_uniq dag h hu op, step_nodupIdx dag h op hn⟩

/-- **a call that returns an error changes nothing**: the datastore is untouched (no write at all),
so are the id counter and the in-memory dirty counter — from *any* state, for every call -/
theorem c22_failed_noop (dag : Dag) (s : St) (op : Op) (h : (step dag s op).2 ≠ .ok) :
    (step dag s op).1.store = s.store ∧ (step dag s op).1.nextId = s.nextId ∧
      (step dag s op).1.memDirty = s.memDirty ∧ (step dag s op).1.log = [] :=
  failed_noop dag s op h

/-- … hence every pin query of the pin model is unchanged by a failed call -/
theorem c22_failed_pins_unchanged (dag : Dag) (s : St) (op : Op) (h : (step dag s op).2 ≠ .ok) (c nm : Nat) :
    (IsR (step dag s op).1 c ↔ IsR s c) ∧ (IsD (step dag s op).1 c ↔ IsD s c) ∧
    (RName (step dag s op).1 c nm ↔ RName s c nm) ∧ (DName (step dag s op).1 c nm ↔ DName s c nm) :=
  have e := (failed_noop dag s op h).1
  ⟨isR_congr e c, isD_congr e c, rname_congr e c nm, dname_congr e c nm⟩

/-- … and the query functions themselves give the same answers on the same block store -/
theorem c22_failed_queries_unchanged (dag : Dag) (s : St) (op : Op) (h : (step dag s op).2 ≠ .ok)
    (hp : (step dag s op).1.present = s.present) (c : Nat) (mode : Int) (names : Bool) (cids : List Nat) :
    isPinnedWithType dag (step dag s op).1 c mode = isPinnedWithType dag s c mode ∧
    checkIfPinnedWithType dag (step dag s op).1 mode names cids = checkIfPinnedWithType dag s mode names cids ∧
    listKeys (step dag s op).1 (step dag s op).1.store.idxR names = listKeys s s.store.idxR names ∧
    listKeys (step dag s op).1 (step dag s op).1.store.idxD names = listKeys s s.store.idxD names :=
  queries_congr dag _ _ (failed_noop dag s op h).1 hp c mode names cids

/-- **a successful call changes the pin model as the property says** (`OkSpec`):
recursive pin of `c` as `name`: c becomes a recursive root named exactly `name` (re-pinning replaces
the name), its direct pin disappears (recursive supersedes direct), every other cid is untouched;
direct pin: c becomes a direct pin named exactly `name`, nothing else changes;
unpin: both pins of c disappear, nothing else changes;
update src→dst: dst becomes a recursive root with src's name, src stays unless `unpin` is set -/
theorem c22_ok_follows_pin_model (dag : Dag) (s : St) (op : Op) (h : Inv s)
    (hok : (step dag s op).2 = .ok) : OkSpec s (step dag s op).1 op :=
  step_ok dag h op hok

/-- which calls fail — direct pins (Pin(recursive=false) and PinWithMode(Direct)) -/
theorem c22_result_pin_direct (dag : Dag) (s : St) (c name : Nat) (ctx : Ctx) :
    let r := (step dag s (.pinMode c 1 name ctx)).2
    (ctx = .pre → r = .cancelled) ∧ (ctx ≠ .pre → IsR s c → r = .alreadyRec) ∧ (ctx ≠ .pre → ¬ IsR s c → r = .ok) := by
  have := result_pinDirect { s with log := [], present := s.present } c name ctx
  simpa [step, IsR] using this

/-- which calls fail — recursive pin through Pin (with fetch) -/
theorem c22_result_pin_recursive (dag : Dag) (s : St) (c name : Nat) (ctx : Ctx) :
    let r := (step dag s (.pin c true name ctx)).2
    let blocks := if s.present.contains c then s.present else c :: s.present
    (ctx = .pre → r = .cancelled) ∧ (ctx = .mid → r = .cancelled) ∧
    (ctx = .ok → fetchOk dag blocks c = false → r = .notfound) ∧
    (ctx = .ok → fetchOk dag blocks c = true → r = .ok) := by
  have := result_pinRecursive dag { s with log := [], present :=
    (if s.present.contains c then s.present else c :: s.present) } c true name ctx
  simp only [step]
  exact ⟨this.1, fun h => this.2.1 h rfl, fun h1 h2 => this.2.2.1 h1 rfl h2, fun h1 h2 => this.2.2.2.1 h1 rfl h2⟩

/-- the FetchGraph outcome used above is not a free parameter: on an acyclic DAG it is "the root and
every block below it are in the block store" (`walk`, the model of merkledag.Walk over GetLinksDirect
with a shared visited set, proved sound and complete) -/
theorem c22_fetch_ok_iff (dag : Dag) (wf : dag.WF) (present : List Nat) (c : Nat) :
    fetchOk dag present c = true ↔ c ∈ present ∧ ∀ y, Reach dag c y → y ∈ present := by
  obtain ⟨rk, hrk, hn⟩ := wf
  exact fetchOk_iff dag rk hrk hn present c

/-- hence a recursive Pin that returns ok has every block of the pinned graph in the block store -/
theorem c22_pin_recursive_has_closure (dag : Dag) (wf : dag.WF) (s : St) (c name : Nat) (ctx : Ctx)
    (hok : (step dag s (.pin c true name ctx)).2 = .ok) :
    let blocks := if s.present.contains c then s.present else c :: s.present
    c ∈ blocks ∧ ∀ y, Reach dag c y → y ∈ blocks := by
  intro blocks
  have r := c22_result_pin_recursive dag s c name ctx
  simp only [] at r
  rw [← c22_fetch_ok_iff dag wf]
  cases ctx with
  | pre => rw [r.1 rfl] at hok; cases hok
  | mid => rw [r.2.1 rfl] at hok; cases hok
  | ok =>
    cases hf : fetchOk dag blocks c with
    | true => rfl
    | false => rw [r.2.2.1 rfl hf] at hok; cases hok

/-- which calls fail — PinWithMode: only Recursive (no fetch) and Direct are accepted -/
theorem c22_result_pin_mode (dag : Dag) (s : St) (c name : Nat) (mode : Int) (ctx : Ctx) :
    (mode ≠ 0 → mode ≠ 1 → (step dag s (.pinMode c mode name ctx)).2 = .badmode) ∧
    (mode = 0 → ctx = .pre → (step dag s (.pinMode c mode name ctx)).2 = .cancelled) ∧
    (mode = 0 → ctx ≠ .pre → (step dag s (.pinMode c mode name ctx)).2 = .ok) := by
  have := result_pinRecursive dag { s with log := [], present := s.present } c false name ctx
  refine ⟨fun h0 h1 => by simp [step, h0, h1], fun h0 h1 => ?_, fun h0 h1 => ?_⟩
  · subst h0; simpa [step] using this.1 h1
  · subst h0; simpa [step] using this.2.2.2.2 h1 rfl

/-- which calls fail — Unpin -/
theorem c22_result_unpin (dag : Dag) (s : St) (c : Nat) (recursive : Bool) (ctx : Ctx) :
    let r := (step dag s (.unpin c recursive ctx)).2
    (ctx = .pre → r = .cancelled) ∧
    (ctx ≠ .pre → IsR s c → recursive = false → r = .isRec) ∧
    (ctx ≠ .pre → ¬ IsR s c → ¬ IsD s c → r = .notpinned) ∧
    (ctx ≠ .pre → (IsR s c ∧ recursive = true) ∨ (¬ IsR s c ∧ IsD s c) → r = .ok) := by
  have := result_unpin { s with log := [], present := s.present } c recursive ctx
  simpa [step, IsR, IsD] using this

/-- which calls fail — Update -/
theorem c22_result_update (dag : Dag) (s : St) (h : Inv s) (hu : Uniq s) (hn : s.store.NodupIdx)
    (src dst : Nat) (u : Bool) (ctx : Ctx) :
    let r := (step dag s (.update src dst u ctx)).2
    (¬ IsR s src → r = .fromNotRec) ∧
    (IsR s src → src = dst → r = .ok) ∧
    (IsR s src → src ≠ dst → ctx = .pre → r = .cancelled) ∧
    (IsR s src → src ≠ dst → ctx ≠ .pre → IsR s dst → r = .toRec) ∧
    (IsR s src → src ≠ dst → ctx = .mid → ¬ IsR s dst → r = .cancelled) ∧
    (IsR s src → src ≠ dst → ctx = .ok → ¬ IsR s dst → diffEnum dag s.present (dag.n + 1) src dst = false → r = .notfound) ∧
    (IsR s src → src ≠ dst → ctx = .ok → ¬ IsR s dst → diffEnum dag s.present (dag.n + 1) src dst = true → r = .ok) := by
  have := result_update dag { s with log := [], present := s.present } h.cons.1 hn
    ((uniq_congr (a := { s with log := [], present := s.present }) (b := s) rfl).2 hu) src dst u ctx
  simpa [step, IsR] using this

/-- **IsPinned / IsPinnedWithType agree with the pin model** for every mode, from any state:
Recursive / Direct: index membership; Internal: never; Indirect: *not pinned* when `c` is itself a
recursive root, else *via root* for a recursive root that reaches `c`, or *not pinned* when no
recursive root reaches it; Any: recursive beats direct beats indirect; other modes: invalid.
`notfound` only when the walk hit a block that is not in the block store. -/
theorem c22_isPinnedWithType (dag : Dag) (s : St) (c : Nat) (mode : Int) :
    QuerySpec dag s c mode (isPinnedWithType dag s c mode) :=
  isPinnedWithType_spec dag s c mode

/-- … and never fail when every block below the recursive roots is in the block store -/
theorem c22_isPinnedWithType_no_error (dag : Dag) (wf : dag.WF) (s : St) (c : Nat) (mode : Int)
    (hall : ∀ root, IsR s root → root ∈ s.present ∧ ∀ x, Reach dag root x → x ∈ s.present) :
    isPinnedWithType dag s c mode ≠ .notfound :=
  isPinnedWithType_no_error dag wf s c mode hall

/-- **CheckIfPinned / CheckIfPinnedWithType agree with the pin model**: shape of the answer … -/
theorem c22_batch_shape (dag : Dag) (s : St) (mode : Int) (names : Bool) (cids : List Nat) :
    (mode ≠ 0 → mode ≠ 1 → mode ≠ 2 → mode ≠ 3 → mode ≠ 5 →
      checkIfPinnedWithType dag s mode names cids = .invalid) ∧
    ((mode = 0 ∨ mode = 1 ∨ mode = 2 ∨ mode = 3 ∨ mode = 5) →
      (checkIfPinnedWithType dag s mode names cids = .dangling ∧ needWalk s mode cids = true ∧ dangling dag s = true) ∨
      (checkIfPinnedWithType dag s mode names cids = .res (cids.map (batchEntry dag s mode names)) ∧
        ¬ (needWalk s mode cids = true ∧ dangling dag s = true))) := by
  unfold checkIfPinnedWithType
  refine ⟨fun h0 h1 h2 h3 h5 => by simp [h0, h1, h2, h3, h5], fun hm => ?_⟩
  rw [if_pos hm]
  by_cases hd : (needWalk s mode cids && dangling dag s) = true
  · rw [if_pos hd]
    simp only [Bool.and_eq_true] at hd
    exact Or.inl ⟨rfl, hd.1, hd.2⟩
  · rw [if_neg hd]
    simp only [Bool.and_eq_true] at hd
    exact Or.inr ⟨rfl, hd⟩

/-- … and every entry: Recursive / Direct report the index with the pin's name when names are
requested; Indirect reports *not pinned* for a recursive root and otherwise the first recursive root
reaching the cid; Any: recursive beats direct beats indirect; Internal: not pinned -/
theorem c22_batch_entry (dag : Dag) (wf : dag.WF) (s : St) (h : Inv s) (mode : Int) (names : Bool) (c : Nat) :
    BatchSpec dag s mode names c (batchEntry dag s mode names c) :=
  batchEntry_spec dag wf s h.cons.1 mode names c

/-- the `dangling` answer is given exactly when a recursive root reaches a block that is missing
from the block store (the concurrent walk of the real code then fails or not depending on scheduling) -/
theorem c22_dangling_iff (dag : Dag) (wf : dag.WF) (s : St) :
    dangling dag s = true ↔ ∃ root, IsR s root ∧ ∃ x, (x = root ∨ Reach dag root x) ∧ x ∉ s.present :=
  dangling_iff dag wf s

/-- **RecursiveKeys / DirectKeys agree with the pin model**: each recursive root (direct pin) is
listed exactly once; the detailed listing carries the cid, mode and name of one of its records -/
theorem c22_listing (s : St) (h : Inv s) (detailed : Bool) :
    (((listKeys s s.store.idxR detailed).map (·.1)).Nodup ∧
      (∀ c, c ∈ (listKeys s s.store.idxR detailed).map (·.1) ↔ IsR s c) ∧
      (∀ e ∈ listKeys s s.store.idxR detailed,
        (detailed = true → ∃ pp, e.2 = some pp ∧ pp.cid = e.1 ∧ pp.mode = .recursive ∧ RName s e.1 pp.name) ∧
        (detailed = false → e.2 = none))) ∧
    (((listKeys s s.store.idxD detailed).map (·.1)).Nodup ∧
      (∀ c, c ∈ (listKeys s s.store.idxD detailed).map (·.1) ↔ IsD s c) ∧
      (∀ e ∈ listKeys s s.store.idxD detailed,
        (detailed = true → ∃ pp, e.2 = some pp ∧ pp.cid = e.1 ∧ pp.mode = .direct ∧ DName s e.1 pp.name) ∧
        (detailed = false → e.2 = none))) := by
  have no := h.cons.1
  constructor
  · obtain ⟨a1, a2, a3⟩ := listKeys_go_spec s detailed s.store.idxR [] (by
      intro c id hm
      obtain ⟨nm, e⟩ := no.r c id hm
      exact ⟨_, e, rfl⟩)
    refine ⟨a1, fun c => by rw [listKeys, a2]; simp [IsR, Store.has, Store.idx], ?_⟩
    intro e he
    refine ⟨fun hd => ?_, (a3 e he).2⟩
    obtain ⟨id, pp, x, y, z⟩ := (a3 e he).1 hd
    obtain ⟨nm, e'⟩ := no.r e.1 id y
    rw [z] at e'; cases e'
    exact ⟨_, x, rfl, rfl, id, _, y, z, rfl⟩
  · obtain ⟨a1, a2, a3⟩ := listKeys_go_spec s detailed s.store.idxD [] (by
      intro c id hm
      obtain ⟨nm, e⟩ := no.d c id hm
      exact ⟨_, e, rfl⟩)
    refine ⟨a1, fun c => by rw [listKeys, a2]; simp [IsD, Store.has, Store.idx], ?_⟩
    intro e he
    refine ⟨fun hd => ?_, (a3 e he).2⟩
    obtain ⟨id, pp, x, y, z⟩ := (a3 e he).1 hd
    obtain ⟨nm, e'⟩ := no.d e.1 id y
    rw [z] at e'; cases e'
    exact ⟨_, x, rfl, rfl, id, _, y, z, rfl⟩

/-! ### a second call inside the window in which doPinRecursive / Update release the pinner lock

`stepNested dag s A B` = call A (a recursive Pin or an Update) with the complete call B executed
while A fetches blocks with the lock released (the harness runs B from inside A's first block fetch). -/

/-- the invariant (records ↔ indexes, flag, fresh ids) survives every such interleaving -/
theorem c22_window_inv (dag : Dag) (s : St) (opA opB : Op) (h : Inv s) : Inv (stepNested dag s opA opB).st :=
  inv_stepNested dag h opA opB

/-- so does "one record per (cid, mode)" (needs fix 6296254 for Update, see the counterexample below) -/
theorem c22_window_unique (dag : Dag) (s : St) (opA opB : Op) (h : Inv s) (hu : Uniq s) :
    Uniq (stepNested dag s opA opB).st :=
  uniq_stepNested dag h hu opA opB

/-- a call A that returns an error — before or after its window — made no datastore write -/
theorem c22_window_failed_noop (dag : Dag) (s : St) (opA opB : Op)
    (hf : (stepNested dag s opA opB).resA ≠ .ok) : (stepNested dag s opA opB).logA = [] :=
  nested_failed_noop dag s opA opB hf

/-- a recursive Pin that returns ok leaves its cid recursively pinned, whatever ran inside its window
(including the `!found && dirty != dirtyBefore` early return) -/
theorem c22_window_pin_ok (dag : Dag) (s : St) (c name : Nat) (opB : Op) (h : Inv s)
    (hok : (stepNested dag s (.pin c true name .ok) opB).resA = .ok) :
    IsR (stepNested dag s (.pin c true name .ok) opB).st c :=
  nested_pin_ok dag h c name opB hok

/-! ### the code before the fix violates the property (witness found by the harness, replayed here) -/

/-- 0 → {1, 2}, 1 → {2}; block 2 is not in the block store -/
def exDag : Dag := { n := 3, links := fun i => if i = 0 then [1, 2] else if i = 1 then [2] else [] }
/-- the empty pinner over a block store holding blocks 0 and 1 -/
def exS0 : St := { present := [0, 1] }
/-- after PinWithMode(0, Recursive, "n1") -/
def exS1 : St := (step exDag exS0 (.pinMode 0 0 1 .ok)).1

/-- `doPinRecursive` as it was (old pin removed before the fetch): Pin(0, recursive) fails because
block 2 is missing — and cid 0, recursively pinned before the call, is not pinned any more -/
theorem c22_old_code_failed_call_unpins :
    isPinnedWithType exDag exS1 0 5 = .recursive ∧
    (pinRecursiveOld exDag { exS1 with log := [] } 0 true 2 .ok).2 = .notfound ∧
    isPinnedWithType exDag (pinRecursiveOld exDag { exS1 with log := [] } 0 true 2 .ok).1 0 5 = .no := by
  decide

/-- 0 → {1}; every block present; cid 0 recursively pinned as "n1" -/
def exDagW : Dag := { n := 2, links := fun i => if i = 0 then [1] else [] }
def exW1 : St := (step exDagW { present := [0, 1] } (.pinMode 0 0 1 .ok)).1

/-- `Update` as it was (no re-check after the window): PinWithMode(1, Recursive) inside the window of
Update(0 → 1) leaves cid 1 with two recursive pins, after which Update(1 → 0) is refused although
cid 1 is recursively pinned.  The repaired code answers "'to' cid was already recursively pinned". -/
theorem c22_window_old_update_duplicates :
    let sB := (step exDagW exW1 (.pinMode 1 0 3 .ok)).1
    let r := updateResumeOld exDagW { sB with log := [] } 0 1 false 1
    r.2 = .ok ∧ (r.1.store.idxR.search 1).length = 2 ∧
    (step exDagW r.1 (.update 1 0 false .ok)).2 = .fromNotRec ∧
    (stepNested exDagW exW1 (.update 0 1 false .ok) (.pinMode 1 0 3 .ok)).resA = .toRec := by
  decide

/-! ### non-vacuity -/

/-- the early return of doPinRecursive: Pin(1) with PinWithMode(1, Recursive, "n3") inside its window
returns ok without writing and keeps the other call's name -/
example : (stepNested exDagW exW1 (.pin 1 true 2 .ok) (.pinMode 1 0 3 .ok)).resA = .ok ∧
    (stepNested exDagW exW1 (.pin 1 true 2 .ok) (.pinMode 1 0 3 .ok)).logA = [] ∧
    batchEntry exDagW (stepNested exDagW exW1 (.pin 1 true 2 .ok) (.pinMode 1 0 3 .ok)).st 0 true 1 = .recursive 3 := by
  decide

/-- the invariants hold of a non-trivial reachable state -/
example : Inv exS1 ∧ Uniq exS1 ∧ exS1.store.NodupIdx :=
  ⟨c22_index_consistent _ _ _ (c22_init _).1,
   (c22_unique _ _ _ (c22_init _).1 (c22_init _).2.1 (c22_init _).2.2).1,
   (c22_unique _ _ _ (c22_init _).1 (c22_init _).2.1 (c22_init _).2.2).2⟩
/-- the same failing call on the repaired code: error, and the pin (with its name) is still there -/
example : (step exDag exS1 (.pin 0 true 2 .ok)).2 = .notfound ∧
    batchEntry exDag (step exDag exS1 (.pin 0 true 2 .ok)).1 5 true 0 = .recursive 1 := by decide
/-- indirect pins; a recursive root below another root is not "indirect" -/
example : isPinnedWithType exDag exS1 1 5 = .via 0 ∧ isPinnedWithType exDag exS1 1 2 = .via 0 ∧
    isPinnedWithType exDag (step exDag exS1 (.pinMode 1 0 0 .ok)).1 1 2 = .no := by decide
/-- re-pinning replaces the name; a direct pin is superseded -/
example : batchEntry exDag (step exDag exS1 (.pinMode 0 0 3 .ok)).1 0 true 0 = .recursive 3 ∧
    (step exDag (step exDag exS0 (.pinMode 1 1 2 .ok)).1 (.pinMode 1 0 0 .ok)).2 = .ok ∧
    isPinnedWithType exDag (step exDag (step exDag exS0 (.pinMode 1 1 2 .ok)).1 (.pinMode 1 0 0 .ok)).1 1 1 = .no := by
  decide
/-- the walk reports the missing block -/
example : isPinnedWithType exDag exS1 7 5 = .notfound ∧ dangling exDag exS1 = true := by decide

end C22
