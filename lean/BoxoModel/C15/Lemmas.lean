import BoxoModel.C15.Model
/-!
C15 — lemmas about the HAMT trie model: well-formedness, lookup, and the specification of
`Trie.swap` (the model of `Shard.swapValue`) used by the refinement theorems of Props/C15.lean and
by the canonical-form theorems of C16.
-/
namespace C15
namespace Trie

/-- `getValue` without the loading side effect -/
def lookup (key : Name) : Trie → Nat → List Nat → Option Lnk
  | nil, _, _ => none
  | val j k _ _ l rest, i, r =>
    if j < i then lookup key rest i r else if i < j then none else if k = key then some l else none
  | sub j _ c rest, i, r =>
    if j < i then lookup key rest i r else if i < j then none
    else match r with
      | [] => none
      | i' :: r' => lookup key c i' r'

/-- the map a trie denotes, given the digits every name has from this level on -/
def get (dgl : Name → List Nat) (t : Trie) (k : Name) : Option Lnk :=
  match dgl k with
  | [] => none
  | i :: r => lookup k t i r

def AllKeys (P : Name → Prop) : Trie → Prop
  | nil => True
  | val _ k _ _ _ rest => P k ∧ AllKeys P rest
  | sub _ _ c rest => AllKeys P c ∧ AllKeys P rest

/-- a predicate on the slot indices of this level -/
def AllIdx (P : Nat → Prop) : Trie → Prop
  | nil => True
  | val j _ _ _ _ rest => P j ∧ AllIdx P rest
  | sub j _ _ rest => P j ∧ AllIdx P rest

/-- well-formed: slots strictly ordered by index (the bitfield order), every key sits on the path its
digits prescribe -/
def WF : (Name → List Nat) → Trie → Prop
  | _, nil => True
  | dgl, val j k _ _ _ rest => (dgl k).head? = some j ∧ AllIdx (j < ·) rest ∧ WF dgl rest
  | dgl, sub j _ c rest =>
    AllKeys (fun k => (dgl k).head? = some j) c ∧ WF (fun k => (dgl k).tail) c ∧ AllIdx (j < ·) rest ∧ WF dgl rest

theorem AllKeys.imp {P Q : Name → Prop} (h : ∀ k, P k → Q k) : ∀ t, AllKeys P t → AllKeys Q t
  | nil, _ => trivial
  | val _ _ _ _ _ rest, ⟨a, b⟩ => ⟨h _ a, AllKeys.imp h rest b⟩
  | sub _ _ c rest, ⟨a, b⟩ => ⟨AllKeys.imp h c a, AllKeys.imp h rest b⟩

theorem AllIdx.imp {P Q : Nat → Prop} (h : ∀ k, P k → Q k) : ∀ t, AllIdx P t → AllIdx Q t
  | nil, _ => trivial
  | val _ _ _ _ _ rest, ⟨a, b⟩ => ⟨h _ a, AllIdx.imp h rest b⟩
  | sub _ _ _ rest, ⟨a, b⟩ => ⟨h _ a, AllIdx.imp h rest b⟩

/-- a lookup that succeeds returns a stored key -/
theorem lookup_some_keys {P : Name → Prop} {key : Name} :
    ∀ (t : Trie) (i : Nat) (r : List Nat) (l : Lnk), lookup key t i r = some l → AllKeys P t → P key
  | nil, _, _, _, h, _ => by simp [lookup] at h
  | val j k _ _ l' rest, i, r, l, h, hk => by
    unfold lookup at h
    split at h
    · exact lookup_some_keys rest i r l h hk.2
    · split at h
      · simp at h
      · split at h
        · rename_i he; exact he ▸ hk.1
        · simp at h
  | sub j _ c rest, i, r, l, h, hk => by
    unfold lookup at h
    split at h
    · exact lookup_some_keys rest i r l h hk.2
    · split at h
      · simp at h
      · split at h
        · simp at h
        · exact lookup_some_keys c _ _ l h hk.1

/-- nothing is found below the first index of a level -/
theorem lookup_lt {key : Name} : ∀ (t : Trie) (i : Nat) (r : List Nat), AllIdx (i < ·) t → lookup key t i r = none
  | nil, _, _, _ => rfl
  | val j _ _ _ _ rest, i, r, h => by
    have : ¬ j < i := by have := h.1; omega
    simp [lookup, this, h.1]
  | sub j _ _ rest, i, r, h => by
    have : ¬ j < i := by have := h.1; omega
    simp [lookup, this, h.1]

theorem lookup_le {key : Name} (t : Trie) (i j : Nat) (r : List Nat) (h : AllIdx (j < ·) t) (hij : i ≤ j) :
    lookup key t i r = none :=
  lookup_lt t i r (AllIdx.imp (fun _ hk => by omega) t h)

/-! ### the leaf fork -/

theorem fork_keys {P : Name → Prop} {k1 k2 : Name} {l1 l2 : Lnk} (h1 : P k1) (h2 : P k2) :
    ∀ (r1 r2 : List Nat) (c : Trie), fork k1 l1 k2 l2 r1 r2 = some c → AllKeys P c
  | [], _, c, h => by simp [fork] at h
  | _ :: _, [], c, h => by simp [fork] at h
  | i1 :: r1, i2 :: r2, c, h => by
    unfold fork at h
    split at h
    · cases hf : fork k1 l1 k2 l2 r1 r2 with
      | none => simp [hf] at h
      | some c' =>
        simp [hf] at h; subst h
        exact ⟨fork_keys h1 h2 r1 r2 c' hf, trivial⟩
    · split at h <;> (simp at h; subst h; simp [AllKeys, h1, h2])

theorem fork_wf {k1 k2 : Name} {l1 l2 : Lnk} :
    ∀ (r1 r2 : List Nat) (dgl : Name → List Nat) (c : Trie), dgl k1 = r1 → dgl k2 = r2 →
      fork k1 l1 k2 l2 r1 r2 = some c → WF dgl c
  | [], _, _, c, _, _, h => by simp [fork] at h
  | _ :: _, [], _, c, _, _, h => by simp [fork] at h
  | i1 :: r1, i2 :: r2, dgl, c, e1, e2, h => by
    unfold fork at h
    split at h
    · rename_i heq
      cases hf : fork k1 l1 k2 l2 r1 r2 with
      | none => simp [hf] at h
      | some c' =>
        simp [hf] at h; subst h
        refine ⟨?_, ?_, trivial, trivial⟩
        · exact fork_keys (P := fun k => (dgl k).head? = some i1) (by simp [e1]) (by simp [e2, heq]) r1 r2 c' hf
        · exact fork_wf r1 r2 (fun k => (dgl k).tail) c' (by simp [e1]) (by simp [e2]) hf
    · split at h
      · rename_i hlt; simp at h; subst h
        simp [WF, AllIdx, e1, e2, hlt]
      · rename_i hne hlt; simp at h; subst h
        have : i2 < i1 := by omega
        simp [WF, AllIdx, e1, e2, this]

theorem fork_lookup {k1 k2 : Name} {l1 l2 : Lnk} (hne : k1 ≠ k2) :
    ∀ (r1 r2 : List Nat) (c : Trie), fork k1 l1 k2 l2 r1 r2 = some c →
      (∀ i t, r1 = i :: t → lookup k1 c i t = some l1) ∧ (∀ i t, r2 = i :: t → lookup k2 c i t = some l2) ∧
      (∀ k' i t, k' ≠ k1 → k' ≠ k2 → lookup k' c i t = none)
  | [], _, c, h => by simp [fork] at h
  | _ :: _, [], c, h => by simp [fork] at h
  | i1 :: r1, i2 :: r2, c, h => by
    unfold fork at h
    split at h
    · rename_i heq
      cases hf : fork k1 l1 k2 l2 r1 r2 with
      | none => simp [hf] at h
      | some c' =>
        simp [hf] at h; subst h
        obtain ⟨ha, hb, hc⟩ := fork_lookup hne r1 r2 c' hf
        refine ⟨?_, ?_, ?_⟩
        · intro i t e; cases e
          cases r1 with
          | nil => simp [fork] at hf
          | cons a b => simpa [lookup] using ha a b rfl
        · intro i t e; cases e
          cases r2 with
          | nil => cases r1 <;> simp [fork] at hf
          | cons a b => simpa [lookup, heq] using hb a b rfl
        · intro k' i t n1 n2
          unfold lookup
          split
          · rfl
          · split
            · rfl
            · split
              · rfl
              · exact hc k' _ _ n1 n2
    · split at h
      · rename_i hlt; simp at h; subst h
        refine ⟨?_, ?_, ?_⟩
        · intro i t e; cases e; simp [lookup]
        · intro i t e; cases e; simp [lookup, hlt]
        · intro k' i t n1 n2
          simp [lookup, Ne.symm n1, Ne.symm n2]
      · rename_i hne' hlt; simp at h; subst h
        have hl : i2 < i1 := by omega
        refine ⟨?_, ?_, ?_⟩
        · intro i t e; cases e; simp [lookup, hl]
        · intro i t e; cases e; simp [lookup]
        · intro k' i t n1 n2
          simp [lookup, Ne.symm n1, Ne.symm n2]

/-- the fork fails only when one digit string is a prefix of the other (equal, for equally long hashes) -/
theorem fork_none {k1 k2 : Name} {l1 l2 : Lnk} :
    ∀ (r1 r2 : List Nat), fork k1 l1 k2 l2 r1 r2 = none → r1 <+: r2 ∨ r2 <+: r1
  | [], _, _ => Or.inl (List.nil_prefix)
  | _ :: _, [], _ => Or.inr (List.nil_prefix)
  | i1 :: r1, i2 :: r2, h => by
    unfold fork at h
    split at h
    · rename_i heq
      cases hf : fork k1 l1 k2 l2 r1 r2 with
      | some c => simp [hf] at h
      | none =>
        subst heq
        rcases fork_none r1 r2 hf with h' | h'
        · exact Or.inl ((List.prefix_cons_inj i1).2 h')
        · exact Or.inr ((List.prefix_cons_inj i1).2 h')
    · split at h <;> simp at h

/-! ### `swap` -/

theorem swap_idx {P : Nat → Prop} (key : Name) (v : Option Lnk) (dgl : Name → List Nat) (t : Trie) (i : Nat) (r : List Nat)
    (hi : P i) (h : AllIdx P t) : AllIdx P (swap dgl key v t i r).1 := by
  fun_induction swap dgl key v t i r <;> simp_all +zetaDelta [AllIdx]

theorem swap_keys {P : Name → Prop} (key : Name) (v : Option Lnk) (dgl : Name → List Nat) (t : Trie) (i : Nat) (r : List Nat)
    (hi : P key) (h : AllKeys P t) : AllKeys P (swap dgl key v t i r).1 := by
  fun_induction swap dgl key v t i r
  case case10 => rename_i hf; exact ⟨fork_keys hi h.1 _ _ _ hf, h.2⟩
  all_goals simp_all +zetaDelta [AllKeys]

/-- removal never needs the key's own predicate -/
theorem swap_keys_rm {P : Name → Prop} (key : Name) (dgl : Name → List Nat) (t : Trie) (i : Nat) (r : List Nat)
    (h : AllKeys P t) : AllKeys P (swap dgl key none t i r).1 := by
  fun_induction swap dgl key none t i r
  all_goals simp_all +zetaDelta [AllKeys]

/- Case names of `fun_induction swap` (inaccessible hypotheses in context order):
  case3  dgl j k p ld l rest i r hlt x ih          case11 dgl j ld c rest i r hlt x ih
  case5  dgl j k p ld l rest i r h1 hlt nl hv      case13 dgl j ld c rest i r h1 hlt nl hv
  case9  dgl j k p ld l rest i r h1 h2 hne nl hv hf n
  case10 dgl j k p ld l rest i r h1 h2 hne nl hv c hf
  case15 dgl j ld c rest i h1 h2 i' r' x old hv hx2 hx1 ih
  case16 dgl j ld c rest i h1 h2 i' r' x old hv hx2 idx k p ld' l hx1 ih
  case17 dgl j ld c rest i h1 h2 i' r' x old hv hx2 hn1 hn2 ih
  case18 dgl j ld c rest i h1 h2 i' r' x hnot ih -/
theorem swap_wf (key : Name) (v : Option Lnk) (dgl : Name → List Nat) (t : Trie) (i : Nat) (r : List Nat)
    (hwf : WF dgl t) (hk : dgl key = i :: r) : WF dgl (swap dgl key v t i r).1 := by
  fun_induction swap dgl key v t i r
  case case3 =>
    rename_i dgl j k p ld l rest i r hlt x ih
    obtain ⟨a, b, c⟩ := hwf
    exact ⟨a, swap_idx _ _ _ _ _ _ hlt b, ih c hk⟩
  case case5 =>
    rename_i dgl j k p ld l rest i r h1 hlt nl hv
    obtain ⟨a, b, c⟩ := hwf
    exact ⟨by simp [hk], ⟨hlt, AllIdx.imp (fun _ h => Nat.lt_trans hlt h) _ b⟩, a, b, c⟩
  case case10 =>
    rename_i dgl j k p ld l rest i r h1 h2 hne nl hv c hf
    obtain ⟨a, b, cw⟩ := hwf
    have e : i = j := by omega
    exact ⟨fork_keys (P := fun k => (dgl k).head? = some j) (by simp [hk, e]) a _ _ _ hf,
      fork_wf _ _ (fun k => (dgl k).tail) _ (by simp [hk]) rfl hf, b, cw⟩
  case case11 =>
    rename_i dgl j ld c rest i r hlt x ih
    obtain ⟨a, wc, b, wr⟩ := hwf
    exact ⟨a, wc, swap_idx _ _ _ _ _ _ hlt b, ih wr hk⟩
  case case13 =>
    rename_i dgl j ld c rest i r h1 hlt nl hv
    obtain ⟨a, wc, b, wr⟩ := hwf
    exact ⟨by simp [hk], ⟨hlt, AllIdx.imp (fun _ h => Nat.lt_trans hlt h) _ b⟩, a, wc, b, wr⟩
  case case16 =>
    rename_i dgl j ld c rest i h1 h2 i' r' x old hv hx2 idx k p ld' l hx1 ih
    obtain ⟨a, wc, b, wr⟩ := hwf
    subst hv
    have := swap_keys_rm key (fun k => (dgl k).tail) c i' r' a
    rw [hx1] at this
    exact ⟨this.1, b, wr⟩
  case case17 =>
    rename_i dgl j ld c rest i h1 h2 i' r' x old hv hx2 hn1 hn2 ih
    obtain ⟨a, wc, b, wr⟩ := hwf
    subst hv
    exact ⟨swap_keys_rm key (fun k => (dgl k).tail) c i' r' a, ih wc (by simp [hk]), b, wr⟩
  case case18 =>
    rename_i dgl j ld c rest i h1 h2 i' r' x hnot ih
    obtain ⟨a, wc, b, wr⟩ := hwf
    have e : i = j := by omega
    exact ⟨swap_keys key v (fun k => (dgl k).tail) c i' r' (by simp [hk, e]) a, ih wc (by simp [hk]), b, wr⟩
  all_goals (simp_all +zetaDelta [WF, AllIdx])

/-- other keys are untouched -/
theorem swap_lookup_ne (key : Name) (v : Option Lnk) (dgl : Name → List Nat) (t : Trie) (i : Nat) (r : List Nat)
    (hwf : WF dgl t) (hk : dgl key = i :: r) (k' : Name) (hne : k' ≠ key) (i2 : Nat) (r2 : List Nat) (hk' : dgl k' = i2 :: r2) :
    lookup k' (swap dgl key v t i r).1 i2 r2 = lookup k' t i2 r2 := by
  have hne' : ¬ key = k' := fun h => hne h.symm
  fun_induction swap dgl key v t i r generalizing i2 r2
  case case2 => simp [lookup, hne']
  case case5 =>
    rename_i dgl j k p ld l rest i r h1 hlt nl hv
    simp only [lookup, hne', if_false]
    split
    · rfl
    · split
      · have h3 : ¬ j < i2 := by omega
        have h4 : i2 < j := by omega
        simp [h3, h4]
      · have h3 : ¬ j < i2 := by omega
        have h4 : i2 < j := by omega
        simp [h3, h4]
  case case6 =>
    rename_i dgl j p ld l rest i r h1 h2 hv
    obtain ⟨a, b, c⟩ := hwf
    simp only [lookup, hne', if_false]
    split
    · rfl
    · have : lookup k' rest i2 r2 = none := lookup_le rest i2 j r2 b (by omega)
      simp [this]
  case case7 => simp [lookup, hne']
  case case10 =>
    rename_i dgl j k p ld l rest i r h1 h2 hnk nl hv c hf
    obtain ⟨a, b, cw⟩ := hwf
    obtain ⟨fa, fb, fc⟩ := fork_lookup (Ne.symm hnk) _ _ _ hf
    simp only [lookup]
    split
    · rfl
    · split
      · rfl
      · have e2 : i2 = j := by omega
        by_cases hkk : k = k'
        · subst hkk
          have ht : (dgl k).tail = r2 := by simp [hk']
          cases r2 with
          | nil => rw [ht] at hf; cases r <;> simp [fork] at hf
          | cons a' b' => simp [fb a' b' ht]
        · simp only [hkk, if_false]
          cases r2 with
          | nil => rfl
          | cons a' b' => exact fc k' a' b' hne (fun h => hkk h.symm)
  case case13 =>
    rename_i dgl j ld c rest i r h1 hlt nl hv
    simp only [lookup, hne', if_false]
    split
    · rfl
    · have h3 : ¬ j < i2 := by omega
      have h4 : i2 < j := by omega
      split <;> simp_all
  case case15 =>
    rename_i dgl j ld c rest i h1 h2 i' r' x old hv hx2 hx1 ih
    obtain ⟨a, wc, b, wr⟩ := hwf
    simp only [lookup]
    split
    · rfl
    · have hl : lookup k' rest i2 r2 = none := lookup_le rest i2 j r2 b (by omega)
      rw [hl]
      split
      · rfl
      · cases r2 with
        | nil => rfl
        | cons a' b' =>
          have := ih wc (by simp [hk]) a' b' (by simp [hk'])
          rw [hx1] at this
          simpa [lookup] using this
  case case16 =>
    rename_i dgl j ld c rest i h1 h2 i' r' x old hv hx2 idx k p ld' l hx1 ih
    obtain ⟨a, wc, b, wr⟩ := hwf
    have hw := swap_wf key v (fun k => (dgl k).tail) c i' r' wc (by simp [hk])
    rw [hx1] at hw
    have hidx : ((dgl k).tail).head? = some idx := hw.1
    simp only [lookup]
    split
    · rfl
    · split
      · rfl
      · cases r2 with
        | nil =>
          by_cases hkk : k = k'
          · subst hkk; simp [hk'] at hidx
          · simp [hkk]
        | cons a' b' =>
          have := ih wc (by simp [hk]) a' b' (by simp [hk'])
          rw [hx1] at this
          show _ = lookup k' c a' b'
          rw [← this]
          by_cases hkk : k = k'
          · subst hkk
            have : a' = idx := by simpa [hk'] using hidx
            subst this
            simp [lookup]
          · simp [lookup, hkk]
  case case17 =>
    rename_i dgl j ld c rest i h1 h2 i' r' x old hv hx2 hn1 hn2 ih
    obtain ⟨a, wc, b, wr⟩ := hwf
    simp only [lookup]
    split
    · rfl
    · split
      · rfl
      · cases r2 with
        | nil => rfl
        | cons a' b' => exact ih wc (by simp [hk]) a' b' (by simp [hk'])
  case case18 =>
    rename_i dgl j ld c rest i h1 h2 i' r' x hnot ih
    obtain ⟨a, wc, b, wr⟩ := hwf
    simp only [lookup]
    split
    · rfl
    · split
      · rfl
      · cases r2 with
        | nil => rfl
        | cons a' b' => exact ih wc (by simp [hk]) a' b' (by simp [hk'])
  all_goals (simp_all +zetaDelta [lookup, WF])

/-- what `swap` answers and what it does to its own key -/
def ResSpec (key : Name) (v : Option Lnk) (t t' : Trie) (i : Nat) (r : List Nat) : Res → Prop
  | .ok old => lookup key t' i r = v ∧ old.map (·.lnk) = lookup key t i r ∧ (v = none → old.isSome)
  | .notfound => v = none ∧ lookup key t i r = none ∧ lookup key t' i r = none
  | .toodeep => lookup key t i r = none ∧ lookup key t' i r = none

theorem swap_res (key : Name) (v : Option Lnk) (dgl : Name → List Nat) (t : Trie) (i : Nat) (r : List Nat)
    (hwf : WF dgl t) (hk : dgl key = i :: r) :
    ResSpec key v t (swap dgl key v t i r).1 i r (swap dgl key v t i r).2 := by
  fun_induction swap dgl key v t i r
  case case4 =>
    rename_i dgl j k p ld l rest i r h1 hlt hv
    subst hv; simp [ResSpec, lookup, h1, hlt]
  case case5 =>
    rename_i dgl j k p ld l rest i r h1 hlt nl hv
    subst hv; simp [ResSpec, lookup, h1, hlt]
  case case6 =>
    rename_i dgl j p ld l rest i r h1 h2 hv
    subst hv
    have : lookup key rest i r = none := lookup_le rest i j r hwf.2.1 (by omega)
    simp [ResSpec, lookup, h1, h2, this]
  case case8 =>
    rename_i dgl j k p ld l rest i r h1 h2 hne hv
    subst hv; simp [ResSpec, lookup, h1, h2, hne]
  case case9 =>
    rename_i dgl j k p ld l rest i r h1 h2 hne nl hv hf n
    subst hv; simp [ResSpec, lookup, h1, h2, hne]
  case case10 =>
    rename_i dgl j k p ld l rest i r h1 h2 hne nl hv c hf
    subst hv
    obtain ⟨fa, fb, fc⟩ := fork_lookup (Ne.symm hne) _ _ _ hf
    cases r with
    | nil => simp [fork] at hf
    | cons a' b' => simp [ResSpec, lookup, h1, h2, hne, fa a' b' rfl]
  case case12 =>
    rename_i dgl j ld c rest i r h1 hlt hv
    subst hv; simp [ResSpec, lookup, h1, hlt]
  case case13 =>
    rename_i dgl j ld c rest i r h1 hlt nl hv
    subst hv; simp [ResSpec, lookup, h1, hlt]
  case case14 =>
    rename_i dgl j ld c rest i h1 h2
    simp [ResSpec, lookup, h1, h2]
  case case15 =>
    rename_i dgl j ld c rest i h1 h2 i' r' x old hv hx2 hx1 ih
    obtain ⟨a, wc, b, wr⟩ := hwf
    subst hv
    have h := ih wc (by simp [hk])
    rw [hx2] at h
    have : lookup key rest i (i' :: r') = none := lookup_le rest i j _ b (by omega)
    simpa [ResSpec, lookup, h1, h2, this] using h.2
  case case16 =>
    rename_i dgl j ld c rest i h1 h2 i' r' x old hv hx2 idx k p ld' l hx1 ih
    obtain ⟨a, wc, b, wr⟩ := hwf
    subst hv
    have h := ih wc (by simp [hk])
    rw [hx2, hx1] at h
    simp only [ResSpec, lookup, h1, h2, if_false] at h ⊢
    refine ⟨?_, h.2⟩
    -- the surviving value is not `key` (the child no longer finds it)
    have h1' := h.1
    by_cases hkk : k = key
    · subst hkk
      have hw := swap_wf k none (fun k => (dgl k).tail) c i' r' wc (by simp [hk])
      rw [hx1] at hw
      have : i' = idx := by simpa [hk] using hw.1
      subst this
      simp at h1'
    · simp [hkk]
  case case17 =>
    rename_i dgl j ld c rest i h1 h2 i' r' x old hv hx2 hn1 hn2 ih
    obtain ⟨a, wc, b, wr⟩ := hwf
    subst hv
    have h := ih wc (by simp [hk])
    rw [hx2] at h
    simpa [ResSpec, lookup, h1, h2] using h
  case case18 =>
    rename_i dgl j ld c rest i h1 h2 i' r' x hnot ih
    obtain ⟨a, wc, b, wr⟩ := hwf
    have h := ih wc (by simp [hk])
    revert h
    cases hx : x.2 <;> simp [ResSpec, lookup, h1, h2] <;> (intros; (repeat' constructor) <;> assumption)
  all_goals (simp_all +zetaDelta [lookup, WF, ResSpec])

/-! ### canonical form (used by C16; C15 needs it to exclude the depth error) -/

/-- a sub-shard that must not exist below the root: empty, or holding a single value -/
def NonTriv : Trie → Prop
  | nil => False
  | val _ _ _ _ _ rest => rest ≠ nil
  | sub _ _ _ _ => True

/-- canonical: every sub-shard holds at least two entries (no empty shard, no shard that should
have been collapsed into its parent) -/
def Canon : Trie → Prop
  | nil => True
  | val _ _ _ _ _ rest => Canon rest
  | sub _ _ c rest => NonTriv c ∧ Canon c ∧ Canon rest

theorem fork_canon {k1 k2 : Name} {l1 l2 : Lnk} :
    ∀ (r1 r2 : List Nat) (c : Trie), fork k1 l1 k2 l2 r1 r2 = some c → NonTriv c ∧ Canon c
  | [], _, c, h => by simp [fork] at h
  | _ :: _, [], c, h => by simp [fork] at h
  | i1 :: r1, i2 :: r2, c, h => by
    unfold fork at h
    split at h
    · cases hf : fork k1 l1 k2 l2 r1 r2 with
      | none => simp [hf] at h
      | some c' =>
        simp [hf] at h; subst h
        have := fork_canon r1 r2 c' hf
        exact ⟨trivial, this.1, this.2, trivial⟩
    · split at h <;> (simp at h; subst h; simp [NonTriv, Canon])

theorem swap_ne_nil (key : Name) (v : Option Lnk) (dgl : Name → List Nat) (t : Trie) (i : Nat) (r : List Nat)
    (hn : t ≠ nil) (hv : ∀ old, (swap dgl key v t i r).2 = .ok old → v = none → False) :
    (swap dgl key v t i r).1 ≠ nil := by
  fun_induction swap dgl key v t i r
  all_goals (simp_all +zetaDelta)

/-- unless an entry was removed, a non-trivial slot list stays non-trivial -/
theorem swap_nontriv (key : Name) (v : Option Lnk) (dgl : Name → List Nat) (t : Trie) (i : Nat) (r : List Nat)
    (hn : NonTriv t) (hv : ∀ old, (swap dgl key v t i r).2 = .ok old → v = none → False) :
    NonTriv (swap dgl key v t i r).1 := by
  fun_induction swap dgl key v t i r
  case case3 =>
    rename_i dgl j k p ld l rest i r hlt x ih
    exact swap_ne_nil key v dgl rest i r hn hv
  all_goals (simp_all +zetaDelta [NonTriv])

theorem swap_canon (key : Name) (v : Option Lnk) (dgl : Name → List Nat) (t : Trie) (i : Nat) (r : List Nat)
    (hc : Canon t) : Canon (swap dgl key v t i r).1 := by
  fun_induction swap dgl key v t i r
  case case10 =>
    rename_i dgl j k p ld l rest i r h1 h2 hne nl hv c hf
    have := fork_canon _ _ _ hf
    exact ⟨this.1, this.2, hc⟩
  case case17 =>
    rename_i dgl j ld c rest i h1 h2 i' r' x old hv hx2 hn1 hn2 ih
    refine ⟨?_, ih hc.2.1, hc.2.2⟩
    cases hx : x.1 with
    | nil => exact absurd hx hn1
    | val a b c' d e rest' =>
      cases rest' with
      | nil => exact absurd hx (hn2 _ _ _ _ _)
      | val => simp [NonTriv]
      | sub => simp [NonTriv]
    | sub => trivial
  case case18 =>
    rename_i dgl j ld c rest i h1 h2 i' r' x hnot ih
    exact ⟨swap_nontriv key v _ c i' r' hc.1 hnot, ih hc.2.1, hc.2.2⟩
  all_goals (simp_all +zetaDelta [Canon])


theorem AllKeys.and {P Q : Name → Prop} : ∀ t, AllKeys P t → AllKeys Q t → AllKeys (fun k => P k ∧ Q k) t
  | nil, _, _ => trivial
  | val _ _ _ _ _ rest, ⟨a, b⟩, ⟨c, d⟩ => ⟨⟨a, c⟩, AllKeys.and rest b d⟩
  | sub _ _ c' rest, ⟨a, b⟩, ⟨c, d⟩ => ⟨AllKeys.and c' a c, AllKeys.and rest b d⟩

/-- a non-empty canonical slot list holds a key -/
theorem exists_key {P : Name → Prop} : ∀ t, t ≠ nil → Canon t → AllKeys P t → ∃ k, P k
  | nil, h, _, _ => absurd rfl h
  | val _ k _ _ _ _, _, _, ha => ⟨k, ha.1⟩
  | sub _ _ c _, _, hc, ha => exists_key c (by intro h; rw [h] at hc; exact hc.1) hc.2.1 ha.1

theorem wf_keys_ne_nil : ∀ (dgl : Name → List Nat) (t : Trie), WF dgl t → AllKeys (fun k => dgl k ≠ []) t
  | _, nil, _ => trivial
  | dgl, val j k _ _ _ rest, ⟨a, _, c⟩ => ⟨by intro h; simp [h] at a, wf_keys_ne_nil dgl rest c⟩
  | dgl, sub j _ c rest, ⟨a, _, _, d⟩ =>
    ⟨AllKeys.imp (fun k hk => by intro h; simp [h] at hk) c a, wf_keys_ne_nil dgl rest d⟩

/-- The depth error needs two different names agreeing on every digit (for hashes of equal length). -/
theorem swap_not_toodeep (key : Name) (v : Option Lnk) (dgl : Name → List Nat) (t : Trie) (i : Nat) (r : List Nat)
    (hwf : WF dgl t) (hc : Canon t) (hk : dgl key = i :: r)
    (hlen : ∀ a b, (dgl a).length = (dgl b).length)
    (hinj : AllKeys (fun k => k ≠ key → dgl k ≠ dgl key) t) :
    (swap dgl key v t i r).2 ≠ .toodeep := by
  fun_induction swap dgl key v t i r
  case case3 =>
    rename_i dgl j k p ld l rest i r hlt x ih
    exact ih hwf.2.2 hc hk hlen hinj.2
  case case11 =>
    rename_i dgl j ld c rest i r hlt x ih
    exact ih hwf.2.2.2 hc.2.2 hk hlen hinj.2
  case case9 =>
    rename_i dgl j k p ld l rest i r h1 h2 hne nl hv hf n
    obtain ⟨a, b, cw⟩ := hwf
    exfalso
    have e : i = j := by omega
    obtain ⟨tl, htl⟩ : ∃ tl, dgl k = j :: tl := by
      cases hd : dgl k with
      | nil => simp [hd] at a
      | cons x y => simp [hd] at a; exact ⟨y, by rw [a]⟩
    have hl := hlen k key
    rw [htl, hk] at hl
    simp at hl
    have : r = tl := by
      rw [htl] at hf
      rcases fork_none _ _ hf with h | h
      · exact h.eq_of_length (by simpa using hl.symm)
      · exact (h.eq_of_length (by simpa using hl)).symm
    exact hinj.1 hne (by rw [htl, hk, this, e])
  case case14 =>
    rename_i dgl j ld c rest i h1 h2
    obtain ⟨a, wc, b, wr⟩ := hwf
    exfalso
    obtain ⟨k, hk1, hk2⟩ := exists_key c (by intro h; rw [h] at hc; exact hc.1) hc.2.1
      (AllKeys.and c a (wf_keys_ne_nil _ c wc))
    have hl := hlen k key
    rw [hk] at hl
    cases hd : dgl k with
    | nil => simp [hd] at hk1
    | cons x y =>
      rw [hd] at hl
      simp [hd] at hk2
      cases y with
      | nil => exact hk2 rfl
      | cons => simp at hl
  case case18 =>
    rename_i dgl j ld c rest i h1 h2 i' r' x hnot ih
    obtain ⟨a, wc, b, wr⟩ := hwf
    have e : i = j := by omega
    refine ih wc hc.2.1 (by simp [hk]) (fun a b => by simp [hlen a b]) ?_
    refine AllKeys.imp ?_ c (AllKeys.and c a hinj.1)
    intro k ⟨hh, hi⟩ hne htl
    apply hi hne
    cases hd : dgl k with
    | nil => simp [hd] at hh
    | cons x y =>
      simp [hd] at hh htl
      rw [hk] at htl ⊢
      simp at htl
      rw [hh, htl, e]
  all_goals (simp_all +zetaDelta [WF, Canon, AllKeys])


/-! ### loading state and stored names are ghosts: everything observable factors through `toDag` -/

/-- the reloaded form of a trie: `NewHamtFromDag (Node ())` -/
abbrev norm (t : Trie) : Trie := ofDag (toDag t)

theorem toDag_ofDag : ∀ d : Dag, toDag (ofDag d) = d
  | .nil => rfl
  | .val _ _ _ rest => by simp [ofDag, toDag, toDag_ofDag rest]
  | .sub _ c rest => by simp [ofDag, toDag, toDag_ofDag c, toDag_ofDag rest]

theorem toDag_stripAll : ∀ t : Trie, toDag (stripAll t) = toDag t
  | nil => rfl
  | val _ _ _ _ _ rest => by simp [stripAll, toDag, toDag_stripAll rest]
  | sub _ _ c rest => by simp [stripAll, toDag, toDag_stripAll c, toDag_stripAll rest]

theorem toDag_stripN : ∀ (t : Trie) (n : Nat), toDag (stripN t n).1 = toDag t := by
  intro t n
  fun_induction stripN t n <;> simp_all +zetaDelta [toDag]

theorem toDag_find (key : Name) (t : Trie) (i : Nat) (r : List Nat) : toDag (find key t i r).1 = toDag t := by
  fun_induction find key t i r <;> simp_all +zetaDelta [toDag]

theorem toDag_swap_err (key : Name) (v : Option Lnk) (dgl : Name → List Nat) (t : Trie) (i : Nat) (r : List Nat)
    (h : ∀ old, (swap dgl key v t i r).2 ≠ .ok old) : toDag (swap dgl key v t i r).1 = toDag t := by
  fun_induction swap dgl key v t i r <;> simp_all +zetaDelta [toDag]

theorem lookup_norm (k : Name) : ∀ (t : Trie) (i : Nat) (r : List Nat), lookup k (norm t) i r = lookup k t i r
  | nil, _, _ => rfl
  | val j k' _ _ l rest, i, r => by simp [norm, toDag, ofDag, lookup]; rw [← lookup_norm k rest i r]
  | sub j _ c rest, i, r => by
    simp only [norm, toDag, ofDag, lookup]
    rw [← lookup_norm k rest i r]
    cases r with
    | nil => rfl
    | cons a b => simp only; rw [← lookup_norm k c a b]

theorem lookup_congr {t1 t2 : Trie} (h : toDag t1 = toDag t2) (k : Name) (i : Nat) (r : List Nat) :
    lookup k t1 i r = lookup k t2 i r := by
  rw [← lookup_norm k t1, ← lookup_norm k t2, norm, norm, h]

theorem ents_norm : ∀ t : Trie, ents (norm t) = ents t
  | nil => rfl
  | val _ _ _ _ _ rest => by simp [norm, toDag, ofDag, ents]; exact ents_norm rest
  | sub _ _ c rest => by
    simp only [norm, toDag, ofDag, ents]
    rw [← ents_norm c, ← ents_norm rest]

theorem ents_congr {t1 t2 : Trie} (h : toDag t1 = toDag t2) : ents t1 = ents t2 := by
  rw [← ents_norm t1, ← ents_norm t2, norm, norm, h]

theorem allKeys_norm {P : Name → Prop} : ∀ t : Trie, AllKeys P (norm t) ↔ AllKeys P t
  | nil => Iff.rfl
  | val _ _ _ _ _ rest => by simp only [norm, toDag, ofDag, AllKeys]; rw [← allKeys_norm rest]
  | sub _ _ c rest => by simp only [norm, toDag, ofDag, AllKeys]; rw [← allKeys_norm rest, ← allKeys_norm c]

theorem allIdx_norm {P : Nat → Prop} : ∀ t : Trie, AllIdx P (norm t) ↔ AllIdx P t
  | nil => Iff.rfl
  | val _ _ _ _ _ rest => by simp only [norm, toDag, ofDag, AllIdx]; rw [← allIdx_norm rest]
  | sub _ _ c rest => by simp only [norm, toDag, ofDag, AllIdx]; rw [← allIdx_norm rest]

theorem wf_norm : ∀ (dgl : Name → List Nat) (t : Trie), WF dgl (norm t) ↔ WF dgl t
  | _, nil => Iff.rfl
  | dgl, val _ _ _ _ _ rest => by
    simp only [norm, toDag, ofDag, WF]; rw [← wf_norm dgl rest, ← allIdx_norm rest]
  | dgl, sub _ _ c rest => by
    simp only [norm, toDag, ofDag, WF]
    rw [← wf_norm dgl rest, ← allIdx_norm rest, ← wf_norm _ c, ← allKeys_norm c]

theorem wf_congr {t1 t2 : Trie} (h : toDag t1 = toDag t2) (dgl : Name → List Nat) : WF dgl t1 ↔ WF dgl t2 := by
  rw [← wf_norm dgl t1, ← wf_norm dgl t2, norm, norm, h]

theorem nonTriv_norm : ∀ t : Trie, NonTriv (norm t) ↔ NonTriv t
  | nil => Iff.rfl
  | val _ _ _ _ _ rest => by cases rest <;> simp [norm, toDag, ofDag, NonTriv]
  | sub _ _ _ _ => by simp [norm, toDag, ofDag, NonTriv]

theorem canon_norm : ∀ t : Trie, Canon (norm t) ↔ Canon t
  | nil => Iff.rfl
  | val _ _ _ _ _ rest => by simp only [norm, toDag, ofDag, Canon]; exact canon_norm rest
  | sub _ _ c rest => by
    simp only [norm, toDag, ofDag, Canon]
    rw [← canon_norm rest, ← canon_norm c, ← nonTriv_norm c]

theorem canon_congr {t1 t2 : Trie} (h : toDag t1 = toDag t2) : Canon t1 ↔ Canon t2 := by
  rw [← canon_norm t1, ← canon_norm t2, norm, norm, h]

/-! ### `find` -/

def FindRes.lnk : FindRes → Option Lnk
  | .found s => some s.lnk
  | _ => none

theorem find_lookup (key : Name) (t : Trie) (i : Nat) (r : List Nat) :
    (find key t i r).2.lnk = lookup key t i r := by
  fun_induction find key t i r
  all_goals (simp only [lookup, FindRes.lnk])
  all_goals (try simp +zetaDelta only [*, if_true, if_false])
  all_goals (try simp_all +zetaDelta [FindRes.lnk])

theorem find_not_toodeep (key : Name) (dgl : Name → List Nat) (t : Trie) (i : Nat) (r : List Nat)
    (hwf : WF dgl t) (hc : Canon t) (hk : dgl key = i :: r) (hlen : ∀ a b, (dgl a).length = (dgl b).length) :
    (find key t i r).2 ≠ .toodeep := by
  fun_induction find key t i r generalizing dgl
  case case2 ih => exact ih dgl hwf.2.2 hc hk hlen
  case case6 ih => exact ih dgl hwf.2.2.2 hc.2.2 hk hlen
  case case8 =>
    rename_i j ld c rest i h1 h2
    obtain ⟨a, wc, b, wr⟩ := hwf
    exfalso
    obtain ⟨k, hk1, hk2⟩ := exists_key c (by intro h; rw [h] at hc; exact hc.1) hc.2.1
      (AllKeys.and c a (wf_keys_ne_nil _ c wc))
    have hl := hlen k key
    rw [hk] at hl
    cases hd : dgl k with
    | nil => simp [hd] at hk1
    | cons x y =>
      rw [hd] at hl
      simp [hd] at hk2
      cases y with
      | nil => exact hk2 rfl
      | cons => simp at hl
  case case9 ih =>
    exact ih (fun k => (dgl k).tail) hwf.2.1 hc.2.1 (by simp [hk]) (fun a b => by simp [hlen a b])
  all_goals (simp_all +zetaDelta [WF, Canon])


/-! ### listing -/

theorem mem_ents_keys {P : Name → Prop} {k : Name} {l : Lnk} : ∀ t : Trie, (k, l) ∈ ents t → AllKeys P t → P k
  | nil, h, _ => by simp [ents] at h
  | val _ k' _ _ l' rest, h, hk => by
    simp only [ents, List.mem_cons] at h
    rcases h with h | h
    · cases h; exact hk.1
    · exact mem_ents_keys rest h hk.2
  | sub _ _ c rest, h, hk => by
    simp only [ents, List.mem_append] at h
    rcases h with h | h
    · exact mem_ents_keys c h hk.1
    · exact mem_ents_keys rest h hk.2

theorem lookup_mem {k : Name} {l : Lnk} : ∀ (t : Trie) (i : Nat) (r : List Nat), lookup k t i r = some l → (k, l) ∈ ents t
  | nil, _, _, h => by simp [lookup] at h
  | val j k' _ _ l' rest, i, r, h => by
    unfold lookup at h
    simp only [ents, List.mem_cons]
    split at h
    · exact Or.inr (lookup_mem rest i r h)
    · split at h
      · simp at h
      · split at h
        · rename_i he; simp at h; subst he; subst h; exact Or.inl rfl
        · simp at h
  | sub j _ c rest, i, r, h => by
    unfold lookup at h
    simp only [ents, List.mem_append]
    split at h
    · exact Or.inr (lookup_mem rest i r h)
    · split at h
      · simp at h
      · split at h
        · simp at h
        · exact Or.inl (lookup_mem c _ _ h)

theorem mem_lookup {k : Name} {l : Lnk} : ∀ (dgl : Name → List Nat) (t : Trie), WF dgl t → (k, l) ∈ ents t →
    ∃ i r, dgl k = i :: r ∧ lookup k t i r = some l
  | _, nil, _, h => by simp [ents] at h
  | dgl, val j k' _ _ l' rest, ⟨a, b, c⟩, h => by
    simp only [ents, List.mem_cons] at h
    rcases h with h | h
    · cases h
      cases hd : dgl k with
      | nil => simp [hd] at a
      | cons x y =>
        simp [hd] at a; subst a
        exact ⟨x, y, rfl, by simp [lookup]⟩
    · obtain ⟨i, r, e, hl⟩ := mem_lookup dgl rest c h
      refine ⟨i, r, e, ?_⟩
      have hji : j < i := by
        apply Nat.lt_of_not_le; intro hn
        rw [lookup_le rest i j r b hn] at hl
        simp at hl
      simp [lookup, hji, hl]
  | dgl, sub j _ c' rest, ⟨a, wc, b, wr⟩, h => by
    simp only [ents, List.mem_append] at h
    rcases h with h | h
    · obtain ⟨i, r, e, hl⟩ := mem_lookup (fun k => (dgl k).tail) c' wc h
      have hh := mem_ents_keys c' h a
      cases hd : dgl k with
      | nil => simp [hd] at hh
      | cons x y =>
        simp [hd] at hh e; subst hh; subst e
        exact ⟨x, i :: r, rfl, by simp [lookup, hl]⟩
    · obtain ⟨i, r, e, hl⟩ := mem_lookup dgl rest wr h
      refine ⟨i, r, e, ?_⟩
      have hji : j < i := by
        apply Nat.lt_of_not_le; intro hn
        rw [lookup_le rest i j r b hn] at hl
        simp at hl
      simp [lookup, hji, hl]

/-- listing = the denoted map -/
theorem mem_ents_iff (dgl : Name → List Nat) (t : Trie) (hwf : WF dgl t) (k : Name) (l : Lnk) :
    (k, l) ∈ ents t ↔ get dgl t k = some l := by
  constructor
  · intro h
    obtain ⟨i, r, e, hl⟩ := mem_lookup dgl t hwf h
    simp [get, e, hl]
  · intro h
    unfold get at h
    split at h
    · simp at h
    · exact lookup_mem t _ _ h

theorem ents_nodup : ∀ (dgl : Name → List Nat) (t : Trie), WF dgl t → ((ents t).map Prod.fst).Nodup
  | _, nil, _ => by simp [ents]
  | dgl, val j k _ _ l rest, ⟨a, b, c⟩ => by
    simp only [ents, List.map_cons, List.nodup_cons]
    refine ⟨?_, ents_nodup dgl rest c⟩
    intro hm
    obtain ⟨⟨k', l'⟩, hm', hk'⟩ := List.mem_map.1 hm
    simp only at hk'; subst hk'
    obtain ⟨i, r, e, hl⟩ := mem_lookup dgl rest c hm'
    have : i = j := by simpa [e] using a
    subst this
    rw [lookup_le rest i i r b (Nat.le_refl _)] at hl
    simp at hl
  | dgl, sub j _ c' rest, ⟨a, wc, b, wr⟩ => by
    simp only [ents, List.map_append]
    refine List.nodup_append.2 ⟨ents_nodup _ c' wc, ents_nodup dgl rest wr, ?_⟩
    intro x hx y hy hxy
    subst hxy
    obtain ⟨⟨k1, l1⟩, hm1, e1⟩ := List.mem_map.1 hx
    simp only at e1; subst e1
    obtain ⟨⟨k2, l2⟩, hm2, e2⟩ := List.mem_map.1 hy
    simp only at e2; subst e2
    have hh := mem_ents_keys c' hm1 a
    obtain ⟨i, r, e, hl⟩ := mem_lookup dgl rest wr hm2
    have : i = j := by simpa [e] using hh
    subst this
    rw [lookup_le rest i i r b (Nat.le_refl _)] at hl
    simp at hl


end Trie
end C15
