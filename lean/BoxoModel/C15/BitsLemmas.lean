import BoxoModel.C15.Bits
/-!
C15 — `hashBits.next` reads big-endian bit windows: `nextBits b _ consumed i` is the value of bits
`[consumed, consumed+i)` of the hash seen as one big-endian bit string, and `hashDigits b lg2` is that
bit string cut into consecutive `lg2`-bit groups (as many as fit).  Core-only.
-/
namespace C15

/-- the 8 bits of a byte, most significant first -/
def byteBits (x : Byte) : List Bool := (List.range 8).map fun j => x.getMsbD j
/-- a byte string as one big-endian bit string -/
def bitsBE (b : List Byte) : List Bool := b.flatMap byteBits
/-- value of a big-endian bit list -/
def ofBits (l : List Bool) : Nat := l.foldl (fun a c => 2 * a + c.toNat) 0

/-- per-byte fact (256 bytes × 8 offsets × 9 widths, checked by the kernel): the two non-recursive
branches of `nextBits` read `i` bits at offset `o` of the byte, most significant first -/
theorem byte_eq_fin : ∀ (n : Fin 256) (o : Fin 8) (i : Fin 9), i.val ≤ 8 - o.val →
    (if i.val = 8 - o.val then (mask i.val &&& BitVec.ofFin n).toNat
     else (((BitVec.ofFin n &&& mask (8 - o.val)) &&& ~~~ mask (8 - o.val - i.val)) >>> (8 - o.val - i.val)).toNat)
      = ofBits (((byteBits (BitVec.ofFin n)).drop o.val).take i.val) := by
  decide +kernel

theorem byte_eq (x : Byte) (o i : Nat) (ho : o < 8) (hi : i ≤ 8 - o) :
    (if i = 8 - o then (mask i &&& x).toNat
     else (((x &&& mask (8 - o)) &&& ~~~ mask (8 - o - i)) >>> (8 - o - i)).toNat)
      = ofBits (((byteBits x).drop o).take i) :=
  byte_eq_fin x.toFin ⟨o, ho⟩ ⟨i, by omega⟩ hi

@[simp] theorem byteBits_length (x : Byte) : (byteBits x).length = 8 := by simp [byteBits]

@[simp] theorem bitsBE_nil : bitsBE [] = [] := rfl
@[simp] theorem bitsBE_cons (x : Byte) (xs : List Byte) : bitsBE (x :: xs) = byteBits x ++ bitsBE xs := by
  simp [bitsBE]

theorem bitsBE_length (b : List Byte) : (bitsBE b).length = 8 * b.length := by
  induction b with
  | nil => rfl
  | cons x xs ih => simp [ih]; omega

theorem bitsBE_drop (b : List Byte) (q : Nat) : (bitsBE b).drop (8 * q) = bitsBE (b.drop q) := by
  induction q generalizing b with
  | zero => simp
  | succ q ih =>
    cases b with
    | nil => simp
    | cons x xs =>
      rw [bitsBE_cons, List.drop_append, List.drop_eq_nil_of_le (by simp; omega)]
      have : 8 * (q + 1) - (byteBits x).length = 8 * q := by simp; omega
      rw [this]
      simpa using ih xs

theorem ofBits_foldl (l : List Bool) (a : Nat) :
    l.foldl (fun a c => 2 * a + c.toNat) a = a * 2 ^ l.length + ofBits l := by
  induction l generalizing a with
  | nil => simp [ofBits]
  | cons c cs ih =>
    simp only [List.foldl_cons, ofBits, List.length_cons]
    rw [ih, ih (2 * 0 + c.toNat)]
    simp only [Nat.pow_succ, Nat.add_mul, Nat.mul_zero, Nat.zero_add]
    rw [← Nat.mul_assoc a, Nat.mul_assoc 2 a]
    omega

theorem ofBits_append (l1 l2 : List Bool) :
    ofBits (l1 ++ l2) = ofBits l1 * 2 ^ l2.length + ofBits l2 := by
  simp only [ofBits, List.foldl_append]
  exact ofBits_foldl l2 _

theorem ofBits_lt (l : List Bool) : ofBits l < 2 ^ l.length := by
  induction l with
  | nil => simp [ofBits]
  | cons c cs ih =>
    have h := ofBits_append [c] cs
    have : ofBits [c] ≤ 1 := by cases c <;> simp [ofBits]
    simp only [List.singleton_append] at h
    rw [h, List.length_cons, Nat.pow_succ]
    have : ofBits [c] * 2 ^ cs.length ≤ 1 * 2 ^ cs.length := Nat.mul_le_mul_right _ this
    omega

/-- the bits from position `8*q+o` on, for a byte index `q` inside the slice -/
theorem bitsBE_drop_split (b : List Byte) (q o : Nat) (hq : q < b.length) (ho : o ≤ 8) :
    (bitsBE b).drop (8 * q + o) = (byteBits (b.getD q 0)).drop o ++ bitsBE (b.drop (q + 1)) := by
  have hg : b.getD q 0 = b[q] := by simp [List.getD_eq_getElem?_getD, hq]
  rw [← List.drop_drop, bitsBE_drop, List.drop_eq_getElem_cons hq, bitsBE_cons,
    List.drop_append, hg]
  have : o - (byteBits b[q]).length = 0 := by simp; omega
  rw [this, List.drop_zero]

/-- `nextBits` with any sufficient fuel (`i < fuel`) reads the window `[consumed, consumed+i)` -/
theorem nextBits_eq_window_fuel (b : List Byte) : ∀ (fuel consumed i : Nat), i < fuel →
    consumed + i ≤ b.length * 8 →
    nextBits b fuel consumed i = ofBits (((bitsBE b).drop consumed).take i) := by
  intro fuel
  induction fuel with
  | zero => intro _ _ h; omega
  | succ fuel ih =>
    intro consumed i hf h
    have ho : consumed % 8 < 8 := Nat.mod_lt _ (by omega)
    have hc : consumed = 8 * (consumed / 8) + consumed % 8 := (Nat.div_add_mod consumed 8).symm
    generalize hq : consumed / 8 = q at hc
    generalize hoo : consumed % 8 = o at hc ho
    unfold nextBits
    simp only [hq, hoo]
    by_cases hle : i ≤ 8 - o
    · -- the read stays inside the current byte
      have hb := byte_eq (b.getD q 0) o i ho hle
      have hwin : ((bitsBE b).drop consumed).take i = ((byteBits (b.getD q 0)).drop o).take i := by
        by_cases hql : q < b.length
        · rw [hc, bitsBE_drop_split b q o hql (by omega), List.take_append_of_le_length (by simp; omega)]
        · have hi0 : i = 0 := by omega
          subst hi0
          simp
      rw [hwin, ← hb]
      by_cases he : i = 8 - o
      · simp [he]
      · have hlt : i < 8 - o := by omega
        simp [he, hlt]
    · -- the read continues in the following bytes
      have hql : q < b.length := by omega
      have hne : ¬ i = 8 - o := by omega
      have hnl : ¬ i < 8 - o := by omega
      simp only [hne, hnl, if_false]
      have hb := byte_eq (b.getD q 0) o (8 - o) ho (Nat.le_refl _)
      simp only [if_true] at hb
      rw [hb, ih (consumed + (8 - o)) (i - (8 - o)) (by omega) (by omega)]
      have h1 : consumed + (8 - o) = 8 * (q + 1) := by omega
      rw [h1, bitsBE_drop, hc, bitsBE_drop_split b q o hql (by omega)]
      rw [List.take_append, ofBits_append, Nat.shiftLeft_eq]
      have hlen : ((byteBits (b.getD q 0)).drop o).length = 8 - o := by simp
      have hl2 : (bitsBE (List.drop (q + 1) b)).length = 8 * (b.length - (q + 1)) := by
        rw [bitsBE_length]; simp
      have e1 : ((byteBits (b.getD q 0)).drop o).take (8 - o) = (byteBits (b.getD q 0)).drop o :=
        List.take_of_length_le (by omega)
      have e2 : ((byteBits (b.getD q 0)).drop o).take i = (byteBits (b.getD q 0)).drop o :=
        List.take_of_length_le (by omega)
      have e3 : ((bitsBE (List.drop (q + 1) b)).take (i - (8 - o))).length = i - (8 - o) := by
        rw [List.length_take, hl2]; omega
      rw [e1, e2, hlen, e3]

/-- `hashBits.next`: the value read is the window [consumed, consumed+i) of the big-endian bit string -/
theorem nextBits_eq_window (b : List Byte) (consumed i : Nat) (h : consumed + i ≤ b.length * 8) :
    nextBits b (i + 1) consumed i = ofBits (((bitsBE b).drop consumed).take i) :=
  nextBits_eq_window_fuel b (i + 1) consumed i (Nat.lt_succ_self i) h

/-- the window of `lg2` bits starting at bit `c` -/
def window (b : List Byte) (c lg2 : Nat) : Nat := ofBits (((bitsBE b).drop c).take lg2)

theorem next_eq (b : List Byte) (c i : Nat) :
    next b c i = if c + i ≤ b.length * 8 then some (window b c i) else none := by
  unfold next window
  by_cases h : c + i ≤ b.length * 8
  · have : ¬ c + i > b.length * 8 := by omega
    simp only [this, h, if_true, if_false]
    rw [nextBits_eq_window b c i h]
  · have : c + i > b.length * 8 := by omega
    simp only [this, h, if_true, if_false]

theorem digitsFrom_eq (b : List Byte) (lg2 : Nat) (hl : 0 < lg2) : ∀ (fuel c : Nat),
    (b.length * 8 - c) / lg2 ≤ fuel →
    digitsFrom b lg2 fuel c
      = (List.range ((b.length * 8 - c) / lg2)).map fun k => window b (c + k * lg2) lg2 := by
  intro fuel
  induction fuel with
  | zero =>
    intro c h
    have : (b.length * 8 - c) / lg2 = 0 := Nat.eq_zero_of_le_zero h
    simp [this, digitsFrom]
  | succ fuel ih =>
    intro c h
    unfold digitsFrom
    rw [next_eq]
    by_cases hc : c + lg2 ≤ b.length * 8
    · have hdiv : (b.length * 8 - c) / lg2 = (b.length * 8 - (c + lg2)) / lg2 + 1 := by
        have : b.length * 8 - c = (b.length * 8 - (c + lg2)) + lg2 := by omega
        rw [this, Nat.add_div_right _ hl]
      simp only [hc, if_true]
      rw [ih (c + lg2) (by omega), hdiv, List.range_succ_eq_map, List.map_cons, List.map_map]
      simp only [Nat.zero_mul, Nat.add_zero]
      congr 1
      apply List.map_congr_left
      intro k _
      simp only [Function.comp, Nat.succ_eq_add_one, Nat.add_mul, Nat.one_mul]
      congr 1
      omega
    · have : (b.length * 8 - c) / lg2 = 0 := Nat.div_eq_of_lt (by omega)
      simp [hc, this]

/-- the digit sequence is the bit string split into consecutive `lg2`-bit groups (as many as fit) -/
theorem hashDigits_eq_groups (b : List Byte) (lg2 : Nat) (hl : 0 < lg2) :
    hashDigits b lg2 = (List.range (b.length * 8 / lg2)).map fun g => ofBits (((bitsBE b).drop (g * lg2)).take lg2) := by
  unfold hashDigits
  rw [digitsFrom_eq b lg2 hl (b.length * 8) 0 (Nat.div_le_self _ _)]
  simp [window]

theorem hashDigits_length (b : List Byte) (lg2 : Nat) (hl : 0 < lg2) : (hashDigits b lg2).length = b.length * 8 / lg2 := by
  simp [hashDigits_eq_groups b lg2 hl]

/-- every digit is below 2^lg2 -/
theorem hashDigits_lt (b : List Byte) (lg2 : Nat) (hl : 0 < lg2) : ∀ d ∈ hashDigits b lg2, d < 2 ^ lg2 := by
  intro d hd
  rw [hashDigits_eq_groups b lg2 hl] at hd
  obtain ⟨g, _, rfl⟩ := List.mem_map.mp hd
  refine Nat.lt_of_lt_of_le (ofBits_lt _) (Nat.pow_le_pow_right (by omega) ?_)
  rw [List.length_take]
  exact Nat.min_le_left _ _

-- non-vacuity: 0xABCD = 1010 1011 1100 1101; widths 3, 5 and 11 straddle byte boundaries
example : hashDigits [0xAB#8, 0xCD#8] 4 = [10, 11, 12, 13] := by decide
example : hashDigits [0xAB#8, 0xCD#8] 3 = [5, 2, 7, 4, 6] := by decide
example : hashDigits [0xAB#8, 0xCD#8] 5 = [21, 15, 6] := by decide
example : hashDigits [0xAB#8, 0xCD#8, 0xEF#8] 11 = [0x55E, 0x37B] := by decide

end C15
