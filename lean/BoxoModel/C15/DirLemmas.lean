import BoxoModel.C15.Lemmas
/-!
C15 — directory-level lemmas: the HAMT directory and the basic directory of the model against the
map they denote; generic lifting of a one-step specification to operation sequences.
-/
namespace C15

/-- the specification: a finite map from names to links, as a function -/
abbrev Map := Name → Option Lnk
def upd (m : Map) (k : Name) (v : Option Lnk) : Map := fun x => if x = k then v else m x

/-- what is assumed of the digit function (murmur3 + bit extraction): every name has the same
(non-zero) number of digits, and no two names OF THE UNIVERSE `U` (the names the directory and the
operations ever use — a finite set in any run, so the assumption is satisfiable for a 64-bit hash)
agree on all of them (no full-hash collision) -/
structure DigitsOK (U : Name → Prop) (dg : Name → List Nat) : Prop where
  len : ∀ a b, (dg a).length = (dg b).length
  ne : ∀ a, dg a ≠ []
  inj : ∀ a b, U a → U b → dg a = dg b → a = b

namespace Trie
theorem AllKeys.of_forall {P : Name → Prop} (h : ∀ k, P k) : ∀ t : Trie, AllKeys P t
  | nil => trivial
  | val _ _ _ _ _ rest => ⟨h _, AllKeys.of_forall h rest⟩
  | sub _ _ c rest => ⟨AllKeys.of_forall h c, AllKeys.of_forall h rest⟩
end Trie

namespace Hamt
variable (h : Name → List Byte)

/-- the map a HAMT directory denotes -/
def abs (hd : Hamt) : Map := Trie.get (hd.dg h) hd.shard
def Inv (hd : Hamt) : Prop := Trie.WF (hd.dg h) hd.shard ∧ Trie.Canon hd.shard

theorem swapTop_spec (U : Name → Prop) (hd : Hamt) (key : Name) (v : Option Lnk) (hi : hd.Inv h)
    (hu : U key) (hk : Trie.AllKeys U hd.shard) (ok : DigitsOK U (hd.dg h)) :
    Trie.WF (hd.dg h) (hd.swapTop h key v).1 ∧ Trie.Canon (hd.swapTop h key v).1 ∧
    Trie.AllKeys U (hd.swapTop h key v).1 ∧
    match (hd.swapTop h key v).2 with
    | .ok old => Trie.get (hd.dg h) (hd.swapTop h key v).1 = upd (hd.abs h) key v ∧
        old.map (·.lnk) = hd.abs h key ∧ (v = none → old.isSome)
    | .notfound => v = none ∧ hd.abs h key = none ∧ Trie.get (hd.dg h) (hd.swapTop h key v).1 = hd.abs h
    | .toodeep => False := by
  unfold swapTop
  cases hdg : hd.dg h key with
  | nil => exact absurd hdg (ok.ne key)
  | cons i r =>
    simp only
    have ku := Trie.swap_keys key v (hd.dg h) hd.shard i r hu hk
    have wf := Trie.swap_wf key v (hd.dg h) hd.shard i r hi.1 hdg
    have cn := Trie.swap_canon key v (hd.dg h) hd.shard i r hi.2
    have rs := Trie.swap_res key v (hd.dg h) hd.shard i r hi.1 hdg
    have ntd := Trie.swap_not_toodeep key v (hd.dg h) hd.shard i r hi.1 hi.2 hdg ok.len
      (Trie.AllKeys.imp (fun k hku hne he => hne (ok.inj _ _ hku hu he)) _ hk)
    have hne : ∀ k', k' ≠ key → Trie.get (hd.dg h) (Trie.swap (hd.dg h) key v hd.shard i r).1 k' = hd.abs h k' := by
      intro k' hk'
      unfold abs Trie.get
      cases hd' : hd.dg h k' with
      | nil => rfl
      | cons i2 r2 => exact Trie.swap_lookup_ne key v (hd.dg h) hd.shard i r hi.1 hdg k' hk' i2 r2 hd'
    have hkey : ∀ t : Trie, Trie.get (hd.dg h) t key = Trie.lookup key t i r := by
      intro t; simp [Trie.get, hdg]
    refine ⟨wf, cn, ku, ?_⟩
    cases hres : (Trie.swap (hd.dg h) key v hd.shard i r).2 with
    | ok old =>
      rw [hres] at rs
      refine ⟨?_, by rw [abs, hkey]; exact rs.2.1, rs.2.2⟩
      funext k'
      by_cases hk' : k' = key
      · subst hk'; rw [hkey]; simp [upd, rs.1]
      · rw [hne k' hk']; simp [upd, hk']
    | notfound =>
      rw [hres] at rs
      refine ⟨rs.1, by rw [abs, hkey]; exact rs.2.1, ?_⟩
      funext k'
      by_cases hk' : k' = key
      · subst hk'; rw [hkey, rs.2.2, abs, hkey, rs.2.1]
      · exact hne k' hk'
    | toodeep => exact ntd hres

end Hamt
end C15

namespace C15

/-! ### operations, runs, and the map specification -/

inductive DOp where
  | add (n : Name) (l : Lnk)
  | rm (n : Name)
  | find (n : Name)
  | list            -- Links() / EnumLinksAsync
  | each            -- ForEachLink (mutates a HAMT: loads and strips)
deriving Repr

inductive DOut where
  | res (r : OpRes)
  | found (c : Option (Option String))
  | listing (es : List (Name × Lnk))
deriving Repr

/-- one operation of the executable model (the functions the line-protocol driver runs) -/
def dstep (h : Name → List Byte) (g : Globals) (st : State) : DOp → State × DOut
  | .add n l => ((addChild h g st n l).1, .res (addChild h g st n l).2)
  | .rm n => ((removeChild h g st n).1, .res (removeChild h g st n).2)
  | .find n => ((findChild h st n).1, .found (findChild h st n).2)
  | .list => (st, .listing (dirEntries st))
  | .each => (eachChild st, .listing (dirEntries st))

def drun (h : Name → List Byte) (g : Globals) : State → List DOp → State × List DOut
  | st, [] => (st, [])
  | st, op :: ops => ((drun h g (dstep h g st op).1 ops).1, (dstep h g st op).2 :: (drun h g (dstep h g st op).1 ops).2)

/-- The map semantics of one operation: pre-map, operation, answer, post-map.  `bounded` allows a
directory with a link limit to refuse a NEW name (`maxlinks`), leaving the map unchanged. -/
def SpecStep (bounded : Bool) (m : Map) : DOp → DOut → Map → Prop
  | .add n l, out, m' =>
    (out = .res .ok ∧ m' = upd m n (some l)) ∨ (bounded = true ∧ m n = none ∧ out = .res .maxlinks ∧ m' = m)
  | .rm n, out, m' =>
    (m n = none ∧ out = .res .notfound ∧ m' = m) ∨ (m n ≠ none ∧ out = .res .ok ∧ m' = upd m n none)
  | .find n, out, m' => out = .found (some ((m n).map (·.cid))) ∧ m' = m
  | .list, out, m' => ∃ es, out = .listing es ∧ (es.map (·.1)).Nodup ∧ (∀ k l, (k, l) ∈ es ↔ m k = some l) ∧ m' = m
  | .each, out, m' => ∃ es, out = .listing es ∧ (es.map (·.1)).Nodup ∧ (∀ k l, (k, l) ∈ es ↔ m k = some l) ∧ m' = m

/-- the names an operation mentions belong to the universe -/
def OpIn (U : Name → Prop) : DOp → Prop
  | .add n _ => U n
  | .rm n => U n
  | .find n => U n
  | _ => True

inductive SpecRun (bounded : Bool) : Map → List DOp → List DOut → Map → Prop where
  | nil (m : Map) : SpecRun bounded m [] [] m
  | cons {m m' m'' : Map} {op : DOp} {out : DOut} {ops : List DOp} {outs : List DOut} :
      SpecStep bounded m op out m' → SpecRun bounded m' ops outs m'' → SpecRun bounded m (op :: ops) (out :: outs) m''

/-- a one-step simulation under an invariant lifts to every operation sequence (over the universe `U`) -/
theorem run_refines (h : Name → List Byte) (g : Globals) (U : Name → Prop) (I : State → Prop) (absf : State → Map) (bounded : Bool)
    (hstep : ∀ st op, I st → OpIn U op →
      I (dstep h g st op).1 ∧ SpecStep bounded (absf st) op (dstep h g st op).2 (absf (dstep h g st op).1)) :
    ∀ (ops : List DOp) (st : State), I st → (∀ op ∈ ops, OpIn U op) →
      I (drun h g st ops).1 ∧ SpecRun bounded (absf st) ops (drun h g st ops).2 (absf (drun h g st ops).1)
  | [], st, hi, _ => ⟨hi, SpecRun.nil _⟩
  | op :: ops, st, hi, hu => by
    obtain ⟨hi', hs⟩ := hstep st op hi (hu op (by simp))
    obtain ⟨hi'', hr⟩ := run_refines h g U I absf bounded hstep ops _ hi' (fun o ho => hu o (by simp [ho]))
    exact ⟨hi'', SpecRun.cons hs hr⟩

/-! ### the HAMT directory used directly -/

namespace Trie
theorem get_congr {t1 t2 : Trie} (hd : toDag t1 = toDag t2) (dgl : Name → List Nat) : get dgl t1 = get dgl t2 := by
  funext k; unfold get; split
  · rfl
  · exact lookup_congr hd _ _ _

theorem allKeys_congr {P : Name → Prop} {t1 t2 : Trie} (hd : toDag t1 = toDag t2) : AllKeys P t1 ↔ AllKeys P t2 := by
  rw [← allKeys_norm t1, ← allKeys_norm t2, norm, norm, hd]
end Trie

/-- a pure HAMT directory state of shard width `w` whose names all belong to `U` -/
def IsHamt (h : Name → List Byte) (U : Name → Prop) (w : Nat) (st : State) : Prop :=
  st.dyn = false ∧ ∃ hd, st.dir = .hamt hd ∧ hd.width = w ∧ hd.Inv h ∧ Trie.AllKeys U hd.shard

def absState (h : Name → List Byte) (st : State) : Map :=
  match st.dir with
  | .basic b => fun k => b.getLink k
  | .hamt hd => hd.abs h

theorem hamt_step (h : Name → List Byte) (g : Globals) (U : Name → Prop) (w : Nat)
    (ok : DigitsOK U (fun n => hashDigits (h n) (lg2 w))) (st : State) (op : DOp) (hi : IsHamt h U w st) (hop : OpIn U op) :
    IsHamt h U w (dstep h g st op).1 ∧ SpecStep false (absState h st) op (dstep h g st op).2 (absState h (dstep h g st op).1) := by
  obtain ⟨hdyn, hd, hdir, hw, hinv, hku⟩ := hi
  have hdg : hd.dg h = fun n => hashDigits (h n) (lg2 w) := by unfold Hamt.dg; rw [hw]
  have ok' : DigitsOK U (hd.dg h) := by rw [hdg]; exact ok
  obtain ⟨dyn, dir⟩ := st
  simp only at hdyn hdir
  subst hdyn; subst hdir
  cases op with
  | add n l =>
    have sp := Hamt.swapTop_spec h U hd n (some l) hinv hop hku ok'
    simp only [dstep, addChild, Hamt.addChild, absState]
    cases hx : hd.swapTop h n (some l) with
    | mk t res =>
      rw [hx] at sp
      cases res with
      | ok old =>
        simp only at sp ⊢
        refine ⟨⟨rfl, _, rfl, hw, ?_, sp.2.2.1⟩, Or.inl ⟨rfl, ?_⟩⟩
        · exact ⟨sp.1, sp.2.1⟩
        · exact sp.2.2.2.1
      | notfound => simp at sp
      | toodeep => simp at sp
  | rm n =>
    have sp := Hamt.swapTop_spec h U hd n none hinv hop hku ok'
    simp only [dstep, removeChild, Hamt.removeChild, absState]
    cases hx : hd.swapTop h n none with
    | mk t res =>
      rw [hx] at sp
      cases res with
      | ok old =>
        simp only at sp ⊢
        cases old with
        | none => simp at sp
        | some o =>
          simp only
          refine ⟨⟨rfl, _, rfl, hw, ?_, sp.2.2.1⟩, Or.inr ⟨?_, rfl, ?_⟩⟩
          · exact ⟨sp.1, sp.2.1⟩
          · have := sp.2.2.2.2.1; simp at this; rw [← this]; simp
          · exact sp.2.2.2.1
      | notfound =>
        simp only at sp ⊢
        refine ⟨⟨rfl, _, rfl, hw, ?_, sp.2.2.1⟩, Or.inl ⟨sp.2.2.2.2.1, rfl, ?_⟩⟩
        · exact ⟨sp.1, sp.2.1⟩
        · exact sp.2.2.2.2.2
      | toodeep => simp at sp
  | find n =>
    simp only [dstep, findChild, Hamt.findTop, absState]
    cases hdn : hd.dg h n with
    | nil => exact absurd hdn (ok'.ne n)
    | cons i r =>
      simp only
      have hl := Trie.find_lookup n hd.shard i r
      have hdag := Trie.toDag_find n hd.shard i r
      have hnt := Trie.find_not_toodeep n (hd.dg h) hd.shard i r hinv.1 hinv.2 hdn ok'.len
      have habs : hd.abs h n = Trie.lookup n hd.shard i r := by simp [Hamt.abs, Trie.get, hdn]
      cases hx : Trie.find n hd.shard i r with
      | mk t fr =>
        rw [hx] at hl hdag hnt
        simp only at hl hdag hnt
        have hinv' : Hamt.Inv h { hd with shard := t } :=
          ⟨(Trie.wf_congr hdag _).2 hinv.1, (Trie.canon_congr hdag).2 hinv.2⟩
        have hku' : Trie.AllKeys U t := (Trie.allKeys_congr hdag).2 hku
        have habs' : Hamt.abs h { hd with shard := t } = hd.abs h := by
          simp only [Hamt.abs, Hamt.dg]; exact Trie.get_congr hdag _
        cases fr with
        | found s =>
          simp only [Trie.FindRes.lnk] at hl
          exact ⟨⟨rfl, _, rfl, hw, hinv', hku'⟩, by rw [habs, ← hl]; rfl, habs'⟩
        | notfound =>
          simp only [Trie.FindRes.lnk] at hl
          exact ⟨⟨rfl, _, rfl, hw, hinv', hku'⟩, by rw [habs, ← hl]; rfl, habs'⟩
        | toodeep => exact absurd rfl hnt
  | list =>
    simp only [dstep, dirEntries, absState]
    exact ⟨⟨rfl, hd, rfl, hw, hinv, hku⟩, _, rfl, Trie.ents_nodup _ _ hinv.1, fun k l => Trie.mem_ents_iff _ _ hinv.1 k l, rfl⟩
  | each =>
    simp only [dstep, dirEntries, eachChild, absState]
    have hdag := Trie.toDag_stripAll hd.shard
    refine ⟨⟨rfl, _, rfl, hw, ⟨(Trie.wf_congr hdag _).2 hinv.1, (Trie.canon_congr hdag).2 hinv.2⟩, (Trie.allKeys_congr hdag).2 hku⟩,
      _, rfl, Trie.ents_nodup _ _ hinv.1, fun k l => Trie.mem_ents_iff _ _ hinv.1 k l, ?_⟩
    simp only [Hamt.abs, Hamt.dg]; exact Trie.get_congr hdag _

end C15

namespace C15

/-! ### the basic directory used directly -/

theorem find_filter_append (links : List (Name × Lnk)) (n k : Name) (l : Lnk) :
    ((links.filter (·.1 ≠ n) ++ [(n, l)]).find? (·.1 = k)).map (·.2) =
      if k = n then some l else (links.find? (·.1 = k)).map (·.2) := by
  induction links with
  | nil =>
    by_cases h : k = n
    · simp [h]
    · have : ¬ n = k := fun h' => h h'.symm
      simp [h, this]
  | cons x xs ih =>
    by_cases hx : x.1 = n
    · simp only [List.filter_cons, hx, ne_eq, not_true_eq_false, decide_false, Bool.false_eq_true, if_false]
      rw [ih]
      by_cases hk : k = n
      · simp [hk]
      · have : ¬ x.1 = k := by rw [hx]; exact fun h' => hk h'.symm
        simp [hk, List.find?_cons, this]
    · simp only [List.filter_cons, hx, ne_eq, not_false_eq_true, decide_true, if_true, List.cons_append, List.find?_cons]
      by_cases hxk : x.1 = k
      · have : ¬ k = n := by rw [← hxk]; exact hx
        simp [hxk, this]
      · simp only [hxk, decide_false]
        exact ih

theorem find_filter (links : List (Name × Lnk)) (n k : Name) :
    ((links.filter (·.1 ≠ n)).find? (·.1 = k)).map (·.2) =
      if k = n then none else (links.find? (·.1 = k)).map (·.2) := by
  induction links with
  | nil => simp
  | cons x xs ih =>
    by_cases hx : x.1 = n
    · simp only [List.filter_cons, hx, ne_eq, not_true_eq_false, decide_false, Bool.false_eq_true, if_false]
      rw [ih]
      by_cases hk : k = n
      · simp [hk]
      · have : ¬ x.1 = k := by rw [hx]; exact fun h' => hk h'.symm
        simp [hk, List.find?_cons, this]
    · simp only [List.filter_cons, hx, ne_eq, not_false_eq_true, decide_true, if_true, List.find?_cons]
      by_cases hxk : x.1 = k
      · have : ¬ k = n := by rw [← hxk]; exact hx
        simp [hxk, this]
      · simp only [hxk, decide_false]
        exact ih

theorem mem_iff_find (links : List (Name × Lnk)) (hn : (links.map (·.1)).Nodup) (k : Name) (l : Lnk) :
    (k, l) ∈ links ↔ (links.find? (·.1 = k)).map (·.2) = some l := by
  induction links with
  | nil => simp
  | cons x xs ih =>
    simp only [List.map_cons, List.nodup_cons] at hn
    by_cases hxk : x.1 = k
    · simp only [List.mem_cons, List.find?_cons, hxk, decide_true, Option.map_some, Option.some.injEq]
      constructor
      · rintro (h | h)
        · rw [← h]
        · exact absurd (List.mem_map.2 ⟨(k, l), h, rfl⟩) (hxk ▸ hn.1)
      · intro h; left; rw [← h, ← hxk]
    · simp only [List.mem_cons, List.find?_cons, hxk, decide_false]
      rw [← ih hn.2]
      constructor
      · rintro (h | h)
        · rw [← h] at hxk; exact absurd rfl hxk
        · exact h
      · exact Or.inr

theorem nodup_filter_append (links : List (Name × Lnk)) (hn : (links.map (·.1)).Nodup) (n : Name) (l : Lnk) :
    ((links.filter (·.1 ≠ n) ++ [(n, l)]).map (·.1)).Nodup := by
  rw [List.map_append, List.nodup_append]
  refine ⟨(List.filter_sublist.map _).nodup hn, by simp, ?_⟩
  intro a ha b hb hab
  simp at hb; subst hb; subst hab
  obtain ⟨x, hx, hxa⟩ := List.mem_map.1 ha
  have := (List.mem_filter.1 hx).2
  simp at this
  exact this hxa

/-- a basic directory used directly, link limit `ml` -/
def IsBasic (ml : Int) (st : State) : Prop :=
  st.dyn = false ∧ ∃ b, st.dir = .basic b ∧ b.s.maxLinks = ml ∧ (b.links.map (·.1)).Nodup

theorem basic_remove_spec (g : Globals) (b : Basic) (n : Name) (hn : (b.links.map (·.1)).Nodup) :
    match b.remove g n with
    | none => b.getLink n = none
    | some b' => b.getLink n ≠ none ∧ (fun k => b'.getLink k) = upd (fun k => b.getLink k) n none ∧
        (b'.links.map (·.1)).Nodup ∧ b'.s = b.s ∧ b'.links = b.links.filter (·.1 ≠ n) := by
  unfold Basic.remove
  cases hg : b.getLink n with
  | none => simp
  | some l =>
    simp only
    refine ⟨by simp, ?_, (List.filter_sublist.map _).nodup hn, by first | rfl | trivial, by first | rfl | trivial⟩
    funext k
    simp only [Basic.getLink, upd]
    rw [find_filter]

theorem filter_absent (links : List (Name × Lnk)) (hn : (links.map (·.1)).Nodup) (n : Name)
    (ha : (links.find? (·.1 = n)).map (·.2) = none) : links.filter (·.1 ≠ n) = links := by
  apply List.filter_eq_self.2
  intro x hx
  simp only [ne_eq, decide_eq_true_eq]
  intro hxn
  have : (x.1, x.2) ∈ links := hx
  rw [mem_iff_find links hn, hxn, ha] at this
  simp at this

theorem basic_addLink_spec (g : Globals) (b : Basic) (n : Name) (l : Lnk) (hn : (b.links.map (·.1)).Nodup) :
    match Basic.addLink g b n l with
    | .ok b' => (fun k => b'.getLink k) = upd (fun k => b.getLink k) n (some l) ∧
        (b'.links.map (·.1)).Nodup ∧ b'.s = b.s ∧ b'.links = b.links.filter (·.1 ≠ n) ++ [(n, l)]
    | .maxlinks => b.getLink n = none ∧ b.s.maxLinks > 0 := by
  unfold Basic.addLink
  have hr := basic_remove_spec g b n hn
  cases hrm : b.remove g n with
  | some b' =>
    rw [hrm] at hr
    simp only at hr ⊢
    obtain ⟨_, habs, hn', hs, hl⟩ := hr
    refine ⟨?_, ?_, hs, by rw [hl]⟩
    · funext k
      simp only [Basic.getLink, upd, hl]
      rw [find_filter_append]
    · simp only [hl]; exact nodup_filter_append b.links hn n l
  | none =>
    rw [hrm] at hr
    simp only at hr ⊢
    by_cases hfull : b.s.maxLinks > 0 ∧ b.total + 1 > b.s.maxLinks
    · simp only [hfull, and_self, if_true]
      exact ⟨hr, by first | exact hfull.1 | trivial⟩
    · simp only [hfull, if_false]
      have hf := filter_absent b.links hn n hr
      refine ⟨?_, ?_, by first | rfl | trivial, by rw [hf]⟩
      · funext k
        have := find_filter_append b.links n k l
        rw [hf] at this
        simp only [Basic.getLink, upd]
        exact this
      · have := nodup_filter_append b.links hn n l
        rwa [hf] at this

theorem addChild_direct_basic (h : Name → List Byte) (g : Globals) (b : Basic) (n : Name) (l : Lnk) :
    addChild h g { dyn := false, dir := .basic b } n l =
      match Basic.addLink g b n l with
      | .ok b' => ({ dyn := false, dir := .basic b' }, .ok)
      | .maxlinks => ({ dyn := false, dir := .basic b }, .maxlinks) := by
  simp only [addChild, Bool.not_false, if_true]
  cases Basic.addLink g b n l <;> rfl

theorem basic_step (h : Name → List Byte) (g : Globals) (ml : Int) (st : State) (op : DOp) (hi : IsBasic ml st) :
    IsBasic ml (dstep h g st op).1 ∧
      SpecStep (decide (ml > 0)) (absState h st) op (dstep h g st op).2 (absState h (dstep h g st op).1) := by
  obtain ⟨hdyn, b, hdir, hml, hn⟩ := hi
  obtain ⟨dyn, dir⟩ := st
  simp only at hdyn hdir
  subst hdyn; subst hdir
  cases op with
  | add n l =>
    simp only [dstep]
    rw [addChild_direct_basic]
    have sp := basic_addLink_spec g b n l hn
    cases hx : Basic.addLink g b n l with
    | ok b' =>
      rw [hx] at sp
      simp only at sp ⊢
      exact ⟨⟨rfl, _, rfl, by rw [sp.2.2.1, hml], sp.2.1⟩, Or.inl ⟨rfl, sp.1⟩⟩
    | maxlinks =>
      rw [hx] at sp
      simp only at sp ⊢
      exact ⟨⟨rfl, _, rfl, hml, hn⟩, Or.inr ⟨by simp [← hml, sp.2], sp.1, rfl, rfl⟩⟩
  | rm n =>
    simp only [dstep, removeChild, absState]
    have hr := basic_remove_spec g b n hn
    cases hrm : b.remove g n with
    | some b' =>
      rw [hrm] at hr
      simp only at hr ⊢
      obtain ⟨hne, habs, hn', hs, hl⟩ := hr
      exact ⟨⟨rfl, _, rfl, by simp [hs, hml], hn'⟩, Or.inr ⟨hne, rfl, habs⟩⟩
    | none =>
      rw [hrm] at hr
      simp only at hr ⊢
      exact ⟨⟨rfl, _, rfl, hml, hn⟩, Or.inl ⟨hr, rfl, rfl⟩⟩
  | find n =>
    simp only [dstep, findChild, absState]
    exact ⟨⟨rfl, _, rfl, hml, hn⟩, rfl, rfl⟩
  | list =>
    simp only [dstep, dirEntries, absState]
    exact ⟨⟨rfl, _, rfl, hml, hn⟩, _, rfl, hn, fun k l => mem_iff_find b.links hn k l, rfl⟩
  | each =>
    simp only [dstep, dirEntries, eachChild, absState]
    exact ⟨⟨rfl, _, rfl, hml, hn⟩, _, rfl, hn, fun k l => mem_iff_find b.links hn k l, rfl⟩

end C15
