import BoxoModel.C15.Bits
/-!
C15 / C16 — executable model of the UnixFS directory implementations

  /repo/ipld/unixfs/hamt/hamt.go      Shard: swapValue / getValue / walkTrie / Node / childer
  /repo/ipld/unixfs/io/directory.go   BasicDirectory, HAMTDirectory, DynamicDirectory

transcribed branch for branch, quirks included.

* A shard's `childer` (bitfield + parallel `links` / `children` slices) is the list of its occupied
  slots in index order; `Trie` *is* that list: `nil`, `val idx … rest` (a value slot), `sub idx … rest`
  (a sub-shard slot; `child` is the sub-shard's own slot list).  Each slot carries
    - `ld`  : the child is loaded (`children[i] != nil`) or still a link (`links[i]`),
    - `pfx` : (values) what the *stored* link name looks like: `some p` = hex prefix of index `p`
              followed by the key, `none` = the bare key (after `ForEachLink` stripped it in place).
  Neither influences what is serialised, but the stored name length enters the size bookkeeping of
  HAMTDirectory (C16), so both are modelled and compared with the real structures through the hook.
* murmur3 is a parameter: `dg : Name → List Nat` gives the digit sequence of every name
  (`hashDigits (h name) lg2`, see Bits.lean).
* CIDs are opaque strings with a byte length.
Core-only (imported by the drivers).
-/
namespace C15

/-- entry names are kept as the lower-case hex of their bytes (byte order = string order) -/
abbrev Name := String
def nameLen (n : Name) : Nat := n.length / 2

structure Lnk where
  cid : String
  clen : Nat
  size : Nat
deriving DecidableEq, Repr, Inhabited

/-- a link as stored in a value slot: stored-name shape + target -/
structure SLnk where
  pfx : Option Nat
  lnk : Lnk
deriving DecidableEq, Repr

inductive Trie where
  | nil
  | val (idx : Nat) (key : Name) (pfx : Option Nat) (ld : Bool) (lnk : Lnk) (rest : Trie)
  | sub (idx : Nat) (ld : Bool) (child : Trie) (rest : Trie)
deriving Repr, DecidableEq

inductive Res where
  | ok (old : Option SLnk)
  | notfound
  | toodeep
deriving Repr, DecidableEq

namespace Trie

/-- `childer.length()` -/
def length : Trie → Nat
  | nil => 0
  | val _ _ _ _ _ r => r.length + 1
  | sub _ _ _ r => r.length + 1

/-- The leaf-fork of `swapValue`: a fresh chain of shards separating two different keys, given the
digits each still has to consume.  (`none` = `Next` ran out of bits = "sharded directory too deep".)
Both values go through `childer.insert`, which rewrites their stored names with the final index. -/
def fork (k1 : Name) (l1 : Lnk) (k2 : Name) (l2 : Lnk) : List Nat → List Nat → Option Trie
  | i1 :: r1, i2 :: r2 =>
    if i1 = i2 then (fork k1 l1 k2 l2 r1 r2).map (fun c => sub i1 true c nil)
    else if i1 < i2 then some (val i1 k1 (some i1) true l1 (val i2 k2 (some i2) true l2 nil))
    else some (val i2 k2 (some i2) true l2 (val i1 k1 (some i1) true l1 nil))
  | _, _ => none

/-- `swapValue(hv, key, value)` on the shard whose slot list is the first argument; `i` is the digit
`hv.Next` returned for this level and `r` the digits of `key` still unread.  `dgl k` = the digits any
other key `k` has from THIS level on (`newConsumedHashBits(k, hv.consumed)` reads `(dgl k).tail`).
`v = none` removes.  The returned trie also reflects the loading (`childer.get`) of every child
touched, also when the operation fails. -/
def swap (dgl : Name → List Nat) (key : Name) (v : Option Lnk) : Trie → Nat → List Nat → Trie × Res
  | nil, i, _ =>
    match v with
    | none => (nil, .notfound)                       -- childer.insert with a nil link
    | some nl => (val i key (some i) true nl nil, .ok none)
  | val j k p ld l rest, i, r =>
    if j < i then
      let x := swap dgl key v rest i r
      (val j k p ld l x.1, x.2)
    else if i < j then
      match v with
      | none => (val j k p ld l rest, .notfound)
      | some nl => (val i key (some i) true nl (val j k p ld l rest), .ok none)
    else if k = key then
      match v with
      | none => (rest, .ok (some ⟨p, l⟩))            -- childer.rm
      | some nl => (val j k (some 0) true nl rest, .ok (some ⟨p, l⟩))   -- child.val = value (named prefix(0)+key)
    else
      match v with
      | none => (val j k p true l rest, .notfound)
      | some nl =>
        match fork key nl k l r (dgl k).tail with
        | none =>
          -- the attempt fails only when every remaining digit agrees; the nested forks have by then
          -- re-inserted the old link (in place) every second level, renaming it for the last time
          -- with the digit at the largest odd position
          let n := r.length
          (val j k (if n ≥ 2 then some (r.getD (n / 2 * 2 - 1) 0) else p) true l rest, .toodeep)
        | some c => (sub j true c rest, .ok none)
  | sub j ld c rest, i, r =>
    if j < i then
      let x := swap dgl key v rest i r
      (sub j ld c x.1, x.2)
    else if i < j then
      match v with
      | none => (sub j ld c rest, .notfound)
      | some nl => (val i key (some i) true nl (sub j ld c rest), .ok none)
    else
      match r with
      | [] => (sub j true c rest, .toodeep)
      | i' :: r' =>
        let x := swap (fun k => (dgl k).tail) key v c i' r'
        match x.2, v with
        | .ok old, none =>
          -- an entry was removed below: prune / collapse
          match x.1 with
          | nil => (rest, .ok old)
          | val _ k p ld' l nil => (val j k p ld' l rest, .ok old)
          | c' => (sub j true c' rest, .ok old)
        | res, _ => (sub j true x.1 rest, res)

inductive FindRes where
  | found (s : SLnk)
  | notfound
  | toodeep
deriving Repr, DecidableEq

/-- `getValue`: as `swap`, loads what it touches -/
def find (key : Name) : Trie → Nat → List Nat → Trie × FindRes
  | nil, _, _ => (nil, .notfound)
  | val j k p ld l rest, i, r =>
    if j < i then
      let x := find key rest i r
      (val j k p ld l x.1, x.2)
    else if i < j then (val j k p ld l rest, .notfound)
    else if k = key then (val j k p true l rest, .found ⟨p, l⟩)
    else (val j k p true l rest, .notfound)
  | sub j ld c rest, i, r =>
    if j < i then
      let x := find key rest i r
      (sub j ld c x.1, x.2)
    else if i < j then (sub j ld c rest, .notfound)
    else
      match r with
      | [] => (sub j true c rest, .toodeep)
      | i' :: r' =>
        let x := find key c i' r'
        (sub j true x.1 rest, x.2)

/-- all entries in trie order (the order of `walkTrie`) -/
def ents : Trie → List (Name × Lnk)
  | nil => []
  | val _ k _ _ l rest => (k, l) :: ents rest
  | sub _ _ c rest => ents c ++ ents rest

/-- effect of `ForEachLink` on the structure: everything loaded, every stored name stripped -/
def stripAll : Trie → Trie
  | nil => nil
  | val j k _ _ l rest => val j k none true l (stripAll rest)
  | sub j _ c rest => sub j true (stripAll c) (stripAll rest)

/-- `ForEachLink` aborted by its callback after `n` entries were delivered: what it loaded and stripped -/
def stripN : Trie → Nat → Trie × Nat
  | nil, n => (nil, n)
  | val j k p ld l rest, 0 => (val j k p ld l rest, 0)
  | sub j ld c rest, 0 => (sub j ld c rest, 0)
  | val j k _ _ l rest, n + 1 =>
    let x := stripN rest n
    (val j k none true l x.1, x.2)
  | sub j _ c rest, n + 1 =>
    let x := stripN c (n + 1)
    let y := stripN rest x.2
    (sub j true x.1 y.1, y.2)

/-- what `Node()` serialises (recursively): slots in index order, link name = hex prefix of the index
followed by the key; sub-shards by their own serialisation.  Loading state and stored names play no role. -/
inductive Dag where
  | nil
  | val (idx : Nat) (key : Name) (lnk : Lnk) (rest : Dag)
  | sub (idx : Nat) (child : Dag) (rest : Dag)
deriving Repr, DecidableEq

def toDag : Trie → Dag
  | nil => .nil
  | val j k _ _ l rest => .val j k l (toDag rest)
  | sub j _ c rest => .sub j (toDag c) (toDag rest)

/-- `NewHamtFromDag`: every child an unloaded link whose name is what was serialised -/
def ofDag : Dag → Trie
  | .nil => nil
  | .val j k l rest => val j k (some j) false l (ofDag rest)
  | .sub j c rest => sub j false (ofDag c) (ofDag rest)

/-! Fault injection (tie only, no theorem): the DAG service refuses the block of one unloaded
sub-shard, identified by its slot-index path.  Every operation that has to load it fails. -/

/-- slot-index paths of all sub-shards, DFS pre-order (the order of the serialised links) -/
def subPaths : Trie → List (List Nat)
  | nil => []
  | val _ _ _ _ _ rest => subPaths rest
  | sub j _ c rest => [j] :: ((subPaths c).map (j :: ·) ++ subPaths rest)

/-- the sub-shard at the path exists and is still an unloaded link -/
def unloadedAt : Trie → List Nat → Bool
  | _, [] => false
  | nil, _ => false
  | val _ _ _ _ _ rest, p => unloadedAt rest p
  | sub j ld c rest, i :: p =>
    if j = i then (match p with | [] => !ld | _ => unloadedAt c p) else unloadedAt rest (i :: p)

/-- `childer.get` along the path up to (not including) its last element: the ancestors get loaded -/
def loadTo : Trie → List Nat → Trie
  | t, [] => t
  | nil, _ => nil
  | val j k p ld l rest, q => val j k p ld l (loadTo rest q)
  | sub j ld c rest, i :: p =>
    if j = i then (match p with | [] => sub j ld c rest | _ => sub j true (loadTo c p) rest)
    else sub j ld c (loadTo rest (i :: p))

/-- `ForEachLink` aborted when it has to load the sub-shard at the path: everything before it in
walk order is loaded and stripped, its ancestors are loaded, nothing after it is touched -/
def stripTo : Trie → List Nat → Trie
  | t, [] => t
  | nil, _ => nil
  | val j k p ld l rest, i :: q =>
    if j < i then val j k none true l (stripTo rest (i :: q)) else val j k p ld l rest
  | sub j ld c rest, i :: q =>
    if j < i then sub j true (stripAll c) (stripTo rest (i :: q))
    else if j = i then (match q with | [] => sub j ld c rest | _ => sub j true (stripTo c q) rest)
    else sub j ld c rest

/-- entries with the stored-name shape (what `EnumLinksAsync` sees is the key; what `Find` returns is this) -/
def sents : Trie → List (Name × SLnk)
  | nil => []
  | val _ k p _ l rest => (k, ⟨p, l⟩) :: sents rest
  | sub _ _ c rest => sents c ++ sents rest

end Trie

/-! ### sizes -/

def varintLen (v : Nat) : Nat := (Gen.C15.varintLen (BitVec.ofNat 64 v)).toNat

/-- `linkSerializedSize(name, cid, tsize)` -/
def linkSerializedSize (nlen clen tsize : Nat) : Nat :=
  let linkLen := 1 + varintLen clen + clen + 1 + varintLen nlen + nlen + 1 + varintLen tsize
  1 + varintLen linkLen + linkLen

/-- directory stat: `os.FileMode` value and mtime (`none` = zero time; else seconds, nanoseconds) -/
structure Stat where
  mode : Nat := 0
  mtime : Option (Int × Nat) := none
deriving DecidableEq, Repr

/-- `dataFieldSerializedSize(mode, mtime)` -/
def dataFieldSize (st : Stat) : Nat :=
  let inner := 2
  let inner := if st.mode ≠ 0 then
      inner + 1 + varintLen (Gen.C15.modePermsToUnixPerms (BitVec.ofNat 32 st.mode)).toNat else inner
  let inner := match st.mtime with
    | none => inner
    | some (sec, ns) =>
      let m := if sec ≥ 0 then 1 + varintLen sec.toNat else 1 + 10
      let m := if ns > 0 then m + 1 + 4 else m
      inner + 1 + varintLen m + m
  1 + varintLen inner + inner

/-- `Stat` after `SetStat(mode, mtime)` (zero values leave the field alone) -/
def Stat.set (s : Stat) (mode : Nat) (mtime : Option (Int × Nat)) : Stat :=
  { mode := if mode > 0 then mode else s.mode, mtime := match mtime with | none => s.mtime | some m => some m }

/-! ### settings, globals -/

structure Globals where
  thr : Int := 262144          -- HAMTShardingSize
  mode : Nat := 0              -- HAMTSizeEstimation (0 links, 1 block, 2 disabled)
  defWidth : Int := 256        -- DefaultShardWidth
deriving Repr

structure Settings where
  maxLinks : Int := 0
  fanout : Int := 0            -- maxHAMTFanout
  pmode : Option Nat := none   -- sizeEstimation (nil = global)
  thr : Int := 0               -- hamtShardingSize (per directory; 0 = global)
  stat : Stat := {}
  builder : String := "nil"    -- nil | v0 | v1
deriving Repr, DecidableEq

def validShardWidth (n : Int) : Bool := Gen.C15.validShardWidth (BitVec.ofInt 64 n)

def Settings.effMode (g : Globals) (s : Settings) : Nat := s.pmode.getD g.mode
def Settings.effThr (g : Globals) (s : Settings) : Int := if s.thr > 0 then s.thr else g.thr

/-! ### BasicDirectory -/

structure Basic where
  links : List (Name × Lnk) := []      -- the node's links (kept in insertion order; `Links()` sorts)
  nodeStat : Stat := {}                -- mode/mtime inside the node's Data (fixed at creation)
  est : Int := 0                       -- estimatedSize
  total : Int := 0                     -- totalLinks
  s : Settings := {}
deriving Repr

def linkSizeIn (mode : Nat) (nlen : Nat) (l : Lnk) : Int :=
  if mode = 1 then linkSerializedSize nlen l.clen l.size else (nlen + l.clen : Nat)

namespace Basic

/-- `computeEstimatedSizeAndTotalLinks` → (estimatedSize, totalLinks).  In block mode the Data-field part is
`nodeDataFieldSize(d.node)`: the size of the Data the node actually holds (written at creation from
`nodeStat`), not what `SetStat` recorded since. -/
def compute (g : Globals) (b : Basic) : Int × Int :=
  let mode := b.s.effMode g
  if mode = 1 then
    ((dataFieldSize b.nodeStat : Nat) + (b.links.map fun e => (linkSerializedSize (nameLen e.1) e.2.clen e.2.size : Int)).sum,
      b.links.length)
  else if mode = 0 then
    ((b.links.map fun e => ((nameLen e.1 + e.2.clen : Nat) : Int)).sum, b.links.length)
  else (0, b.links.length)

def getLink (b : Basic) (name : Name) : Option Lnk := (b.links.find? (·.1 = name)).map (·.2)

/-- `updateEstimatedSize` delta of one link in the mode in force -/
def delta (g : Globals) (b : Basic) (name : Name) (l : Lnk) : Int :=
  let mode := b.s.effMode g
  if mode = 1 ∨ mode = 0 then linkSizeIn mode (nameLen name) l else 0

/-- `RemoveChild`; `none` = os.ErrNotExist -/
def remove (g : Globals) (b : Basic) (name : Name) : Option Basic :=
  match b.getLink name with
  | none => none
  | some l =>
    let est := b.est - b.delta g name l
    let (est, total) := if est < 0 then b.compute g else (est, b.total)
    some { b with est := est, total := total - 1, links := b.links.filter (·.1 ≠ name) }

inductive AddRes where
  | ok (b : Basic)
  | maxlinks
deriving Repr

/-- `addLinkChild` -/
def addLink (g : Globals) (b : Basic) (name : Name) (l : Lnk) : AddRes :=
  match b.remove g name with
  | some b' =>
    let b'' := { b' with links := b'.links ++ [(name, l)] }
    .ok { b'' with est := b'.est + b'.delta g name l, total := b'.total + 1 }
  | none =>
    if b.s.maxLinks > 0 ∧ b.total + 1 > b.s.maxLinks then .maxlinks
    else
      let b'' := { b with links := b.links ++ [(name, l)] }
      .ok { b'' with est := b.est + b.delta g name l, total := b.total + 1 }

/-- `NewBasicDirectory(opts…)`; `none` = ErrInvalidHAMTFanout -/
def new (g : Globals) (s : Settings) : Option Basic :=
  let fan := if s.fanout = 0 then g.defWidth else s.fanout
  if s.fanout ≠ 0 ∧ !validShardWidth s.fanout then none
  else
    let s' := { s with fanout := fan, builder := if s.builder = "nil" then "v0" else s.builder }
    let b : Basic := { links := [], nodeStat := s.stat, s := s' }
    let c := b.compute g
    some { b with est := c.1, total := c.2 }

/-- `SetSizeEstimationMode` -/
def setMode (g : Globals) (b : Basic) (m : Nat) : Basic :=
  let old := b.s.effMode g
  let b' := { b with s := { b.s with pmode := some m } }
  if m = old then b' else { b' with est := (b'.compute g).1 }

def sortedLinks (b : Basic) : List (Name × Lnk) := b.links.mergeSort (fun a c => a.1 ≤ c.1)

end Basic

/-! ### HAMTDirectory -/

structure Hamt where
  shard : Trie := .nil
  width : Nat := 256                   -- tableSize of the shard (fixed when the shard is made)
  chg : Int := 0                       -- sizeChange
  total : Int := 0                     -- totalLinks (-1 = totalLinksUnknown: loaded from a node, not counted yet)
  s : Settings := {}
deriving Repr

def lg2 (w : Nat) : Nat := Nat.log2 w
/-- `maxpadlen = len(fmt.Sprintf("%X", size-1))` -/
def padLen (w : Nat) : Nat := (Nat.toDigits 16 (w - 1)).length

/-- length of the stored link name -/
def storedLen (w : Nat) (key : Name) (p : Option Nat) : Nat :=
  match p with
  | none => nameLen key
  | some _ => padLen w + nameLen key

inductive OpRes where
  | ok | notfound | maxlinks | toodeep | invalid
deriving Repr, DecidableEq

namespace Hamt

variable (h : Name → List Byte)

def dg (hd : Hamt) : Name → List Nat := fun n => hashDigits (h n) (lg2 hd.width)

/-- top-level `swapValue` call: the first `Next` can fail too -/
def swapTop (hd : Hamt) (key : Name) (v : Option Lnk) : Trie × Res :=
  match hd.dg h key with
  | [] => (hd.shard, .toodeep)
  | i :: r => hd.shard.swap (hd.dg h) key v i r

def findTop (hd : Hamt) (key : Name) : Trie × Trie.FindRes :=
  match hd.dg h key with
  | [] => (hd.shard, .toodeep)
  | i :: r => hd.shard.find key i r

/-- `linksize.LinkSizeFunction(stored name, cid)` -/
def storedLinkSize (hd : Hamt) (key : Name) (s : SLnk) : Int := (storedLen hd.width key s.pfx + s.lnk.clen : Nat)

/-- `HAMTDirectory.AddChild` -/
def addChild (hd : Hamt) (name : Name) (l : Lnk) : Hamt × OpRes :=
  match hd.swapTop h name (some l) with
  | (t, .ok old) =>
    let chg := match old with
      | some o => hd.chg - hd.storedLinkSize name o
      | none => hd.chg
    ({ hd with shard := t, chg := chg + (nameLen name + l.clen : Nat),
               total := if old.isNone ∧ hd.total ≠ (-1 : Int) then hd.total + 1 else hd.total }, .ok)
  | (t, .notfound) => ({ hd with shard := t }, .notfound)
  | (t, .toodeep) => ({ hd with shard := t }, .toodeep)

/-- `HAMTDirectory.RemoveChild` -/
def removeChild (hd : Hamt) (name : Name) : Hamt × OpRes :=
  match hd.swapTop h name none with
  | (t, .ok (some o)) =>
    ({ hd with shard := t, chg := hd.chg - hd.storedLinkSize name o,
               total := if hd.total ≠ (-1 : Int) then hd.total - 1 else hd.total }, .ok)
  | (t, .ok none) => ({ hd with shard := t }, .ok)
  | (t, .notfound) => ({ hd with shard := t }, .notfound)
  | (t, .toodeep) => ({ hd with shard := t }, .toodeep)

/-- `NewHAMTDirectory(dserv, 0, opts…)`; `none` = ErrInvalidHAMTFanout (or a width the shard refuses) -/
def new (g : Globals) (s : Settings) : Option Hamt :=
  let fan := if s.fanout = 0 then g.defWidth else s.fanout
  if s.fanout ≠ 0 ∧ !validShardWidth s.fanout then none
  else if fan ≤ 0 ∨ fan > 1024 then none
  else some { shard := .nil, width := fan.toNat, chg := 0, total := 0, s := { s with fanout := fan } }

/-- `linkSizeFor(link)` with a link whose name has `nlen` bytes -/
def linkSizeFor (g : Globals) (hd : Hamt) (nlen : Nat) (l : Lnk) : Int :=
  linkSizeIn (if hd.s.effMode g = 1 then 1 else 0) nlen l

/-- `sizeBelowThreshold(sizeChange)`.  The enumeration order of `EnumLinksAsync` is not determined; the
early exit fires at some prefix iff it fires at the end because every link size is ≥ 0, except that
with no link at all the comparison is never made. -/
def sizeBelow (g : Globals) (hd : Hamt) (opChange : Int) : Bool :=
  let data : Int := if hd.s.effMode g = 1 then (dataFieldSize hd.s.stat : Nat) else 0
  let es := hd.shard.ents
  es.isEmpty || decide (data + (es.map fun e => hd.linkSizeFor g (nameLen e.1) e.2).sum + opChange ≤ hd.s.effThr g)

inductive Gate where
  | no | yes | toodeep
deriving DecidableEq, Repr

/-- `countLinks` as `needsToSwitchToBasicDir` uses it: a directory loaded from a node (`total = -1`,
totalLinksUnknown) learns its entry count the first time a link limit needs it -/
def countLinks (hd : Hamt) : Hamt :=
  if hd.s.maxLinks > 0 ∧ hd.total = (-1 : Int) then { hd with total := (hd.shard.ents.length : Nat) } else hd

/-- the decision of `needsToSwitchToBasicDir` once the old entry (if any) has been looked up -/
def gateAfterFind (g : Globals) (hd : Hamt) (name : Name) (add : Option Lnk) (old : Option SLnk) : Gate :=
  let newTotal := hd.total + (if add.isSome then 1 else 0) - (if old.isSome then 1 else 0)
  let canMax := !(hd.s.maxLinks > 0 ∧ newTotal > hd.s.maxLinks)
  if hd.s.effMode g = 2 then
    (if canMax ∧ hd.s.maxLinks > 0 ∧ newTotal ≤ hd.s.maxLinks then .yes else .no)
  else
    let op : Int := (match old with
        | some o => - hd.linkSizeFor g (storedLen hd.width name o.pfx) o.lnk
        | none => 0)
      + (match add with
        | some l => hd.linkSizeFor g (nameLen name) l   -- link.Name = name (fix 5d220de)
        | none => 0)
    let canSize := if hd.chg + op < 0 then hd.sizeBelow g op else false
    if canSize ∧ canMax then .yes else .no

/-- `needsToSwitchToBasicDir(name, nodeToAdd)`; also returns the directory after the `Find` (loading)
and the lazy entry count it performs -/
def needsBasic (g : Globals) (hd : Hamt) (name : Name) (add : Option Lnk) : Hamt × Gate :=
  if hd.s.effThr g = 0 then (hd, .no)
  else
    match hd.findTop h name with
    | (t, .toodeep) => ({ hd with shard := t }, .toodeep)
    | (t, .found s) =>
      let hd1 := countLinks { hd with shard := t }
      (hd1, gateAfterFind g hd1 name add (some s))
    | (t, .notfound) =>
      let hd1 := countLinks { hd with shard := t }
      (hd1, gateAfterFind g hd1 name add none)

end Hamt

/-! ### DynamicDirectory -/

inductive Dir where
  | basic (b : Basic)
  | hamt (hd : Hamt)
deriving Repr

structure State where
  dyn : Bool                  -- wrapped in a DynamicDirectory (auto-switching) or used directly
  dir : Dir
deriving Repr

def Dir.settings : Dir → Settings
  | .basic b => b.s
  | .hamt hd => hd.s

/-- `GetCidBuilder()` as the conversions see it -/
def Dir.builder : Dir → String
  | .basic b => b.s.builder
  | .hamt hd => hd.s.builder

section
variable (h : Name → List Byte) (g : Globals)

/-- `needsToSwitchToHAMTDir(name, nodeToAdd)` (all three modes) -/
def needsHamt (b : Basic) (name : Name) (l : Lnk) : Bool :=
  if b.s.effThr g = 0 then false
  else
    let old := b.getLink name
    let maxEx := old.isNone ∧ b.s.maxLinks > 0 ∧ b.total + 1 > b.s.maxLinks
    let mode := b.s.effMode g
    if mode = 2 then maxEx
    else
      let op : Int := (match old with | some o => - linkSizeIn mode (nameLen name) o | none => 0)
        + linkSizeIn mode (nameLen name) l
      decide (b.est + op > b.s.effThr g) || maxEx

/-- the options `DynamicDirectory.AddChild` passes to `switchToSharding` (basic → HAMT) -/
def hamtOpts (b : Basic) : Settings :=
  { maxLinks := b.s.maxLinks, fanout := (if validShardWidth b.s.fanout then b.s.fanout else g.defWidth),
    pmode := some (b.s.effMode g), thr := 0, stat := ({} : Stat).set b.s.stat.mode b.s.stat.mtime, builder := b.s.builder }

/-- the options `AddChild` / `RemoveChild` pass to `switchToBasic` (HAMT → basic) -/
def basicOpts (hd : Hamt) (maxLinks : Int) : Settings :=
  { maxLinks := maxLinks, fanout := hd.s.fanout, pmode := some (hd.s.effMode g), thr := 0,
    stat := ({} : Stat).set hd.s.stat.mode hd.s.stat.mtime, builder := hd.s.builder }

/-- `switchToSharding(opts…)`: `none` = a SetLink failed (too deep) or the HAMT could not be made -/
def switchToSharding (b : Basic) : Option Hamt :=
  match Hamt.new g (hamtOpts g b) with
  | none => none
  | some hd0 =>
    b.sortedLinks.foldl (fun acc e =>
      match acc with
      | none => none
      | some hd =>
        match hd.swapTop h e.1 (some e.2) with
        | (t, .ok _) => some { hd with shard := t, total := hd.total + 1 }
        | _ => none) (some hd0)

/-- `switchToBasic(opts…)` given the settings the caller passes; the HAMT is listed with
`ForEachLink` (so it ends up loaded and stripped whatever happens next). -/
def switchToBasic (hd : Hamt) (maxLinks : Int) : Hamt × Option (Basic ⊕ OpRes) :=
  match Basic.new g (basicOpts g hd maxLinks) with
  | none => (hd, some (.inr .invalid))
  | some b0 =>
    let r := hd.shard.ents.foldl (fun (acc : (Basic ⊕ OpRes) × Nat) e =>
      match acc.1 with
      | .inl b => (match Basic.addLink g b e.1 e.2 with
          | .ok b' => (.inl b', acc.2 + 1)
          | .maxlinks => (.inr OpRes.maxlinks, acc.2 + 1))
      | .inr x => (.inr x, acc.2)) ((Sum.inl b0 : Basic ⊕ OpRes), 0)
    match r.1 with
    | .inl b => ({ hd with shard := hd.shard.stripAll }, some (.inl b))
    | .inr x => ({ hd with shard := (hd.shard.stripN r.2).1 }, some (.inr x))

/-- `DynamicDirectory.AddChild` / the plain `AddChild` of a directory used directly -/
def addChild (st : State) (name : Name) (l : Lnk) : State × OpRes :=
  match st.dir with
  | .hamt hd =>
    if !st.dyn then
      let r := hd.addChild h name l
      ({ st with dir := .hamt r.1 }, r.2)
    else
      match hd.needsBasic h g name (some l) with
      | (hd1, .toodeep) => ({ st with dir := .hamt hd1 }, .toodeep)
      | (hd1, .no) =>
        let r := hd1.addChild h name l
        ({ st with dir := .hamt r.1 }, r.2)
      | (hd1, .yes) =>
        match switchToBasic g hd1 hd1.s.maxLinks with
        | (hd2, some (.inl b)) =>
          let b := { b with s := { b.s with thr := hd1.s.thr } }     -- per-directory threshold carried over (fix a7f55dc)
          (match Basic.addLink g b name l with
            | .ok b' => ({ st with dir := .basic b' }, .ok)
            | .maxlinks => ({ st with dir := .hamt hd2 }, .maxlinks))
        | (hd2, some (.inr e)) => ({ st with dir := .hamt hd2 }, e)
        | (hd2, none) => ({ st with dir := .hamt hd2 }, .invalid)
  | .basic b =>
    if !st.dyn then
      match Basic.addLink g b name l with
      | .ok b' => ({ st with dir := .basic b' }, .ok)
      | .maxlinks => (st, .maxlinks)
    else if !needsHamt g b name l then
      match Basic.addLink g b name l with
      | .ok b' => ({ st with dir := .basic b' }, .ok)
      | .maxlinks => (st, .maxlinks)
    else
      match switchToSharding h g b with
      | none => (st, .toodeep)
      | some hd =>
        let hd := { hd with s := { hd.s with thr := b.s.thr } }
        match hd.addChild h name l with
        | (hd', .ok) => ({ st with dir := .hamt hd' }, .ok)
        | (_, e) => (st, e)

/-- `DynamicDirectory.RemoveChild` / plain `RemoveChild` -/
def removeChild (st : State) (name : Name) : State × OpRes :=
  match st.dir with
  | .basic b =>
    match b.remove g name with
    | some b' => ({ st with dir := .basic b' }, .ok)
    | none => (st, .notfound)
  | .hamt hd =>
    if !st.dyn then
      let r := hd.removeChild h name
      ({ st with dir := .hamt r.1 }, r.2)
    else
      match hd.needsBasic h g name none with
      | (hd1, .toodeep) => ({ st with dir := .hamt hd1 }, .toodeep)
      | (hd1, .no) =>
        let r := hd1.removeChild h name
        ({ st with dir := .hamt r.1 }, r.2)
      | (hd1, .yes) =>
        let ml := if hd1.s.maxLinks > 0 then hd1.s.maxLinks + 1 else hd1.s.maxLinks
        match switchToBasic g hd1 ml with
        | (hd2, some (.inl b)) =>
          let b := { b with s := { b.s with thr := hd1.s.thr } }
          (match b.remove g name with
            | some b' =>
              let b' := if ml > 0 then { b' with s := { b'.s with maxLinks := b'.s.maxLinks - 1 } } else b'
              ({ st with dir := .basic b' }, .ok)
            | none => ({ st with dir := .hamt hd2 }, .notfound))
        | (hd2, some (.inr e)) => ({ st with dir := .hamt hd2 }, e)
        | (hd2, none) => ({ st with dir := .hamt hd2 }, .invalid)

/-- `Find`: the CID of the entry (the node is fetched from the DAG service by CID) -/
def findChild (st : State) (name : Name) : State × Option (Option String) :=
  match st.dir with
  | .basic b => (st, some ((b.getLink name).map (·.cid)))
  | .hamt hd =>
    match hd.findTop h name with
    | (t, .found s) => ({ st with dir := .hamt { hd with shard := t } }, some (some s.lnk.cid))
    | (t, .notfound) => ({ st with dir := .hamt { hd with shard := t } }, some none)
    | (t, .toodeep) => ({ st with dir := .hamt { hd with shard := t } }, none)

/-- `FSNode.Mode()` of a directory node whose Data was written from `os.FileMode` `m`: the stored
unix permission bits converted back, plus `os.ModeDir` when they are non-zero -/
def reloadMode (m : Nat) : Nat :=
  let perms := (Gen.C15.modePermsToUnixPerms (BitVec.ofNat 32 m)) &&& 0xFFF#32
  if m = 0 ∨ perms = 0#32 then 0 else (Gen.C15.unixPermsToModePerms perms).toNat ||| 2 ^ 31

/-- `Links()` / `EnumLinksAsync` / `ForEachLink`: the entries delivered (basic: node order; HAMT: trie order) -/
def dirEntries (st : State) : List (Name × Lnk) :=
  match st.dir with
  | .basic b => b.links
  | .hamt hd => hd.shard.ents

/-- what `ForEachLink` leaves behind: a HAMT is fully loaded and its stored link names are stripped -/
def eachChild (st : State) : State :=
  match st.dir with
  | .basic _ => st
  | .hamt hd => { st with dir := .hamt { hd with shard := hd.shard.stripAll } }

/-- `NewDirectoryFromNode(GetNode())` -/
def reload (st : State) : State :=
  match st.dir with
  | .basic b =>
    -- mode/mtime come back from the node's Data; every option is back to its zero value
    let ns : Stat := { mode := reloadMode b.nodeStat.mode, mtime := b.nodeStat.mtime }
    let b' : Basic := { links := b.links, nodeStat := b.nodeStat, s := { stat := ns, builder := b.s.builder } }
    let c := b'.compute g
    { dyn := true, dir := .basic { b' with est := c.1, total := c.2 } }
  | .hamt hd =>
    let ns : Stat := { mode := reloadMode hd.s.stat.mode, mtime := hd.s.stat.mtime }
    let s' : Settings := { stat := ({} : Stat).set ns.mode ns.mtime, builder := if hd.s.builder = "nil" then "v0" else hd.s.builder }
    { dyn := true, dir := .hamt { shard := Trie.ofDag hd.shard.toDag, width := hd.width, chg := 0, total := -1, s := s' } }

end


/-! ### setters of the `Directory` interface (what MFS re-applies after loading a directory) -/

/-- `SetMaxLinks(n)` -/
def setMaxLinks (st : State) (v : Int) : State :=
  match st.dir with
  | .basic b => { st with dir := .basic { b with s := { b.s with maxLinks := v } } }
  | .hamt hd => { st with dir := .hamt { hd with s := { hd.s with maxLinks := v } } }

/-- `SetHAMTShardingSize(n)` -/
def setThr (st : State) (v : Int) : State :=
  match st.dir with
  | .basic b => { st with dir := .basic { b with s := { b.s with thr := v } } }
  | .hamt hd => { st with dir := .hamt { hd with s := { hd.s with thr := v } } }

/-- `SetSizeEstimationMode(m)` (a basic directory recomputes its estimate when the mode changes) -/
def setEstMode (g : Globals) (st : State) (m : Nat) : State :=
  match st.dir with
  | .basic b => { st with dir := .basic (b.setMode g m) }
  | .hamt hd => { st with dir := .hamt { hd with s := { hd.s with pmode := some m } } }

end C15
