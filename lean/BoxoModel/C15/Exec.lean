import BoxoModel.C15.Model
/-!
Line-protocol interpreter shared by Drivers/C15.lean and Drivers/C16.lean: runs the model of
BoxoModel/C15/Model.lean on the op lines documented in /verif/harness/dirx/dirx.go and prints what
the Go harness prints for the real code.  Core-only.
-/
namespace C15.Exec
open C15

/-- the case's configuration in force (what `new` said, updated by set* ops, reset by reload);
used by `fresh` exactly as the Go harness uses its copy -/
structure Cfg where
  kind : String := "dyn"
  maxLinks : Int := 0
  fanout : Int := 0
  pmode : Option Nat := none
  pthr : Int := 0
  statMode : Nat := 0
  mtime : Option (Int × Nat) := none
  builder : String := "-"

structure Env where
  g : Globals := {}
  tbl : List (Name × List Byte) := []
  cfg : Cfg := {}
  st : Option State := none
  missing : Option (List Nat) := none     -- fault injection: path of the refused sub-shard block

def Env.h (e : Env) : Name → List Byte := fun n => ((e.tbl.find? (·.1 = n)).map (·.2)).getD []

def hexVal (c : Char) : Nat :=
  if '0' ≤ c ∧ c ≤ '9' then c.toNat - '0'.toNat
  else if 'a' ≤ c ∧ c ≤ 'f' then c.toNat - 'a'.toNat + 10
  else if 'A' ≤ c ∧ c ≤ 'F' then c.toNat - 'A'.toNat + 10 else 0

def parseHash (s : String) : List Byte :=
  let rec go : List Char → List Byte
    | a :: b :: r => BitVec.ofNat 8 (hexVal a * 16 + hexVal b) :: go r
    | _ => []
  go s.toList

def parseOct (s : String) : Nat := s.toList.foldl (fun a c => a * 8 + (c.toNat - '0'.toNat)) 0

def upperHex (n : Nat) : String := String.ofList ((Nat.toDigits 16 n).map Char.toUpper)

/-- `fmt.Sprintf("%0<pad>X", idx)` -/
def prefixStr (w idx : Nat) : String :=
  let s := upperHex idx
  String.ofList (List.replicate (padLen w - s.length) '0') ++ s

def oct (n : Nat) : String := String.ofList (Nat.toDigits 8 n)

def showStat (s : Stat) : String :=
  match s.mtime with
  | none => s!"{oct s.mode}/0/0"
  | some (sec, ns) => s!"{oct s.mode}/{sec}/{ns}"

def showNodeStat (s : Stat) : String :=
  let p := (Gen.C15.modePermsToUnixPerms (BitVec.ofNat 32 s.mode)).toNat
  match s.mtime with
  | none => "{" ++ s!"{oct p}/0/0" ++ "}"
  | some (sec, ns) => "{" ++ s!"{oct p}/{sec}/{ns}" ++ "}"

def showSettings (s : Settings) : String :=
  let pm := match s.pmode with | none => "-" | some m => toString m
  s!"maxlinks={s.maxLinks} fanout={s.fanout} mode={pm} thr={s.thr} stat={showStat s.stat}"

partial def showTree (w : Nat) (miss : Option (List Nat)) : Trie → List String
  | .nil => []
  | .val j k p ld l rest =>
    let ps := match p with | none => "-" | some q => prefixStr w q
    s!"{j}{if ld then "V" else "v"}{ps}|{k}|{l.cid}|{l.size}" :: showTree w miss rest
  | .sub j ld c rest =>
    let here : Bool := miss == some [j] && !ld
    let below : Option (List Nat) := match miss with
      | some (i :: q) => if i = j ∧ q ≠ [] then some q else none
      | _ => none
    (if here then s!"{j}s!missing"
     else s!"{j}{if ld then "S" else "s"}[" ++ " ".intercalate (showTree w below c) ++ "]") :: showTree w miss rest

def showState (st : State) (full : Bool) (miss : Option (List Nat) := none) : String :=
  match st.dir with
  | .basic b => s!"basic est={b.est} total={b.total} {showSettings b.s} b={b.s.builder}"
  | .hamt hd =>
    let tree := if full then " tree=[" ++ " ".intercalate (showTree hd.width miss hd.shard) ++ "]" else ""
    s!"hamt chg={hd.chg} total={hd.total} {showSettings hd.s}{tree} b={hd.s.builder}"

def showEntries (es : List (Name × Lnk)) : String :=
  s!"{es.length}:" ++ ",".intercalate (es.map fun e => s!"{if e.1 = "" then "-" else e.1}={e.2.cid}/{e.2.size}")

def sortEntries (es : List (Name × Lnk)) : List (Name × Lnk) := es.mergeSort (fun a c => a.1 ≤ c.1)

def bitsOf : Trie.Dag → List Nat
  | .nil => []
  | .val j _ _ r => j :: bitsOf r
  | .sub j _ r => j :: bitsOf r

/-- the serialised DAG of `Shard.Node()` -/
partial def showShardNode (w : Nat) (stat : Stat) (t : Trie.Dag) : String :=
  let rec links : Trie.Dag → List String
    | .nil => []
    | .val j k l rest => s!"{prefixStr w j}:{k}={l.cid}/{l.size}" :: links rest
    | .sub j c rest => s!"{prefixStr w j}:{showShardNode w {} c}" :: links rest
  s!"shard{w}{showNodeStat stat}(" ++ ",".intercalate ((bitsOf t).map toString) ++ ")[" ++ " ".intercalate (links t) ++ "]"

def showNode (st : State) : String :=
  match st.dir with
  | .basic b => s!"dir{showNodeStat b.nodeStat}[" ++
      ",".intercalate (b.sortedLinks.map fun e => s!"{if e.1 = "" then "-" else e.1}={e.2.cid}/{e.2.size}") ++ "]"
  | .hamt hd => showShardNode hd.width hd.s.stat hd.shard.toDag

def showRes : OpRes → String
  | .ok => "ok" | .notfound => "notfound" | .maxlinks => "maxlinks" | .toodeep => "toodeep" | .invalid => "invalid"

def mtimeOf (sec : Int) (ns : Nat) : Option (Int × Nat) := if sec = 0 ∧ ns = 0 then none else some (sec, ns)

/-- build a directory from a configuration (the harness's `config.build`) -/
def build (g : Globals) (c : Cfg) : Option State :=
  let s : Settings := { maxLinks := c.maxLinks, fanout := c.fanout, pmode := c.pmode, thr := 0,
                        stat := ({} : Stat).set c.statMode c.mtime, builder := if c.builder = "-" then "nil" else c.builder }
  if c.kind = "hamt" then
    (Hamt.new g s).map fun hd => { dyn := false, dir := .hamt { hd with s := { hd.s with thr := c.pthr } } }
  else
    (Basic.new g s).map fun b => { dyn := c.kind ≠ "basic", dir := .basic { b with s := { b.s with thr := c.pthr } } }

def entriesOf (st : State) : List (Name × Lnk) := dirEntries st

def setTbl (e : Env) (name : Name) (hash : String) : Env :=
  if e.tbl.any (·.1 = name) then
    { e with tbl := e.tbl.map fun x => if x.1 = name then (name, parseHash hash) else x }
  else { e with tbl := (name, parseHash hash) :: e.tbl }

def nameOf (s : String) : Name := if s = "-" then "" else s

def freshVerdict (e : Env) (st : State) : String :=
  match build e.g e.cfg with
  | none => "fresh-invalid"
  | some st0 =>
    let es := sortEntries (entriesOf st)
    let r := es.foldl (fun (acc : State × Option OpRes) x =>
      match acc.2 with
      | some _ => acc
      | none =>
        let y := addChild e.h e.g acc.1 x.1 x.2
        if y.2 = .ok then (y.1, none) else (y.1, some y.2)) (st0, none)
    match r.2 with
    | some err => s!"fresh-{showRes err}"
    | none => if showNode r.1 = showNode st then "same" else "diff"

/-- the refused sub-shard (if any, and still unloaded) of the current HAMT directory -/
def activeFault (e : Env) : Option (Hamt × List Nat) :=
  match e.missing, e.st with
  | some p, some st =>
    match st.dir with
    | .hamt hd => if hd.shard.unloadedAt p then some (hd, p) else none
    | .basic _ => none
  | _, _ => none

/-- an operation on `name` has to load the refused sub-shard: it fails, having loaded the ancestors -/
def keyFault (e : Env) (name : Name) : Option State :=
  match activeFault e, e.st with
  | some (hd, p), some st =>
    if p.isPrefixOf (hd.dg e.h name) then some { st with dir := .hamt { hd with shard := hd.shard.loadTo p } } else none
  | _, _ => none

/-- `AddChild` / `RemoveChild` of the auto-switching directory while a sub-shard block off the key's path is
unavailable: `needsToSwitchToBasicDir` fails when it has to enumerate (lazy link count, size gate), and a
decided HAMT → basic conversion fails in `switchToBasic`'s `ForEachLink` (which has by then loaded and
stripped what precedes the missing sub-shard).  `none`: the operation does not touch the missing block. -/
def dynFault (e : Env) (st : State) (hd : Hamt) (p : List Nat) (name : Name) (add : Option Lnk) : Option State :=
  if !st.dyn || hd.s.effThr e.g = 0 then none
  else
    let ft := hd.findTop e.h name
    let hdF : Hamt := { hd with shard := ft.1 }
    let old : Option SLnk := match ft.2 with | .found s => some s | _ => none
    if hdF.s.maxLinks > 0 ∧ hdF.total = (-1 : Int) then some { st with dir := .hamt hdF }     -- countLinks fails
    else
      let op : Int := (match old with
          | some o => - hdF.linkSizeFor e.g (storedLen hdF.width name o.pfx) o.lnk
          | none => 0)
        + (match add with
          | some l => hdF.linkSizeFor e.g (nameLen name) l
          | none => 0)
      if hdF.s.effMode e.g ≠ 2 ∧ hdF.chg + op < 0 then some { st with dir := .hamt hdF }        -- sizeBelowThreshold fails
      else
        match hdF.gateAfterFind e.g name add old with
        | .yes => some { st with dir := .hamt { hdF with shard := hdF.shard.stripTo p } }       -- switchToBasic fails
        | _ => none

/-- fault-aware wrapper of a keyed mutation: `some st'` = the operation fails with `fault` leaving `st'` -/
def opFault (e : Env) (name : Name) (add : Option Lnk) : Option State :=
  match keyFault e name with
  | some st' => some st'
  | none =>
    match activeFault e, e.st with
    | some (hd, p), some st => dynFault e st hd p name add
    | _, _ => none

def showPath (p : List Nat) : String := ".".intercalate (p.map toString)

def step (e : Env) (line : String) : Env × String :=
  match (line.trimAscii.toString.splitOn " ").filter (· ≠ "") with
  | ["case", n] => ({}, s!"case {n}")
  | ["end"] => ({}, "end")
  | ["faultreload", k] =>
    match e.st with
    | none => (e, "bad-op")
    | some st =>
      let st' := reload e.g st
      let paths := match st'.dir with | .hamt hd => hd.shard.subPaths | .basic _ => []
      let miss := if paths.isEmpty then e.missing else paths[k.toNat?.getD 0 % paths.length]?
      let wh := if paths.isEmpty then "-" else showPath (miss.getD [])
      ({ e with st := some st', missing := miss, cfg := { e.cfg with kind := "dyn", maxLinks := 0, fanout := 0, pmode := none, pthr := 0 } },
        s!"ok fault={wh} | {showState st' false}")
  | ["fault", k] =>
    match e.st with
    | none => (e, "bad-op")
    | some st =>
      let paths := match st.dir with | .hamt hd => hd.shard.subPaths | .basic _ => []
      let miss := if paths.isEmpty then e.missing else paths[k.toNat?.getD 0 % paths.length]?
      let wh := if paths.isEmpty then "-" else showPath (miss.getD [])
      ({ e with missing := miss }, s!"ok fault={wh}")
  | ["unfault"] =>
    match e.st with
    | none => (e, "bad-op")
    | some _ => ({ e with missing := none }, "ok")
  | ["cfg", thr, mode, defw, _] =>
    ({ e with g := { thr := thr.toInt?.getD 0, mode := mode.toNat?.getD 0, defWidth := defw.toInt?.getD 256 }, tbl := [], st := none, missing := none }, "ok")
  | ["new", kind, ml, fan, pm, pthr, stm, sec, ns, b] =>
    let c : Cfg := { kind := kind, maxLinks := ml.toInt?.getD 0, fanout := fan.toInt?.getD 0, pmode := pm.toNat?,
                     pthr := pthr.toInt?.getD 0, statMode := parseOct stm, mtime := mtimeOf (sec.toInt?.getD 0) (ns.toNat?.getD 0), builder := b }
    match build e.g c with
    | none => ({ e with cfg := c, st := none, missing := none }, "invalid")
    | some st => ({ e with cfg := c, st := some st, missing := none }, s!"ok | {showState st false}")
  | ["add", name, hash, cid, clen, tsize] =>
    match e.st with
    | none => (e, "bad-op")
    | some st =>
      let e := setTbl e (nameOf name) hash
      match opFault e (nameOf name) (some { cid := cid, clen := clen.toNat?.getD 0, size := tsize.toNat?.getD 0 }) with
      | some st' => ({ e with st := some st' }, s!"fault | {showState st' false}")
      | none =>
      let r := addChild e.h e.g st (nameOf name) { cid := cid, clen := clen.toNat?.getD 0, size := tsize.toNat?.getD 0 }
      ({ e with st := some r.1 }, s!"{showRes r.2} | {showState r.1 false}")
  | ["rm", name, hash] =>
    match e.st with
    | none => (e, "bad-op")
    | some st =>
      let e := setTbl e (nameOf name) hash
      match opFault e (nameOf name) none with
      | some st' => ({ e with st := some st' }, s!"fault | {showState st' false}")
      | none =>
      let r := removeChild e.h e.g st (nameOf name)
      ({ e with st := some r.1 }, s!"{showRes r.2} | {showState r.1 false}")
  | ["find", name, hash] =>
    match e.st with
    | none => (e, "bad-op")
    | some st =>
      let e := setTbl e (nameOf name) hash
      match keyFault e (nameOf name) with
      | some st' => ({ e with st := some st' }, "fault")
      | none =>
      let r := findChild e.h st (nameOf name)
      ({ e with st := some r.1 }, match r.2 with | some (some c) => c | some none => "notfound" | none => "toodeep")
  | ["list"] | ["async"] =>
    match e.st with
    | none => (e, "bad-op")
    | some st => (e, if (activeFault e).isSome then "fault" else showEntries (sortEntries (entriesOf st)))
  | ["each"] =>
    match e.st with
    | none => (e, "bad-op")
    | some st =>
      match activeFault e with
      | some (hd, p) => ({ e with st := some { st with dir := .hamt { hd with shard := hd.shard.stripTo p } } }, "fault")
      | none =>
      let out := match st.dir with
        | .basic b => showEntries b.sortedLinks
        | .hamt _ => showEntries (dirEntries st)
      ({ e with st := some (eachChild st) }, out)
  | ["node"] =>
    match e.st with
    | none => (e, "bad-op")
    | some st => (e, showNode st)
  | ["reload"] =>
    match e.st with
    | none => (e, "bad-op")
    | some st =>
      let st' := reload e.g st
      ({ e with st := some st', cfg := { e.cfg with kind := "dyn", maxLinks := 0, fanout := 0, pmode := none, pthr := 0 } },
        s!"ok | {showState st' false}")
  | ["setmaxlinks", n] =>
    match e.st with
    | none => (e, "bad-op")
    | some st =>
      let v := n.toInt?.getD 0
      let st' := setMaxLinks st v
      ({ e with st := some st', cfg := { e.cfg with maxLinks := v } }, s!"ok | {showState st' false}")
  | ["setfanout", n] =>
    match e.st with
    | none => (e, "bad-op")
    | some st =>
      let v := n.toInt?.getD 0
      let st' : State := match st.dir with
        | .basic b => { st with dir := .basic { b with s := { b.s with fanout := v } } }
        | .hamt hd => { st with dir := .hamt { hd with s := { hd.s with fanout := v } } }
      ({ e with st := some st', cfg := { e.cfg with fanout := v } }, s!"ok | {showState st' false}")
  | ["setmode", n] =>
    match e.st with
    | none => (e, "bad-op")
    | some st =>
      let v := n.toNat?.getD 0
      let st' := setEstMode e.g st v
      ({ e with st := some st', cfg := { e.cfg with pmode := some v } }, s!"ok | {showState st' false}")
  | ["setthr", n] =>
    match e.st with
    | none => (e, "bad-op")
    | some st =>
      let v := n.toInt?.getD 0
      let st' := setThr st v
      ({ e with st := some st', cfg := { e.cfg with pthr := v } }, s!"ok | {showState st' false}")
  | ["setstat", m, sec, ns] =>
    match e.st with
    | none => (e, "bad-op")
    | some st =>
      let mt := mtimeOf (sec.toInt?.getD 0) (ns.toNat?.getD 0)
      let st' : State := match st.dir with
        | .basic b => { st with dir := .basic { b with s := { b.s with stat := b.s.stat.set (parseOct m) mt } } }
        | .hamt hd => { st with dir := .hamt { hd with s := { hd.s with stat := hd.s.stat.set (parseOct m) mt } } }
      ({ e with st := some st' }, s!"ok | {showState st' false}")
  | ["dump"] =>
    match e.st with
    | none => (e, "bad-op")
    | some st => (e, showState st true e.missing)
  | ["fresh"] =>
    match e.st with
    | none => (e, "bad-op")
    | some st => (e, freshVerdict e st)
  | _ => (e, "bad-op")

partial def loop (hIn : IO.FS.Stream) (out : IO.FS.Stream) (e : Env) : IO Unit := do
  let line ← hIn.getLine
  if line.isEmpty then return ()
  let (e', o) := step e line
  out.putStrLn o
  loop hIn out e'

def main : IO Unit := do
  let out ← IO.getStdout
  loop (← IO.getStdin) out {}

end C15.Exec
