import BoxoModel.C15.DirLemmas
/-! C15 — the two conversions of the auto-switching directory preserve the entries. -/
namespace C15
open Trie

/-- folding `addLinkChild` over a duplicate-free entry list into a basic directory none of whose
names occur in the list appends exactly that list (when no link limit interferes) -/
theorem fold_addLink_links (g : Globals) :
    ∀ (es : List (Name × Lnk)) (acc : (Basic ⊕ OpRes) × Nat) (b0 : Basic), acc.1 = .inl b0 →
      ((b0.links ++ es).map (·.1)).Nodup →
      ∀ b, (es.foldl (fun (acc : (Basic ⊕ OpRes) × Nat) e =>
        match acc.1 with
        | .inl b => (match Basic.addLink g b e.1 e.2 with
            | .ok b' => (.inl b', acc.2 + 1)
            | .maxlinks => (.inr OpRes.maxlinks, acc.2 + 1))
        | .inr x => (.inr x, acc.2)) acc).1 = .inl b → b.links = b0.links ++ es
  | [], acc, b0, ha, _, b, hb => by
    simp only [List.foldl_nil] at hb
    rw [ha] at hb
    simp only [Sum.inl.injEq] at hb
    rw [← hb]; simp
  | e :: es, acc, b0, ha, hn, b, hb => by
    simp only [List.foldl_cons, ha] at hb
    have hn0 : (b0.links.map (·.1)).Nodup := by
      rw [List.map_append] at hn; exact (List.nodup_append.1 hn).1
    have sp := basic_addLink_spec g b0 e.1 e.2 hn0
    cases hal : Basic.addLink g b0 e.1 e.2 with
    | maxlinks =>
      rw [hal] at hb
      -- once an error is in the accumulator it stays
      have stay : ∀ (es : List (Name × Lnk)) (x : OpRes) (k : Nat) (b : Basic),
          (es.foldl (fun (acc : (Basic ⊕ OpRes) × Nat) e =>
            match acc.1 with
            | .inl b => (match Basic.addLink g b e.1 e.2 with
                | .ok b' => (.inl b', acc.2 + 1)
                | .maxlinks => (.inr OpRes.maxlinks, acc.2 + 1))
            | .inr x => (.inr x, acc.2)) (.inr x, k)).1 = .inl b → False := by
        intro es
        induction es with
        | nil => intro x k b h; simp at h
        | cons e es ih => intro x k b h; simp only [List.foldl_cons] at h; exact ih _ _ _ h
      exact absurd hb (fun h => stay es _ _ b h)
    | ok b1 =>
      rw [hal] at hb sp
      simp only at hb sp
      obtain ⟨_, hn1, _, hl1⟩ := sp
      -- e's name is absent from b0
      have habs : b0.getLink e.1 = none := by
        cases hg : b0.getLink e.1 with
        | none => rfl
        | some lo =>
          exfalso
          have hm : (e.1, lo) ∈ b0.links := (mem_iff_find b0.links hn0 e.1 lo).2 hg
          rw [List.map_append, List.nodup_append] at hn
          exact hn.2.2 e.1 (List.mem_map.2 ⟨(e.1, lo), hm, rfl⟩) e.1 (by simp) rfl
      have hf := filter_absent b0.links hn0 e.1 habs
      rw [hf] at hl1
      have := fold_addLink_links g es (.inl b1, acc.2 + 1) b1 rfl (by rw [hl1]; simpa using hn) b hb
      rw [this, hl1]; simp

/-- **HAMT → basic conversion preserves the entries**: when `switchToBasic` succeeds, the basic directory
holds exactly the entries of the trie (and therefore denotes the same map) -/
theorem switchToBasic_entries (g : Globals) (dgl : Name → List Nat) (hd : Hamt) (ml : Int) (b : Basic)
    (hwf : WF dgl hd.shard) (hs : (switchToBasic g hd ml).2 = some (.inl b)) :
    b.links = hd.shard.ents ∧ (b.links.map (·.1)).Nodup ∧ ∀ k, b.getLink k = Trie.get dgl hd.shard k := by
  have hnd := ents_nodup dgl hd.shard hwf
  have hl : b.links = hd.shard.ents := by
    unfold switchToBasic at hs
    cases hb : Basic.new g (basicOpts g hd ml) with
    | none => simp [hb] at hs
    | some b0 =>
      simp only [hb] at hs
      have hb0 : b0.links = [] := by
        simp only [Basic.new] at hb
        split at hb
        · cases hb
        · simp only [Option.some.injEq] at hb; rw [← hb]
      split at hs
      · rename_i b' hres
        simp only [Option.some.injEq, Sum.inl.injEq] at hs
        subst hs
        have := fold_addLink_links g hd.shard.ents (.inl b0, 0) b0 rfl (by rw [hb0]; simpa using hnd) b' hres
        rw [this, hb0]; simp
      · simp at hs
  refine ⟨hl, by rw [hl]; exact hnd, ?_⟩
  intro k
  cases hg : Trie.get dgl hd.shard k with
  | none =>
    cases hq : b.getLink k with
    | none => rfl
    | some l =>
      have := (mem_iff_find b.links (by rw [hl]; exact hnd) k l).2 hq
      rw [hl, mem_ents_iff dgl _ hwf, hg] at this
      cases this
  | some l =>
    have := (mem_ents_iff dgl _ hwf k l).2 hg
    rw [← hl] at this
    exact (mem_iff_find b.links (by rw [hl]; exact hnd) k l).1 this


theorem foldl_upd_find : ∀ (es : List (Name × Lnk)) (m0 : Map) (k : Name), (es.map (·.1)).Nodup →
    (es.foldl (fun m e => upd m e.1 (some e.2)) m0) k =
      match (es.find? (·.1 = k)).map (·.2) with
      | some l => some l
      | none => m0 k
  | [], m0, k, _ => by simp
  | e :: es, m0, k, hn => by
    simp only [List.map_cons, List.nodup_cons] at hn
    simp only [List.foldl_cons]
    rw [foldl_upd_find es _ k hn.2]
    by_cases hek : e.1 = k
    · have hnone : (es.find? (·.1 = k)).map (·.2) = none := by
        cases hf : es.find? (·.1 = k) with
        | none => rfl
        | some y =>
          exfalso
          have h1 := List.find?_some hf
          have h2 := List.mem_of_find?_eq_some hf
          simp at h1
          exact hn.1 (List.mem_map.2 ⟨y, h2, by rw [h1, hek]⟩)
      simp [hnone, List.find?_cons, hek, upd]
    · have : ¬ k = e.1 := fun h' => hek h'.symm
      simp [List.find?_cons, hek, upd, this]

/-- **basic → HAMT conversion preserves the entries**: when `switchToSharding` succeeds, the HAMT
directory is well-formed, canonical and denotes the map of the basic directory's links -/
theorem switchToSharding_entries (h : Name → List Byte) (g : Globals) (U : Name → Prop) (b : Basic) (hd : Hamt)
    (hn : (b.links.map (·.1)).Nodup) (hu : ∀ e ∈ b.links, U e.1)
    (hs : switchToSharding h g b = some hd) (ok : DigitsOK U (hd.dg h)) :
    hd.Inv h ∧ Trie.AllKeys U hd.shard ∧ ∀ k, hd.abs h k = b.getLink k := by
  unfold switchToSharding at hs
  cases hnew : Hamt.new g (hamtOpts g b) with
  | none => simp [hnew] at hs
  | some hd0 =>
    simp only [hnew] at hs
    have hsh0 : hd0.shard = Trie.nil := by
      simp only [Hamt.new] at hnew
      split at hnew
      · simp at hnew
      · split at hnew <;> simp at hnew <;> (rw [← hnew.2])
    have key : ∀ (es : List (Name × Lnk)) (hd1 : Hamt), hd1.Inv h → Trie.AllKeys U hd1.shard → (∀ e ∈ es, U e.1) →
        hd1.width = hd.width →
        ∀ hdf, es.foldl (fun acc e =>
          match acc with
          | none => none
          | some hd =>
            match hd.swapTop h e.1 (some e.2) with
            | (t, .ok _) => some { hd with shard := t, total := hd.total + 1 }
            | _ => none) (some hd1) = some hdf →
        hdf.Inv h ∧ Trie.AllKeys U hdf.shard ∧ hdf.width = hd.width ∧
          hdf.abs h = es.foldl (fun m e => upd m e.1 (some e.2)) (hd1.abs h) := by
      intro es
      induction es with
      | nil => intro hd1 hi hk _ hw hdf hf; simp only [List.foldl_nil, Option.some.injEq] at hf; subst hf; exact ⟨hi, hk, hw, rfl⟩
      | cons e es ih =>
        intro hd1 hi hk hue hw hdf hf
        simp only [List.foldl_cons] at hf
        have hdg : hd1.dg h = hd.dg h := by unfold Hamt.dg; rw [hw]
        have sp := Hamt.swapTop_spec h U hd1 e.1 (some e.2) hi (hue e (by simp)) hk (by rw [hdg]; exact ok)
        cases hx : hd1.swapTop h e.1 (some e.2) with
        | mk t res =>
          rw [hx] at sp hf
          cases res with
          | ok old =>
            simp only at sp hf
            have := ih { hd1 with shard := t, total := hd1.total + 1 } ⟨sp.1, sp.2.1⟩ sp.2.2.1
              (fun x hx => hue x (by simp [hx])) hw hdf hf
            refine ⟨this.1, this.2.1, this.2.2.1, ?_⟩
            have e1 : Hamt.abs h { hd1 with shard := t, total := hd1.total + 1 } = upd (hd1.abs h) e.1 (some e.2) := sp.2.2.2.1
            rw [this.2.2.2, e1]; rfl
          | notfound => simp at sp
          | toodeep => simp at sp
    -- the fold can only return `some` if it started from `some`
    have hw0 : ∀ (es : List (Name × Lnk)) (hdf : Hamt), es.foldl (fun acc e =>
          match acc with
          | none => none
          | some hd =>
            match hd.swapTop h e.1 (some e.2) with
            | (t, .ok _) => some { hd with shard := t, total := hd.total + 1 }
            | _ => none) (some hd0) = some hdf → hdf.width = hd0.width := by
      intro es
      generalize hd0 = x
      induction es generalizing x with
      | nil => intro hdf hf; simp only [List.foldl_nil, Option.some.injEq] at hf; rw [hf]
      | cons e es ih =>
        intro hdf hf
        simp only [List.foldl_cons] at hf
        split at hf
        · rename_i t old hx
          have := ih { x with shard := t, total := x.total + 1 } hdf hf
          exact this
        · exfalso
          have stay : ∀ (es : List (Name × Lnk)), es.foldl (fun acc e =>
              match acc with
              | none => none
              | some hd =>
                match hd.swapTop h e.1 (some e.2) with
                | (t, .ok _) => some { hd with shard := t, total := hd.total + 1 }
                | _ => none) (none : Option Hamt) = none := by
            intro es; induction es with
            | nil => rfl
            | cons e es ih => simpa [List.foldl_cons] using ih
          rw [stay] at hf; cases hf
    have hwid := hw0 _ hd hs
    have hperm : b.sortedLinks.Perm b.links := List.mergeSort_perm _ _
    obtain ⟨hinv, hkeys, _, habs⟩ := key b.sortedLinks hd0 (by unfold Hamt.Inv; rw [hsh0]; exact ⟨trivial, trivial⟩)
      (by rw [hsh0]; trivial) (fun e he => hu e (hperm.mem_iff.1 he)) hwid.symm hd hs
    refine ⟨hinv, hkeys, ?_⟩
    intro k
    rw [habs]
    have hns : (b.sortedLinks.map (·.1)).Nodup := (hperm.map _).nodup_iff.2 hn
    rw [foldl_upd_find _ _ k hns]
    have h0 : hd0.abs h k = none := by
      simp only [Hamt.abs, Trie.get, hsh0]
      split <;> rfl
    cases hf : (b.sortedLinks.find? (·.1 = k)).map (·.2) with
    | none =>
      simp only [h0]
      cases hq : b.getLink k with
      | none => rfl
      | some l =>
        have := (mem_iff_find b.links hn k l).2 hq
        rw [← hperm.mem_iff, mem_iff_find _ hns, hf] at this
        cases this
    | some l =>
      simp only
      have := (mem_iff_find _ hns k l).2 hf
      rw [hperm.mem_iff] at this
      exact ((mem_iff_find b.links hn k l).1 this).symm

end C15
