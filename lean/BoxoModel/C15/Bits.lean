import BoxoModel.Gen.C15
/-!
C15 — `hashBits.next` of /repo/ipld/unixfs/hamt/util.go, transcribed at byte level.

`mkmask` is the regenerated definition (`Gen.C15.mkmask`, T-gen).  The hash of a name (murmur3 in
production, 8 bytes) is a parameter: a list of bytes.  Core-only (imported by the drivers).
-/
namespace C15

abbrev Byte := BitVec 8

def mask (n : Nat) : Byte := Gen.C15.mkmask (BitVec.ofNat 64 n)

/-- `(hb *hashBits) next(i)` with `hb.consumed = consumed`; the recursion of the Go function (third
branch) is on `i - leftb < i`, bounded here by `fuel` (`i + 1` always suffices).  Returns the value;
the new `consumed` is `consumed + i`.  Bytes outside the slice (a panic in Go, excluded by the guard
of `Next`) read as 0. -/
def nextBits (b : List Byte) : Nat → Nat → Nat → Nat
  | 0, _, _ => 0
  | fuel + 1, consumed, i =>
    let curbi := consumed / 8
    let leftb := 8 - consumed % 8
    let curb := b.getD curbi 0
    if i = leftb then
      (mask i &&& curb).toNat
    else if i < leftb then
      let a := curb &&& mask leftb
      let b' := a &&& ~~~ mask (leftb - i)
      let c := b' >>> (leftb - i)
      c.toNat
    else
      ((mask leftb &&& curb).toNat <<< (i - leftb)) + nextBits b fuel (consumed + leftb) (i - leftb)

/-- `Next(i)`: error ("sharded directory too deep") when fewer than `i` bits are left. -/
def next (b : List Byte) (consumed i : Nat) : Option Nat :=
  if consumed + i > b.length * 8 then none else some (nextBits b (i + 1) consumed i)

/-- all digits `Next(lg2)` yields before it fails, starting at `consumed` -/
def digitsFrom (b : List Byte) (lg2 : Nat) : Nat → Nat → List Nat
  | 0, _ => []
  | fuel + 1, consumed =>
    match next b consumed lg2 with
    | none => []
    | some d => d :: digitsFrom b lg2 fuel (consumed + lg2)

/-- the index sequence a key with hash `b` follows down the trie of `2^lg2`-wide shards -/
def hashDigits (b : List Byte) (lg2 : Nat) : List Nat := digitsFrom b lg2 (b.length * 8) 0

end C15
