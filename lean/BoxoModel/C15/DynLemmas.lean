import BoxoModel.C15.ConvLemmas
import BoxoModel.C16.RuleLemmas
/-!
C15 — the auto-switching DynamicDirectory refines the map: entry counting of `swap`, conversions never
abort (link-limit arithmetic), one-step simulation under the invariant `DynInv`.
-/
namespace C15
namespace Trie

theorem fork_ents_length {k1 k2 : Name} {l1 l2 : Lnk} :
    ∀ (r1 r2 : List Nat) (c : Trie), fork k1 l1 k2 l2 r1 r2 = some c → (ents c).length = 2
  | [], _, c, h => by simp [fork] at h
  | _ :: _, [], c, h => by simp [fork] at h
  | i1 :: r1, i2 :: r2, c, h => by
    unfold fork at h
    split at h
    · cases hf : fork k1 l1 k2 l2 r1 r2 with
      | none => simp [hf] at h
      | some c' =>
        simp [hf] at h; subst h
        simp [ents, fork_ents_length r1 r2 c' hf]
    · split at h <;> (simp at h; subst h; simp [ents])

/-- entry count bookkeeping of `swap` -/
theorem swap_count (key : Name) (v : Option Lnk) (dgl : Name → List Nat) (t : Trie) (i : Nat) (r : List Nat) :
    ∀ old, (swap dgl key v t i r).2 = .ok old →
      (ents (swap dgl key v t i r).1).length + (if old.isSome then 1 else 0) = (ents t).length + (if v.isSome then 1 else 0) := by
  fun_induction swap dgl key v t i r
  case case10 =>
    rename_i dgl j k p ld l rest i r h1 h2 hne nl hv c hf
    intro old ho
    simp only [Res.ok.injEq] at ho
    subst ho; subst hv
    simp [ents, fork_ents_length _ _ _ hf]; omega
  case case3 =>
    rename_i dgl j k p ld l rest i r hlt x ih
    intro old ho
    have := ih old ho
    simp +zetaDelta only [ents, List.length_cons] at this ⊢
    omega
  case case11 =>
    rename_i dgl j ld c rest i r hlt x ih
    intro old ho
    have := ih old ho
    simp +zetaDelta only [ents, List.length_append] at this ⊢
    omega
  case case15 =>
    rename_i dgl j ld c rest i h1 h2 i' r' x old hv hx2 hx1 ih
    intro old' ho
    simp only [Res.ok.injEq] at ho; subst ho
    have := ih old hx2
    rw [hx1] at this
    simp +zetaDelta only [ents, List.length_append, List.length_nil] at this ⊢
    omega
  case case16 =>
    rename_i dgl j ld c rest i h1 h2 i' r' x old hv hx2 idx k p ld' l hx1 ih
    intro old' ho
    simp only [Res.ok.injEq] at ho; subst ho
    have := ih old hx2
    rw [hx1] at this
    simp +zetaDelta only [ents, List.length_append, List.length_cons, List.length_nil] at this ⊢
    omega
  case case17 =>
    rename_i dgl j ld c rest i h1 h2 i' r' x old hv hx2 hn1 hn2 ih
    intro old' ho
    simp only [Res.ok.injEq] at ho; subst ho
    have := ih old hx2
    simp +zetaDelta only [ents, List.length_append] at this ⊢
    omega
  case case18 =>
    rename_i dgl j ld c rest i h1 h2 i' r' x hnot ih
    intro old ho
    have := ih old ho
    simp +zetaDelta only [ents, List.length_append] at this ⊢
    omega
  all_goals (simp_all +zetaDelta [ents])

end Trie
end C15

namespace C15
open Trie

theorem Hamt.swapTop_count (h : Name → List Byte) (hd : Hamt) (key : Name) (v : Option Lnk) (old : Option SLnk)
    (ho : (hd.swapTop h key v).2 = .ok old) :
    (ents (hd.swapTop h key v).1).length + (if old.isSome then 1 else 0) =
      (ents hd.shard).length + (if v.isSome then 1 else 0) := by
  unfold Hamt.swapTop at ho ⊢
  cases hdg : hd.dg h key with
  | nil => simp [hdg] at ho
  | cons i r => simp only [hdg] at ho ⊢; exact swap_count key v _ _ i r old ho

/-- what is assumed of the globals: a usable default shard width -/
structure GOK (g : Globals) : Prop where
  dv : validShardWidth g.defWidth = true
  d0 : 0 ≤ g.defWidth
  dle : g.defWidth ≤ 1024

/-- a usable per-directory fanout setting (0 = default) -/
def SetOK (s : Settings) : Prop := 0 ≤ s.fanout ∧ s.fanout ≤ 1024 ∧ (s.fanout = 0 ∨ validShardWidth s.fanout = true)

def WidthOK (w : Nat) : Prop := validShardWidth (w : Int) = true ∧ w ≤ 1024

theorem hamt_new_ok (g : Globals) (b : Basic) (hg : GOK g) (hs : SetOK b.s) :
    ∃ hd0, Hamt.new g (hamtOpts g b) = some hd0 ∧ hd0.shard = Trie.nil ∧ hd0.total = 0 ∧ hd0.chg = 0 ∧ WidthOK hd0.width := by
  obtain ⟨h0, h1, h2⟩ := hs
  -- the fanout handed over is valid, within range and non-zero
  have hfo : validShardWidth (hamtOpts g b).fanout = true ∧ 0 ≤ (hamtOpts g b).fanout ∧ (hamtOpts g b).fanout ≤ 1024 := by
    simp only [hamtOpts]
    by_cases hv : validShardWidth b.s.fanout = true
    · simp [hv, h0, h1]
    · simp only [hv, if_false]; exact ⟨hg.dv, hg.d0, hg.dle⟩
  have hne : (hamtOpts g b).fanout ≠ 0 := by
    intro hz; rw [hz, valid_zero] at hfo; cases hfo.1
  simp only [Hamt.new]
  have c1 : ¬ ((hamtOpts g b).fanout ≠ 0 ∧ (!validShardWidth (hamtOpts g b).fanout) = true) := by
    intro hc; rw [hfo.1] at hc; simp at hc
  rw [if_neg c1]
  have c2 : ¬ ((if (hamtOpts g b).fanout = 0 then g.defWidth else (hamtOpts g b).fanout) ≤ 0 ∨
      (if (hamtOpts g b).fanout = 0 then g.defWidth else (hamtOpts g b).fanout) > 1024) := by
    rw [if_neg hne]; omega
  rw [if_neg c2]
  refine ⟨_, rfl, rfl, rfl, rfl, ?_⟩
  simp only [if_neg hne]
  constructor
  · have : (((hamtOpts g b).fanout.toNat : Nat) : Int) = (hamtOpts g b).fanout := Int.toNat_of_nonneg hfo.2.1
    rw [this]; exact hfo.1
  · omega

end C15

namespace C15
open Trie

/-- the `SetLink` loop of `switchToSharding`, from a HAMT that holds none of the (distinct) names: it
never fails and inserts exactly those entries -/
theorem sharding_fold (h : Name → List Byte) (U : Name → Prop) :
    ∀ (es : List (Name × Lnk)) (hd1 : Hamt), hd1.Inv h → AllKeys U hd1.shard → (∀ e ∈ es, U e.1) →
      (es.map (·.1)).Nodup → (∀ e ∈ es, hd1.abs h e.1 = none) → DigitsOK U (hd1.dg h) →
      ∃ hdf, es.foldl (fun acc e =>
          match acc with
          | none => none
          | some hd =>
            match hd.swapTop h e.1 (some e.2) with
            | (t, .ok _) => some { hd with shard := t, total := hd.total + 1 }
            | _ => none) (some hd1) = some hdf ∧
        hdf.Inv h ∧ AllKeys U hdf.shard ∧ hdf.width = hd1.width ∧ hdf.chg = hd1.chg ∧ hdf.s = hd1.s ∧
        hdf.total = hd1.total + es.length ∧ (ents hdf.shard).length = (ents hd1.shard).length + es.length ∧
        hdf.abs h = es.foldl (fun m e => upd m e.1 (some e.2)) (hd1.abs h)
  | [], hd1, hi, hk, _, _, _, _ => ⟨hd1, rfl, hi, hk, rfl, rfl, rfl, by simp, by simp, rfl⟩
  | e :: es, hd1, hi, hk, hu, hn, hnone, ok => by
    simp only [List.map_cons, List.nodup_cons] at hn
    have sp := Hamt.swapTop_spec h U hd1 e.1 (some e.2) hi (hu e (by simp)) hk ok
    have cnt := Hamt.swapTop_count h hd1 e.1 (some e.2)
    simp only [List.foldl_cons]
    cases hx : hd1.swapTop h e.1 (some e.2) with
    | mk t res =>
      rw [hx] at sp cnt
      cases res with
      | notfound => simp at sp
      | toodeep => simp at sp
      | ok old =>
        simp only at sp cnt ⊢
        have hold : old = none := by
          have := sp.2.2.2.2.1
          rw [hnone e (by simp)] at this
          cases old with
          | none => rfl
          | some o => simp at this
        have cnt' := cnt old rfl
        rw [hold] at cnt'
        simp only [Option.isSome_none, Bool.false_eq_true, if_false, Option.isSome_some, if_true, Nat.add_zero] at cnt'
        have habs : Hamt.abs h { hd1 with shard := t, total := hd1.total + 1 } = upd (hd1.abs h) e.1 (some e.2) := sp.2.2.2.1
        obtain ⟨hdf, hf, i2, k2, w2, c2, s2, t2, n2, a2⟩ := sharding_fold h U es { hd1 with shard := t, total := hd1.total + 1 }
          ⟨sp.1, sp.2.1⟩ sp.2.2.1 (fun x hx' => hu x (by simp [hx'])) hn.2
          (by
            intro x hx'
            rw [habs]
            have : x.1 ≠ e.1 := by
              intro he; exact hn.1 (List.mem_map.2 ⟨x, hx', he⟩)
            simp [upd, this, hnone x (by simp [hx'])])
          ok
        refine ⟨hdf, hf, i2, k2, w2, c2, s2, ?_, ?_, ?_⟩
        · rw [t2]; simp only [List.length_cons]; omega
        · rw [n2]; simp only [List.length_cons]; omega
        · rw [a2, habs]

end C15

namespace C15
open Trie

theorem switchToSharding_ok (h : Name → List Byte) (g : Globals) (U : Name → Prop) (b : Basic)
    (hg : GOK g) (hs : SetOK b.s) (hn : (b.links.map (·.1)).Nodup) (hu : ∀ e ∈ b.links, U e.1)
    (hok : ∀ w, WidthOK w → DigitsOK U (fun n => hashDigits (h n) (lg2 w))) :
    ∃ hd, switchToSharding h g b = some hd ∧ hd.Inv h ∧ AllKeys U hd.shard ∧ WidthOK hd.width ∧
      (∀ k, hd.abs h k = b.getLink k) ∧ hd.total = (ents hd.shard).length ∧
      (ents hd.shard).length = b.links.length := by
  obtain ⟨hd0, hnew, hsh, htot, _, hw⟩ := hamt_new_ok g b hg hs
  have hperm : b.sortedLinks.Perm b.links := List.mergeSort_perm _ _
  have ok0 : DigitsOK U (hd0.dg h) := hok hd0.width hw
  obtain ⟨hdf, hf, hi, hk, hwid, _, _, ht, hl, _⟩ := sharding_fold h U b.sortedLinks hd0
    (by unfold Hamt.Inv; rw [hsh]; exact ⟨trivial, trivial⟩) (by rw [hsh]; trivial)
    (fun e he => hu e (hperm.mem_iff.1 he)) ((hperm.map _).nodup_iff.2 hn)
    (by intro e _; simp only [Hamt.abs, Trie.get, hsh]; split <;> rfl) ok0
  have hs' : switchToSharding h g b = some hdf := by unfold switchToSharding; rw [hnew]; exact hf
  have okf : DigitsOK U (hdf.dg h) := by
    have : hdf.dg h = hd0.dg h := by unfold Hamt.dg; rw [hwid]
    rw [this]; exact ok0
  refine ⟨hdf, hs', hi, hk, by rw [hwid]; exact hw, (switchToSharding_entries h g U b hdf hn hu hs' okf).2.2, ?_, ?_⟩
  · rw [ht, hl, htot, hsh]; simp [ents]
  · rw [hl, hsh, hperm.length_eq]; simp [ents]

/-- `addLinkChild` on a duplicate-free basic directory with exact link count -/
theorem addLink_total (g : Globals) (b : Basic) (n : Name) (l : Lnk) (hn : (b.links.map (·.1)).Nodup)
    (ht : b.total = b.links.length) :
    match Basic.addLink g b n l with
    | .ok b' => b'.total = b'.links.length
    | .maxlinks => b.getLink n = none ∧ b.s.maxLinks > 0 ∧ b.total + 1 > b.s.maxLinks := by
  unfold Basic.addLink Basic.remove
  cases hold : b.getLink n with
  | none =>
    simp only
    by_cases hfull : b.s.maxLinks > 0 ∧ b.total + 1 > b.s.maxLinks
    · simp only [hfull, and_self, if_true]
    · simp only [hfull, if_false]
      rw [ht]; simp [List.length_append]
  | some lo =>
    simp only
    obtain ⟨hlen, _⟩ := filter_present (fun _ => (0 : Int)) b.links hn n lo hold
    have hc : (b.compute g).2 = b.links.length := by
      simp only [Basic.compute]; split <;> (try split) <;> rfl
    by_cases hneg : b.est - b.delta g n lo < 0
    · simp only [hneg, if_true, List.length_append, List.length_cons, List.length_nil, hc]
      simp only [ne_eq] at hlen ⊢; omega
    · simp only [hneg, if_false, List.length_append, List.length_cons, List.length_nil, ht]
      simp only [ne_eq] at hlen ⊢; omega

end C15

namespace C15
open Trie

/-- the `addLinkChild` loop of `switchToBasic` does not abort when the link limit leaves room -/
theorem basic_fold_ok (g : Globals) :
    ∀ (es : List (Name × Lnk)) (k : Nat) (b0 : Basic),
      ((b0.links ++ es).map (·.1)).Nodup → b0.total = b0.links.length →
      (b0.s.maxLinks ≤ 0 ∨ ((b0.links.length + es.length : Nat) : Int) ≤ b0.s.maxLinks) →
      ∃ b, (es.foldl (fun (acc : (Basic ⊕ OpRes) × Nat) e =>
        match acc.1 with
        | .inl b => (match Basic.addLink g b e.1 e.2 with
            | .ok b' => (.inl b', acc.2 + 1)
            | .maxlinks => (.inr OpRes.maxlinks, acc.2 + 1))
        | .inr x => (.inr x, acc.2)) ((Sum.inl b0 : Basic ⊕ OpRes), k)).1 = .inl b ∧
        b.links = b0.links ++ es ∧ b.total = b.links.length ∧ b.s = b0.s
  | [], k, b0, _, ht, _ => ⟨b0, rfl, by simp, ht, rfl⟩
  | e :: es, k, b0, hn, ht, hroom => by
    have hn0 : (b0.links.map (·.1)).Nodup := by
      rw [List.map_append] at hn; exact (List.nodup_append.1 hn).1
    have sp := basic_addLink_spec g b0 e.1 e.2 hn0
    have st := addLink_total g b0 e.1 e.2 hn0 ht
    have habs : b0.getLink e.1 = none := by
      cases hg : b0.getLink e.1 with
      | none => rfl
      | some lo =>
        exfalso
        have hm : (e.1, lo) ∈ b0.links := (mem_iff_find b0.links hn0 e.1 lo).2 hg
        rw [List.map_append, List.nodup_append] at hn
        exact hn.2.2 e.1 (List.mem_map.2 ⟨(e.1, lo), hm, rfl⟩) e.1 (by simp) rfl
    simp only [List.foldl_cons]
    cases hal : Basic.addLink g b0 e.1 e.2 with
    | maxlinks =>
      rw [hal] at st
      simp only at st
      exfalso
      rcases hroom with h | h
      · omega
      · have := st.2.2; rw [ht] at this
        simp only [List.length_cons] at h
        omega
    | ok b1 =>
      rw [hal] at sp st
      simp only at sp st ⊢
      obtain ⟨_, hn1, hs1, hl1⟩ := sp
      rw [filter_absent b0.links hn0 e.1 habs] at hl1
      obtain ⟨b, hb, hl, htb, hsb⟩ := basic_fold_ok g es (k + 1) b1 (by rw [hl1]; simpa using hn) st
        (by
          rw [hs1, hl1]
          rcases hroom with h | h
          · exact Or.inl h
          · right; simp only [List.length_append, List.length_cons, List.length_nil] at h ⊢; omega)
      exact ⟨b, hb, by rw [hl, hl1]; simp, htb, by rw [hsb, hs1]⟩

theorem basic_new_ok (g : Globals) (s : Settings) (hs : SetOK s) :
    ∃ b0, Basic.new g s = some b0 ∧ b0.links = [] ∧ b0.total = 0 ∧ b0.s.maxLinks = s.maxLinks := by
  simp only [Basic.new]
  have c1 : ¬ (s.fanout ≠ 0 ∧ (!validShardWidth s.fanout) = true) := by
    intro ⟨h0, hv⟩
    rcases hs.2.2 with h | h
    · exact h0 h
    · rw [h] at hv; simp at hv
  rw [if_neg c1]
  refine ⟨_, rfl, rfl, ?_, rfl⟩
  have hc : ∀ b1 : Basic, b1.links = [] → (b1.compute g).2 = 0 := by
    intro b1 h1
    simp only [Basic.compute, h1, List.length_nil]
    by_cases m1 : b1.s.effMode g = 1
    · simp [m1]
    · by_cases m0 : b1.s.effMode g = 0 <;> simp [m1, m0]
  exact hc _ rfl

/-- **HAMT → basic never aborts** when the link limit handed over leaves room for the entries -/
theorem switchToBasic_ok (g : Globals) (dgl : Name → List Nat) (hd : Hamt) (ml : Int) (hs : SetOK hd.s) (hwf : WF dgl hd.shard)
    (hroom : ml ≤ 0 ∨ ((ents hd.shard).length : Int) ≤ ml) :
    ∃ b, switchToBasic g hd ml = ({ hd with shard := hd.shard.stripAll }, some (.inl b)) ∧
      b.links = ents hd.shard ∧ b.total = b.links.length ∧ b.s.maxLinks = ml := by
  have hso : SetOK (basicOpts g hd ml) := hs
  obtain ⟨b0, hnew, hl0, ht0, hm0⟩ := basic_new_ok g (basicOpts g hd ml) hso
  have hnd := ents_nodup dgl hd.shard hwf
  obtain ⟨b, hb, hl, htb, hsb⟩ := basic_fold_ok g (ents hd.shard) 0 b0 (by rw [hl0]; simpa using hnd)
    (by rw [ht0, hl0]; simp) (by
      rw [hm0, hl0]
      simp only [basicOpts, List.length_nil, Nat.zero_add]
      exact hroom)
  refine ⟨b, ?_, by rw [hl, hl0]; simp, htb, by rw [hsb, hm0]; rfl⟩
  unfold switchToBasic
  rw [hnew]
  simp only
  split
  · rename_i b' hres
    have : (Sum.inl b' : Basic ⊕ OpRes) = Sum.inl b := hres.symm.trans hb
    cases this; rfl
  · rename_i x hres
    have : (Sum.inr x : Basic ⊕ OpRes) = Sum.inl b := hres.symm.trans hb
    cases this

end C15

namespace C15
open Trie

/-- the facts the dynamic directory keeps about its HAMT: well-formed, canonical, names in the universe,
usable width, and a link count that is either unknown (loaded, not counted) or exact -/
structure HamtOK (h : Name → List Byte) (U : Name → Prop) (hd : Hamt) : Prop where
  inv : hd.Inv h
  keys : AllKeys U hd.shard
  width : WidthOK hd.width
  total : hd.total = -1 ∨ hd.total = ((ents hd.shard).length : Nat)

theorem Hamt.addChild_spec (h : Name → List Byte) (U : Name → Prop) (hd : Hamt) (n : Name) (l : Lnk)
    (hk : HamtOK h U hd) (hu : U n) (ok : DigitsOK U (hd.dg h)) :
    (hd.addChild h n l).2 = .ok ∧ HamtOK h U (hd.addChild h n l).1 ∧ (hd.addChild h n l).1.s = hd.s ∧
      (hd.addChild h n l).1.abs h = upd (hd.abs h) n (some l) := by
  have sp := Hamt.swapTop_spec h U hd n (some l) hk.inv hu hk.keys ok
  have cnt := Hamt.swapTop_count h hd n (some l)
  unfold Hamt.addChild
  cases hx : hd.swapTop h n (some l) with
  | mk t res =>
    rw [hx] at sp cnt
    cases res with
    | notfound => simp at sp
    | toodeep => simp at sp
    | ok old =>
      simp only at sp cnt ⊢
      have c := cnt old rfl
      refine ⟨by trivial, ⟨⟨sp.1, sp.2.1⟩, sp.2.2.1, hk.width, ?_⟩, by trivial, sp.2.2.2.1⟩
      simp only [Option.isSome_some, if_true] at c
      rcases hk.total with h1 | h1
      · left; simp [h1]
      · right
        cases old with
        | none =>
          have hne : hd.total ≠ -1 := by rw [h1]; omega
          simp only [Option.isSome_none, Bool.false_eq_true, if_false, Nat.add_zero] at c
          simp [hne, h1, c]
        | some o =>
          simp only [Option.isSome_some, if_true] at c
          simp only [Option.isNone_some, Bool.false_eq_true, false_and, if_false]
          rw [h1]; congr 1; omega

theorem Hamt.removeChild_spec (h : Name → List Byte) (U : Name → Prop) (hd : Hamt) (n : Name)
    (hk : HamtOK h U hd) (hu : U n) (ok : DigitsOK U (hd.dg h)) :
    HamtOK h U (hd.removeChild h n).1 ∧ (hd.removeChild h n).1.s = hd.s ∧
    (((hd.removeChild h n).2 = .ok ∧ hd.abs h n ≠ none ∧ (hd.removeChild h n).1.abs h = upd (hd.abs h) n none) ∨
     ((hd.removeChild h n).2 = .notfound ∧ hd.abs h n = none ∧ (hd.removeChild h n).1.abs h = hd.abs h)) := by
  have sp := Hamt.swapTop_spec h U hd n none hk.inv hu hk.keys ok
  have cnt := Hamt.swapTop_count h hd n none
  unfold Hamt.removeChild
  cases hx : hd.swapTop h n none with
  | mk t res =>
    rw [hx] at sp cnt
    cases res with
    | toodeep => simp at sp
    | notfound =>
      simp only at sp ⊢
      refine ⟨⟨⟨sp.1, sp.2.1⟩, sp.2.2.1, hk.width, ?_⟩, by trivial, Or.inr ⟨by trivial, sp.2.2.2.2.1, sp.2.2.2.2.2⟩⟩
      -- nothing was removed: the entry list is the same
      have hd' := toDag_swap_err n none (hd.dg h) hd.shard
      rcases hk.total with h1 | h1
      · exact Or.inl h1
      · right; rw [h1]
        have : ents t = ents hd.shard := by
          unfold Hamt.swapTop at hx
          cases hdg : hd.dg h n with
          | nil => simp [hdg] at hx
          | cons i r =>
            simp only [hdg] at hx
            have he := hd' i r (by rw [hx]; intro old; simp)
            rw [hx] at he
            exact ents_congr he
        rw [this]
    | ok old =>
      simp only at sp cnt ⊢
      have c := cnt old rfl
      cases old with
      | none => simp at sp
      | some o =>
        simp only [Option.isSome_some, if_true, Option.isSome_none, Bool.false_eq_true, if_false, Nat.add_zero] at c
        refine ⟨⟨⟨sp.1, sp.2.1⟩, sp.2.2.1, hk.width, ?_⟩, by trivial, Or.inl ⟨by trivial, ?_, sp.2.2.2.1⟩⟩
        · rcases hk.total with h1 | h1
          · left; simp [h1]
          · right
            have hne : hd.total ≠ -1 := by rw [h1]; omega
            simp only [hne, ne_eq, not_false_eq_true, if_true, h1]
            omega
        · have := sp.2.2.2.2.1; simp at this; rw [← this]; simp

end C15

namespace C15
open Trie

theorem gate_yes_canMax (g : Globals) (hd : Hamt) (n : Name) (add : Option Lnk) (old : Option SLnk)
    (hy : hd.gateAfterFind g n add old = .yes) :
    ¬ (hd.s.maxLinks > 0 ∧ hd.total + (if add.isSome then 1 else 0) - (if old.isSome then 1 else 0) > hd.s.maxLinks) := by
  intro hc
  simp [Hamt.gateAfterFind, hc] at hy

theorem gate_ne_toodeep (g : Globals) (hd : Hamt) (n : Name) (add : Option Lnk) (old : Option SLnk) :
    hd.gateAfterFind g n add old ≠ .toodeep := by
  have ite_gate : ∀ (c : Prop) [Decidable c], (if c then Hamt.Gate.yes else Hamt.Gate.no) ≠ Hamt.Gate.toodeep := by
    intro c _; split <;> simp
  unfold Hamt.gateAfterFind
  simp only
  split
  · exact ite_gate _
  · exact ite_gate _

/-- `needsToSwitchToBasicDir`: only ghosts and the lazy link count change; a "yes" leaves room under the link limit -/
theorem Hamt.needsBasic_spec (h : Name → List Byte) (g : Globals) (U : Name → Prop) (hd : Hamt) (n : Name) (add : Option Lnk)
    (hk : HamtOK h U hd) (ok : DigitsOK U (hd.dg h)) :
    (hd.needsBasic h g n add).2 ≠ .toodeep ∧ HamtOK h U (hd.needsBasic h g n add).1 ∧
    (hd.needsBasic h g n add).1.s = hd.s ∧ (hd.needsBasic h g n add).1.width = hd.width ∧
    (hd.needsBasic h g n add).1.abs h = hd.abs h ∧ ents (hd.needsBasic h g n add).1.shard = ents hd.shard ∧
    ((hd.needsBasic h g n add).2 = .yes → hd.s.maxLinks > 0 →
      (hd.needsBasic h g n add).1.total = ((ents hd.shard).length : Nat) ∧
      ((ents hd.shard).length : Int) + (if add.isSome then 1 else 0) - (if (hd.abs h n).isSome then 1 else 0) ≤ hd.s.maxLinks) := by
  unfold Hamt.needsBasic
  by_cases hthr : hd.s.effThr g = 0
  · simp only [hthr, if_true]
    exact ⟨by simp, hk, by trivial, by trivial, by trivial, by trivial, by intro hy; cases hy⟩
  · simp only [hthr, if_false]
    unfold Hamt.findTop
    cases hdn : hd.dg h n with
    | nil => exact absurd hdn (ok.ne n)
    | cons i r =>
      simp only
      have hl := find_lookup n hd.shard i r
      have hdag := toDag_find n hd.shard i r
      have hnt := find_not_toodeep n (hd.dg h) hd.shard i r hk.inv.1 hk.inv.2 hdn ok.len
      have habsn : hd.abs h n = lookup n hd.shard i r := by simp [Hamt.abs, Trie.get, hdn]
      cases hx : Trie.find n hd.shard i r with
      | mk t fr =>
        rw [hx] at hl hdag hnt
        simp only at hl hdag hnt
        have hents : ents t = ents hd.shard := ents_congr hdag
        -- facts about the directory after Find + countLinks
        have base : ∀ (hd1 : Hamt), hd1 = Hamt.countLinks { hd with shard := t } →
            HamtOK h U hd1 ∧ hd1.s = hd.s ∧ hd1.width = hd.width ∧ hd1.abs h = hd.abs h ∧ ents hd1.shard = ents hd.shard ∧
            (hd.s.maxLinks > 0 → hd1.total = ((ents hd.shard).length : Nat)) := by
          intro hd1 he
          unfold Hamt.countLinks at he
          by_cases hc : hd.s.maxLinks > 0 ∧ hd.total = (-1 : Int)
          · simp only [hc, and_self, if_true] at he
            subst he
            refine ⟨⟨⟨(wf_congr hdag _).2 hk.inv.1, (canon_congr hdag).2 hk.inv.2⟩, (allKeys_congr hdag).2 hk.keys, hk.width,
              Or.inr rfl⟩, rfl, rfl, ?_, hents, fun _ => by simp [hents]⟩
            simp only [Hamt.abs, Hamt.dg]; exact get_congr hdag _
          · simp only [hc, if_false] at he
            subst he
            refine ⟨⟨⟨(wf_congr hdag _).2 hk.inv.1, (canon_congr hdag).2 hk.inv.2⟩, (allKeys_congr hdag).2 hk.keys, hk.width,
              ?_⟩, rfl, rfl, ?_, hents, ?_⟩
            · rcases hk.total with h1 | h1
              · exact Or.inl h1
              · right; simp only [hents]; exact h1
            · simp only [Hamt.abs, Hamt.dg]; exact get_congr hdag _
            · intro hpos
              rcases hk.total with h1 | h1
              · exact absurd ⟨hpos, h1⟩ hc
              · exact h1
        cases fr with
        | toodeep => exact absurd rfl hnt
        | found s =>
          simp only
          obtain ⟨b1, b2, b3, b4, b5, b6⟩ := base _ rfl
          refine ⟨gate_ne_toodeep g _ n add (some s),
            b1, b2, b3, b4, b5, ?_⟩
          intro hy hpos
          have hcm := gate_yes_canMax g _ n add (some s) hy
          rw [b2] at hcm
          have ht := b6 hpos
          refine ⟨ht, ?_⟩
          have hsome : (hd.abs h n).isSome = true := by rw [habsn, ← hl]; rfl
          simp only [hsome, if_true]
          simp only [Option.isSome_some, if_true] at hcm
          rw [ht] at hcm
          have : ¬ ((ents hd.shard).length : Int) + (if add.isSome = true then 1 else 0) - 1 > hd.s.maxLinks := fun h' => hcm ⟨hpos, h'⟩
          omega
        | notfound =>
          simp only
          obtain ⟨b1, b2, b3, b4, b5, b6⟩ := base _ rfl
          refine ⟨gate_ne_toodeep g _ n add none,
            b1, b2, b3, b4, b5, ?_⟩
          intro hy hpos
          have hcm := gate_yes_canMax g _ n add none hy
          rw [b2] at hcm
          have ht := b6 hpos
          refine ⟨ht, ?_⟩
          have hnone : (hd.abs h n).isSome = false := by
            rw [habsn, ← hl]; rfl
          simp only [hnone, Bool.false_eq_true, if_false]
          simp only [Option.isSome_none, Bool.false_eq_true, if_false] at hcm
          rw [ht] at hcm
          have : ¬ ((ents hd.shard).length : Int) + (if add.isSome = true then 1 else 0) - 0 > hd.s.maxLinks := fun h' => hcm ⟨hpos, h'⟩
          omega

end C15

namespace C15
open Trie

theorem setok_basic_new (g : Globals) (s : Settings) (b0 : Basic) (hg : GOK g) (hs : SetOK s) (hn : Basic.new g s = some b0) :
    SetOK b0.s := by
  obtain ⟨he, _⟩ := Basic.new_s g s b0 hn
  rw [he]
  unfold SetOK at hs ⊢
  simp only
  by_cases h0 : s.fanout = 0
  · simp only [h0, if_true]; exact ⟨hg.d0, hg.dle, Or.inr hg.dv⟩
  · simp only [h0, if_false]; exact ⟨hs.1, hs.2.1, hs.2.2.elim (fun h => absurd h h0) (fun h => Or.inr h)⟩

theorem setok_hamt_new (g : Globals) (s : Settings) (hd0 : Hamt) (hg : GOK g) (hs : SetOK s) (hn : Hamt.new g s = some hd0) :
    SetOK hd0.s := by
  obtain ⟨he, _, _⟩ := Hamt.new_s g s hd0 hn
  rw [he]
  unfold SetOK at hs ⊢
  simp only
  by_cases h0 : s.fanout = 0
  · simp only [h0, if_true]; exact ⟨hg.d0, hg.dle, Or.inr hg.dv⟩
  · simp only [h0, if_false]; exact ⟨hs.1, hs.2.1, hs.2.2.elim (fun h => absurd h h0) (fun h => Or.inr h)⟩

theorem setok_hamtOpts (g : Globals) (b : Basic) (hg : GOK g) (hs : SetOK b.s) : SetOK (hamtOpts g b) := by
  unfold SetOK hamtOpts at *
  simp only
  by_cases hv : validShardWidth b.s.fanout = true
  · simp only [hv, if_true]; exact ⟨hs.1, hs.2.1, by simp⟩
  · simp only [hv, if_false]; exact ⟨hg.d0, hg.dle, Or.inr hg.dv⟩

theorem remove_total (g : Globals) (b b' : Basic) (n : Name) (hn : (b.links.map (·.1)).Nodup)
    (ht : b.total = b.links.length) (hr : b.remove g n = some b') : b'.total = b'.links.length := by
  unfold Basic.remove at hr
  cases hold : b.getLink n with
  | none => simp [hold] at hr
  | some lo =>
    simp only [hold] at hr
    obtain ⟨hlen, _⟩ := filter_present (fun _ => (0 : Int)) b.links hn n lo hold
    have hc : (b.compute g).2 = b.links.length := by
      simp only [Basic.compute]; split <;> (try split) <;> rfl
    simp only [Option.some.injEq] at hr
    rw [← hr]
    by_cases hneg : b.est - b.delta g n lo < 0
    · simp only [hneg, if_true, hc]; simp only [ne_eq] at hlen ⊢; omega
    · simp only [hneg, if_false, ht]; simp only [ne_eq] at hlen ⊢; omega

/-- the invariant of the auto-switching directory -/
def DynInv (h : Name → List Byte) (U : Name → Prop) (st : State) : Prop :=
  st.dyn = true ∧ SetOK st.dir.settings ∧
  match st.dir with
  | .basic b => (b.links.map (·.1)).Nodup ∧ (∀ e ∈ b.links, U e.1) ∧ b.total = b.links.length
  | .hamt hd => HamtOK h U hd

end C15

namespace C15
open Trie

theorem dyn_add_basic (h : Name → List Byte) (g : Globals) (U : Name → Prop) (b : Basic) (n : Name) (l : Lnk)
    (hg : GOK g) (hok : ∀ w, WidthOK w → DigitsOK U (fun n => hashDigits (h n) (lg2 w)))
    (hi : DynInv h U { dyn := true, dir := .basic b }) (hun : U n) :
    DynInv h U (addChild h g { dyn := true, dir := .basic b } n l).1 ∧
    SpecStep true (fun k => b.getLink k) (.add n l) (.res (addChild h g { dyn := true, dir := .basic b } n l).2)
      (absState h (addChild h g { dyn := true, dir := .basic b } n l).1) := by
  obtain ⟨_, hso, hn, hu, ht⟩ := hi
  simp only [Dir.settings] at hso
  have sp := basic_addLink_spec g b n l hn
  have stt := addLink_total g b n l hn ht
  simp only [addChild, Bool.not_true, Bool.false_eq_true, if_false]
  cases hnh : needsHamt g b n l with
  | false =>
    simp only [Bool.not_false, if_true]
    cases hal : Basic.addLink g b n l with
    | ok b' =>
      rw [hal] at sp stt
      simp only at sp stt ⊢
      obtain ⟨habs, hn', hs', hl'⟩ := sp
      refine ⟨⟨rfl, by simp only [Dir.settings, hs']; exact hso, hn', ?_, stt⟩, Or.inl ⟨rfl, habs⟩⟩
      intro e he
      rw [hl'] at he
      rcases List.mem_append.1 he with h1 | h1
      · exact hu e (List.mem_filter.1 h1).1
      · simp at h1; rw [h1]; exact hun
    | maxlinks =>
      rw [hal] at sp
      simp only at sp ⊢
      exact ⟨⟨rfl, hso, hn, hu, ht⟩, Or.inr ⟨rfl, sp.1, rfl, rfl⟩⟩
  | true =>
    simp only [Bool.not_true, Bool.false_eq_true, if_false]
    obtain ⟨hd, hs, hinv, hkeys, hw, habs, htot, _⟩ := switchToSharding_ok h g U b hg hso hn hu hok
    rw [hs]
    simp only
    obtain ⟨hd0, hn0, hs0⟩ := switchToSharding_s h g b hd hs
    have hso' : SetOK hd.s := by rw [hs0]; exact setok_hamt_new g _ hd0 hg (setok_hamtOpts g b hg hso) hn0
    have hk' : HamtOK h U { hd with s := { hd.s with thr := b.s.thr } } := ⟨hinv, hkeys, hw, Or.inr htot⟩
    have ok' : DigitsOK U (Hamt.dg h { hd with s := { hd.s with thr := b.s.thr } }) := hok hd.width hw
    obtain ⟨r1, r2, r3, r4⟩ := Hamt.addChild_spec h U _ n l hk' hun ok'
    cases hac : Hamt.addChild h { hd with s := { hd.s with thr := b.s.thr } } n l with
    | mk hd' res =>
      rw [hac] at r1 r2 r3 r4
      simp only at r1 r2 r3 r4
      subst r1
      simp only
      refine ⟨⟨rfl, by simp only [Dir.settings, r3]; exact hso', r2⟩, Or.inl ⟨rfl, ?_⟩⟩
      simp only [absState, r4]
      funext k
      simp only [upd]
      have : Hamt.abs h { hd with s := { hd.s with thr := b.s.thr } } = Hamt.abs h hd := rfl
      rw [this, habs k]

end C15

namespace C15
open Trie

theorem dyn_add_hamt (h : Name → List Byte) (g : Globals) (U : Name → Prop) (hd : Hamt) (n : Name) (l : Lnk)
    (hg : GOK g) (hok : ∀ w, WidthOK w → DigitsOK U (fun n => hashDigits (h n) (lg2 w)))
    (hi : DynInv h U { dyn := true, dir := .hamt hd }) (hun : U n) :
    DynInv h U (addChild h g { dyn := true, dir := .hamt hd } n l).1 ∧
    SpecStep true (hd.abs h) (.add n l) (.res (addChild h g { dyn := true, dir := .hamt hd } n l).2)
      (absState h (addChild h g { dyn := true, dir := .hamt hd } n l).1) := by
  obtain ⟨_, hso, hk⟩ := hi
  simp only [Dir.settings] at hso
  simp only at hk
  have ok : DigitsOK U (hd.dg h) := hok hd.width hk.width
  obtain ⟨nb1, nb2, nb3, nb4, nb5, nb6, nb7⟩ := Hamt.needsBasic_spec h g U hd n (some l) hk ok
  simp only [addChild, Bool.not_true, Bool.false_eq_true, if_false]
  cases hx : hd.needsBasic h g n (some l) with
  | mk hd1 gate =>
    rw [hx] at nb1 nb2 nb3 nb4 nb5 nb6 nb7
    simp only at nb1 nb2 nb3 nb4 nb5 nb6 nb7
    have ok1 : DigitsOK U (hd1.dg h) := by
      have : hd1.dg h = hd.dg h := by unfold Hamt.dg; rw [nb4]
      rw [this]; exact ok
    cases gate with
    | toodeep => exact absurd rfl nb1
    | no =>
      simp only
      obtain ⟨r1, r2, r3, r4⟩ := Hamt.addChild_spec h U hd1 n l nb2 hun ok1
      cases hac : hd1.addChild h n l with
      | mk hd' res =>
        rw [hac] at r1 r2 r3 r4
        simp only at r1 r2 r3 r4
        subst r1
        refine ⟨⟨rfl, by simp only [Dir.settings, r3, nb3]; exact hso, r2⟩, Or.inl ⟨rfl, ?_⟩⟩
        simp only [absState, r4, nb5]
    | yes =>
      simp only
      have hso1 : SetOK hd1.s := by rw [nb3]; exact hso
      have hroom : hd1.s.maxLinks ≤ 0 ∨ ((ents hd1.shard).length : Int) ≤ hd1.s.maxLinks := by
        rw [nb3, nb6]
        by_cases hml : hd.s.maxLinks > 0
        · right
          have := (nb7 rfl hml).2
          simp only [Option.isSome_some, if_true] at this
          split at this <;> omega
        · left; omega
      obtain ⟨b, hsb, hbl, hbt, hbm⟩ := switchToBasic_ok g (hd1.dg h) hd1 hd1.s.maxLinks hso1 nb2.inv.1 hroom
      rw [hsb]
      simp only
      obtain ⟨_, hsbs⟩ := switchToBasic_s g hd1 hd1.s.maxLinks
      rw [hsb] at hsbs
      obtain ⟨b0, hb0, hbs⟩ := hsbs b rfl
      have hso_b : SetOK b.s := by rw [hbs]; exact setok_basic_new g _ b0 hg (show SetOK (basicOpts g hd1 hd1.s.maxLinks) from hso1) hb0
      obtain ⟨_, hnd, hget⟩ := switchToBasic_entries g (hd1.dg h) hd1 hd1.s.maxLinks b nb2.inv.1 (by rw [hsb])
      have hub : ∀ e ∈ b.links, U e.1 := by
        intro e he; rw [hbl] at he
        exact mem_ents_keys (P := U) hd1.shard (show (e.1, e.2) ∈ ents hd1.shard from he) nb2.keys
      have sp := basic_addLink_spec g { b with s := { b.s with thr := hd1.s.thr } } n l hnd
      have stt := addLink_total g { b with s := { b.s with thr := hd1.s.thr } } n l hnd hbt
      cases hal : Basic.addLink g { b with s := { b.s with thr := hd1.s.thr } } n l with
      | ok b' =>
        rw [hal] at sp stt
        simp only at sp stt ⊢
        obtain ⟨habs, hn', hs', hl'⟩ := sp
        refine ⟨⟨rfl, by simp only [Dir.settings, hs']; exact hso_b, hn', ?_, stt⟩, Or.inl ⟨rfl, ?_⟩⟩
        · intro e he
          rw [hl'] at he
          rcases List.mem_append.1 he with h1 | h1
          · exact hub e (List.mem_filter.1 h1).1
          · simp at h1; rw [h1]; exact hun
        · simp only [absState]
          rw [habs]
          congr 1
          funext k
          show b.getLink k = hd.abs h k
          rw [hget k, ← nb5]; rfl
      | maxlinks =>
        rw [hal] at stt
        simp only at stt
        exfalso
        obtain ⟨hnone, hpos, hfull⟩ := stt
        rw [hbm, nb3] at hpos hfull
        have hnone' : hd.abs h n = none := by
          have : b.getLink n = none := hnone
          rw [hget n] at this
          rw [← nb5]; exact this
        have := (nb7 rfl hpos).2
        simp only [Option.isSome_some, if_true, hnone', Option.isSome_none, Bool.false_eq_true, if_false] at this
        rw [hbt, hbl, nb6] at hfull
        omega

end C15

namespace C15
open Trie

theorem dyn_rm_basic (h : Name → List Byte) (g : Globals) (U : Name → Prop) (b : Basic) (n : Name)
    (hi : DynInv h U { dyn := true, dir := .basic b }) :
    DynInv h U (removeChild h g { dyn := true, dir := .basic b } n).1 ∧
    SpecStep true (fun k => b.getLink k) (.rm n) (.res (removeChild h g { dyn := true, dir := .basic b } n).2)
      (absState h (removeChild h g { dyn := true, dir := .basic b } n).1) := by
  obtain ⟨_, hso, hn, hu, ht⟩ := hi
  simp only [Dir.settings] at hso
  have hr := basic_remove_spec g b n hn
  simp only [removeChild]
  cases hrm : b.remove g n with
  | some b' =>
    rw [hrm] at hr
    simp only at hr ⊢
    obtain ⟨hne, habs, hn', hs, hl⟩ := hr
    refine ⟨⟨rfl, by simp only [Dir.settings, hs]; exact hso, hn', ?_, remove_total g b b' n hn ht hrm⟩, Or.inr ⟨hne, rfl, habs⟩⟩
    intro e he; rw [hl] at he; exact hu e (List.mem_filter.1 he).1
  | none =>
    rw [hrm] at hr
    simp only at hr ⊢
    exact ⟨⟨rfl, hso, hn, hu, ht⟩, Or.inl ⟨hr, rfl, rfl⟩⟩

theorem dyn_rm_hamt (h : Name → List Byte) (g : Globals) (U : Name → Prop) (hd : Hamt) (n : Name)
    (hg : GOK g) (hok : ∀ w, WidthOK w → DigitsOK U (fun n => hashDigits (h n) (lg2 w)))
    (hi : DynInv h U { dyn := true, dir := .hamt hd }) (hun : U n) :
    DynInv h U (removeChild h g { dyn := true, dir := .hamt hd } n).1 ∧
    SpecStep true (hd.abs h) (.rm n) (.res (removeChild h g { dyn := true, dir := .hamt hd } n).2)
      (absState h (removeChild h g { dyn := true, dir := .hamt hd } n).1) := by
  obtain ⟨_, hso, hk⟩ := hi
  simp only [Dir.settings] at hso
  simp only at hk
  have ok : DigitsOK U (hd.dg h) := hok hd.width hk.width
  obtain ⟨nb1, nb2, nb3, nb4, nb5, nb6, nb7⟩ := Hamt.needsBasic_spec h g U hd n none hk ok
  simp only [removeChild, Bool.not_true, Bool.false_eq_true, if_false]
  cases hx : hd.needsBasic h g n none with
  | mk hd1 gate =>
    rw [hx] at nb1 nb2 nb3 nb4 nb5 nb6 nb7
    simp only at nb1 nb2 nb3 nb4 nb5 nb6 nb7
    have ok1 : DigitsOK U (hd1.dg h) := by
      have : hd1.dg h = hd.dg h := by unfold Hamt.dg; rw [nb4]
      rw [this]; exact ok
    cases gate with
    | toodeep => exact absurd rfl nb1
    | no =>
      simp only
      obtain ⟨r1, r2, r3⟩ := Hamt.removeChild_spec h U hd1 n nb2 hun ok1
      cases hac : hd1.removeChild h n with
      | mk hd' res =>
        rw [hac] at r1 r2 r3
        simp only at r1 r2 r3
        refine ⟨⟨rfl, by simp only [Dir.settings, r2, nb3]; exact hso, r1⟩, ?_⟩
        rcases r3 with ⟨e1, e2, e3⟩ | ⟨e1, e2, e3⟩
        · subst e1; exact Or.inr ⟨by rw [← nb5]; exact e2, rfl, by simp only [absState, e3, nb5]⟩
        · subst e1; exact Or.inl ⟨by rw [← nb5]; exact e2, rfl, by simp only [absState, e3, nb5]⟩
    | yes =>
      simp only
      have hso1 : SetOK hd1.s := by rw [nb3]; exact hso
      generalize hmle : (if hd1.s.maxLinks > 0 then hd1.s.maxLinks + 1 else hd1.s.maxLinks) = ml
      have hroom : ml ≤ 0 ∨ ((ents hd1.shard).length : Int) ≤ ml := by
        rw [← hmle, nb3, nb6]
        by_cases hml : hd.s.maxLinks > 0
        · right
          have := (nb7 rfl hml).2
          simp only [Option.isSome_none, Bool.false_eq_true, if_false] at this
          rw [if_pos hml]
          split at this <;> omega
        · left; rw [if_neg hml]; omega
      obtain ⟨b, hsb, hbl, hbt, hbm⟩ := switchToBasic_ok g (hd1.dg h) hd1 ml hso1 nb2.inv.1 hroom
      rw [hsb]
      simp only
      obtain ⟨_, hsbs⟩ := switchToBasic_s g hd1 ml
      rw [hsb] at hsbs
      obtain ⟨b0, hb0, hbs⟩ := hsbs b rfl
      have hso_b : SetOK b.s := by rw [hbs]; exact setok_basic_new g _ b0 hg (show SetOK (basicOpts g hd1 ml) from hso1) hb0
      obtain ⟨_, hnd, hget⟩ := switchToBasic_entries g (hd1.dg h) hd1 ml b nb2.inv.1 (by rw [hsb])
      have hub : ∀ e ∈ b.links, U e.1 := by
        intro e he; rw [hbl] at he
        exact mem_ents_keys (P := U) hd1.shard (show (e.1, e.2) ∈ ents hd1.shard from he) nb2.keys
      have hr := basic_remove_spec g { b with s := { b.s with thr := hd1.s.thr } } n hnd
      cases hrm : Basic.remove g { b with s := { b.s with thr := hd1.s.thr } } n with
      | some b' =>
        rw [hrm] at hr
        simp only at hr ⊢
        obtain ⟨hne, habs, hn', hs, hl⟩ := hr
        have htot' := remove_total g { b with s := { b.s with thr := hd1.s.thr } } b' n hnd hbt hrm
        have hub' : ∀ e ∈ b'.links, U e.1 := by
          intro e he; rw [hl] at he; exact hub e (List.mem_filter.1 he).1
        have hgetn : (fun k => ({ b with s := { b.s with thr := hd1.s.thr } } : Basic).getLink k) = hd.abs h := by
          funext k; show b.getLink k = hd.abs h k; rw [hget k, ← nb5]; rfl
        refine ⟨?_, Or.inr ⟨?_, rfl, ?_⟩⟩
        · by_cases hp : ml > 0
          · simp only [hp, if_true]
            exact ⟨rfl, by simp only [Dir.settings, hs]; exact hso_b, hn', hub', htot'⟩
          · simp only [hp, if_false]
            exact ⟨rfl, by simp only [Dir.settings, hs]; exact hso_b, hn', hub', htot'⟩
        · rw [← hgetn]; exact hne
        · rw [← hgetn, ← habs]
          by_cases hp : ml > 0 <;> simp only [hp, if_true, if_false, absState] <;> rfl
      | none =>
        rw [hrm] at hr
        simp only at hr ⊢
        have hdag := toDag_stripAll hd1.shard
        refine ⟨⟨rfl, by simp only [Dir.settings]; exact hso1,
          ⟨⟨(wf_congr hdag _).2 nb2.inv.1, (canon_congr hdag).2 nb2.inv.2⟩, (allKeys_congr hdag).2 nb2.keys, nb2.width, ?_⟩⟩,
          Or.inl ⟨?_, rfl, ?_⟩⟩
        · rcases nb2.total with h1 | h1
          · exact Or.inl h1
          · right; rw [h1, ents_congr hdag]
        · have : b.getLink n = none := hr
          rw [hget n] at this
          rw [← nb5]; exact this
        · simp only [absState, Hamt.abs, Hamt.dg]
          rw [get_congr hdag]
          exact nb5

end C15

namespace C15
open Trie

/-- one-step simulation of the auto-switching directory -/
theorem dyn_step (h : Name → List Byte) (g : Globals) (U : Name → Prop)
    (hg : GOK g) (hok : ∀ w, WidthOK w → DigitsOK U (fun n => hashDigits (h n) (lg2 w)))
    (st : State) (op : DOp) (hi : DynInv h U st) (hop : OpIn U op) :
    DynInv h U (dstep h g st op).1 ∧ SpecStep true (absState h st) op (dstep h g st op).2 (absState h (dstep h g st op).1) := by
  obtain ⟨dyn, dir⟩ := st
  have hdyn : dyn = true := hi.1
  subst hdyn
  cases dir with
  | basic b =>
    cases op with
    | add n l => exact dyn_add_basic h g U b n l hg hok hi hop
    | rm n => exact dyn_rm_basic h g U b n hi
    | find n => exact ⟨hi, rfl, rfl⟩
    | list =>
      obtain ⟨_, _, hn, _, _⟩ := hi
      exact ⟨⟨rfl, by assumption, hn, by assumption, by assumption⟩, _, rfl, hn, fun k l => mem_iff_find b.links hn k l, rfl⟩
    | each =>
      obtain ⟨_, _, hn, _, _⟩ := hi
      exact ⟨⟨rfl, by assumption, hn, by assumption, by assumption⟩, _, rfl, hn, fun k l => mem_iff_find b.links hn k l, rfl⟩
  | hamt hd =>
    cases op with
    | add n l => exact dyn_add_hamt h g U hd n l hg hok hi hop
    | rm n => exact dyn_rm_hamt h g U hd n hg hok hi hop
    | find n =>
      obtain ⟨_, hso, hk⟩ := hi
      simp only at hk
      have ok : DigitsOK U (hd.dg h) := hok hd.width hk.width
      simp only [dstep, findChild, Hamt.findTop, absState]
      cases hdn : hd.dg h n with
      | nil => exact absurd hdn (ok.ne n)
      | cons i r =>
        simp only
        have hl := find_lookup n hd.shard i r
        have hdag := toDag_find n hd.shard i r
        have hnt := find_not_toodeep n (hd.dg h) hd.shard i r hk.inv.1 hk.inv.2 hdn ok.len
        have habs : hd.abs h n = lookup n hd.shard i r := by simp [Hamt.abs, Trie.get, hdn]
        cases hx : Trie.find n hd.shard i r with
        | mk t fr =>
          rw [hx] at hl hdag hnt
          simp only at hl hdag hnt
          have hk' : HamtOK h U { hd with shard := t } :=
            ⟨⟨(wf_congr hdag _).2 hk.inv.1, (canon_congr hdag).2 hk.inv.2⟩, (allKeys_congr hdag).2 hk.keys, hk.width,
              by rcases hk.total with h1 | h1
                 · exact Or.inl h1
                 · right; simp only [ents_congr hdag]; exact h1⟩
          have habs' : Hamt.abs h { hd with shard := t } = hd.abs h := by
            simp only [Hamt.abs, Hamt.dg]; exact get_congr hdag _
          cases fr with
          | found s =>
            simp only [FindRes.lnk] at hl
            exact ⟨⟨rfl, hso, hk'⟩, by rw [habs, ← hl]; rfl, habs'⟩
          | notfound =>
            simp only [FindRes.lnk] at hl
            exact ⟨⟨rfl, hso, hk'⟩, by rw [habs, ← hl]; rfl, habs'⟩
          | toodeep => exact absurd rfl hnt
    | list =>
      obtain ⟨_, hso, hk⟩ := hi
      simp only at hk
      exact ⟨⟨rfl, hso, hk⟩, _, rfl, ents_nodup _ _ hk.inv.1, fun k l => mem_ents_iff _ _ hk.inv.1 k l, rfl⟩
    | each =>
      obtain ⟨_, hso, hk⟩ := hi
      simp only at hk
      have hdag := toDag_stripAll hd.shard
      refine ⟨⟨rfl, hso, ⟨(wf_congr hdag _).2 hk.inv.1, (canon_congr hdag).2 hk.inv.2⟩, (allKeys_congr hdag).2 hk.keys, hk.width, ?_⟩,
        _, rfl, ents_nodup _ _ hk.inv.1, fun k l => mem_ents_iff _ _ hk.inv.1 k l, ?_⟩
      · rcases hk.total with h1 | h1
        · exact Or.inl h1
        · right; simp only [ents_congr hdag]; exact h1
      · simp only [dstep, eachChild, absState, Hamt.abs, Hamt.dg]; exact get_congr hdag _

/-- management operations between edits: reload from the root node and the setters MFS re-applies -/
inductive MOp where
  | reload
  | setMaxLinks (v : Int)
  | setThr (v : Int)
  | setEstMode (m : Nat)

def mstep (g : Globals) (st : State) : MOp → State
  | .reload => reload g st
  | .setMaxLinks v => setMaxLinks st v
  | .setThr v => setThr st v
  | .setEstMode m => setEstMode g st m

/-- reload and the setters keep the invariant and the denoted map -/
theorem dyn_mstep (h : Name → List Byte) (g : Globals) (U : Name → Prop) (st : State) (m : MOp) (hi : DynInv h U st) :
    DynInv h U (mstep g st m) ∧ absState h (mstep g st m) = absState h st := by
  obtain ⟨dyn, dir⟩ := st
  obtain ⟨hdyn, hso, hrest⟩ := hi
  simp only at hdyn; subst hdyn
  cases dir with
  | basic b =>
    obtain ⟨hn, hu, ht⟩ := hrest
    cases m with
    | reload =>
      simp only [mstep, reload]
      refine ⟨⟨rfl, ⟨by show (0:Int) ≤ 0; omega, by show (0:Int) ≤ 1024; omega, Or.inl rfl⟩, hn, hu, ?_⟩, rfl⟩
      simp only [Basic.compute]; split <;> (try split) <;> rfl
    | setMaxLinks v => exact ⟨⟨rfl, hso, hn, hu, ht⟩, rfl⟩
    | setThr v => exact ⟨⟨rfl, hso, hn, hu, ht⟩, rfl⟩
    | setEstMode m =>
      simp only [mstep, setEstMode, Basic.setMode]
      split
      · exact ⟨⟨rfl, hso, hn, hu, ht⟩, rfl⟩
      · exact ⟨⟨rfl, hso, hn, hu, ht⟩, rfl⟩
  | hamt hd =>
    simp only at hrest
    cases m with
    | reload =>
      simp only [mstep, reload]
      refine ⟨⟨rfl, ⟨by show (0:Int) ≤ 0; omega, by show (0:Int) ≤ 1024; omega, Or.inl rfl⟩,
        ⟨(wf_norm _ _).2 hrest.inv.1, (canon_norm _).2 hrest.inv.2⟩, (allKeys_norm _).2 hrest.keys, hrest.width, Or.inl rfl⟩, ?_⟩
      simp only [absState, Hamt.abs, Hamt.dg]
      exact get_congr (toDag_ofDag _) _
    | setMaxLinks v => exact ⟨⟨rfl, hso, ⟨hrest.inv, hrest.keys, hrest.width, hrest.total⟩⟩, rfl⟩
    | setThr v => exact ⟨⟨rfl, hso, ⟨hrest.inv, hrest.keys, hrest.width, hrest.total⟩⟩, rfl⟩
    | setEstMode m => exact ⟨⟨rfl, hso, ⟨hrest.inv, hrest.keys, hrest.width, hrest.total⟩⟩, rfl⟩


/-- a history of the auto-switching directory: edits / look-ups / listings interleaved with reloads and
the setters -/
inductive XOp where
  | edit (o : DOp)
  | mgmt (m : MOp)

def XOpIn (U : Name → Prop) : XOp → Prop
  | .edit o => OpIn U o
  | .mgmt _ => True

def xrun (h : Name → List Byte) (g : Globals) : State → List XOp → State × List DOut
  | st, [] => (st, [])
  | st, .edit o :: r => ((xrun h g (dstep h g st o).1 r).1, (dstep h g st o).2 :: (xrun h g (dstep h g st o).1 r).2)
  | st, .mgmt m :: r => xrun h g (mstep g st m) r

/-- the map semantics of a history: management operations answer nothing and leave the map alone -/
inductive XSpecRun : Map → List XOp → List DOut → Map → Prop where
  | nil (m : Map) : XSpecRun m [] [] m
  | edit {m m' m'' : Map} {o : DOp} {out : DOut} {r : List XOp} {outs : List DOut} :
      SpecStep true m o out m' → XSpecRun m' r outs m'' → XSpecRun m (.edit o :: r) (out :: outs) m''
  | mgmt {m m' : Map} {x : MOp} {r : List XOp} {outs : List DOut} :
      XSpecRun m r outs m' → XSpecRun m (.mgmt x :: r) outs m'

theorem dyn_run (h : Name → List Byte) (g : Globals) (U : Name → Prop)
    (hg : GOK g) (hok : ∀ w, WidthOK w → DigitsOK U (fun n => hashDigits (h n) (lg2 w))) :
    ∀ (ops : List XOp) (st : State), DynInv h U st → (∀ x ∈ ops, XOpIn U x) →
      DynInv h U (xrun h g st ops).1 ∧ XSpecRun (absState h st) ops (xrun h g st ops).2 (absState h (xrun h g st ops).1)
  | [], st, hi, _ => ⟨hi, XSpecRun.nil _⟩
  | .edit o :: r, st, hi, hu => by
    obtain ⟨hi', hs⟩ := dyn_step h g U hg hok st o hi (hu (.edit o) (by simp))
    obtain ⟨hi'', hr⟩ := dyn_run h g U hg hok r _ hi' (fun x hx => hu x (by simp [hx]))
    exact ⟨hi'', XSpecRun.edit hs hr⟩
  | .mgmt m :: r, st, hi, hu => by
    obtain ⟨hi', ha⟩ := dyn_mstep h g U st m hi
    obtain ⟨hi'', hr⟩ := dyn_run h g U hg hok r _ hi' (fun x hx => hu x (by simp [hx]))
    simp only [xrun]
    rw [ha] at hr
    exact ⟨hi'', XSpecRun.mgmt hr⟩

end C15
