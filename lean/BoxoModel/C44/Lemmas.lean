import BoxoModel.C44.Model
import BoxoModel.C04.Lemmas
/-! Helper lemmas for C44 (readBatch, one iteration, the loop, the prioritized provider). Core-only. -/
namespace C44
open C04

/-! ### readBatch -/

theorem readBatch_spec : ∀ (n : Nat) (rest cids : List Cid),
    ∃ taken added, rest = taken ++ (readBatch n rest cids).1 ∧ (readBatch n rest cids).2.1 = cids ++ added ∧
      added.length ≤ taken.length ∧ taken.length ≤ n ∧ (∀ c ∈ added, c ∈ taken) ∧
      (∀ c ∈ taken, c ∈ cids ∨ c ∈ added) ∧
      ((readBatch n rest cids).2.2 = true → (readBatch n rest cids).1 = []) ∧
      ((readBatch n rest cids).2.2 = false → taken.length = n) := by
  intro n
  induction n with
  | zero => intro rest cids; exact ⟨[], [], by simp [readBatch]⟩
  | succ n ih =>
    intro rest cids
    cases rest with
    | nil => exact ⟨[], [], by simp [readBatch]⟩
    | cons c r =>
      by_cases hc : cids.contains c = true
      · obtain ⟨taken, added, h1, h2, h3, h4, h5, h6, h7, h8⟩ := ih r cids
        refine ⟨c :: taken, added, ?_⟩
        simp only [readBatch, hc, if_true]
        refine ⟨by simp [← h1], h2, by simp; omega, by simp; omega, ?_, ?_, h7, ?_⟩
        · intro x hx; simp [h5 x hx]
        · intro x hx
          simp at hx
          rcases hx with hx | hx
          · subst hx; left; simpa using hc
          · exact h6 x hx
        · intro h; simp [h8 h]
      · obtain ⟨taken, added, h1, h2, h3, h4, h5, h6, h7, h8⟩ := ih r (cids ++ [c])
        refine ⟨c :: taken, c :: added, ?_⟩
        simp only [readBatch, hc, Bool.false_eq_true, if_false]
        refine ⟨by simp [← h1], by simp [h2], by simp; omega, by simp; omega, ?_, ?_, h7, ?_⟩
        · intro x hx
          simp at hx
          rcases hx with hx | hx
          · simp [hx]
          · simp [h5 x hx]
        · intro x hx
          simp at hx
          rcases hx with hx | hx
          · subst hx; simp
          · rcases h6 x hx with h | h
            · simp at h
              rcases h with h | h
              · left; exact h
              · right; simp [h]
            · right; simp [h]
        · intro h; simp [h8 h]


/-! ### events -/

theorem announced_append (a b : List Ev) : announced (a ++ b) = announced a ++ announced b := by
  induction a with
  | nil => simp [announced]
  | cons e r ih => cases e <;> simp [announced, ih]

theorem mem_prov_announced {evs : List Ev} {ks : List Key} (h : Ev.prov ks ∈ evs) : ∀ k ∈ ks, k ∈ announced evs := by
  induction evs with
  | nil => simp at h
  | cons e r ih =>
    intro k hk
    simp at h
    rcases h with h | h
    · subst h; simp [announced, hk]
    · cases e <;> simp [announced, ih h k hk]

/-- doProvideMany on at most one key (always the case for a single-provide router, whose batch size is 1),
or with ProvideMany: every key is passed to the router, in calls of at most `max 1 keys.length` keys -/
theorem doProvideMany_facts (many : Bool) (ok : Nat → Bool) (calls : Nat) (keys : List Key)
    (h : many = false → keys.length ≤ 1) :
    announced (doProvideMany many ok calls keys).1 = keys ∧
    (∀ ks, Ev.prov ks ∈ (doProvideMany many ok calls keys).1 → ks.length ≤ keys.length) ∧
    (∀ c n, Ev.cb c n ∉ (doProvideMany many ok calls keys).1) := by
  unfold doProvideMany
  cases many with
  | true => simp [announced]
  | false =>
    have := h rfl
    match keys, this with
    | [], _ => simp [provideEach, announced]
    | [k], _ =>
      by_cases hk : ok calls = true <;> simp [provideEach, announced, hk]

theorem keysOf_append_invalid {al : Allowlist} {cids added : List Cid} (h : ∀ c ∈ cids, valid al c = false) :
    keysOf al (cids ++ added) = keysOf al added := by
  unfold keysOf
  rw [List.filter_append]
  have : cids.filter (valid al) = [] := by
    rw [List.filter_eq_nil_iff]; intro c hc; simp [h c hc]
  simp [this]

theorem keysOf_length_le (al : Allowlist) (cids : List Cid) : (keysOf al cids).length ≤ cids.length := by
  unfold keysOf; simp; exact List.length_filter_le _ _

/-- everything the proofs need to know about one iteration -/
theorem iter_facts (cfg : Cfg) (bs : Nat) (ok more : Nat → Bool) (s : LoopSt)
    (hinv : ∀ c ∈ s.cids, valid cfg.al c = false) (hsingle : cfg.many = false → bs ≤ 1) :
    ∃ taken, s.rest = taken ++ (iter cfg bs ok more s).1.rest ∧ taken.length ≤ bs ∧
      ((iter cfg bs ok more s).2.2 = true → (iter cfg bs ok more s).1.rest = []) ∧
      ((iter cfg bs ok more s).2.2 = false → taken.length = bs) ∧
      (∀ c ∈ (iter cfg bs ok more s).1.cids, valid cfg.al c = false) ∧
      (∀ c ∈ taken, valid cfg.al c = true → c.mh ∈ announced (iter cfg bs ok more s).2.1) ∧
      (∀ k ∈ announced (iter cfg bs ok more s).2.1, ∃ c ∈ taken, valid cfg.al c = true ∧ c.mh = k) ∧
      (∀ ks, Ev.prov ks ∈ (iter cfg bs ok more s).2.1 → ks.length ≤ bs) := by
  obtain ⟨taken, added, h1, h2, h3, h4, h5, h6, h7, h8⟩ := readBatch_spec bs s.rest s.cids
  have hkeys : keysOf cfg.al (readBatch bs s.rest s.cids).2.1 = keysOf cfg.al added := by
    rw [h2]; exact keysOf_append_invalid hinv
  have hlen : (keysOf cfg.al added).length ≤ bs := by
    have := keysOf_length_le cfg.al added; omega
  have hdp := doProvideMany_facts cfg.many ok s.calls (keysOf cfg.al added) (fun h => by have := hsingle h; omega)
  have hcids : ∀ c ∈ (readBatch bs s.rest s.cids).2.1.filter (fun c => !valid cfg.al c), valid cfg.al c = false := by
    intro c hc; simpa using (List.mem_filter.1 hc).2
  have hann1 : ∀ c ∈ taken, valid cfg.al c = true → c.mh ∈ keysOf cfg.al added := by
    intro c hc hv
    rcases h6 c hc with h | h
    · simp [hinv c h] at hv
    · unfold keysOf; simp; exact ⟨c, ⟨h, hv⟩, rfl⟩
  have hann2 : ∀ k ∈ keysOf cfg.al added, ∃ c ∈ taken, valid cfg.al c = true ∧ c.mh = k := by
    intro k hk
    unfold keysOf at hk; simp at hk
    obtain ⟨c, ⟨hc, hv⟩, rfl⟩ := hk
    exact ⟨c, h5 c hc, hv, rfl⟩
  have hacc : ∀ (st : St) (c n : Nat) (g a : Bool), (account cfg more st c n g a).2.2 = [] ∨
      ∃ x y, (account cfg more st c n g a).2.2 = [Ev.cb x y] := by
    intro st c n g a
    unfold account
    cases g with
    | false => left; rfl
    | true =>
      generalize (if cfg.hasReady = true then ({ st with readyCalls := st.readyCalls + 1 } : St) else st) = st0
      simp only [Bool.not_true, Bool.false_eq_true, if_false]
      by_cases hc : (st0.cbLive && decide (st0.cnt + n ≥ cfg.thr)) = true
      · right; simp [hc]
      · left; simp [hc]
  refine ⟨taken, ?_⟩
  unfold iter
  simp only [hkeys]
  by_cases he : (keysOf cfg.al added).isEmpty = true
  · simp only [he, if_true]
    refine ⟨h1, h4, h7, h8, hcids, ?_, by simp [announced], by simp⟩
    intro c hc hv
    have := hann1 c hc hv
    simp [List.isEmpty_iff.1 he] at this
  · simp only [he, Bool.false_eq_true, if_false]
    have hcb := hacc s.st s.cbCalls (keysOf cfg.al added).length
      (doProvideMany cfg.many ok s.calls (keysOf cfg.al added)).2.2 (readBatch bs s.rest s.cids).2.2
    have hann : announced ((doProvideMany cfg.many ok s.calls (keysOf cfg.al added)).1 ++
        (account cfg more s.st s.cbCalls (keysOf cfg.al added).length
          (doProvideMany cfg.many ok s.calls (keysOf cfg.al added)).2.2 (readBatch bs s.rest s.cids).2.2).2.2) =
        keysOf cfg.al added := by
      rw [announced_append, hdp.1]
      rcases hcb with h | ⟨x, y, h⟩ <;> simp [h, announced]
    refine ⟨h1, h4, h7, h8, hcids, by rw [hann]; exact hann1, by rw [hann]; exact hann2, ?_⟩
    intro ks hks
    rcases List.mem_append.1 hks with hks | hks
    · exact Nat.le_trans (hdp.2.1 ks hks) hlen
    · rcases hcb with h | ⟨x, y, h⟩ <;> simp [h] at hks

/-! ### the loop -/

theorem iter_rest (cfg : Cfg) (bs : Nat) (ok more : Nat → Bool) (s : LoopSt) :
    (iter cfg bs ok more s).1.rest = (readBatch bs s.rest s.cids).1 ∧
    (iter cfg bs ok more s).2.2 = (readBatch bs s.rest s.cids).2.2 := by
  unfold iter
  simp only []
  split <;> simp

/-- with a positive batch size every iteration that does not end the loop consumes at least one key:
`rest.length + 1` iterations always suffice -/
theorem loop_fuel_ok (cfg : Cfg) (bs : Nat) (ok more : Nat → Bool) (hbs : bs > 0) :
    ∀ (fuel : Nat) (s : LoopSt), s.rest.length < fuel → (loop cfg bs ok more fuel s).isSome = true := by
  intro fuel
  induction fuel with
  | zero => intro s h; omega
  | succ fuel ih =>
    intro s h
    unfold loop
    simp only []
    by_cases hall : (iter cfg bs ok more s).2.2 = true
    · simp [hall]
    · have hr := iter_rest cfg bs ok more s
      obtain ⟨taken, added, h1, _, _, _, _, _, _, h8⟩ := readBatch_spec bs s.rest s.cids
      have hall' : (readBatch bs s.rest s.cids).2.2 = false := by
        rw [← hr.2]; simpa using hall
      have hlen : (iter cfg bs ok more s).1.rest.length < fuel := by
        rw [hr.1]
        have := congrArg List.length h1
        simp at this
        have := h8 hall'
        omega
      have := ih (iter cfg bs ok more s).1 hlen
      simp only [hall, Bool.false_eq_true, if_false]
      cases hl : loop cfg bs ok more fuel (iter cfg bs ok more s).1 with
      | none => simp [hl] at this
      | some r => simp

/-- with batch size 0 an iteration reads nothing, provides nothing and does not finish -/
theorem iter_zero (cfg : Cfg) (ok more : Nat → Bool) (s : LoopSt) (hc : s.cids = []) :
    iter cfg 0 ok more s = (s, [], false) := by
  unfold iter
  cases s
  simp_all [readBatch, keysOf]

theorem loop_zero (cfg : Cfg) (ok more : Nat → Bool) :
    ∀ (fuel : Nat) (s : LoopSt), s.cids = [] → loop cfg 0 ok more fuel s = none := by
  intro fuel
  induction fuel with
  | zero => intro s _; rfl
  | succ fuel ih =>
    intro s hc
    unfold loop
    simp [iter_zero cfg ok more s hc, ih s hc]

theorem loop_spec (cfg : Cfg) (bs : Nat) (ok more : Nat → Bool) (hsingle : cfg.many = false → bs ≤ 1) :
    ∀ (fuel : Nat) (s s' : LoopSt) (evs : List Ev), (∀ c ∈ s.cids, valid cfg.al c = false) →
      loop cfg bs ok more fuel s = some (s', evs) →
      (∀ c ∈ s.rest, valid cfg.al c = true → c.mh ∈ announced evs) ∧
      (∀ k ∈ announced evs, ∃ c ∈ s.rest, valid cfg.al c = true ∧ c.mh = k) ∧
      (∀ ks, Ev.prov ks ∈ evs → ks.length ≤ bs) := by
  intro fuel
  induction fuel with
  | zero => intro s s' evs _ h; simp [loop] at h
  | succ fuel ih =>
    intro s s' evs hinv h
    obtain ⟨taken, h1, _, h3, _, h5, h6, h7, h8⟩ := iter_facts cfg bs ok more s hinv hsingle
    unfold loop at h
    simp only [] at h
    by_cases hall : (iter cfg bs ok more s).2.2 = true
    · simp only [hall, if_true, Option.some.injEq, Prod.mk.injEq] at h
      obtain ⟨_, rfl⟩ := h
      have : s.rest = taken := by rw [h1, h3 hall]; simp
      rw [this]
      exact ⟨h6, h7, h8⟩
    · simp only [hall, Bool.false_eq_true, if_false] at h
      cases hl : loop cfg bs ok more fuel (iter cfg bs ok more s).1 with
      | none => simp [hl] at h
      | some r =>
        simp only [hl, Option.some.injEq, Prod.mk.injEq] at h
        obtain ⟨_, rfl⟩ := h
        obtain ⟨i1, i2, i3⟩ := ih _ r.1 r.2 h5 hl
        refine ⟨?_, ?_, ?_⟩
        · intro c hc hv
          rw [h1] at hc
          rw [announced_append]
          rcases List.mem_append.1 hc with hc | hc
          · simp [h6 c hc hv]
          · simp [i1 c hc hv]
        · intro k hk
          rw [announced_append] at hk
          rw [h1]
          rcases List.mem_append.1 hk with hk | hk
          · obtain ⟨c, hc, hv, rfl⟩ := h7 k hk
            exact ⟨c, by simp [hc], hv, rfl⟩
          · obtain ⟨c, hc, hv, rfl⟩ := i2 k hk
            exact ⟨c, by simp [hc], hv, rfl⟩
        · intro ks hks
          rcases List.mem_append.1 hks with hks | hks
          · exact h8 ks hks
          · exact i3 ks hks

theorem batchSize_pos (cfg : Cfg) (hfix : cfg.fixed = true) (st : St) : batchSize cfg st > 0 := by
  simp only [batchSize, hfix, Bool.true_and]
  split <;> split <;> simp_all <;> omega

theorem batchSize_le (cfg : Cfg) (st : St) :
    batchSize cfg st ≤ max 1 cfg.maxBatch ∧ (st.cbLive = true → batchSize cfg st ≤ max 1 cfg.thr) := by
  simp only [batchSize]
  constructor
  · split <;> split <;> simp_all <;> omega
  · intro h
    split <;> split <;> simp_all <;> omega

/-! ### prioritized provider -/

theorem handleStream_spec (mark : Bool) : ∀ (ks visited : List Cid),
    (∀ c ∈ ks, c ∈ visited ∨ c ∈ (handleStream mark visited ks).1) ∧
    (∀ c ∈ (handleStream mark visited ks).1, c ∈ ks ∧ c ∉ visited) ∧
    (∀ c ∈ visited, c ∈ (handleStream mark visited ks).2) ∧
    (mark = true → (∀ c ∈ (handleStream mark visited ks).1, c ∈ (handleStream mark visited ks).2) ∧
      (handleStream mark visited ks).1.Nodup) ∧
    (∀ c ∈ (handleStream mark visited ks).2, c ∈ visited ∨ c ∈ (handleStream mark visited ks).1) := by
  intro ks
  induction ks with
  | nil => intro visited; simp [handleStream]
  | cons k r ih =>
    intro visited
    by_cases hk : visited.contains k = true
    · have hk' : k ∈ visited := by simpa using hk
      obtain ⟨i1, i2, i3, i4, i5⟩ := ih visited
      simp only [handleStream, hk, if_true]
      refine ⟨?_, ?_, i3, i4, i5⟩
      · intro c hc
        simp at hc
        rcases hc with hc | hc
        · subst hc; exact Or.inl hk'
        · exact i1 c hc
      · intro c hc
        have := i2 c hc
        exact ⟨by simp [this.1], this.2⟩
    · have hk' : k ∉ visited := by simpa using hk
      obtain ⟨i1, i2, i3, i4, i5⟩ := ih (if mark then k :: visited else visited)
      simp only [handleStream, hk, Bool.false_eq_true, if_false]
      have hsub : ∀ c ∈ visited, c ∈ (if mark then k :: visited else visited) := by
        intro c hc; split <;> simp [hc]
      refine ⟨?_, ?_, ?_, ?_, ?_⟩
      · intro c hc
        simp at hc
        rcases hc with hc | hc
        · subst hc; right; simp
        · rcases i1 c hc with h | h
          · cases mark
            · left; simpa using h
            · simp at h
              rcases h with h | h
              · right; simp [h]
              · left; exact h
          · right; simp [h]
      · intro c hc
        simp at hc
        rcases hc with hc | hc
        · subst hc; exact ⟨by simp, hk'⟩
        · have := i2 c hc
          refine ⟨by simp [this.1], ?_⟩
          intro hv; exact this.2 (hsub c hv)
      · intro c hc; exact i3 c (hsub c hc)
      · intro hm
        subst hm
        obtain ⟨j1, j2⟩ := i4 rfl
        refine ⟨?_, ?_⟩
        · intro c hc
          simp at hc
          rcases hc with hc | hc
          · subst hc; exact i3 _ (by simp)
          · exact j1 c hc
        · simp only [List.nodup_cons]
          refine ⟨?_, j2⟩
          intro hin
          have := (i2 k hin).2
          simp at this
      · intro c hc
        rcases i5 c hc with h | h
        · cases mark
          · left; simpa using h
          · simp at h
            rcases h with h | h
            · right; simp [h]
            · left; exact h
        · right; simp [h]

theorem prioParts_spec : ∀ (streams : List (Option (List Cid))) (visited : List Cid),
    (∀ ks, some ks ∈ streams → ∀ c ∈ ks, c ∈ visited ∨ c ∈ (prioParts visited streams).flatten) ∧
    (∀ p ∈ prioParts visited streams, ∀ c ∈ p, c ∉ visited) ∧
    (prioParts visited streams).Pairwise (fun a b => ∀ c ∈ a, c ∉ b) := by
  intro streams
  induction streams with
  | nil => intro visited; simp [prioParts]
  | cons st r ih =>
    intro visited
    cases st with
    | none =>
      obtain ⟨i1, i2, i3⟩ := ih visited
      simp only [prioParts]
      refine ⟨?_, ?_, ?_⟩
      · intro ks hks c hc
        simp at hks
        simpa using i1 ks hks c hc
      · intro p hp c hc
        simp at hp
        rcases hp with hp | hp
        · subst hp; simp at hc
        · exact i2 p hp c hc
      · simp only [List.pairwise_cons]
        exact ⟨by simp, i3⟩
    | some ks =>
      obtain ⟨h1, h2, h3, h4, h5⟩ := handleStream_spec (!r.isEmpty) ks visited
      obtain ⟨i1, i2, i3⟩ := ih (handleStream (!r.isEmpty) visited ks).2
      simp only [prioParts]
      refine ⟨?_, ?_, ?_⟩
      · intro ks' hks' c hc
        simp only [List.mem_cons, Option.some.injEq] at hks'
        rcases hks' with hks' | hks'
        · subst hks'
          rcases h1 c hc with h | h
          · exact Or.inl h
          · right; simp [h]
        · rcases i1 ks' hks' c hc with h | h
          · rcases h5 c h with h | h
            · exact Or.inl h
            · right; simp [h]
          · right; simp only [List.flatten_cons, List.mem_append]; exact Or.inr h
      · intro p hp c hc
        simp only [List.mem_cons] at hp
        rcases hp with hp | hp
        · subst hp; exact (h2 c hc).2
        · intro hv; exact i2 p hp c hc (h3 c hv)
      · simp only [List.pairwise_cons]
        refine ⟨?_, i3⟩
        intro p hp c hc hcp
        have hne : r ≠ [] := by
          intro hr; subst hr; simp [prioParts] at hp
        have hm : (!r.isEmpty) = true := by simp [hne]
        exact i2 p hp c hcp ((h4 hm).1 c hc)

/-- the i-th part only contains keys of the i-th stream -/
theorem prioParts_sub : ∀ (streams : List (Option (List Cid))) (visited : List Cid) (i : Nat) (p : List Cid),
    (prioParts visited streams)[i]? = some p → ∀ c ∈ p, ∃ ks, streams[i]? = some (some ks) ∧ c ∈ ks := by
  intro streams
  induction streams with
  | nil => intro v i p h; simp [prioParts] at h
  | cons st r ih =>
    intro v i p h c hc
    cases st with
    | none =>
      simp only [prioParts] at h
      cases i with
      | zero => simp at h; subst h; simp at hc
      | succ i => simpa using ih v i p (by simpa using h) c hc
    | some ks =>
      simp only [prioParts] at h
      cases i with
      | zero =>
        simp at h; subst h
        exact ⟨ks, by simp, ((handleStream_spec _ ks v).2.1 c hc).1⟩
      | succ i => simpa using ih _ i p (by simpa using h) c hc

theorem prioParts_length : ∀ (streams : List (Option (List Cid))) (visited : List Cid),
    (prioParts visited streams).length = streams.length := by
  intro streams
  induction streams with
  | nil => intro v; simp [prioParts]
  | cons st r ih => intro v; cases st <;> simp [prioParts, ih]
/-! ### statistics (router that never fails) -/

theorem provideEach_allok : ∀ (keys : List Key) (i : Nat),
    (provideEach (fun _ => true) i keys).2.2 = true := by
  intro keys
  induction keys with
  | nil => intro i; rfl
  | cons k r ih => intro i; simp [provideEach, ih]

theorem account_total (cfg : Cfg) (more : Nat → Bool) (st : St) (c n : Nat) (a : Bool) :
    (account cfg more st c n true a).1.total = st.total + n ∧
    announced (account cfg more st c n true a).2.2 = [] := by
  unfold account
  cases cfg.hasReady <;> simp <;> split <;> simp [announced]

theorem iter_total (cfg : Cfg) (bs : Nat) (more : Nat → Bool) (s : LoopSt)
    (hinv : ∀ c ∈ s.cids, valid cfg.al c = false) (hsingle : cfg.many = false → bs ≤ 1) :
    (iter cfg bs (fun _ => true) more s).1.st.total =
      s.st.total + (announced (iter cfg bs (fun _ => true) more s).2.1).length := by
  obtain ⟨taken, added, h1, h2, h3, h4, h5, h6, h7, h8⟩ := readBatch_spec bs s.rest s.cids
  have hkeys : keysOf cfg.al (readBatch bs s.rest s.cids).2.1 = keysOf cfg.al added := by
    rw [h2]; exact keysOf_append_invalid hinv
  have hlen : (keysOf cfg.al added).length ≤ bs := by
    have := keysOf_length_le cfg.al added; omega
  have hdp := doProvideMany_facts cfg.many (fun _ => true) s.calls (keysOf cfg.al added)
    (fun h => by have := hsingle h; omega)
  have hgood : (doProvideMany cfg.many (fun _ => true) s.calls (keysOf cfg.al added)).2.2 = true := by
    unfold doProvideMany; split
    · rfl
    · exact provideEach_allok _ _
  unfold iter
  simp only [hkeys]
  by_cases he : (keysOf cfg.al added).isEmpty = true
  · simp [he, announced]
  · simp only [he, Bool.false_eq_true, if_false, hgood]
    have ha := account_total cfg more s.st s.cbCalls (keysOf cfg.al added).length (readBatch bs s.rest s.cids).2.2
    rw [announced_append, hdp.1, ha.2, ha.1]
    simp

theorem loop_total (cfg : Cfg) (bs : Nat) (more : Nat → Bool) (hsingle : cfg.many = false → bs ≤ 1) :
    ∀ (fuel : Nat) (s s' : LoopSt) (evs : List Ev), (∀ c ∈ s.cids, valid cfg.al c = false) →
      loop cfg bs (fun _ => true) more fuel s = some (s', evs) →
      s'.st.total = s.st.total + (announced evs).length := by
  intro fuel
  induction fuel with
  | zero => intro s s' evs _ h; simp [loop] at h
  | succ fuel ih =>
    intro s s' evs hinv h
    have ht := iter_total cfg bs more s hinv hsingle
    obtain ⟨taken, _, _, _, _, h5, _, _, _⟩ := iter_facts cfg bs (fun _ => true) more s hinv hsingle
    unfold loop at h
    simp only [] at h
    by_cases hall : (iter cfg bs (fun _ => true) more s).2.2 = true
    · simp only [hall, if_true, Option.some.injEq, Prod.mk.injEq] at h
      obtain ⟨rfl, rfl⟩ := h
      exact ht
    · simp only [hall, Bool.false_eq_true, if_false] at h
      cases hl : loop cfg bs (fun _ => true) more fuel (iter cfg bs (fun _ => true) more s).1 with
      | none => simp [hl] at h
      | some r =>
        simp only [hl, Option.some.injEq, Prod.mk.injEq] at h
        obtain ⟨rfl, rfl⟩ := h
        have := ih _ r.1 r.2 h5 hl
        rw [this, ht, announced_append]
        simp; omega
end C44
