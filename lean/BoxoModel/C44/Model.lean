import BoxoModel.C04.Model
/-
C44 — provider: the batched reprovide loop and the prioritized key provider. Executable model.

Transcribed by hand from
  /repo/provider/reprovider.go   New (batch size forced to 1 for a router without ProvideMany),
                                 Reprovide (the loop), doProvideMany
  /repo/provider/provider.go     NewPrioritizedProvider
CIDs and the validator are those of the C04 model (`C04.Cid`, `C04.validate`, `C04.Allowlist`).
The router (success / failure of each call), the throughput callback (its boolean answer) and the key
stream are parameters.  `fixed := true` is the code with the `fix:` commit of branch verif/bsvc
(a zero batch size is raised to 1); `fixed := false` is the code before it (used by the
`_counterexample` theorem and to replay the defect).
The Go map `cids` is modelled as a duplicate-free list (insertion order); the order of the keys inside
one ProvideMany call is the map's iteration order in Go, so calls are compared as sorted lists.
Core-only (no Mathlib): imported by the line-protocol driver.
-/
namespace C44
open C04

structure Cfg where
  al : Allowlist
  /-- `s.maxReprovideBatchSize` after `New` (math.MaxUint by default, 1 for a single-provide router) -/
  maxBatch : Nat
  /-- `s.throughputMinimumProvides` -/
  thr : Nat
  /-- the router implements ProvideMany -/
  many : Bool
  /-- the router implements Ready (and answers true: a false answer makes Reprovide sleep for a minute) -/
  hasReady : Bool := false
  fixed : Bool := true

/-- state of the reprovider that survives a Reprovide call -/
structure St where
  /-- `s.throughputCallback != nil` -/
  cbLive : Bool
  /-- `s.throughputReprovideCurrentCount` -/
  cnt : Nat := 0
  /-- `s.totalReprovides` (Stat().TotalReprovides) -/
  total : Nat := 0
  /-- `s.lastReprovideBatchSize` (Stat().LastReprovideBatchSize) -/
  lastBatch : Nat := 0
  /-- ghost: number of `Ready()` calls made so far -/
  readyCalls : Nat := 0
  deriving DecidableEq, Repr

inductive Ev where
  | prov (keys : List Key)                 -- one ProvideMany call / one Provide call ([k])
  | cb (complete : Bool) (count : Nat)     -- throughputCallback(true, complete, count, _)
  deriving DecidableEq, Repr

/-- `batchSize` as computed at the top of Reprovide -/
def batchSize (cfg : Cfg) (st : St) : Nat :=
  let b := cfg.maxBatch
  let b := if st.cbLive && cfg.thr < b then cfg.thr else b
  if cfg.fixed && b == 0 then 1 else b

/-- `for range batchSize { c, ok := <-kch; if !ok { all = true; break }; cids[c] = {} }`:
returns the rest of the stream, the map, and `allCidsProcessed`. -/
def readBatch : Nat → List Cid → List Cid → List Cid × List Cid × Bool
  | 0, rest, cids => (rest, cids, false)
  | _ + 1, [], cids => ([], cids, true)
  | n + 1, c :: r, cids => readBatch n r (if cids.contains c then cids else cids ++ [c])

/-- doProvideMany for a router without ProvideMany: one Provide per key, stop at the first error.
`ok i` = the i-th router call of this Reprovide succeeds. Returns the events, the number of calls, success. -/
def provideEach (ok : Nat → Bool) : Nat → List Key → List Ev × Nat × Bool
  | i, [] => ([], i, true)
  | i, k :: r =>
    if ok i then
      let (evs, j, b) := provideEach ok (i + 1) r
      (.prov [k] :: evs, j, b)
    else ([.prov [k]], i + 1, false)

structure LoopSt where
  rest : List Cid
  cids : List Cid
  st : St
  calls : Nat := 0
  cbCalls : Nat := 0

/-- doProvideMany: one ProvideMany call, or one Provide per key. Returns events, call counter, success. -/
def doProvideMany (many : Bool) (ok : Nat → Bool) (calls : Nat) (keys : List Key) : List Ev × Nat × Bool :=
  if many then ([Ev.prov keys], calls + 1, ok calls) else provideEach ok calls keys

/-- the multihashes of the valid CIDs of the map (`keys`), in map order -/
def keysOf (al : Allowlist) (cids : List Cid) : List Key := (cids.filter (valid al)).map Cid.mh

/-- what happens to the reprovider's state after doProvideMany: Ready() bookkeeping, and — when the batch
succeeded (`good`) — the statistics, the throughput counter and possibly the callback.
Returns the state, the number of callback calls so far, and the callback event if any. -/
def account (cfg : Cfg) (more : Nat → Bool) (st : St) (cbCalls n : Nat) (good all : Bool) : St × Nat × List Ev :=
  -- waitUntilProvideSystemReady: one Ready() call (answering true) per batch that has keys
  let st0 : St := if cfg.hasReady then { st with readyCalls := st.readyCalls + 1 } else st
  if !good then (st0, cbCalls, [])   -- "reproviding failed": `continue`
  else
    let cnt := st0.cnt + n
    let st1 : St := { st0 with total := st0.total + n, lastBatch := n }
    if st1.cbLive && cnt ≥ cfg.thr then
      ({ st1 with cbLive := more cbCalls, cnt := 0 }, cbCalls + 1, [.cb all cnt])
    else ({ st1 with cnt := cnt }, cbCalls, [])

/-- one iteration of `for !allCidsProcessed { … }`; returns the new state, the events, allCidsProcessed -/
def iter (cfg : Cfg) (bs : Nat) (ok : Nat → Bool) (more : Nat → Bool) (s : LoopSt) : LoopSt × List Ev × Bool :=
  let rb := readBatch bs s.rest s.cids
  let keys := keysOf cfg.al rb.2.1
  let cids := rb.2.1.filter (fun c => !valid cfg.al c)   -- valid ones are deleted from the map, invalid ones stay
  if keys.isEmpty then ({ s with rest := rb.1, cids := cids }, [], rb.2.2)
  else
    let p := doProvideMany cfg.many ok s.calls keys
    let a := account cfg more s.st s.cbCalls keys.length p.2.2 rb.2.2
    ({ rest := rb.1, cids := cids, st := a.1, calls := p.2.1, cbCalls := a.2.1 }, p.1 ++ a.2.2, rb.2.2)

/-- the loop, with fuel; `none` = out of fuel (C44.loop_fuel_ok: `rest.length + 1` suffices when bs > 0) -/
def loop (cfg : Cfg) (bs : Nat) (ok : Nat → Bool) (more : Nat → Bool) : Nat → LoopSt → Option (LoopSt × List Ev)
  | 0, _ => none
  | fuel + 1, s =>
    let r := iter cfg bs ok more s
    if r.2.2 then some (r.1, r.2.1)
    else
      match loop cfg bs ok more fuel r.1 with
      | some (s'', evs') => some (s'', r.2.1 ++ evs')
      | none => none

/-- how a Reprovide call can end before its loop does anything: the key provider returns an error, or the
context is already cancelled (the loop reads one batch, sees `ctx.Err()` and returns it) -/
inductive Early where
  | kpErr | cancelled
  deriving DecidableEq, Repr

/-- Reprovide with its early exits: `none` = does not terminate; `some (st, evs, err)` -/
def reprovideE (cfg : Cfg) (st : St) (early : Option Early) (ks : List Cid) (ok : Nat → Bool) (more : Nat → Bool) :
    Option (St × List Ev × Bool) :=
  match early with
  | some _ => some (st, [], true)
  | none =>
    match loop cfg (batchSize cfg st) ok more (ks.length + 1) { rest := ks, cids := [], st := st } with
    | some (s, evs) => some (s.st, evs, false)
    | none => none

/-- Reprovide over the key stream `ks` (the key provider succeeded). `none` = the loop does not terminate
within `ks.length + 1` iterations (for the fixed code: never, see `c44_terminates`). -/
def reprovide (cfg : Cfg) (st : St) (ks : List Cid) (ok : Nat → Bool) (more : Nat → Bool) : Option (St × List Ev) :=
  match loop cfg (batchSize cfg st) ok more (ks.length + 1) { rest := ks, cids := [], st := st } with
  | some (s, evs) => some (s.st, evs)
  | none => none

/-- all multihashes passed to the router -/
def announced : List Ev → List Key
  | [] => []
  | .prov ks :: r => ks ++ announced r
  | _ :: r => announced r

/-! ## NewPrioritizedProvider -/

/-- `handleStream`: forwards the keys that are not in `visited`; records them when `mark` -/
def handleStream (mark : Bool) : List Cid → List Cid → List Cid × List Cid
  | visited, [] => ([], visited)
  | visited, c :: r =>
    if visited.contains c then handleStream mark visited r
    else
      let (out, v) := handleStream mark (if mark then c :: visited else visited) r
      (c :: out, v)

/-- the streams in order; `none` = the stream's KeyChanFunc returned an error (logged, skipped).
`n` = number of streams still to come after the head (`i < last` ⇔ `n > 0`). Returns each stream's output. -/
def prioParts : List Cid → List (Option (List Cid)) → List (List Cid)
  | _, [] => []
  | visited, none :: r => [] :: prioParts visited r
  | visited, some ks :: r =>
    let (out, v) := handleStream (!r.isEmpty) visited ks
    out :: prioParts v r

def prioritized (streams : List (Option (List Cid))) : List Cid := (prioParts [] streams).flatten

/-- NewConcatProvider: the streams one after the other, no deduplication; a failing stream is skipped -/
def concat : List (Option (List Cid)) → List Cid
  | [] => []
  | none :: r => concat r
  | some ks :: r => ks ++ concat r

/-- NewBufferedProvider: the same keys in the same order (only buffered in memory) -/
def buffered (ks : List Cid) : List Cid := ks

end C44
