/-
C37 — the session's want bookkeeping (`sessionWants` + `cidQueue`), the part of the client that decides which
CIDs a session (re-)broadcasts on its idle ticks and periodic searches.

Transcribed from /repo/bitswap/client/internal/session/{sessionwants.go, cidqueue.go}, method for method:

  cidQueue {elems (deque, may hold stale entries), eset}   ~ `elems`, `set`
  sessionWants {toFetch, liveWants (map; the times are not modelled), liveWantsOrder, broadcastLimit}
                                                            ~ `elems`/`set`, `live`, `order`, `limit`

`PrepareBroadcast` is what the idle tick broadcasts, `RandomLiveWant` what the periodic search broadcasts,
`GetNextWants` what a session without peers broadcasts. Core-only.
-/
namespace C37.SW

abbrev Cid := Nat

structure St where
  elems : List Cid := []
  set : List Cid := []
  live : List Cid := []
  order : List Cid := []
  limit : Int := 0

/-- cidQueue.push -/
def push (s : St) (c : Cid) : St :=
  if s.set.contains c then s else { s with set := s.set ++ [c], elems := s.elems ++ [c] }

/-- cidQueue.remove -/
def qremove (s : St) (c : Cid) : St := { s with set := s.set.filter (· ≠ c) }

/-- cidQueue.gc: drop the stale entries of the deque once it is longer than the set -/
def gc (s : St) : St :=
  if s.elems.length > s.set.length then { s with elems := s.elems.filter fun c => s.set.contains c } else s

/-- cidQueue.pop: pop the front until an entry that is still in the set comes out -/
def pop : List Cid → List Cid → Option (Cid × List Cid)
  | [], _ => none
  | c :: r, set => if set.contains c then some (c, r) else pop r set

/-- BlocksRequested -/
def blocksRequested (s : St) (ks : List Cid) : St := ks.foldl push s

/-- the loop of GetNextWants -/
def nextLoop : Nat → St → List Cid → St × List Cid
  | 0, s, acc => (s, acc)
  | n + 1, s, acc =>
    if s.set.length > 0 then
      match pop s.elems s.set with
      | some (c, r) =>
        nextLoop n { s with elems := r, set := s.set.filter (· ≠ c), order := s.order ++ [c],
                            live := if s.live.contains c then s.live else s.live ++ [c] } (acc ++ [c])
      | none => (s, acc)      -- pop returned the undefined CID: unreachable while set ⊆ elems
    else (s, acc)

/-- GetNextWants -/
def getNextWants (s : St) : St × List Cid :=
  let toAdd := s.limit - s.live.length
  if min toAdd s.set.length ≤ 0 then (s, []) else nextLoop toAdd.toNat s []

/-- WantsSent -/
def wantsSent (s : St) (ks : List Cid) : St :=
  gc (ks.foldl (fun s c =>
    if !s.live.contains c && s.set.contains c then
      { (qremove s c) with order := s.order ++ [c], live := s.live ++ [c] }
    else s) s)

/-- isWanted -/
def isWanted (s : St) (c : Cid) : Bool := s.live.contains c || s.set.contains c

/-- BlocksReceived: the wanted CIDs (a CID repeated in `ks` is wanted once), then the order slice is compacted
when it is more than 32 entries longer than the map -/
def blocksReceived (s : St) (ks : List Cid) : St × List Cid :=
  let r := ks.foldl (fun (a : St × List Cid) c =>
    if isWanted a.1 c then ({ (qremove a.1 c) with live := a.1.live.filter (· ≠ c) }, a.2 ++ [c]) else a) (s, [])
  let s1 := gc r.1
  let s2 := if (s1.order.length : Int) - s1.live.length > 32 then
      { s1 with order := s1.order.filter fun c => s1.live.contains c } else s1
  (if ks.isEmpty then s else s2, r.2)

/-- the loop of PrepareBroadcast (the limit is compared AFTER appending, as in the Go code) -/
def bcastLoop (s : St) : List Cid → List Cid → List Cid
  | [], acc => acc
  | c :: r, acc =>
    if s.live.contains c then
      let acc' := acc ++ [c]
      if (acc'.length : Int) = s.limit then acc' else bcastLoop s r acc'
    else bcastLoop s r acc

/-- PrepareBroadcast -/
def prepareBroadcast (s : St) : List Cid := bcastLoop s s.order []

/-- CancelPending -/
def cancelPending (s : St) (ks : List Cid) : St :=
  gc (ks.foldl (fun s k => { (qremove s k) with live := s.live.filter (· ≠ k) }) s)

inductive Op where
  | req (ks : List Cid)        -- BlocksRequested
  | next                       -- GetNextWants
  | sent (ks : List Cid)       -- WantsSent
  | recv (ks : List Cid)       -- BlocksReceived
  | bcast                      -- PrepareBroadcast (idle tick)
  | cancel (ks : List Cid)     -- CancelPending
  | live                       -- LiveWants
  | rand (pick : Nat)          -- RandomLiveWant (periodic search); `pick` is the random draw

/-- one call: new state and the CIDs it returns (what the session would put on the wire / report) -/
def step (s : St) : Op → St × List Cid
  | .req ks => (blocksRequested s ks, [])
  | .next => getNextWants s
  | .sent ks => (wantsSent s ks, [])
  | .recv ks => blocksReceived s ks
  | .bcast => (s, prepareBroadcast s)
  | .cancel ks => (cancelPending s ks, [])
  | .live => (s, s.live)
  | .rand pick => (s, if s.live.isEmpty then [] else [s.live.getD (pick % s.live.length) 0])

/-- run a script, collecting every returned CID list -/
def run (s : St) : List Op → St × List (List Cid)
  | [] => (s, [])
  | op :: r =>
    let a := step s op
    let b := run a.1 r
    (b.1, a.2 :: b.2)

end C37.SW
