import BoxoModel.C37.Model
/-! C37 — the inductive invariant of the getter / notification core. -/
namespace C37

theorem mem_dedup (l : List Cid) (c : Cid) : c ∈ dedup l ↔ c ∈ l := by
  induction l with
  | nil => simp [dedup]
  | cons a r ih =>
    unfold dedup
    split
    · rename_i h
      simp only [ih, List.mem_cons]
      constructor
      · exact Or.inr
      · rintro (rfl | h')
        · exact ih.mp h
        · exact h'
    · simp only [List.mem_cons, ih]

theorem nodup_dedup (l : List Cid) : (dedup l).Nodup := by
  induction l with
  | nil => simp [dedup]
  | cons a r ih =>
    unfold dedup
    split
    · exact ih
    · rename_i h; exact List.nodup_cons.mpr ⟨h, ih⟩

/-- how many copies of `c` the request holds, wherever they are: still subscribed, in a channel buffer, in a
goroutine's hand, or delivered -/
def tot (s : St) (c : Cid) : Nat :=
  s.subs.count c + s.vbuf.count c + s.fHeld.toList.count c + s.bbuf.count c + s.hHeld.toList.count c +
    s.delivered.count c

structure Inv (s : St) : Prop where
  cnt : ∀ c, tot s c ≤ 1
  inKeys : ∀ c, 0 < tot s c → c ∈ s.keys
  rem : ∀ c, c ∈ s.remaining ↔ (c ∈ s.keys ∧ c ∉ s.taken)
  taken : ∃ x, s.taken = s.delivered ++ x ∧ x.length ≤ 1 ∧ (s.hExited = false → x = s.hHeld.toList)
  heldNone : s.hExited = true → s.hHeld = none
  fheldNone : s.fExited = true → s.fHeld = none
  cw : (s.hExited = false → s.cancelArg = none ∧ s.cancelCalls = 0 ∧ s.outClosed = false) ∧
       (s.hExited = true → s.keys ≠ [] → s.cancelArg = some s.remaining ∧ s.cancelCalls = 1 ∧ s.outClosed = true)
  vcl : s.vclosed = true → s.subs = []
  bcl : s.bclosed = true → s.fExited = true
  live : s.ctxDone = false → s.sessDone = false →
    (∀ c ∈ s.keys, 0 < tot s c) ∧
    (s.fExited = true → s.subs = [] ∧ s.vbuf = []) ∧
    (s.hExited = true → s.bbuf = [] ∧ s.fExited = true ∧ s.taken = s.delivered)

theorem count_dedup (l : List Cid) (c : Cid) : (dedup l).count c = if c ∈ l then 1 else 0 := by
  induction l with
  | nil => simp [dedup]
  | cons a r ih =>
    unfold dedup
    split
    · rename_i h
      have har : a ∈ r := (mem_dedup r a).mp h
      rw [ih]
      by_cases hc : c = a
      · subst hc; simp [har]
      · simp [hc]
    · rename_i h
      have har : a ∉ r := fun x => h ((mem_dedup r a).mpr x)
      rw [List.count_cons, ih]
      by_cases hc : c = a
      · subst hc; simp [har]
      · have : (a == c) = false := by simpa using fun e => hc e.symm
        simp [hc, this]

theorem inv_start (keys : List Cid) : Inv (start keys) := by
  unfold start
  split
  · rename_i h
    have : keys = [] := by simpa using h
    subst this
    refine ⟨by simp [tot], by simp [tot], by simp, ⟨[], by simp⟩, by simp, by simp, by simp, by simp, by simp, by simp [tot]⟩
  · refine ⟨?_, ?_, ?_, ⟨[], by simp⟩, by simp, by simp, by simp, by simp, by simp, ?_⟩
    · intro c; simp only [tot, count_dedup]; split <;> simp
    · intro c; simp only [tot, count_dedup]; split <;> simp_all
    · simp [mem_dedup]
    · intro _ _
      refine ⟨?_, by simp, by simp⟩
      intro c hc; simp [tot, count_dedup, hc]

theorem nodup_of_count_le_one (l : List Cid) (h : ∀ c, l.count c ≤ 1) : l.Nodup := by
  induction l with
  | nil => simp
  | cons a r ih =>
    refine List.nodup_cons.mpr ⟨?_, ih (fun c => ?_)⟩
    · have := h a
      simp only [List.count_cons_self] at this
      exact List.count_eq_zero.mp (by omega)
    · have := h c
      rw [List.count_cons] at this
      omega

end C37

namespace C37

theorem count_filter_ne (l : List Cid) (c x : Cid) :
    (l.filter (· ≠ c)).count x = if x = c then 0 else l.count x := by
  by_cases h : x = c
  · subst h
    simp only [if_true]
    exact List.count_eq_zero.mpr (by simp [List.mem_filter])
  · simp only [h, if_false]
    exact List.count_filter (by simpa using h)

theorem step_inv (s : St) (e : Ev) (s' : St) (h : Inv s) (hs : step s e = some s') : Inv s' := by
  obtain ⟨cnt, inKeys, rem, taken, heldNone, fheldNone, cw, vcl, bcl, live⟩ := h
  cases e with
  | publish c =>
    simp only [step] at hs
    split at hs
    · rename_i hc
      have hc' : c ∈ s.subs := by simpa using hc
      have hpos : 0 < s.subs.count c := List.count_pos_iff.mpr hc'
      simp only [Option.some.injEq] at hs
      subst hs
      have htot : ∀ x, tot ({ s with vbuf := s.vbuf ++ [c], subs := s.subs.filter (· ≠ c), vclosed := (s.subs.filter (· ≠ c)).isEmpty } : St) x = tot s x := by
        intro x
        have := cnt c
        simp only [tot, count_filter_ne, List.count_append, List.count_singleton] at this ⊢
        by_cases hx : x = c
        · subst hx; simp; omega
        · have : (c == x) = false := by simpa using fun e => hx e.symm
          simp [hx, this]
      refine ⟨fun x => by rw [htot]; exact cnt x, fun x hx => inKeys x (by rw [htot] at hx; exact hx), rem, taken,
        heldNone, fheldNone, cw, ?_, bcl, ?_⟩
      · intro hv; simpa using hv
      · intro h1 h2
        obtain ⟨l1, l2, l3⟩ := live h1 h2
        refine ⟨fun x hx => by rw [htot]; exact l1 x hx, ?_, l3⟩
        intro hf
        have := (l2 hf).1
        rw [this] at hc'; simp at hc'
    · simp only [Option.some.injEq] at hs; subst hs
      exact ⟨cnt, inKeys, rem, taken, heldNone, fheldNone, cw, vcl, bcl, live⟩
  | cancel =>
    simp only [step, Option.some.injEq] at hs; subst hs
    exact ⟨cnt, inKeys, rem, taken, heldNone, fheldNone, cw, vcl, bcl, fun h1 => by simp at h1⟩
  | sessCancel =>
    simp only [step, Option.some.injEq] at hs; subst hs
    exact ⟨cnt, inKeys, rem, taken, heldNone, fheldNone, cw, vcl, bcl, fun _ h2 => by simp at h2⟩
  | fRecv =>
    simp only [step] at hs
    split at hs
    · simp at hs
    · rename_i hcond
      simp only [Bool.or_eq_true, not_or, Bool.not_eq_true, Option.isSome_eq_false_iff, Option.isNone_iff_eq_none] at hcond
      obtain ⟨hfe, hfh⟩ := hcond
      split at hs
      · rename_i c r hv
        simp only [Option.some.injEq] at hs; subst hs
        have htot : ∀ x, tot ({ s with fHeld := some c, vbuf := r } : St) x = tot s x := by
          intro x; simp only [tot, hv, hfh, List.count_cons, Option.toList_some, Option.toList_none, List.count_nil]; omega
        refine ⟨fun x => by rw [htot]; exact cnt x, fun x hx => inKeys x (by rw [htot] at hx; exact hx), rem, taken,
          heldNone, by simp [hfe], cw, vcl, bcl, ?_⟩
        intro h1 h2
        obtain ⟨l1, l2, l3⟩ := live h1 h2
        exact ⟨fun x hx => by rw [htot]; exact l1 x hx, by simp [hfe], by simpa using l3⟩
      · rename_i hv
        split at hs
        · rename_i hvc
          simp only [Option.some.injEq] at hs; subst hs
          have hsub := vcl hvc
          have htot : ∀ x, tot (fExit s) x = tot s x := by
            intro x; simp [tot, fExit, hsub, hfh]
          refine ⟨fun x => by rw [htot]; exact cnt x, fun x hx => inKeys x (by rw [htot] at hx; exact hx), rem, taken,
            heldNone, by simp [fExit], cw, by simp [fExit], by simp [fExit], ?_⟩
          intro h1 h2
          obtain ⟨l1, l2, l3⟩ := live h1 h2
          exact ⟨fun x hx => by rw [htot]; exact l1 x hx, by simp [fExit, hv], fun he => by have := l3 he; simp [fExit, this.1, this.2.2]⟩
        · simp at hs
  | fSend =>
    simp only [step] at hs
    split at hs
    · simp at hs
    · rename_i hfe
      split at hs
      · rename_i c hh
        simp only [Option.some.injEq] at hs; subst hs
        have htot : ∀ x, tot ({ s with fHeld := none, bbuf := s.bbuf ++ [c] } : St) x = tot s x := by
          intro x
          simp only [tot, hh, List.count_append, Option.toList_some, Option.toList_none,
            List.count_nil, List.count_cons]
          omega
        refine ⟨fun x => by rw [htot]; exact cnt x, fun x hx => inKeys x (by rw [htot] at hx; exact hx), rem, taken,
          heldNone, by simp, cw, vcl, bcl, ?_⟩
        intro h1 h2
        obtain ⟨l1, l2, l3⟩ := live h1 h2
        refine ⟨fun x hx => by rw [htot]; exact l1 x hx, l2, ?_⟩
        intro he
        have := (l3 he).2.1
        simp [this] at hfe
      · simp at hs
  | fCtx =>
    simp only [step] at hs
    split at hs
    · rename_i hc
      simp only [Bool.and_eq_true, Bool.not_eq_true'] at hc
      simp only [Option.some.injEq] at hs; subst hs
      have hle : ∀ x, tot (fExit s) x ≤ tot s x := by
        intro x; simp only [tot, fExit, List.count_nil, Option.toList_none]; omega
      refine ⟨fun x => Nat.le_trans (hle x) (cnt x), fun x hx => inKeys x (Nat.lt_of_lt_of_le hx (hle x)), rem, taken,
        heldNone, by simp [fExit], cw, by simp [fExit], by simp [fExit], ?_⟩
      intro h1; simp [fExit, hc.1] at h1
    · simp at hs
  | hRecv =>
    simp only [step] at hs
    split at hs
    · simp at hs
    · rename_i hcond
      simp only [Bool.or_eq_true, not_or, Bool.not_eq_true, Option.isSome_eq_false_iff, Option.isNone_iff_eq_none] at hcond
      obtain ⟨hhe, hhh⟩ := hcond
      obtain ⟨x0, tk1, tk2, tk3⟩ := taken
      have hx0 : x0 = [] := by rw [tk3 hhe, hhh]; rfl
      subst hx0
      split at hs
      · rename_i c r hb
        simp only [Option.some.injEq] at hs; subst hs
        have htot : ∀ x, tot ({ s with hHeld := some c, bbuf := r, remaining := s.remaining.filter (· ≠ c), taken := s.taken ++ [c] } : St) x = tot s x := by
          intro x; simp only [tot, hb, hhh, List.count_cons, Option.toList_some, Option.toList_none, List.count_nil]; omega
        refine ⟨fun x => by rw [htot]; exact cnt x, fun x hx => inKeys x (by rw [htot] at hx; exact hx), ?_, ?_,
          by simp [hhe], fheldNone, by simpa [hhe] using cw.1 hhe, vcl, bcl, ?_⟩
        · intro x
          simp only [List.mem_filter, rem x, List.mem_append, List.mem_singleton, decide_eq_true_eq, not_or]
          constructor
          · rintro ⟨⟨a, b⟩, c'⟩; exact ⟨a, b, c'⟩
          · rintro ⟨a, b, c'⟩; exact ⟨⟨a, b⟩, c'⟩
        · exact ⟨[c], by simp [tk1], by simp, by simp⟩
        · intro h1 h2
          obtain ⟨l1, l2, l3⟩ := live h1 h2
          exact ⟨fun x hx => by rw [htot]; exact l1 x hx, l2, by simp [hhe]⟩
      · rename_i hb
        split at hs
        · rename_i hbc
          simp only [Option.some.injEq] at hs; subst hs
          have htot : ∀ x, tot (hExit s) x = tot s x := by
            intro x; simp [tot, hExit, hhh]
          refine ⟨fun x => by rw [htot]; exact cnt x, fun x hx => inKeys x (by rw [htot] at hx; exact hx), rem,
            ⟨[], by simpa [hExit] using tk1, by simp, by simp [hExit]⟩, by simp [hExit], fheldNone, ?_, vcl, bcl, ?_⟩
          · refine ⟨by simp [hExit], fun _ _ => ?_⟩
            have := (cw.1 hhe).2.1
            simp [hExit, this]
          · intro h1 h2
            obtain ⟨l1, l2, l3⟩ := live h1 h2
            refine ⟨fun x hx => by rw [htot]; exact l1 x hx, l2, fun _ => ⟨hb, bcl hbc, ?_⟩⟩
            simpa [hExit] using tk1
        · simp at hs
  | hCtx =>
    simp only [step] at hs
    split at hs
    · rename_i hc
      simp only [Bool.and_eq_true, Bool.or_eq_true, Bool.not_eq_true'] at hc
      simp only [Option.some.injEq] at hs; subst hs
      obtain ⟨x0, tk1, tk2, tk3⟩ := taken
      have hle : ∀ x, tot (hExit s) x ≤ tot s x := by
        intro x; simp only [tot, hExit, List.count_nil, Option.toList_none]; omega
      refine ⟨fun x => Nat.le_trans (hle x) (cnt x), fun x hx => inKeys x (Nat.lt_of_lt_of_le hx (hle x)), rem,
        ⟨x0, tk1, tk2, by simp [hExit]⟩, by simp [hExit], fheldNone, ?_, vcl, bcl, ?_⟩
      · refine ⟨by simp [hExit], fun _ _ => ?_⟩
        have := (cw.1 hc.2).2.1
        simp [hExit, this]
      · intro h1 h2
        rcases hc.1 with h | h
        · simp [hExit, h] at h1
        · simp [hExit, h] at h2
    · simp at hs
  | read =>
    simp only [step] at hs
    split at hs
    · simp at hs
    · rename_i hhe
      have hhe' : s.hExited = false := by simpa using hhe
      split at hs
      · rename_i c hh
        simp only [Option.some.injEq] at hs; subst hs
        obtain ⟨x0, tk1, tk2, tk3⟩ := taken
        have hx0 : x0 = [c] := by rw [tk3 hhe', hh]; rfl
        subst hx0
        have htot : ∀ x, tot ({ s with hHeld := none, delivered := s.delivered ++ [c] } : St) x = tot s x := by
          intro x
          simp only [tot, hh, List.count_append, Option.toList_some, Option.toList_none,
            List.count_nil, List.count_cons]
          omega
        refine ⟨fun x => by rw [htot]; exact cnt x, fun x hx => inKeys x (by rw [htot] at hx; exact hx), rem,
          ⟨[], by simpa using tk1, by simp, by simp⟩, by simp, fheldNone, by simpa using cw, vcl, bcl, ?_⟩
        intro h1 h2
        obtain ⟨l1, l2, l3⟩ := live h1 h2
        exact ⟨fun x hx => by rw [htot]; exact l1 x hx, l2, by simp [hhe']⟩
      · simp at hs

theorem run_inv (evs : List Ev) : ∀ s, Inv s → Inv (run s evs) := by
  induction evs with
  | nil => intro s h; exact h
  | cons e r ih =>
    intro s h
    simp only [run]
    cases hs : step s e with
    | none => simpa using ih s h
    | some s' => simpa using ih s' (step_inv s e s' h hs)

theorem step_keys (s : St) (e : Ev) (s' : St) (hs : step s e = some s') : s'.keys = s.keys := by
  cases e <;> simp only [step] at hs <;> (try split at hs) <;> (try split at hs) <;> (try split at hs) <;>
    simp_all [fExit, hExit] <;> (subst hs; rfl)

theorem run_keys (evs : List Ev) : ∀ s : St, (run s evs).keys = s.keys := by
  induction evs with
  | nil => intro s; rfl
  | cons e r ih =>
    intro s
    simp only [run]
    cases hs : step s e with
    | none => simpa using ih s
    | some s' => simpa [step_keys s e s' hs] using ih s'

theorem start_keys (keys : List Cid) : (start keys).keys = keys := by
  unfold start; split <;> rfl

/-- copies of `c` that are past the subscription: in a channel, in a goroutine's hand, or delivered -/
def inFlight (s : St) (c : Cid) : Nat :=
  s.vbuf.count c + s.fHeld.toList.count c + s.bbuf.count c + s.hHeld.toList.count c + s.delivered.count c

/-- without a publish of `c`, no copy of `c` ever appears behind the subscription -/
theorem step_nopub_inFlight (s : St) (e : Ev) (s' : St) (c : Cid) (he : e ≠ .publish c) (hs : step s e = some s')
    (h : inFlight s c = 0) : inFlight s' c = 0 := by
  cases e with
  | publish c' =>
    have hne : c' ≠ c := fun x => he (by rw [x])
    simp only [step] at hs
    split at hs
    · simp only [Option.some.injEq] at hs; subst hs
      have : (c' == c) = false := by simpa using hne
      simp only [inFlight, List.count_append, List.count_singleton, this] at h ⊢
      simpa using h
    · simp only [Option.some.injEq] at hs; subst hs; exact h
  | cancel => simp only [step, Option.some.injEq] at hs; subst hs; exact h
  | sessCancel => simp only [step, Option.some.injEq] at hs; subst hs; exact h
  | fRecv =>
    simp only [step] at hs
    split at hs
    · simp at hs
    · rename_i hcond
      simp only [Bool.or_eq_true, not_or, Bool.not_eq_true, Option.isSome_eq_false_iff, Option.isNone_iff_eq_none] at hcond
      split at hs
      · rename_i c0 r hv
        simp only [Option.some.injEq] at hs; subst hs
        simp only [inFlight, hv, hcond.2, List.count_cons, Option.toList_some, Option.toList_none, List.count_nil] at h ⊢
        omega
      · split at hs
        · simp only [Option.some.injEq] at hs; subst hs
          simp only [inFlight, fExit, Option.toList_none, List.count_nil] at h ⊢; omega
        · simp at hs
  | fSend =>
    simp only [step] at hs
    split at hs
    · simp at hs
    · split at hs
      · rename_i c0 hh
        simp only [Option.some.injEq] at hs; subst hs
        simp only [inFlight, hh, List.count_append, Option.toList_some, Option.toList_none, List.count_nil,
          List.count_cons] at h ⊢
        omega
      · simp at hs
  | fCtx =>
    simp only [step] at hs
    split at hs
    · simp only [Option.some.injEq] at hs; subst hs
      simp only [inFlight, fExit, Option.toList_none, List.count_nil] at h ⊢; omega
    · simp at hs
  | hRecv =>
    simp only [step] at hs
    split at hs
    · simp at hs
    · rename_i hcond
      simp only [Bool.or_eq_true, not_or, Bool.not_eq_true, Option.isSome_eq_false_iff, Option.isNone_iff_eq_none] at hcond
      split at hs
      · rename_i c0 r hb
        simp only [Option.some.injEq] at hs; subst hs
        simp only [inFlight, hb, hcond.2, List.count_cons, Option.toList_some, Option.toList_none, List.count_nil] at h ⊢
        omega
      · split at hs
        · simp only [Option.some.injEq] at hs; subst hs
          simp only [inFlight, hExit, Option.toList_none, List.count_nil] at h ⊢; omega
        · simp at hs
  | hCtx =>
    simp only [step] at hs
    split at hs
    · simp only [Option.some.injEq] at hs; subst hs
      simp only [inFlight, hExit, Option.toList_none, List.count_nil] at h ⊢; omega
    · simp at hs
  | read =>
    simp only [step] at hs
    split at hs
    · simp at hs
    · split at hs
      · rename_i c0 hh
        simp only [Option.some.injEq] at hs; subst hs
        simp only [inFlight, hh, List.count_append, Option.toList_some, Option.toList_none, List.count_nil,
          List.count_cons] at h ⊢
        omega
      · simp at hs

theorem run_nopub_inFlight (c : Cid) (evs : List Ev) (hev : ∀ e ∈ evs, e ≠ .publish c) :
    ∀ s : St, inFlight s c = 0 → inFlight (run s evs) c = 0 := by
  induction evs with
  | nil => intro s h; exact h
  | cons e r ih =>
    intro s h
    simp only [run]
    have hr : ∀ e ∈ r, e ≠ .publish c := fun x hx => hev x (List.mem_cons_of_mem _ hx)
    cases hs : step s e with
    | none => simpa using ih hr s h
    | some s' => simpa using ih hr s' (step_nopub_inFlight s e s' c (hev e (List.mem_cons_self ..)) hs h)

end C37
