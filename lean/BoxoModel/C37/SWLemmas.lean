import BoxoModel.C37.SessionWants
/-! C37 — sessionWants: a CID that is not wanted (neither live nor in the fetch queue) stays unwanted and is never
returned, until it is requested again; CancelPending makes its CIDs unwanted. -/
namespace C37.SW

/-- `k` is neither a live want nor queued -/
def NW (s : St) (k : Cid) : Prop := k ∉ s.live ∧ k ∉ s.set

theorem nw_iff (s : St) (k : Cid) : NW s k ↔ isWanted s k = false := by
  simp [NW, isWanted]

theorem nw_push (s : St) (c k : Cid) (h : NW s k) (hc : c ≠ k) : NW (push s c) k := by
  unfold push
  split
  · exact h
  · exact ⟨h.1, by simp [h.2, Ne.symm hc]⟩

theorem nw_gc (s : St) (k : Cid) (h : NW s k) : NW (gc s) k := by
  unfold gc; split <;> exact h

theorem gc_live (s : St) : (gc s).live = s.live := by unfold gc; split <;> rfl
theorem gc_set (s : St) : (gc s).set = s.set := by unfold gc; split <;> rfl

theorem nw_req (ks : List Cid) (k : Cid) (hk : k ∉ ks) : ∀ s, NW s k → NW (blocksRequested s ks) k := by
  induction ks with
  | nil => intro s h; exact h
  | cons c r ih =>
    intro s h
    simp only [blocksRequested, List.foldl_cons]
    exact ih (fun x => hk (List.mem_cons_of_mem _ x)) _ (nw_push s c k h (fun e => hk (by simp [e])))

theorem pop_mem (elems set : List Cid) (c : Cid) (r : List Cid) (h : pop elems set = some (c, r)) : c ∈ set := by
  induction elems with
  | nil => simp [pop] at h
  | cons a t ih =>
    unfold pop at h
    split at h
    · rename_i ha
      simp only [Option.some.injEq, Prod.mk.injEq] at h
      rw [← h.1]; simpa using ha
    · exact ih h

theorem nw_nextLoop (k : Cid) : ∀ (n : Nat) (s : St) (acc : List Cid), NW s k → k ∉ acc →
    NW (nextLoop n s acc).1 k ∧ k ∉ (nextLoop n s acc).2 := by
  intro n
  induction n with
  | zero => intro s acc h ha; exact ⟨h, ha⟩
  | succ n ih =>
    intro s acc h ha
    unfold nextLoop
    split
    · split
      · rename_i c r hp
        have hc : c ∈ s.set := pop_mem _ _ _ _ hp
        have hck : c ≠ k := fun e => h.2 (e ▸ hc)
        apply ih
        · refine ⟨?_, ?_⟩
          · simp only
            split
            · exact h.1
            · simp [h.1, Ne.symm hck]
          · simp [h.2]
        · simp [ha, Ne.symm hck]
      · exact ⟨h, ha⟩
    · exact ⟨h, ha⟩

theorem nw_next (s : St) (k : Cid) (h : NW s k) : NW (getNextWants s).1 k ∧ k ∉ (getNextWants s).2 := by
  unfold getNextWants
  simp only
  split
  · exact ⟨h, by simp⟩
  · exact nw_nextLoop k _ s [] h (by simp)

theorem nw_sent (ks : List Cid) (k : Cid) : ∀ s, NW s k → NW (wantsSent s ks) k := by
  intro s h
  unfold wantsSent
  apply nw_gc
  revert s
  induction ks with
  | nil => intro s h; exact h
  | cons c r ih =>
    intro s h
    simp only [List.foldl_cons]
    apply ih
    split
    · rename_i hc
      simp only [Bool.and_eq_true, Bool.not_eq_true', List.contains_eq_mem, decide_eq_true_eq, decide_eq_false_iff_not] at hc
      have hck : c ≠ k := fun e => h.2 (e ▸ hc.2)
      exact ⟨by simp [h.1, Ne.symm hck], by simp [qremove, h.2]⟩
    · exact h

theorem nw_recv (ks : List Cid) (k : Cid) (s : St) (h : NW s k) :
    NW (blocksReceived s ks).1 k ∧ k ∉ (blocksReceived s ks).2 := by
  have key : ∀ (ks : List Cid) (a : St × List Cid), NW a.1 k → k ∉ a.2 →
      NW (ks.foldl (fun (a : St × List Cid) c =>
        if isWanted a.1 c then ({ (qremove a.1 c) with live := a.1.live.filter (· ≠ c) }, a.2 ++ [c]) else a) a).1 k ∧
      k ∉ (ks.foldl (fun (a : St × List Cid) c =>
        if isWanted a.1 c then ({ (qremove a.1 c) with live := a.1.live.filter (· ≠ c) }, a.2 ++ [c]) else a) a).2 := by
    intro ks
    induction ks with
    | nil => intro a h1 h2; exact ⟨h1, h2⟩
    | cons c r ih =>
      intro a h1 h2
      simp only [List.foldl_cons]
      apply ih
      · split
        · exact ⟨by simp [h1.1], by simp [qremove, h1.2]⟩
        · exact h1
      · split
        · rename_i hw
          have hck : c ≠ k := by
            intro e; subst e
            have := (nw_iff a.1 c).mp h1
            rw [this] at hw; simp at hw
          simp [h2, Ne.symm hck]
        · exact h2
  obtain ⟨k1, k2⟩ := key ks (s, []) h (by simp)
  unfold blocksReceived
  simp only
  refine ⟨?_, k2⟩
  split
  · exact h
  · have hg := nw_gc _ k k1
    split
    · exact ⟨hg.1, hg.2⟩
    · exact hg

theorem bcastLoop_sub (s : St) : ∀ (l acc : List Cid) (x : Cid), x ∈ bcastLoop s l acc → x ∈ acc ∨ x ∈ s.live := by
  intro l
  induction l with
  | nil => intro acc x h; left; exact h
  | cons c r ih =>
    intro acc x h
    unfold bcastLoop at h
    split at h
    · rename_i hc
      have hcl : c ∈ s.live := by simpa using hc
      simp only at h
      split at h
      · rcases List.mem_append.mp h with h | h
        · left; exact h
        · right; simp at h; rw [h]; exact hcl
      · rcases ih _ x h with h | h
        · rcases List.mem_append.mp h with h | h
          · left; exact h
          · right; simp at h; rw [h]; exact hcl
        · right; exact h
    · exact ih acc x h

theorem nw_cancel_keep (ks : List Cid) (k : Cid) : ∀ s, NW s k → NW (cancelPending s ks) k := by
  intro s h
  unfold cancelPending
  apply nw_gc
  revert s
  induction ks with
  | nil => intro s h; exact h
  | cons c r ih =>
    intro s h
    simp only [List.foldl_cons]
    exact ih _ ⟨by simp [h.1], by simp [qremove, h.2]⟩

/-- CancelPending makes every cancelled CID unwanted -/
theorem cancel_nw (ks : List Cid) (k : Cid) (hk : k ∈ ks) (s : St) : NW (cancelPending s ks) k := by
  unfold cancelPending
  apply nw_gc
  revert s
  induction ks with
  | nil => simp at hk
  | cons c r ih =>
    intro s
    simp only [List.foldl_cons]
    rcases List.mem_cons.mp hk with e | hr
    · subst e
      -- after this step k is unwanted, and the rest only removes
      have h0 : NW ({ (qremove s k) with live := s.live.filter (· ≠ k) } : St) k := ⟨by simp, by simp [qremove]⟩
      have keep : ∀ (r : List Cid) (s : St), NW s k →
          NW (r.foldl (fun s k' => { (qremove s k') with live := s.live.filter (· ≠ k') }) s) k := by
        intro r
        induction r with
        | nil => intro s h; exact h
        | cons c r ih2 =>
          intro s h
          simp only [List.foldl_cons]
          exact ih2 _ ⟨by simp [h.1], by simp [qremove, h.2]⟩
      exact keep r _ h0
    · exact ih hr _

/-- the op (re-)requests `k` -/
def requests (k : Cid) : Op → Bool
  | .req ks => ks.contains k
  | _ => false

/-- an unwanted CID stays unwanted and is not returned by any call that does not request it again -/
theorem step_nw (s : St) (op : Op) (k : Cid) (h : NW s k) (hop : requests k op = false) :
    NW (step s op).1 k ∧ k ∉ (step s op).2 := by
  cases op with
  | req ks => exact ⟨nw_req ks k (by simpa [requests] using hop) s h, by simp [step]⟩
  | next => exact nw_next s k h
  | sent ks => exact ⟨nw_sent ks k s h, by simp [step]⟩
  | recv ks => exact nw_recv ks k s h
  | bcast =>
    refine ⟨h, fun hx => ?_⟩
    rcases bcastLoop_sub s s.order [] k hx with h1 | h1
    · simp at h1
    · exact h.1 h1
  | cancel ks => exact ⟨nw_cancel_keep ks k s h, by simp [step]⟩
  | live => exact ⟨h, h.1⟩
  | rand pick =>
    refine ⟨h, ?_⟩
    simp only [step]
    split
    · simp
    · rename_i hne
      intro hx
      simp only [List.mem_singleton] at hx
      have hlen : pick % s.live.length < s.live.length := by
        apply Nat.mod_lt
        cases hl : s.live with
        | nil => simp [hl] at hne
        | cons a t => simp
      have : s.live.getD (pick % s.live.length) 0 ∈ s.live := by
        rw [List.getD_eq_getElem?_getD, List.getElem?_eq_getElem hlen]
        exact List.getElem_mem hlen
      exact h.1 (hx ▸ this)

theorem run_nw (ops : List Op) (k : Cid) (hops : ∀ op ∈ ops, requests k op = false) :
    ∀ s, NW s k → NW (run s ops).1 k ∧ ∀ out ∈ (run s ops).2, k ∉ out := by
  induction ops with
  | nil => intro s h; exact ⟨h, by simp [run]⟩
  | cons op r ih =>
    intro s h
    obtain ⟨a, b⟩ := step_nw s op k h (hops op (List.mem_cons_self ..))
    obtain ⟨c, d⟩ := ih (fun o ho => hops o (List.mem_cons_of_mem _ ho)) _ a
    simp only [run]
    refine ⟨c, fun out hout => ?_⟩
    rcases List.mem_cons.mp hout with e | e
    · rw [e]; exact b
    · exact d out e

end C37.SW
