/-
C37 — the getter / notification core of the bitswap client as a small-step system.

Transcribed from /repo/bitswap/client/internal/getter/getter.go (AsyncGetBlocks, handleIncoming),
/repo/bitswap/client/internal/notifications/notifications.go (Subscribe and its forwarding goroutine) and the
parts of github.com/cskr/pubsub v1.0.2 they use (AddSubOnceEach / Pub / Unsub: a channel subscribed "once each"
gets at most one message per topic and is closed when no topic is left), at the granularity of channel
operations:

  valuesCh  (buffered, len(keys))   ~ `vbuf`, `vclosed`; `subs` = topics still subscribed
  forwarding goroutine of Subscribe ~ `fHeld` (value between its two selects), `fExited`
  blocksCh  (buffered, len(keys))   ~ `bbuf`, `bclosed`
  handleIncoming                    ~ `remaining` (its cid.Set), `hHeld` (blocked in `out <- blk`), `hExited`;
                                      the deferred `close(out); cfun(remaining.Keys())` ~ `outClosed`, `cancelArg`
  out (unbuffered) + the consumer   ~ `delivered`
  ctx / sessctx                     ~ `ctxDone`, `sessDone`

Every `select` is modelled by making each ready case a separately enabled event, so a theorem over all event
sequences covers every scheduling of the three goroutines, the publisher and the consumer.
Not modelled: sessions, peer selection, the network, timers (see C37's level_note). Core-only.
-/
namespace C37

abbrev Cid := Nat

structure St where
  keys : List Cid
  subs : List Cid := []
  vbuf : List Cid := []
  vclosed : Bool := false
  fHeld : Option Cid := none
  fExited : Bool := false
  bbuf : List Cid := []
  bclosed : Bool := false
  remaining : List Cid := []
  hHeld : Option Cid := none
  hExited : Bool := false
  outClosed : Bool := false
  cancelArg : Option (List Cid) := none
  cancelCalls : Nat := 0
  delivered : List Cid := []
  taken : List Cid := []        -- ghost: everything handleIncoming received from `in`, in order
  ctxDone : Bool := false
  sessDone : Bool := false

/-- the distinct keys (pubsub topics / cid.Set) -/
def dedup : List Cid → List Cid
  | [] => []
  | c :: r => if c ∈ dedup r then dedup r else c :: dedup r

/-- AsyncGetBlocks: no keys ⇒ a closed channel and nothing else; otherwise Subscribe(keys…) (duplicate keys are
one topic), `remaining` = the set of keys, and the two goroutines start. -/
def start (keys : List Cid) : St :=
  if keys.isEmpty then { keys := keys, fExited := true, hExited := true, outClosed := true, vclosed := true, bclosed := true }
  else { keys := keys, subs := dedup keys, remaining := dedup keys }

inductive Ev where
  | publish (c : Cid)   -- notif.Publish of one block (receiveBlocksFrom / NotifyNewBlocks)
  | cancel              -- the request context is cancelled
  | sessCancel          -- the session context is cancelled
  | fRecv               -- forwarding goroutine: `val, ok := <-valuesCh`
  | fSend               -- forwarding goroutine: `blocksCh <- block`
  | fCtx                -- forwarding goroutine: `<-ctx.Done()` (either select)
  | hRecv               -- handleIncoming: `blk, ok := <-in`
  | hCtx                -- handleIncoming: `<-ctxDone` / `<-sessDone` (either select)
  | read                -- the consumer receives from `out`
  deriving DecidableEq, Repr

/-- forwarding goroutine returns: close(blocksCh), Unsub(valuesCh) -/
def fExit (s : St) : St :=
  { s with fExited := true, fHeld := none, bclosed := true, subs := [], vclosed := true }

/-- handleIncoming returns: close(out); cfun(remaining.Keys()) -/
def hExit (s : St) : St :=
  { s with hExited := true, hHeld := none, outClosed := true, cancelArg := some s.remaining,
           cancelCalls := s.cancelCalls + 1 }

/-- one event; `none` = not enabled in this state -/
def step (s : St) : Ev → Option St
  | .publish c =>
    if s.subs.contains c then
      let subs' := s.subs.filter (· ≠ c)
      some { s with vbuf := s.vbuf ++ [c], subs := subs', vclosed := subs'.isEmpty }
    else some s
  | .cancel => some { s with ctxDone := true }
  | .sessCancel => some { s with sessDone := true }
  | .fRecv =>
    if s.fExited || s.fHeld.isSome then none
    else match s.vbuf with
      | c :: r => some { s with fHeld := some c, vbuf := r }
      | [] => if s.vclosed then some (fExit s) else none
  | .fSend =>
    if s.fExited then none
    else match s.fHeld with
      | some c => some { s with fHeld := none, bbuf := s.bbuf ++ [c] }
      | none => none
  | .fCtx => if s.ctxDone && !s.fExited then some (fExit s) else none
  | .hRecv =>
    if s.hExited || s.hHeld.isSome then none
    else match s.bbuf with
      | c :: r => some { s with hHeld := some c, bbuf := r, remaining := s.remaining.filter (· ≠ c), taken := s.taken ++ [c] }
      | [] => if s.bclosed then some (hExit s) else none
  | .hCtx => if (s.ctxDone || s.sessDone) && !s.hExited then some (hExit s) else none
  | .read =>
    if s.hExited then none
    else match s.hHeld with
      | some c => some { s with hHeld := none, delivered := s.delivered ++ [c] }
      | none => none

/-- run a schedule; events that are not enabled are skipped -/
def run (s : St) : List Ev → St
  | [] => s
  | e :: r => run ((step s e).getD s) r

end C37
