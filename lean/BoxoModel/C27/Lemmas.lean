import BoxoModel.C27.Model
/-! Helper lemmas for C27 (core only). -/
namespace C27

theorem bc_range (a b : List Nat) : bytesCompare a b = -1 ∨ bytesCompare a b = 0 ∨ bytesCompare a b = 1 := by
  induction a generalizing b with
  | nil => cases b <;> simp [bytesCompare]
  | cons x xs ih =>
    cases b with
    | nil => simp [bytesCompare]
    | cons y ys =>
      simp only [bytesCompare]
      split
      · simp
      · split
        · simp
        · exact ih ys

theorem bc_refl (a : List Nat) : bytesCompare a a = 0 := by
  induction a with
  | nil => rfl
  | cons x xs ih => simp [bytesCompare, ih]

theorem bc_eq (a b : List Nat) (h : bytesCompare a b = 0) : a = b := by
  induction a generalizing b with
  | nil => cases b <;> simp_all [bytesCompare]
  | cons x xs ih =>
    cases b with
    | nil => simp [bytesCompare] at h
    | cons y ys =>
      simp only [bytesCompare] at h
      split at h
      · simp at h
      · split at h
        · simp at h
        · have : x = y := by omega
          rw [this, ih ys h]

theorem bc_antisymm (a b : List Nat) : bytesCompare b a = - bytesCompare a b := by
  induction a generalizing b with
  | nil => cases b <;> simp [bytesCompare]
  | cons x xs ih =>
    cases b with
    | nil => simp [bytesCompare]
    | cons y ys =>
      simp only [bytesCompare]
      by_cases h1 : x < y
      · have : ¬ y < x := by omega
        simp [h1, this]
      · by_cases h2 : y < x
        · simp [h1, h2]
        · simp [h1, h2, ih ys]

theorem bc_trans (a b c : List Nat) (h1 : bytesCompare a b ≤ 0) (h2 : bytesCompare b c ≤ 0) :
    bytesCompare a c ≤ 0 := by
  induction a generalizing b c with
  | nil => cases c <;> simp [bytesCompare]
  | cons x xs ih =>
    cases b with
    | nil => simp [bytesCompare] at h1
    | cons y ys =>
      cases c with
      | nil => simp [bytesCompare] at h2
      | cons z zs =>
        simp only [bytesCompare] at h1 h2 ⊢
        by_cases hxy : x < y
        · by_cases hyz : y < z
          · have : x < z := by omega
            simp [this]
          · by_cases hzy : z < y
            · simp [hyz, hzy] at h2
            · have : x < z := by omega
              simp [this]
        · by_cases hyx : y < x
          · simp [hxy, hyx] at h1
          · have hxy' : x = y := by omega
            subst hxy'
            by_cases hxz : x < z
            · simp [hxz]
            · by_cases hzx : z < x
              · simp [hxz, hzx] at h2
              · simp [hxy] at h1
                simp [hxz, hzx] at h2 ⊢
                exact ih ys zs h1 h2

/-- a record all of whose compared fields can be read -/
def Readable (r : Rec) : Prop := r.seq.isSome = true ∧ r.eol.isSome = true

instance (r : Rec) : Decidable (Readable r) := by unfold Readable; exact inferInstance

/-- the comparison actually used by the selection loop (`compare`, then the byte tie-break) on
readable records: lexicographic on (hasV2, sequence, EOL, bytes) -/
def kcmp (a b : Rec) : Int :=
  if a.hasV2 && !b.hasV2 then 1
  else if !a.hasV2 && b.hasV2 then -1
  else if a.seq.getD 0 > b.seq.getD 0 then 1
  else if a.seq.getD 0 < b.seq.getD 0 then -1
  else if a.eol.getD 0 > b.eol.getD 0 then 1
  else if b.eol.getD 0 > a.eol.getD 0 then -1
  else bytesCompare a.bytes b.bytes

/-- the value `cmp` tested by `if cmp < 0` in the loop -/
def eff (a b : Rec) : Option Int :=
  (compare a b).map fun c => if c == 0 then bytesCompare a.bytes b.bytes else c

theorem eff_readable (a b : Rec) (ha : Readable a) (hb : Readable b) : eff a b = some (kcmp a b) := by
  obtain ⟨ha1, ha2⟩ := ha
  obtain ⟨hb1, hb2⟩ := hb
  cases hsa : a.seq with
  | none => simp [hsa] at ha1
  | some sa =>
  cases hsb : b.seq with
  | none => simp [hsb] at hb1
  | some sb =>
  cases hta : a.eol with
  | none => simp [hta] at ha2
  | some ta =>
  cases htb : b.eol with
  | none => simp [htb] at hb2
  | some tb =>
  simp only [eff, compare, kcmp, hsa, hsb, hta, htb, Option.getD_some]
  repeat' split
  all_goals simp_all

/-- lexicographic "a is not better than b" -/
def rle (a b : Rec) : Prop := kcmp a b ≤ 0

theorem kcmp_le_iff (a b : Rec) : kcmp a b ≤ 0 ↔
    ((a.hasV2 = false ∧ b.hasV2 = true) ∨ (a.hasV2 = b.hasV2 ∧
      (a.seq.getD 0 < b.seq.getD 0 ∨ (a.seq.getD 0 = b.seq.getD 0 ∧
        (a.eol.getD 0 < b.eol.getD 0 ∨ (a.eol.getD 0 = b.eol.getD 0 ∧ bytesCompare a.bytes b.bytes ≤ 0)))))) := by
  unfold kcmp
  cases a.hasV2 <;> cases b.hasV2 <;> simp <;> (repeat' split) <;> omega

theorem rle_refl (a : Rec) : rle a a := by
  simp [rle, kcmp, bc_refl]

theorem rle_trans (a b c : Rec) (h1 : rle a b) (h2 : rle b c) : rle a c := by
  unfold rle at *
  rw [kcmp_le_iff] at *
  have bt := bc_trans a.bytes b.bytes c.bytes
  rcases h1 with ⟨h1a, h1b⟩ | ⟨h1a, h1⟩
  · rcases h2 with ⟨h2a, _⟩ | ⟨h2a, _⟩
    · simp [h1b] at h2a
    · left; exact ⟨h1a, by rw [← h2a]; exact h1b⟩
  · rcases h2 with ⟨h2a, h2b⟩ | ⟨h2a, h2⟩
    · left; exact ⟨by rw [h1a]; exact h2a, h2b⟩
    · right
      refine ⟨h1a.trans h2a, ?_⟩
      rcases h1 with h1 | ⟨h1s, h1⟩
      · rcases h2 with h2 | ⟨h2s, _⟩
        · left; omega
        · left; omega
      · rcases h2 with h2 | ⟨h2s, h2⟩
        · left; omega
        · right
          refine ⟨by omega, ?_⟩
          rcases h1 with h1 | ⟨h1t, h1⟩
          · rcases h2 with h2 | ⟨h2t, _⟩
            · left; omega
            · left; omega
          · rcases h2 with h2 | ⟨h2t, h2⟩
            · left; omega
            · right; exact ⟨by omega, bt h1 h2⟩

theorem kcmp_antisymm (a b : Rec) : kcmp b a = - kcmp a b := by
  unfold kcmp
  have := bc_antisymm a.bytes b.bytes
  cases a.hasV2 <;> cases b.hasV2 <;> simp <;> (repeat' split) <;> omega

theorem rle_total (a b : Rec) : rle a b ∨ rle b a := by
  unfold rle; rw [kcmp_antisymm a b]; omega

/-- mutual `rle` means equal keys, in particular equal bytes -/
theorem rle_antisymm (a b : Rec) (h1 : rle a b) (h2 : rle b a) :
    a.hasV2 = b.hasV2 ∧ a.seq.getD 0 = b.seq.getD 0 ∧ a.eol.getD 0 = b.eol.getD 0 ∧ a.bytes = b.bytes := by
  unfold rle at *
  have hz : kcmp a b = 0 := by rw [kcmp_antisymm a b] at h2; omega
  have hb := bc_eq a.bytes b.bytes
  have hr := bc_range a.bytes b.bytes
  unfold kcmp at hz
  revert hz
  cases a.hasV2 <;> cases b.hasV2 <;> simp <;> (repeat' split) <;> intro hz <;>
    first | omega | (refine ⟨by omega, by omega, hb hz⟩)

/-- loop specification on readable records: it never fails, returns the index of an element that
is ≥ everything seen, and that element is the current best or a later element of the list. -/
theorem selLoop_spec (rest : List Rec) : ∀ (i : Nat) (ri : Rec) (j : Nat),
    Readable ri → (∀ r ∈ rest, Readable r) →
    ∃ k rk, selLoop i ri j rest = some k ∧
      ((k = i ∧ rk = ri) ∨ ∃ m, rest[m]? = some rk ∧ k = j + m) ∧
      rle ri rk ∧ (∀ r ∈ rest, rle r rk) := by
  induction rest with
  | nil => intro i ri j _ _; exact ⟨i, ri, rfl, .inl ⟨rfl, rfl⟩, rle_refl ri, by simp⟩
  | cons rj rest ih =>
    intro i ri j hri hrest
    have hrj : Readable rj := hrest rj (by simp)
    have hrest' : ∀ r ∈ rest, Readable r := fun r hr => hrest r (by simp [hr])
    have he := eff_readable ri rj hri hrj
    unfold eff at he
    cases hc : compare ri rj with
    | none => simp [hc] at he
    | some c =>
      simp only [hc, Option.map_some, Option.some.injEq] at he
      simp only [selLoop, hc]
      rw [he]
      by_cases hlt : kcmp ri rj < 0
      · simp only [hlt, if_true]
        obtain ⟨k, rk, h1, h2, h3, h4⟩ := ih j rj (j + 1) hrj hrest'
        refine ⟨k, rk, h1, ?_, ?_, ?_⟩
        · right
          rcases h2 with ⟨hk, hr⟩ | ⟨m, hm, hk⟩
          · exact ⟨0, by simp [hr], by omega⟩
          · exact ⟨m + 1, by simpa using hm, by omega⟩
        · exact rle_trans ri rj rk (by unfold rle; omega) h3
        · intro r hr
          simp at hr
          rcases hr with rfl | hr
          · exact h3
          · exact h4 r hr
      · simp only [hlt, if_false]
        obtain ⟨k, rk, h1, h2, h3, h4⟩ := ih i ri (j + 1) hri hrest'
        refine ⟨k, rk, h1, ?_, h3, ?_⟩
        · rcases h2 with h2 | ⟨m, hm, hk⟩
          · exact .inl h2
          · exact .inr ⟨m + 1, by simpa using hm, by omega⟩
        · intro r hr
          simp at hr
          rcases hr with rfl | hr
          · have : rle r ri := by
              have := kcmp_antisymm ri r
              unfold rle; omega
            exact rle_trans r ri rk this h3
          · exact h4 r hr

theorem kcmp_lt_of_lt_of_le (a b c : Rec) (h1 : kcmp a b < 0) (h2 : rle b c) : kcmp a c < 0 := by
  have hneg := kcmp_antisymm a c
  have hneg2 := kcmp_antisymm a b
  by_cases h : kcmp a c < 0
  · exact h
  · have hca : rle c a := by unfold rle; omega
    have hba := rle_trans b c a h2 hca
    unfold rle at hba; omega

theorem kcmp_lt_of_le_of_lt (a b c : Rec) (h1 : rle a b) (h2 : kcmp b c < 0) : kcmp a c < 0 := by
  have hneg := kcmp_antisymm a c
  have hneg2 := kcmp_antisymm b c
  by_cases h : kcmp a c < 0
  · exact h
  · have hca : rle c a := by unfold rle; omega
    have hcb := rle_trans c a b hca h1
    unfold rle at hcb; omega

/-- the index returned is the FIRST maximal one: the record that was the running best is strictly
worse than the result unless it is the result, and so is every element before the result -/
theorem selLoop_first (rest : List Rec) : ∀ (i : Nat) (ri : Rec) (j : Nat), i < j →
    Readable ri → (∀ r ∈ rest, Readable r) → ∀ k, selLoop i ri j rest = some k →
    ∃ rk, ((k = i ∧ rk = ri) ∨ ∃ m, rest[m]? = some rk ∧ k = j + m) ∧
      (k ≠ i → kcmp ri rk < 0) ∧ (∀ m r, rest[m]? = some r → j + m < k → kcmp r rk < 0) := by
  induction rest with
  | nil =>
    intro i ri j _ _ _ k hk
    simp only [selLoop, Option.some.injEq] at hk
    exact ⟨ri, .inl ⟨hk.symm, rfl⟩, fun h => absurd hk.symm h, by simp⟩
  | cons rj rest ih =>
    intro i ri j hij hri hrest k hk
    have hrj : Readable rj := hrest rj (by simp)
    have hrest' : ∀ r ∈ rest, Readable r := fun r hr => hrest r (by simp [hr])
    have he := eff_readable ri rj hri hrj
    unfold eff at he
    cases hc : compare ri rj with
    | none => simp [hc] at he
    | some c =>
      simp only [hc, Option.map_some, Option.some.injEq] at he
      simp only [selLoop, hc] at hk
      rw [he] at hk
      by_cases hlt : kcmp ri rj < 0
      · simp only [hlt, if_true] at hk
        obtain ⟨rk, h1, h2, h3⟩ := ih j rj (j + 1) (by omega) hrj hrest' k hk
        obtain ⟨k', rk', hs, hw, hle, _⟩ := selLoop_spec rest j rj (j + 1) hrj hrest'
        have hkj : j ≤ k := by
          rcases h1 with ⟨h, _⟩ | ⟨m, _, h⟩ <;> omega
        have hrle : rle rj rk := by
          by_cases hkk : k = j
          · rcases h1 with ⟨_, hr⟩ | ⟨m, _, hm⟩
            · rw [hr]; exact rle_refl _
            · omega
          · have := h2 hkk; unfold rle; omega
        refine ⟨rk, ?_, ?_, ?_⟩
        · right
          rcases h1 with ⟨hkj', hr⟩ | ⟨m, hm, hkm⟩
          · exact ⟨0, by simp [hr], by omega⟩
          · exact ⟨m + 1, by simpa using hm, by omega⟩
        · intro _; exact kcmp_lt_of_lt_of_le ri rj rk hlt hrle
        · intro m r hm hlt'
          cases m with
          | zero =>
            simp only [List.getElem?_cons_zero, Option.some.injEq] at hm
            subst hm
            exact h2 (by omega)
          | succ m => exact h3 m r (by simpa using hm) (by omega)
      · simp only [hlt, if_false] at hk
        obtain ⟨rk, h1, h2, h3⟩ := ih i ri (j + 1) (by omega) hri hrest' k hk
        refine ⟨rk, ?_, h2, ?_⟩
        · rcases h1 with h1 | ⟨m, hm, hkm⟩
          · exact .inl h1
          · exact .inr ⟨m + 1, by simpa using hm, by omega⟩
        · intro m r hm hlt'
          cases m with
          | zero =>
            simp only [List.getElem?_cons_zero, Option.some.injEq] at hm
            have hki : k ≠ i := by omega
            have hle : rle rj ri := by
              have := kcmp_antisymm ri rj
              unfold rle; omega
            rw [← hm]
            exact kcmp_lt_of_le_of_lt rj ri rk hle (h2 hki)
          | succ m => exact h3 m r (by simpa using hm) (by omega)

/-- on lists whose records all have the same signature version and a readable EOL, the loop fails
exactly when some sequence number is unreadable -/
theorem selLoop_fail_iff (v : Bool) (rest : List Rec) : ∀ (i : Nat) (ri : Rec) (j : Nat),
    rest ≠ [] → ri.hasV2 = v → ri.eol.isSome = true → (∀ r ∈ rest, r.hasV2 = v ∧ r.eol.isSome = true) →
    (selLoop i ri j rest = none ↔ (ri.seq = none ∨ ∃ r ∈ rest, r.seq = none)) := by
  induction rest with
  | nil => intro i ri j h; simp at h
  | cons rj rest ih =>
    intro i ri j _ hv he hrest
    have hvj := (hrest rj (by simp)).1
    have hej := (hrest rj (by simp)).2
    have hrest' : ∀ r ∈ rest, r.hasV2 = v ∧ r.eol.isSome = true := fun r hr => hrest r (by simp [hr])
    cases hsi : ri.seq with
    | none =>
      have : compare ri rj = none := by
        simp [compare, hsi, hv, hvj]
      simp [selLoop, this]
    | some si =>
      cases hsj : rj.seq with
      | none =>
        have : compare ri rj = none := by
          simp [compare, hsi, hsj, hv, hvj]
        simp [selLoop, this, hsj]
      | some sj =>
        obtain ⟨ti, hti⟩ := Option.isSome_iff_exists.mp he
        obtain ⟨tj, htj⟩ := Option.isSome_iff_exists.mp hej
        obtain ⟨c, hc⟩ : ∃ c, compare ri rj = some c := by
          simp only [compare, hsi, hsj, hti, htj, hv, hvj]
          repeat' split
          all_goals simp
        simp only [selLoop, hc]
        generalize (if (c == 0) = true then bytesCompare ri.bytes rj.bytes else c) = c'
        cases rest with
        | nil =>
          by_cases hlt : c' < 0 <;> simp [hlt, hsj, selLoop]
        | cons rk rest2 =>
          by_cases hlt : c' < 0
          · simp only [hlt, if_true]
            rw [ih j rj (j + 1) (by simp) hvj hej hrest']
            simp [hsj]
          · simp only [hlt, if_false]
            rw [ih i ri (j + 1) (by simp) hv he hrest']
            simp [hsi, hsj]

end C27
