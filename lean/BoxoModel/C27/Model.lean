/-
C27 — ipns: executable model of record comparison and selection.

Transcribed from /repo/ipns/record.go `compare` and /repo/ipns/validation.go `Validator.Select`,
`selectRecord`, branch for branch.

A parsed record is abstracted to what `compare`/`selectRecord` read from it:
  hasV2  = `pb.GetSignatureV2() != nil`  (field 8 present on the wire, even when empty)
  seq    = `rec.Sequence()`   (`none` = the accessor returns an error: key missing / not an int)
  eol    = `rec.Validity()`   (`none` = error: ValidityType missing or ≠ EOL, Validity missing / unparsable);
           the instant as nanoseconds since the Unix epoch (`time.Time.After` compares instants)
  bytes  = the marshalled record handed to Select (`vals[i]`), compared with `bytes.Compare`
`Validator.Select` first unmarshals every value; an element that fails to unmarshal is `none`.
Core-only (no Mathlib): this file is also imported by the line-protocol driver.
-/
namespace C27

structure Rec where
  hasV2 : Bool
  seq : Option Nat
  eol : Option Int
  bytes : List Nat
  deriving Repr, DecidableEq

/-- Go `bytes.Compare`: lexicographic on unsigned bytes, a proper prefix is smaller. -/
def bytesCompare : List Nat → List Nat → Int
  | [], [] => 0
  | [], _ :: _ => -1
  | _ :: _, [] => 1
  | a :: as, b :: bs => if a < b then -1 else if b < a then 1 else bytesCompare as bs

/-- `compare(a, b)`: `none` = an error is returned. The checks are made in the order of the Go code,
so an unreadable field is only noticed when the comparison gets that far. -/
def compare (a b : Rec) : Option Int :=
  if a.hasV2 && !b.hasV2 then some 1
  else if !a.hasV2 && b.hasV2 then some (-1)
  else
    match a.seq with
    | none => none
    | some sa =>
      match b.seq with
      | none => none
      | some sb =>
        if sa > sb then some 1
        else if sa < sb then some (-1)
        else
          match a.eol with
          | none => none
          | some ta =>
            match b.eol with
            | none => none
            | some tb =>
              if ta > tb then some 1          -- at.After(bt)
              else if tb > ta then some (-1)  -- bt.After(at)
              else some 0

/-- the `for j := 1; j < len(recs); j++` loop of `selectRecord`; `i`/`ri` = current best index and
`recs[i]`, `j` = index of the head of the remaining list. -/
def selLoop : Nat → Rec → Nat → List Rec → Option Nat
  | i, _, _, [] => some i
  | i, ri, j, rj :: rest =>
    match compare ri rj with
    | none => none
    | some c =>
      let c := if c == 0 then bytesCompare ri.bytes rj.bytes else c
      if c < 0 then selLoop j rj (j + 1) rest else selLoop i ri (j + 1) rest

/-- `selectRecord(recs, vals)`: `none` = error (Go returns -1, err). -/
def selectRecord : List Rec → Option Nat
  | [] => none
  | [_] => some 0
  | r0 :: rest => selLoop 0 r0 1 rest

/-- `Validator.Select(k, vals)`: every value is unmarshalled first (`none` = UnmarshalRecord failed). -/
def select (vals : List (Option Rec)) : Option Nat :=
  match vals.mapM id with
  | none => none
  | some recs => selectRecord recs

/-- bytes of the selected record (`vals[i]`), `none` on error -/
def selectBytes (rs : List Rec) : Option (List Nat) :=
  match selectRecord rs with
  | none => none
  | some i => (rs[i]?).map (·.bytes)

end C27
