import BoxoModel.Lib.PathClean
/-! Lemmas about `Lib.PathClean` (core-only). -/
namespace PathClean

/-! ### split / join -/

theorem splitSlash_ne_nil (s : Str) : splitSlash s ≠ [] := by
  induction s with
  | nil => simp [splitSlash]
  | cons c cs ih =>
    unfold splitSlash
    split
    · simp
    · split <;> simp

theorem splitSlash_noslash {s : Str} (h : '/' ∉ s) : splitSlash s = [s] := by
  induction s with
  | nil => rfl
  | cons c cs ih =>
    have hc : c ≠ '/' := by intro e; apply h; simp [e]
    have hcs : '/' ∉ cs := by intro e; apply h; simp [e]
    simp [splitSlash, hc, ih hcs]

theorem splitSlash_append_noslash {a : Str} (b : Str) (h : '/' ∉ a) :
    splitSlash (a ++ '/' :: b) = a :: splitSlash b := by
  induction a with
  | nil => simp [splitSlash]
  | cons c cs ih =>
    have hc : c ≠ '/' := by intro e; apply h; simp [e]
    have hcs : '/' ∉ cs := by intro e; apply h; simp [e]
    simp [splitSlash, hc, ih hcs]

theorem mem_splitSlash_noslash {s : Str} {c : Str} (h : c ∈ splitSlash s) : '/' ∉ c := by
  induction s generalizing c with
  | nil => simp [splitSlash] at h; simp [h]
  | cons x xs ih =>
    unfold splitSlash at h
    split at h
    · rcases List.mem_cons.1 h with h | h
      · simp [h]
      · exact ih h
    · rename_i hx
      split at h
      · simp at h; subst h; simpa using Ne.symm hx
      · rename_i hd tl heq
        rcases List.mem_cons.1 h with h | h
        · subst h
          have : '/' ∉ hd := ih (by rw [heq]; simp)
          simp [this, Ne.symm hx]
        · exact ih (by rw [heq]; simp [h])

theorem splitSlash_joinSlash (cs : List Str) (hne : cs ≠ []) (h : ∀ c ∈ cs, '/' ∉ c) :
    splitSlash (joinSlash cs) = cs := by
  induction cs with
  | nil => exact absurd rfl hne
  | cons a t ih =>
    cases t with
    | nil => simp [joinSlash, splitSlash_noslash (h a (by simp))]
    | cons b t' =>
      simp only [joinSlash]
      rw [splitSlash_append_noslash _ (h a (by simp))]
      rw [ih (by simp) (fun c hc => h c (by simp [hc]))]

/-- splitting distributes over a `/`-joined concatenation -/
theorem splitSlash_append (a b : Str) : splitSlash (a ++ '/' :: b) = splitSlash a ++ splitSlash b := by
  induction a with
  | nil => simp [splitSlash]
  | cons c cs ih =>
    by_cases hc : c = '/'
    · simp [splitSlash, hc, ih]
    · have hne := splitSlash_ne_nil cs
      simp only [List.cons_append, splitSlash, hc, if_false, ih]
      cases h : splitSlash cs with
      | nil => exact absurd h hne
      | cons hd tl => simp


/-! ### clean form -/

/-- Clean form of the written elements, last first: ordinary elements on top of leading `..`s
(which only an unrooted path may have). -/
def StkOK (rooted : Bool) : List Str → Bool
  | [] => true
  | t :: r => if t = dotdot then !rooted && r.all (· == dotdot) else Normal t && StkOK rooted r

/-- Clean form of a component list (first element first). -/
def CleanForm (rooted : Bool) (cs : List Str) : Bool := StkOK rooted cs.reverse

theorem normal_ne_nil {c : Str} (h : Normal c = true) : c ≠ [] := by
  simp [Normal] at h; exact h.1.1.1
theorem normal_ne_dot {c : Str} (h : Normal c = true) : c ≠ dot := by
  simp [Normal] at h; exact h.1.1.2
theorem normal_ne_dotdot {c : Str} (h : Normal c = true) : c ≠ dotdot := by
  simp [Normal] at h; exact h.1.2
theorem normal_noslash {c : Str} (h : Normal c = true) : '/' ∉ c := by
  simp [Normal] at h; exact h.2
theorem normal_of {c : Str} (h1 : c ≠ []) (h2 : c ≠ dot) (h3 : c ≠ dotdot) (h4 : '/' ∉ c) :
    Normal c = true := by
  simp [Normal, h1, h2, h3, h4]

theorem dotdot_not_normal : Normal dotdot = false := by decide

theorem stkOK_alldd {rooted : Bool} {r : List Str} (hr : rooted = false) (h : r.all (· == dotdot) = true) :
    StkOK rooted r = true := by
  induction r with
  | nil => rfl
  | cons t r ih =>
    simp at h
    simp [StkOK, h.1, hr]
    exact h.2

theorem stkOK_tail {rooted : Bool} {t : Str} {r : List Str} (h : StkOK rooted (t :: r) = true) :
    StkOK rooted r = true := by
  unfold StkOK at h
  split at h
  · simp at h; exact stkOK_alldd h.1 (by simpa using h.2)
  · simp at h; exact h.2

theorem stkOK_tail' {rooted : Bool} {s : List Str} (h : StkOK rooted s = true) :
    StkOK rooted s.tail = true := by
  cases s with
  | nil => rfl
  | cons t r => exact stkOK_tail h

/-- every element of a clean-form list is `..` or ordinary -/
theorem stkOK_mem {rooted : Bool} {s : List Str} (h : StkOK rooted s = true) {c : Str} (hc : c ∈ s) :
    c = dotdot ∨ Normal c = true := by
  induction s with
  | nil => simp at hc
  | cons t r ih =>
    rcases List.mem_cons.1 hc with e | e
    · subst e
      unfold StkOK at h
      split at h
      · left; assumption
      · simp at h; right; exact h.1
    · exact ih (stkOK_tail h) e

theorem stkOK_rooted {s : List Str} (h : StkOK true s = true) : ∀ c ∈ s, Normal c = true := by
  induction s with
  | nil => simp
  | cons t r ih =>
    intro c hc
    unfold StkOK at h
    split at h
    · simp at h
    · simp at h
      rcases List.mem_cons.1 hc with e | e
      · subst e; exact h.1
      · exact ih h.2 c e

theorem stkOK_of_normal {rooted : Bool} {s : List Str} (h : ∀ c ∈ s, Normal c = true) : StkOK rooted s = true := by
  induction s with
  | nil => rfl
  | cons t r ih =>
    have ht := h t (by simp)
    simp [StkOK, normal_ne_dotdot ht, ht]
    exact ih (fun c hc => h c (by simp [hc]))

/-- the scan step preserves clean form -/
theorem stkOK_step {rooted : Bool} {stk : List Str} {c : Str} (h : StkOK rooted stk = true)
    (hc : '/' ∉ c) : StkOK rooted (cleanStep rooted stk c) = true := by
  unfold cleanStep
  split
  · exact h
  · rename_i h1
    split
    · split
      · exact stkOK_tail' h
      · rename_i hr
        split
        · simp [StkOK, hr]
        · rename_i t r
          split
          · rename_i ht
            subst ht
            unfold StkOK at h
            simp at h
            simp [StkOK, hr]
            exact h.2
          · exact stkOK_tail h
    · rename_i h2
      have : Normal c = true := normal_of (fun e => h1 (Or.inl e)) (fun e => h1 (Or.inr e)) h2 hc
      simp [StkOK, h2, this, h]

theorem stkOK_foldl {rooted : Bool} (cs : List Str) {stk : List Str} (h : StkOK rooted stk = true)
    (hc : ∀ c ∈ cs, '/' ∉ c) : StkOK rooted (cs.foldl (cleanStep rooted) stk) = true := by
  induction cs generalizing stk with
  | nil => exact h
  | cons c cs ih =>
    simp only [List.foldl_cons]
    exact ih (stkOK_step h (hc c (by simp))) (fun c' hc' => hc c' (by simp [hc']))

/-- the written elements of `Clean` are in clean form -/
theorem cleanComps_form (rooted : Bool) (cs : List Str) (hc : ∀ c ∈ cs, '/' ∉ c) :
    CleanForm rooted (cleanComps rooted cs) = true := by
  simp [CleanForm, cleanComps]
  exact stkOK_foldl cs rfl hc

/-- pushing one more clean-form element is what the scan step does -/
theorem cleanStep_push {rooted : Bool} {stk : List Str} {c : Str} (h : StkOK rooted (c :: stk) = true) :
    cleanStep rooted stk c = c :: stk := by
  unfold StkOK at h
  split at h
  · rename_i hc
    subst hc
    simp at h
    have hd : dotdot ≠ dot := by decide
    have hn : dotdot ≠ ([] : Str) := by decide
    simp [cleanStep, hd, hn, h.1]
    cases stk with
    | nil => rfl
    | cons t r => simp at h; simp [h.2.1]
  · rename_i hc
    simp at h
    simp [cleanStep, hc, normal_ne_nil h.1, normal_ne_dot h.1]

theorem foldl_cleanStep_fixed {rooted : Bool} (cs : List Str) (stk : List Str)
    (h : StkOK rooted (cs.reverse ++ stk) = true) :
    cs.foldl (cleanStep rooted) stk = cs.reverse ++ stk := by
  induction cs generalizing stk with
  | nil => rfl
  | cons c cs ih =>
    simp only [List.foldl_cons]
    have h' : StkOK rooted (cs.reverse ++ (c :: stk)) = true := by simpa using h
    have hc : StkOK rooted (c :: stk) = true := by
      clear ih
      generalize cs.reverse = l at h'
      induction l with
      | nil => simpa using h'
      | cons a l ih2 => exact ih2 (stkOK_tail h')
    rw [cleanStep_push hc, ih _ h']
    simp

/-- a clean-form list is a fixed point of the scan -/
theorem cleanComps_fixed {rooted : Bool} {cs : List Str} (h : CleanForm rooted cs = true) :
    cleanComps rooted cs = cs := by
  have := foldl_cleanStep_fixed (rooted := rooted) cs [] (by simpa [CleanForm] using h)
  simp [cleanComps, this]

theorem cleanForm_mem {rooted : Bool} {cs : List Str} (h : CleanForm rooted cs = true) {c : Str}
    (hc : c ∈ cs) : c = dotdot ∨ Normal c = true :=
  stkOK_mem (s := cs.reverse) h (by simpa using hc)

theorem cleanForm_noslash {rooted : Bool} {cs : List Str} (h : CleanForm rooted cs = true) :
    ∀ c ∈ cs, '/' ∉ c := by
  intro c hc
  rcases cleanForm_mem h hc with e | e
  · subst e; decide
  · exact normal_noslash e

theorem cleanForm_ne_nil {rooted : Bool} {cs : List Str} (h : CleanForm rooted cs = true) :
    ∀ c ∈ cs, c ≠ [] := by
  intro c hc
  rcases cleanForm_mem h hc with e | e
  · subst e; decide
  · exact normal_ne_nil e

/-- a cleaned rooted path has only ordinary elements: no empty, `.` or `..` element -/
theorem cleanForm_rooted {cs : List Str} (h : CleanForm true cs = true) : ∀ c ∈ cs, Normal c = true := by
  intro c hc
  exact stkOK_rooted (s := cs.reverse) h c (by simpa using hc)

theorem cleanCP_form (s : Str) : CleanForm (cleanCP s).rooted (cleanCP s).comps = true :=
  cleanComps_form _ _ (fun _ hc => mem_splitSlash_noslash hc)

/-- **No dots in a rooted result.** -/
theorem cleanCP_rooted_normal {s : Str} (h : isRooted s = true) : ∀ c ∈ (cleanCP s).comps, Normal c = true := by
  have := cleanCP_form s
  simp only [cleanCP, h] at this ⊢
  exact cleanForm_rooted this

/-! ### rendering and idempotence -/

theorem joinSlash_cons_head {c : Str} {cs : List Str} (hc : c ≠ []) :
    (joinSlash (c :: cs)).head? = c.head? := by
  cases cs with
  | nil => rfl
  | cons b t =>
    cases c with
    | nil => exact absurd rfl hc
    | cons x xs => simp [joinSlash]

theorem isRooted_render {rooted : Bool} {cs : List Str} (h : CleanForm rooted cs = true) :
    isRooted (render rooted cs) = rooted := by
  cases rooted with
  | true => simp [render, isRooted]
  | false =>
    cases cs with
    | nil => decide
    | cons c t =>
      have hne := cleanForm_ne_nil h c (by simp)
      have hns := cleanForm_noslash h c (by simp)
      have hh := joinSlash_cons_head (cs := t) hne
      cases c with
      | nil => exact absurd rfl hne
      | cons x xs =>
        have : x ≠ '/' := by intro e; apply hns; simp [e]
        simp [render, isRooted, hh, this]

theorem cleanComps_nil_cons (rooted : Bool) (cs : List Str) :
    cleanComps rooted ([] :: cs) = cleanComps rooted cs := by
  simp [cleanComps, cleanStep]

theorem cleanComps_split_render {rooted : Bool} {cs : List Str} (h : CleanForm rooted cs = true) :
    cleanComps rooted (splitSlash (render rooted cs)) = cs := by
  have hns := cleanForm_noslash h
  cases rooted with
  | true =>
    cases cs with
    | nil => simp [render, joinSlash, splitSlash, cleanComps, cleanStep]
    | cons c t =>
      simp only [render, if_true, splitSlash]
      rw [cleanComps_nil_cons, splitSlash_joinSlash _ (by simp) hns]
      exact cleanComps_fixed h
  | false =>
    cases cs with
    | nil => decide
    | cons c t =>
      simp only [render]
      rw [if_neg (by simp), if_neg (by simp), splitSlash_joinSlash _ (by simp) hns]
      exact cleanComps_fixed h

/-- re-cleaning the rendering of a clean-form path gives the same cleaned path -/
theorem cleanCP_render {p : CP} (h : CleanForm p.rooted p.comps = true) : cleanCP p.render = p := by
  cases p with
  | mk rooted cs =>
    simp only [cleanCP, CP.render] at *
    rw [isRooted_render h, cleanComps_split_render h]

/-- **`Clean` is idempotent.** -/
theorem clean_idempotent (s : Str) : clean (clean s) = clean s := by
  unfold clean
  rw [cleanCP_render (cleanCP_form s)]

/-- cleaning yields the same cleaned path as cleaning the cleaned string -/
theorem cleanCP_clean (s : Str) : cleanCP (clean s) = cleanCP s :=
  cleanCP_render (cleanCP_form s)


/-! ### `Rel` and lexical containment -/

theorem stripCommon_spec (B T : List Str) :
    ∃ C, B = C ++ (stripCommon B T).1 ∧ T = C ++ (stripCommon B T).2 := by
  induction B generalizing T with
  | nil => exact ⟨[], by simp [stripCommon]⟩
  | cons b bs ih =>
    cases T with
    | nil => exact ⟨[], by simp [stripCommon]⟩
    | cons t ts =>
      by_cases h : b = t
      · obtain ⟨C, h1, h2⟩ := ih ts
        refine ⟨b :: C, ?_, ?_⟩
        · simp only [stripCommon, h, if_true, List.cons_append]; rw [← h1]
        · simp only [stripCommon, h, if_true, List.cons_append]; rw [← h2]
      · exact ⟨[], by simp [stripCommon, h]⟩

theorem joinSlash_ne_nil {c : Str} {cs : List Str} (hc : c ≠ []) : joinSlash (c :: cs) ≠ [] := by
  cases cs with
  | nil => simpa [joinSlash] using hc
  | cons b t => cases c with
    | nil => exact absurd rfl hc
    | cons x xs => simp [joinSlash]

theorem relEscapes_dotdot_cons (cs : List Str) : relEscapes (joinSlash (dotdot :: cs)) = true := by
  cases cs with
  | nil => decide
  | cons b t => simp [joinSlash, relEscapes, dotdot]

/-- in a clean-form stack everything above an ordinary element is ordinary -/
theorem stkOK_above_normal {rooted : Bool} {l s : List Str} {c : Str}
    (h : StkOK rooted (l ++ c :: s) = true) (hc : Normal c = true) : ∀ x ∈ l, Normal x = true := by
  induction l with
  | nil => simp
  | cons x l ih =>
    intro y hy
    have h' : StkOK rooted (x :: (l ++ c :: s)) = true := by simpa using h
    have hx : Normal x = true := by
      unfold StkOK at h'
      split at h'
      · simp at h'
        have := h'.2.2.1
        rw [this] at hc
        exact absurd hc (by decide)
      · simp at h'; exact h'.1
    rcases List.mem_cons.1 hy with e | e
    · subst e; exact hx
    · exact ih (stkOK_tail h') y e

/-- in a clean-form list everything after an ordinary element is ordinary -/
theorem cleanForm_after_normal {rooted : Bool} {A R : List Str} {c : Str}
    (h : CleanForm rooted (A ++ c :: R) = true) (hc : Normal c = true) : ∀ x ∈ R, Normal x = true := by
  intro x hx
  have h' : StkOK rooted (R.reverse ++ c :: A.reverse) = true := by simpa [CleanForm] using h
  exact stkOK_above_normal h' hc x (by simpa using hx)

theorem isRooted_append {a : Str} (b : Str) (h : a ≠ []) : isRooted (a ++ b) = isRooted a := by
  cases a with
  | nil => exact absurd rfl h
  | cons x xs => simp [isRooted]

/-- cleaning `a/b` continues the scan of `a` with the elements of `b` -/
theorem cleanCP_append_slash {a : Str} (b : Str) (h : a ≠ []) :
    cleanCP (a ++ '/' :: b) =
      { rooted := isRooted a,
        comps := ((splitSlash b).foldl (cleanStep (isRooted a)) (cleanCP a).comps.reverse).reverse } := by
  simp [cleanCP, isRooted_append _ h, splitSlash_append, cleanComps, List.foldl_append]

/-- Appending clean-form elements to a cleaned path: `Clean(a + "/" + Join(rest))`. -/
theorem cleanCP_append_rest {a : Str} {rest : List Str} (h : a ≠ []) (hr : rest ≠ [])
    (hf : CleanForm (isRooted a) ((cleanCP a).comps ++ rest) = true) :
    cleanCP (a ++ '/' :: joinSlash rest) = { rooted := isRooted a, comps := (cleanCP a).comps ++ rest } := by
  rw [cleanCP_append_slash _ h]
  have hns : ∀ c ∈ rest, '/' ∉ c := fun c hc => cleanForm_noslash hf c (by simp [hc])
  rw [splitSlash_joinSlash _ hr hns]
  rw [foldl_cleanStep_fixed rest _ (by simpa [CleanForm] using hf)]
  simp

/-- **Containment.** When `Rel(base, targ)` succeeds with a result that is not `..` and does not start
with `../`, the cleaned target lies lexically inside the cleaned base (element-wise, the remainder made of
ordinary elements only), and joining the base with the result gives back exactly `Clean(targ)`. -/
theorem rel_inside {base targ r : Str} (h : rel base targ = some r) (he : relEscapes r = false) :
    inside (cleanCP base) (cleanCP targ) ∧ join2 base r = clean targ ∧
      (r = dot ∨ ∃ rest, rest ≠ [] ∧ (∀ c ∈ rest, Normal c = true) ∧ r = joinSlash rest) := by
  have hfb := cleanCP_form base
  have hft := cleanCP_form targ
  unfold rel at h
  simp only at h
  split at h
  · -- equal cleaned paths
    rename_i heq
    simp at h; subst h
    refine ⟨⟨by rw [heq], [], by simp [heq]⟩, ?_, Or.inl rfl⟩
    unfold join2
    by_cases hb : base = []
    · subst hb
      simp only [if_true]
      rw [if_neg (by decide)]
      unfold clean
      rw [← heq]; decide
    · rw [if_neg hb]
      unfold clean
      rw [cleanCP_append_slash _ hb, ← heq]
      simp [cleanCP, splitSlash, dot, cleanStep]
  · rename_i hne
    split at h
    · simp at h
    · rename_i hroot
      have hroot : (cleanCP base).rooted = (cleanCP targ).rooted := by
        cases hb : (cleanCP base).rooted <;> cases ht : (cleanCP targ).rooted <;> simp_all
      obtain ⟨C, hB, hT⟩ := stripCommon_spec (cleanCP base).comps
        (if (!(cleanCP targ).rooted && decide ((cleanCP targ).comps = [])) = true then [dot] else (cleanCP targ).comps)
      generalize hS : stripCommon (cleanCP base).comps
        (if (!(cleanCP targ).rooted && decide ((cleanCP targ).comps = [])) = true then [dot] else (cleanCP targ).comps) = S at h hB hT
      split at h
      · simp at h
      · split at h
        · -- base elements left: the result starts with `..`
          rename_i hB'
          simp at h; subst h
          cases hS1 : S.1 with
          | nil => exact absurd hS1 hB'
          | cons x xs =>
            rw [hS1] at he
            simp only [List.map_cons, List.cons_append] at he
            rw [relEscapes_dotdot_cons] at he
            exact absurd he (by simp)
        · rename_i hB'
          have hB' : S.1 = [] := by simpa using hB'
          simp at h; subst h
          rw [hB', List.append_nil] at hB
          subst hB
          -- the target `.` case is impossible
          split at hT
          · rename_i hdot
            simp at hdot
            -- [dot] = base.comps ++ S.2
            cases hbc : (cleanCP base).comps with
            | nil =>
              exfalso; apply hne
              have h1 : (cleanCP base).comps = (cleanCP targ).comps := by rw [hbc, hdot.2]
              cases hb : cleanCP base; cases ht : cleanCP targ
              simp_all
            | cons x xs =>
              rw [hbc] at hT
              simp at hT
              have := cleanForm_mem hfb (c := x) (by rw [hbc]; simp)
              rw [← hT.1] at this
              rcases this with e | e
              · exact absurd e (by decide)
              · exact absurd e (by decide)
          · -- targ.comps = base.comps ++ S.2
            have hS2 : S.2 ≠ [] := by
              intro e
              apply hne
              rw [e, List.append_nil] at hT
              cases hb : cleanCP base; cases ht : cleanCP targ
              simp_all
            cases hS2' : S.2 with
            | nil => exact absurd hS2' hS2
            | cons c R =>
              rw [hS2'] at hT he
              have hcm := cleanForm_mem hft (c := c) (by rw [hT]; simp)
              have hcn : Normal c = true := by
                rcases hcm with e | e
                · subst e; rw [relEscapes_dotdot_cons] at he; exact absurd he (by simp)
                · exact e
              have hrest : ∀ x ∈ c :: R, Normal x = true := by
                intro x hx
                rcases List.mem_cons.1 hx with e | e
                · subst e; exact hcn
                · rw [hT] at hft; exact cleanForm_after_normal hft hcn x e
              refine ⟨⟨hroot, c :: R, hT, hrest⟩, ?_, Or.inr ⟨c :: R, by simp, hrest, rfl⟩⟩
              have hjn : joinSlash (c :: R) ≠ [] := joinSlash_ne_nil (normal_ne_nil hcn)
              unfold join2
              by_cases hb : base = []
              · subst hb
                rw [if_pos rfl, if_neg hjn]
                have hbc : (cleanCP ([] : Str)).comps = [] := by decide
                have hbr : (cleanCP ([] : Str)).rooted = false := by decide
                rw [hbc, List.nil_append] at hT
                rw [hbr] at hroot
                have : joinSlash (c :: R) = render false (c :: R) := by simp [render]
                rw [this]
                unfold clean
                have hcf : CleanForm false (c :: R) = true := by rw [← hT, hroot]; exact hft
                have := cleanCP_render (p := { rooted := false, comps := c :: R }) hcf
                simp only [CP.render] at this
                rw [this]
                cases ht : cleanCP targ
                simp_all [CP.render]
              · rw [if_neg hb]
                unfold clean
                have hrt : isRooted base = (cleanCP base).rooted := rfl
                rw [cleanCP_append_rest hb (by simp) (by rw [hrt, hroot, ← hT]; exact hft)]
                cases ht : cleanCP targ
                simp_all [CP.render]

/-- the last byte of a `/`-join of non-empty slash-free elements is not `/` -/
theorem joinSlash_getLast {cs : List Str} (hne : cs ≠ []) (h : ∀ c ∈ cs, c ≠ [] ∧ '/' ∉ c) :
    (joinSlash cs).getLast? ≠ some '/' := by
  induction cs with
  | nil => exact absurd rfl hne
  | cons a t ih =>
    cases t with
    | nil =>
      have ⟨ha, hs⟩ := h a (by simp)
      simp only [joinSlash]
      intro e
      have := List.mem_of_getLast? e
      exact hs this
    | cons b t' =>
      simp only [joinSlash]
      have ih' := ih (by simp) (fun c hc => h c (by simp [hc]))
      have hb := (h b (by simp)).1
      have hj : joinSlash (b :: t') ≠ [] := joinSlash_ne_nil hb
      rw [List.getLast?_append]
      cases hjl : (joinSlash (b :: t')) with
      | nil => exact absurd hjl hj
      | cons y ys =>
        rw [hjl] at ih'
        simp only [List.getLast?_cons_cons]
        cases hq : (y :: ys).getLast? with
        | none => simp at hq
        | some z => rw [hq] at ih'; simpa using ih'

end PathClean
