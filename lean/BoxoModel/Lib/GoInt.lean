/-! Go integer builtins used by the regenerated (T-gen `ints`) definitions. Core-only.
All results are `BitVec 64` interpreted as Go `int`. -/
namespace GoInt

/-- math/bits.Len*: minimum number of bits to represent x; 0 for x = 0 -/
def len {n : Nat} (x : BitVec n) : BitVec 64 :=
  if x.toNat = 0 then 0#64 else BitVec.ofNat 64 (Nat.log2 x.toNat + 1)

def tzNat : Nat → Nat → Nat
  | 0, _ => 0
  | fuel + 1, v => if v % 2 = 1 then 0 else 1 + tzNat fuel (v / 2)

/-- math/bits.TrailingZeros*: number of trailing zero bits; the width for x = 0 -/
def trailingZeros {n : Nat} (x : BitVec n) : BitVec 64 :=
  if x.toNat = 0 then BitVec.ofNat 64 n else BitVec.ofNat 64 (tzNat n x.toNat)

def popNat : Nat → Nat → Nat
  | 0, _ => 0
  | fuel + 1, v => v % 2 + popNat fuel (v / 2)

def onesCount {n : Nat} (x : BitVec n) : BitVec 64 := BitVec.ofNat 64 (popNat n x.toNat)

def umin {n : Nat} (a b : BitVec n) : BitVec n := if BitVec.ult b a then b else a
def umax {n : Nat} (a b : BitVec n) : BitVec n := if BitVec.ult a b then b else a
def smin {n : Nat} (a b : BitVec n) : BitVec n := if BitVec.slt b a then b else a
def smax {n : Nat} (a b : BitVec n) : BitVec n := if BitVec.slt a b then b else a

end GoInt
