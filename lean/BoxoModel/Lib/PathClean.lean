/-
Lib.PathClean — Go's `path.Clean` / `path.Join` / `filepath.Rel` (Unix) at component level.

Strings are `List Char`; a Go string is a byte string, and the drivers map every byte `b` to
`Char.ofNat b`, so `'/'` and `'.'` are the bytes 0x2f and 0x2e and every other byte is opaque.

Transcription (Go 1.25 `internal/filepathlite.Clean`, identical to `path.Clean` on Unix):
  * the scanner of `Clean` walks the `/`-separated elements of the input: `splitSlash`;
  * empty and `.` elements are skipped; `..` removes the last written element when there is one
    after the `dotdot` mark (`out.w > dotdot`), is dropped at the root of a rooted path, and is
    appended (moving the mark) otherwise: `cleanStep` on the stack of written elements
    (for an unrooted path the elements before the mark are exactly the leading `..`s);
  * the written elements are joined by `/` after the leading `/` of a rooted path; an empty
    result becomes `.`: `render`.
`filepath.Rel` is transcribed on the cleaned component lists (`rel`), `Join` is `join2`.
This file is core-only (it is imported by line-protocol drivers).  Lemmas are in
`Lib/PathCleanLemmas.lean`; the model is tied to Go's real `path.Clean`, `filepath.Clean`,
`filepath.Join`, `filepath.Rel` by the correspondence run of the C41 check (`pc …` op lines).
-/
namespace PathClean

abbrev Str := List Char

def slash : Char := '/'
def dot : Str := ['.']
def dotdot : Str := ['.', '.']

/-- `strings.Split(s, "/")`: never empty, `""` gives `[""]`. -/
def splitSlash : Str → List Str
  | [] => [[]]
  | c :: cs =>
    if c = '/' then [] :: splitSlash cs
    else match splitSlash cs with
      | [] => [[c]]          -- unreachable: splitSlash is never empty
      | h :: t => (c :: h) :: t

/-- `strings.Join(cs, "/")` -/
def joinSlash : List Str → Str
  | [] => []
  | [a] => a
  | a :: b :: t => a ++ '/' :: joinSlash (b :: t)

def isRooted (s : Str) : Bool := s.head? == some '/'

/-- One element of the scan loop of `Clean`; `stk` is the list of written elements, last first. -/
def cleanStep (rooted : Bool) (stk : List Str) (c : Str) : List Str :=
  if c = [] ∨ c = dot then stk
  else if c = dotdot then
    if rooted then stk.tail
    else match stk with
      | [] => [dotdot]
      | t :: r => if t = dotdot then dotdot :: t :: r else r
  else c :: stk

/-- The written elements of `Clean` over the given input elements. -/
def cleanComps (rooted : Bool) (cs : List Str) : List Str :=
  (cs.foldl (cleanStep rooted) []).reverse

def render (rooted : Bool) (cs : List Str) : Str :=
  if rooted then '/' :: joinSlash cs
  else if cs = [] then dot else joinSlash cs

/-- A cleaned path: rootedness and elements. -/
structure CP where
  rooted : Bool
  comps : List Str
deriving DecidableEq, Repr

def cleanCP (s : Str) : CP := { rooted := isRooted s, comps := cleanComps (isRooted s) (splitSlash s) }
def CP.render (p : CP) : Str := PathClean.render p.rooted p.comps

/-- Go `path.Clean` = `filepath.Clean` on Unix. -/
def clean (s : Str) : Str := (cleanCP s).render

/-- Go `filepath.Join(a, b)` / `path.Join(a, b)`: the first non-empty element onwards, joined by `/`,
cleaned; `""` when both are empty. -/
def join2 (a b : Str) : Str :=
  if a = [] then (if b = [] then [] else clean b) else clean (a ++ '/' :: b)

/-- an ordinary element: non-empty, not `.`, not `..`, no `/` -/
def Normal (c : Str) : Bool := c ≠ [] && c ≠ dot && c ≠ dotdot && !c.contains '/'

/-- strip the common leading elements (the element-matching loop of `filepath.Rel`) -/
def stripCommon : List Str → List Str → List Str × List Str
  | b :: bs, t :: ts => if b = t then stripCommon bs ts else (b :: bs, t :: ts)
  | bs, ts => (bs, ts)

/-- Go `filepath.Rel(base, targ)` on Unix; `none` = error. -/
def rel (base targ : Str) : Option Str :=
  let b := cleanCP base
  let t := cleanCP targ
  if b = t then some dot
  else if b.rooted ≠ t.rooted then none
  else
    -- `base == "."` becomes `""`; a target `"."` keeps its single element `.`
    let T := if !t.rooted && t.comps = [] then [dot] else t.comps
    let r := stripCommon b.comps T
    if r.1.head? = some dotdot then none
    else if r.1 ≠ [] then some (joinSlash (r.1.map (fun _ => dotdot) ++ r.2))
    else some (joinSlash r.2)

/-- the test applied to a `Rel` result to see whether it leaves the base: `p == ".." || HasPrefix(p, "../")` -/
def relEscapes (p : Str) : Bool := p == dotdot || (['.', '.', '/'] : Str).isPrefixOf p

/-- lexical containment of cleaned paths: same rootedness, `inner = outer ++ rest` element-wise with
`rest` made of ordinary elements only (so no `..` leads out again). -/
def inside (outer inner : CP) : Prop :=
  outer.rooted = inner.rooted ∧ ∃ rest, inner.comps = outer.comps ++ rest ∧ ∀ c ∈ rest, Normal c = true

/-- executable version of `inside` -/
def insideB (outer inner : CP) : Bool :=
  outer.rooted == inner.rooted && outer.comps.isPrefixOf inner.comps &&
    (inner.comps.drop outer.comps.length).all Normal

/-! byte/hex helpers shared by the drivers -/
def hexVal (c : Char) : Option Nat :=
  if '0' ≤ c ∧ c ≤ '9' then some (c.toNat - '0'.toNat)
  else if 'a' ≤ c ∧ c ≤ 'f' then some (c.toNat - 'a'.toNat + 10)
  else none

/-- `-` is the empty string, otherwise pairs of lower-case hex digits; byte `b` ↦ `Char.ofNat b` -/
def unhex (s : String) : Option Str :=
  if s == "-" then some [] else
  let rec go : List Char → Option Str
    | [] => some []
    | [_] => none
    | a :: b :: r => do
      let x ← hexVal a
      let y ← hexVal b
      let t ← go r
      pure (Char.ofNat (x * 16 + y) :: t)
  go s.toList

def hexDigit (n : Nat) : Char := if n < 10 then Char.ofNat (48 + n) else Char.ofNat (87 + n)

def hex (s : Str) : String :=
  if s = [] then "-" else
  String.ofList (s.flatMap fun c => [hexDigit (c.toNat / 16 % 16), hexDigit (c.toNat % 16)])

end PathClean
