/-
Lib.Steps — a minimal generic small-step library (core Lean only).

A system is a partial step function `step : S → Ev → Option S` (`none` = the event is not enabled in
that state).  `Reach step init s` says `s` is reachable from a state satisfying `init` through some
finite list of enabled events — i.e. through *every possible interleaving*, because the event
itself says which thread moves.  `invariant_of_init_step` lifts an inductive invariant to all
reachable states; `run` is the executable counterpart used by drivers and `example`s.
-/
namespace Steps

variable {S Ev : Type}

/-- executable run over an event list; `none` as soon as an event is not enabled -/
def run (step : S → Ev → Option S) : S → List Ev → Option S
  | s, [] => some s
  | s, e :: es => match step s e with
    | some s' => run step s' es
    | none => none

/-- lenient run used by line-protocol drivers: a disabled event leaves the state unchanged -/
def runSkip (step : S → Ev → Option S) : S → List Ev → S
  | s, [] => s
  | s, e :: es => match step s e with
    | some s' => runSkip step s' es
    | none => runSkip step s es

/-- reachability through a trace (the list of events, oldest first) -/
inductive ReachVia (step : S → Ev → Option S) (init : S → Prop) : List Ev → S → Prop
  | init {s} : init s → ReachVia step init [] s
  | step {s s' es e} : ReachVia step init es s → step s e = some s' → ReachVia step init (es ++ [e]) s'

/-- reachability: some trace leads there -/
def Reach (step : S → Ev → Option S) (init : S → Prop) (s : S) : Prop :=
  ∃ es, ReachVia step init es s

theorem Reach.of_init {step : S → Ev → Option S} {init : S → Prop} {s : S} (h : init s) :
    Reach step init s := ⟨[], .init h⟩

theorem Reach.of_step {step : S → Ev → Option S} {init : S → Prop} {s s' : S} {e : Ev}
    (h : Reach step init s) (hs : step s e = some s') : Reach step init s' := by
  obtain ⟨es, h⟩ := h
  exact ⟨es ++ [e], .step h hs⟩

/-- An inductive invariant holds in every reachable state (every interleaving, any length). -/
theorem invariant_of_init_step {step : S → Ev → Option S} {init : S → Prop} (Inv : S → Prop)
    (hinit : ∀ s, init s → Inv s)
    (hstep : ∀ s e s', Inv s → step s e = some s' → Inv s')
    {s : S} (h : Reach step init s) : Inv s := by
  obtain ⟨es, h⟩ := h
  induction h with
  | init hi => exact hinit _ hi
  | step _ hs ih => exact hstep _ _ _ ih hs

/-- Same, when the inductive step needs the fact that the pre-state is reachable. -/
theorem invariant_of_init_step_reach {step : S → Ev → Option S} {init : S → Prop} (Inv : S → Prop)
    (hinit : ∀ s, init s → Inv s)
    (hstep : ∀ s e s', Reach step init s → Inv s → step s e = some s' → Inv s')
    {s : S} (h : Reach step init s) : Inv s := by
  obtain ⟨es, h⟩ := h
  induction h with
  | init hi => exact hinit _ hi
  | step hr hs ih => exact hstep _ _ _ ⟨_, hr⟩ ih hs

/-- `run` produces reachable states. -/
theorem reach_of_run {step : S → Ev → Option S} {init : S → Prop} {s s' : S} (es : List Ev)
    (h : Reach step init s) (hr : run step s es = some s') : Reach step init s' := by
  induction es generalizing s with
  | nil => simp [run] at hr; exact hr ▸ h
  | cons e es ih =>
    simp only [run] at hr
    cases hs : step s e with
    | none => simp [hs] at hr
    | some s1 => rw [hs] at hr; exact ih (h.of_step hs) hr

/-- forward simulation: a relation preserved by matching steps transfers reachability -/
theorem simulation {T : Type} {step : S → Ev → Option S} {init : S → Prop}
    {stepT : T → Ev → Option T} {initT : T → Prop} (R : S → T → Prop)
    (hinit : ∀ s, init s → ∃ t, initT t ∧ R s t)
    (hstep : ∀ s t e s', R s t → step s e = some s' → ∃ t', stepT t e = some t' ∧ R s' t')
    {s : S} (h : Reach step init s) : ∃ t, Reach stepT initT t ∧ R s t := by
  obtain ⟨es, h⟩ := h
  induction h with
  | init hi =>
    obtain ⟨t, ht, hr⟩ := hinit _ hi
    exact ⟨t, .of_init ht, hr⟩
  | step _ hs ih =>
    obtain ⟨t, ht, hr⟩ := ih
    obtain ⟨t', hs', hr'⟩ := hstep _ _ _ _ hr hs
    exact ⟨t', ht.of_step hs', hr'⟩

end Steps
