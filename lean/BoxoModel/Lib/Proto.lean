import BoxoModel.Lib.Varint
/-
Lib.Proto — the protobuf wire format at the level of `google.golang.org/protobuf/encoding/protowire`.

Core-only (no Mathlib): imported by model files and by line-protocol drivers.

A message on the wire is a sequence of fields; a field is a tag (varint of `num*8 + wireType`) followed
by a payload whose shape is fixed by the wire type:
    0 varint | 1 fixed64 (8 bytes LE) | 2 length-delimited (varint length + bytes) | 5 fixed32 (4 bytes LE)
(wire types 3/4 — groups — and 6/7 are rejected, as every decoder used by boxo does.)

Contents
  * `Val`, `Field`, `Field.encode`, `encodeMsg : List Field → Bytes`   (writers: `protowire.Append*`)
  * `consumeTag`, `consumeBytes`, `consumeFixed`, `consumeField`        (readers: `protowire.Consume*`)
  * `decodeMsg : Bytes → Option (List Field)`   the generic field loop every hand-written or generated
    decoder runs (`for len(b) > 0 { ConsumeTag; switch num … }`); a concrete message type is then a pair
    `toFields / fromFields` over `List Field` (order constraints, duplicates, defaults live there)
  * small combinators: `Field.vint`, `Field.byts`, `Field.msg`, `Field.fix32`, `lastVarint?`, `lastBytes?`,
    `allBytes`, `allVarints`
Theorems (stated once)
  * `consumeTag_tag`, `consumeBytes_lenDelim`, `consumeFixed_leBytes`, `consumeField_encode`
  * `decodeMsg_encodeMsg`   `decodeMsg (encodeMsg fs) = some fs` for well-formed fields (`Field.wf`:
                            1 ≤ num < 2^29·4 = 2^31, 64-bit varints, 32/64-bit fixed values, lengths < 2^64)
  * `lenDelim_length`, `tag_length`, `Field.encode_length`, `encodeMsg_append`, `encodeMsg_length_cons`
  * `encodeMsg_inj`         well-formed field lists with equal encodings are equal
-/
namespace Proto
open Varint

/-! ### fixed-width little-endian integers -/

def leBytes : Nat → Nat → Bytes
  | 0, _ => []
  | k + 1, v => (v % 256).toUInt8 :: leBytes k (v / 256)

def leValue : Bytes → Nat
  | [] => 0
  | b :: r => b.toNat + 256 * leValue r

theorem leBytes_length (k v : Nat) : (leBytes k v).length = k := by
  induction k generalizing v with
  | zero => rfl
  | succ k ih => simp [leBytes, ih]

theorem leValue_leBytes (k v : Nat) (h : v < 256 ^ k) : leValue (leBytes k v) = v := by
  induction k generalizing v with
  | zero => simp at h; simp [leBytes, leValue, h]
  | succ k ih =>
    have : v / 256 < 256 ^ k := by
      rw [Nat.pow_succ] at h
      exact Nat.div_lt_of_lt_mul (by rw [Nat.mul_comm]; exact h)
    simp [leBytes, leValue, ih _ this, toNat_toUInt8 (v % 256) (by omega)]
    omega

/-! ### values, fields, writers -/

inductive Val where
  | varint (v : Nat)
  | fixed64 (v : Nat)
  | bytes (b : Bytes)
  | fixed32 (v : Nat)
  deriving DecidableEq, Repr

structure Field where
  num : Nat
  val : Val
  deriving DecidableEq, Repr

def Val.wireType : Val → Nat
  | .varint _ => 0
  | .fixed64 _ => 1
  | .bytes _ => 2
  | .fixed32 _ => 5

/-- `protowire.AppendTag`: varint of `num<<3 | wireType` -/
def tag (num wt : Nat) : Bytes := Varint.encode (num * 8 + wt)

/-- `protowire.AppendBytes` / `AppendString`: varint length, then the bytes -/
def lenDelim (b : Bytes) : Bytes := Varint.encode b.length ++ b

def Val.encode : Val → Bytes
  | .varint v => Varint.encode v
  | .fixed64 v => leBytes 8 v
  | .bytes b => lenDelim b
  | .fixed32 v => leBytes 4 v

def Field.encode (f : Field) : Bytes := tag f.num f.val.wireType ++ f.val.encode

def encodeMsg : List Field → Bytes
  | [] => []
  | f :: fs => f.encode ++ encodeMsg fs

def Field.vint (num v : Nat) : Field := ⟨num, .varint v⟩
def Field.byts (num : Nat) (b : Bytes) : Field := ⟨num, .bytes b⟩
def Field.fix32 (num v : Nat) : Field := ⟨num, .fixed32 v⟩
def Field.fix64 (num v : Nat) : Field := ⟨num, .fixed64 v⟩
/-- an embedded message is a length-delimited field holding the encoding of its fields -/
def Field.msg (num : Nat) (fs : List Field) : Field := ⟨num, .bytes (encodeMsg fs)⟩

def Val.wf : Val → Prop
  | .varint v => v < 2 ^ 64
  | .fixed64 v => v < 2 ^ 64
  | .bytes b => b.length < 2 ^ 64
  | .fixed32 v => v < 2 ^ 32

instance : DecidablePred Val.wf := fun v => by
  cases v <;> unfold Val.wf <;> infer_instance

/-- field numbers accepted by `protowire.ConsumeTag`: `1 ≤ num ≤ math.MaxInt32` -/
def Field.wf (f : Field) : Prop := 1 ≤ f.num ∧ f.num < 2 ^ 31 ∧ f.val.wf

instance : DecidablePred Field.wf := fun f => by unfold Field.wf; infer_instance

/-! ### readers -/

/-- `protowire.ConsumeTag`: (field number, wire type, rest) -/
def consumeTag (b : Bytes) : Option (Nat × Nat × Bytes) :=
  match consumeU64 b with
  | none => none
  | some (v, r) => if v / 8 ≥ 2 ^ 31 ∨ v / 8 < 1 then none else some (v / 8, v % 8, r)

/-- `protowire.ConsumeBytes` -/
def consumeBytes (b : Bytes) : Option (Bytes × Bytes) :=
  match consumeU64 b with
  | none => none
  | some (m, r) => if m > r.length then none else some (r.take m, r.drop m)

/-- `protowire.ConsumeFixed32/64` -/
def consumeFixed (k : Nat) (b : Bytes) : Option (Nat × Bytes) :=
  if b.length < k then none else some (leValue (b.take k), b.drop k)

def consumeVal (wt : Nat) (b : Bytes) : Option (Val × Bytes) :=
  match wt with
  | 0 => (consumeU64 b).map fun (v, r) => (.varint v, r)
  | 1 => (consumeFixed 8 b).map fun (v, r) => (.fixed64 v, r)
  | 2 => (consumeBytes b).map fun (v, r) => (.bytes v, r)
  | 5 => (consumeFixed 4 b).map fun (v, r) => (.fixed32 v, r)
  | _ => none

def consumeField (b : Bytes) : Option (Field × Bytes) :=
  match consumeTag b with
  | none => none
  | some (num, wt, r) =>
    match consumeVal wt r with
    | none => none
    | some (v, r') => some (⟨num, v⟩, r')

def decodeMsgAux : Nat → Bytes → Option (List Field)
  | 0, _ => none
  | fuel + 1, b =>
    if b = [] then some []
    else match consumeField b with
    | none => none
    | some (f, r) =>
      match decodeMsgAux fuel r with
      | none => none
      | some fs => some (f :: fs)

/-- the field loop of a protobuf decoder; every field consumes at least one byte, so
`length + 1` iterations always suffice -/
def decodeMsg (b : Bytes) : Option (List Field) := decodeMsgAux (b.length + 1) b

/-! ### accessors used by `fromFields` functions -/

/-- proto2/proto3 scalar semantics: the last occurrence wins -/
def lastVarint? (num : Nat) : List Field → Option Nat
  | [] => none
  | ⟨n, .varint v⟩ :: fs => match lastVarint? num fs with
    | some w => some w
    | none => if n = num then some v else none
  | _ :: fs => lastVarint? num fs

def lastBytes? (num : Nat) : List Field → Option Bytes
  | [] => none
  | ⟨n, .bytes v⟩ :: fs => match lastBytes? num fs with
    | some w => some w
    | none => if n = num then some v else none
  | _ :: fs => lastBytes? num fs

/-- repeated length-delimited field, in wire order -/
def allBytes (num : Nat) : List Field → List Bytes
  | [] => []
  | ⟨n, .bytes v⟩ :: fs => if n = num then v :: allBytes num fs else allBytes num fs
  | _ :: fs => allBytes num fs

/-- repeated (unpacked) varint field, in wire order -/
def allVarints (num : Nat) : List Field → List Nat
  | [] => []
  | ⟨n, .varint v⟩ :: fs => if n = num then v :: allVarints num fs else allVarints num fs
  | _ :: fs => allVarints num fs

/-! ### round trips -/

theorem consumeTag_tag (num wt : Nat) (rest : Bytes) (h1 : 1 ≤ num) (h2 : num < 2 ^ 31) (hw : wt < 8) :
    consumeTag (tag num wt ++ rest) = some (num, wt, rest) := by
  have hlt : num * 8 + wt < 2 ^ 64 := by omega
  have hd : (num * 8 + wt) / 8 = num := by omega
  have hm : (num * 8 + wt) % 8 = wt := by omega
  simp only [consumeTag, tag, consumeU64_encode _ rest hlt, hd, hm]
  have : ¬ (num ≥ 2 ^ 31 ∨ num < 1) := by omega
  rw [if_neg this]

theorem consumeBytes_lenDelim (b rest : Bytes) (h : b.length < 2 ^ 64) :
    consumeBytes (lenDelim b ++ rest) = some (b, rest) := by
  unfold consumeBytes lenDelim
  rw [List.append_assoc, consumeU64_encode _ (b ++ rest) h]
  clear h
  have : ¬ (b.length > (b ++ rest).length) := by simp
  simp only [this, if_false, List.take_left' rfl, List.drop_left' rfl]

theorem consumeFixed_leBytes (k v : Nat) (rest : Bytes) (h : v < 256 ^ k) :
    consumeFixed k (leBytes k v ++ rest) = some (v, rest) := by
  have hl := leBytes_length k v
  have h1 : ¬ ((leBytes k v ++ rest).length < k) := by simp [hl]
  have h2 : (leBytes k v ++ rest).take k = leBytes k v := List.take_left' hl
  have h3 : (leBytes k v ++ rest).drop k = rest := List.drop_left' hl
  simp only [consumeFixed, h1, if_false, h2, h3, leValue_leBytes k v h]

theorem consumeField_encode (f : Field) (rest : Bytes) (h : f.wf) :
    consumeField (f.encode ++ rest) = some (f, rest) := by
  obtain ⟨num, v⟩ := f
  obtain ⟨h1, h2, h3⟩ := h
  simp only [Field.encode, List.append_assoc, consumeField]
  cases v with
  | varint x =>
    simp only [Val.wf] at h3
    rw [consumeTag_tag num _ _ h1 h2 (by simp [Val.wireType])]
    simp [Val.wireType, consumeVal, Val.encode, consumeU64_encode x rest h3]
  | fixed64 x =>
    simp only [Val.wf] at h3
    rw [consumeTag_tag num _ _ h1 h2 (by simp [Val.wireType])]
    simp [Val.wireType, consumeVal, Val.encode, consumeFixed_leBytes 8 x rest (by omega)]
  | bytes x =>
    simp only [Val.wf] at h3
    rw [consumeTag_tag num _ _ h1 h2 (by simp [Val.wireType])]
    simp [Val.wireType, consumeVal, Val.encode, consumeBytes_lenDelim x rest h3]
  | fixed32 x =>
    simp only [Val.wf] at h3
    rw [consumeTag_tag num _ _ h1 h2 (by simp [Val.wireType])]
    simp [Val.wireType, consumeVal, Val.encode, consumeFixed_leBytes 4 x rest (by omega)]

theorem tag_ne_nil (num wt : Nat) : tag num wt ≠ [] := encode_ne_nil _

theorem Field.encode_ne_nil (f : Field) : f.encode ≠ [] := by
  simp [Field.encode, tag_ne_nil]

theorem Field.encode_length_pos (f : Field) : 0 < f.encode.length :=
  List.length_pos_iff.2 f.encode_ne_nil

theorem encodeMsg_append (a b : List Field) : encodeMsg (a ++ b) = encodeMsg a ++ encodeMsg b := by
  induction a with
  | nil => rfl
  | cons f fs ih => simp [encodeMsg, ih]

theorem encodeMsg_length_cons (f : Field) (fs : List Field) :
    (encodeMsg (f :: fs)).length = f.encode.length + (encodeMsg fs).length := by
  simp [encodeMsg]

theorem decodeMsgAux_encodeMsg (fs : List Field) (h : ∀ f ∈ fs, f.wf) (fuel : Nat)
    (hf : (encodeMsg fs).length < fuel) : decodeMsgAux fuel (encodeMsg fs) = some fs := by
  induction fs generalizing fuel with
  | nil =>
    cases fuel with
    | zero => simp at hf
    | succ k => simp [encodeMsg, decodeMsgAux]
  | cons f fs ih =>
    cases fuel with
    | zero => simp at hf
    | succ k =>
      have hpos := f.encode_length_pos
      have hl : (encodeMsg (f :: fs)).length = f.encode.length + (encodeMsg fs).length :=
        encodeMsg_length_cons f fs
      have hne : encodeMsg (f :: fs) ≠ [] := by
        intro h0; rw [h0] at hl; simp at hl; omega
      have hfs := ih (fun g hg => h g (List.mem_cons_of_mem _ hg)) k (by omega)
      have hc := consumeField_encode f (encodeMsg fs) (h f (List.mem_cons_self ..))
      have he : encodeMsg (f :: fs) = f.encode ++ encodeMsg fs := rfl
      unfold decodeMsgAux
      rw [if_neg hne, he, hc]
      simp [hfs]

/-- generic protobuf round trip: reading back what was written returns the same field list -/
theorem decodeMsg_encodeMsg (fs : List Field) (h : ∀ f ∈ fs, f.wf) :
    decodeMsg (encodeMsg fs) = some fs :=
  decodeMsgAux_encodeMsg fs h _ (Nat.lt_succ_self _)

theorem encodeMsg_inj {a b : List Field} (ha : ∀ f ∈ a, f.wf) (hb : ∀ f ∈ b, f.wf)
    (h : encodeMsg a = encodeMsg b) : a = b := by
  have h1 := decodeMsg_encodeMsg a ha
  rw [h, decodeMsg_encodeMsg b hb] at h1
  simpa [eq_comm] using h1

/-! ### raw field loop: every field together with the bytes it occupied

Decoders that keep unknown fields (protobuf-go's `unknownFields`) keep their ORIGINAL bytes — a non-minimal
tag or varint is re-emitted as it came. `decodeMsgRaw` returns each field with the exact slice consumed. -/

def decodeMsgRawAux : Nat → Bytes → Option (List (Field × Bytes))
  | 0, _ => none
  | fuel + 1, b =>
    if b = [] then some []
    else match consumeField b with
    | none => none
    | some (f, r) =>
      match decodeMsgRawAux fuel r with
      | none => none
      | some fs => some ((f, b.take (b.length - r.length)) :: fs)

def decodeMsgRaw (b : Bytes) : Option (List (Field × Bytes)) := decodeMsgRawAux (b.length + 1) b

theorem consumeVal_length {wt : Nat} {b r : Bytes} {v : Val} (h : consumeVal wt b = some (v, r)) :
    r.length ≤ b.length := by
  unfold consumeVal at h
  split at h
  · cases hc : consumeU64 b with
    | none => simp [hc] at h
    | some p => obtain ⟨x, y⟩ := p; simp [hc] at h; have := consumeU64_length hc; rw [← h.2]; omega
  · unfold consumeFixed at h
    split at h
    · simp at h
    · simp at h; rw [← h.2]; simp
  · unfold consumeBytes at h
    cases hc : consumeU64 b with
    | none => simp [hc] at h
    | some p =>
      obtain ⟨x, y⟩ := p
      simp only [hc] at h
      split at h
      · simp at h
      · simp at h; have := consumeU64_length hc; rw [← h.2]; simp; omega
  · unfold consumeFixed at h
    split at h
    · simp at h
    · simp at h; rw [← h.2]; simp
  · simp at h

theorem consumeField_length {b r : Bytes} {f : Field} (h : consumeField b = some (f, r)) : r.length < b.length := by
  unfold consumeField at h
  cases ht : consumeTag b with
  | none => simp [ht] at h
  | some p =>
    obtain ⟨num, wt, r1⟩ := p
    simp only [ht] at h
    have h1 : r1.length < b.length := by
      unfold consumeTag at ht
      cases hc : consumeU64 b with
      | none => simp [hc] at ht
      | some q =>
        obtain ⟨x, y⟩ := q
        simp only [hc] at ht
        split at ht
        · simp at ht
        · simp at ht; have := consumeU64_length hc; rw [← ht.2.2]; exact this
    cases hv : consumeVal wt r1 with
    | none => simp [hv] at h
    | some q =>
      obtain ⟨v, r2⟩ := q
      simp [hv] at h
      have := consumeVal_length hv
      rw [← h.2]; omega

/-- more fuel never changes a successful parse -/
theorem decodeMsgRawAux_mono {k k' : Nat} {b : Bytes} {res : List (Field × Bytes)}
    (h : decodeMsgRawAux k b = some res) (hk : k ≤ k') : decodeMsgRawAux k' b = some res := by
  induction k generalizing k' b res with
  | zero => simp [decodeMsgRawAux] at h
  | succ k ih =>
    cases k' with
    | zero => omega
    | succ k' =>
      unfold decodeMsgRawAux at h ⊢
      split
      · next hb => simpa [hb] using h
      · next hb =>
        simp only [hb, if_false] at h
        cases hc : consumeField b with
        | none => simp [hc] at h
        | some p =>
          obtain ⟨f, r⟩ := p
          simp only [hc] at h ⊢
          cases hd : decodeMsgRawAux k r with
          | none => simp [hd] at h
          | some fs =>
            simp only [hd] at h
            rw [ih hd (by omega)]
            exact h

theorem consumeVal_suffix {wt : Nat} {b r : Bytes} {v : Val} (h : consumeVal wt b = some (v, r)) :
    ∃ pre, b = pre ++ r := by
  unfold consumeVal at h
  split at h
  · cases hc : consumeU64 b with
    | none => simp [hc] at h
    | some p =>
      obtain ⟨x, y⟩ := p; simp [hc] at h
      obtain ⟨pre, hp⟩ := consumeU64_suffix hc
      exact ⟨pre, by rw [hp, h.2]⟩
  · unfold consumeFixed at h
    split at h
    · simp at h
    · simp at h; exact ⟨b.take 8, by rw [← h.2]; simp⟩
  · unfold consumeBytes at h
    cases hc : consumeU64 b with
    | none => simp [hc] at h
    | some p =>
      obtain ⟨x, y⟩ := p
      simp only [hc] at h
      split at h
      · simp at h
      · simp at h
        obtain ⟨pre, hp⟩ := consumeU64_suffix hc
        exact ⟨pre ++ y.take x, by rw [hp, ← h.2]; simp⟩
  · unfold consumeFixed at h
    split at h
    · simp at h
    · simp at h; exact ⟨b.take 4, by rw [← h.2]; simp⟩
  · simp at h

theorem consumeField_suffix {b r : Bytes} {f : Field} (h : consumeField b = some (f, r)) : ∃ pre, b = pre ++ r := by
  unfold consumeField at h
  cases ht : consumeTag b with
  | none => simp [ht] at h
  | some p =>
    obtain ⟨num, wt, r1⟩ := p
    simp only [ht] at h
    have h1 : ∃ pre, b = pre ++ r1 := by
      unfold consumeTag at ht
      cases hc : consumeU64 b with
      | none => simp [hc] at ht
      | some q =>
        obtain ⟨x, y⟩ := q
        simp only [hc] at ht
        split at ht
        · simp at ht
        · simp at ht
          obtain ⟨pre, hp⟩ := consumeU64_suffix hc
          exact ⟨pre, by rw [hp, ht.2.2]⟩
    cases hv : consumeVal wt r1 with
    | none => simp [hv] at h
    | some q =>
      obtain ⟨v, r2⟩ := q
      simp [hv] at h
      obtain ⟨p1, hp1⟩ := h1
      obtain ⟨p2, hp2⟩ := consumeVal_suffix hv
      exact ⟨p1 ++ p2, by rw [hp1, hp2, ← h.2]; simp⟩

/-- the raw slices, concatenated, are the input -/
theorem decodeMsgRawAux_concat {k : Nat} {b : Bytes} {res : List (Field × Bytes)}
    (h : decodeMsgRawAux k b = some res) : res.flatMap (·.2) = b := by
  induction k generalizing b res with
  | zero => simp [decodeMsgRawAux] at h
  | succ k ih =>
    unfold decodeMsgRawAux at h
    split at h
    · next hb => simp at h; subst h; simp [hb]
    · cases hc : consumeField b with
      | none => simp [hc] at h
      | some p =>
        obtain ⟨f, r⟩ := p
        simp only [hc] at h
        cases hd : decodeMsgRawAux k r with
        | none => simp [hd] at h
        | some fs =>
          simp only [hd] at h
          have hr := ih hd
          obtain ⟨pre, hp⟩ := consumeField_suffix hc
          have htake : b.take (b.length - r.length) = pre := by
            rw [hp]; simp
          simp at h; subst h
          simp only [List.flatMap_cons, hr, htake]
          exact hp.symm

theorem decodeMsgRaw_concat {b : Bytes} {res : List (Field × Bytes)} (h : decodeMsgRaw b = some res) :
    res.flatMap (·.2) = b := decodeMsgRawAux_concat h

/-- the raw loop sees the same fields as `decodeMsg` -/
theorem decodeMsgRawAux_fields (k : Nat) (b : Bytes) :
    (decodeMsgRawAux k b).map (·.map (·.1)) = decodeMsgAux k b := by
  induction k generalizing b with
  | zero => rfl
  | succ k ih =>
    unfold decodeMsgRawAux decodeMsgAux
    split
    · rfl
    · cases hc : consumeField b with
      | none => rfl
      | some p =>
        obtain ⟨f, r⟩ := p
        simp only []
        rw [← ih r]
        cases decodeMsgRawAux k r <;> simp

/-- reading back an encoding followed by further (already parsed) raw fields -/
theorem decodeMsgRawAux_encode_append (fs : List Field) (h : ∀ f ∈ fs, f.wf) (u : Bytes) (k : Nat)
    (prs : List (Field × Bytes)) (hu : decodeMsgRawAux k u = some prs) (fuel : Nat)
    (hf : (encodeMsg fs).length + k ≤ fuel) :
    decodeMsgRawAux fuel (encodeMsg fs ++ u) = some (fs.map (fun f => (f, f.encode)) ++ prs) := by
  induction fs generalizing fuel with
  | nil => simpa [encodeMsg] using decodeMsgRawAux_mono hu (by simpa [encodeMsg] using hf)
  | cons f fs ih =>
    have hpos := f.encode_length_pos
    have hl := encodeMsg_length_cons f fs
    cases fuel with
    | zero => omega
    | succ n =>
      have hn : (encodeMsg fs).length + k ≤ n := by
        have : (encodeMsg (f :: fs)).length + k ≤ n + 1 := hf
        omega
      have hfs := ih (fun g hg => h g (List.mem_cons_of_mem _ hg)) n hn
      have hc := consumeField_encode f (encodeMsg fs ++ u) (h f (List.mem_cons_self ..))
      have he : encodeMsg (f :: fs) ++ u = f.encode ++ (encodeMsg fs ++ u) := by simp [encodeMsg]
      have hne : encodeMsg (f :: fs) ++ u ≠ [] := by
        intro h0
        have := congrArg List.length h0
        rw [List.length_append, List.length_nil] at this
        omega
      unfold decodeMsgRawAux
      rw [if_neg hne, he, hc]
      simp only [hfs, List.map_cons, List.cons_append]
      congr 2
      simp

theorem decodeMsgRaw_encode_append (fs : List Field) (h : ∀ f ∈ fs, f.wf) (u : Bytes)
    (prs : List (Field × Bytes)) (hu : decodeMsgRaw u = some prs) :
    decodeMsgRaw (encodeMsg fs ++ u) = some (fs.map (fun f => (f, f.encode)) ++ prs) :=
  decodeMsgRawAux_encode_append fs h u _ prs hu _ (by simp; omega)

theorem decodeMsgRaw_nil : decodeMsgRaw [] = some [] := by simp [decodeMsgRaw, decodeMsgRawAux]

/-! ### lengths (the `protowire.Size*` functions) -/

theorem tag_length (num wt : Nat) : (tag num wt).length = Varint.size (num * 8 + wt) :=
  encode_length _

/-- `protowire.SizeTag(num)`: for field numbers below 16 a tag is one byte -/
theorem tag_length_small (num wt : Nat) (h : num < 16) (hw : wt < 8) : (tag num wt).length = 1 := by
  rw [tag_length, Varint.size]; simp; omega

/-- `protowire.SizeBytes(n) = SizeVarint(n) + n` -/
theorem lenDelim_length (b : Bytes) : (lenDelim b).length = Varint.size b.length + b.length := by
  simp [lenDelim, encode_length]

theorem Val.encode_length (v : Val) : v.encode.length =
    match v with
    | .varint x => Varint.size x
    | .fixed64 _ => 8
    | .bytes b => Varint.size b.length + b.length
    | .fixed32 _ => 4 := by
  cases v <;> simp [Val.encode, Varint.encode_length, leBytes_length, lenDelim_length]

theorem Field.encode_length (f : Field) :
    f.encode.length = Varint.size (f.num * 8 + f.val.wireType) + f.val.encode.length := by
  simp [Field.encode, tag_length]

/-! ### well-formedness from a bound on the total length -/

theorem Field.encode_length_le_of_mem {f : Field} {fs : List Field} (h : f ∈ fs) :
    f.encode.length ≤ (encodeMsg fs).length := by
  induction fs with
  | nil => cases h
  | cons g gs ih =>
    rw [encodeMsg_length_cons]
    rcases List.mem_cons.1 h with rfl | h'
    · omega
    · have := ih h'; omega

theorem Field.bytes_length_le (num : Nat) (b : Bytes) : b.length ≤ (Field.mk num (.bytes b)).encode.length := by
  simp [Field.encode, Val.encode, lenDelim]; omega

/-- A message shorter than 2^64 bytes whose scalar fields are in range has only well-formed fields
(every length-delimited payload is shorter than the whole). -/
theorem wf_of_length_lt (fs : List Field) (hlen : (encodeMsg fs).length < 2 ^ 64)
    (hnum : ∀ f ∈ fs, 1 ≤ f.num ∧ f.num < 2 ^ 31)
    (hval : ∀ f ∈ fs, match f.val with
      | .varint v => v < 2 ^ 64
      | .fixed64 v => v < 2 ^ 64
      | .fixed32 v => v < 2 ^ 32
      | .bytes _ => True) :
    ∀ f ∈ fs, f.wf := by
  intro f hf
  refine ⟨(hnum f hf).1, (hnum f hf).2, ?_⟩
  have hv := hval f hf
  have hle := Field.encode_length_le_of_mem hf
  obtain ⟨num, v⟩ := f
  cases v with
  | varint x => exact hv
  | fixed64 x => exact hv
  | fixed32 x => exact hv
  | bytes b =>
    have := Field.bytes_length_le num b
    show b.length < 2 ^ 64
    omega

example : (Field.byts 1 [1, 2, 3]).encode = [0x0a, 3, 1, 2, 3] := by
  simp [Field.byts, Field.encode, tag, Val.wireType, Val.encode, lenDelim, Varint.encode]
example : decodeMsg [0x0a, 3, 1, 2, 3, 0x18, 0xAC, 0x02] = some [Field.byts 1 [1, 2, 3], Field.vint 3 300] := by
  decide

end Proto
