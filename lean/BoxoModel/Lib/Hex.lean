import BoxoModel.Lib.Varint
/-! Lib.Hex — hex operands of the line protocol for `Varint.Bytes` (= `List UInt8`); `-` is the empty
string (as `vh.Hex` / `vh.UnHex` on the Go side). Core-only; used by drivers only (nothing is proved
about it: a wrong conversion shows up as a model/implementation difference). -/
namespace Hex
open Varint

def hexVal (c : Char) : Option Nat :=
  if '0' ≤ c ∧ c ≤ '9' then some (c.toNat - 48)
  else if 'a' ≤ c ∧ c ≤ 'f' then some (c.toNat - 87)
  else if 'A' ≤ c ∧ c ≤ 'F' then some (c.toNat - 55)
  else none

def unhexList : List Char → Option Bytes
  | [] => some []
  | [_] => none
  | a :: b :: r => do
    let x ← hexVal a
    let y ← hexVal b
    let t ← unhexList r
    pure ((x * 16 + y).toUInt8 :: t)

def unhex (s : String) : Option Bytes := if s == "-" then some [] else unhexList s.toList

def hexDigit (n : Nat) : Char := if n < 10 then Char.ofNat (48 + n) else Char.ofNat (87 + n)

def hex (b : Bytes) : String :=
  if b.isEmpty then "-"
  else String.ofList (b.flatMap fun c => [hexDigit (c.toNat / 16), hexDigit (c.toNat % 16)])

end Hex
