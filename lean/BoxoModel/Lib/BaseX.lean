import BoxoModel.Lib.BaseN
/-
Lib.BaseX — big-number base-x text codecs (base58btc, base36): the byte string is read as one
big-endian number, written in base `N` with the given alphabet; every leading zero byte becomes one
leading zero digit (`'1'` for base58btc, `'0'` for base36) and back.  This is the mathematical
content of mr-tron/base58 `FastBase58Encoding/Decoding` and multiformats/go-base36
`EncodeToStringLc/DecodeString` (both refuse the empty string when decoding).
Core-only.  Theorem: `decode_encode` for every non-empty byte string and every well-formed alphabet.
-/
namespace BaseX
open BaseN (mapOpt mapOpt_map_some)

abbrev Bytes := List UInt8

/-- digits of `n` in base `b`, least significant first, `[]` for 0 -/
def digitsRev (b : Nat) (n : Nat) : List Nat :=
  if h : b < 2 ∨ n = 0 then [] else (n % b) :: digitsRev b (n / b)
termination_by n
decreasing_by
  have h1 : ¬ b < 2 := fun e => h (Or.inl e)
  have h2 : n ≠ 0 := fun e => h (Or.inr e)
  exact Nat.div_lt_self (by omega) (by omega)

/-- value of least-significant-first digits -/
def valRev (b : Nat) : List Nat → Nat
  | [] => 0
  | d :: r => d + b * valRev b r

theorem digitsRev_zero (b : Nat) : digitsRev b 0 = [] := by
  rw [digitsRev]; simp

theorem digitsRev_pos {b n : Nat} (hb : 2 ≤ b) (hn : 0 < n) :
    digitsRev b n = (n % b) :: digitsRev b (n / b) := by
  rw [digitsRev]
  have : ¬ (b < 2 ∨ n = 0) := by omega
  simp [this]

theorem valRev_digitsRev {b : Nat} (hb : 2 ≤ b) (n : Nat) : valRev b (digitsRev b n) = n := by
  induction n using Nat.strongRecOn with
  | _ n ih =>
    by_cases hn : n = 0
    · subst hn; simp [digitsRev_zero, valRev]
    · rw [digitsRev_pos hb (by omega)]
      simp only [valRev]
      rw [ih (n / b) (Nat.div_lt_self (by omega) (by omega))]
      have := Nat.div_add_mod n b
      omega

theorem digitsRev_lt {b : Nat} (hb : 2 ≤ b) (n : Nat) : ∀ d ∈ digitsRev b n, d < b := by
  induction n using Nat.strongRecOn with
  | _ n ih =>
    by_cases hn : n = 0
    · subst hn; simp [digitsRev_zero]
    · rw [digitsRev_pos hb (by omega)]
      intro d hd
      rcases List.mem_cons.1 hd with e | e
      · subst e; exact Nat.mod_lt _ (by omega)
      · exact ih (n / b) (Nat.div_lt_self (by omega) (by omega)) d e

/-- the most significant digit is not 0 -/
theorem digitsRev_getLast {b : Nat} (hb : 2 ≤ b) (n : Nat) : (digitsRev b n).getLast? ≠ some 0 := by
  induction n using Nat.strongRecOn with
  | _ n ih =>
    by_cases hn : n = 0
    · subst hn; simp [digitsRev_zero]
    · rw [digitsRev_pos hb (by omega)]
      by_cases hq : n / b = 0
      · rw [hq, digitsRev_zero]
        have hlt : n < b := by
          rcases Nat.lt_or_ge n b with h | h
          · exact h
          · have hp : 0 < n / b := Nat.div_pos h (by omega)
            rw [hq] at hp; exact absurd hp (by decide)
        rw [Nat.mod_eq_of_lt hlt]
        simpa using hn
      · have := ih (n / b) (Nat.div_lt_self (by omega) (by omega))
        rw [digitsRev_pos hb (Nat.pos_of_ne_zero hq)] at this ⊢
        simpa [List.getLast?_cons_cons] using this

/-- digits without a most-significant zero are the digits of their value -/
theorem digitsRev_valRev {b : Nat} (hb : 2 ≤ b) (l : List Nat) (hl : ∀ d ∈ l, d < b)
    (hlast : l.getLast? ≠ some 0) : digitsRev b (valRev b l) = l := by
  induction l with
  | nil => simp [valRev, digitsRev_zero]
  | cons d r ih =>
    have hd := hl d (by simp)
    have hr : ∀ x ∈ r, x < b := fun x hx => hl x (by simp [hx])
    cases r with
    | nil =>
      have hd0 : d ≠ 0 := by simpa using hlast
      simp only [valRev, Nat.mul_zero, Nat.add_zero]
      rw [digitsRev_pos hb (by omega), Nat.mod_eq_of_lt hd, Nat.div_eq_of_lt hd, digitsRev_zero]
    | cons e t =>
      have hlast' : (e :: t).getLast? ≠ some 0 := by simpa [List.getLast?_cons_cons] using hlast
      have ih' := ih hr hlast'
      have hpos : 0 < valRev b (e :: t) := by
        rcases Nat.eq_zero_or_pos (valRev b (e :: t)) with h0 | h0
        · rw [h0, digitsRev_zero] at ih'; exact absurd ih' (by simp)
        · exact h0
      have hv : valRev b (d :: e :: t) = d + b * valRev b (e :: t) := rfl
      rw [hv, digitsRev_pos hb (by have : b * valRev b (e :: t) ≥ b := Nat.le_mul_of_pos_right b hpos; omega)]
      have h1 : (d + b * valRev b (e :: t)) % b = d := by
        rw [Nat.add_mul_mod_self_left, Nat.mod_eq_of_lt hd]
      have h2 : (d + b * valRev b (e :: t)) / b = valRev b (e :: t) := by
        rw [Nat.add_mul_div_left _ _ (by omega : 0 < b), Nat.div_eq_of_lt hd, Nat.zero_add]
      rw [h1, h2, ih']

theorem valRev_append_zeros (b : Nat) (l : List Nat) (z : Nat) :
    valRev b (l ++ List.replicate z 0) = valRev b l := by
  induction l with
  | nil =>
    induction z with
    | zero => rfl
    | succ z ih =>
      have ih' : valRev b (List.replicate z 0) = 0 := by simpa [valRev] using ih
      simp [List.replicate_succ, valRev, ih']
  | cons d r ih => simp [valRev, ih]

/-! ### bytes as one big-endian number -/

def bytesVal (bs : Bytes) : Nat := valRev 256 (bs.reverse.map (·.toNat))
def natBytes (n : Nat) : Bytes := (digitsRev 256 n).reverse.map Nat.toUInt8

def leadZeros (bs : Bytes) : Nat := (bs.takeWhile (· = 0)).length

theorem bytes_split (bs : Bytes) :
    bs = List.replicate (leadZeros bs) 0 ++ bs.dropWhile (· = 0) := by
  unfold leadZeros
  induction bs with
  | nil => simp
  | cons x t ih =>
    by_cases hx : x = 0
    · subst hx
      simp only [List.takeWhile_cons, List.dropWhile_cons, decide_true, if_true, List.length_cons,
        List.replicate_succ, List.cons_append]
      rw [← ih]
    · simp [List.takeWhile_cons, List.dropWhile_cons, hx]

theorem natBytes_bytesVal (rest : Bytes) (h : rest.head? ≠ some 0) : natBytes (bytesVal rest) = rest := by
  unfold natBytes bytesVal
  have hl : ∀ d ∈ rest.reverse.map (·.toNat), d < 256 := by
    intro d hd; simp at hd; obtain ⟨x, _, e⟩ := hd; subst e; exact x.toNat_lt
  have hlast : (rest.reverse.map (·.toNat)).getLast? ≠ some 0 := by
    rw [List.getLast?_map, List.getLast?_reverse]
    cases hh : rest.head? with
    | none => simp
    | some x =>
      rw [hh] at h
      simp only [Option.map_some, ne_eq, Option.some.injEq]
      intro e
      apply h
      congr
      exact UInt8.toNat_inj.1 (by simpa using e)
  rw [digitsRev_valRev (by decide) _ hl hlast]
  simp [List.map_reverse, Function.comp_def]

theorem bytesVal_lead (z : Nat) (rest : Bytes) : bytesVal (List.replicate z 0 ++ rest) = bytesVal rest := by
  unfold bytesVal
  simp only [List.reverse_append, List.reverse_replicate, List.map_append, List.map_replicate]
  exact valRev_append_zeros 256 _ z

/-! ### the text codec -/

structure Codec where
  alphabet : List Char
  /-- applied to an input character before the alphabet lookup (case folding for base36) -/
  fold : Char → Char

namespace Codec
def base (c : Codec) : Nat := c.alphabet.length
def encDigit (c : Codec) (d : Nat) : Char := c.alphabet.getD d '?'
def decDigit (c : Codec) (ch : Char) : Option Nat :=
  let i := c.alphabet.idxOf (c.fold ch)
  if i < c.alphabet.length then some i else none
structure WF (c : Codec) : Prop where
  two : 2 ≤ c.alphabet.length
  inv : ∀ d, d < c.alphabet.length → c.decDigit (c.encDigit d) = some d
end Codec

def encode (c : Codec) (bs : Bytes) : List Char :=
  (List.replicate (leadZeros bs) 0 ++ (digitsRev c.base (bytesVal bs)).reverse).map c.encDigit

def decode (c : Codec) (s : List Char) : Option Bytes :=
  if s = [] then none
  else (mapOpt c.decDigit s).map fun ds =>
    List.replicate ((ds.takeWhile (· = 0)).length) 0 ++ natBytes (valRev c.base ds.reverse)

theorem takeWhile_replicate_append (z : Nat) (D : List Nat) (h : D.head? ≠ some 0) :
    ((List.replicate z 0 ++ D).takeWhile (· = 0)).length = z := by
  induction z with
  | zero =>
    cases D with
    | nil => simp
    | cons d t =>
      have : d ≠ 0 := by simpa using h
      simp [List.takeWhile_cons, this]
  | succ z ih => simpa [List.replicate_succ, List.takeWhile_cons] using ih

theorem encode_ne_nil (c : Codec) (h : c.WF) (bs : Bytes) (hne : bs ≠ []) : encode c bs ≠ [] := by
  unfold encode
  simp only [ne_eq, List.map_eq_nil_iff, List.append_eq_nil_iff, List.reverse_eq_nil_iff, not_and]
  intro hz hd
  have hb2 : 2 ≤ c.base := h.two
  · have hsplit := bytes_split bs
    have hz' : leadZeros bs = 0 := by
      cases hq : leadZeros bs with
      | zero => rfl
      | succ k => rw [hq] at hz; simp [List.replicate_succ] at hz
    rw [hz'] at hsplit
    simp only [List.replicate_zero, List.nil_append] at hsplit
    have hv : bytesVal bs = 0 := by
      have := valRev_digitsRev hb2 (bytesVal bs); rw [hd] at this; simpa [valRev] using this.symm
    have hhead : (bs.dropWhile (· = 0)).head? ≠ some 0 := by
      intro e
      have := List.head?_dropWhile_not (p := (· = (0 : UInt8))) bs
      rw [e] at this; simp at this
    have := natBytes_bytesVal (bs.dropWhile (· = 0)) hhead
    rw [← hsplit, hv] at this
    apply hne
    rw [← this]; simp [natBytes, digitsRev_zero]

/-- **Round trip** of a big-number base-x codec on non-empty byte strings. -/
theorem decode_encode (c : Codec) (h : c.WF) (bs : Bytes) (hne : bs ≠ []) : decode c (encode c bs) = some bs := by
  have hb : 2 ≤ c.base := h.two
  let D := (digitsRev c.base (bytesVal bs)).reverse
  let z := leadZeros bs
  have hD : ∀ d ∈ List.replicate z 0 ++ D, d < c.alphabet.length := by
    intro d hd
    simp only [List.mem_append, List.mem_replicate] at hd
    rcases hd with ⟨_, e⟩ | e
    · subst e; have := h.two; omega
    · exact digitsRev_lt hb _ d (by simpa [D] using e)
  have hm : mapOpt c.decDigit (encode c bs) = some (List.replicate z 0 ++ D) := by
    have := mapOpt_map_some c.decDigit c.encDigit id (List.replicate z 0 ++ D) (fun d hd => h.inv d (hD d hd))
    rw [List.map_id] at this
    exact this
  have hne' : encode c bs ≠ [] := encode_ne_nil c h bs hne
  unfold decode
  rw [if_neg hne', hm]
  simp only [Option.map_some, Option.some.injEq]
  have hDhead : D.head? ≠ some 0 := by
    have := digitsRev_getLast hb (bytesVal bs)
    simpa [D, List.head?_reverse] using this
  rw [takeWhile_replicate_append z D hDhead]
  have hval : valRev c.base (List.replicate z 0 ++ D).reverse = bytesVal bs := by
    simp only [List.reverse_append, List.reverse_replicate, D, List.reverse_reverse]
    rw [valRev_append_zeros, valRev_digitsRev hb]
  rw [hval]
  have hsplit := bytes_split bs
  have hhead : (bs.dropWhile (· = 0)).head? ≠ some 0 := by
    intro e
    have := List.head?_dropWhile_not (p := (· = (0 : UInt8))) bs
    rw [e] at this; simp at this
  conv => rhs; rw [hsplit]
  congr 1
  conv => lhs; rw [hsplit, bytesVal_lead]
  exact natBytes_bytesVal _ hhead

/-- the first character of the encoding of a string starting with a non-zero byte is a non-zero digit -/
theorem encode_mem_alphabet (c : Codec) (h : c.WF) (bs : Bytes) : ∀ ch ∈ encode c bs, ch ∈ c.alphabet := by
  intro ch hch
  unfold encode at hch
  simp only [List.mem_map] at hch
  obtain ⟨d, hd, e⟩ := hch
  have hlt : d < c.alphabet.length := by
    simp only [List.mem_append, List.mem_replicate] at hd
    rcases hd with ⟨_, e0⟩ | e1
    · subst e0; have := h.two; omega
    · exact digitsRev_lt h.two _ d (by simpa [Codec.base] using e1)
  subst e
  unfold Codec.encDigit
  rw [List.getD_eq_getElem?_getD, List.getElem?_eq_getElem hlt]
  exact List.getElem_mem hlt

def b58Alphabet : List Char := "123456789ABCDEFGHJKLMNPQRSTUVWXYZabcdefghijkmnopqrstuvwxyz".toList
def b36Alphabet : List Char := "0123456789abcdefghijklmnopqrstuvwxyz".toList

/-- base58btc (case-sensitive) -/
def b58 : Codec := { alphabet := b58Alphabet, fold := id }
/-- base36, lower-case output, case-insensitive input -/
def b36 : Codec := { alphabet := b36Alphabet, fold := Char.toLower }

theorem b58_wf : b58.WF := ⟨by decide, by decide⟩
theorem b36_wf : b36.WF := ⟨by decide, by decide⟩

end BaseX
