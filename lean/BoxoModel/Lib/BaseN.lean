/-
Lib.BaseN — bit-packing text encodings of byte strings (base32, base64, … without padding).

A byte string is turned into its bit stream (most significant bit first), the stream is cut into
groups of `k` bits (the last group is filled with zero bits), and every group is written as one
character of an alphabet of `2^k` characters.  Decoding maps every character back to its `k` bits
(optionally after case folding), concatenates, and reads whole bytes; left-over bits (< 8) are
dropped — this is the lenient behaviour of the un-padded decoders of Go (`encoding/base64`
RawURLEncoding, `encoding/base32` / `multiformats/go-base32` with NoPadding) on the strings the
encoders produce; inputs that no encoder produces are outside what this library states.

Proved once, for every codec `c` with `c.WF` (0 < k ≤ 8, alphabet of 2^k distinct characters):
  * `decode_encode`     : `decode c (encode c b) = some b`
  * `encode_injective`  : `encode c a = encode c b → a = b`
  * `encode_mem_alphabet`: every character of `encode c b` is in the alphabet
  * `encode_length_mul` : `(encode c b).length * k = 8 * b.length + pad`, `pad < k`
Instances: `b32` (RFC 4648 base32, upper case, decoder case-insensitive like multiformats/go-base32),
`b32s` (same alphabet, case-sensitive decoder like encoding/base32), `b64u` (base64url), each with
`…_wf`, `…_no_slash` and a closed length formula.

Core Lean only (imported by model and driver files).
-/
namespace BaseN

abbrev Bytes := List UInt8

/-! ## bits -/

/-- the `w` low bits of `n`, most significant first -/
def natToBits : Nat → Nat → List Bool
  | 0, _ => []
  | w + 1, n => (n / 2 ^ w % 2 == 1) :: natToBits w n

/-- value of a bit string, most significant bit first -/
def bitsToNat : List Bool → Nat
  | [] => 0
  | b :: bs => b.toNat * 2 ^ bs.length + bitsToNat bs

theorem natToBits_length (w n : Nat) : (natToBits w n).length = w := by
  induction w with
  | zero => rfl
  | succ w ih => simp [natToBits, ih]

theorem bitsToNat_lt (bs : List Bool) : bitsToNat bs < 2 ^ bs.length := by
  induction bs with
  | nil => simp [bitsToNat]
  | cons b bs ih =>
    simp only [bitsToNat, List.length_cons, Nat.pow_succ]
    cases b <;> simp <;> omega

theorem bitsToNat_natToBits (w n : Nat) : bitsToNat (natToBits w n) = n % 2 ^ w := by
  induction w with
  | zero => simp [natToBits, bitsToNat, Nat.mod_one]
  | succ w ih =>
    simp only [natToBits, bitsToNat, natToBits_length, ih]
    rw [Nat.pow_succ, Nat.mod_mul]
    have h2 : n / 2 ^ w % 2 < 2 := Nat.mod_lt _ (by omega)
    have : (n / 2 ^ w % 2 == 1).toNat = n / 2 ^ w % 2 := by
      rcases Nat.lt_succ_iff_lt_or_eq.mp h2 with h | h
      · have : n / 2 ^ w % 2 = 0 := by omega
        simp [this]
      · simp [h]
    rw [this]
    rw [Nat.mul_comm]; omega

/-- adding a multiple of `2^w` does not change the `w` low bits -/
theorem natToBits_add_mul (w n a : Nat) : natToBits w (n + a * 2 ^ w) = natToBits w n := by
  induction w generalizing a with
  | zero => rfl
  | succ w ih =>
    simp only [natToBits]
    have e : a * 2 ^ (w + 1) = (2 * a) * 2 ^ w := by rw [Nat.pow_succ]; ac_rfl
    rw [e, ih (2 * a)]
    congr 1
    have hp : 0 < 2 ^ w := Nat.pow_pos (by omega)
    rw [Nat.add_mul_div_right _ _ hp]
    have : (n / 2 ^ w + 2 * a) % 2 = n / 2 ^ w % 2 := by omega
    rw [this]

theorem natToBits_bitsToNat (bs : List Bool) : natToBits bs.length (bitsToNat bs) = bs := by
  induction bs with
  | nil => rfl
  | cons b bs ih =>
    simp only [List.length_cons, natToBits, bitsToNat]
    have hlt := bitsToNat_lt bs
    have hp : 0 < 2 ^ bs.length := Nat.pow_pos (by omega)
    congr 1
    · rw [Nat.add_comm, Nat.add_mul_div_right _ _ hp, Nat.div_eq_of_lt hlt]
      cases b <;> simp
    · rw [Nat.add_comm, natToBits_add_mul, ih]

def byteBits (b : UInt8) : List Bool := natToBits 8 b.toNat

def bytesToBits (bs : Bytes) : List Bool := bs.flatMap byteBits

/-- whole bytes of a bit stream; fewer than 8 trailing bits are dropped -/
def bitsToBytes : List Bool → Bytes
  | b7 :: b6 :: b5 :: b4 :: b3 :: b2 :: b1 :: b0 :: rest =>
    UInt8.ofNat (bitsToNat [b7, b6, b5, b4, b3, b2, b1, b0]) :: bitsToBytes rest
  | _ => []

theorem bytesToBits_length (bs : Bytes) : (bytesToBits bs).length = 8 * bs.length := by
  induction bs with
  | nil => rfl
  | cons b bs ih =>
    simp only [bytesToBits, List.flatMap_cons, List.length_append, List.length_cons] at ih ⊢
    rw [ih]; simp [byteBits, natToBits_length]; omega

theorem bitsToBytes_byteBits_append (b : UInt8) (rest : List Bool) :
    bitsToBytes (byteBits b ++ rest) = b :: bitsToBytes rest := by
  have h : bitsToNat (byteBits b) = b.toNat % 2 ^ 8 := bitsToNat_natToBits 8 b.toNat
  have hb : b.toNat < 256 := UInt8.toNat_lt b
  simp only [byteBits, natToBits, List.cons_append, List.nil_append, bitsToBytes] at h ⊢
  rw [h]
  congr 1
  rw [Nat.mod_eq_of_lt (by simpa using hb)]
  exact UInt8.ofNat_toNat

theorem bitsToBytes_short (bs : List Bool) (h : bs.length < 8) : bitsToBytes bs = [] := by
  match bs, h with
  | [], _ => rfl
  | [_], _ => rfl
  | [_, _], _ => rfl
  | [_, _, _], _ => rfl
  | [_, _, _, _], _ => rfl
  | [_, _, _, _, _], _ => rfl
  | [_, _, _, _, _, _], _ => rfl
  | [_, _, _, _, _, _, _], _ => rfl
  | _ :: _ :: _ :: _ :: _ :: _ :: _ :: _ :: _, h => simp at h; omega

/-- reading back the bits of a byte string followed by fewer than 8 extra bits -/
theorem bitsToBytes_bytesToBits_append (bs : Bytes) (extra : List Bool) (h : extra.length < 8) :
    bitsToBytes (bytesToBits bs ++ extra) = bs := by
  induction bs with
  | nil => simpa [bytesToBits] using bitsToBytes_short extra h
  | cons b bs ih =>
    simp only [bytesToBits, List.flatMap_cons, List.append_assoc] at ih ⊢
    rw [bitsToBytes_byteBits_append, ih]

/-! ## grouping -/

/-- cut a bit stream into groups of `k` bits; `cur` is the group under construction (reversed
order is not used: bits are appended); the last group is filled with `false`. -/
def pack (k : Nat) : List Bool → List Bool → List (List Bool)
  | [], cur => if cur.isEmpty then [] else [cur ++ List.replicate (k - cur.length) false]
  | b :: bs, cur =>
    if cur.length + 1 ≥ k then (cur ++ [b]) :: pack k bs [] else pack k bs (cur ++ [b])

theorem pack_group_length (k : Nat) (hk : 0 < k) (bs cur : List Bool) (hc : cur.length < k) :
    ∀ g ∈ pack k bs cur, g.length = k := by
  induction bs generalizing cur with
  | nil =>
    intro g hg
    simp only [pack] at hg
    split at hg
    · simp at hg
    · simp at hg; subst hg; simp; omega
  | cons b bs ih =>
    intro g hg
    simp only [pack] at hg
    split at hg
    · rcases List.mem_cons.mp hg with rfl | hg
      · simp; omega
      · exact ih [] (by simpa using hk) g hg
    · exact ih (cur ++ [b]) (by simp; omega) g hg

/-- the groups, concatenated, are the pending bits, the input bits, and fewer than `k` fill bits -/
theorem pack_flatten (k : Nat) (hk : 0 < k) (bs cur : List Bool) (hc : cur.length < k) :
    ∃ p, p < k ∧ (pack k bs cur).flatten = cur ++ bs ++ List.replicate p false := by
  induction bs generalizing cur with
  | nil =>
    simp only [pack]
    split
    · rename_i h
      exact ⟨0, hk, by simp [List.isEmpty_iff.mp h]⟩
    · rename_i h
      have : cur.length ≠ 0 := by
        intro h0; exact h (by simp [List.length_eq_zero_iff.mp h0])
      exact ⟨k - cur.length, by omega, by simp⟩
  | cons b bs ih =>
    simp only [pack]
    split
    · obtain ⟨p, hp, e⟩ := ih [] (by simpa using hk)
      exact ⟨p, hp, by simp [e]⟩
    · obtain ⟨p, hp, e⟩ := ih (cur ++ [b]) (by simp; omega)
      exact ⟨p, hp, by simp [e]⟩

/-! ## characters -/

def mapOpt {α β : Type} (f : α → Option β) : List α → Option (List β)
  | [] => some []
  | a :: as =>
    match f a, mapOpt f as with
    | some b, some bs => some (b :: bs)
    | _, _ => none

theorem mapOpt_map_some {α β γ : Type} (f : α → Option β) (g : γ → α) (h : γ → β) (xs : List γ)
    (hx : ∀ x ∈ xs, f (g x) = some (h x)) : mapOpt f (xs.map g) = some (xs.map h) := by
  induction xs with
  | nil => rfl
  | cons x xs ih =>
    simp only [List.map_cons, mapOpt]
    rw [hx x (by simp), ih (fun y hy => hx y (by simp [hy]))]

structure Codec where
  /-- bits per character -/
  k : Nat
  alphabet : List Char
  /-- applied to every input character of the decoder before the alphabet lookup -/
  fold : Char → Char

namespace Codec
def encDigit (c : Codec) (d : Nat) : Char := c.alphabet.getD d 'A'
def decDigit (c : Codec) (ch : Char) : Option Nat :=
  let i := c.alphabet.idxOf (c.fold ch)
  if i < c.alphabet.length then some i else none

/-- well-formed codec: 1..8 bits per character, `2^k` characters, decoding inverts encoding -/
structure WF (c : Codec) : Prop where
  kpos : 0 < c.k
  kle : c.k ≤ 8
  size : c.alphabet.length = 2 ^ c.k
  inv : ∀ d, d < c.alphabet.length → c.decDigit (c.encDigit d) = some d
end Codec

def encode (c : Codec) (bs : Bytes) : List Char :=
  (pack c.k (bytesToBits bs) []).map fun g => c.encDigit (bitsToNat g)

def decode (c : Codec) (s : List Char) : Option Bytes :=
  (mapOpt c.decDigit s).map fun ds => bitsToBytes (ds.flatMap (natToBits c.k))

theorem decode_encode (c : Codec) (h : c.WF) (bs : Bytes) : decode c (encode c bs) = some bs := by
  have hlen := pack_group_length c.k h.kpos (bytesToBits bs) [] (by simpa using h.kpos)
  obtain ⟨p, hp, hflat⟩ := pack_flatten c.k h.kpos (bytesToBits bs) [] (by simpa using h.kpos)
  have hm : mapOpt c.decDigit (encode c bs) = some ((pack c.k (bytesToBits bs) []).map bitsToNat) := by
    apply mapOpt_map_some
    intro g hg
    apply h.inv
    rw [h.size, ← hlen g hg]
    exact bitsToNat_lt g
  have hbits : ((pack c.k (bytesToBits bs) []).map bitsToNat).flatMap (natToBits c.k)
      = (pack c.k (bytesToBits bs) []).flatten := by
    generalize pack c.k (bytesToBits bs) [] = gs at hlen
    induction gs with
    | nil => rfl
    | cons g gs ih =>
      simp only [List.map_cons, List.flatMap_cons, List.flatten_cons]
      rw [ih (fun g' hg' => hlen g' (by simp [hg']))]
      have := natToBits_bitsToNat g
      rw [hlen g (by simp)] at this
      rw [this]
  simp only [decode, hm, Option.map_some, hbits, hflat, List.nil_append]
  rw [bitsToBytes_bytesToBits_append]
  simp; have := h.kle; omega

theorem encode_injective (c : Codec) (h : c.WF) (a b : Bytes) (e : encode c a = encode c b) : a = b := by
  have ha := decode_encode c h a
  rw [e, decode_encode c h b] at ha
  exact (Option.some.inj ha).symm

theorem encode_mem_alphabet (c : Codec) (h : c.WF) (bs : Bytes) : ∀ ch ∈ encode c bs, ch ∈ c.alphabet := by
  intro ch hch
  simp only [encode, List.mem_map] at hch
  obtain ⟨g, hg, rfl⟩ := hch
  have hlen := pack_group_length c.k h.kpos (bytesToBits bs) [] (by simpa using h.kpos) g hg
  have hlt : bitsToNat g < c.alphabet.length := by rw [h.size, ← hlen]; exact bitsToNat_lt g
  simp [Codec.encDigit, List.getD, hlt]

/-- length of the encoding: `⌈8·n / k⌉` characters, stated without division -/
theorem encode_length_mul (c : Codec) (h : c.WF) (bs : Bytes) :
    ∃ p, p < c.k ∧ (encode c bs).length * c.k = 8 * bs.length + p := by
  have hlen := pack_group_length c.k h.kpos (bytesToBits bs) [] (by simpa using h.kpos)
  obtain ⟨p, hp, hflat⟩ := pack_flatten c.k h.kpos (bytesToBits bs) [] (by simpa using h.kpos)
  refine ⟨p, hp, ?_⟩
  have hl : (pack c.k (bytesToBits bs) []).flatten.length = (pack c.k (bytesToBits bs) []).length * c.k := by
    generalize pack c.k (bytesToBits bs) [] = gs at hlen
    induction gs with
    | nil => simp
    | cons g gs ih =>
      simp only [List.flatten_cons, List.length_append, List.length_cons]
      rw [ih (fun g' hg' => hlen g' (by simp [hg'])), hlen g (by simp), Nat.succ_mul]; omega
  rw [hflat] at hl
  simp [bytesToBits_length] at hl
  simp [encode]; omega

theorem encode_nil (c : Codec) : encode c [] = [] := rfl

theorem encode_ne_nil (c : Codec) (h : c.WF) (bs : Bytes) (hb : bs ≠ []) : encode c bs ≠ [] := by
  intro e
  obtain ⟨p, hp, hl⟩ := encode_length_mul c h bs
  rw [e] at hl
  have : bs.length ≠ 0 := fun h0 => hb (List.length_eq_zero_iff.mp h0)
  simp at hl; omega

/-! ## instances -/

def b32Alphabet : List Char := "ABCDEFGHIJKLMNOPQRSTUVWXYZ234567".toList
def b64uAlphabet : List Char :=
  "ABCDEFGHIJKLMNOPQRSTUVWXYZabcdefghijklmnopqrstuvwxyz0123456789-_".toList

/-- RFC 4648 base32 without padding; decoder accepts both letter cases (multiformats/go-base32
`RawStdEncoding` is built with `NewEncodingCI`) -/
def b32 : Codec := { k := 5, alphabet := b32Alphabet, fold := Char.toUpper }
/-- RFC 4648 base32 without padding, case-sensitive decoder (Go `encoding/base32`) -/
def b32s : Codec := { k := 5, alphabet := b32Alphabet, fold := id }
/-- RFC 4648 base64url without padding (Go `base64.RawURLEncoding`) -/
def b64u : Codec := { k := 6, alphabet := b64uAlphabet, fold := id }

theorem b32_wf : b32.WF :=
  { kpos := by decide, kle := by decide, size := by decide, inv := by decide }
theorem b32s_wf : b32s.WF :=
  { kpos := by decide, kle := by decide, size := by decide, inv := by decide }
theorem b64u_wf : b64u.WF :=
  { kpos := by decide, kle := by decide, size := by decide, inv := by decide }

theorem b32_no_slash (bs : Bytes) : '/' ∉ encode b32 bs := fun h =>
  absurd (encode_mem_alphabet b32 b32_wf bs _ h) (by decide)
theorem b32s_no_slash (bs : Bytes) : '/' ∉ encode b32s bs := fun h =>
  absurd (encode_mem_alphabet b32s b32s_wf bs _ h) (by decide)
theorem b64u_no_slash (bs : Bytes) : '/' ∉ encode b64u bs := fun h =>
  absurd (encode_mem_alphabet b64u b64u_wf bs _ h) (by decide)

theorem b32_length (bs : Bytes) : (encode b32 bs).length = (8 * bs.length + 4) / 5 := by
  obtain ⟨p, hp, h⟩ := encode_length_mul b32 b32_wf bs
  simp only [b32] at hp h ⊢; omega
theorem b32s_length (bs : Bytes) : (encode b32s bs).length = (8 * bs.length + 4) / 5 := by
  obtain ⟨p, hp, h⟩ := encode_length_mul b32s b32s_wf bs
  simp only [b32s] at hp h ⊢; omega
theorem b64u_length (bs : Bytes) : (encode b64u bs).length = (8 * bs.length + 5) / 6 := by
  obtain ⟨p, hp, h⟩ := encode_length_mul b64u b64u_wf bs
  simp only [b64u] at hp h ⊢; omega

/-! ## ASCII case mapping over an alphabet (used by C40: lower-cased base32 file names) -/

theorem map_upper_lower_of_mem (al : List Char) (hal : ∀ ch ∈ al, ch.toLower.toUpper = ch)
    (s : List Char) (hs : ∀ ch ∈ s, ch ∈ al) : (s.map Char.toLower).map Char.toUpper = s := by
  induction s with
  | nil => rfl
  | cons a s ih =>
    simp only [List.map_cons]
    rw [hal a (hs a (by simp)), ih (fun ch h => hs ch (by simp [h]))]

theorem b32_upper_lower (bs : Bytes) :
    ((encode b32s bs).map Char.toLower).map Char.toUpper = encode b32s bs :=
  map_upper_lower_of_mem b32Alphabet (by decide) _ (encode_mem_alphabet b32s b32s_wf bs)

/-! sanity: RFC 4648 test vectors ("foobar" = 66 6f 6f 62 61 72) -/
example : encode b32 [0x66, 0x6f, 0x6f, 0x62, 0x61, 0x72] = "MZXW6YTBOI".toList := by decide
example : encode b64u [0x66, 0x6f, 0x6f, 0x62, 0x61, 0x72] = "Zm9vYmFy".toList := by decide
example : encode b64u [0x66, 0x6f] = "Zm8".toList := by decide
example : decode b32 "mzxw6ytboi".toList = some [0x66, 0x6f, 0x6f, 0x62, 0x61, 0x72] := by decide +kernel

end BaseN
