/-!
# LockFacts — the fact language emitted by the T-gen `locks` translator, and the discipline checker

`Ev` is what `harness/cmd/extract/locks.go` extracts from each Go function: lock operations on
`sync.Mutex`/`sync.RWMutex` struct fields, calls to functions of the same package, control structure
(`alt`, `loop`, `closure`, `ret`, defers). `who` is the owner of the lock / the receiver of the callee as a
path from the receiver of the function being analysed (`up` = parent directory, `down` = a child,
`file` = the File of a descriptor), `none` = could not be determined.

`check` symbolically executes a function (inlining callees through the table, cutting recursion when the
same function is re-entered with the same relative lock context) and answers `true` only if on every path
* every acquisition has a rank strictly above every lock already held — ranks are pairs (class, depth),
  compared lexicographically, depth only distinguishing directory locks — hence no lock is ever
  re-acquired while held (in any mode);
* every release is of a held lock; loop / closure bodies are balanced;
* no `unknown` event is reached; a callee / lock owner whose position is unknown is only tolerated while
  no directory or node lock is held;
* every function returns holding exactly what it held on entry, except the declared `delta`s
  (`File.Open` keeps the descriptor lock, `fileDescriptor.Close` gives it back).
Core-only.
-/
namespace LockFacts

inductive Step where
  | up | down | file
  deriving DecidableEq, Repr

abbrev Who := Option (List Step)

inductive Ev where
  | acq (cls : Nat) (who : Who) (write : Bool)
  | rel (cls : Nat) (who : Who) (write : Bool)
  | deferRel (cls : Nat) (who : Who) (write : Bool)
  /-- a guarded field of `who` is read / written here; `cls` is the lock class that guards it -/
  | access (cls : Nat) (who : Who) (write : Bool)
  | deferBlock (body : List Ev)
  | call (fn : Nat) (who : Who)
  | deferCall (fn : Nat) (who : Who)
  | spawn (fn : Nat) (who : Who)
  | alt (branches : List (List Ev))
  | loop (body : List Ev)
  | closure (body : List Ev)
  | ifErr (onErr onOk : List Ev)      -- branch on the error result of the package call just before
  | ifRetErr (onErr onOk : List Ev)   -- (in deferred closures) branch on this function's own error result
  | ret        -- return, error result unknown
  | retErr     -- return with a non-nil error
  | retOk      -- return with a nil error
  | callback
  | unknown

/-- object kinds of the package, as far as positions are concerned -/
inductive Kind where
  | dir | file | fd | root | other
  deriving DecidableEq, Repr

/-- what the checker needs to know about the package besides the extracted table -/
structure Config where
  kindOf : String → Kind                -- receiver type name ↦ kind
  classRank : String → Option (Nat × Kind)  -- lock class "Type.field" ↦ (rank class, kind of its owner)
  /-- functions allowed to return with one more / one less lock of rank class 0 (descriptor lock) -/
  keeps : List String
  gives : List String
  /-- callers in which a `gives` callee is assumed to be called on a descriptor that is open (so that it does give
  the lock back): its "already closed / neither readable nor writable" outcomes are discarded there -/
  mustGive : List String := []

abbrev Lock := Nat × Nat     -- (rank class, depth); depth matters for class `dirClass` only; depths are offsets from `baseDepth`
/-- depth given to the receiver of the function a check starts from (so that walking up never underflows; Nat because the kernel evaluates Nat arithmetic natively) -/
def baseDepth : Nat := 1000
def dirClass : Nat := 2

def lockLt (a b : Lock) : Bool := a.1 < b.1 || (a.1 == b.1 && a.1 == dirClass && a.2 < b.2)

/-- walk a `who` path from an object of kind `k` at depth `d` (depth of a file/descriptor = depth of the
directory that contains the file; of the root object = -1) to an object of kind `target` -/
def move : Kind → Nat → List Step → Kind → Option Nat
  | k, d, [], target => if k == target then some d else none
  | .fd, d, .file :: r, target => move .file d r target
  | .file, d, .up :: r, target => if r.isEmpty && target == .root then some (d - 1) else move .dir d r target
  | .dir, d, .up :: r, target => if r.isEmpty && target == .root then some (d - 1) else move .dir (d - 1) r target
  | .dir, d, .down :: r, target => if r.isEmpty && target == .file then some d else move .dir (d + 1) r target
  | .root, d, .down :: r, target => move .dir (d + 1) r target
  | _, _, _, _ => none

structure St where
  held : List Lock
  wheld : List Lock := []   -- the held locks taken in write mode (Lock(), or any sync.Mutex)
  defers : List (List Ev)   -- registered deferred blocks, most recent first
  lastErr : Option Bool := none   -- error result of the most recent package call (none = unknown)
  retErr : Option Bool := none    -- error result this function is returning with

structure Res where
  ok : Bool
  cont : List St   -- states that fall through
  rets : List St   -- states that executed `ret` (defers not yet run)

def Res.bad : Res := ⟨false, [], []⟩

def addSt (s : St) (l : List St) : List St :=
  if s.defers.isEmpty && l.any (fun t => t.defers.isEmpty && t.held == s.held && t.wheld == s.wheld && t.lastErr == s.lastErr && t.retErr == s.retErr) then l else s :: l

def mergeSts (a b : List St) : List St := a.foldr addSt b

def Res.merge (a b : Res) : Res := ⟨a.ok && b.ok, mergeSts a.cont b.cont, mergeSts a.rets b.rets⟩

def noDeep (held : List Lock) : Bool := held.all fun h => h.1 < dirClass

structure Frame where
  kind : Kind
  depth : Nat
  fn : Nat := 0     -- the function whose body is being executed (for the allow-list of the guarded-field rule)

/-- the table the checker runs on: everything by index (strings are slow in the kernel) -/
structure Tbl where
  facts : List (List Ev)
  kinds : List Kind                     -- kind of each function's receiver
  ranks : List (Option (Nat × Kind))    -- rank class and owner kind of each lock class
  keeps : List Nat
  gives : List Nat
  mustGive : List Nat
  /-- guarded-field rule on: an `access` needs the guarding lock of the same object held (in write mode for a write),
  unless (function containing it, lock class, is write) is in `allowUnguarded` -/
  chkAccess : Bool := false
  allowUnguarded : List (Nat × Nat × Bool) := []

/-- index of a name -/
def idxOf (names : List String) (n : String) : Option Nat :=
  let i := names.findIdx (· == n)
  if i < names.length then some i else none

/-- numeric tables from the readable configuration and the extracted name lists -/
def compile (cfg : Config) (facts : List (List Ev)) (recv names classes : List String) : Tbl where
  facts := facts
  kinds := recv.map cfg.kindOf
  ranks := classes.map cfg.classRank
  keeps := cfg.keeps.filterMap (idxOf names)
  gives := cfg.gives.filterMap (idxOf names)
  mustGive := cfg.mustGive.filterMap (idxOf names)
  chkAccess := false
  allowUnguarded := []

/-- resolve a lock (class, who) to a ranked lock; `none` = not allowed here -/
def resolve (t : Tbl) (fr : Frame) (held : List Lock) (cls : Nat) (who : Who) : Option Lock :=
  match t.ranks.getD cls none with
  | none => none
  | some (rk, ownerKind) =>
    match who with
    | none => if noDeep held && rk < dirClass then some (rk, 0) else none
    | some path => (move fr.kind fr.depth path ownerKind).map fun d => (rk, if rk == dirClass then d else 0)

/-- recursion cut-off key: callee, the held lock classes, and — all that matters for the rank comparisons and
for `noDeep` — the deepest held directory lock relative to the callee -/
def cutKey (fn : Nat) (held : List Lock) (depth : Nat) : Nat × List (Nat × Nat) :=
  let dirs := (held.filter fun h => h.1 == dirClass).map fun h => h.2 + baseDepth - depth
  let top : List (Nat × Nat) := match dirs with
    | [] => []
    | d :: ds => [(dirClass, ds.foldl max d)]
  (fn, ((held.filter fun h => h.1 != dirClass).map fun h => (h.1, (0 : Nat))).eraseDups ++ top)

mutual
/-- execute an event list from one state -/
def execList (t : Tbl) : Nat → Frame → List (Nat × List (Nat × Nat)) → List Ev → St → Res
  | 0, _, _, _, _ => Res.bad
  | _ + 1, _, _, [], st => ⟨true, [st], []⟩
  | fuel + 1, fr, stack, e :: es, st =>
    let r := execEv t fuel fr stack e st
    if !r.ok then Res.bad else
    r.cont.foldl (fun (acc : Res) c => acc.merge (execList t fuel fr stack es c)) (⟨true, [], r.rets⟩ : Res)

/-- run the deferred blocks of a returning state (most recent first); result states have no defers -/
def runDefers (t : Tbl) : Nat → Frame → List (Nat × List (Nat × Nat)) → St → Res
  | 0, _, _, _ => Res.bad
  | fuel + 1, fr, stack, st =>
    match st.defers with
    | [] => ⟨true, [st], []⟩
    | d :: ds =>
      let r := execList t fuel fr stack d { held := st.held, wheld := st.wheld, defers := [], retErr := st.retErr }
      if !r.ok then Res.bad else
      -- a `ret` inside a deferred closure just ends that closure
      (mergeSts r.cont r.rets).foldl
        (fun (acc : Res) c => acc.merge (runDefers t fuel fr stack { held := c.held, wheld := c.wheld, defers := ds, retErr := st.retErr })) (⟨true, [], []⟩ : Res)

/-- call function `fn` positioned at `cfr` from state `st`; the caller continues with the callee's final `held` -/
def execCall (t : Tbl) : Nat → List (Nat × List (Nat × Nat)) → Nat → Frame → St → Res
  | 0, _, _, _, _ => Res.bad
  | fuel + 1, stack, fn, cfr, st =>
    let key := cutKey fn st.held cfr.depth
    if stack.contains key then ⟨true, [{ st with lastErr := none }], []⟩ else
    let body := t.facts.getD fn [.unknown]
    let r := execList t fuel cfr (key :: stack) body { held := st.held, wheld := st.wheld, defers := [] }
    if !r.ok then Res.bad else
    let fin : Res := (mergeSts r.cont r.rets).foldl (fun (acc : Res) c => acc.merge (runDefers t fuel cfr (key :: stack) c)) (⟨true, [], []⟩ : Res)
    if !fin.ok then Res.bad else
    let callerIsMustGive := match stack with
      | (c, _) :: _ => t.mustGive.contains c
      | [] => false
    let fin : Res := if t.gives.contains fn && callerIsMustGive
      then { fin with cont := fin.cont.filter fun c => c.held != st.held } else fin
    let okDelta := fin.cont.all fun c =>
      c.held == st.held ||
      (t.keeps.contains fn && c.held.length == st.held.length + 1 && c.held.tail == st.held && (c.held.headD (9, 0)).1 == 0) ||
      (t.gives.contains fn && c.held.length + 1 == st.held.length && c.held.all (st.held.contains ·))
    if !okDelta then Res.bad else
    ⟨true, fin.cont.foldr (fun c acc => addSt { held := c.held, wheld := c.wheld, defers := st.defers, lastErr := c.retErr, retErr := st.retErr } acc) [], []⟩

def execEv (t : Tbl) : Nat → Frame → List (Nat × List (Nat × Nat)) → Ev → St → Res
  | 0, _, _, _, _ => Res.bad
  | fuel + 1, fr, stack, ev, st =>
    match ev with
    | .acq cls who w =>
      match resolve t fr st.held cls who with
      | none => Res.bad
      | some l => if st.held.all (lockLt · l) then
          ⟨true, [{ st with held := l :: st.held, wheld := if w then l :: st.wheld else st.wheld }], []⟩ else Res.bad
    | .rel cls who _ =>
      match resolve t fr [] cls who with
      | none => Res.bad
      | some l => if st.held.contains l then ⟨true, [{ st with held := st.held.erase l, wheld := st.wheld.erase l }], []⟩ else Res.bad
    | .access cls who w =>
      if !t.chkAccess then ⟨true, [st], []⟩ else
      if t.allowUnguarded.contains (fr.fn, cls, w) then ⟨true, [st], []⟩ else
      match resolve t fr [] cls who with
      | none => Res.bad
      | some l => if (if w then st.wheld.contains l else st.held.contains l) then ⟨true, [st], []⟩ else Res.bad
    | .deferRel cls who w => ⟨true, [{ st with defers := [.rel cls who w] :: st.defers }], []⟩
    | .deferBlock body => ⟨true, [{ st with defers := body :: st.defers }], []⟩
    | .deferCall fn who => ⟨true, [{ st with defers := [.call fn who] :: st.defers }], []⟩
    | .call fn who =>
      let ck := t.kinds.getD fn .other
      match who with
      | some path =>
        if ck == .other then (if noDeep st.held then execCall t fuel stack fn ⟨ck, baseDepth, fn⟩ st else
          -- a plain function / unpositioned receiver called under a directory or node lock: tolerated only if it takes no lock
          execCallLockFree t fuel stack fn st)
        else match move fr.kind fr.depth path ck with
          | some d => execCall t fuel stack fn ⟨ck, d, fn⟩ st
          | none => Res.bad
      | none =>
        if noDeep st.held then execCall t fuel stack fn ⟨ck, baseDepth, fn⟩ st else execCallLockFree t fuel stack fn st
    | .spawn _ _ => ⟨true, [st], []⟩
    | .alt bs => bs.foldl (fun (acc : Res) b => acc.merge (execList t fuel fr stack b st)) (⟨true, [], []⟩ : Res)
    | .loop body =>
      let r := execList t fuel fr stack body st
      if r.ok && r.cont.all (fun c => c.held == st.held && c.defers.length == st.defers.length) then ⟨true, [st], r.rets⟩ else Res.bad
    | .closure body =>
      let r := execList t fuel fr stack body { held := st.held, wheld := st.wheld, defers := [] }
      if r.ok && (r.cont ++ r.rets).all (fun c => c.held == st.held && c.defers.isEmpty) then ⟨true, [st], []⟩ else Res.bad
    | .ifErr a b =>
      match st.lastErr with
      | some true => execList t fuel fr stack a st
      | some false => execList t fuel fr stack b st
      | none => (execList t fuel fr stack a st).merge (execList t fuel fr stack b st)
    | .ifRetErr a b =>
      match st.retErr with
      | some true => execList t fuel fr stack a st
      | some false => execList t fuel fr stack b st
      | none => (execList t fuel fr stack a st).merge (execList t fuel fr stack b st)
    | .ret => ⟨true, [], [{ st with retErr := none }]⟩
    | .retErr => ⟨true, [], [{ st with retErr := some true }]⟩
    | .retOk => ⟨true, [], [{ st with retErr := some false }]⟩
    | .callback => ⟨true, [st], []⟩
    | .unknown => Res.bad

/-- a callee whose position is unknown, entered while a directory / node lock is held, must not touch any lock -/
def execCallLockFree (t : Tbl) : Nat → List (Nat × List (Nat × Nat)) → Nat → St → Res
  | 0, _, _, _ => Res.bad
  | fuel + 1, stack, fn, st =>
    if lockFree t fuel [] (t.facts.getD fn [.unknown]) then ⟨true, [{ st with lastErr := none }], []⟩ else Res.bad

/-- no lock operation is reachable from the event list (calls followed through the table) -/
def lockFree (t : Tbl) : Nat → List Nat → List Ev → Bool
  | 0, _, _ => false
  | _ + 1, _, [] => true
  | fuel + 1, seen, e :: es =>
    (match e with
      | .acq .. | .rel .. | .deferRel .. | .unknown => false
      | .call fn _ | .deferCall fn _ => seen.contains fn || lockFree t fuel (fn :: seen) (t.facts.getD fn [.unknown])
      | .alt bs => bs.all fun b => lockFree t fuel seen b
      | .ifErr a b | .ifRetErr a b => lockFree t fuel seen a && lockFree t fuel seen b
      | .loop b | .closure b | .deferBlock b => lockFree t fuel seen b
      | .access .. | .spawn .. | .ret | .retErr | .retOk | .callback => true) && lockFree t fuel seen es
end

/-- check function `fn` entered holding `entry` -/
def checkFrom (t : Tbl) (fuel : Nat) (entry : List Lock) (fn : Nat) : Bool :=
  let fr : Frame := ⟨t.kinds.getD fn .other, baseDepth, fn⟩
  (execCall t fuel [] fn fr { held := entry, defers := [] }).ok

end LockFacts
