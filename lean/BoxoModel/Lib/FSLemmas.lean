import BoxoModel.Lib.FS
/-!
Lemmas about `Lib.FS` (owner b-fs).  Three layers:
1. `find` after the flat-map primitives (`touch`, physical operations): frame + effect at the key;
2. path resolution along real directories is lexical (`walk_lex`, `walk_nolink`);
3. OS-level operations on such paths coincide with the physical operation at the same path.
-/
namespace FS

/-- equality of nodes up to the modification time -/
def clearM (n : Node) : Node := { n with mtime := none }
def Eqv (o o' : Option Node) : Prop := o'.map clearM = o.map clearM

theorem Eqv.refl (o : Option Node) : Eqv o o := rfl
theorem Eqv.trans {a b c : Option Node} (h1 : Eqv a b) (h2 : Eqv b c) : Eqv a c := by
  unfold Eqv at *; rw [h2, h1]
theorem Eqv.of_eq {a b : Option Node} (h : b = a) : Eqv a b := by subst h; rfl

theorem isDir_clearM (o : Option Node) : isDir (o.map clearM) = isDir o := by cases o <;> rfl
theorem isLink_clearM (o : Option Node) : isLink (o.map clearM) = isLink o := by cases o <;> rfl
theorem isFile_clearM (o : Option Node) : isFile (o.map clearM) = isFile o := by cases o <;> rfl
theorem Eqv.isDir {a b : Option Node} (h : Eqv a b) : isDir b = isDir a := by
  rw [← isDir_clearM b, h, isDir_clearM]
theorem Eqv.isLink {a b : Option Node} (h : Eqv a b) : isLink b = isLink a := by
  rw [← isLink_clearM b, h, isLink_clearM]
theorem Eqv.isFile {a b : Option Node} (h : Eqv a b) : isFile b = isFile a := by
  rw [← isFile_clearM b, h, isFile_clearM]
theorem Eqv.isSome {a b : Option Node} (h : Eqv a b) : b.isSome = a.isSome := by
  unfold Eqv at h
  cases a <;> cases b <;> simp at h ⊢

theorem find_insert (w : World) (k k2 : Path) (v : Node) :
    find (AMap.insert w k v) k2 = if k = k2 then some v else find w k2 := AMap.find_insert w k k2 v
theorem find_erase (w : World) (k k2 : Path) :
    find (AMap.erase w k) k2 = if k = k2 then none else find w k2 := AMap.find_erase w k k2

theorem find_touch (w : World) (d p : Path) :
    find (touch w d) p = if d = p then (find w d).map clearM else find w p := by
  unfold touch
  cases h : find w d with
  | none => by_cases e : d = p <;> simp [e, ← h]
  | some n => simp only [find_insert]; by_cases e : d = p <;> simp [e, clearM]

theorem touch_eqv (w : World) (d p : Path) : Eqv (find w p) (find (touch w d) p) := by
  rw [find_touch]
  by_cases e : d = p
  · subst e; unfold Eqv; cases find w d <;> simp [clearM]
  · simp [e, Eqv.refl]

theorem touch_ne (w : World) (d p : Path) (h : d ≠ p) : find (touch w d) p = find w p := by
  rw [find_touch]; simp [h]

/-! ### dedup / childNames -/

theorem mem_dedup (a : String) (l : List String) : a ∈ dedup l ↔ a ∈ l := by
  induction l with
  | nil => simp [dedup]
  | cons b l ih =>
    unfold dedup
    by_cases h : b ∈ dedup l
    · simp only [h, if_true, List.mem_cons, ih]
      constructor
      · exact Or.inr
      · rintro (rfl | h2)
        · exact ih.mp h
        · exact h2
    · simp [h, ih]

theorem nodup_dedup (l : List String) : (dedup l).Nodup := by
  induction l with
  | nil => simp [dedup]
  | cons b l ih =>
    unfold dedup
    by_cases h : b ∈ dedup l
    · simpa [h] using ih
    · simp [h, ih]

theorem isChildOf_iff (d k : Path) (nm : String) :
    (isChildOf d k = true ∧ k.getLast? = some nm) ↔ k = d ++ [nm] := by
  constructor
  · rintro ⟨h1, h2⟩
    simp only [isChildOf, Bool.and_eq_true, bne_iff_ne, ne_eq, beq_iff_eq] at h1
    obtain ⟨hne, hd⟩ := h1
    have := List.dropLast_append_getLast? (l := k) nm (by simp [h2])
    rw [hd] at this; exact this.symm
  · rintro rfl
    simp [isChildOf]

theorem mem_childNames (w : World) (d : Path) (nm : String) :
    nm ∈ childNames w d ↔ (find w (d ++ [nm])).isSome = true := by
  unfold childNames
  rw [mem_dedup, List.mem_filterMap]
  constructor
  · rintro ⟨k, hk, hl⟩
    rw [List.mem_filter] at hk
    have := (isChildOf_iff d k nm).mp ⟨hk.2, hl⟩
    subst this
    exact (AMap.mem_keys_iff w _).mp hk.1
  · intro h
    refine ⟨d ++ [nm], ?_, by simp⟩
    rw [List.mem_filter]
    exact ⟨(AMap.mem_keys_iff w _).mpr h, ((isChildOf_iff d _ nm).mpr rfl).1⟩

theorem nodup_childNames (w : World) (d : Path) : (childNames w d).Nodup := nodup_dedup _

theorem hasChild_iff (w : World) (d : Path) :
    hasChild w d = true ↔ ∃ nm, (find w (d ++ [nm])).isSome = true := by
  unfold hasChild
  rw [List.any_eq_true]
  constructor
  · rintro ⟨k, hk, hc⟩
    have hne : k ≠ [] := by
      simp only [isChildOf, Bool.and_eq_true, bne_iff_ne, ne_eq] at hc; exact hc.1
    obtain ⟨nm, hnm⟩ : ∃ nm, k.getLast? = some nm := by
      cases h : k.getLast? with
      | none => simp [List.getLast?_eq_none_iff] at h; exact absurd h hne
      | some nm => exact ⟨nm, rfl⟩
    have := (isChildOf_iff d k nm).mp ⟨hc, hnm⟩
    subst this
    exact ⟨nm, (AMap.mem_keys_iff w _).mp hk⟩
  · rintro ⟨nm, h⟩
    exact ⟨d ++ [nm], (AMap.mem_keys_iff w _).mpr h, ((isChildOf_iff d _ nm).mpr rfl).1⟩

/-! ### path resolution along real directories -/

theorem simple_iff (c : String) : simple c = true ↔ c ≠ "" ∧ c ≠ "." ∧ c ≠ ".." := by
  simp [simple, not_or]

/-- Resolution is lexical when every intermediate component is an ordinary name naming a real
directory; the final component may be anything when it is not followed, anything but a link when it is. -/
theorem walk_lex (w : World) (fuel : Nat) (fl : Bool) : ∀ (comps : List String) (cur : Path),
    (∀ c ∈ comps, simple c = true) →
    (∀ pre, pre <+: comps → pre ≠ comps → pre ≠ [] → isDir (find w (cur ++ pre)) = true) →
    (fl = false ∨ isLink (find w (cur ++ comps)) = false) →
    walk w fuel cur comps fl = .ok (cur ++ comps) := by
  intro comps
  induction comps with
  | nil => intro cur _ _ _; simp [walk]
  | cons c rest ih =>
    intro cur hs hd hl
    have hc := (simple_iff c).mp (hs c (by simp))
    have h1 : trivialComp c = false := by simp [trivialComp, hc.1, hc.2.1]
    have h2 : (c == "..") = false := by simp [hc.2.2]
    rw [walk]
    simp only [h1, h2, Bool.false_eq_true, if_false]
    by_cases hr : rest = []
    · subst hr
      cases hf : find w (cur ++ [c]) with
      | none => simp
      | some n =>
        simp only
        cases hk : n.kind with
        | dir => simp [walk]
        | file => simp
        | link =>
          rcases hl with hl | hl
          · simp [hl]
          · simp [hf, isLink, hk] at hl
    · have hdir := hd [c] (by simp) (by simp [hr]) (by simp)
      cases hf : find w (cur ++ [c]) with
      | none => simp [hf, isDir] at hdir
      | some n =>
        have hk : n.kind = .dir := by simpa [hf, isDir] using hdir
        simp only [hk]
        have := ih (cur ++ [c]) (fun c' hc' => hs c' (by simp [hc']))
          (fun pre hp hne hnil => by
            have := hd (c :: pre) (by simpa using hp) (by simpa using hne) (by simp)
            simpa using this)
          (by simpa using hl)
        simpa using this

/-- all prefixes of `d` (including `[]` and `d`) are directories and all components ordinary names -/
def LexDir (w : World) (d : Path) : Prop :=
  (∀ c ∈ d, simple c = true) ∧ ∀ pre, pre <+: d → isDir (find w pre) = true

theorem resolve_lexdir {w : World} {d : Path} (h : LexDir w d) (fl : Bool) : resolve w d fl = .ok d := by
  have := walk_lex w maxLinks fl d [] h.1 (fun pre hp _ _ => by simpa using h.2 pre hp)
    (by right; have := h.2 d (List.prefix_refl d); simp only [List.nil_append]
        cases hf : find w d with
        | none => simp [hf, isDir] at this
        | some n => simp only [hf, isDir, beq_iff_eq] at this; simp [isLink, this])
  simpa [resolve] using this

theorem resolve_entry {w : World} {d : Path} (h : LexDir w d) (nm : String) (hs : simple nm = true) (fl : Bool)
    (hl : fl = false ∨ isLink (find w (d ++ [nm])) = false) : resolve w (d ++ [nm]) fl = .ok (d ++ [nm]) := by
  have := walk_lex w maxLinks fl (d ++ [nm]) []
    (fun c hc => by rcases List.mem_append.mp hc with h1 | h1; exact h.1 c h1; simp at h1; subst h1; exact hs)
    (fun pre hp hne _ => by
      have : pre <+: d := by
        rcases List.prefix_concat_iff.mp (by simpa using hp) with h1 | h1
        · exact absurd h1 (by simpa using hne)
        · exact h1
      simpa using h.2 pre this)
    (by simpa using hl)
  simpa [resolve] using this

/-- preservation of `LexDir` when every prefix keeps its node up to mtime -/
theorem LexDir.of_eqv {w w' : World} {d : Path} (h : LexDir w d)
    (he : ∀ pre, pre <+: d → Eqv (find w pre) (find w' pre)) : LexDir w' d :=
  ⟨h.1, fun pre hp => by rw [(he pre hp).isDir]; exact h.2 pre hp⟩

end FS
