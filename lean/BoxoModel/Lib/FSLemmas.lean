import BoxoModel.Lib.FS
/-!
Lemmas about `Lib.FS` (owner b-fs).  Three layers:
1. `find` after the flat-map primitives (`touch`, physical operations): frame + effect at the key;
2. path resolution along real directories is lexical (`walk_lex`, `walk_nolink`);
3. OS-level operations on such paths coincide with the physical operation at the same path.
-/
namespace FS

/-- equality of nodes up to the modification time -/
def clearM (n : Node) : Node := { n with mtime := none }
def Eqv (o o' : Option Node) : Prop := o'.map clearM = o.map clearM

theorem Eqv.refl (o : Option Node) : Eqv o o := rfl
theorem Eqv.trans {a b c : Option Node} (h1 : Eqv a b) (h2 : Eqv b c) : Eqv a c := by
  unfold Eqv at *; rw [h2, h1]
theorem Eqv.of_eq {a b : Option Node} (h : b = a) : Eqv a b := by subst h; rfl

theorem isDir_clearM (o : Option Node) : isDir (o.map clearM) = isDir o := by cases o <;> rfl
theorem isLink_clearM (o : Option Node) : isLink (o.map clearM) = isLink o := by cases o <;> rfl
theorem isFile_clearM (o : Option Node) : isFile (o.map clearM) = isFile o := by cases o <;> rfl
theorem Eqv.isDir {a b : Option Node} (h : Eqv a b) : isDir b = isDir a := by
  rw [← isDir_clearM b, h, isDir_clearM]
theorem Eqv.isLink {a b : Option Node} (h : Eqv a b) : isLink b = isLink a := by
  rw [← isLink_clearM b, h, isLink_clearM]
theorem Eqv.isFile {a b : Option Node} (h : Eqv a b) : isFile b = isFile a := by
  rw [← isFile_clearM b, h, isFile_clearM]
theorem Eqv.isSome {a b : Option Node} (h : Eqv a b) : b.isSome = a.isSome := by
  unfold Eqv at h
  cases a <;> cases b <;> simp at h ⊢

theorem find_insert (w : World) (k k2 : Path) (v : Node) :
    find (AMap.insert w k v) k2 = if k = k2 then some v else find w k2 := AMap.find_insert w k k2 v
theorem find_erase (w : World) (k k2 : Path) :
    find (AMap.erase w k) k2 = if k = k2 then none else find w k2 := AMap.find_erase w k k2

theorem find_touch (w : World) (d p : Path) :
    find (touch w d) p = if d = p then (find w d).map clearM else find w p := by
  unfold touch
  cases h : find w d with
  | none =>
    by_cases e : d = p
    · subst e; simp [h]
    · simp [e]
  | some n => simp only [find_insert]; by_cases e : d = p <;> simp [e, clearM]

theorem touch_eqv (w : World) (d p : Path) : Eqv (find w p) (find (touch w d) p) := by
  rw [find_touch]
  by_cases e : d = p
  · subst e; unfold Eqv; cases find w d <;> simp [clearM]
  · simp [e, Eqv.refl]

theorem touch_ne (w : World) (d p : Path) (h : d ≠ p) : find (touch w d) p = find w p := by
  rw [find_touch]; simp [h]

/-! ### dedup / childNames -/

theorem mem_dedup (a : String) (l : List String) : a ∈ dedup l ↔ a ∈ l := by
  induction l with
  | nil => simp [dedup]
  | cons b l ih =>
    unfold dedup
    by_cases h : b ∈ dedup l
    · simp only [h, if_true, List.mem_cons, ih]
      constructor
      · exact Or.inr
      · rintro (rfl | h2)
        · exact ih.mp h
        · exact h2
    · simp [h, ih]

theorem nodup_dedup (l : List String) : (dedup l).Nodup := by
  induction l with
  | nil => simp [dedup]
  | cons b l ih =>
    unfold dedup
    by_cases h : b ∈ dedup l
    · simpa [h] using ih
    · simp [h, ih]

theorem isChildOf_iff (d k : Path) (nm : String) :
    (isChildOf d k = true ∧ k.getLast? = some nm) ↔ k = d ++ [nm] := by
  constructor
  · rintro ⟨h1, h2⟩
    simp only [isChildOf, Bool.and_eq_true, bne_iff_ne, ne_eq, beq_iff_eq] at h1
    obtain ⟨hne, hd⟩ := h1
    have h3 := List.dropLast_concat_getLast hne
    have h4 : k.getLast hne = nm := by
      have := List.getLast?_eq_some_getLast hne
      rw [h2] at this; exact (Option.some.inj this).symm
    rw [hd, h4] at h3; exact h3.symm
  · rintro rfl
    simp [isChildOf]

theorem mem_childNames (w : World) (d : Path) (nm : String) :
    nm ∈ childNames w d ↔ (find w (d ++ [nm])).isSome = true := by
  unfold childNames
  rw [mem_dedup, List.mem_filterMap]
  constructor
  · rintro ⟨k, hk, hl⟩
    rw [List.mem_filter] at hk
    have := (isChildOf_iff d k nm).mp ⟨hk.2, hl⟩
    subst this
    exact (AMap.mem_keys_iff w _).mp hk.1
  · intro h
    refine ⟨d ++ [nm], ?_, by simp⟩
    rw [List.mem_filter]
    exact ⟨(AMap.mem_keys_iff w _).mpr h, ((isChildOf_iff d _ nm).mpr rfl).1⟩

theorem nodup_childNames (w : World) (d : Path) : (childNames w d).Nodup := nodup_dedup _

theorem hasChild_iff (w : World) (d : Path) :
    hasChild w d = true ↔ ∃ nm, (find w (d ++ [nm])).isSome = true := by
  unfold hasChild
  rw [List.any_eq_true]
  constructor
  · rintro ⟨k, hk, hc⟩
    have hne : k ≠ [] := by
      simp only [isChildOf, Bool.and_eq_true, bne_iff_ne, ne_eq] at hc; exact hc.1
    obtain ⟨nm, hnm⟩ : ∃ nm, k.getLast? = some nm := by
      cases h : k.getLast? with
      | none => simp [List.getLast?_eq_none_iff] at h; exact absurd h hne
      | some nm => exact ⟨nm, rfl⟩
    have := (isChildOf_iff d k nm).mp ⟨hc, hnm⟩
    subst this
    exact ⟨nm, (AMap.mem_keys_iff w _).mp hk⟩
  · rintro ⟨nm, h⟩
    exact ⟨d ++ [nm], (AMap.mem_keys_iff w _).mpr h, ((isChildOf_iff d _ nm).mpr rfl).1⟩

/-! ### path resolution along real directories -/

theorem simple_iff (c : String) : simple c = true ↔ c ≠ "" ∧ c ≠ "." ∧ c ≠ ".." := by
  simp [simple, and_assoc]

/-- Resolution is lexical when every intermediate component is an ordinary name naming a real
directory; the final component may be anything when it is not followed, anything but a link when it is. -/
theorem walkSeg_lex (w : World) (fl : Bool) : ∀ (comps : List String) (cur : Path),
    (∀ c ∈ comps, simple c = true) →
    (∀ pre, pre <+: comps → pre ≠ comps → pre ≠ [] → isDir (find w (cur ++ pre)) = true) →
    (fl = false ∨ isLink (find w (cur ++ comps)) = false) →
    walkSeg w fl cur comps = .done (.ok (cur ++ comps)) := by
  intro comps
  induction comps with
  | nil => intro cur _ _ _; simp [walkSeg]
  | cons c rest ih =>
    intro cur hs hd hl
    have hc := (simple_iff c).mp (hs c (by simp))
    have h1 : trivialComp c = false := by simp [trivialComp, hc.1, hc.2.1]
    have h2 : (c == "..") = false := by simp [hc.2.2]
    rw [walkSeg]
    simp only [h1, h2, Bool.false_eq_true, if_false]
    by_cases hr : rest = []
    · subst hr
      cases hf : find w (cur ++ [c]) with
      | none => simp
      | some n =>
        simp only
        cases hk : n.kind with
        | dir => simp [walkSeg]
        | file => simp
        | link =>
          rcases hl with hl | hl
          · simp [hl]
          · simp [hf, isLink, hk] at hl
    · have hdir := hd [c] (by simp) (by simp [hr]) (by simp)
      cases hf : find w (cur ++ [c]) with
      | none => simp [hf, isDir] at hdir
      | some n =>
        have hk : n.kind = .dir := by simpa [hf, isDir] using hdir
        simp only [hk]
        have := ih (cur ++ [c]) (fun c' hc' => hs c' (by simp [hc']))
          (fun pre hp hne hnil => by
            have := hd (c :: pre) (by simpa using hp) (by simpa using hne) (by simp)
            simpa using this)
          (by simpa using hl)
        simpa using this

theorem walk_lex (w : World) (fuel : Nat) (fl : Bool) (comps : List String) (cur : Path)
    (hs : ∀ c ∈ comps, simple c = true)
    (hd : ∀ pre, pre <+: comps → pre ≠ comps → pre ≠ [] → isDir (find w (cur ++ pre)) = true)
    (hl : fl = false ∨ isLink (find w (cur ++ comps)) = false) :
    walk w fuel cur comps fl = .ok (cur ++ comps) := by
  unfold walk
  rw [walkSeg_lex w fl comps cur hs hd hl]

/-- all prefixes of `d` (including `[]` and `d`) are directories and all components ordinary names -/
def LexDir (w : World) (d : Path) : Prop :=
  (∀ c ∈ d, simple c = true) ∧ ∀ pre, pre <+: d → isDir (find w pre) = true

theorem resolve_lexdir {w : World} {d : Path} (h : LexDir w d) (fl : Bool) : resolve w d fl = .ok d := by
  have := walk_lex w maxLinks fl d [] h.1 (fun pre hp _ _ => by simpa using h.2 pre hp)
    (by right; have := h.2 d (List.prefix_refl d); simp only [List.nil_append]
        cases hf : find w d with
        | none => simp [hf, isDir] at this
        | some n => simp only [hf, isDir, beq_iff_eq] at this; simp [isLink, this])
  simpa [resolve] using this

theorem resolve_entry {w : World} {d : Path} (h : LexDir w d) (nm : String) (hs : simple nm = true) (fl : Bool)
    (hl : fl = false ∨ isLink (find w (d ++ [nm])) = false) : resolve w (d ++ [nm]) fl = .ok (d ++ [nm]) := by
  have := walk_lex w maxLinks fl (d ++ [nm]) []
    (fun c hc => by rcases List.mem_append.mp hc with h1 | h1; exact h.1 c h1; simp at h1; subst h1; exact hs)
    (fun pre hp hne _ => by
      have : pre <+: d := by
        rcases List.prefix_concat_iff.mp (by simpa using hp) with h1 | h1
        · exact absurd h1 (by simpa using hne)
        · exact h1
      simpa using h.2 pre this)
    (by simpa using hl)
  simpa [resolve] using this

/-- preservation of `LexDir` when every prefix keeps its node up to mtime -/
theorem LexDir.of_eqv {w w' : World} {d : Path} (h : LexDir w d)
    (he : ∀ pre, pre <+: d → Eqv (find w pre) (find w' pre)) : LexDir w' d :=
  ⟨h.1, fun pre hp => by rw [(he pre hp).isDir]; exact h.2 pre hp⟩

/-! ### entries of a real directory: OS-level operation = physical operation -/

theorem ne_concat (d : Path) (nm : String) : d ≠ d ++ [nm] := by
  intro h; have := congrArg List.length h; simp at this

theorem concat_inj (d : Path) (a b : String) : d ++ [a] = d ++ [b] ↔ a = b := by simp

section entry
variable {w : World} {d : Path} (h : LexDir w d) (nm : String) (hs : simple nm = true)
include h hs

theorem create_entry (mode : Nat) : create w (d ++ [nm]) mode = pCreate w (d ++ [nm]) mode := by
  simp [create, withPath, resolve_entry h nm hs false (Or.inl rfl)]
theorem remove_entry : remove w (d ++ [nm]) = pRemove w (d ++ [nm]) := by
  simp [remove, withPath, resolve_entry h nm hs false (Or.inl rfl)]
theorem symlink_entry (t : List String) : symlink w t (d ++ [nm]) = pSymlink w t (d ++ [nm]) := by
  simp [symlink, withPath, resolve_entry h nm hs false (Or.inl rfl)]
theorem mkdir_entry (mode : Nat) : mkdir w (d ++ [nm]) mode = pMkdir w (d ++ [nm]) mode := by
  simp [mkdir, withPath, resolve_entry h nm hs false (Or.inl rfl)]
theorem utimens_entry (t : Int) : utimensNoFollow w (d ++ [nm]) t = pUtimens w (d ++ [nm]) t := by
  simp [utimensNoFollow, withPath, resolve_entry h nm hs false (Or.inl rfl)]
theorem lstat_entry : lstat w (d ++ [nm]) =
    match find w (d ++ [nm]) with | some n => .ok n | none => .error .noent := by
  simp only [lstat, resolve_entry h nm hs false (Or.inl rfl)]
  cases find w (d ++ [nm]) <;> rfl
theorem append_entry (hl : isLink (find w (d ++ [nm])) = false) (bs : List UInt8) :
    append w (d ++ [nm]) bs = pAppend w (d ++ [nm]) bs := by
  simp [append, withPath, resolve_entry h nm hs true (Or.inr hl)]
theorem openTrunc_entry (hl : isLink (find w (d ++ [nm])) = false) (mode : Nat) :
    openTrunc w (d ++ [nm]) mode = pOpenTrunc w (d ++ [nm]) mode := by
  simp [openTrunc, withPath, resolve_entry h nm hs true (Or.inr hl)]
theorem chmod_entry (hl : isLink (find w (d ++ [nm])) = false) (mode : Nat) :
    chmod w (d ++ [nm]) mode = pChmod w (d ++ [nm]) mode := by
  simp [chmod, withPath, resolve_entry h nm hs true (Or.inr hl)]
theorem stat_entry (hl : isLink (find w (d ++ [nm])) = false) : stat w (d ++ [nm]) =
    match find w (d ++ [nm]) with | some n => .ok n | none => .error .noent := by
  simp only [stat, resolve_entry h nm hs true (Or.inr hl)]
  cases find w (d ++ [nm]) <;> rfl
theorem rename_entry (nm2 : String) (hs2 : simple nm2 = true) :
    rename w (d ++ [nm]) (d ++ [nm2]) = pRename w (d ++ [nm]) (d ++ [nm2]) := by
  simp [rename, resolve_entry h nm hs false (Or.inl rfl), resolve_entry h nm2 hs2 false (Or.inl rfl)]
end entry

theorem readDirNames_lexdir {w : World} {d : Path} (h : LexDir w d) : readDirNames w d = .ok (childNames w d) := by
  have hd := h.2 d (List.prefix_refl d)
  cases hf : find w d with
  | none => simp [hf, isDir] at hd
  | some n =>
    have : n.kind = .dir := by simpa [hf, isDir] using hd
    simp [readDirNames, resolve_lexdir h true, hf, this]

/-! ### `find` after "change entry `d ++ [nm]`, touch `d`" -/

theorem find_insert_touch (w : World) (d : Path) (nm : String) (v : Node) (p : Path) :
    find (touch (AMap.insert w (d ++ [nm]) v) d) p =
      if p = d ++ [nm] then some v else if p = d then (find w d).map clearM else find w p := by
  rw [find_touch]
  by_cases h1 : p = d ++ [nm]
  · subst h1; simp [find_insert]
  · by_cases h2 : p = d
    · subst h2; simp [find_insert, (ne_concat p nm).symm, h1]
    · have : ¬ d = p := fun e => h2 e.symm
      have h3 : ¬ d ++ [nm] = p := fun e => h1 e.symm
      simp [h1, h2, this, find_insert, h3]

theorem find_erase_touch (w : World) (d : Path) (nm : String) (p : Path) :
    find (touch (AMap.erase w (d ++ [nm])) d) p =
      if p = d ++ [nm] then none else if p = d then (find w d).map clearM else find w p := by
  rw [find_touch]
  by_cases h1 : p = d ++ [nm]
  · subst h1; simp [find_erase]
  · by_cases h2 : p = d
    · subst h2; simp [find_erase, (ne_concat p nm).symm, h1]
    · have : ¬ d = p := fun e => h2 e.symm
      have h3 : ¬ d ++ [nm] = p := fun e => h1 e.symm
      simp [h1, h2, this, find_erase, h3]

/-! ### resolution when no component is a symlink: it fails or every directory on the way is real -/

theorem walkSeg_dich (w : World) : ∀ (comps : List String) (cur : Path),
    (∀ c ∈ comps, simple c = true) →
    (∀ pre, pre <+: comps → pre ≠ comps → pre ≠ [] → isLink (find w (cur ++ pre)) = false) →
    (∃ e, walkSeg w false cur comps = .done (.error e)) ∨
    (∀ pre, pre <+: comps → pre ≠ comps → pre ≠ [] → isDir (find w (cur ++ pre)) = true) := by
  intro comps
  induction comps with
  | nil => intro cur _ _; right; intro pre hp hne hnil; simp at hp; exact absurd hp hnil
  | cons c rest ih =>
    intro cur hs hl
    have hc := (simple_iff c).mp (hs c (by simp))
    have h1 : trivialComp c = false := by simp [trivialComp, hc.1, hc.2.1]
    have h2 : (c == "..") = false := by simp [hc.2.2]
    by_cases hr : rest = []
    · subst hr
      right
      intro pre hp hne hnil
      rcases List.prefix_cons_iff.mp hp with e | ⟨t, e, ht⟩
      · exact absurd e hnil
      · simp at ht; subst ht; exact absurd e hne
    · have hre : rest.isEmpty = false := by simpa using hr
      have hlc := hl [c] (by simp) (by simp [hr]) (by simp)
      rw [walkSeg]
      simp only [h1, h2, Bool.false_eq_true, if_false]
      cases hf : find w (cur ++ [c]) with
      | none => left; simp [hre]
      | some n =>
        simp only
        cases hk : n.kind with
        | file => left; simp [hre]
        | link => simp [hf, isLink, hk] at hlc
        | dir =>
          simp only
          rcases ih (cur ++ [c]) (fun c' hc' => hs c' (by simp [hc']))
            (fun pre hp hne hnil => by
              have := hl (c :: pre) (by simpa using hp) (by simpa using hne) (by simp)
              simpa using this) with h | h
          · exact Or.inl h
          · right
            intro pre hp hne hnil
            rcases List.prefix_cons_iff.mp hp with e | ⟨t, e, ht⟩
            · exact absurd e hnil
            · subst e
              by_cases htn : t = []
              · subst htn; simp [hf, isDir, hk]
              · have := h t ht (by simpa using hne) htn
                simpa using this

theorem walk_dich (w : World) (fuel : Nat) (comps : List String) (cur : Path)
    (hs : ∀ c ∈ comps, simple c = true)
    (hl : ∀ pre, pre <+: comps → pre ≠ comps → pre ≠ [] → isLink (find w (cur ++ pre)) = false) :
    (∃ e, walk w fuel cur comps false = .error e) ∨
    (∀ pre, pre <+: comps → pre ≠ comps → pre ≠ [] → isDir (find w (cur ++ pre)) = true) := by
  rcases walkSeg_dich w comps cur hs hl with ⟨e, he⟩ | h
  · left; exact ⟨e, by unfold walk; rw [he]⟩
  · exact Or.inr h

/-- no prefix of `par` (the directories on the way to an entry of `par`) is a symbolic link -/
def NoLinkUpTo (w : World) (par : Path) : Prop := ∀ q, q <+: par → isLink (find w q) = false

theorem LexDir.noLink {w : World} {d : Path} (h : LexDir w d) : NoLinkUpTo w d := by
  intro q hq
  have := h.2 q hq
  cases hf : find w q with
  | none => rfl
  | some n => simp only [hf, isDir, beq_iff_eq] at this; simp [isLink, this]

/-- Either resolving an entry of `par` fails, or `par` is a real directory reached through real directories. -/
theorem resolve_dich {w : World} {par : Path} (hroot : isDir (find w []) = true)
    (hs : ∀ c ∈ par, simple c = true) (hn : NoLinkUpTo w par) (nm : String) (hnm : simple nm = true) :
    (∃ e, resolve w (par ++ [nm]) false = .error e) ∨ LexDir w par := by
  have hpre : ∀ pre, pre <+: par ++ [nm] → pre ≠ par ++ [nm] → pre <+: par := by
    intro pre hp hne
    rcases List.prefix_concat_iff.mp hp with h1 | h1
    · exact absurd h1 hne
    · exact h1
  rcases walk_dich w maxLinks (par ++ [nm]) []
    (fun c hc => by rcases List.mem_append.mp hc with h1 | h1; exact hs c h1; simp at h1; subst h1; exact hnm)
    (fun pre hp hne _ => by simpa using hn pre (hpre pre hp hne)) with h | h
  · exact Or.inl h
  · right
    refine ⟨hs, fun pre hp => ?_⟩
    by_cases hnil : pre = []
    · subst hnil; exact hroot
    · have := h pre (hp.trans (List.prefix_append par [nm])) (by
        intro e; have := hp.length_le; rw [e] at this; simp at this; omega) hnil
      simpa using this

/-- when `par` is not a real directory every non-following operation on an entry of it fails -/
theorem resolve_fails {w : World} {par : Path} (hroot : isDir (find w []) = true)
    (hs : ∀ c ∈ par, simple c = true) (hn : NoLinkUpTo w par) (hnl : ¬ LexDir w par)
    (nm : String) (hnm : simple nm = true) : ∃ e, resolve w (par ++ [nm]) false = .error e := by
  rcases resolve_dich hroot hs hn nm hnm with h | h
  · exact h
  · exact absurd h hnl

/-! ### steps inside one directory -/

/-- `w'` differs from `w` at most in the entries `par ++ [nm]`, `nm ∈ S`, and in the mtime of `par` -/
structure EStep (par : Path) (S : List String) (w w' : World) : Prop where
  frame : ∀ q, (∀ nm ∈ S, q ≠ par ++ [nm]) → q ≠ par → find w' q = find w q
  parent : Eqv (find w par) (find w' par)

theorem EStep.refl (par : Path) (S : List String) (w : World) : EStep par S w w := ⟨fun _ _ _ => rfl, Eqv.refl _⟩

theorem EStep.trans {par : Path} {S S' : List String} {w w' w'' : World} (h1 : EStep par S w w') (h2 : EStep par S' w' w'') :
    EStep par (S ++ S') w w'' :=
  ⟨fun q hq hp => by
    rw [h2.frame q (fun nm hm => hq nm (List.mem_append_right _ hm)) hp,
        h1.frame q (fun nm hm => hq nm (List.mem_append_left _ hm)) hp],
   h1.parent.trans h2.parent⟩

theorem EStep.mono {par : Path} {S S' : List String} {w w' : World} (h : EStep par S w w') (hs : ∀ a ∈ S, a ∈ S') :
    EStep par S' w w' := ⟨fun q hq hp => h.frame q (fun nm hm => hq nm (hs nm hm)) hp, h.parent⟩

/-- nodes that are not an entry in `S` keep their kind -/
theorem EStep.eqv {par : Path} {S : List String} {w w' : World} (h : EStep par S w w') (q : Path)
    (hq : ∀ nm ∈ S, q ≠ par ++ [nm]) : Eqv (find w q) (find w' q) := by
  by_cases e : q = par
  · subst e; exact h.parent
  · exact Eqv.of_eq (h.frame q hq e)

theorem EStep.lexDir {par : Path} {S : List String} {w w' : World} (h : EStep par S w w') {d : Path}
    (hd : LexDir w d) (hp : d <+: par) : LexDir w' d :=
  hd.of_eqv fun pre hpre => h.eqv pre (fun nm _ e => by
    have := (hpre.trans hp).length_le; rw [e] at this; simp at this; omega)

theorem estep_insert_touch (w : World) (par : Path) (nm : String) (v : Node) :
    EStep par [nm] w (touch (AMap.insert w (par ++ [nm]) v) par) :=
  ⟨fun q hq hp => by rw [find_insert_touch]; simp [hq nm (by simp), hp],
   by rw [find_insert_touch]; simp only [(ne_concat par nm), if_false, if_true]
      unfold Eqv; cases find w par <;> simp [clearM]⟩

theorem estep_erase_touch (w : World) (par : Path) (nm : String) :
    EStep par [nm] w (touch (AMap.erase w (par ++ [nm])) par) :=
  ⟨fun q hq hp => by rw [find_erase_touch]; simp [hq nm (by simp), hp],
   by rw [find_erase_touch]; simp only [(ne_concat par nm), if_false, if_true]
      unfold Eqv; cases find w par <;> simp [clearM]⟩

theorem estep_insert (w : World) (par : Path) (nm : String) (v : Node) :
    EStep par [nm] w (AMap.insert w (par ++ [nm]) v) :=
  ⟨fun q hq _ => by
      rw [find_insert]; have := hq nm (by simp)
      have h2 : ¬ par ++ [nm] = q := fun e => this e.symm
      simp [h2],
   by rw [find_insert]; simp [(ne_concat par nm).symm, Eqv.refl]⟩

/-- `find` after renaming the non-directory `par/a` to `par/b` -/
theorem find_rename_touch (w : World) (par : Path) (a b : String) (n : Node) (p : Path) :
    find (touch (touch (AMap.insert (AMap.erase w (par ++ [a])) (par ++ [b]) n) par) par) p =
      if p = par ++ [b] then some n else if p = par ++ [a] then none
      else if p = par then (find w par).map clearM else find w p := by
  rw [find_touch, find_insert_touch, find_insert_touch]
  by_cases h1 : p = par ++ [b]
  · subst h1; simp [ne_concat]
  · by_cases h3 : p = par
    · subst h3
      simp only [(ne_concat p b).symm, (ne_concat p a).symm, if_false, if_true, find_erase]
      cases find w p <;> simp [clearM]
    · have h3' : ¬ par = p := fun e => h3 e.symm
      simp only [h1, h3, h3', if_false, find_erase]
      by_cases h2 : p = par ++ [a]
      · subst h2; simp
      · have : ¬ par ++ [a] = p := fun e => h2 e.symm
        simp [h2, this]

theorem pRename_file_absent (w : World) (par : Path) (a b : String) (hne : a ≠ b) (n : Node)
    (hf : find w (par ++ [a]) = some n) (hk : n.kind ≠ .dir) (hd : find w (par ++ [b]) = none) :
    pRename w (par ++ [a]) (par ++ [b]) =
      (touch (touch (AMap.insert (AMap.erase w (par ++ [a])) (par ++ [b]) n) par) par, none) := by
  have h1 : (par ++ [a] == par ++ [b]) = false := by simpa using hne
  have h2 : (par ++ [a]).isPrefixOf (par ++ [b]) = false := by
    rw [Bool.eq_false_iff]; intro h
    rw [List.isPrefixOf_iff_prefix] at h
    have := List.IsPrefix.eq_of_length h (by simp)
    exact hne (by simpa using this)
  have h3 : (n.kind == Kind.dir) = false := by simpa using hk
  unfold pRename
  simp [hf, h1, h2, h3, hd]

end FS
