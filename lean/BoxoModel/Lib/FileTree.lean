/-
Lib/FileTree — the UnixFS *file* DAG as a tree (shared by C07, C08, C09, C10).  Core-only.

A UnixFS file is either
  * a leaf: a `RawNode` or a dag-pb node of type `File`/`Raw` WITHOUT links, carrying `data`; or
  * an internal node: a dag-pb `File` node with links; link `i` points to child `i` and the node's
    UnixFS `blocksizes[i]` records the file size of that child (the `Nat` of the pair); the node's own
    UnixFS `filesize` field is stored separately (`filesize`; `AddBlockSize` keeps it equal to the sum).
Internal nodes carry no file bytes of their own (balanced/trickle builders, DagModifier) and the Go reader
skips whatever `Data` an internal node has, so none is modelled.  `node _ []` behaves as an empty leaf
(a dag-pb `File` node without links and without data).

Owner: C09 (b-chunk).  Keep this file minimal and stable; put further lemmas in your own property files.
-/
namespace FileTree

inductive FNode where
  | leaf (data : List UInt8)
  | node (filesize : Nat) (children : List (FNode × Nat))
  deriving Inhabited

mutual
/-- The bytes of the file: concatenation of the leaves, left to right. -/
def content : FNode → List UInt8
  | .leaf d => d
  | .node _ cs => contentL cs
/-- `content` of a list of (child, recorded size) pairs, concatenated. -/
def contentL : List (FNode × Nat) → List UInt8
  | [] => []
  | c :: r => content c.1 ++ contentL r
end

/-- Sum of the recorded block sizes of a child list (what `FSNode.FileSize()` adds up). -/
def recSum : List (FNode × Nat) → Nat
  | [] => 0
  | c :: r => c.2 + recSum r

/-- `FSNode.FileSize()` / `len(RawData())` of the node itself: data length of a leaf, the RECORDED
`filesize` field of an internal node (not the true content length unless `wellSized`). -/
def size : FNode → Nat
  | .leaf d => d.length
  | .node fs _ => fs

mutual
/-- at every level: the recorded `filesize` is the sum of the recorded block sizes and every recorded
block size equals the `size` of the child it describes -/
def wellSized : FNode → Bool
  | .leaf _ => true
  | .node fs cs => fs == recSum cs && wellSizedL cs
def wellSizedL : List (FNode × Nat) → Bool
  | [] => true
  | c :: r => (c.2 == size c.1 && wellSized c.1) && wellSizedL r
end

mutual
/-- number of leaves (`node _ []` counts as one, it is read as an empty leaf) -/
def leaves : FNode → Nat
  | .leaf _ => 1
  | .node _ [] => 1
  | .node _ (c :: r) => leaves c.1 + leavesL r
def leavesL : List (FNode × Nat) → Nat
  | [] => 0
  | c :: r => leaves c.1 + leavesL r
end

@[simp] theorem content_leaf (d : List UInt8) : content (.leaf d) = d := by simp [content]
@[simp] theorem content_node (fs : Nat) (cs : List (FNode × Nat)) : content (.node fs cs) = contentL cs := by
  simp [content]
@[simp] theorem contentL_nil : contentL [] = [] := by simp [contentL]
@[simp] theorem contentL_cons (c : FNode × Nat) (r : List (FNode × Nat)) :
    contentL (c :: r) = content c.1 ++ contentL r := by simp [contentL]
@[simp] theorem size_leaf (d : List UInt8) : size (.leaf d) = d.length := rfl
@[simp] theorem size_node (fs : Nat) (cs : List (FNode × Nat)) : size (.node fs cs) = fs := rfl
@[simp] theorem recSum_nil : recSum [] = 0 := rfl
@[simp] theorem recSum_cons (c : FNode × Nat) (r : List (FNode × Nat)) : recSum (c :: r) = c.2 + recSum r := rfl
@[simp] theorem wellSized_leaf (d : List UInt8) : wellSized (.leaf d) = true := by simp [wellSized]
@[simp] theorem wellSized_node (fs : Nat) (cs : List (FNode × Nat)) :
    wellSized (.node fs cs) = (fs == recSum cs && wellSizedL cs) := by simp [wellSized]
@[simp] theorem wellSizedL_nil : wellSizedL [] = true := by simp [wellSizedL]
@[simp] theorem wellSizedL_cons (c : FNode × Nat) (r : List (FNode × Nat)) :
    wellSizedL (c :: r) = ((c.2 == size c.1 && wellSized c.1) && wellSizedL r) := by simp [wellSizedL]

theorem contentL_append (a b : List (FNode × Nat)) : contentL (a ++ b) = contentL a ++ contentL b := by
  induction a with
  | nil => simp
  | cons c r ih => simp [ih]

theorem recSum_append (a b : List (FNode × Nat)) : recSum (a ++ b) = recSum a + recSum b := by
  induction a with
  | nil => simp
  | cons c r ih => simp [ih]; omega

theorem wellSizedL_append (a b : List (FNode × Nat)) :
    wellSizedL (a ++ b) = (wellSizedL a && wellSizedL b) := by
  induction a with
  | nil => simp
  | cons c r ih => simp [ih, Bool.and_assoc]

mutual
/-- In a well-sized tree the recorded size is the true content length. -/
theorem size_eq_of_wellSized : (t : FNode) → wellSized t = true → size t = (content t).length
  | .leaf d, _ => by simp
  | .node fs cs, h => by
    simp only [wellSized_node, Bool.and_eq_true, beq_iff_eq] at h
    have := recSum_eq_of_wellSizedL cs h.2
    simp only [size_node, content_node]
    omega
theorem recSum_eq_of_wellSizedL : (cs : List (FNode × Nat)) → wellSizedL cs = true →
    recSum cs = (contentL cs).length
  | [], _ => by simp
  | c :: r, h => by
    simp only [wellSizedL_cons, Bool.and_eq_true, beq_iff_eq] at h
    have h1 := size_eq_of_wellSized c.1 h.1.2
    have h2 := recSum_eq_of_wellSizedL r h.2
    simp only [recSum_cons, contentL_cons, List.length_append]
    omega
end

end FileTree
