import BoxoModel.Lib.AMap
/-!
Lib.FS — a tiny POSIX-like file-system model (shared by C38, C45; usable by C40, C41).  Core-only.

A world is a flat association list `physical path ↦ inode` (`AMap.Map Path Node`); a physical path is
the list of directory-entry names from the model root `[]` (which is always a directory).  On top of
it the OS-level operations resolve their path argument the way the kernel does (`walk`): every
intermediate symbolic link is followed, `..` is the *physical* parent, the final component is followed
or not depending on the call (`lstat`, `remove`, `rename`, `symlink`, `mkdir`, `utimensNoFollow`,
exclusive `create` do not follow; `stat`, `chmod`, `openTrunc`, `readFile`, `readDir` do), at most
`maxLinks` link expansions (ELOOP).

What is modelled: kinds (file / dir / symlink), permission bits, file bytes, raw link targets, and the
modification time as `Option Int` (seconds, may be negative) — `some t` after an explicit `utimens`, `none` = "set by the kernel to
the current time during the run" (creating / removing / renaming an entry touches the parent directory,
writing touches the file).  Not modelled: owners, access checks (the harnesses run as one user on their
own temp dir), atime/ctime, hard links, open file descriptors (a file is addressed by path for every
write, correct while nobody renames it concurrently), ENAMETOOLONG, a trailing `/` or `/.` in paths.

Byte-granular writes: `openTrunc` (create or truncate) followed by `append` of single bytes; a crash is
any prefix of such a step sequence (see C45).

Owner: b-fs (C38/C45).  Lemmas are in `Lib/FSLemmas.lean`.
-/
namespace FS

abbrev Path := List String

inductive Kind where
  | file | dir | link
  deriving DecidableEq, Repr, Inhabited

inductive Errno where
  | noent | exist | notdir | isdir | notempty | loop | inval | busy
  deriving DecidableEq, Repr, Inhabited

structure Node where
  kind : Kind
  mode : Nat := 0o644
  mtime : Option Int := none
  data : List UInt8 := []
  /-- raw link target split at `/` (Go `strings.Split`): absolute iff the first element is `""` -/
  target : List String := []
  deriving DecidableEq, Repr, Inhabited

abbrev World := AMap.Map Path Node

def find (w : World) (p : Path) : Option Node := AMap.find w p

def dirNode (mode : Nat) : Node := { kind := .dir, mode := mode }
def fileNode (mode : Nat) (data : List UInt8 := []) : Node := { kind := .file, mode := mode, data := data }
def linkNode (target : List String) : Node := { kind := .link, mode := 0o777, target := target }

/-- the world containing only the root directory -/
def empty : World := [([], dirNode 0o755)]

def isDir (o : Option Node) : Bool := match o with | some n => n.kind == .dir | none => false
def isLink (o : Option Node) : Bool := match o with | some n => n.kind == .link | none => false
def isFile (o : Option Node) : Bool := match o with | some n => n.kind == .file | none => false

/-- the kernel sets the mtime of `d` to "now" -/
def touch (w : World) (d : Path) : World :=
  match find w d with
  | some n => AMap.insert w d { n with mtime := none }
  | none => w

def isChildOf (p q : Path) : Bool := q != [] && q.dropLast == p

def hasChild (w : World) (p : Path) : Bool := (AMap.keys w).any (isChildOf p)

/-- names of the entries of the directory at physical path `p` (unsorted, without repetition) -/
def dedup : List String → List String
  | [] => []
  | a :: l => if a ∈ dedup l then dedup l else a :: dedup l

def childNames (w : World) (p : Path) : List String :=
  dedup (((AMap.keys w).filter (isChildOf p)).filterMap List.getLast?)

def maxLinks : Nat := 40

def trivialComp (c : String) : Bool := c == "" || c == "."

/-- an ordinary entry name: not empty, not `.`, not `..` -/
def simple (c : String) : Bool := !(c == "" || c == "." || c == "..")

/-- outcome of walking one segment (the components up to the next symlink expansion) -/
inductive Seg where
  | done (r : Except Errno Path)
  | expand (cur : Path) (comps : List String)

/-- Walks `comps` from the directory `cur` until the end or until a symbolic link has to be expanded
(structural on `comps`).  `fl` = follow a symlink in the final position. -/
def walkSeg (w : World) (fl : Bool) : Path → List String → Seg
  | cur, [] => .done (.ok cur)
  | cur, c :: rest =>
    if trivialComp c then walkSeg w fl cur rest
    else if c == ".." then walkSeg w fl cur.dropLast rest
    else
      let q := cur ++ [c]
      match find w q with
      | none => if rest.isEmpty then .done (.ok q) else .done (.error .noent)
      | some n =>
        match n.kind with
        | .dir => walkSeg w fl q rest
        | .file => if rest.isEmpty then .done (.ok q) else .done (.error .notdir)
        | .link =>
          if rest.isEmpty && !fl then .done (.ok q)
          else if n.target.head? == some "" then .expand [] (n.target ++ rest)
          else .expand cur (n.target ++ rest)

/-- Path resolution.  `cur` is the physical path of the directory reached so far, `comps` what is left.
Returns the physical path of the object named; that object may be absent when only its last component
is missing (the callers decide between ENOENT and creating it).  `fuel` = remaining symlink expansions
(ELOOP when exhausted).  Structural on `fuel`, so concrete resolutions evaluate in the kernel. -/
def walk (w : World) : Nat → Path → List String → Bool → Except Errno Path
  | fuel, cur, comps, fl =>
    match walkSeg w fl cur comps with
    | .done r => r
    | .expand c cs =>
      match fuel with
      | 0 => .error .loop
      | fuel' + 1 => walk w fuel' c cs fl

/-- resolve an absolute path (components from the model root) -/
def resolve (w : World) (p : Path) (fl : Bool) : Except Errno Path := walk w maxLinks [] p fl

abbrev Res := World × Option Errno

/-! ### physical operations (no path resolution; `q` is a physical path whose parent is a directory) -/

/-- a directory created inside a set-group-ID directory inherits that bit (Linux) -/
def inheritedBits (w : World) (parent : Path) : Nat :=
  match find w parent with
  | some n => n.mode &&& 0o2000
  | none => 0

def pMkdir (w : World) (q : Path) (mode : Nat) : Res :=
  if (find w q).isSome then (w, some .exist)
  else (touch (AMap.insert w q (dirNode (mode ||| inheritedBits w q.dropLast))) q.dropLast, none)

def pRemove (w : World) (q : Path) : Res :=
  match find w q with
  | none => (w, some .noent)
  | some n =>
    if q == [] then (w, some .busy)
    else if n.kind == .dir && hasChild w q then (w, some .notempty)
    else (touch (AMap.erase w q) q.dropLast, none)

def pSymlink (w : World) (target : List String) (q : Path) : Res :=
  if target == [] || target == [""] then (w, some .noent)
  else if (find w q).isSome then (w, some .exist)
  else (touch (AMap.insert w q (linkNode target)) q.dropLast, none)

/-- `open(O_CREAT|O_EXCL)` -/
def pCreate (w : World) (q : Path) (mode : Nat) : Res :=
  if (find w q).isSome then (w, some .exist)
  else (touch (AMap.insert w q (fileNode mode)) q.dropLast, none)

/-- `open(O_CREAT|O_TRUNC)` on the already resolved path -/
def pOpenTrunc (w : World) (q : Path) (mode : Nat) : Res :=
  match find w q with
  | none => (touch (AMap.insert w q (fileNode mode)) q.dropLast, none)
  | some n =>
    match n.kind with
    | .file => (AMap.insert w q { n with data := [], mtime := none }, none)
    | .dir => (w, some .isdir)
    | .link => (w, some .loop)   -- unreachable after a following walk

def pAppend (w : World) (q : Path) (bytes : List UInt8) : Res :=
  match find w q with
  | some n => if n.kind == .file then (AMap.insert w q { n with data := n.data ++ bytes, mtime := none }, none)
              else (w, some .isdir)
  | none => (w, some .noent)

/-- move the whole subtree rooted at `s` to `d` -/
def moveTree (w : World) (s d : Path) : World :=
  w.filterMap fun (k, n) =>
    if s.isPrefixOf k then some (d ++ k.drop s.length, n)
    else if d.isPrefixOf k then none
    else some (k, n)

def pRename (w : World) (s d : Path) : Res :=
  match find w s with
  | none => (w, some .noent)
  | some n =>
    if s == d then (w, none)
    else if s == [] || d == [] then (w, some .busy)
    else if s.isPrefixOf d then (w, some .inval)
    else
      let go (_ : Unit) : Res :=
        if n.kind == .dir then (touch (touch (moveTree w s d) s.dropLast) d.dropLast, none)
        else (touch (touch (AMap.insert (AMap.erase w s) d n) s.dropLast) d.dropLast, none)
      match find w d with
      | none => go ()
      | some m =>
        if n.kind == .dir then
          if m.kind != .dir then (w, some .notdir)
          else if hasChild w d then (w, some .notempty)
          else go ()
        else if m.kind == .dir then (w, some .isdir)
        else go ()

def pChmod (w : World) (q : Path) (mode : Nat) : Res :=
  match find w q with
  | none => (w, some .noent)
  | some n => (AMap.insert w q { n with mode := mode }, none)

def pUtimens (w : World) (q : Path) (t : Int) : Res :=
  match find w q with
  | none => (w, some .noent)
  | some n => (AMap.insert w q { n with mtime := some t }, none)

/-! ### OS-level operations (absolute path = components from the model root) -/

def lstat (w : World) (p : Path) : Except Errno Node :=
  match resolve w p false with
  | .error e => .error e
  | .ok q => match find w q with | some n => .ok n | none => .error .noent

def stat (w : World) (p : Path) : Except Errno Node :=
  match resolve w p true with
  | .error e => .error e
  | .ok q => match find w q with | some n => .ok n | none => .error .noent

def withPath (w : World) (p : Path) (fl : Bool) (f : Path → Res) : Res :=
  match resolve w p fl with
  | .error e => (w, some e)
  | .ok q => f q

def mkdir (w : World) (p : Path) (mode : Nat) : Res := withPath w p false (pMkdir w · mode)
def remove (w : World) (p : Path) : Res := withPath w p false (pRemove w ·)
def symlink (w : World) (target : List String) (p : Path) : Res := withPath w p false (pSymlink w target ·)
def create (w : World) (p : Path) (mode : Nat) : Res := withPath w p false (pCreate w · mode)
def openTrunc (w : World) (p : Path) (mode : Nat) : Res := withPath w p true (pOpenTrunc w · mode)
def append (w : World) (p : Path) (bytes : List UInt8) : Res := withPath w p true (pAppend w · bytes)
/-- `chmod(2)`: FOLLOWS a symbolic link in the final position -/
def chmod (w : World) (p : Path) (mode : Nat) : Res := withPath w p true (pChmod w · mode)
/-- `utimensat(AT_SYMLINK_NOFOLLOW)` -/
def utimensNoFollow (w : World) (p : Path) (t : Int) : Res := withPath w p false (pUtimens w · t)

def rename (w : World) (src dst : Path) : Res :=
  match resolve w src false with
  | .error e => (w, some e)
  | .ok s =>
    match resolve w dst false with
    | .error e => (w, some e)
    | .ok d => pRename w s d

def readFile (w : World) (p : Path) : Except Errno (List UInt8) :=
  match stat w p with
  | .error e => .error e
  | .ok n => match n.kind with
    | .file => .ok n.data
    | .dir => .error .isdir
    | .link => .error .loop

/-- entry names of a directory (following a final symlink), in no particular order -/
def readDirNames (w : World) (p : Path) : Except Errno (List String) :=
  match resolve w p true with
  | .error e => .error e
  | .ok q => match find w q with
    | none => .error .noent
    | some n => if n.kind == .dir then .ok (childNames w q) else .error .notdir

/-- Go's `os.MkdirAll(path, perm)` (go1.25 `os/path.go`), transcribed: fast path `Stat`, recursion on
the parent, `Mkdir`, and the `Lstat` double check on error.  Structural on the path length. -/
def mkdirAllAux (w : World) (mode : Nat) : Nat → Path → Res
  | 0, _ => (w, some .inval)
  | fuel + 1, p =>
    match stat w p with
    | .ok n => if n.kind == .dir then (w, none) else (w, some .notdir)
    | .error _ =>
      let r1 : Res := if p.length > 1 then mkdirAllAux w mode fuel p.dropLast else (w, none)
      match r1.2 with
      | some e => (r1.1, some e)
      | none =>
        let r2 := mkdir r1.1 p mode
        match r2.2 with
        | none => r2
        | some e =>
          match lstat r2.1 p with
          | .ok n => if n.kind == .dir then (r2.1, none) else (r2.1, some e)
          | .error _ => (r2.1, some e)

def mkdirAll (w : World) (p : Path) (mode : Nat) : Res := mkdirAllAux w mode (p.length + 1) p

/-! ### byte-granular write traces (crash points) -/

/-- the worlds visited while appending `bytes` one at a time to the file at `p` (the last one is the
final state); stops at the first error -/
def appendTrace (w : World) (p : Path) : List UInt8 → List World
  | [] => []
  | b :: bs =>
    let r := append w p [b]
    match r.2 with
    | some _ => []
    | none => r.1 :: appendTrace r.1 p bs

/-- well-formedness: the root is a directory and the parent of every entry is a directory -/
def WF (w : World) : Prop :=
  isDir (find w []) = true ∧ ∀ p, p ≠ [] → (find w p).isSome = true → isDir (find w p.dropLast) = true

end FS
