/-!
# LockOrder — ranked acquisition of Go `sync.Mutex` / `sync.RWMutex` locks cannot deadlock

Threads run programs (lists of `acq l m` / `rel l`). Locks follow Go's `sync.RWMutex`:
* `Lock()` first *announces* the writer (from then on new `RLock()` calls block — writer preference),
  then waits until nobody holds the lock in any mode;
* `RLock()` succeeds iff no writer holds the lock and no writer has announced itself on it;
* `Unlock()/RUnlock()` never block.
A `sync.Mutex` is an `RWMutex` only ever taken in write mode.

`Ranked`: every thread only acquires locks whose rank is strictly above the rank of every lock it
holds (so it never re-acquires a lock it holds, in any mode), releases only what it holds and ends
holding nothing. Theorem `ranked_no_deadlock`: a ranked system, in ANY state reached by ANY interleaving,
is never deadlocked (if some thread has not finished, some thread can take a step). Any number of
threads, locks, any programs. Core Lean only.
-/
namespace LockOrder

inductive Mode where
  | R | W
  deriving DecidableEq, Repr

inductive Act where
  | acq (l : Nat) (m : Mode)
  | pendW (l : Nat)          -- a `Lock()` call that has announced itself and waits for the holders to leave
  | rel (l : Nat)
  deriving DecidableEq, Repr

structure Thread where
  held : List (Nat × Mode)   -- locks currently held, most recent first
  prog : List Act            -- what remains to be executed
  deriving Repr

abbrev Sys := List Thread

/-- some thread holds `l` (in any mode) -/
def heldBy (s : Sys) (l : Nat) : Bool := s.any fun t => t.held.any fun h => h.1 == l
/-- some thread holds `l` in write mode -/
def wHeldBy (s : Sys) (l : Nat) : Bool := s.any fun t => t.held.any fun h => h.1 == l && h.2 == .W
/-- some writer has announced itself on `l` -/
def pendingW (s : Sys) (l : Nat) : Bool := s.any fun t => t.prog.head? == some (.pendW l)

/-- erase the first entry for lock `l` -/
def dropLock (l : Nat) : List (Nat × Mode) → List (Nat × Mode)
  | [] => []
  | h :: hs => if h.1 == l then hs else h :: dropLock l hs

/-- the step thread `t` can take in system `s` (`none` = blocked or finished) -/
def tstep (s : Sys) (t : Thread) : Option Thread :=
  match t.prog with
  | [] => none
  | .acq l .W :: p => some { t with prog := .pendW l :: p }
  | .pendW l :: p => if heldBy s l then none else some { held := (l, .W) :: t.held, prog := p }
  | .acq l .R :: p => if wHeldBy s l || pendingW s l then none else some { held := (l, .R) :: t.held, prog := p }
  | .rel l :: p => some { held := dropLock l t.held, prog := p }

/-- thread `i` takes its step -/
def step (s : Sys) (i : Nat) : Option Sys :=
  match s[i]? with
  | none => none
  | some t => (tstep s t).map fun t' => s.set i t'

def finished (s : Sys) : Bool := s.all fun t => t.prog.isEmpty
def Deadlocked (s : Sys) : Prop := finished s = false ∧ ∀ t ∈ s, tstep s t = none

inductive Reach (s0 : Sys) : Sys → Prop where
  | refl : Reach s0 s0
  | step {s s' : Sys} (i : Nat) : Reach s0 s → step s i = some s' → Reach s0 s'

/-! ### the discipline -/

/-- `rank` is strictly increasing along the acquisitions relative to what is held; releases are of held
locks; the program ends holding nothing. -/
def RankedFrom (rank : Nat → Nat) : List Nat → List Act → Prop
  | held, [] => held = []
  | held, .acq l _ :: p => (∀ h ∈ held, rank h < rank l) ∧ RankedFrom rank (l :: held) p
  | held, .pendW l :: p => (∀ h ∈ held, rank h < rank l) ∧ RankedFrom rank (l :: held) p
  | held, .rel l :: p => l ∈ held ∧ RankedFrom rank (held.erase l) p

def Ranked (rank : Nat → Nat) (s : Sys) : Prop :=
  ∀ t ∈ s, RankedFrom rank (t.held.map (·.1)) t.prog

instance (rank : Nat → Nat) : (held : List Nat) → (p : List Act) → Decidable (RankedFrom rank held p)
  | held, [] => by unfold RankedFrom; exact inferInstance
  | held, .acq l _ :: p => by
      unfold RankedFrom
      have := instDecidableRankedFrom rank (l :: held) p
      exact inferInstance
  | held, .pendW l :: p => by
      unfold RankedFrom
      have := instDecidableRankedFrom rank (l :: held) p
      exact inferInstance
  | held, .rel l :: p => by
      unfold RankedFrom
      have := instDecidableRankedFrom rank (held.erase l) p
      exact inferInstance


/-! ### preservation -/

theorem dropLock_map (l : Nat) (hs : List (Nat × Mode)) :
    (dropLock l hs).map (·.1) = (hs.map (·.1)).erase l := by
  induction hs with
  | nil => simp [dropLock]
  | cons h hs ih =>
    simp only [dropLock, List.map_cons]
    by_cases hl : h.1 = l
    · simp [hl]
    · have : (h.1 == l) = false := by simpa using hl
      simp [this, List.erase_cons, ih]

theorem rankedFrom_tstep {rank : Nat → Nat} {s : Sys} {t t' : Thread}
    (h : RankedFrom rank (t.held.map (·.1)) t.prog) (hs : tstep s t = some t') :
    RankedFrom rank (t'.held.map (·.1)) t'.prog := by
  unfold tstep at hs
  split at hs
  · simp at hs
  · simp at hs; subst hs
    rename_i l p hp
    rw [hp] at h
    simpa [RankedFrom] using h
  · rename_i l p hp
    split at hs
    · simp at hs
    · simp at hs; subst hs
      rw [hp] at h
      simpa [RankedFrom] using h.2
  · rename_i l p hp
    split at hs
    · simp at hs
    · simp at hs; subst hs
      rw [hp] at h
      simpa [RankedFrom] using h.2
  · rename_i l p hp
    simp at hs; subst hs
    rw [hp] at h
    simp only [RankedFrom] at h
    simpa [dropLock_map] using h.2

theorem ranked_step {rank : Nat → Nat} {s s' : Sys} {i : Nat} (h : Ranked rank s) (hs : step s i = some s') :
    Ranked rank s' := by
  unfold step at hs
  split at hs
  · simp at hs
  · rename_i t ht
    cases hts : tstep s t with
    | none => simp [hts] at hs
    | some t' =>
      simp [hts] at hs; subst hs
      intro u hu
      rcases List.mem_or_eq_of_mem_set hu with hu | hu
      · exact h u hu
      · subst hu
        exact rankedFrom_tstep (h t (List.mem_of_getElem? ht)) hts

theorem ranked_reach {rank : Nat → Nat} {s0 s : Sys} (h0 : Ranked rank s0) (hr : Reach s0 s) : Ranked rank s := by
  induction hr with
  | refl => exact h0
  | step i _ hs ih => exact ranked_step ih hs

/-! ### no deadlock -/

/-- all locks held by anybody -/
def allHeld (s : Sys) : List Nat := s.flatMap fun t => t.held.map (·.1)

theorem heldBy_mem {s : Sys} {l : Nat} (h : heldBy s l = true) : l ∈ allHeld s := by
  simp only [heldBy, List.any_eq_true] at h
  obtain ⟨t, ht, x, hx, hxl⟩ := h
  simp only [allHeld, List.mem_flatMap, List.mem_map]
  exact ⟨t, ht, x, hx, by simpa using hxl⟩

theorem wHeldBy_mem {s : Sys} {l : Nat} (h : wHeldBy s l = true) : l ∈ allHeld s := by
  simp only [wHeldBy, List.any_eq_true] at h
  obtain ⟨t, ht, x, hx, hxl⟩ := h
  simp only [allHeld, List.mem_flatMap, List.mem_map]
  exact ⟨t, ht, x, hx, by simp at hxl; exact hxl.1⟩

theorem exists_max (rank : Nat → Nat) : ∀ (xs : List Nat), xs ≠ [] → ∃ m ∈ xs, ∀ x ∈ xs, rank x ≤ rank m
  | [], h => absurd rfl h
  | [a], _ => ⟨a, by simp, by simp⟩
  | a :: b :: r, _ => by
    obtain ⟨m, hm, hmax⟩ := exists_max rank (b :: r) (by simp)
    by_cases hc : rank m ≤ rank a
    · exact ⟨a, by simp, fun x hx => by
        rcases List.mem_cons.1 hx with rfl | hx
        · exact Nat.le_refl _
        · exact Nat.le_trans (hmax x hx) hc⟩
    · exact ⟨m, List.mem_cons_of_mem _ hm, fun x hx => by
        rcases List.mem_cons.1 hx with rfl | hx
        · omega
        · exact hmax x hx⟩

/-- In a state where every thread is blocked, a thread waiting for `l` (as an announced writer or as a
reader) witnesses that `l` is held by somebody. -/
theorem blocked_means_held {s : Sys} (hall : ∀ t ∈ s, tstep s t = none) {t : Thread} (ht : t ∈ s) {l : Nat}
    {p : List Act} (hp : t.prog = .pendW l :: p ∨ t.prog = .acq l .R :: p) : l ∈ allHeld s := by
  have hpend : ∀ u ∈ s, ∀ q, u.prog = .pendW l :: q → l ∈ allHeld s := by
    intro u hu q hq
    have := hall u hu
    simp only [tstep, hq] at this
    split at this
    · rename_i hh; exact heldBy_mem hh
    · simp at this
  rcases hp with hp | hp
  · exact hpend t ht p hp
  · have := hall t ht
    simp only [tstep, hp] at this
    split at this
    · rename_i hh
      simp only [Bool.or_eq_true] at hh
      rcases hh with hh | hh
      · exact wHeldBy_mem hh
      · simp only [pendingW, List.any_eq_true] at hh
        obtain ⟨u, hu, huh⟩ := hh
        cases hq : u.prog with
        | nil => simp [hq] at huh
        | cons a q =>
          simp [hq] at huh
          subst huh
          exact hpend u hu q hq
    · simp at this

/-- **Ranked, non-re-entrant acquisition cannot deadlock** (any number of threads and locks, Go's
writer-preferring RWMutex semantics): if some thread has not finished, some thread can step. -/
theorem ranked_no_deadlock {rank : Nat → Nat} {s : Sys} (h : Ranked rank s) : ¬ Deadlocked s := by
  rintro ⟨hfin, hall⟩
  -- a thread that is not finished and whose held locks all have rank ≤ that of everything it may wait for
  have key : ∀ t ∈ s, t.prog ≠ [] →
      (∀ x ∈ allHeld s, ∃ y ∈ t.held.map (·.1), rank x ≤ rank y) ∨ allHeld s = [] → False := by
    intro t ht hne hmax
    have hr := h t ht
    have hb := hall t ht
    cases hp : t.prog with
    | nil => exact hne hp
    | cons a p =>
      cases a with
      | acq l m =>
        cases m with
        | W => simp [tstep, hp] at hb
        | R =>
          have hl := blocked_means_held hall ht (Or.inr hp)
          rw [hp] at hr
          rcases hmax with hmax | hmax
          · obtain ⟨y, hy, hxy⟩ := hmax l hl
            have := hr.1 y hy
            omega
          · rw [hmax] at hl; simp at hl
      | pendW l =>
        have hl := blocked_means_held hall ht (Or.inl hp)
        rw [hp] at hr
        rcases hmax with hmax | hmax
        · obtain ⟨y, hy, hxy⟩ := hmax l hl
          have := hr.1 y hy
          omega
        · rw [hmax] at hl; simp at hl
      | rel l => simp [tstep, hp] at hb
  by_cases hnil : allHeld s = []
  · -- nobody holds anything: any unfinished thread can move
    simp only [finished, List.all_eq_false] at hfin
    obtain ⟨t, ht, hne⟩ := hfin
    exact key t ht (by intro hh; simp [hh] at hne) (Or.inr hnil)
  · obtain ⟨m, hm, hmax⟩ := exists_max rank (allHeld s) hnil
    simp only [allHeld, List.mem_flatMap] at hm
    obtain ⟨t, ht, hmt⟩ := hm
    have hne : t.prog ≠ [] := by
      intro hp
      have := h t ht
      rw [hp] at this
      simp only [RankedFrom] at this
      rw [this] at hmt; simp at hmt
    exact key t ht hne (Or.inl fun x hx => ⟨m, hmt, hmax x hx⟩)

/-- Every state reachable by any interleaving from a ranked initial system is deadlock-free. -/
theorem ranked_reach_no_deadlock {rank : Nat → Nat} {s0 s : Sys} (h0 : Ranked rank s0) (hr : Reach s0 s) :
    ¬ Deadlocked s :=
  ranked_no_deadlock (ranked_reach h0 hr)

end LockOrder
