/-
Lib.Varint — unsigned LEB128 ("protobuf varint", multiformats unsigned-varint) on byte lists.

Core-only (no Mathlib): imported by model files and by line-protocol drivers.

Contents
  * `Bytes`                      = `List UInt8`
  * `encode : Nat → Bytes`       the minimal LEB128 encoding (what `protowire.AppendVarint`,
                                 `binary.PutUvarint`, `varint.ToUvarint` produce)
  * `decode : Bytes → Option (Nat × Bytes)`   unbounded LEB128 reader (value, rest)
  * `consumeU64`                 `protowire.ConsumeVarint`: at most 10 bytes, value must fit 64 bits;
                                 non-minimal encodings (`80 00`) are accepted, as in Go
  * `size`                       `1 + (bitLen v − 1)/7`, the length of `encode v`
  * `sizeGo`                     `(9·bits.Len64(v) + 64)/64`, the formula used by `protowire.SizeVarint`
                                 and by boxo's `varintLen`
Theorems (each stated once, for every input):
  * `decode_encode`      `decode (encode n ++ rest) = some (n, rest)`
  * `consumeU64_encode`  the same for the bounded reader when `n < 2^64`
  * `encode_length`      `(encode n).length = size n`
  * `sizeGo_eq`          `sizeGo n = (encode n).length` when `n < 2^64`
  * `encode_length_le_ten`, `encode_ne_nil`, `encode_inj`, `encode_append_inj` (prefix-freeness)
  * `decode_length`      a successful read consumes at least one byte
-/
namespace Varint

abbrev Bytes := List UInt8

/-- minimal unsigned LEB128: 7 bits per byte, least significant group first, high bit = "more". -/
def encode (n : Nat) : Bytes :=
  if n < 128 then [n.toUInt8] else (n % 128 + 128).toUInt8 :: encode (n / 128)
termination_by n
decreasing_by omega

/-- unbounded LEB128 reader: value and the unread rest; `none` = truncated input. -/
def decode : Bytes → Option (Nat × Bytes)
  | [] => none
  | b :: rest =>
    if b.toNat < 128 then some (b.toNat, rest)
    else match decode rest with
      | none => none
      | some (v, r) => some (b.toNat - 128 + 128 * v, r)

/-- reader that gives up (overflow) after `k` bytes -/
def decodeN : Nat → Bytes → Option (Nat × Bytes)
  | 0, _ => none
  | _ + 1, [] => none
  | k + 1, b :: rest =>
    if b.toNat < 128 then some (b.toNat, rest)
    else match decodeN k rest with
      | none => none
      | some (v, r) => some (b.toNat - 128 + 128 * v, r)

/-- `protowire.ConsumeVarint`: at most ten bytes and the tenth byte must be `< 2`, i.e. the value
fits in 64 bits (nine bytes carry 63 bits). Truncation and overflow are both `none`. -/
def consumeU64 (b : Bytes) : Option (Nat × Bytes) :=
  match decodeN 10 b with
  | some (v, r) => if v < 2 ^ 64 then some (v, r) else none
  | none => none

/-- number of bytes of `encode n` -/
def size (n : Nat) : Nat := if n < 128 then 1 else 1 + size (n / 128)
termination_by n
decreasing_by omega

/-- `bits.Len64` (for any natural number): position of the highest set bit, 0 for 0 -/
def bitLen (n : Nat) : Nat := if n = 0 then 0 else n.log2 + 1

/-- Go: `(9*bits.Len64(v) + 64) / 64` (`protowire.SizeVarint`, boxo `varintLen`) -/
def sizeGo (n : Nat) : Nat := (9 * bitLen n + 64) / 64

theorem toNat_toUInt8 (n : Nat) (h : n < 256) : n.toUInt8.toNat = n := by
  simp [Nat.toUInt8]; omega

theorem encode_ne_nil (n : Nat) : encode n ≠ [] := by
  unfold encode; split <;> simp

theorem encode_length (n : Nat) : (encode n).length = size n := by
  induction n using Nat.strongRecOn with
  | _ n ih =>
    unfold encode size
    split
    · rfl
    · simp [ih (n / 128) (by omega)]; omega

theorem size_small (n : Nat) (h : n < 128) : size n = 1 := by
  rw [size]; simp [h]

theorem size_pos (n : Nat) : 0 < size n := by
  unfold size; split <;> omega

theorem decode_encode (n : Nat) (rest : Bytes) : decode (encode n ++ rest) = some (n, rest) := by
  induction n using Nat.strongRecOn with
  | _ n ih =>
    unfold encode
    split
    · next h => simp [decode, toNat_toUInt8 n (by omega), h]
    · next h =>
      have h1 : (n % 128 + 128).toUInt8.toNat = n % 128 + 128 := toNat_toUInt8 _ (by omega)
      simp only [List.cons_append, decode, h1, ih (n / 128) (by omega)]
      have : ¬ (n % 128 + 128 < 128) := by omega
      simp [this]; omega

/-- the bounded reader agrees with the unbounded one whenever it has enough bytes of budget -/
theorem decodeN_encode (k n : Nat) (rest : Bytes) (h : size n ≤ k) :
    decodeN k (encode n ++ rest) = some (n, rest) := by
  induction k generalizing n with
  | zero => have := size_pos n; omega
  | succ k ih =>
    unfold encode
    split
    · next hn => simp [decodeN, toNat_toUInt8 n (by omega), hn]
    · next hn =>
      have h1 : (n % 128 + 128).toUInt8.toNat = n % 128 + 128 := toNat_toUInt8 _ (by omega)
      have hs : size (n / 128) ≤ k := by
        have : size n = 1 + size (n / 128) := by rw [size]; simp [hn]
        omega
      simp only [List.cons_append, decodeN, h1, ih (n / 128) hs]
      have : ¬ (n % 128 + 128 < 128) := by omega
      simp [this]; omega

theorem size_le_of_lt (k n : Nat) (h : n < 2 ^ (7 * k)) (hk : 0 < k) : size n ≤ k := by
  induction k generalizing n with
  | zero => omega
  | succ k ih =>
    unfold size
    split
    · omega
    · next hn =>
      have hk' : 0 < k := by
        rcases Nat.eq_zero_or_pos k with rfl | h'
        · simp at h; omega
        · exact h'
      have : n / 128 < 2 ^ (7 * k) := by
        have : (2 : Nat) ^ (7 * (k + 1)) = 128 * 2 ^ (7 * k) := by
          rw [Nat.mul_add, Nat.pow_add]; simp [Nat.mul_comm]
        omega
      have := ih (n / 128) this hk'
      omega

theorem size_le_ten (n : Nat) (h : n < 2 ^ 64) : size n ≤ 10 :=
  size_le_of_lt 10 n (Nat.lt_of_lt_of_le h (by decide)) (by decide)

theorem encode_length_le_ten (n : Nat) (h : n < 2 ^ 64) : (encode n).length ≤ 10 := by
  rw [encode_length]; exact size_le_ten n h

/-- `protowire.ConsumeVarint (protowire.AppendVarint v) = v` for every 64-bit value -/
theorem consumeU64_encode (n : Nat) (rest : Bytes) (h : n < 2 ^ 64) :
    consumeU64 (encode n ++ rest) = some (n, rest) := by
  simp [consumeU64, decodeN_encode 10 n rest (size_le_ten n h), h]

theorem encode_append_inj {a b : Nat} {r s : Bytes} (h : encode a ++ r = encode b ++ s) :
    a = b ∧ r = s := by
  have h1 := decode_encode a r
  rw [h, decode_encode] at h1
  simpa [eq_comm] using h1

theorem encode_inj {a b : Nat} (h : encode a = encode b) : a = b := by
  have : encode a ++ [] = encode b ++ [] := by simp [h]
  exact (encode_append_inj this).1

theorem decode_length {b r : Bytes} {v : Nat} (h : decode b = some (v, r)) : r.length < b.length := by
  induction b generalizing v r with
  | nil => simp [decode] at h
  | cons x xs ih =>
    unfold decode at h
    split at h
    · simp at h; simp [h.2]
    · cases hd : decode xs with
      | none => simp [hd] at h
      | some p =>
        obtain ⟨v', r'⟩ := p
        simp [hd] at h
        have := ih hd
        rw [← h.2]; simp; omega

theorem decodeN_length {k : Nat} {b r : Bytes} {v : Nat} (h : decodeN k b = some (v, r)) :
    r.length < b.length := by
  induction k generalizing b v r with
  | zero => simp [decodeN] at h
  | succ k ih =>
    cases b with
    | nil => simp [decodeN] at h
    | cons x xs =>
      unfold decodeN at h
      split at h
      · simp at h; simp [h.2]
      · cases hd : decodeN k xs with
        | none => simp [hd] at h
        | some p =>
          obtain ⟨v', r'⟩ := p
          simp [hd] at h
          have := ih hd
          rw [← h.2]; simp; omega

theorem consumeU64_length {b r : Bytes} {v : Nat} (h : consumeU64 b = some (v, r)) :
    r.length < b.length := by
  unfold consumeU64 at h
  cases hd : decodeN 10 b with
  | none => simp [hd] at h
  | some p =>
    obtain ⟨v', r'⟩ := p
    simp [hd] at h
    have := decodeN_length hd
    rw [← h.2.2]; exact this

theorem consumeU64_lt {b r : Bytes} {v : Nat} (h : consumeU64 b = some (v, r)) : v < 2 ^ 64 := by
  unfold consumeU64 at h
  cases hd : decodeN 10 b with
  | none => simp [hd] at h
  | some p =>
    obtain ⟨v', r'⟩ := p
    simp [hd] at h
    omega

/-- a successful bounded read returns a suffix of its input -/
theorem decodeN_suffix {k : Nat} {b r : Bytes} {v : Nat} (h : decodeN k b = some (v, r)) :
    ∃ pre, b = pre ++ r := by
  induction k generalizing b v r with
  | zero => simp [decodeN] at h
  | succ k ih =>
    cases b with
    | nil => simp [decodeN] at h
    | cons x xs =>
      unfold decodeN at h
      split at h
      · simp at h; exact ⟨[x], by simp [h.2]⟩
      · cases hd : decodeN k xs with
        | none => simp [hd] at h
        | some p =>
          obtain ⟨v', r'⟩ := p
          simp [hd] at h
          obtain ⟨pre, hp⟩ := ih hd
          exact ⟨x :: pre, by rw [hp, ← h.2]; simp⟩

theorem consumeU64_suffix {b r : Bytes} {v : Nat} (h : consumeU64 b = some (v, r)) : ∃ pre, b = pre ++ r := by
  unfold consumeU64 at h
  cases hd : decodeN 10 b with
  | none => simp [hd] at h
  | some p =>
    obtain ⟨v', r'⟩ := p
    simp [hd] at h
    obtain ⟨pre, hp⟩ := decodeN_suffix hd
    exact ⟨pre, by rw [hp, h.2.2]⟩

/-! ### the closed-form length and the Go formula -/

theorem size_eq_log (n : Nat) : size n = n.log2 / 7 + 1 := by
  induction n using Nat.strongRecOn with
  | _ n ih =>
    unfold size
    split
    · next h =>
      rcases Nat.eq_zero_or_pos n with rfl | hp
      · simp
      · have : n.log2 < 7 := (Nat.log2_lt (by omega)).2 (by omega)
        omega
    · next h =>
      have hn : n ≠ 0 := by omega
      have hd : n / 128 ≠ 0 := by omega
      rw [ih (n / 128) (by omega)]
      -- log2 n = log2 (n / 128) + 7
      have h1 : 2 ^ (n / 128).log2 ≤ n / 128 := Nat.log2_self_le hd
      have h2 : n / 128 < 2 ^ ((n / 128).log2 + 1) := Nat.lt_log2_self
      have h3 : n < 2 ^ ((n / 128).log2 + 7 + 1) := by
        have : (2 : Nat) ^ ((n / 128).log2 + 7 + 1) = 128 * 2 ^ ((n / 128).log2 + 1) := by
          rw [show (n / 128).log2 + 7 + 1 = 7 + ((n / 128).log2 + 1) by omega, Nat.pow_add]
        omega
      have h4 : 2 ^ ((n / 128).log2 + 7) ≤ n := by
        have : (2 : Nat) ^ ((n / 128).log2 + 7) = 128 * 2 ^ (n / 128).log2 := by
          rw [show (n / 128).log2 + 7 = 7 + (n / 128).log2 by omega, Nat.pow_add]
        omega
      have h5 : n.log2 < (n / 128).log2 + 7 + 1 := (Nat.log2_lt hn).2 h3
      have h6 : ¬ n.log2 < (n / 128).log2 + 7 := by
        intro hlt
        have := (Nat.log2_lt hn).1 hlt
        omega
      omega

theorem bitLen_le_64 (n : Nat) (h : n < 2 ^ 64) : bitLen n ≤ 64 := by
  unfold bitLen
  split
  · omega
  · next hn => have := (Nat.log2_lt hn).2 h; omega

/-- the 65 possible bit lengths of a 64-bit value, checked exhaustively -/
theorem sizeGo_formula : ∀ L : Fin 65, (9 * L.val + 64) / 64 = if L.val = 0 then 1 else (L.val - 1) / 7 + 1 := by
  decide

/-- Go's `(9*bits.Len64(v)+64)/64` is exactly the number of LEB128 bytes of every 64-bit value. -/
theorem sizeGo_eq (n : Nat) (h : n < 2 ^ 64) : sizeGo n = (encode n).length := by
  rw [encode_length, size_eq_log, sizeGo]
  have hb := bitLen_le_64 n h
  have := sizeGo_formula ⟨bitLen n, by omega⟩
  simp only at this
  rw [this]
  unfold bitLen
  split
  · next h0 => subst h0; simp
  · simp

example : encode 300 = [0xAC, 0x02] := by simp [encode]
example : consumeU64 ([0xAC, 0x02, 0x07] : Bytes) = some (300, [0x07]) := by decide
example : consumeU64 ([0x80, 0x00] : Bytes) = some (0, []) := by decide   -- non-minimal accepted
example : sizeGo (2 ^ 63) = 10 := by decide

end Varint
