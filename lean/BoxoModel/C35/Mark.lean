import BoxoModel.C35.Inv
/-! Phase C (markSent / prune loops) preserves the invariant. -/
namespace C35

theorem markOne_other (m : MarkSt) (e : Ent) (c : Nat) (hc : e.cid ≠ c) :
    (markOne m e).r.pending.get c = m.r.pending.get c ∧ (markOne m e).r.sent.get c = m.r.sent.get c ∧
    (c ∈ (markOne m e).cancels ↔ c ∈ m.cancels) ∧ (markOne m e).msg.get c = m.msg.get c := by
  have hc' : ¬ c = e.cid := fun x => hc x.symm
  unfold markOne
  split
  · simp only [WL.get_del, WL.get_add, hc', ↓reduceIte, List.mem_filter, bne_iff_ne, ne_eq, not_false_eq_true,
      and_true, true_and]
  · simp only [Msg.get_remove, hc', ↓reduceIte, true_and]

theorem markOne_ok (m : MarkSt) (e : Ent) (h : m.r.pending.get e.cid = some e) :
    (markOne m e).r.pending.get e.cid = none ∧
    (markOne m e).r.sent.get e.cid = (m.r.sent.add e.cid e.prio e.ty).get e.cid ∧
    e.cid ∉ (markOne m e).cancels ∧ (markOne m e).msg.get e.cid = m.msg.get e.cid := by
  unfold markOne
  simp [h, WL.get_del]

theorem markOne_fail (m : MarkSt) (e : Ent) (h : m.r.pending.get e.cid ≠ some e) :
    (markOne m e).r.pending.get e.cid = m.r.pending.get e.cid ∧
    (markOne m e).r.sent.get e.cid = m.r.sent.get e.cid ∧
    (e.cid ∈ (markOne m e).cancels ↔ e.cid ∈ m.cancels) ∧ (markOne m e).msg.get e.cid = none := by
  unfold markOne
  simp [h, Msg.get_remove]

theorem markOne_global (m : MarkSt) (e : Ent) :
    (m.r.pending.WF → (markOne m e).r.pending.WF) ∧ (m.r.sent.WF → (markOne m e).r.sent.WF) ∧
    (m.msg.WF → (markOne m e).msg.WF) ∧
    (∀ x ∈ (markOne m e).r.pending, x ∈ m.r.pending) ∧
    (∀ x ∈ (markOne m e).r.sent, x ∈ m.r.sent ∨ (x = e ∧ x ∈ m.r.pending)) := by
  unfold markOne
  split
  · rename_i hok
    refine ⟨fun h => WL.WF_del h _, fun h => WL.WF_add h _ _ _, fun h => h, fun x hx => WL.mem_del hx, ?_⟩
    intro x hx
    rcases WL.mem_add hx with hx | hx
    · exact .inl hx
    · exact .inr ⟨hx, by rw [hx]; exact WL.get_some_mem hok⟩
  · exact ⟨fun h => h, fun h => h, fun h => Msg.WF_remove h _, fun x hx => hx, fun x hx => .inl hx⟩

/-- effect of one markSent loop on the data of each cid -/
theorem markFold_spec (l : List Ent) (hl : (l.map (·.cid)).Nodup) (m : MarkSt) :
    (m.r.pending.WF → (l.foldl markOne m).r.pending.WF) ∧ (m.r.sent.WF → (l.foldl markOne m).r.sent.WF) ∧
    (m.msg.WF → (l.foldl markOne m).msg.WF) ∧
    (∀ x ∈ (l.foldl markOne m).r.pending, x ∈ m.r.pending) ∧
    (∀ x ∈ (l.foldl markOne m).r.sent, x ∈ m.r.sent ∨ (x ∈ l ∧ x ∈ m.r.pending)) ∧
    (∀ c, c ∉ l.map (·.cid) →
      (l.foldl markOne m).r.pending.get c = m.r.pending.get c ∧ (l.foldl markOne m).r.sent.get c = m.r.sent.get c ∧
      (c ∈ (l.foldl markOne m).cancels ↔ c ∈ m.cancels) ∧ (l.foldl markOne m).msg.get c = m.msg.get c) ∧
    (∀ e ∈ l, m.r.pending.get e.cid = some e →
      (l.foldl markOne m).r.pending.get e.cid = none ∧
      (l.foldl markOne m).r.sent.get e.cid = (m.r.sent.add e.cid e.prio e.ty).get e.cid ∧
      e.cid ∉ (l.foldl markOne m).cancels ∧ (l.foldl markOne m).msg.get e.cid = m.msg.get e.cid) ∧
    (∀ e ∈ l, m.r.pending.get e.cid ≠ some e →
      (l.foldl markOne m).r.pending.get e.cid = m.r.pending.get e.cid ∧
      (l.foldl markOne m).r.sent.get e.cid = m.r.sent.get e.cid ∧
      (e.cid ∈ (l.foldl markOne m).cancels ↔ e.cid ∈ m.cancels) ∧ (l.foldl markOne m).msg.get e.cid = none) := by
  induction l generalizing m with
  | nil => simp
  | cons a l ih =>
    simp only [List.map_cons, List.nodup_cons] at hl
    obtain ⟨i1, i2, i3, i4, i5, i6, i7, i8⟩ := ih hl.2 (markOne m a)
    obtain ⟨g1, g2, g3, g4, g5⟩ := markOne_global m a
    simp only [List.foldl_cons]
    refine ⟨fun h => i1 (g1 h), fun h => i2 (g2 h), fun h => i3 (g3 h), fun x hx => g4 x (i4 x hx), ?_, ?_, ?_, ?_⟩
    · intro x hx
      rcases i5 x hx with hx | hx
      · rcases g5 x hx with hx | hx
        · exact .inl hx
        · exact .inr ⟨by rw [hx.1]; exact List.mem_cons_self, hx.2⟩
      · exact .inr ⟨List.mem_cons_of_mem _ hx.1, g4 x hx.2⟩
    · intro c hc
      simp only [List.map_cons, List.mem_cons, not_or] at hc
      obtain ⟨o1, o2, o3, o4⟩ := markOne_other m a c (fun x => hc.1 x.symm)
      obtain ⟨u1, u2, u3, u4⟩ := i6 c hc.2
      exact ⟨u1.trans o1, u2.trans o2, u3.trans o3, u4.trans o4⟩
    · intro e he hok
      rcases List.mem_cons.mp he with rfl | he
      · obtain ⟨u1, u2, u3, u4⟩ := i6 e.cid hl.1
        obtain ⟨k1, k2, k3, k4⟩ := markOne_ok m e hok
        exact ⟨u1.trans k1, u2.trans k2, fun hh => k3 (u3.mp hh), u4.trans k4⟩
      · have hne : a.cid ≠ e.cid := by
          intro hx; apply hl.1; rw [hx]; exact List.mem_map.mpr ⟨e, he, rfl⟩
        obtain ⟨o1, o2, o3, o4⟩ := markOne_other m a e.cid hne
        obtain ⟨u1, u2, u3, u4⟩ := i7 e he (by rw [o1]; exact hok)
        refine ⟨u1, ?_, u3, u4.trans o4⟩
        rw [u2, WL.get_add, WL.get_add]; simp [o2]
    · intro e he hfail
      rcases List.mem_cons.mp he with rfl | he
      · obtain ⟨u1, u2, u3, u4⟩ := i6 e.cid hl.1
        obtain ⟨k1, k2, k3, k4⟩ := markOne_fail m e hfail
        exact ⟨u1.trans k1, u2.trans k2, u3.trans k3, u4.trans k4⟩
      · have hne : a.cid ≠ e.cid := by
          intro hx; apply hl.1; rw [hx]; exact List.mem_map.mpr ⟨e, he, rfl⟩
        obtain ⟨o1, o2, o3, o4⟩ := markOne_other m a e.cid hne
        obtain ⟨u1, u2, u3, u4⟩ := i8 e he (by rw [o1]; exact hfail)
        exact ⟨u1.trans o1, u2.trans o2, u3.trans o3, u4⟩

theorem pruneOne_spec (km : List Nat × Msg) (c : Nat) :
    (km.2.WF → (pruneOne km c).2.WF) ∧
    (∀ x, x ≠ c → ((x ∈ (pruneOne km c).1 ↔ x ∈ km.1) ∧ (pruneOne km c).2.get x = km.2.get x)) ∧
    (c ∈ km.1 → c ∉ (pruneOne km c).1 ∧ (pruneOne km c).2.get c = km.2.get c) ∧
    (c ∉ km.1 → c ∉ (pruneOne km c).1 ∧ (pruneOne km c).2.get c = none) := by
  unfold pruneOne
  by_cases h : c ∈ km.1
  · have hb : km.1.contains c = true := by simpa using h
    simp only [hb, ↓reduceIte]
    refine ⟨fun h => h, ?_, ?_, fun hn => absurd h hn⟩
    · intro x hx; simp [List.mem_filter, hx]
    · intro _; simp [List.mem_filter]
  · have hb : km.1.contains c = false := by simpa using h
    simp only [hb, Bool.false_eq_true, ↓reduceIte]
    refine ⟨fun h => Msg.WF_remove h _, ?_, fun hn => absurd hn h, ?_⟩
    · intro x hx; simp [Msg.get_remove, hx]
    · intro _; exact ⟨h, by simp [Msg.get_remove]⟩

theorem pruneFold_spec (l : List Nat) (hl : l.Nodup) (km : List Nat × Msg) :
    (km.2.WF → (l.foldl pruneOne km).2.WF) ∧
    (∀ x, x ∉ l → ((x ∈ (l.foldl pruneOne km).1 ↔ x ∈ km.1) ∧ (l.foldl pruneOne km).2.get x = km.2.get x)) ∧
    (∀ c ∈ l, c ∈ km.1 → c ∉ (l.foldl pruneOne km).1 ∧ (l.foldl pruneOne km).2.get c = km.2.get c) ∧
    (∀ c ∈ l, c ∉ km.1 → c ∉ (l.foldl pruneOne km).1 ∧ (l.foldl pruneOne km).2.get c = none) := by
  induction l generalizing km with
  | nil => simp
  | cons a l ih =>
    simp only [List.nodup_cons] at hl
    obtain ⟨i1, i2, i3, i4⟩ := ih hl.2 (pruneOne km a)
    obtain ⟨p1, p2, p3, p4⟩ := pruneOne_spec km a
    simp only [List.foldl_cons]
    refine ⟨fun h => i1 (p1 h), ?_, ?_, ?_⟩
    · intro x hx
      simp only [List.mem_cons, not_or] at hx
      obtain ⟨u1, u2⟩ := i2 x hx.2
      obtain ⟨v1, v2⟩ := p2 x hx.1
      exact ⟨u1.trans v1, u2.trans v2⟩
    · intro c hc hin
      rcases List.mem_cons.mp hc with rfl | hc
      · obtain ⟨u1, u2⟩ := i2 c hl.1
        obtain ⟨v1, v2⟩ := p3 hin
        exact ⟨fun hh => v1 (u1.mp hh), u2.trans v2⟩
      · have hne : c ≠ a := fun hx => hl.1 (hx ▸ hc)
        obtain ⟨v1, v2⟩ := p2 c hne
        obtain ⟨u1, u2⟩ := i3 c hc (v1.mpr hin)
        exact ⟨u1, u2.trans v2⟩
    · intro c hc hnin
      rcases List.mem_cons.mp hc with rfl | hc
      · obtain ⟨u1, u2⟩ := i2 c hl.1
        obtain ⟨v1, v2⟩ := p4 hnin
        exact ⟨fun hh => v1 (u1.mp hh), u2.trans v2⟩
      · have hne : c ≠ a := fun hx => hl.1 (hx ▸ hc)
        obtain ⟨v1, v2⟩ := p2 c hne
        exact i4 c hc (fun hh => hnin (v1.mp hh))


/-! ### the message built in phase B -/

theorem build_WF (cfg : Cfg) (cs : List Nat) (pe be : List Ent) : (buildMsg (items cfg cs pe be)).WF :=
  Msg.WF_foldl _ Msg.WF_nil

theorem build_hasC (cfg : Cfg) (cs : List Nat) (pe be : List Ent) (c : Nat) :
    (buildMsg (items cfg cs pe be)).hasC c = true ↔ c ∈ cs ∨ c ∈ pe.map (·.cid) ∨ c ∈ be.map (·.cid) := by
  unfold buildMsg
  rw [Msg.hasC_foldl]
  simp only [Msg.hasC, Msg.get_nil, Option.isSome_none, Bool.false_or, items, List.any_append, List.any_map,
    Bool.or_eq_true, List.any_eq_true, Function.comp, cancelArg, peerArg, bcstArg, beq_iff_eq, List.mem_map]
  constructor
  · rintro ((⟨x, hx, rfl⟩ | ⟨x, hx, rfl⟩) | ⟨x, hx, rfl⟩)
    · exact .inl hx
    · exact .inr (.inl ⟨x, hx, rfl⟩)
    · exact .inr (.inr ⟨x, hx, rfl⟩)
  · rintro (hx | ⟨x, hx, rfl⟩ | ⟨x, hx, rfl⟩)
    · exact .inl (.inl ⟨c, hx, rfl⟩)
    · exact .inl (.inr ⟨x, hx, rfl⟩)
    · exact .inr ⟨x, hx, rfl⟩

theorem build_canc (cfg : Cfg) (cs : List Nat) (pe be : List Ent) (c : Nat) :
    (buildMsg (items cfg cs pe be)).canc c = true ↔ c ∈ cs := by
  unfold buildMsg
  rw [Msg.canc_foldl]
  simp only [Msg.canc, Msg.get_nil, Bool.false_or, items, List.any_append, List.any_map,
    Bool.or_eq_true, List.any_eq_true, Function.comp, cancelArg, peerArg, bcstArg, beq_iff_eq, Bool.and_true,
    Bool.and_false, Bool.false_eq_true, and_false, exists_false, or_false]
  constructor
  · rintro ⟨x, hx, rfl⟩; exact hx
  · intro hx; exact ⟨c, hx, rfl⟩


theorem has_of_get_add {w w' : WL} {c : Nat} {p : Int} {t : WT} (h : w'.get c = (w.add c p t).get c) :
    w'.has c = true := by
  have := WL.has_add w c p t c
  unfold WL.has at this ⊢
  rw [h, this]; simp

theorem msg_get_none_of_hasC_false {m : Msg} {c : Nat} (h : ¬ m.hasC c = true) : m.get c = none := by
  unfold Msg.hasC at h
  cases hg : m.get c <;> simp_all

theorem eq_of_mem_nodup_cid {l : List Ent} (h : (l.map (·.cid)).Nodup) {a b : Ent} (ha : a ∈ l) (hb : b ∈ l)
    (hc : a.cid = b.cid) : a = b := by
  induction l with
  | nil => cases ha
  | cons x l ih =>
    simp only [List.map_cons, List.nodup_cons] at h
    rcases List.mem_cons.mp ha with rfl | ha' <;> rcases List.mem_cons.mp hb with rfl | hb'
    · rfl
    · exact absurd (List.mem_map.mpr ⟨b, hb', hc.symm⟩) h.1
    · exact absurd (List.mem_map.mpr ⟨a, ha', hc⟩) h.1
    · exact ih h.2 ha' hb'

/-- What phase C does to the data of one cid: nothing and the message is silent about it (U), its
cancel is sent (X), a want for it is sent and recorded (W), or the broadcast want was recorded while
the peer want had meanwhile been upgraded to a still pending want-block (V). -/
theorem mark_leaf {cfg : Cfg} {s : St} {pe be : List Ent} {cs : List Nat} {msg : Msg}
    (snap : SnapInv cfg s.q pe be cs) (hmsg : msg = buildMsg (items cfg cs pe be))
    {m1 m2 : MarkSt} {km : List Nat × Msg}
    (hm1 : m1 = pe.foldl markOne { r := s.q.peer, cancels := s.q.cancels, msg := msg, marked := [] })
    (hm2 : m2 = be.foldl markOne { r := s.q.bcst, cancels := m1.cancels, msg := m1.msg, marked := [] })
    (hkm : km = cs.foldl pruneOne (m2.cancels, m2.msg)) (c : Nat) :
    (m1.r.pending.get c = s.q.peer.pending.get c ∧ m1.r.sent.get c = s.q.peer.sent.get c ∧
      m2.r.pending.get c = s.q.bcst.pending.get c ∧ m2.r.sent.get c = s.q.bcst.sent.get c ∧
      (c ∈ km.1 ↔ c ∈ s.q.cancels) ∧ km.2.get c = none)
    ∨ (m1.r.sent.get c = s.q.peer.sent.get c ∧ m2.r.sent.get c = s.q.bcst.sent.get c ∧
      c ∈ s.q.cancels ∧ c ∉ km.1 ∧ km.2.hasC c = true ∧ km.2.canc c = true)
    ∨ (c ∉ km.1 ∧ (m1.r.sent.has c = true ∨ m2.r.sent.has c = true) ∧ km.2.hasC c = true ∧ km.2.canc c = false ∧
      km.2.get c = msg.get c ∧ (∀ e ∈ pe, e.cid = c → s.q.peer.pending.get c = some e) ∧
      (∀ e ∈ be, e.cid = c → s.q.bcst.pending.get c = some e))
    ∨ (m1.r.pending.get c = s.q.peer.pending.get c ∧ s.q.peer.pending.blk c = true ∧ m2.r.sent.has c = true ∧
      c ∉ km.1 ∧ km.2.get c = none ∧ m1.r.sent.get c = s.q.peer.sent.get c) := by
  obtain ⟨_, _, _, _, _, M1u, M1ok, M1fail⟩ :=
    markFold_spec pe snap.ndp { r := s.q.peer, cancels := s.q.cancels, msg := msg, marked := [] }
  obtain ⟨_, _, _, _, _, M2u, M2ok, M2fail⟩ :=
    markFold_spec be snap.ndb { r := s.q.bcst, cancels := m1.cancels, msg := m1.msg, marked := [] }
  obtain ⟨_, Pu, Pin, Pnot⟩ := pruneFold_spec cs snap.ndc (m2.cancels, m2.msg)
  rw [← hm1] at M1u M1ok M1fail
  rw [← hm2] at M2u M2ok M2fail
  rw [← hkm] at Pu Pin Pnot
  simp only at M1u M1ok M1fail M2u M2ok M2fail Pu Pin Pnot
  have hH := build_hasC cfg cs pe be c
  have hCn := build_canc cfg cs pe be c
  rw [← hmsg] at hH hCn
  by_cases hC : c ∈ cs
  · obtain ⟨hnp, hnb⟩ := snap.disj c hC
    obtain ⟨a1, a2, a3, a4⟩ := M1u c hnp
    obtain ⟨b1, b2, b3, b4⟩ := M2u c hnb
    by_cases hK : c ∈ s.q.cancels
    · obtain ⟨p1, p2⟩ := Pin c hC (b3.mpr (a3.mpr hK))
      right; left
      refine ⟨a2, b2, hK, p1, ?_, ?_⟩
      · unfold Msg.hasC; rw [p2, b4, a4]; exact hH.mpr (.inl hC)
      · unfold Msg.canc; rw [p2, b4, a4]; exact hCn.mpr hC
    · obtain ⟨p1, p2⟩ := Pnot c hC (fun hh => hK (a3.mp (b3.mp hh)))
      left
      exact ⟨a1, a2, b1, b2, ⟨fun hh => absurd hh p1, fun hh => absurd hh hK⟩, p2⟩
  · obtain ⟨q1, q2⟩ := Pu c hC
    have hcanc : ∀ m : Msg, m.get c = msg.get c → m.canc c = false := by
      intro m hm
      have : ¬ msg.canc c = true := fun hh => hC (hCn.mp hh)
      unfold Msg.canc at this ⊢; rw [hm]; simpa using this
    by_cases hP : c ∈ pe.map (·.cid)
    · obtain ⟨ep, hep, hcp⟩ := List.mem_map.mp hP
      have hcp : ep.cid = c := hcp
      have hhas : ∀ m : Msg, m.get c = msg.get c → m.hasC c = true := by
        intro m hm
        have := hH.mpr (.inr (.inl hP))
        unfold Msg.hasC at this ⊢; rw [hm]; exact this
      by_cases hB : c ∈ be.map (·.cid)
      · obtain ⟨eb, heb, hcb⟩ := List.mem_map.mp hB
        have hcb : eb.cid = c := hcb
        by_cases okP : s.q.peer.pending.get ep.cid = some ep
        · have okB := snap.tieA ep hep eb heb (hcp.trans hcb.symm) okP
          obtain ⟨a1, a2, a3, a4⟩ := M1ok ep hep okP
          obtain ⟨b1, b2, b3, b4⟩ := M2ok eb heb okB
          rw [hcp] at a1 a2 a3 a4
          rw [hcb] at b1 b2 b3 b4
          right; right; left
          refine ⟨fun hh => b3 (q1.mp hh), .inl (has_of_get_add a2), ?_, ?_, by rw [q2, b4, a4], ?_, ?_⟩
          · exact hhas _ (by rw [q2, b4, a4])
          · exact hcanc _ (by rw [q2, b4, a4])
          · intro e he hce
            rw [eq_of_mem_nodup_cid snap.ndp he hep (hce.trans hcp.symm), ← hcp]; exact okP
          · intro e he hce
            rw [eq_of_mem_nodup_cid snap.ndb he heb (hce.trans hcb.symm), ← hcb]; exact okB
        · by_cases okB : s.q.bcst.pending.get eb.cid = some eb
          · obtain ⟨a1, a2, a3, a4⟩ := M1fail ep hep okP
            obtain ⟨b1, b2, b3, b4⟩ := M2ok eb heb okB
            rw [hcp] at a1 a2 a3 a4
            rw [hcb] at b1 b2 b3 b4
            have hblk : s.q.peer.pending.blk c = true := by
              rcases snap.tieB ep hep eb heb (hcp.trans hcb.symm) okB with hh | hh
              · exact absurd hh okP
              · rw [← hcp]; exact hh
            right; right; right
            exact ⟨a1, hblk, has_of_get_add b2, fun hh => b3 (q1.mp hh), by rw [q2, b4, a4], a2⟩
          · obtain ⟨a1, a2, a3, a4⟩ := M1fail ep hep okP
            obtain ⟨b1, b2, b3, b4⟩ := M2fail eb heb okB
            rw [hcp] at a1 a2 a3 a4
            rw [hcb] at b1 b2 b3 b4
            left
            exact ⟨a1, a2, b1, b2, q1.trans (b3.trans a3), by rw [q2, b4]⟩
      · obtain ⟨b1, b2, b3, b4⟩ := M2u c hB
        by_cases okP : s.q.peer.pending.get ep.cid = some ep
        · obtain ⟨a1, a2, a3, a4⟩ := M1ok ep hep okP
          rw [hcp] at a1 a2 a3 a4
          right; right; left
          refine ⟨fun hh => a3 (b3.mp (q1.mp hh)), .inl (has_of_get_add a2), ?_, ?_, by rw [q2, b4, a4], ?_, ?_⟩
          · exact hhas _ (by rw [q2, b4, a4])
          · exact hcanc _ (by rw [q2, b4, a4])
          · intro e he hce
            rw [eq_of_mem_nodup_cid snap.ndp he hep (hce.trans hcp.symm), ← hcp]; exact okP
          · intro e he hce
            exact absurd (List.mem_map.mpr ⟨e, he, hce⟩) hB
        · obtain ⟨a1, a2, a3, a4⟩ := M1fail ep hep okP
          rw [hcp] at a1 a2 a3 a4
          left
          exact ⟨a1, a2, b1, b2, q1.trans (b3.trans a3), by rw [q2, b4, a4]⟩
    · obtain ⟨a1, a2, a3, a4⟩ := M1u c hP
      by_cases hB : c ∈ be.map (·.cid)
      · obtain ⟨eb, heb, hcb⟩ := List.mem_map.mp hB
        have hcb : eb.cid = c := hcb
        have hhas : ∀ m : Msg, m.get c = msg.get c → m.hasC c = true := by
          intro m hm
          have := hH.mpr (.inr (.inr hB))
          unfold Msg.hasC at this ⊢; rw [hm]; exact this
        by_cases okB : s.q.bcst.pending.get eb.cid = some eb
        · obtain ⟨b1, b2, b3, b4⟩ := M2ok eb heb okB
          rw [hcb] at b1 b2 b3 b4
          right; right; left
          refine ⟨fun hh => b3 (q1.mp hh), .inr (has_of_get_add b2), ?_, ?_, by rw [q2, b4, a4], ?_, ?_⟩
          · exact hhas _ (by rw [q2, b4, a4])
          · exact hcanc _ (by rw [q2, b4, a4])
          · intro e he hce
            exact absurd (List.mem_map.mpr ⟨e, he, hce⟩) hP
          · intro e he hce
            rw [eq_of_mem_nodup_cid snap.ndb he heb (hce.trans hcb.symm), ← hcb]; exact okB
        · obtain ⟨b1, b2, b3, b4⟩ := M2fail eb heb okB
          rw [hcb] at b1 b2 b3 b4
          left
          exact ⟨a1, a2, b1, b2, q1.trans (b3.trans a3), by rw [q2, b4]⟩
      · obtain ⟨b1, b2, b3, b4⟩ := M2u c hB
        left
        refine ⟨a1, a2, b1, b2, q1.trans (b3.trans a3), ?_⟩
        rw [q2, b4, a4]
        apply msg_get_none_of_hasC_false
        intro hh
        rcases hH.mp hh with h1 | h1 | h1
        · exact hC h1
        · exact hP h1
        · exact hB h1


theorem has_congr {w w' : WL} {c : Nat} (h : w.get c = w'.get c) : w.has c = w'.has c := by
  unfold WL.has; rw [h]
theorem blk_congr {w w' : WL} {c : Nat} (h : w.get c = w'.get c) : w.blk c = w'.blk c := by
  unfold WL.blk; rw [h]

/-- phase C without the run-loop bookkeeping (signal / debounce flags), used for the invariant proofs -/
def doMarkOld (s : St) : St :=
  match s.ph with
  | .built pe be cs msg =>
    let m1 := pe.foldl markOne { r := s.q.peer, cancels := s.q.cancels, msg := msg, marked := [] }
    let m2 := be.foldl markOne { r := s.q.bcst, cancels := m1.cancels, msg := m1.msg, marked := [] }
    let km := cs.foldl pruneOne (m2.cancels, m2.msg)
    { s with q := { s.q with peer := m1.r, bcst := m2.r, cancels := km.1 },
             ph := if km.2.isEmpty then .idle else .flight m1.marked m2.marked km.2 }
  | _ => s

theorem doMark_eq (s : St) :
    (doMark s).q = (doMarkOld s).q ∧ (doMark s).ph = (doMarkOld s).ph ∧ (doMark s).peerWL = (doMarkOld s).peerWL ∧
    (doMark s).pw = (doMarkOld s).pw ∧ (doMark s).bw = (doMarkOld s).bw := by
  unfold doMark doMarkOld
  cases hp : s.ph with
  | built pe be cs msg =>
    simp only
    split <;> simp [returnToLoop]
  | _ => simp

theorem effPeer_congr {s s' : St} (h1 : s'.ph = s.ph) (h2 : s'.peerWL = s.peerWL) : effPeer s' = effPeer s := by
  unfold effPeer; rw [h1, h2]

theorem effPeer_after_mark (s0 : St) (P : WL) (m : Msg) (a b : List Ent) (hP : s0.peerWL = P)
    (hph : s0.ph = if m.isEmpty then Phase.idle else Phase.flight a b m) : effPeer s0 = recv P m := by
  unfold effPeer
  cases m with
  | nil => simp at hph; simp [hph, hP, recv]
  | cons x m => simp at hph; simp [hph, hP]

theorem inv_doMarkOld {cfg : Cfg} {s : St} (h : Inv cfg s) : Inv cfg (doMarkOld s) := by
  unfold doMarkOld
  cases hp : s.ph with
  | built pe be cs msg =>
    simp only
    have hph := h.ph
    unfold PhaseInv at hph
    rw [hp] at hph
    obtain ⟨snap, hmsg⟩ := hph
    obtain ⟨w1, w2, w3, w4, w5, _, _, _⟩ :=
      markFold_spec pe snap.ndp { r := s.q.peer, cancels := s.q.cancels, msg := msg, marked := [] }
    generalize hm1 : pe.foldl markOne { r := s.q.peer, cancels := s.q.cancels, msg := msg, marked := [] } = m1 at *
    obtain ⟨v1, v2, v3, v4, v5, _, _, _⟩ :=
      markFold_spec be snap.ndb { r := s.q.bcst, cancels := m1.cancels, msg := m1.msg, marked := [] }
    generalize hm2 : be.foldl markOne { r := s.q.bcst, cancels := m1.cancels, msg := m1.msg, marked := [] } = m2 at *
    obtain ⟨u1, _, _, _⟩ := pruneFold_spec cs snap.ndc (m2.cancels, m2.msg)
    generalize hkm : cs.foldl pruneOne (m2.cancels, m2.msg) = km at *
    have leaf := mark_leaf snap hmsg hm1.symm hm2.symm hkm.symm
    simp only at w1 w2 w3 w4 w5 v1 v2 v3 v4 v5 u1
    have hwf : km.2.WF := u1 (v3 (w3 (by rw [hmsg]; exact build_WF _ _ _ _)))
    have heff : ∀ s0 : St, s0.peerWL = s.peerWL →
        s0.ph = (if km.2.isEmpty then Phase.idle else Phase.flight m1.marked m2.marked km.2) →
        ∀ c, (effPeer s0).has c = if km.2.hasC c then !km.2.canc c else s.peerWL.has c := by
      intro s0 h1 h2 c
      rw [effPeer_after_mark s0 s.peerWL km.2 m1.marked m2.marked h1 h2, has_recv hwf]
    have heff0 : effPeer s = s.peerWL := by simp [effPeer, hp]
    have j1 := h.j1; have j2 := h.j2; have j3 := h.j3
    rw [heff0] at j2 j3
    refine ⟨w1 h.wfpp, v1 h.wfbp, w2 h.wfps, v2 h.wfbs, ?_, ?_, ?_, ?_, ?_, ?_⟩
    · intro e he
      simp only at he ⊢
      rcases he with he | he | he | he
      · exact h.fresh e (.inl (w4 e he))
      · rcases w5 e he with he | he
        · exact h.fresh e (.inr (.inl he))
        · exact h.fresh e (.inl he.2)
      · exact h.fresh e (.inr (.inr (.inl (v4 e he))))
      · rcases v5 e he with he | he
        · exact h.fresh e (.inr (.inr (.inr he)))
        · exact h.fresh e (.inr (.inr (.inl he.2)))
    · intro c hc
      simp only [sentHas] at hc ⊢
      rcases leaf c with ⟨a1, a2, a3, a4, a5, a6⟩ | ⟨a1, a2, a3, a4, a5, a6⟩ | ⟨a1, a2, a3, a4⟩ | ⟨a1, a2, a3, a4, a5⟩
      · rw [has_congr a2, has_congr a4] at hc
        exact fun hh => j1 c hc (a5.mp hh)
      · exact a4
      · exact a1
      · exact a4
    · intro c hc
      rw [heff _ (by rfl) (by rfl)] at hc
      simp only [sentHas]
      rcases leaf c with ⟨a1, a2, a3, a4, a5, a6⟩ | ⟨a1, a2, a3, a4, a5, a6⟩ | ⟨a1, a2, a3, a4⟩ | ⟨a1, a2, a3, a4, a5⟩
      · have : km.2.hasC c = false := by simp [Msg.hasC, a6]
        simp only [this, Bool.false_eq_true, ↓reduceIte] at hc
        rw [has_congr a2, has_congr a4]
        rcases j2 c hc with hh | hh
        · exact .inl hh
        · exact .inr (a5.mpr hh)
      · simp [a5, a6] at hc
      · left; simpa using a2
      · left; simp [a3]
    · intro c hc
      rw [heff _ (by rfl) (by rfl)]
      simp only [sentHas] at hc ⊢
      rcases leaf c with ⟨a1, a2, a3, a4, a5, a6⟩ | ⟨a1, a2, a3, a4, a5, a6⟩ | ⟨a1, a2, a3, a4⟩ | ⟨a1, a2, a3, a4, a5⟩
      · have : km.2.hasC c = false := by simp [Msg.hasC, a6]
        simp only [this, Bool.false_eq_true, ↓reduceIte]
        rw [has_congr a2, has_congr a4] at hc
        rw [blk_congr a1, has_congr a3]
        exact j3 c hc
      · rw [has_congr a1, has_congr a2] at hc
        exact absurd a3 (j1 c hc)
      · left; simp [a3, a4]
      · right; left; rw [blk_congr a1]; exact a2
    · intro hh c e he
      simp only at he
      rcases w5 e (WL.get_some_mem he) with hm | hm
      · have := WL.get_of_mem h.wfps hm
        exact h.j6 hh _ _ this
      · exact snap.blkOnly hh e hm.1
    · unfold PhaseInv
      by_cases he : km.2.isEmpty = true <;> simp [he]
  | _ => simpa [hp] using h


theorem blk_iff {w : WL} {c : Nat} : w.blk c = true ↔ ∃ e, w.get c = some e ∧ e.ty = .block := by
  unfold WL.blk
  cases hg : w.get c with
  | none => simp
  | some e => simp

/-- after a markSent loop, a cid that was in `pending` or `sent` still is, and block-typed stays block-typed -/
theorem markFold_keeps (l : List Ent) (hl : (l.map (·.cid)).Nodup) (m : MarkSt) (c : Nat) :
    ((m.r.pending.has c = true ∨ m.r.sent.has c = true) →
      ((l.foldl markOne m).r.pending.has c = true ∨ (l.foldl markOne m).r.sent.has c = true)) ∧
    ((m.r.pending.blk c = true ∨ m.r.sent.blk c = true) →
      ((l.foldl markOne m).r.pending.blk c = true ∨ (l.foldl markOne m).r.sent.blk c = true)) := by
  obtain ⟨_, _, _, _, _, Mu, Mok, Mfail⟩ := markFold_spec l hl m
  by_cases hP : c ∈ l.map (·.cid)
  · obtain ⟨e, he, hce⟩ := List.mem_map.mp hP
    have hce : e.cid = c := hce
    by_cases ok : m.r.pending.get e.cid = some e
    · obtain ⟨a1, a2, _, _⟩ := Mok e he ok
      rw [hce] at a1 a2 ok
      refine ⟨fun _ => .inr (has_of_get_add a2), fun hb => .inr ?_⟩
      rw [blk_congr a2, WL.blk_add]
      simp only [↓reduceIte, Bool.or_eq_true, beq_iff_eq]
      rcases hb with hb | hb
      · right
        obtain ⟨x, hx, hty⟩ := blk_iff.mp hb
        rw [ok] at hx
        simp only [Option.some.injEq] at hx
        rw [hx]; exact hty
      · exact .inl hb
    · obtain ⟨a1, a2, _, _⟩ := Mfail e he ok
      rw [hce] at a1 a2
      rw [has_congr a1, has_congr a2, blk_congr a1, blk_congr a2]
      exact ⟨id, id⟩
  · obtain ⟨a1, a2, _, _⟩ := Mu c hP
    rw [has_congr a1, has_congr a2, blk_congr a1, blk_congr a2]
    exact ⟨id, id⟩

theorem ginv_doMarkOld {cfg : Cfg} {s : St} (hi : Inv cfg s) (h : GInv cfg s) : GInv cfg (doMarkOld s) := by
  unfold doMarkOld
  cases hp : s.ph with
  | built pe be cs msg =>
    simp only
    have hph := hi.ph
    unfold PhaseInv at hph
    rw [hp] at hph
    obtain ⟨snap, hmsg⟩ := hph
    obtain ⟨_, _, _, w4, w5, _, _, _⟩ :=
      markFold_spec pe snap.ndp { r := s.q.peer, cancels := s.q.cancels, msg := msg, marked := [] }
    have k1 := markFold_keeps pe snap.ndp { r := s.q.peer, cancels := s.q.cancels, msg := msg, marked := [] }
    generalize hm1 : pe.foldl markOne { r := s.q.peer, cancels := s.q.cancels, msg := msg, marked := [] } = m1 at *
    obtain ⟨_, _, _, v4, v5, _, _, _⟩ :=
      markFold_spec be snap.ndb { r := s.q.bcst, cancels := m1.cancels, msg := m1.msg, marked := [] }
    have k2 := markFold_keeps be snap.ndb { r := s.q.bcst, cancels := m1.cancels, msg := m1.msg, marked := [] }
    generalize hm2 : be.foldl markOne { r := s.q.bcst, cancels := m1.cancels, msg := m1.msg, marked := [] } = m2 at *
    simp only at w4 w5 v4 v5 k1 k2
    -- membership in the new lists goes back to membership in the old ones
    have memP : ∀ e, (e ∈ m1.r.pending ∨ e ∈ m1.r.sent) → (e ∈ s.q.peer.pending ∨ e ∈ s.q.peer.sent) := by
      intro e he
      rcases he with he | he
      · exact .inl (w4 e he)
      · rcases w5 e he with he | he
        · exact .inr he
        · exact .inl he.2
    have memB : ∀ e, (e ∈ m2.r.pending ∨ e ∈ m2.r.sent) → (e ∈ s.q.bcst.pending ∨ e ∈ s.q.bcst.sent) := by
      intro e he
      rcases he with he | he
      · exact .inl (v4 e he)
      · rcases v5 e he with he | he
        · exact .inr he
        · exact .inl he.2
    refine ⟨?_, ?_, ?_, ?_, ?_, ?_⟩
    · intro c hc
      simp only at hc ⊢
      have : ∃ e, e.cid = c ∧ (e ∈ m1.r.pending ∨ e ∈ m1.r.sent) := by
        rcases hc with hc | hc
        · obtain ⟨e, he⟩ := WL.has_iff.mp hc
          exact ⟨e, WL.get_some_cid he, .inl (WL.get_some_mem he)⟩
        · obtain ⟨e, he⟩ := WL.has_iff.mp hc
          exact ⟨e, WL.get_some_cid he, .inr (WL.get_some_mem he)⟩
      obtain ⟨e, hce, he⟩ := this
      subst hce
      rcases memP e he with he | he
      · exact h.g1 _ (.inl (WL.has_of_mem he))
      · exact h.g1 _ (.inr (WL.has_of_mem he))
    · intro c hc
      simp only at hc ⊢
      have : ∃ e, e.cid = c ∧ (e ∈ m2.r.pending ∨ e ∈ m2.r.sent) := by
        rcases hc with hc | hc
        · obtain ⟨e, he⟩ := WL.has_iff.mp hc
          exact ⟨e, WL.get_some_cid he, .inl (WL.get_some_mem he)⟩
        · obtain ⟨e, he⟩ := WL.has_iff.mp hc
          exact ⟨e, WL.get_some_cid he, .inr (WL.get_some_mem he)⟩
      obtain ⟨e, hce, he⟩ := this
      subst hce
      rcases memB e he with he | he
      · exact h.g2 _ (.inl (WL.has_of_mem he))
      · exact h.g2 _ (.inr (WL.has_of_mem he))
    · intro c hc
      simp only at hc ⊢
      have : ∃ e, e.cid = c ∧ e.ty = .block ∧ (e ∈ m1.r.pending ∨ e ∈ m1.r.sent) := by
        rcases hc with hc | hc
        · obtain ⟨e, he, hty⟩ := blk_iff.mp hc
          exact ⟨e, WL.get_some_cid he, hty, .inl (WL.get_some_mem he)⟩
        · obtain ⟨e, he, hty⟩ := blk_iff.mp hc
          exact ⟨e, WL.get_some_cid he, hty, .inr (WL.get_some_mem he)⟩
      obtain ⟨e, hce, hty, he⟩ := this
      subst hce
      rcases memP e he with he | he
      · exact h.g3 _ (.inl (blk_iff.mpr ⟨e, WL.get_of_mem hi.wfpp he, hty⟩))
      · exact h.g3 _ (.inr (blk_iff.mpr ⟨e, WL.get_of_mem hi.wfps he, hty⟩))
    · intro hh c hc
      simp only at hc ⊢
      exact (k1 c).1 (h.g4 hh c hc)
    · intro c hc
      simp only at hc ⊢
      exact (k1 c).2 (h.g5 c hc)
    · intro c hc
      simp only at hc ⊢
      exact (k2 c).1 (h.g6 c hc)
  | _ => simpa [hp] using h


theorem inv_doMark {cfg : Cfg} {s : St} (h : Inv cfg s) : Inv cfg (doMark s) := by
  obtain ⟨e1, e2, e3, _, _⟩ := doMark_eq s
  have ho := inv_doMarkOld h
  exact ho.congr (by rw [e1]) (by rw [e1]) (by rw [e1]) (by rw [e1]) (by rw [e1]) (by rw [e1])
    (effPeer_congr e2 e3) (ho.ph.congr (by rw [e1]) (by rw [e1]) (by rw [e1]) e2)

theorem ginv_doMark {cfg : Cfg} {s : St} (hi : Inv cfg s) (h : GInv cfg s) : GInv cfg (doMark s) := by
  obtain ⟨e1, _, _, e4, e5⟩ := doMark_eq s
  exact (ginv_doMarkOld hi h).congr (by rw [e1]) (by rw [e1]) (by rw [e1]) (by rw [e1]) e4 e5

/-- the invariant holds in every reachable state -/
theorem reach_inv {cfg : Cfg} {s : St} (h : Reach cfg s) : Inv cfg s ∧ GInv cfg s := by
  induction h with
  | init => exact ⟨inv_init cfg, ginv_init cfg⟩
  | @step s e _ hen ih =>
    obtain ⟨hi, hg⟩ := ih
    cases e with
    | want bs hs => exact ⟨inv_addWants hi bs hs, ginv_addWants hg bs hs⟩
    | bcast cs => exact ⟨inv_addBcast hi cs, ginv_addBcast hg cs⟩
    | cancel cs => exact ⟨inv_addCancels hi cs, ginv_addCancels hg cs⟩
    | resp cs => exact ⟨inv_response hi cs, ginv_response hg cs⟩
    | refresh k => exact ⟨inv_doRefresh hi k hen, ginv_doRefresh hi hg k⟩
    | snap cs => exact ⟨inv_doSnap hi cs hen, ginv_doSnap hi hg cs⟩
    | fill k => exact ⟨inv_doFill hi k, ginv_doFill hg k⟩
    | mark => exact ⟨inv_doMark hi, ginv_doMark hi hg⟩
    | deliver => exact ⟨inv_doDeliver hi, ginv_doDeliver hg⟩
    | wake =>
      exact ⟨hi.congr rfl rfl rfl rfl rfl rfl (by
          have : isIdle s.ph = true := hen.1
          unfold effPeer; cases hp : s.ph <;> simp_all [isIdle, step]) (by simp [PhaseInv, step]),
        hg.congr rfl rfl rfl rfl rfl rfl⟩
    | timer => exact ⟨hi.congr rfl rfl rfl rfl rfl rfl rfl (hi.ph.congr rfl rfl rfl rfl), hg.congr rfl rfl rfl rfl rfl rfl⟩

end C35
