/-
C35 — bitswap client message queue: executable small-step model.

Transcribed from /repo/bitswap/client/internal/messagequeue/messagequeue.go (with the three `fix:`
commits of branch verif/bsclient), /repo/bitswap/client/wantlist/wantlist.go and the wantlist part of
/repo/bitswap/message/message.go:

  wantlist.Wantlist {set}                 ~ `WL` (association list, one entry per cid)
  recallWantlist {pending, sent, sentAt}  ~ `RWL`
  MessageQueue {bcstWants, peerWants, cancels, priority}  ~ `Q`
  message.impl.wantlist + addEntry/Remove ~ `Msg`
  the sender goroutine                    ~ `Phase`: the local variables of extractOutgoingMessage /
                                            sendMessage that live across the lock-protected sections

Granularity: every producer call (AddWants, AddBroadcastWantHaves, AddCancels, handleResponse) holds
`wllock` for all its accesses, so it is one atomic step.  The sender is cut at its lock boundaries:
  refresh  rebroadcastWantlist's locked section
  snap     extractOutgoingMessage, first locked section  (phase A)
  fill     the unlocked message construction             (phase B; touches only sender-local data)
  mark     second locked section (markSent / prune)      (phase C)
  deliver  SendMsg (the peer receives the message) followed by onSent's locked section (phase D)
Any producer step may occur between any two sender steps.

Ghost components (not in the Go code): `peerWL` = the sent messages replayed onto an empty
client/wantlist.Wantlist; `pw`/`bw` = what the client currently wants from this peer; `clock` = number
of delivered messages (stands for time.Now() in sentAt).
Core-only (no Mathlib): this file is also imported by the line-protocol driver.
-/
namespace C35

inductive WT where
  | block | have
  deriving DecidableEq, Repr, Inhabited

/-- wantlist.Entry -/
structure Ent where
  cid : Nat
  prio : Int
  ty : WT
  deriving DecidableEq, Repr, Inhabited

/-- wantlist.Wantlist -/
abbrev WL := List Ent

namespace WL
def get (w : WL) (c : Nat) : Option Ent := w.find? (fun e => e.cid == c)
def has (w : WL) (c : Nat) : Bool := (get w c).isSome
def del (w : WL) (c : Nat) : WL := w.filter (fun e => e.cid != c)
/-- Wantlist.Add: adding want-have does not override want-block; an existing want-block is kept -/
def add (w : WL) (c : Nat) (p : Int) (t : WT) : WL :=
  match get w c with
  | some e => if e.ty = .block ∨ t = .have then w else ⟨c, p, t⟩ :: del w c
  | none => ⟨c, p, t⟩ :: del w c
/-- Wantlist.RemoveType: removing want-have does not remove want-block -/
def removeType (w : WL) (c : Nat) (t : WT) : WL :=
  match get w c with
  | none => w
  | some e => if e.ty = .block ∧ t = .have then w else del w c
/-- insertion into a list sorted by priority, highest first -/
def insertE (e : Ent) : List Ent → List Ent
  | [] => [e]
  | x :: r => if e.prio ≥ x.prio then e :: x :: r else x :: insertE e r
/-- Wantlist.Entries: sorted by priority, highest first (priorities within one list are distinct, so
every sorting algorithm gives this order; a structurally recursive one keeps the model evaluable by
`decide`) -/
def entries (w : WL) : List Ent := w.foldr insertE []
end WL

/-- sentAt map: cid ↦ epoch -/
abbrev AtMap := List (Nat × Nat)
namespace AtMap
def get (m : AtMap) (c : Nat) : Option Nat := (m.find? (fun x => x.1 == c)).map (·.2)
def del (m : AtMap) (c : Nat) : AtMap := m.filter (fun x => x.1 != c)
end AtMap

/-- recallWantlist -/
structure RWL where
  pending : WL := []
  sent : WL := []
  sentAt : AtMap := []

namespace RWL
/-- recallWantlist.remove -/
def remove (r : RWL) (c : Nat) : RWL :=
  { pending := r.pending.del c, sent := r.sent.del c, sentAt := r.sentAt.del c }
/-- recallWantlist.removeType -/
def removeType (r : RWL) (c : Nat) (t : WT) : RWL :=
  let s := r.sent.removeType c t
  { pending := r.pending.removeType c t, sent := s, sentAt := if s.has c then r.sentAt else r.sentAt.del c }
/-- recallWantlist.setSentAt -/
def setSentAt (r : RWL) (c : Nat) (now : Nat) : RWL :=
  if r.sent.has c ∧ (r.sentAt.get c).isNone then { r with sentAt := (c, now) :: r.sentAt } else r
/-- recallWantlist.clearSentAt -/
def clearSentAt (r : RWL) (c : Nat) : RWL := { r with sentAt := r.sentAt.del c }
/-- the wants `refresh` selects: sent entries whose sentAt is at most `k` (now - sentAt ≥ interval) -/
def due (r : RWL) (k : Nat) : List Ent :=
  r.sent.entries.filter (fun e => match r.sentAt.get e.cid with | some t => t ≤ k | none => false)
/-- recallWantlist.refresh (fixed: the want stays in `sent`) -/
def refresh (r : RWL) (k : Nat) : RWL :=
  { r with pending := (r.due k).foldl (fun p e => p.add e.cid e.prio e.ty) r.pending }
end RWL

/-- the lock-protected fields of MessageQueue -/
structure Q where
  bcst : RWL := {}
  peer : RWL := {}
  cancels : List Nat := []
  prio : Int := 2147483647

/-- message.Entry -/
structure MEnt where
  cid : Nat
  prio : Int
  ty : WT
  cancel : Bool
  sdh : Bool
  deriving DecidableEq, Repr, Inhabited

/-- message.impl.wantlist -/
abbrev Msg := List MEnt

namespace Msg
def get (m : Msg) (c : Nat) : Option MEnt := m.find? (fun e => e.cid == c)
/-- impl.Remove -/
def remove (m : Msg) (c : Nat) : Msg := m.filter (fun e => e.cid != c)
/-- merge rule of impl.addEntry for an existing entry -/
def merge (e a : MEnt) : MEnt :=
  { cid := e.cid
    prio := if e.ty = a.ty then a.prio else e.prio
    ty := if a.ty = .block ∧ e.ty = .have then .block else e.ty
    cancel := e.cancel || a.cancel
    sdh := e.sdh || a.sdh }
/-- impl.addEntry (the returned size is computed separately, see `addSize`) -/
def addEntry (m : Msg) (a : MEnt) : Msg :=
  match get m a.cid with
  | some e => merge e a :: remove m a.cid
  | none => a :: remove m a.cid
end Msg

structure Cfg where
  maxSize : Nat
  supportsHave : Bool
  cidLen : Nat → Nat

def varintLen (n : Nat) : Nat := if n < 128 then 1 else 1 + varintLen (n / 128)
termination_by n
decreasing_by omega

/-- proto.Size of a Message_Wantlist_Entry (proto3: zero values are not encoded; int32 is
sign-extended to 64 bits) -/
def entSize (cfg : Cfg) (a : MEnt) : Nat :=
  let l := cfg.cidLen a.cid
  (if l = 0 then 0 else 1 + varintLen l + l)
  + (if a.prio = 0 then 0 else if a.prio < 0 then 11 else 1 + varintLen a.prio.toNat)
  + (if a.cancel then 2 else 0) + (if a.ty = .have then 2 else 0) + (if a.sdh then 2 else 0)

/-- the value addEntry returns: 0 when the cid is already in the message -/
def addSize (cfg : Cfg) (m : Msg) (a : MEnt) : Nat :=
  match m.get a.cid with
  | some _ => 0
  | none => entSize cfg a

def cancelArg (c : Nat) : MEnt := ⟨c, 0, .block, true, false⟩                 -- msg.Cancel(c)
def peerArg (e : Ent) : MEnt := ⟨e.cid, e.prio, e.ty, false, true⟩            -- AddEntry(.., e.WantType, true)
def bcstArg (cfg : Cfg) (e : Ent) : MEnt :=                                      -- AddEntry(.., wantType, false)
  ⟨e.cid, e.prio, if cfg.supportsHave then .have else .block, false, false⟩

/-- The three fill loops of extractOutgoingMessage are one loop over cancels ++ peer entries ++
broadcast entries that stops (goto FINISH) as soon as the size reaches the limit: the number of
items put into the message. -/
def fillCount (cfg : Cfg) : List MEnt → Msg → Nat → Nat
  | [], _, _ => 0
  | a :: r, m, sz =>
    let sz' := sz + addSize cfg m a
    if sz' ≥ cfg.maxSize then 1 else 1 + fillCount cfg r (m.addEntry a) sz'

def buildMsg (items : List MEnt) : Msg := items.foldl Msg.addEntry []

/-- sender-local state that lives across the locked sections -/
inductive Phase where
  | idle
  /-- rebroadcastWantlist refreshed something and is about to call sendMessage -/
  | pre
  /-- after phase A: peerEntries, bcstEntries, cancels -/
  | snap (pe be : List Ent) (cs : List Nat)
  /-- after phase B: the included prefixes and the message -/
  | built (pe be : List Ent) (cs : List Nat) (msg : Msg)
  /-- after phase C: entries that were marked as sent (Cid still defined) and the message handed to SendMsg -/
  | flight (pe be : List Ent) (msg : Msg)

structure St where
  q : Q := {}
  ph : Phase := .idle
  clock : Nat := 0
  /-- ghost: the peer's want-list = replay of the delivered messages -/
  peerWL : WL := []
  /-- ghost: strongest want type requested for this peer since the last cancel -/
  pw : Nat → Option WT := fun _ => none
  /-- ghost: broadcast want requested since the last cancel -/
  bw : Nat → Bool := fun _ => false
  /-- run loop: a token is waiting in `outgoingWork` (signalWorkReady) -/
  sig : Bool := false
  /-- run loop: `hasWorkChan` is non-nil (the loop listens for work signals) -/
  loopOn : Bool := true
  /-- run loop: the `scheduleWork` debounce timer is armed (it re-enables `hasWorkChan` when it fires) -/
  armed : Bool := false
  /-- run loop: the current sendMessage call was started by a work signal (`case <-hasWorkChan`) -/
  byWake : Bool := false

/-! ### producer calls (each holds wllock throughout) -/

def addPeerWant (s : St) (t : WT) (c : Nat) : St :=
  { s with
    q := { s.q with peer := { s.q.peer with pending := s.q.peer.pending.add c s.q.prio t }, prio := s.q.prio - 1 }
    pw := fun x => if x = c then (if t = .block ∨ s.pw c = some .block then some .block else some .have) else s.pw x
    sig := true }

/-- AddWants(wantBlocks, wantHaves): the want-haves are added first; signalWorkReady unless both lists are empty -/
def addWants (s : St) (bs hs : List Nat) : St :=
  bs.foldl (addPeerWant · .block) (hs.foldl (addPeerWant · .have) s)

def addBcstWant (s : St) (c : Nat) : St :=
  { s with
    q := { s.q with bcst := { s.q.bcst with pending := s.q.bcst.pending.add c s.q.prio .have }, prio := s.q.prio - 1 }
    bw := fun x => if x = c then true else s.bw x
    sig := true }

/-- AddBroadcastWantHaves -/
def addBcast (s : St) (cs : List Nat) : St := cs.foldl addBcstWant s

def insertSorted (c : Nat) : List Nat → List Nat
  | [] => [c]
  | x :: r => if c < x then c :: x :: r else if c = x then x :: r else x :: insertSorted c r

def cancelOne (s : St) (c : Nat) : St :=
  let was := s.q.bcst.sent.has c || s.q.peer.sent.has c
  { s with
    q := { s.q with bcst := s.q.bcst.remove c, peer := s.q.peer.remove c,
                    cancels := if was then insertSorted c s.q.cancels else s.q.cancels }
    pw := fun x => if x = c then none else s.pw x
    bw := fun x => if x = c then false else s.bw x
    sig := s.sig || was }

/-- AddCancels -/
def addCancels (s : St) (cs : List Nat) : St := cs.foldl cancelOne s

/-- handleResponse (the latency bookkeeping is not modelled) -/
def response (s : St) (cs : List Nat) : St :=
  cs.foldl (fun s c => { s with q := { s.q with bcst := s.q.bcst.clearSentAt c, peer := s.q.peer.clearSentAt c } }) s

/-! ### sender steps -/

/-- number of wants `rebroadcastWantlist` transfers -/
def refreshCount (s : St) (k : Nat) : Nat := (s.q.bcst.due k).length + (s.q.peer.due k).length

def doRefresh (s : St) (k : Nat) : St :=
  { s with q := { s.q with bcst := s.q.bcst.refresh k, peer := s.q.peer.refresh k },
           ph := if refreshCount s k > 0 then .pre else .idle }

/-- phase A, non-HAVE peer: want-haves are dropped from the peer want lists -/
def dropHaves (q : Q) : Q :=
  { q with peer := (q.peer.pending.entries.filter (fun e => e.ty = .have)).foldl (fun r e => r.removeType e.cid .have) q.peer }

/-- the queue after phase A -/
def snapQ (cfg : Cfg) (q : Q) : Q := if cfg.supportsHave then q else dropHaves q

/-- phase A's cancel snapshot (fixed: cancels whose cid has a pending want again are withheld);
    in cid order, as the verif hook sorts mq.cancels.Keys() -/
def snapCancels (q : Q) : List Nat :=
  q.cancels.filter (fun c => !q.peer.pending.has c && !q.bcst.pending.has c)

/-- phase A with an arbitrary order / choice `cs` of the cancel snapshot (Go: map iteration order).
    Enabled when `cs` is duplicate-free and drawn from `snapCancels`. -/
def doSnap (cfg : Cfg) (s : St) (cs : List Nat) : St :=
  let q := snapQ cfg s.q
  { s with q := q, ph := .snap q.peer.pending.entries q.bcst.pending.entries cs }

def items (cfg : Cfg) (cs : List Nat) (pe be : List Ent) : List MEnt :=
  cs.map cancelArg ++ pe.map peerArg ++ be.map (bcstArg cfg)

/-- phase B when `k` items fit -/
def doFill (cfg : Cfg) (s : St) (k : Nat) : St :=
  match s.ph with
  | .snap pe be cs =>
    let cs' := cs.take k
    let pe' := pe.take (k - cs.length)
    let be' := be.take (k - cs.length - pe.length)
    -- (items cfg cs pe be).take k = items cfg cs' pe' be'
    { s with ph := .built pe' be' cs' (buildMsg (items cfg cs' pe' be')) }
  | _ => s

/-- the `k` the Go loop computes -/
def fillK (cfg : Cfg) (s : St) : Nat :=
  match s.ph with
  | .snap pe be cs => fillCount cfg (items cfg cs pe be) [] 0
  | _ => 0

/-- loop state of phase C for one recallWantlist -/
structure MarkSt where
  r : RWL
  cancels : List Nat
  msg : Msg
  marked : List Ent

/-- one iteration of the markSent loops (fixed: identical entry required; clears a queued cancel) -/
def markOne (m : MarkSt) (e : Ent) : MarkSt :=
  if m.r.pending.get e.cid = some e then
    { r := { m.r with pending := m.r.pending.del e.cid, sent := m.r.sent.add e.cid e.prio e.ty }
      cancels := m.cancels.filter (· != e.cid)
      msg := m.msg
      marked := m.marked ++ [e] }
  else
    { m with msg := m.msg.remove e.cid }

/-- one iteration of the cancel pruning loop -/
def pruneOne (km : List Nat × Msg) (c : Nat) : List Nat × Msg :=
  if km.1.contains c then (km.1.filter (· != c), km.2) else (km.1, km.2.remove c)

/-- pendingWorkCount -/
def workCount (q : Q) : Nat := q.bcst.pending.length + q.peer.pending.length + q.cancels.length

/-- sendMessage returns to runQueue; after `case <-hasWorkChan` the loop stops listening for work
signals and arms the debounce timer. `work` = signalWorkReady is called before returning. -/
def returnToLoop (s : St) (work : Bool) : St :=
  { s with ph := .idle, sig := s.sig || work,
           loopOn := if s.byWake then false else s.loopOn, armed := if s.byWake then true else s.armed,
           byWake := false }

/-- phase C -/
def doMark (s : St) : St :=
  match s.ph with
  | .built pe be cs msg =>
    let m1 := pe.foldl markOne { r := s.q.peer, cancels := s.q.cancels, msg := msg, marked := [] }
    let m2 := be.foldl markOne { r := s.q.bcst, cancels := m1.cancels, msg := m1.msg, marked := [] }
    let km := cs.foldl pruneOne (m2.cancels, m2.msg)
    let s' := { s with q := { s.q with peer := m1.r, bcst := m2.r, cancels := km.1 } }
    -- `if message.Empty()`: sendMessage returns (fixed: after signalling any work that is left)
    if km.2.isEmpty then returnToLoop s' (workCount s'.q > 0)
    else { s' with ph := .flight m1.marked m2.marked km.2 }
  | _ => s

/-- the receiving side: a cancel removes the cid, a want is added with Wantlist.Add -/
def recvOne (w : WL) (e : MEnt) : WL := if e.cancel then w.del e.cid else w.add e.cid e.prio e.ty

def recv (w : WL) (m : Msg) : WL := m.foldl recvOne w

/-- phase D: SendMsg, then onSent -/
def doDeliver (s : St) : St :=
  match s.ph with
  | .flight pe be msg =>
    let now := s.clock + 1
    let s' := { s with
      q := { s.q with peer := pe.foldl (fun r e => r.setSentAt e.cid now) s.q.peer,
                      bcst := be.foldl (fun r e => r.setSentAt e.cid now) s.q.bcst }
      clock := now, peerWL := recv s.peerWL msg }
    -- below sendMessageCutoff: signal the work that is left and return; otherwise extract again at once
    if workCount s'.q < 256 then returnToLoop s' (workCount s'.q > 0) else { s' with ph := .pre }
  | _ => s

/-! ### the step system -/

inductive Ev where
  | want (bs hs : List Nat)
  | bcast (cs : List Nat)
  | cancel (cs : List Nat)
  | resp (cs : List Nat)
  | refresh (k : Nat)
  | snap (cs : List Nat)
  | fill (k : Nat)
  | mark
  | deliver
  /-- runQueue: `case <-hasWorkChan` -/
  | wake
  /-- runQueue: `case <-scheduleWork.C` -/
  | timer

def isIdle : Phase → Bool
  | .idle => true
  | _ => false
def isIdleOrPre : Phase → Bool
  | .idle => true
  | .pre => true
  | _ => false
def isSnap : Phase → Bool
  | .snap .. => true
  | _ => false
def isBuilt : Phase → Bool
  | .built .. => true
  | _ => false
def isFlight : Phase → Bool
  | .flight .. => true
  | _ => false

/-- which events are possible in a state -/
def enabled (cfg : Cfg) (s : St) : Ev → Prop
  | .refresh _ => isIdle s.ph = true
  | .snap cs => isIdleOrPre s.ph = true ∧ cs.Nodup ∧ ∀ c ∈ cs, c ∈ snapCancels (snapQ cfg s.q)
  | .fill _ => isSnap s.ph = true
  | .mark => isBuilt s.ph = true
  | .deliver => isFlight s.ph = true
  | .wake => isIdle s.ph = true ∧ s.loopOn = true ∧ s.sig = true
  | .timer => s.armed = true
  | _ => True

def step (cfg : Cfg) (s : St) : Ev → St
  | .want bs hs => addWants s bs hs
  | .bcast cs => addBcast s cs
  | .cancel cs => addCancels s cs
  | .resp cs => response s cs
  | .refresh k => doRefresh s k
  | .snap cs => doSnap cfg s cs
  | .fill k => doFill cfg s k
  | .mark => doMark s
  | .deliver => doDeliver s
  | .wake => { s with sig := false, ph := .pre, byWake := true }
  | .timer => { s with armed := false, loopOn := true }

/-- states reachable from the freshly constructed queue by any interleaving -/
inductive Reach (cfg : Cfg) : St → Prop
  | init : Reach cfg {}
  | step {s : St} (e : Ev) : Reach cfg s → enabled cfg s e → Reach cfg (step cfg s e)

/-- the queue is idle: no extraction in progress, nothing pending, no cancel queued (HasMessage() = false) -/
def St.quiet (s : St) : Prop :=
  isIdle s.ph = true ∧ s.q.peer.pending = [] ∧ s.q.bcst.pending = [] ∧ s.q.cancels = []

end C35
