import BoxoModel.C35.Types
/-! The run loop's work signal (C35): no wake-up is lost. -/
namespace C35

structure LInv (s : St) : Prop where
  /-- whenever the sender is back in the run loop's select and there is work, a signal is waiting -/
  l1 : isIdle s.ph = true → workCount s.q > 0 → s.sig = true
  /-- the loop listens for work signals, or the timer that makes it listen again is armed -/
  l2 : s.loopOn = true ∨ s.armed = true

theorem linv_init : LInv {} where
  l1 := by intro _ h; simp [workCount] at h
  l2 := .inl rfl

theorem length_del_le (w : WL) (c : Nat) : (w.del c).length ≤ w.length := List.length_filter_le _ _

theorem linv_cancelOne {s : St} (h : LInv s) (c : Nat) : LInv (cancelOne s c) := by
  refine ⟨?_, h.l2⟩
  intro hi hw
  simp only [cancelOne] at hi hw ⊢
  by_cases hwas : (s.q.bcst.sent.has c || s.q.peer.sent.has c) = true
  · simp [hwas]
  · have hwas' : (s.q.bcst.sent.has c || s.q.peer.sent.has c) = false := by simpa using hwas
    simp only [hwas', Bool.or_false]
    apply h.l1 hi
    simp only [workCount, RWL.remove, hwas', Bool.false_eq_true, ↓reduceIte] at hw ⊢
    have := length_del_le s.q.bcst.pending c
    have := length_del_le s.q.peer.pending c
    omega

theorem due_nil_of_count {s : St} {k : Nat} (h : ¬ refreshCount s k > 0) :
    s.q.bcst.due k = [] ∧ s.q.peer.due k = [] := by
  unfold refreshCount at h
  constructor <;> apply List.eq_nil_of_length_eq_zero <;> omega

theorem linv_doRefresh {s : St} (h : LInv s) (k : Nat) (hi : isIdle s.ph = true) : LInv (doRefresh s k) := by
  refine ⟨?_, h.l2⟩
  intro hi' hw
  unfold doRefresh at hi' hw ⊢
  by_cases hc : refreshCount s k > 0
  · simp [hc, isIdle] at hi'
  · obtain ⟨d1, d2⟩ := due_nil_of_count hc
    simp only [RWL.refresh, d1, d2, List.foldl_nil, workCount] at hw ⊢
    exact h.l1 hi hw

theorem linv_doMark {s : St} (h : LInv s) : LInv (doMark s) := by
  unfold doMark
  cases hp : s.ph with
  | built pe be cs msg =>
    simp only
    split
    · refine ⟨?_, ?_⟩
      · intro _ hw
        simp only [returnToLoop] at hw ⊢
        simp [hw]
      · simp only [returnToLoop]
        by_cases hb : s.byWake = true
        · simp [hb]
        · simpa [hb] using h.l2
    · exact ⟨by intro hi; simp [isIdle] at hi, h.l2⟩
  | _ => simpa [hp] using h

theorem linv_doDeliver {s : St} (h : LInv s) : LInv (doDeliver s) := by
  unfold doDeliver
  cases hp : s.ph with
  | flight pe be msg =>
    simp only
    split
    · refine ⟨?_, ?_⟩
      · intro _ hw
        simp only [returnToLoop] at hw ⊢
        simp [hw]
      · simp only [returnToLoop]
        by_cases hb : s.byWake = true
        · simp [hb]
        · simpa [hb] using h.l2
    · exact ⟨by intro hi; simp [isIdle] at hi, h.l2⟩
  | _ => simpa [hp] using h

theorem reach_linv {cfg : Cfg} {s : St} (h : Reach cfg s) : LInv s := by
  induction h with
  | init => exact linv_init
  | @step s e hr hen ih =>
    cases e with
    | want bs hs =>
      have one : ∀ (t : WT) (s : St) (c : Nat), LInv s → LInv (addPeerWant s t c) :=
        fun t s c hs => ⟨fun _ _ => rfl, hs.l2⟩
      exact inv_foldl _ LInv (fun s a hs => one .block s a hs) _ _
        (inv_foldl _ LInv (fun s a hs => one .have s a hs) _ _ ih)
    | bcast cs =>
      have one : ∀ (s : St) (c : Nat), LInv s → LInv (addBcstWant s c) := fun s c hs => ⟨fun _ _ => rfl, hs.l2⟩
      exact inv_foldl _ LInv one _ _ ih
    | cancel cs => exact inv_foldl _ LInv (fun _ a hs => linv_cancelOne hs a) _ _ ih
    | resp cs =>
      refine inv_foldl _ LInv ?_ _ _ ih
      intro s c hs
      exact ⟨fun hi hw => hs.l1 hi hw, hs.l2⟩
    | refresh k => exact linv_doRefresh ih k hen
    | snap cs => exact ⟨by intro hi; simp [step, doSnap, isIdle] at hi, ih.l2⟩
    | fill k =>
      refine ⟨?_, ?_⟩
      · intro hi
        have : isSnap s.ph = true := hen
        simp only [step, doFill] at hi
        cases hp : s.ph <;> simp_all [isSnap, isIdle]
      · simp only [step, doFill]; cases hp : s.ph <;> simpa using ih.l2
    | mark => exact linv_doMark ih
    | deliver => exact linv_doDeliver ih
    | wake => exact ⟨by intro hi; simp [step, isIdle] at hi, ih.l2⟩
    | timer => exact ⟨fun hi hw => ih.l1 hi hw, .inl rfl⟩

end C35
