import BoxoModel.C35.Model
/-! Helper lemmas for C35 (property theorems are in `BoxoModel/Props/C35.lean`). -/
namespace C35

/-! ### wantlist.Wantlist as an association list -/
namespace WL

def blk (w : WL) (c : Nat) : Bool := match get w c with | some e => e.ty == .block | none => false

/-- at most one entry per cid -/
def WF (w : WL) : Prop := (w.map (·.cid)).Nodup

@[simp] theorem get_nil (c : Nat) : get [] c = none := rfl

theorem get_cons (e : Ent) (w : WL) (c : Nat) : get (e :: w) c = if e.cid = c then some e else get w c := by
  simp only [get, List.find?_cons]
  by_cases h : e.cid = c
  · simp [h]
  · have hb : (e.cid == c) = false := by simpa using h
    simp [h, hb]

theorem get_some_cid {w : WL} {c : Nat} {e : Ent} (h : get w c = some e) : e.cid = c := by
  have := List.find?_some h
  simpa using this

theorem get_some_mem {w : WL} {c : Nat} {e : Ent} (h : get w c = some e) : e ∈ w :=
  List.mem_of_find?_eq_some h

theorem get_del (w : WL) (c c' : Nat) : get (del w c) c' = if c' = c then none else get w c' := by
  induction w with
  | nil => simp [del]
  | cons e w ih =>
    simp only [del, List.filter_cons] at ih ⊢
    by_cases h : e.cid = c
    · simp only [h, bne_self_eq_false, Bool.false_eq_true, ↓reduceIte, ih, get_cons]
      by_cases h' : c' = c
      · simp [h']
      · have : ¬ c = c' := fun x => h' x.symm
        simp [h', this]
    · have hb : (e.cid != c) = true := by simpa using h
      simp only [hb, ↓reduceIte, get_cons, ih]
      by_cases h' : c' = c
      · simp [h', h]
      · simp [h']

theorem mem_del {w : WL} {c : Nat} {e : Ent} (h : e ∈ del w c) : e ∈ w := (List.mem_filter.mp h).1

theorem get_add (w : WL) (c : Nat) (p : Int) (t : WT) (c' : Nat) :
    get (add w c p t) c' =
      if c' = c then
        (match get w c with
         | some e => if e.ty = .block ∨ t = .have then some e else some ⟨c, p, t⟩
         | none => some ⟨c, p, t⟩)
      else get w c' := by
  unfold add
  by_cases h : c' = c
  · subst h
    cases hg : get w c' with
    | none => simp [get_cons]
    | some e =>
      by_cases hc : e.ty = .block ∨ t = .have
      · simp [hc, hg]
      · simp [hc, get_cons]
  · have h2 : ¬ c = c' := fun x => h x.symm
    cases hg : get w c with
    | none => simp [h, h2, get_cons, get_del]
    | some e =>
      by_cases hc : e.ty = .block ∨ t = .have
      · simp [hc, h]
      · simp [hc, h, h2, get_cons, get_del]

theorem mem_add {w : WL} {c : Nat} {p : Int} {t : WT} {e : Ent} (h : e ∈ add w c p t) :
    e ∈ w ∨ e = ⟨c, p, t⟩ := by
  unfold add at h
  split at h
  · split at h
    · exact .inl h
    · rcases List.mem_cons.mp h with h | h
      · exact .inr h
      · exact .inl (mem_del h)
  · rcases List.mem_cons.mp h with h | h
    · exact .inr h
    · exact .inl (mem_del h)

theorem get_removeType (w : WL) (c : Nat) (t : WT) (c' : Nat) :
    get (removeType w c t) c' =
      if c' = c then
        (match get w c with
         | some e => if e.ty = .block ∧ t = .have then some e else none
         | none => none)
      else get w c' := by
  unfold removeType
  by_cases h : c' = c
  · subst h
    cases hg : get w c' with
    | none => simp [hg]
    | some e =>
      by_cases hc : e.ty = .block ∧ t = .have
      · simp [hc, hg]
      · simp [hc, get_del]
  · cases hg : get w c with
    | none => simp [h]
    | some e =>
      by_cases hc : e.ty = .block ∧ t = .have
      · simp [hc, h]
      · simp [hc, h, get_del]

theorem mem_removeType {w : WL} {c : Nat} {t : WT} {e : Ent} (h : e ∈ removeType w c t) : e ∈ w := by
  unfold removeType at h
  split at h
  · exact h
  · split at h
    · exact h
    · exact mem_del h

theorem WF_nil : WF [] := by simp [WF]

theorem WF_del {w : WL} (h : WF w) (c : Nat) : WF (del w c) := by
  unfold WF del at *
  exact List.Nodup.sublist (List.Sublist.map _ List.filter_sublist) h

theorem not_mem_keys_del (w : WL) (c : Nat) : c ∉ (del w c).map (·.cid) := by
  intro h
  obtain ⟨e, he, hc⟩ := List.mem_map.mp h
  have := (List.mem_filter.mp he).2
  simp [hc] at this

theorem WF_add {w : WL} (h : WF w) (c : Nat) (p : Int) (t : WT) : WF (add w c p t) := by
  unfold add
  split
  · split
    · exact h
    · unfold WF; simp only [List.map_cons, List.nodup_cons]; exact ⟨not_mem_keys_del w c, WF_del h c⟩
  · unfold WF; simp only [List.map_cons, List.nodup_cons]; exact ⟨not_mem_keys_del w c, WF_del h c⟩

theorem WF_removeType {w : WL} (h : WF w) (c : Nat) (t : WT) : WF (removeType w c t) := by
  unfold removeType
  split
  · exact h
  · split
    · exact h
    · exact WF_del h c

/-- in a well-formed list every member is the entry found under its cid -/
theorem get_of_mem {w : WL} (h : WF w) {e : Ent} (he : e ∈ w) : get w e.cid = some e := by
  induction w with
  | nil => cases he
  | cons x w ih =>
    unfold WF at h
    simp only [List.map_cons, List.nodup_cons] at h
    rw [get_cons]
    rcases List.mem_cons.mp he with rfl | he'
    · simp
    · have hne : ¬ x.cid = e.cid := by
        intro hx
        exact h.1 (List.mem_map.mpr ⟨e, he', hx.symm⟩)
      simp [hne, ih h.2 he']

theorem insertE_perm (e : Ent) (l : List Ent) : (insertE e l).Perm (e :: l) := by
  induction l with
  | nil => exact List.Perm.refl _
  | cons x r ih =>
    unfold insertE
    by_cases h : e.prio ≥ x.prio
    · simp only [h, ↓reduceIte]; exact List.Perm.refl _
    · simp only [h, ↓reduceIte]
      exact (List.Perm.cons x ih).trans (List.Perm.swap e x r)

theorem entries_perm (w : WL) : (entries w).Perm w := by
  induction w with
  | nil => exact List.Perm.refl _
  | cons e w ih =>
    unfold entries at ih ⊢
    simp only [List.foldr_cons]
    exact (insertE_perm e _).trans (List.Perm.cons e ih)

theorem mem_entries {w : WL} {e : Ent} : e ∈ entries w ↔ e ∈ w := (entries_perm w).mem_iff

theorem entries_keys_nodup {w : WL} (h : WF w) : ((entries w).map (·.cid)).Nodup := by
  unfold WF at h
  exact (List.Perm.map _ (entries_perm w)).nodup_iff.mpr h

theorem has_iff {w : WL} {c : Nat} : has w c = true ↔ ∃ e, get w c = some e := by
  unfold has; cases get w c <;> simp

theorem has_of_mem {w : WL} {e : Ent} (he : e ∈ w) : has w e.cid = true := by
  unfold has get
  rw [List.find?_isSome]
  exact ⟨e, he, by simp⟩

theorem blk_has {w : WL} {c : Nat} (h : blk w c = true) : has w c = true := by
  unfold blk at h; unfold has
  cases hg : get w c <;> simp_all

theorem has_add (w : WL) (c : Nat) (p : Int) (t : WT) (c' : Nat) :
    has (add w c p t) c' = (decide (c' = c) || has w c') := by
  unfold has
  rw [get_add]
  by_cases h : c' = c
  · subst h
    cases hg : get w c' with
    | none => simp
    | some e => by_cases hx : e.ty = .block ∨ t = .have <;> simp [hx]
  · simp [h]

theorem blk_add (w : WL) (c : Nat) (p : Int) (t : WT) (c' : Nat) :
    blk (add w c p t) c' = if c' = c then (blk w c || t == .block) else blk w c' := by
  unfold blk
  rw [get_add]
  by_cases h : c' = c
  · subst h
    cases hg : get w c' with
    | none => simp
    | some e =>
      by_cases hx : e.ty = .block ∨ t = .have
      · rcases hx with hx | hx
        · simp [hx]
        · cases he : e.ty <;> simp [hx, he]
      · have h1 : e.ty = .have := by cases he : e.ty <;> simp_all
        have h2 : t = .block := by cases ht : t <;> simp_all
        simp [h1, h2]
  · simp [h]

theorem has_del (w : WL) (c c' : Nat) : has (del w c) c' = (decide (c' ≠ c) && has w c') := by
  unfold has; rw [get_del]; by_cases h : c' = c <;> simp [h]

theorem blk_del (w : WL) (c c' : Nat) : blk (del w c) c' = (decide (c' ≠ c) && blk w c') := by
  unfold blk; rw [get_del]; by_cases h : c' = c <;> simp [h]

theorem has_removeType_have (w : WL) (c c' : Nat) :
    has (removeType w c .have) c' = if c' = c then blk w c else has w c' := by
  unfold has blk
  rw [get_removeType]
  by_cases h : c' = c
  · subst h
    cases hg : get w c' with
    | none => simp
    | some e => cases he : e.ty <;> simp [he]
  · simp [h]

theorem blk_removeType_have (w : WL) (c c' : Nat) : blk (removeType w c .have) c' = blk w c' := by
  unfold blk
  rw [get_removeType]
  by_cases h : c' = c
  · subst h
    cases hg : get w c' with
    | none => simp
    | some e => cases he : e.ty <;> simp [he]
  · simp [h]

/-- a list without want-haves is not changed by RemoveType(c, Have) -/
theorem removeType_have_of_blk {w : WL} (h : ∀ c e, get w c = some e → e.ty = .block) (c : Nat) :
    removeType w c .have = w := by
  unfold removeType
  cases hg : get w c with
  | none => rfl
  | some e => simp [h c e hg]

theorem get_eq_none_of_has_false {w : WL} {c : Nat} (h : has w c = false) : get w c = none := by
  unfold has at h; cases hg : get w c <;> simp_all

theorem has_nil (c : Nat) : has [] c = false := rfl
theorem blk_nil (c : Nat) : blk [] c = false := rfl

end WL

/-! ### message.impl.wantlist -/
namespace Msg

def hasC (m : Msg) (c : Nat) : Bool := (get m c).isSome
def canc (m : Msg) (c : Nat) : Bool := match get m c with | some e => e.cancel | none => false
/-- the entry for `c` is a want-block -/
def blkC (m : Msg) (c : Nat) : Bool := match get m c with | some e => e.ty == .block | none => false
def WF (m : Msg) : Prop := (m.map (·.cid)).Nodup

@[simp] theorem get_nil (c : Nat) : get [] c = none := rfl

theorem get_cons (e : MEnt) (m : Msg) (c : Nat) : get (e :: m) c = if e.cid = c then some e else get m c := by
  simp only [get, List.find?_cons]
  by_cases h : e.cid = c
  · simp [h]
  · have hb : (e.cid == c) = false := by simpa using h
    simp [h, hb]

theorem get_remove (m : Msg) (c c' : Nat) : get (remove m c) c' = if c' = c then none else get m c' := by
  induction m with
  | nil => simp [remove]
  | cons e m ih =>
    simp only [remove, List.filter_cons] at ih ⊢
    by_cases h : e.cid = c
    · simp only [h, bne_self_eq_false, Bool.false_eq_true, ↓reduceIte, ih, get_cons]
      by_cases h' : c' = c
      · simp [h']
      · have : ¬ c = c' := fun x => h' x.symm
        simp [h', this]
    · have hb : (e.cid != c) = true := by simpa using h
      simp only [hb, ↓reduceIte, get_cons, ih]
      by_cases h' : c' = c
      · simp [h', h]
      · simp [h']

theorem get_addEntry (m : Msg) (a : MEnt) (c : Nat) :
    get (addEntry m a) c =
      if c = a.cid then some (match get m a.cid with | some e => merge e a | none => a) else get m c := by
  unfold addEntry
  by_cases h : c = a.cid
  · subst h
    cases hg : get m a.cid with
    | none => simp [get_cons]
    | some e =>
      have : e.cid = a.cid := by
        have := List.find?_some hg
        simpa using this
      simp [get_cons, merge, this]
  · have h2 : ¬ a.cid = c := fun x => h x.symm
    cases hg : get m a.cid with
    | none => simp [h, h2, get_cons, get_remove]
    | some e =>
      have : e.cid = a.cid := by
        have := List.find?_some hg
        simpa using this
      simp [h, get_cons, get_remove, merge, this, h2]

theorem hasC_addEntry (m : Msg) (a : MEnt) (c : Nat) : hasC (addEntry m a) c = (decide (c = a.cid) || hasC m c) := by
  unfold hasC
  rw [get_addEntry]
  by_cases h : c = a.cid <;> simp [h]

theorem canc_addEntry (m : Msg) (a : MEnt) (c : Nat) :
    canc (addEntry m a) c = if c = a.cid then (canc m c || a.cancel) else canc m c := by
  unfold canc
  rw [get_addEntry]
  by_cases h : c = a.cid
  · subst h
    cases hg : get m a.cid <;> simp [merge]
  · simp [h]

theorem hasC_remove (m : Msg) (c c' : Nat) : hasC (remove m c) c' = (decide (c' ≠ c) && hasC m c') := by
  unfold hasC
  rw [get_remove]
  by_cases h : c' = c <;> simp [h]

theorem canc_remove (m : Msg) (c c' : Nat) : canc (remove m c) c' = (decide (c' ≠ c) && canc m c') := by
  unfold canc
  rw [get_remove]
  by_cases h : c' = c <;> simp [h]

theorem WF_nil : WF [] := by simp [WF]

theorem WF_remove {m : Msg} (h : WF m) (c : Nat) : WF (remove m c) := by
  unfold WF remove at *
  exact List.Nodup.sublist (List.Sublist.map _ List.filter_sublist) h

theorem not_mem_keys_remove (m : Msg) (c : Nat) : c ∉ (remove m c).map (·.cid) := by
  intro h
  obtain ⟨e, he, hc⟩ := List.mem_map.mp h
  have := (List.mem_filter.mp he).2
  simp [hc] at this

theorem WF_addEntry {m : Msg} (h : WF m) (a : MEnt) : WF (addEntry m a) := by
  unfold addEntry
  split
  · rename_i e hg
    have : e.cid = a.cid := by
      have := List.find?_some hg
      simpa using this
    unfold WF; simp only [List.map_cons, List.nodup_cons, merge, this]
    exact ⟨not_mem_keys_remove m a.cid, WF_remove h a.cid⟩
  · unfold WF; simp only [List.map_cons, List.nodup_cons]
    exact ⟨not_mem_keys_remove m a.cid, WF_remove h a.cid⟩

theorem hasC_foldl (as : List MEnt) (m : Msg) (c : Nat) :
    hasC (as.foldl addEntry m) c = (hasC m c || as.any (fun a => a.cid == c)) := by
  induction as generalizing m with
  | nil => simp
  | cons a as ih =>
    simp only [List.foldl_cons, ih, hasC_addEntry, List.any_cons]
    by_cases h : c = a.cid
    · simp [h]
    · have : (a.cid == c) = false := by simpa using fun x => h x.symm
      simp [h, this]

theorem canc_foldl (as : List MEnt) (m : Msg) (c : Nat) :
    canc (as.foldl addEntry m) c = (canc m c || as.any (fun a => a.cid == c && a.cancel)) := by
  induction as generalizing m with
  | nil => simp
  | cons a as ih =>
    simp only [List.foldl_cons, ih, canc_addEntry, List.any_cons]
    by_cases h : c = a.cid
    · simp [h, Bool.or_assoc]
    · have : (a.cid == c) = false := by simpa using fun x => h x.symm
      simp [h, this]

theorem WF_foldl (as : List MEnt) {m : Msg} (h : WF m) : WF (as.foldl addEntry m) := by
  induction as generalizing m with
  | nil => exact h
  | cons a as ih => exact ih (WF_addEntry h a)

theorem hasC_false_of_not_mem {m : Msg} {c : Nat} (h : c ∉ m.map (·.cid)) : get m c = none := by
  unfold get
  rw [List.find?_eq_none]
  intro e he hc
  exact h (List.mem_map.mpr ⟨e, he, by simpa using hc⟩)

theorem blkC_addEntry (m : Msg) (a : MEnt) (c : Nat) :
    blkC (addEntry m a) c = if c = a.cid then (blkC m c || a.ty == .block) else blkC m c := by
  unfold blkC
  rw [get_addEntry]
  by_cases h : c = a.cid
  · subst h
    cases hg : get m a.cid with
    | none => simp
    | some e =>
      simp only [↓reduceIte, merge]
      cases he : e.ty <;> cases ha : a.ty <;> simp
  · simp [h]

theorem blkC_foldl (as : List MEnt) (m : Msg) (c : Nat) :
    blkC (as.foldl addEntry m) c = (blkC m c || as.any (fun a => a.cid == c && a.ty == .block)) := by
  induction as generalizing m with
  | nil => simp
  | cons a as ih =>
    simp only [List.foldl_cons, ih, blkC_addEntry, List.any_cons]
    by_cases h : c = a.cid
    · simp [h, Bool.or_assoc]
    · have : (a.cid == c) = false := by simpa using fun x => h x.symm
      simp [h, this]

end Msg

/-! ### the receiving side -/

theorem has_recvOne (w : WL) (e : MEnt) (c : Nat) :
    WL.has (recvOne w e) c = if c = e.cid then !e.cancel else WL.has w c := by
  unfold recvOne WL.has
  by_cases hc : e.cancel = true
  · simp only [hc, ↓reduceIte, WL.get_del]
    by_cases h : c = e.cid <;> simp [h]
  · have hc' : e.cancel = false := by simpa using hc
    simp only [hc', Bool.false_eq_true, ↓reduceIte, WL.get_add]
    by_cases h : c = e.cid
    · subst h
      cases hg : WL.get w e.cid with
      | none => simp
      | some x => by_cases hx : x.ty = .block ∨ e.ty = .have <;> simp [hx]
    · simp [h]

/-- what the peer holds after receiving a message: decided by the message's entry for the cid, if any -/
theorem has_recv {m : Msg} (hm : Msg.WF m) (w : WL) (c : Nat) :
    WL.has (recv w m) c = if Msg.hasC m c then !Msg.canc m c else WL.has w c := by
  induction m generalizing w with
  | nil => simp [recv, Msg.hasC]
  | cons e m ih =>
    unfold Msg.WF at hm
    simp only [List.map_cons, List.nodup_cons] at hm
    have ih' := ih hm.2 (recvOne w e)
    simp only [recv, List.foldl_cons] at ih' ⊢
    rw [ih']
    simp only [Msg.hasC, Msg.canc, Msg.get_cons]
    by_cases h : e.cid = c
    · subst h
      have : Msg.get m e.cid = none := Msg.hasC_false_of_not_mem hm.1
      simp [this, has_recvOne]
    · have h2 : ¬ c = e.cid := fun x => h x.symm
      simp [h, has_recvOne, h2]


theorem blk_recvOne (w : WL) (e : MEnt) (c : Nat) :
    WL.blk (recvOne w e) c = if c = e.cid then (!e.cancel && (WL.blk w c || e.ty == .block)) else WL.blk w c := by
  unfold recvOne
  by_cases hc : e.cancel = true
  · simp only [hc, ↓reduceIte, WL.blk_del]
    by_cases h : c = e.cid <;> simp [h]
  · have hc' : e.cancel = false := by simpa using hc
    simp only [hc', Bool.false_eq_true, ↓reduceIte, WL.blk_add]
    by_cases h : c = e.cid <;> simp [h]

/-- the want type the peer holds after receiving a message (Wantlist.Add never downgrades) -/
theorem blk_recv {m : Msg} (hm : Msg.WF m) (w : WL) (c : Nat) :
    WL.blk (recv w m) c = if Msg.hasC m c then (!Msg.canc m c && (WL.blk w c || Msg.blkC m c)) else WL.blk w c := by
  induction m generalizing w with
  | nil => simp [recv, Msg.hasC]
  | cons e m ih =>
    unfold Msg.WF at hm
    simp only [List.map_cons, List.nodup_cons] at hm
    have ih' := ih hm.2 (recvOne w e)
    simp only [recv, List.foldl_cons] at ih' ⊢
    rw [ih']
    simp only [Msg.hasC, Msg.canc, Msg.blkC, Msg.get_cons]
    by_cases h : e.cid = c
    · subst h
      have : Msg.get m e.cid = none := Msg.hasC_false_of_not_mem hm.1
      simp [this, blk_recvOne]
    · have h2 : ¬ c = e.cid := fun x => h x.symm
      simp [h, blk_recvOne, h2]

end C35
