import BoxoModel.C35.Lemmas
/-! The inductive invariant of the C35 step system and its preservation by every step. -/
namespace C35

/-- the peer's want-list once the message in flight (if any) has been received -/
def effPeer (s : St) : WL :=
  match s.ph with
  | .flight _ _ msg => recv s.peerWL msg
  | _ => s.peerWL

/-- the queue's record that the peer has been told about `c` -/
def sentHas (q : Q) (c : Nat) : Bool := q.peer.sent.has c || q.bcst.sent.has c

/-- facts about the sender's snapshot (phases A and B) relative to the current queue -/
structure SnapInv (cfg : Cfg) (q : Q) (pe be : List Ent) (cs : List Nat) : Prop where
  ndp : (pe.map (·.cid)).Nodup
  ndb : (be.map (·.cid)).Nodup
  ndc : cs.Nodup
  disj : ∀ c ∈ cs, c ∉ pe.map (·.cid) ∧ c ∉ be.map (·.cid)
  blkOnly : cfg.supportsHave = false → ∀ e ∈ pe, e.ty = .block
  fresh : ∀ e, e ∈ pe ∨ e ∈ be → q.prio < e.prio
  tieA : ∀ ep ∈ pe, ∀ eb ∈ be, ep.cid = eb.cid →
    q.peer.pending.get ep.cid = some ep → q.bcst.pending.get eb.cid = some eb
  tieB : ∀ ep ∈ pe, ∀ eb ∈ be, ep.cid = eb.cid →
    q.bcst.pending.get eb.cid = some eb → q.peer.pending.get ep.cid = some ep ∨ q.peer.pending.blk ep.cid = true

def PhaseInv (cfg : Cfg) (s : St) : Prop :=
  match s.ph with
  | .snap pe be cs => SnapInv cfg s.q pe be cs
  | .built pe be cs msg => SnapInv cfg s.q pe be cs ∧ msg = buildMsg (items cfg cs pe be)
  | _ => True

structure Inv (cfg : Cfg) (s : St) : Prop where
  wfpp : s.q.peer.pending.WF
  wfbp : s.q.bcst.pending.WF
  wfps : s.q.peer.sent.WF
  wfbs : s.q.bcst.sent.WF
  fresh : ∀ e, (e ∈ s.q.peer.pending ∨ e ∈ s.q.peer.sent ∨ e ∈ s.q.bcst.pending ∨ e ∈ s.q.bcst.sent) → s.q.prio < e.prio
  /-- a CID recorded as sent has no queued cancel -/
  j1 : ∀ c, sentHas s.q c = true → c ∉ s.q.cancels
  /-- whatever the peer holds is recorded as sent or has a queued cancel -/
  j2 : ∀ c, (effPeer s).has c = true → sentHas s.q c = true ∨ c ∈ s.q.cancels
  /-- whatever is recorded as sent is at the peer, or is still pending -/
  j3 : ∀ c, sentHas s.q c = true →
    (effPeer s).has c = true ∨ s.q.peer.pending.blk c = true ∨ s.q.bcst.pending.has c = true
  j6 : cfg.supportsHave = false → ∀ c e, s.q.peer.sent.get c = some e → e.ty = .block
  ph : PhaseInv cfg s

/-- the ghost "what the client wants" agrees with the queue's lists -/
structure GInv (cfg : Cfg) (s : St) : Prop where
  g1 : ∀ c, s.q.peer.pending.has c = true ∨ s.q.peer.sent.has c = true → s.pw c ≠ none
  g2 : ∀ c, s.q.bcst.pending.has c = true ∨ s.q.bcst.sent.has c = true → s.bw c = true
  g3 : ∀ c, s.q.peer.pending.blk c = true ∨ s.q.peer.sent.blk c = true → s.pw c = some .block
  g4 : cfg.supportsHave = true → ∀ c, s.pw c ≠ none → s.q.peer.pending.has c = true ∨ s.q.peer.sent.has c = true
  g5 : ∀ c, s.pw c = some .block → s.q.peer.pending.blk c = true ∨ s.q.peer.sent.blk c = true
  g6 : ∀ c, s.bw c = true → s.q.bcst.pending.has c = true ∨ s.q.bcst.sent.has c = true

theorem inv_init (cfg : Cfg) : Inv cfg {} where
  wfpp := WL.WF_nil
  wfbp := WL.WF_nil
  wfps := WL.WF_nil
  wfbs := WL.WF_nil
  fresh := by intro e h; simp at h
  j1 := by intro c h; simp
  j2 := by intro c h; simp [effPeer, WL.has] at h
  j3 := by intro c h; simp [sentHas, WL.has] at h
  j6 := by intro _ c e h; simp at h
  ph := by simp [PhaseInv]

theorem ginv_init (cfg : Cfg) : GInv cfg {} where
  g1 := by intro c h; simp [WL.has] at h
  g2 := by intro c h; simp [WL.has] at h
  g3 := by intro c h; simp [WL.blk] at h
  g4 := by intro _ c h; simp at h
  g5 := by intro c h; simp at h
  g6 := by intro c h; simp at h

/-! ### producer steps -/

theorem SnapInv.of_addPeer {cfg : Cfg} {q : Q} {pe be : List Ent} {cs : List Nat} (h : SnapInv cfg q pe be cs)
    (c : Nat) (t : WT) :
    SnapInv cfg { q with peer := { q.peer with pending := q.peer.pending.add c q.prio t }, prio := q.prio - 1 } pe be cs where
  ndp := h.ndp
  ndb := h.ndb
  ndc := h.ndc
  disj := h.disj
  blkOnly := h.blkOnly
  fresh := by intro e he; have := h.fresh e he; simp only; omega
  tieA := by
    intro ep hep eb heb hc
    simp only [WL.get_add]
    by_cases hx : ep.cid = c
    · simp only [hx, ↓reduceIte]
      intro hg
      have hf := h.fresh ep (.inl hep)
      have h0 := h.tieA ep hep eb heb hc
      rw [hx] at h0
      cases hg0 : q.peer.pending.get c with
      | none =>
        rw [hg0] at hg
        simp only [Option.some.injEq] at hg
        rw [← hg] at hf; simp at hf
      | some e0 =>
        rw [hg0] at hg
        by_cases hy : e0.ty = .block ∨ t = .have
        · simp only [hy, ↓reduceIte] at hg
          exact h0 (by rw [hg0, hg])
        · simp only [hy, ↓reduceIte, Option.some.injEq] at hg
          rw [← hg] at hf; simp at hf
    · simp only [hx, ↓reduceIte]
      exact h.tieA ep hep eb heb hc
  tieB := by
    intro ep hep eb heb hc hb
    have h0 := h.tieB ep hep eb heb hc hb
    simp only [WL.get_add, WL.blk_add]
    by_cases hx : ep.cid = c
    · simp only [hx, ↓reduceIte]
      rw [hx] at h0
      cases hg0 : q.peer.pending.get c with
      | none => simp [hg0, WL.blk] at h0
      | some e0 =>
        by_cases hy : e0.ty = .block ∨ t = .have
        · simp only [hy, ↓reduceIte]
          rcases h0 with h0 | h0
          · left; rw [← h0, hg0]
          · right; simp [h0]
        · right
          have : t = .block := by cases ht : t <;> simp_all
          simp [this]
    · simp only [hx, ↓reduceIte]; exact h0


theorem PhaseInv.of_addPeer {cfg : Cfg} {s : St} (h : PhaseInv cfg s) (t : WT) (c : Nat) :
    PhaseInv cfg (addPeerWant s t c) := by
  unfold PhaseInv at *
  unfold addPeerWant
  cases hp : s.ph with
  | idle => simp
  | pre => simp
  | flight pe be msg => simp
  | snap pe be cs => rw [hp] at h; exact h.of_addPeer c t
  | built pe be cs msg => rw [hp] at h; exact ⟨h.1.of_addPeer c t, h.2⟩

theorem inv_addPeerWant {cfg : Cfg} {s : St} (h : Inv cfg s) (t : WT) (c : Nat) : Inv cfg (addPeerWant s t c) where
  wfpp := WL.WF_add h.wfpp _ _ _
  wfbp := h.wfbp
  wfps := h.wfps
  wfbs := h.wfbs
  fresh := by
    intro e he
    simp only [addPeerWant] at he ⊢
    rcases he with he | he | he | he
    · rcases WL.mem_add he with he | he
      · have := h.fresh e (.inl he); omega
      · subst he; simp only; omega
    · have := h.fresh e (.inr (.inl he)); omega
    · have := h.fresh e (.inr (.inr (.inl he))); omega
    · have := h.fresh e (.inr (.inr (.inr he))); omega
  j1 := h.j1
  j2 := h.j2
  j3 := by
    intro c' hc
    rcases h.j3 c' hc with h3 | h3 | h3
    · exact .inl h3
    · right; left
      simp only [addPeerWant, WL.blk_add]
      by_cases hx : c' = c
      · subst hx; simp [h3]
      · simp [hx, h3]
    · exact .inr (.inr h3)
  j6 := h.j6
  ph := h.ph.of_addPeer t c

theorem ginv_addPeerWant {cfg : Cfg} {s : St} (h : GInv cfg s) (t : WT) (c : Nat) : GInv cfg (addPeerWant s t c) where
  g1 := by
    intro c' hc
    simp only [addPeerWant, WL.has_add] at hc ⊢
    by_cases hx : c' = c
    · subst hx; simp only [↓reduceIte]; split <;> simp
    · simp only [hx, ↓reduceIte]
      simp only [hx, decide_false, Bool.false_or] at hc
      exact h.g1 c' hc
  g2 := h.g2
  g3 := by
    intro c' hc
    simp only [addPeerWant, WL.blk_add] at hc ⊢
    by_cases hx : c' = c
    · subst hx
      simp only [↓reduceIte, Bool.or_eq_true, beq_iff_eq] at hc ⊢
      rcases hc with (hc | hc) | hc
      · simp [h.g3 c' (.inl hc)]
      · simp [hc]
      · simp [h.g3 c' (.inr hc)]
    · simp only [hx, ↓reduceIte] at hc ⊢
      exact h.g3 c' hc
  g4 := by
    intro hh c' hc
    simp only [addPeerWant, WL.has_add] at hc ⊢
    by_cases hx : c' = c
    · simp [hx]
    · simp only [hx, ↓reduceIte] at hc
      simp only [hx, decide_false, Bool.false_or]
      exact h.g4 hh c' hc
  g5 := by
    intro c' hc
    simp only [addPeerWant, WL.blk_add] at hc ⊢
    by_cases hx : c' = c
    · subst hx
      simp only [↓reduceIte] at hc ⊢
      by_cases ht : t = .block
      · simp [ht]
      · have hb : s.pw c' = some .block := by
          by_cases hb : s.pw c' = some .block
          · exact hb
          · simp [ht, hb] at hc
        rcases h.g5 c' hb with h5 | h5
        · simp [h5]
        · exact .inr h5
    · simp only [hx, ↓reduceIte] at hc ⊢
      exact h.g5 c' hc
  g6 := h.g6


theorem get_add_have_of_some {w : WL} {c : Nat} {e : Ent} (p : Int) (h : w.get c = some e) (c' : Nat) :
    (w.add c p .have).get c' = w.get c' := by
  rw [WL.get_add]
  by_cases hx : c' = c
  · subst hx; simp [h]
  · simp [hx]

theorem SnapInv.of_addBcst {cfg : Cfg} {q : Q} {pe be : List Ent} {cs : List Nat} (h : SnapInv cfg q pe be cs)
    (c : Nat) :
    SnapInv cfg { q with bcst := { q.bcst with pending := q.bcst.pending.add c q.prio .have }, prio := q.prio - 1 } pe be cs where
  ndp := h.ndp
  ndb := h.ndb
  ndc := h.ndc
  disj := h.disj
  blkOnly := h.blkOnly
  fresh := by intro e he; have := h.fresh e he; simp only; omega
  tieA := by
    intro ep hep eb heb hc hg
    have h0 := h.tieA ep hep eb heb hc hg
    simp only
    by_cases hx : eb.cid = c
    · rw [hx] at h0; rw [hx, get_add_have_of_some _ h0]; exact h0
    · simp only [WL.get_add, hx, ↓reduceIte]; exact h0
  tieB := by
    intro ep hep eb heb hc hb
    simp only at hb ⊢
    by_cases hx : eb.cid = c
    · rw [hx] at hb
      cases hg0 : q.bcst.pending.get c with
      | none =>
        rw [WL.get_add] at hb
        simp only [↓reduceIte, hg0, Option.some.injEq] at hb
        have hf := h.fresh eb (.inr heb)
        rw [← hb] at hf; simp at hf
      | some e0 =>
        rw [get_add_have_of_some _ hg0] at hb
        rw [← hx] at hb
        exact h.tieB ep hep eb heb hc hb
    · simp only [WL.get_add, hx, ↓reduceIte] at hb
      exact h.tieB ep hep eb heb hc hb

theorem PhaseInv.of_addBcst {cfg : Cfg} {s : St} (h : PhaseInv cfg s) (c : Nat) :
    PhaseInv cfg (addBcstWant s c) := by
  unfold PhaseInv at *
  unfold addBcstWant
  cases hp : s.ph with
  | idle => simp
  | pre => simp
  | flight pe be msg => simp
  | snap pe be cs => rw [hp] at h; exact h.of_addBcst c
  | built pe be cs msg => rw [hp] at h; exact ⟨h.1.of_addBcst c, h.2⟩

theorem inv_addBcstWant {cfg : Cfg} {s : St} (h : Inv cfg s) (c : Nat) : Inv cfg (addBcstWant s c) where
  wfpp := h.wfpp
  wfbp := WL.WF_add h.wfbp _ _ _
  wfps := h.wfps
  wfbs := h.wfbs
  fresh := by
    intro e he
    simp only [addBcstWant] at he ⊢
    rcases he with he | he | he | he
    · have := h.fresh e (.inl he); omega
    · have := h.fresh e (.inr (.inl he)); omega
    · rcases WL.mem_add he with he | he
      · have := h.fresh e (.inr (.inr (.inl he))); omega
      · subst he; simp only; omega
    · have := h.fresh e (.inr (.inr (.inr he))); omega
  j1 := h.j1
  j2 := h.j2
  j3 := by
    intro c' hc
    rcases h.j3 c' hc with h3 | h3 | h3
    · exact .inl h3
    · exact .inr (.inl h3)
    · right; right
      simp only [addBcstWant, WL.has_add, h3, Bool.or_true]
  j6 := h.j6
  ph := h.ph.of_addBcst c

theorem ginv_addBcstWant {cfg : Cfg} {s : St} (h : GInv cfg s) (c : Nat) : GInv cfg (addBcstWant s c) where
  g1 := h.g1
  g2 := by
    intro c' hc
    simp only [addBcstWant, WL.has_add] at hc ⊢
    by_cases hx : c' = c
    · simp [hx]
    · simp only [hx, decide_false, Bool.false_or] at hc
      simp only [hx, ↓reduceIte]
      exact h.g2 c' hc
  g3 := h.g3
  g4 := h.g4
  g5 := h.g5
  g6 := by
    intro c' hc
    simp only [addBcstWant, WL.has_add] at hc ⊢
    by_cases hx : c' = c
    · simp [hx]
    · simp only [hx, ↓reduceIte] at hc
      simp only [hx, decide_false, Bool.false_or]
      exact h.g6 c' hc


theorem mem_insertSorted (c x : Nat) (l : List Nat) : x ∈ insertSorted c l ↔ x = c ∨ x ∈ l := by
  induction l with
  | nil => simp [insertSorted]
  | cons y r ih =>
    unfold insertSorted
    by_cases h1 : c < y
    · simp [h1]
    · by_cases h2 : c = y
      · subst h2; simp
      · simp only [h1, ↓reduceIte, h2, List.mem_cons, ih]
        constructor
        · rintro (h | h | h) <;> simp [h]
        · rintro (h | h | h) <;> simp [h]

theorem SnapInv.of_cancel {cfg : Cfg} {q : Q} {pe be : List Ent} {cs : List Nat} (h : SnapInv cfg q pe be cs)
    (c : Nat) (K : List Nat) :
    SnapInv cfg { q with bcst := q.bcst.remove c, peer := q.peer.remove c, cancels := K } pe be cs where
  ndp := h.ndp
  ndb := h.ndb
  ndc := h.ndc
  disj := h.disj
  blkOnly := h.blkOnly
  fresh := h.fresh
  tieA := by
    intro ep hep eb heb hc
    simp only [RWL.remove, WL.get_del]
    by_cases hx : ep.cid = c
    · simp [hx]
    · have hy : ¬ eb.cid = c := by rw [← hc]; exact hx
      simp only [hx, ↓reduceIte, hy]
      exact h.tieA ep hep eb heb hc
  tieB := by
    intro ep hep eb heb hc
    simp only [RWL.remove, WL.get_del, WL.blk_del]
    by_cases hx : ep.cid = c
    · have hy : eb.cid = c := by rw [← hc]; exact hx
      simp [hy]
    · have hy : ¬ eb.cid = c := by rw [← hc]; exact hx
      simp only [hx, ↓reduceIte, hy, ne_eq, not_false_eq_true, decide_true, Bool.true_and]
      exact h.tieB ep hep eb heb hc

theorem PhaseInv.of_cancel {cfg : Cfg} {s : St} (h : PhaseInv cfg s) (c : Nat) :
    PhaseInv cfg (cancelOne s c) := by
  unfold PhaseInv at *
  unfold cancelOne
  cases hp : s.ph with
  | idle => simp
  | pre => simp
  | flight pe be msg => simp
  | snap pe be cs => rw [hp] at h; exact h.of_cancel c _
  | built pe be cs msg => rw [hp] at h; exact ⟨h.1.of_cancel c _, h.2⟩

theorem sentHas_cancelOne (s : St) (c c' : Nat) :
    sentHas (cancelOne s c).q c' = (decide (c' ≠ c) && sentHas s.q c') := by
  simp only [sentHas, cancelOne, RWL.remove, WL.has_del]
  by_cases hx : c' = c <;> simp [hx]

theorem inv_cancelOne {cfg : Cfg} {s : St} (h : Inv cfg s) (c : Nat) : Inv cfg (cancelOne s c) where
  wfpp := WL.WF_del h.wfpp c
  wfbp := WL.WF_del h.wfbp c
  wfps := WL.WF_del h.wfps c
  wfbs := WL.WF_del h.wfbs c
  fresh := by
    intro e he
    simp only [cancelOne, RWL.remove] at he ⊢
    rcases he with he | he | he | he
    · exact h.fresh e (.inl (WL.mem_del he))
    · exact h.fresh e (.inr (.inl (WL.mem_del he)))
    · exact h.fresh e (.inr (.inr (.inl (WL.mem_del he))))
    · exact h.fresh e (.inr (.inr (.inr (WL.mem_del he))))
  j1 := by
    intro c' hc
    rw [sentHas_cancelOne] at hc
    simp only [ne_eq, Bool.and_eq_true, decide_eq_true_eq] at hc
    have := h.j1 c' hc.2
    simp only [cancelOne]
    split
    · rw [mem_insertSorted]; simp [hc.1, this]
    · exact this
  j2 := by
    intro c' hc
    have hc' : (effPeer s).has c' = true := hc
    rw [sentHas_cancelOne]
    simp only [cancelOne]
    by_cases hx : c' = c
    · subst hx
      right
      by_cases hw : (s.q.bcst.sent.has c' || s.q.peer.sent.has c') = true
      · simp [hw, mem_insertSorted]
      · simp only [hw]
        rcases h.j2 c' hc' with h2 | h2
        · simp only [sentHas, Bool.or_eq_true] at h2
          simp only [Bool.or_eq_true] at hw
          exact absurd (Or.symm h2) hw
        · simpa using h2
    · rcases h.j2 c' hc' with h2 | h2
      · left; simp [hx, h2]
      · right; split
        · rw [mem_insertSorted]; exact .inr h2
        · exact h2
  j3 := by
    intro c' hc
    rw [sentHas_cancelOne] at hc
    simp only [ne_eq, Bool.and_eq_true, decide_eq_true_eq] at hc
    have h3 := h.j3 c' hc.2
    simp only [cancelOne, RWL.remove, WL.blk_del, WL.has_del, ne_eq, hc.1, not_false_eq_true, decide_true,
      Bool.true_and]
    exact h3
  j6 := by
    intro hh c' e he
    simp only [cancelOne, RWL.remove, WL.get_del] at he
    by_cases hx : c' = c
    · simp [hx] at he
    · simp only [hx, ↓reduceIte] at he
      exact h.j6 hh c' e he
  ph := h.ph.of_cancel c

theorem ginv_cancelOne {cfg : Cfg} {s : St} (h : GInv cfg s) (c : Nat) : GInv cfg (cancelOne s c) where
  g1 := by
    intro c' hc
    simp only [cancelOne, RWL.remove, WL.has_del] at hc ⊢
    by_cases hx : c' = c
    · simp [hx] at hc
    · simp only [ne_eq, hx, not_false_eq_true, decide_true, Bool.true_and] at hc
      simp only [hx, ↓reduceIte]; exact h.g1 c' hc
  g2 := by
    intro c' hc
    simp only [cancelOne, RWL.remove, WL.has_del] at hc ⊢
    by_cases hx : c' = c
    · simp [hx] at hc
    · simp only [ne_eq, hx, not_false_eq_true, decide_true, Bool.true_and] at hc
      simp only [hx, ↓reduceIte]; exact h.g2 c' hc
  g3 := by
    intro c' hc
    simp only [cancelOne, RWL.remove, WL.blk_del] at hc ⊢
    by_cases hx : c' = c
    · simp [hx] at hc
    · simp only [ne_eq, hx, not_false_eq_true, decide_true, Bool.true_and] at hc
      simp only [hx, ↓reduceIte]; exact h.g3 c' hc
  g4 := by
    intro hh c' hc
    simp only [cancelOne, RWL.remove, WL.has_del] at hc ⊢
    by_cases hx : c' = c
    · simp [hx] at hc
    · simp only [hx, ↓reduceIte] at hc
      simp only [ne_eq, hx, not_false_eq_true, decide_true, Bool.true_and]
      exact h.g4 hh c' hc
  g5 := by
    intro c' hc
    simp only [cancelOne, RWL.remove, WL.blk_del] at hc ⊢
    by_cases hx : c' = c
    · simp [hx] at hc
    · simp only [hx, ↓reduceIte] at hc
      simp only [ne_eq, hx, not_false_eq_true, decide_true, Bool.true_and]
      exact h.g5 c' hc
  g6 := by
    intro c' hc
    simp only [cancelOne, RWL.remove, WL.has_del] at hc ⊢
    by_cases hx : c' = c
    · simp [hx] at hc
    · simp only [hx, ↓reduceIte] at hc
      simp only [ne_eq, hx, not_false_eq_true, decide_true, Bool.true_and]
      exact h.g6 c' hc


/-! ### lifting to the list-valued producer calls -/

theorem inv_foldl {α : Type} (f : St → α → St) (P : St → Prop) (hf : ∀ s a, P s → P (f s a))
    (l : List α) (s : St) (h : P s) : P (l.foldl f s) := by
  induction l generalizing s with
  | nil => exact h
  | cons a l ih => exact ih _ (hf s a h)

theorem inv_addWants {cfg : Cfg} {s : St} (h : Inv cfg s) (bs hs : List Nat) : Inv cfg (addWants s bs hs) := by
  unfold addWants
  apply inv_foldl _ (Inv cfg) (fun s a hs => inv_addPeerWant hs .block a)
  exact inv_foldl _ (Inv cfg) (fun s a hs => inv_addPeerWant hs .have a) _ _ h

theorem ginv_addWants {cfg : Cfg} {s : St} (h : GInv cfg s) (bs hs : List Nat) : GInv cfg (addWants s bs hs) := by
  unfold addWants
  apply inv_foldl _ (GInv cfg) (fun s a hs => ginv_addPeerWant hs .block a)
  exact inv_foldl _ (GInv cfg) (fun s a hs => ginv_addPeerWant hs .have a) _ _ h

theorem inv_addBcast {cfg : Cfg} {s : St} (h : Inv cfg s) (cs : List Nat) : Inv cfg (addBcast s cs) :=
  inv_foldl _ (Inv cfg) (fun _ a hs => inv_addBcstWant hs a) _ _ h

theorem ginv_addBcast {cfg : Cfg} {s : St} (h : GInv cfg s) (cs : List Nat) : GInv cfg (addBcast s cs) :=
  inv_foldl _ (GInv cfg) (fun _ a hs => ginv_addBcstWant hs a) _ _ h

theorem inv_addCancels {cfg : Cfg} {s : St} (h : Inv cfg s) (cs : List Nat) : Inv cfg (addCancels s cs) :=
  inv_foldl _ (Inv cfg) (fun _ a hs => inv_cancelOne hs a) _ _ h

theorem ginv_addCancels {cfg : Cfg} {s : St} (h : GInv cfg s) (cs : List Nat) : GInv cfg (addCancels s cs) :=
  inv_foldl _ (GInv cfg) (fun _ a hs => ginv_cancelOne hs a) _ _ h

/-- the invariant only reads the want lists, the cancels, the priority counter, the sender phase and
the peer's want-list -/
theorem Inv.congr {cfg : Cfg} {s s' : St} (h : Inv cfg s)
    (hpp : s'.q.peer.pending = s.q.peer.pending) (hps : s'.q.peer.sent = s.q.peer.sent)
    (hbp : s'.q.bcst.pending = s.q.bcst.pending) (hbs : s'.q.bcst.sent = s.q.bcst.sent)
    (hK : s'.q.cancels = s.q.cancels) (hprio : s'.q.prio = s.q.prio)
    (heff : effPeer s' = effPeer s) (hph : PhaseInv cfg s') : Inv cfg s' where
  wfpp := by rw [hpp]; exact h.wfpp
  wfbp := by rw [hbp]; exact h.wfbp
  wfps := by rw [hps]; exact h.wfps
  wfbs := by rw [hbs]; exact h.wfbs
  fresh := by rw [hpp, hps, hbp, hbs, hprio]; exact h.fresh
  j1 := by unfold sentHas; rw [hps, hbs, hK]; exact h.j1
  j2 := by unfold sentHas; rw [hps, hbs, hK, heff]; exact h.j2
  j3 := by unfold sentHas; rw [hps, hbs, heff, hpp, hbp]; exact h.j3
  j6 := by rw [hps]; exact h.j6
  ph := hph

theorem GInv.congr {cfg : Cfg} {s s' : St} (h : GInv cfg s)
    (hpp : s'.q.peer.pending = s.q.peer.pending) (hps : s'.q.peer.sent = s.q.peer.sent)
    (hbp : s'.q.bcst.pending = s.q.bcst.pending) (hbs : s'.q.bcst.sent = s.q.bcst.sent)
    (hpw : s'.pw = s.pw) (hbw : s'.bw = s.bw) : GInv cfg s' where
  g1 := by rw [hpp, hps, hpw]; exact h.g1
  g2 := by rw [hbp, hbs, hbw]; exact h.g2
  g3 := by rw [hpp, hps, hpw]; exact h.g3
  g4 := by rw [hpp, hps, hpw]; exact h.g4
  g5 := by rw [hpp, hps, hpw]; exact h.g5
  g6 := by rw [hbp, hbs, hbw]; exact h.g6

theorem PhaseInv.congr {cfg : Cfg} {s s' : St} (h : PhaseInv cfg s)
    (hpp : s'.q.peer.pending = s.q.peer.pending) (hbp : s'.q.bcst.pending = s.q.bcst.pending)
    (hprio : s'.q.prio = s.q.prio) (hph : s'.ph = s.ph) : PhaseInv cfg s' := by
  unfold PhaseInv at *
  rw [hph]
  have hs : ∀ pe be cs, SnapInv cfg s.q pe be cs → SnapInv cfg s'.q pe be cs := by
    intro pe be cs hh
    exact ⟨hh.ndp, hh.ndb, hh.ndc, hh.disj, hh.blkOnly, by rw [hprio]; exact hh.fresh,
      by rw [hpp, hbp]; exact hh.tieA, by rw [hpp, hbp]; exact hh.tieB⟩
  cases hp : s.ph with
  | idle => trivial
  | pre => trivial
  | flight pe be msg => trivial
  | snap pe be cs => rw [hp] at h; exact hs _ _ _ h
  | built pe be cs msg => rw [hp] at h; exact ⟨hs _ _ _ h.1, h.2⟩

theorem inv_response {cfg : Cfg} {s : St} (h : Inv cfg s) (cs : List Nat) : Inv cfg (response s cs) := by
  unfold response
  refine inv_foldl _ (Inv cfg) ?_ _ _ h
  intro s c hs
  exact hs.congr rfl rfl rfl rfl rfl rfl rfl (hs.ph.congr rfl rfl rfl rfl)

theorem ginv_response {cfg : Cfg} {s : St} (h : GInv cfg s) (cs : List Nat) : GInv cfg (response s cs) := by
  unfold response
  refine inv_foldl _ (GInv cfg) ?_ _ _ h
  intro s c hs
  exact hs.congr rfl rfl rfl rfl rfl rfl


/-! ### rebroadcast -/

theorem foldl_add_spec (l : List Ent) (w : WL) :
    (w.WF → (l.foldl (fun p e => p.add e.cid e.prio e.ty) w).WF) ∧
    (∀ e ∈ l.foldl (fun p e => p.add e.cid e.prio e.ty) w, e ∈ w ∨ e ∈ l) ∧
    (∀ c, w.has c = true → (l.foldl (fun p e => p.add e.cid e.prio e.ty) w).has c = true) ∧
    (∀ c, w.blk c = true → (l.foldl (fun p e => p.add e.cid e.prio e.ty) w).blk c = true) ∧
    (∀ c, (l.foldl (fun p e => p.add e.cid e.prio e.ty) w).has c = true → w.has c = true ∨ ∃ e ∈ l, e.cid = c) ∧
    (∀ c, (l.foldl (fun p e => p.add e.cid e.prio e.ty) w).blk c = true →
        w.blk c = true ∨ ∃ e ∈ l, e.cid = c ∧ e.ty = .block) := by
  induction l generalizing w with
  | nil => simp
  | cons a l ih =>
    obtain ⟨i1, i2, i3, i4, i5, i6⟩ := ih (w.add a.cid a.prio a.ty)
    simp only [List.foldl_cons]
    refine ⟨fun hw => i1 (WL.WF_add hw _ _ _), ?_, ?_, ?_, ?_, ?_⟩
    · intro e he
      rcases i2 e he with h | h
      · rcases WL.mem_add h with h | h
        · exact .inl h
        · right; rw [h]; exact List.mem_cons_self
      · exact .inr (List.mem_cons_of_mem _ h)
    · intro c hc; apply i3; rw [WL.has_add]; simp [hc]
    · intro c hc; apply i4; rw [WL.blk_add]; by_cases hx : c = a.cid
      · subst hx; simp [hc]
      · simp [hx, hc]
    · intro c hc
      rcases i5 c hc with h | ⟨e, he, hce⟩
      · rw [WL.has_add] at h
        by_cases hx : c = a.cid
        · exact .inr ⟨a, List.mem_cons_self, hx.symm⟩
        · simp only [hx, decide_false, Bool.false_or] at h; exact .inl h
      · exact .inr ⟨e, List.mem_cons_of_mem _ he, hce⟩
    · intro c hc
      rcases i6 c hc with h | ⟨e, he, hce⟩
      · rw [WL.blk_add] at h
        by_cases hx : c = a.cid
        · simp only [hx, ↓reduceIte, Bool.or_eq_true, beq_iff_eq] at h
          rcases h with h | h
          · left; rw [hx]; exact h
          · exact .inr ⟨a, List.mem_cons_self, hx.symm, h⟩
        · simp only [hx, ↓reduceIte] at h; exact .inl h
      · exact .inr ⟨e, List.mem_cons_of_mem _ he, hce⟩

theorem mem_due {r : RWL} {k : Nat} {e : Ent} (h : e ∈ r.due k) : e ∈ r.sent := by
  unfold RWL.due at h
  exact WL.mem_entries.mp (List.mem_filter.mp h).1

theorem effPeer_doRefresh (s : St) (k : Nat) (hi : isIdle s.ph = true) : effPeer (doRefresh s k) = effPeer s := by
  unfold effPeer doRefresh
  cases hp : s.ph <;> simp_all [isIdle]
  by_cases hr : 0 < refreshCount s k <;> simp [hr]

theorem inv_doRefresh {cfg : Cfg} {s : St} (h : Inv cfg s) (k : Nat) (hi : isIdle s.ph = true) :
    Inv cfg (doRefresh s k) := by
  have hb := foldl_add_spec (s.q.bcst.due k) s.q.bcst.pending
  have hp := foldl_add_spec (s.q.peer.due k) s.q.peer.pending
  refine ⟨hp.1 h.wfpp, hb.1 h.wfbp, h.wfps, h.wfbs, ?_, h.j1, ?_, ?_, h.j6, ?_⟩
  · intro e he
    simp only [doRefresh, RWL.refresh] at he ⊢
    rcases he with he | he | he | he
    · rcases hp.2.1 e he with he | he
      · exact h.fresh e (.inl he)
      · exact h.fresh e (.inr (.inl (mem_due he)))
    · exact h.fresh e (.inr (.inl he))
    · rcases hb.2.1 e he with he | he
      · exact h.fresh e (.inr (.inr (.inl he)))
      · exact h.fresh e (.inr (.inr (.inr (mem_due he))))
    · exact h.fresh e (.inr (.inr (.inr he)))
  · intro c hc
    rw [effPeer_doRefresh s k hi] at hc
    exact h.j2 c hc
  · intro c hc
    rw [effPeer_doRefresh s k hi]
    rcases h.j3 c hc with h3 | h3 | h3
    · exact .inl h3
    · exact .inr (.inl (hp.2.2.2.1 c h3))
    · exact .inr (.inr (hb.2.2.1 c h3))
  · unfold PhaseInv doRefresh
    by_cases hr : refreshCount s k > 0 <;> simp [hr]

theorem ginv_doRefresh {cfg : Cfg} {s : St} (hi : Inv cfg s) (h : GInv cfg s) (k : Nat) : GInv cfg (doRefresh s k) := by
  have hb := foldl_add_spec (s.q.bcst.due k) s.q.bcst.pending
  have hp := foldl_add_spec (s.q.peer.due k) s.q.peer.pending
  refine ⟨?_, ?_, ?_, ?_, ?_, ?_⟩
  · intro c hc
    simp only [doRefresh, RWL.refresh] at hc ⊢
    rcases hc with hc | hc
    · rcases hp.2.2.2.2.1 c hc with hc | ⟨e, he, hce⟩
      · exact h.g1 c (.inl hc)
      · subst hce; exact h.g1 e.cid (.inr (WL.has_of_mem (mem_due he)))
    · exact h.g1 c (.inr hc)
  · intro c hc
    simp only [doRefresh, RWL.refresh] at hc ⊢
    rcases hc with hc | hc
    · rcases hb.2.2.2.2.1 c hc with hc | ⟨e, he, hce⟩
      · exact h.g2 c (.inl hc)
      · subst hce; exact h.g2 e.cid (.inr (WL.has_of_mem (mem_due he)))
    · exact h.g2 c (.inr hc)
  · intro c hc
    simp only [doRefresh, RWL.refresh] at hc ⊢
    rcases hc with hc | hc
    · rcases hp.2.2.2.2.2 c hc with hc | ⟨e, he, hce, hty⟩
      · exact h.g3 c (.inl hc)
      · subst hce
        apply h.g3 e.cid; right
        unfold WL.blk; rw [WL.get_of_mem hi.wfps (mem_due he)]; simp [hty]
    · exact h.g3 c (.inr hc)
  · intro hh c hc
    simp only [doRefresh, RWL.refresh] at hc ⊢
    rcases h.g4 hh c hc with h4 | h4
    · exact .inl (hp.2.2.1 c h4)
    · exact .inr h4
  · intro c hc
    simp only [doRefresh, RWL.refresh] at hc ⊢
    rcases h.g5 c hc with h5 | h5
    · exact .inl (hp.2.2.2.1 c h5)
    · exact .inr h5
  · intro c hc
    simp only [doRefresh, RWL.refresh] at hc ⊢
    rcases h.g6 c hc with h6 | h6
    · exact .inl (hb.2.2.1 c h6)
    · exact .inr h6


/-! ### phase A -/

theorem dropFold_spec (l : List Ent) (r : RWL) (hs : ∀ c e, r.sent.get c = some e → e.ty = .block) :
    (l.foldl (fun r e => r.removeType e.cid .have) r).sent = r.sent ∧
    (r.pending.WF → (l.foldl (fun r e => r.removeType e.cid .have) r).pending.WF) ∧
    (∀ e ∈ (l.foldl (fun r e => r.removeType e.cid .have) r).pending, e ∈ r.pending) ∧
    (∀ c, (l.foldl (fun r e => r.removeType e.cid .have) r).pending.blk c = r.pending.blk c) ∧
    (∀ c x, (l.foldl (fun r e => r.removeType e.cid .have) r).pending.get c = some x →
        r.pending.get c = some x ∧ (x.ty = .have → c ∉ l.map (·.cid))) := by
  induction l generalizing r with
  | nil => simp
  | cons a l ih =>
    have hsent : (r.removeType a.cid .have).sent = r.sent := by
      simp only [RWL.removeType]; exact WL.removeType_have_of_blk hs a.cid
    have hs1 : ∀ c e, (r.removeType a.cid .have).sent.get c = some e → e.ty = .block := by
      rw [hsent]; exact hs
    obtain ⟨i1, i2, i3, i4, i5⟩ := ih (r.removeType a.cid .have) hs1
    simp only [List.foldl_cons]
    refine ⟨by rw [i1, hsent], fun hw => i2 (WL.WF_removeType hw _ _), ?_, ?_, ?_⟩
    · intro e he; exact WL.mem_removeType (i3 e he)
    · intro c; rw [i4]; simp only [RWL.removeType]; exact WL.blk_removeType_have _ _ _
    · intro c x hx
      obtain ⟨h1, h2⟩ := i5 c x hx
      simp only [RWL.removeType, WL.get_removeType] at h1
      by_cases hc : c = a.cid
      · subst hc
        simp only [↓reduceIte] at h1
        cases hg : r.pending.get a.cid with
        | none => simp [hg] at h1
        | some e0 =>
          rw [hg] at h1
          by_cases hb : e0.ty = .block
          · simp only [hb, and_self, ↓reduceIte, Option.some.injEq] at h1
            subst h1
            exact ⟨rfl, fun hh => by simp [hb] at hh⟩
          · simp [hb] at h1
      · simp only [hc, ↓reduceIte] at h1
        refine ⟨h1, fun hh => ?_⟩
        simp only [List.map_cons, List.mem_cons, hc, false_or]
        exact h2 hh

theorem snapQ_spec {cfg : Cfg} {s : St} (h : Inv cfg s) :
    (snapQ cfg s.q).bcst = s.q.bcst ∧ (snapQ cfg s.q).cancels = s.q.cancels ∧ (snapQ cfg s.q).prio = s.q.prio ∧
    (snapQ cfg s.q).peer.sent = s.q.peer.sent ∧ (snapQ cfg s.q).peer.pending.WF ∧
    (∀ e ∈ (snapQ cfg s.q).peer.pending, e ∈ s.q.peer.pending) ∧
    (∀ c, (snapQ cfg s.q).peer.pending.blk c = s.q.peer.pending.blk c) ∧
    (cfg.supportsHave = true → (snapQ cfg s.q).peer.pending = s.q.peer.pending) ∧
    (cfg.supportsHave = false → ∀ e ∈ (snapQ cfg s.q).peer.pending, e.ty = .block) := by
  unfold snapQ
  by_cases hh : cfg.supportsHave = true
  · rw [if_pos hh]
    exact ⟨rfl, rfl, rfl, rfl, h.wfpp, fun e he => he, fun c => rfl, fun _ => rfl, fun hf => by simp [hh] at hf⟩
  · have hh' : cfg.supportsHave = false := by simpa using hh
    rw [if_neg hh]
    unfold dropHaves
    obtain ⟨i1, i2, i3, i4, i5⟩ := dropFold_spec (s.q.peer.pending.entries.filter (fun e => e.ty = .have)) s.q.peer (h.j6 hh')
    refine ⟨rfl, rfl, rfl, i1, i2 h.wfpp, i3, i4, fun hf => by simp [hh'] at hf, fun _ e he => ?_⟩
    have he : e ∈ (List.foldl (fun r e => r.removeType e.cid WT.have) s.q.peer
        (s.q.peer.pending.entries.filter (fun e => e.ty = .have))).pending := he
    cases ht : e.ty with
    | block => rfl
    | «have» =>
      exfalso
      have hw := i2 h.wfpp
      have hg := WL.get_of_mem hw he
      obtain ⟨h1, h2⟩ := i5 e.cid e hg
      apply h2 ht
      refine List.mem_map.mpr ⟨e, ?_, rfl⟩
      exact List.mem_filter.mpr ⟨WL.mem_entries.mpr (WL.get_some_mem h1), by simp [ht]⟩

theorem inv_doSnap {cfg : Cfg} {s : St} (h : Inv cfg s) (cs : List Nat)
    (hen : isIdleOrPre s.ph = true ∧ cs.Nodup ∧ ∀ c ∈ cs, c ∈ snapCancels (snapQ cfg s.q)) :
    Inv cfg (doSnap cfg s cs) := by
  obtain ⟨q1, q2, q3, q4, q5, q6, q7, q8, q9⟩ := snapQ_spec h
  have heff : effPeer (doSnap cfg s cs) = effPeer s := by
    unfold effPeer doSnap
    cases hp : s.ph <;> simp_all [isIdleOrPre]
  refine ⟨q5, by simp only [doSnap, q1]; exact h.wfbp, by simp only [doSnap, q4]; exact h.wfps,
    by simp only [doSnap, q1]; exact h.wfbs, ?_, ?_, ?_, ?_, ?_, ?_⟩
  · intro e he
    simp only [doSnap, q1, q3, q4] at he ⊢
    rcases he with he | he | he | he
    · exact h.fresh e (.inl (q6 e he))
    · exact h.fresh e (.inr (.inl he))
    · exact h.fresh e (.inr (.inr (.inl he)))
    · exact h.fresh e (.inr (.inr (.inr he)))
  · intro c hc
    simp only [doSnap, sentHas, q1, q2, q4] at hc ⊢
    exact h.j1 c hc
  · intro c hc
    rw [heff] at hc
    simp only [doSnap, sentHas, q1, q2, q4]
    exact h.j2 c hc
  · intro c hc
    rw [heff]
    simp only [doSnap, sentHas, q1, q4] at hc
    simp only [doSnap, q1, q7]
    exact h.j3 c hc
  · intro hh c e he
    simp only [doSnap, q4] at he
    exact h.j6 hh c e he
  · unfold PhaseInv
    simp only [doSnap]
    refine ⟨WL.entries_keys_nodup q5, by rw [q1]; exact WL.entries_keys_nodup h.wfbp, hen.2.1, ?_, ?_, ?_, ?_, ?_⟩
    · intro c hc
      have := hen.2.2 c hc
      simp only [snapCancels, List.mem_filter, Bool.and_eq_true, Bool.not_eq_eq_eq_not, Bool.not_true] at this
      constructor
      · intro hm
        obtain ⟨e, he, hce⟩ := List.mem_map.mp hm
        have := WL.has_of_mem (WL.mem_entries.mp he)
        simp_all
      · intro hm
        obtain ⟨e, he, hce⟩ := List.mem_map.mp hm
        have := WL.has_of_mem (WL.mem_entries.mp he)
        simp_all
    · intro hh e he
      exact q9 hh e (WL.mem_entries.mp he)
    · intro e he
      rw [q3]
      rcases he with he | he
      · exact h.fresh e (.inl (q6 e (WL.mem_entries.mp he)))
      · rw [q1] at he; exact h.fresh e (.inr (.inr (.inl (WL.mem_entries.mp he))))
    · intro ep hep eb heb hc _
      rw [q1] at heb ⊢
      exact WL.get_of_mem h.wfbp (WL.mem_entries.mp heb)
    · intro ep hep eb heb hc _
      exact .inl (WL.get_of_mem q5 (WL.mem_entries.mp hep))

theorem ginv_doSnap {cfg : Cfg} {s : St} (hi : Inv cfg s) (h : GInv cfg s) (cs : List Nat) :
    GInv cfg (doSnap cfg s cs) := by
  obtain ⟨q1, q2, q3, q4, q5, q6, q7, q8, q9⟩ := snapQ_spec hi
  refine ⟨?_, ?_, ?_, ?_, ?_, ?_⟩
  · intro c hc
    simp only [doSnap, q4] at hc ⊢
    rcases hc with hc | hc
    · obtain ⟨e, he⟩ := WL.has_iff.mp hc
      have := WL.has_of_mem (q6 e (WL.get_some_mem he))
      rw [WL.get_some_cid he] at this
      exact h.g1 c (.inl this)
    · exact h.g1 c (.inr hc)
  · intro c hc
    simp only [doSnap, q1] at hc ⊢
    exact h.g2 c hc
  · intro c hc
    simp only [doSnap, q4, q7] at hc ⊢
    exact h.g3 c hc
  · intro hh c hc
    simp only [doSnap, q4, q8 hh] at hc ⊢
    exact h.g4 hh c hc
  · intro c hc
    simp only [doSnap, q4, q7] at hc ⊢
    exact h.g5 c hc
  · intro c hc
    simp only [doSnap, q1] at hc ⊢
    exact h.g6 c hc


/-! ### phase B and phase D -/

theorem SnapInv.sublist {cfg : Cfg} {q : Q} {pe be pe' be' : List Ent} {cs cs' : List Nat}
    (h : SnapInv cfg q pe be cs) (hp : pe'.Sublist pe) (hb : be'.Sublist be) (hc : cs'.Sublist cs) :
    SnapInv cfg q pe' be' cs' where
  ndp := List.Nodup.sublist (hp.map _) h.ndp
  ndb := List.Nodup.sublist (hb.map _) h.ndb
  ndc := List.Nodup.sublist hc h.ndc
  disj := by
    intro c hcc
    obtain ⟨h1, h2⟩ := h.disj c (hc.subset hcc)
    exact ⟨fun hm => h1 ((hp.map _).subset hm), fun hm => h2 ((hb.map _).subset hm)⟩
  blkOnly := fun hh e he => h.blkOnly hh e (hp.subset he)
  fresh := by
    intro e he
    rcases he with he | he
    · exact h.fresh e (.inl (hp.subset he))
    · exact h.fresh e (.inr (hb.subset he))
  tieA := fun ep hep eb heb => h.tieA ep (hp.subset hep) eb (hb.subset heb)
  tieB := fun ep hep eb heb => h.tieB ep (hp.subset hep) eb (hb.subset heb)

theorem inv_doFill {cfg : Cfg} {s : St} (h : Inv cfg s) (k : Nat) : Inv cfg (doFill cfg s k) := by
  unfold doFill
  cases hp : s.ph with
  | snap pe be cs =>
    simp only
    refine h.congr rfl rfl rfl rfl rfl rfl ?_ ?_
    · simp [effPeer, hp]
    · have := h.ph
      unfold PhaseInv at this ⊢
      rw [hp] at this
      simp only
      exact ⟨this.sublist (List.take_sublist _ _) (List.take_sublist _ _) (List.take_sublist _ _), trivial⟩
  | _ => simpa [hp] using h

theorem ginv_doFill {cfg : Cfg} {s : St} (h : GInv cfg s) (k : Nat) : GInv cfg (doFill cfg s k) := by
  unfold doFill
  cases hp : s.ph <;> simp only <;> exact h.congr rfl rfl rfl rfl rfl rfl

theorem foldl_setSentAt (l : List Ent) (now : Nat) (r : RWL) :
    (l.foldl (fun r e => r.setSentAt e.cid now) r).pending = r.pending ∧
    (l.foldl (fun r e => r.setSentAt e.cid now) r).sent = r.sent := by
  induction l generalizing r with
  | nil => simp
  | cons a l ih =>
    simp only [List.foldl_cons]
    obtain ⟨i1, i2⟩ := ih (r.setSentAt a.cid now)
    rw [i1, i2]
    unfold RWL.setSentAt
    split <;> simp

theorem doDeliver_spec {cfg : Cfg} {s : St} {pe be : List Ent} {msg : Msg} (hp : s.ph = .flight pe be msg) :
    (doDeliver s).q.peer.pending = s.q.peer.pending ∧ (doDeliver s).q.peer.sent = s.q.peer.sent ∧
    (doDeliver s).q.bcst.pending = s.q.bcst.pending ∧ (doDeliver s).q.bcst.sent = s.q.bcst.sent ∧
    (doDeliver s).q.cancels = s.q.cancels ∧ (doDeliver s).q.prio = s.q.prio ∧
    effPeer (doDeliver s) = effPeer s ∧ PhaseInv cfg (doDeliver s) ∧
    (doDeliver s).pw = s.pw ∧ (doDeliver s).bw = s.bw := by
  unfold doDeliver
  simp only [hp]
  split
  · refine ⟨(foldl_setSentAt _ _ _).1, (foldl_setSentAt _ _ _).2, (foldl_setSentAt _ _ _).1,
      (foldl_setSentAt _ _ _).2, rfl, rfl, ?_, ?_, rfl, rfl⟩
    · simp [effPeer, hp, returnToLoop]
    · simp [PhaseInv, returnToLoop]
  · refine ⟨(foldl_setSentAt _ _ _).1, (foldl_setSentAt _ _ _).2, (foldl_setSentAt _ _ _).1,
      (foldl_setSentAt _ _ _).2, rfl, rfl, ?_, ?_, rfl, rfl⟩
    · simp [effPeer, hp]
    · simp [PhaseInv]

theorem inv_doDeliver {cfg : Cfg} {s : St} (h : Inv cfg s) : Inv cfg (doDeliver s) := by
  cases hp : s.ph with
  | flight pe be msg =>
    obtain ⟨a1, a2, a3, a4, a5, a6, a7, a8, _, _⟩ := doDeliver_spec (cfg := cfg) hp
    exact h.congr a1 a2 a3 a4 a5 a6 a7 a8
  | _ => unfold doDeliver; simpa [hp] using h

theorem ginv_doDeliver {cfg : Cfg} {s : St} (h : GInv cfg s) : GInv cfg (doDeliver s) := by
  cases hp : s.ph with
  | flight pe be msg =>
    obtain ⟨a1, a2, a3, a4, _, _, _, _, a9, a10⟩ := doDeliver_spec (cfg := cfg) hp
    exact h.congr a1 a2 a3 a4 a9 a10
  | _ => unfold doDeliver; simpa [hp] using h

end C35
