import BoxoModel.C35.Lemmas
/-! client/wantlist.Wantlist WITH its memoized `Entries()` slice (`cached`), and the proof that the
cache is transparent: `Add` (via `put`), `Remove` and `RemoveType` (via `delete`) invalidate it, so
`Entries()` always returns the sorted content of the current set.  This is what allows the main model
(`WL` = the set only) to leave the cache out. -/
namespace C35

structure CWL where
  set : WL := []
  /-- `w.cached` (nil = none) -/
  cached : Option (List Ent) := none

namespace CWL

/-- Wantlist.Add: `put` clears the cache; a refused add touches nothing -/
def add (w : CWL) (c : Nat) (p : Int) (t : WT) : CWL :=
  match w.set.get c with
  | some e => if e.ty = .block ∨ t = .have then w else { set := ⟨c, p, t⟩ :: w.set.del c, cached := none }
  | none => { set := ⟨c, p, t⟩ :: w.set.del c, cached := none }

/-- Wantlist.Remove: `delete` clears the cache even when the cid is absent -/
def remove (w : CWL) (c : Nat) : CWL := { set := w.set.del c, cached := none }

/-- Wantlist.RemoveType -/
def removeType (w : CWL) (c : Nat) (t : WT) : CWL :=
  match w.set.get c with
  | none => w
  | some e => if e.ty = .block ∧ t = .have then w else { set := w.set.del c, cached := none }

/-- Wantlist.Entries: returns the memoized slice if there is one, otherwise sorts and memoizes -/
def entries (w : CWL) : CWL × List Ent :=
  match w.cached with
  | some es => (w, es)
  | none => ({ w with cached := some w.set.entries }, w.set.entries)

/-- the memoized slice, if any, is the sorted content of the set -/
def Coherent (w : CWL) : Prop := ∀ es, w.cached = some es → es = w.set.entries

theorem coherent_init : Coherent {} := by intro es h; cases h

theorem coherent_add {w : CWL} (h : Coherent w) (c : Nat) (p : Int) (t : WT) : Coherent (w.add c p t) := by
  unfold add
  split
  · split
    · exact h
    · intro es he; cases he
  · intro es he; cases he

theorem coherent_remove (w : CWL) (c : Nat) : Coherent (w.remove c) := by intro es he; cases he

theorem coherent_removeType {w : CWL} (h : Coherent w) (c : Nat) (t : WT) : Coherent (w.removeType c t) := by
  unfold removeType
  split
  · exact h
  · split
    · exact h
    · intro es he; cases he

theorem coherent_entries {w : CWL} (h : Coherent w) : Coherent (w.entries).1 ∧ (w.entries).2 = w.set.entries ∧
    (w.entries).1.set = w.set := by
  unfold entries
  cases hc : w.cached with
  | some es => exact ⟨h, h es hc, rfl⟩
  | none => exact ⟨fun es he => by simp at he; exact he.symm, rfl, rfl⟩

/-- the set evolves exactly as the cache-less model's wantlist -/
theorem set_add (w : CWL) (c : Nat) (p : Int) (t : WT) : (w.add c p t).set = w.set.add c p t := by
  unfold add WL.add
  cases w.set.get c with
  | none => rfl
  | some e => by_cases hx : e.ty = .block ∨ t = .have <;> simp [hx]

theorem set_remove (w : CWL) (c : Nat) : (w.remove c).set = w.set.del c := rfl

theorem set_removeType (w : CWL) (c : Nat) (t : WT) : (w.removeType c t).set = w.set.removeType c t := by
  unfold removeType WL.removeType
  cases w.set.get c with
  | none => rfl
  | some e => by_cases hx : e.ty = .block ∧ t = .have <;> simp [hx]

end CWL
end C35
