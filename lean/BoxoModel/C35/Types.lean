import BoxoModel.C35.Mark
/-! Want TYPES at the peer (C35): a want-block recorded as sent is a want-block at the peer. -/
namespace C35

structure TInv (cfg : Cfg) (s : St) : Prop where
  /-- a want-block recorded as sent is a want-block at the peer (counting the message in flight), or a
  want-block for it is still pending -/
  t1 : ∀ c, s.q.peer.sent.blk c = true → (effPeer s).blk c = true ∨ s.q.peer.pending.blk c = true
  /-- without HAVE support a recorded broadcast want is a want-block at the peer, or still pending -/
  t2 : cfg.supportsHave = false → ∀ c, s.q.bcst.sent.has c = true →
    (effPeer s).blk c = true ∨ s.q.peer.pending.blk c = true ∨ s.q.bcst.pending.has c = true

theorem tinv_init (cfg : Cfg) : TInv cfg {} where
  t1 := by intro c h; simp [WL.blk] at h
  t2 := by intro _ c h; simp [WL.has] at h

theorem TInv.congr {cfg : Cfg} {s s' : St} (h : TInv cfg s)
    (hpp : s'.q.peer.pending = s.q.peer.pending) (hps : s'.q.peer.sent = s.q.peer.sent)
    (hbp : s'.q.bcst.pending = s.q.bcst.pending) (hbs : s'.q.bcst.sent = s.q.bcst.sent)
    (heff : effPeer s' = effPeer s) : TInv cfg s' where
  t1 := by rw [hpp, hps, heff]; exact h.t1
  t2 := by rw [hpp, hbp, hbs, heff]; exact h.t2

theorem tinv_addPeerWant {cfg : Cfg} {s : St} (h : TInv cfg s) (t : WT) (c : Nat) : TInv cfg (addPeerWant s t c) := by
  have mono : ∀ c', s.q.peer.pending.blk c' = true → (s.q.peer.pending.add c s.q.prio t).blk c' = true := by
    intro c' hc
    rw [WL.blk_add]
    by_cases hx : c' = c
    · subst hx; simp [hc]
    · simp [hx, hc]
  refine ⟨?_, ?_⟩
  · intro c' hc
    rcases h.t1 c' hc with h1 | h1
    · exact .inl h1
    · exact .inr (mono c' h1)
  · intro hh c' hc
    rcases h.t2 hh c' hc with h1 | h1 | h1
    · exact .inl h1
    · exact .inr (.inl (mono c' h1))
    · exact .inr (.inr h1)

theorem tinv_addBcstWant {cfg : Cfg} {s : St} (h : TInv cfg s) (c : Nat) : TInv cfg (addBcstWant s c) := by
  refine ⟨h.t1, ?_⟩
  intro hh c' hc
  rcases h.t2 hh c' hc with h1 | h1 | h1
  · exact .inl h1
  · exact .inr (.inl h1)
  · right; right
    simp only [addBcstWant, WL.has_add, h1, Bool.or_true]

theorem tinv_cancelOne {cfg : Cfg} {s : St} (h : TInv cfg s) (c : Nat) : TInv cfg (cancelOne s c) := by
  refine ⟨?_, ?_⟩
  · intro c' hc
    simp only [cancelOne, RWL.remove, WL.blk_del, Bool.and_eq_true, decide_eq_true_eq] at hc
    have heff : effPeer (cancelOne s c) = effPeer s := rfl
    rw [heff]
    simp only [cancelOne, RWL.remove, WL.blk_del, hc.1, ne_eq, not_false_eq_true, decide_true, Bool.true_and]
    exact h.t1 c' hc.2
  · intro hh c' hc
    simp only [cancelOne, RWL.remove, WL.has_del, Bool.and_eq_true, decide_eq_true_eq] at hc
    have heff : effPeer (cancelOne s c) = effPeer s := rfl
    rw [heff]
    simp only [cancelOne, RWL.remove, WL.blk_del, WL.has_del, hc.1, ne_eq, not_false_eq_true, decide_true,
      Bool.true_and]
    exact h.t2 hh c' hc.2

theorem tinv_doRefresh {cfg : Cfg} {s : St} (h : TInv cfg s) (k : Nat) (hi : isIdle s.ph = true) :
    TInv cfg (doRefresh s k) := by
  have hb := foldl_add_spec (s.q.bcst.due k) s.q.bcst.pending
  have hp := foldl_add_spec (s.q.peer.due k) s.q.peer.pending
  refine ⟨?_, ?_⟩
  · intro c hc
    rw [effPeer_doRefresh s k hi]
    rcases h.t1 c hc with h1 | h1
    · exact .inl h1
    · exact .inr (hp.2.2.2.1 c h1)
  · intro hh c hc
    rw [effPeer_doRefresh s k hi]
    rcases h.t2 hh c hc with h1 | h1 | h1
    · exact .inl h1
    · exact .inr (.inl (hp.2.2.2.1 c h1))
    · exact .inr (.inr (hb.2.2.1 c h1))

theorem tinv_doSnap {cfg : Cfg} {s : St} (hi : Inv cfg s) (h : TInv cfg s) (cs : List Nat)
    (hen : isIdleOrPre s.ph = true) : TInv cfg (doSnap cfg s cs) := by
  obtain ⟨q1, q2, q3, q4, q5, q6, q7, q8, q9⟩ := snapQ_spec hi
  have heff : effPeer (doSnap cfg s cs) = effPeer s := by
    unfold effPeer doSnap
    cases hp : s.ph <;> simp_all [isIdleOrPre]
  refine ⟨?_, ?_⟩
  · intro c hc
    rw [heff]
    simp only [doSnap, q4] at hc
    simp only [doSnap, q7]
    exact h.t1 c hc
  · intro hh c hc
    rw [heff]
    simp only [doSnap, q1] at hc
    simp only [doSnap, q7, q1]
    exact h.t2 hh c hc

theorem tinv_doFill {cfg : Cfg} {s : St} (h : TInv cfg s) (k : Nat) : TInv cfg (doFill cfg s k) := by
  unfold doFill
  cases hp : s.ph with
  | snap pe be cs => exact h.congr rfl rfl rfl rfl (by simp [effPeer, hp])
  | _ => simpa [hp] using h

theorem tinv_doDeliver {cfg : Cfg} {s : St} (h : TInv cfg s) : TInv cfg (doDeliver s) := by
  cases hp : s.ph with
  | flight pe be msg =>
    obtain ⟨a1, a2, a3, a4, _, _, a7, _, _, _⟩ := doDeliver_spec (cfg := cfg) hp
    exact h.congr a1 a2 a3 a4 a7
  | _ => unfold doDeliver; simpa [hp] using h

theorem tinv_response {cfg : Cfg} {s : St} (h : TInv cfg s) (cs : List Nat) : TInv cfg (response s cs) := by
  unfold response
  refine inv_foldl _ (TInv cfg) ?_ _ _ h
  intro s c hs
  exact hs.congr rfl rfl rfl rfl rfl

/-- the message built in phase B carries a want-block for every snapshotted peer want-block, and
(no HAVE support) for every snapshotted broadcast want -/
theorem build_blkC (cfg : Cfg) (cs : List Nat) (pe be : List Ent) (c : Nat)
    (h : (∃ e ∈ pe, e.cid = c ∧ e.ty = .block) ∨ (cfg.supportsHave = false ∧ ∃ e ∈ be, e.cid = c)) :
    (buildMsg (items cfg cs pe be)).blkC c = true := by
  unfold buildMsg
  rw [Msg.blkC_foldl]
  simp only [Msg.blkC, Msg.get_nil, Bool.false_or, items, List.any_append, List.any_map, Bool.or_eq_true,
    List.any_eq_true, Function.comp, cancelArg, peerArg, bcstArg, Bool.and_eq_true, beq_iff_eq]
  rcases h with ⟨e, he, hc, ht⟩ | ⟨hh, e, he, hc⟩
  · exact .inl (.inr ⟨e, he, hc, ht⟩)
  · exact .inr ⟨e, he, hc, by simp [hh]⟩


theorem blkC_congr {m m' : Msg} {c : Nat} (h : m.get c = m'.get c) : m.blkC c = m'.blkC c := by
  unfold Msg.blkC; rw [h]

theorem blk_of_get {w : WL} {c : Nat} {e : Ent} (hg : w.get c = some e) (hb : w.blk c = true) : e.ty = .block := by
  unfold WL.blk at hb; rw [hg] at hb; simpa using hb

theorem tinv_doMarkOld {cfg : Cfg} {s : St} (hi : Inv cfg s) (h : TInv cfg s) : TInv cfg (doMarkOld s) := by
  unfold doMarkOld
  cases hp : s.ph with
  | built pe be cs msg =>
    simp only
    have hph := hi.ph
    unfold PhaseInv at hph
    rw [hp] at hph
    obtain ⟨snap, hmsg⟩ := hph
    obtain ⟨_, _, w3, _, _, M1u, M1ok, _⟩ :=
      markFold_spec pe snap.ndp { r := s.q.peer, cancels := s.q.cancels, msg := msg, marked := [] }
    generalize hm1 : pe.foldl markOne { r := s.q.peer, cancels := s.q.cancels, msg := msg, marked := [] } = m1 at *
    obtain ⟨_, _, v3, _, _, M2u, _, _⟩ :=
      markFold_spec be snap.ndb { r := s.q.bcst, cancels := m1.cancels, msg := m1.msg, marked := [] }
    generalize hm2 : be.foldl markOne { r := s.q.bcst, cancels := m1.cancels, msg := m1.msg, marked := [] } = m2 at *
    obtain ⟨u1, _, _, _⟩ := pruneFold_spec cs snap.ndc (m2.cancels, m2.msg)
    generalize hkm : cs.foldl pruneOne (m2.cancels, m2.msg) = km at *
    have leaf := mark_leaf snap hmsg hm1.symm hm2.symm hkm.symm
    simp only at w3 v3 u1 M1u M1ok M2u
    have hwf : km.2.WF := u1 (v3 (w3 (by rw [hmsg]; exact build_WF _ _ _ _)))
    have heff : ∀ s0 : St, s0.peerWL = s.peerWL →
        s0.ph = (if km.2.isEmpty then Phase.idle else Phase.flight m1.marked m2.marked km.2) →
        ∀ c, (effPeer s0).blk c =
          if km.2.hasC c then (!km.2.canc c && (s.peerWL.blk c || km.2.blkC c)) else s.peerWL.blk c := by
      intro s0 h1 h2 c
      rw [effPeer_after_mark s0 s.peerWL km.2 m1.marked m2.marked h1 h2, blk_recv hwf]
    have heff0 : effPeer s = s.peerWL := by simp [effPeer, hp]
    have t1 := h.t1; have t2 := h.t2; have j1 := hi.j1
    rw [heff0] at t1 t2
    -- a silent message leaves the peer's type alone
    have silent : ∀ c, km.2.get c = none → km.2.hasC c = false := by
      intro c hc; simp [Msg.hasC, hc]
    refine ⟨?_, ?_⟩
    · intro c hc
      rw [heff _ (by rfl) (by rfl)]
      simp only at hc ⊢
      rcases leaf c with ⟨a1, a2, a3, a4, a5, a6⟩ | ⟨a1, a2, a3, a4, a5, a6⟩ |
          ⟨_, _, w3', w4', w5, w6, _⟩ | ⟨a1, a2, a3, a4, a5, a6⟩
      · rw [blk_congr a2] at hc
        rw [silent c a6, blk_congr a1]
        simpa using t1 c hc
      · rw [blk_congr a1] at hc
        exact absurd a3 (j1 c (by simp [sentHas, WL.blk_has hc]))
      · simp only [w3', w4', ↓reduceIte, Bool.not_false, Bool.true_and, Bool.or_eq_true]
        rw [blkC_congr w5]
        by_cases hP : c ∈ pe.map (·.cid)
        · obtain ⟨e, he, hce⟩ := List.mem_map.mp hP
          have hce : e.cid = c := hce
          have okP := w6 e he hce
          obtain ⟨b1, b2, _, _⟩ := M1ok e he (by rw [hce]; exact okP)
          rw [hce] at b1 b2
          rw [blk_congr b2, WL.blk_add] at hc
          simp only [↓reduceIte, Bool.or_eq_true, beq_iff_eq] at hc
          by_cases ht : e.ty = .block
          · left; right; rw [hmsg]; exact build_blkC cfg cs pe be c (.inl ⟨e, he, hce, ht⟩)
          · rcases hc with hc | hc
            · rcases t1 c hc with h1 | h1
              · exact .inl (.inl h1)
              · exact absurd (blk_of_get okP h1) ht
            · exact absurd hc ht
        · obtain ⟨b1, b2, _, _⟩ := M1u c hP
          rw [blk_congr b2] at hc
          rw [blk_congr b1]
          rcases t1 c hc with h1 | h1
          · exact .inl (.inl h1)
          · exact .inr h1
      · rw [blk_congr a6] at hc
        rw [silent c a5, blk_congr a1]
        simpa using t1 c hc
    · intro hh c hc
      rw [heff _ (by rfl) (by rfl)]
      simp only at hc ⊢
      rcases leaf c with ⟨a1, a2, a3, a4, a5, a6⟩ | ⟨a1, a2, a3, a4, a5, a6⟩ |
          ⟨_, _, w3', w4', w5, w6, w7⟩ | ⟨a1, a2, a3, a4, a5, a6⟩
      · rw [has_congr a4] at hc
        rw [silent c a6, blk_congr a1, has_congr a3]
        simpa using t2 hh c hc
      · rw [has_congr a2] at hc
        exact absurd a3 (j1 c (by simp [sentHas, hc]))
      · simp only [w3', w4', ↓reduceIte, Bool.not_false, Bool.true_and, Bool.or_eq_true]
        rw [blkC_congr w5]
        by_cases hB : c ∈ be.map (·.cid)
        · obtain ⟨e, he, hce⟩ := List.mem_map.mp hB
          left; right; rw [hmsg]; exact build_blkC cfg cs pe be c (.inr ⟨hh, e, he, hce⟩)
        · obtain ⟨b1, b2, _, _⟩ := M2u c hB
          rw [has_congr b2] at hc
          rw [has_congr b1]
          rcases t2 hh c hc with h1 | h1 | h1
          · exact .inl (.inl h1)
          · by_cases hP : c ∈ pe.map (·.cid)
            · obtain ⟨e, he, hce⟩ := List.mem_map.mp hP
              have hce : e.cid = c := hce
              have okP := w6 e he hce
              left; right; rw [hmsg]
              exact build_blkC cfg cs pe be c (.inl ⟨e, he, hce, blk_of_get okP h1⟩)
            · obtain ⟨d1, _, _, _⟩ := M1u c hP
              rw [blk_congr d1]
              exact .inr (.inl h1)
          · exact .inr (.inr h1)
      · right; left; rw [blk_congr a1]; exact a2
  | _ => simpa [hp] using h

theorem tinv_doMark {cfg : Cfg} {s : St} (hi : Inv cfg s) (h : TInv cfg s) : TInv cfg (doMark s) := by
  obtain ⟨e1, e2, e3, _, _⟩ := doMark_eq s
  exact (tinv_doMarkOld hi h).congr (by rw [e1]) (by rw [e1]) (by rw [e1]) (by rw [e1]) (effPeer_congr e2 e3)

/-- all three invariants hold in every reachable state -/
theorem reach_tinv {cfg : Cfg} {s : St} (h : Reach cfg s) : TInv cfg s := by
  induction h with
  | init => exact tinv_init cfg
  | @step s e hr hen ih =>
    have hi := (reach_inv hr).1
    cases e with
    | want bs hs =>
      exact inv_foldl _ (TInv cfg) (fun s a hs => tinv_addPeerWant hs .block a) _ _
        (inv_foldl _ (TInv cfg) (fun s a hs => tinv_addPeerWant hs .have a) _ _ ih)
    | bcast cs => exact inv_foldl _ (TInv cfg) (fun _ a hs => tinv_addBcstWant hs a) _ _ ih
    | cancel cs => exact inv_foldl _ (TInv cfg) (fun _ a hs => tinv_cancelOne hs a) _ _ ih
    | resp cs => exact tinv_response ih cs
    | refresh k => exact tinv_doRefresh ih k hen
    | snap cs => exact tinv_doSnap hi ih cs hen.1
    | fill k => exact tinv_doFill ih k
    | mark => exact tinv_doMark hi ih
    | deliver => exact tinv_doDeliver ih
    | wake =>
      exact ih.congr rfl rfl rfl rfl (by
        have : isIdle s.ph = true := hen.1
        unfold effPeer; cases hp : s.ph <;> simp_all [isIdle, step])
    | timer => exact ih.congr rfl rfl rfl rfl rfl

end C35
