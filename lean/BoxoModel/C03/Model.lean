/-
C03 — blockstore/validating_blockstore.go, filestore/fsrefstore.go (FileManager.Get), and
filestore/filestore.go (Filestore.Get): executable model of the verified read paths.

Parameters of the model (never modelled, supplied by the tie / universally quantified in theorems):
  * `verdict c data` — the outcome of `c.Prefix().Sum(data)` compared with `c`:
    `eq` (hashes to `c`), `ne` (some other CID), `err` (Sum failed).  This is the hash function.
  * the inner blockstore `inner : multihash → InnerRes` (whatever the backing store holds)
  * the reference datastore `refs : multihash → RefEntry` (absent / undecodable protobuf / datastore
    error / a `DataObj {path, offset, size}` — whatever it holds)
  * the file system `fs : path → FileState` (missing / directory / unreadable / regular file bytes)
  * the HTTP world `fetch : url → offset → size → UrlResp`
Transcribed branch for branch:
  * `ValidatingBlockstore.Get`: inner Get, `Prefix().Sum`, `Equals`, else `ErrHashMismatch`
  * `FileManager.Get`: `getDataObj` (not found / error / unmarshal error), `IsURL`,
    `readFileDataObj` (AllowFiles, open: IsNotExist ⇒ FileNotFound, other ⇒ FileError; `ReadAt`
    size bytes at offset: EOF ⇒ FileChanged, other error ⇒ FileError; re-hash against CIDv1-raw of
    the multihash, mismatch ⇒ FileChanged), `readURLDataObj` (AllowUrls, request error ⇒ FileError,
    status ∉ {200,206} ⇒ FileError, `io.ReadFull` short ⇒ FileChanged, re-hash)
  * readers: `os.File.ReadAt` (std) and `x/exp/mmap.ReaderAt.ReadAt` (WithMMapReader)
  * `Filestore.Get`: main blockstore first, FileManager only on not-found
Core-only.
-/
namespace C03

abbrev Bytes := List UInt8
abbrev Path := List Char

structure Cid where
  ver : Nat
  codec : Nat
  mh : Bytes
deriving Repr, DecidableEq

/-- `cid.NewCidV1(cid.Raw, m)` -/
def rawCid (m : Bytes) : Cid := { ver := 1, codec := 0x55, mh := m }

inductive Verdict where
  | eq | ne | err
deriving Repr, DecidableEq

inductive InnerRes where
  | notFound
  | error
  | block (data : Bytes)
deriving Repr, DecidableEq

structure DataObj where
  path : Path
  offset : Nat
  size : Nat
deriving Repr, DecidableEq

inductive RefEntry where
  | absent             -- ds.ErrNotFound
  | dsError            -- any other datastore error
  | garbage            -- proto.Unmarshal fails
  | ref (d : DataObj)
deriving Repr, DecidableEq

inductive FileState where
  | missing
  | dir
  | unreadable          -- open fails with something else than not-exist
  | file (data : Bytes)
deriving Repr, DecidableEq

inductive UrlResp where
  | connError
  | resp (status : Nat) (body : Bytes)
deriving Repr, DecidableEq

inductive Reader where
  | std | mmap
deriving Repr, DecidableEq

inductive Out where
  | ok (data : Bytes)
  | notFound
  | mismatch            -- blockstore.ErrHashMismatch
  | fileNotFound        -- CorruptReferenceError{StatusFileNotFound}
  | fileChanged         -- CorruptReferenceError{StatusFileChanged}
  | fileError           -- CorruptReferenceError{StatusFileError}
  | notEnabled          -- ErrFilestoreNotEnabled / ErrUrlstoreNotEnabled
  | error               -- any other error (datastore, unmarshal, Sum)
  | bool (b : Bool)     -- Has
  | size (n : Nat)      -- GetSize
deriving Repr, DecidableEq

structure World where
  verdict : Cid → Bytes → Verdict
  inner : Bytes → InnerRes
  refs : Bytes → RefEntry
  fs : Path → FileState
  fetch : Path → Nat → Nat → UrlResp
  allowFiles : Bool
  allowUrls : Bool
  reader : Reader
  root : Path

/-! ### ValidatingBlockstore.Get -/

def validatingGet (w : World) (c : Cid) : Out :=
  match w.inner c.mh with
  | .notFound => .notFound
  | .error => .error
  | .block data =>
    match w.verdict c data with
    | .err => .error
    | .ne => .mismatch
    | .eq => .ok data

/-! ### FileManager.Get -/

/-- `IsURL` -/
def isURL (s : Path) : Bool :=
  match s with
  | 'h' :: 't' :: 't' :: 'p' :: r =>
    s.length > 7 &&
      ((s.length > 8 && (match r with | 's' :: ':' :: '/' :: '/' :: _ => true | _ => false)) ||
       (match r with | ':' :: '/' :: '/' :: _ => true | _ => false))
  | _ => false

inductive ReadRes where
  | ok (data : Bytes)
  | eof
  | otherError
deriving Repr, DecidableEq

/-- `(*os.File).ReadAt(make([]byte, size), int64(offset))` on a regular file -/
def stdReadAt (data : Bytes) (offset size : Nat) : ReadRes :=
  if offset ≥ 2 ^ 63 then .otherError                 -- int64(offset) < 0: "negative offset"
  else if size = 0 then .ok []                         -- the read loop does not run
  else if offset + size ≤ data.length then .ok ((data.drop offset).take size)
  else .eof

/-- `(*mmap.ReaderAt).ReadAt` -/
def mmapReadAt (data : Bytes) (offset size : Nat) : ReadRes :=
  if offset ≥ 2 ^ 63 ∨ data.length < offset then .otherError   -- "invalid ReadAt offset"
  else if offset + size ≤ data.length then .ok ((data.drop offset).take size)
  else .eof

/-- `filepath.Join(f.root, filepath.FromSlash(p))` for a clean relative `p` -/
def absPath (root p : Path) : Path := root ++ '/' :: p

/-- re-hash against CIDv1-raw of the multihash -/
def checkHash (w : World) (m : Bytes) (out : Bytes) : Out :=
  match w.verdict (rawCid m) out with
  | .err => .error
  | .ne => .fileChanged
  | .eq => .ok out

def readFileDataObj (w : World) (m : Bytes) (d : DataObj) : Out :=
  if !w.allowFiles then .notEnabled
  else
    match w.fs (absPath w.root d.path), w.reader with
    | .missing, _ => .fileNotFound
    | .unreadable, _ => .fileError
    | .dir, .mmap => .fileError                         -- mmap of a directory fails in Open
    | .dir, .std =>
      -- os.Open succeeds; ReadAt fails with EISDIR unless nothing is read
      if d.offset ≥ 2 ^ 63 then .fileError
      else if d.size = 0 then checkHash w m []
      else .fileError
    | .file data, rd =>
      match (match rd with | .std => stdReadAt data d.offset d.size | .mmap => mmapReadAt data d.offset d.size) with
      | .eof => .fileChanged
      | .otherError => .fileError
      | .ok out => checkHash w m out

def readURLDataObj (w : World) (m : Bytes) (d : DataObj) : Out :=
  if !w.allowUrls then .notEnabled
  else
    match w.fetch d.path d.offset d.size with
    | .connError => .fileError
    | .resp status body =>
      if status ≠ 200 ∧ status ≠ 206 then .fileError
      else if body.length < d.size then .fileChanged    -- io.ReadFull: EOF / ErrUnexpectedEOF
      else checkHash w m (body.take d.size)

def fmGet (w : World) (c : Cid) : Out :=
  match w.refs c.mh with
  | .absent => .notFound
  | .dsError => .error
  | .garbage => .error
  | .ref d => if isURL d.path then readURLDataObj w c.mh d else readFileDataObj w c.mh d

/-- `FileManager.Put` of a file-backed node whose `FullPath` is `root/rel` (the containment check of
`putTo` belongs to C41): the stored reference, or `none` = ErrFilestoreNotEnabled -/
def fmPutFile (allowFiles : Bool) (rel : Path) (offset : Nat) (data : Bytes) : Option DataObj :=
  if !allowFiles then none else some { path := rel, offset := offset, size := data.length }

/-! ### Filestore.Get -/

/-- main blockstore first (a plain blockstore: `inner`), FileManager only when it reports not-found -/
def filestoreGet (w : World) (c : Cid) : Out :=
  match w.inner c.mh with
  | .notFound => fmGet w c
  | .error => .error
  | .block data => .ok data

/-! ### the unverified queries (documented as such in the Go code) -/

/-- `FileManager.Has`: "does not validate the data, nor checks if the reference is valid" -/
def fmHas (w : World) (c : Cid) : Out :=
  match w.refs c.mh with
  | .absent => .bool false
  | .dsError => .error
  | _ => .bool true

/-- `FileManager.GetSize`: the size recorded in the reference, without looking at the file -/
def fmGetSize (w : World) (c : Cid) : Out :=
  match w.refs c.mh with
  | .absent => .notFound
  | .dsError => .error
  | .garbage => .error
  | .ref d => .size d.size

/-- `Filestore.Has` -/
def filestoreHas (w : World) (c : Cid) : Out :=
  match w.inner c.mh with
  | .error => .error
  | .block _ => .bool true
  | .notFound => fmHas w c

/-- `Filestore.GetSize` -/
def filestoreGetSize (w : World) (c : Cid) : Out :=
  match w.inner c.mh with
  | .error => .error
  | .block d => .size d.length
  | .notFound => fmGetSize w c

/-- where `Filestore.Put` sends a block: nowhere when `Has` says it is there (or fails), the
FileManager for a `*posinfo.FilestoreNode`, the main blockstore otherwise -/
inductive PutTarget where
  | skip | failed | fileManager | blockstore
deriving Repr, DecidableEq

def filestorePutTarget (w : World) (c : Cid) (isFilestoreNode : Bool) : PutTarget :=
  match filestoreHas w c with
  | .bool true => .skip
  | .bool false => if isFilestoreNode then .fileManager else .blockstore
  | _ => .failed

end C03
