import BoxoModel.C03.Model
/-! C03 helper lemmas about the two `ReadAt` models and `checkHash`. -/
namespace C03

/-- region of a byte string -/
def slice (data : Bytes) (off size : Nat) : Bytes := (data.drop off).take size

/-- the three `CorruptReferenceError` statuses -/
def Out.isCorrupt : Out → Bool
  | .fileNotFound | .fileChanged | .fileError => true
  | _ => false

theorem stdReadAt_ok (data : Bytes) (off size : Nat) (out : Bytes) (h : stdReadAt data off size = .ok out) :
    out = slice data off size ∧ (size = 0 ∨ off + size ≤ data.length) := by
  unfold stdReadAt at h
  split at h
  · simp at h
  · split at h
    · rename_i hz
      simp at h; subst h
      exact ⟨by simp [slice, hz], Or.inl hz⟩
    · split at h
      · rename_i hle
        simp at h; subst h
        exact ⟨rfl, Or.inr hle⟩
      · simp at h

theorem mmapReadAt_ok (data : Bytes) (off size : Nat) (out : Bytes) (h : mmapReadAt data off size = .ok out) :
    out = slice data off size ∧ off + size ≤ data.length := by
  unfold mmapReadAt at h
  split at h
  · simp at h
  · split at h
    · rename_i hle
      simp at h; subst h
      exact ⟨rfl, hle⟩
    · simp at h

theorem checkHash_ok (w : World) (m out b : Bytes) (h : checkHash w m out = .ok b) :
    w.verdict (rawCid m) b = .eq ∧ b = out := by
  unfold checkHash at h
  cases hv : w.verdict (rawCid m) out <;> simp [hv] at h
  subst h; exact ⟨hv, rfl⟩

end C03
