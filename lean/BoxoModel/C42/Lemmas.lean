import BoxoModel.C42.Model
import BoxoModel.Props.C43
/-! Specification-level definitions (IPIP-484 reference predicate `specApply`, `specServe`) and helper lemmas
for C42. Core-only. -/
namespace C42

/-! ### the loops are the obvious list operations -/

theorem containsProtocol_eq (ps : List Nat) (p : Nat) : containsProtocol ps p = ps.contains p := by
  induction ps with
  | nil => rfl
  | cons x r ih =>
    simp only [containsProtocol, ih, List.contains_cons]
    by_cases h : x = p
    · simp [h]
    · have : (p == x) = false := by simp; exact fun h' => h h'.symm
      simp [h, this]

theorem containsAny_eq (ps fs : List Nat) : containsAny ps fs = fs.any (fun f => ps.contains f) := by
  induction fs with
  | nil => rfl
  | cons f r ih => simp only [containsAny, containsProtocol_eq, ih, List.any_cons]; cases ps.contains f <;> simp

def posCodes (E : Env) (fa : List String) : List Nat :=
  (fa.filter (fun f => !f.startsWith "!")).map E.codeOf
def negCodes (E : Env) (fa : List String) : List Nat :=
  (fa.filter (fun f => f.startsWith "!")).map (fun f => E.codeOf (f.drop 1).toString)

theorem splitFilters_eq (E : Env) (fa : List String) :
    splitFilters E fa = (posCodes E fa, negCodes E fa) := by
  induction fa with
  | nil => rfl
  | cons f r ih =>
    simp only [splitFilters, ih, posCodes, negCodes, List.filter_cons]
    cases h : f.startsWith "!" <;> simp [h]

/-- IPIP-484 address rule: none of the negated protocols, and one of the positive ones if any is given -/
def addrKeep (pos neg : List Nat) (a : Addr) : Bool :=
  !(neg.any fun f => a.protos.contains f) && (pos.isEmpty || pos.any fun f => a.protos.contains f)

theorem addrLoop_eq (pos neg : List Nat) (as : List Addr) : addrLoop pos neg as = as.filter (addrKeep pos neg) := by
  induction as with
  | nil => rfl
  | cons a r ih =>
    simp only [addrLoop, containsAny_eq, ih, List.filter_cons]
    have hk : addrKeep pos neg a =
        (!(neg.any fun f => a.protos.contains f) && (pos.isEmpty || pos.any fun f => a.protos.contains f)) := rfl
    cases h1 : (neg.any fun f => a.protos.contains f) <;>
      cases h2 : (pos.isEmpty || pos.any fun f => a.protos.contains f) <;> (rw [hk, h1, h2]; simp)

theorem anyFold_eq (E : Env) (f : String) (ps : List String) : anyFold E f ps = ps.any (fun p => E.fold p f) := by
  induction ps with
  | nil => rfl
  | cons p r ih => simp only [anyFold, ih, List.any_cons]; cases E.fold p f <;> simp

/-- IPIP-484 protocol rule -/
def protoKeep (E : Env) (ps fp : List String) : Bool :=
  fp.isEmpty || fp.any fun f => (f == "unknown" && ps.isEmpty) || ps.any fun p => E.fold p f

theorem protocolsAllowed_go_eq (E : Env) (ps fp : List String) :
    protocolsAllowed.go E ps fp = fp.any fun f => (f == "unknown" && ps.isEmpty) || ps.any fun p => E.fold p f := by
  induction fp with
  | nil => rfl
  | cons f r ih =>
    simp only [protocolsAllowed.go, anyFold_eq, ih, List.any_cons]
    cases (f == "unknown" && ps.isEmpty) <;> cases (ps.any fun p => E.fold p f) <;> simp

theorem protocolsAllowed_eq (E : Env) (ps fp : List String) : protocolsAllowed E ps fp = protoKeep E ps fp := by
  unfold protocolsAllowed protoKeep
  rw [protocolsAllowed_go_eq]
  cases fp.isEmpty <;> simp


/-! ### the reference predicate -/

/-- IPIP-484 address filtering of an address list -/
def specAddrs (E : Env) (addrs : List Addr) (fa : List String) : List Addr :=
  if fa.isEmpty then addrs else addrs.filter (addrKeep (posCodes E fa) (negCodes E fa))

/-- IPIP-484 on one record, written as a specification -/
def specApply (E : Env) (r : Rec) (fa fp : List String) : Option Rec :=
  if fa.isEmpty && fp.isEmpty then some r
  else if !protoKeep E r.protocols fp then none
  else if fa.isEmpty || (r.addrs.isEmpty && fa.contains "unknown") then some r
  else if (specAddrs E r.addrs fa).isEmpty then none
  else some { r with addrs := specAddrs E r.addrs fa }

theorem applyAddrFilter_eq (E : Env) (addrs : List Addr) (fa : List String) :
    applyAddrFilter E addrs fa = specAddrs E addrs fa := by
  simp only [applyAddrFilter, specAddrs, splitFilters_eq, addrLoop_eq]

theorem applyFilters_eq (E : Env) (r : Rec) (fa fp : List String) :
    applyFilters E r fa fp = specApply E r fa fp := by
  simp only [applyFilters, specApply, protocolsAllowed_eq, applyAddrFilter_eq]

/-! ### only membership in the filter lists matters -/

theorem any_mem_congr {α : Type} {l l' : List α} (h : ∀ x, x ∈ l ↔ x ∈ l') (p : α → Bool) : l.any p = l'.any p := by
  rw [Bool.eq_iff_iff]
  simp only [List.any_eq_true]
  constructor
  · rintro ⟨x, hx, hp⟩; exact ⟨x, (h x).1 hx, hp⟩
  · rintro ⟨x, hx, hp⟩; exact ⟨x, (h x).2 hx, hp⟩

theorem isEmpty_mem_congr {α : Type} {l l' : List α} (h : ∀ x, x ∈ l ↔ x ∈ l') : l.isEmpty = l'.isEmpty := by
  cases l with
  | nil =>
    cases l' with
    | nil => rfl
    | cons y r => have := (h y).2 (by simp); simp at this
  | cons x r =>
    cases l' with
    | nil => have := (h x).1 (by simp); simp at this
    | cons y r' => rfl

theorem contains_mem_congr {l l' : List String} (h : ∀ x, x ∈ l ↔ x ∈ l') (s : String) : l.contains s = l'.contains s := by
  rw [Bool.eq_iff_iff]; simp [h s]

theorem posCodes_mem {E : Env} {fa fa' : List String} (h : ∀ x, x ∈ fa ↔ x ∈ fa') :
    ∀ x, x ∈ posCodes E fa ↔ x ∈ posCodes E fa' := by
  intro x; simp only [posCodes, List.mem_map, List.mem_filter, h]

theorem negCodes_mem {E : Env} {fa fa' : List String} (h : ∀ x, x ∈ fa ↔ x ∈ fa') :
    ∀ x, x ∈ negCodes E fa ↔ x ∈ negCodes E fa' := by
  intro x; simp only [negCodes, List.mem_map, List.mem_filter, h]

theorem specApply_congr (E : Env) (r : Rec) {fa fa' fp fp' : List String}
    (ha : ∀ x, x ∈ fa ↔ x ∈ fa') (hp : ∀ x, x ∈ fp ↔ x ∈ fp') :
    specApply E r fa fp = specApply E r fa' fp' := by
  have h1 := isEmpty_mem_congr ha
  have h2 := isEmpty_mem_congr hp
  have h3 : protoKeep E r.protocols fp = protoKeep E r.protocols fp' := by
    simp only [protoKeep, h2, any_mem_congr hp]
  have h4 := contains_mem_congr ha "unknown"
  have h5 : specAddrs E r.addrs fa = specAddrs E r.addrs fa' := by
    simp only [specAddrs, h1]
    congr 1
    apply List.filter_congr
    intro a _
    simp only [addrKeep, any_mem_congr (posCodes_mem ha), any_mem_congr (negCodes_mem ha),
      isEmpty_mem_congr (posCodes_mem (E := E) ha)]
  simp only [specApply, h1, h2, h3, h4, h5]

/-! ### idempotence -/

theorem specApply_idem (E : Env) (r r' : Rec) (fa fp : List String)
    (h : specApply E r fa fp = some r') : specApply E r' fa fp = some r' := by
  unfold specApply at h ⊢
  by_cases h0 : (fa.isEmpty && fp.isEmpty) = true
  · simp [h0]
  · simp only [h0, Bool.false_eq_true, if_false] at h ⊢
    by_cases h1 : (!protoKeep E r.protocols fp) = true
    · simp [h1] at h
    · simp only [h1, Bool.false_eq_true, if_false] at h
      by_cases h2 : (fa.isEmpty || (r.addrs.isEmpty && fa.contains "unknown")) = true
      · simp only [h2, if_true, Option.some.injEq] at h
        subst h
        rw [if_neg h1, if_pos h2]
      · simp only [h2, Bool.false_eq_true, if_false] at h
        by_cases h3 : (specAddrs E r.addrs fa).isEmpty = true
        · simp [h3] at h
        · simp only [h3, Bool.false_eq_true, if_false, Option.some.injEq] at h
          subst h
          have hfa : fa.isEmpty = false := by
            cases hf : fa.isEmpty <;> simp [hf] at h2 ⊢
          have hidem : specAddrs E (specAddrs E r.addrs fa) fa = specAddrs E r.addrs fa := by
            simp [specAddrs, hfa, List.filter_filter]
          simp only [h1, Bool.false_eq_true, if_false, hidem, h3]
          simp [hfa, h3]

/-! ### the pipelines -/

/-- what one position of the router's result list contributes to the response -/
def keepAt (E : Env) (fa fp : List String) (o : Option Rec) : Option Rec :=
  o.bind (applyRec E fa fp)

/-- the element function of `serve` -/
def outAt (E : Env) (fa fp : List String) (recs : List (Option Rec)) (i : Int) : Option Rec :=
  match recs[i.toNat]? with
  | some (some r) => applyRec E fa fp r
  | _ => none

theorem take_filterMap_of_some {α β : Type} (g : α → Option β) :
    ∀ (l : List α) (k : Nat), (∀ x ∈ l, (g x).isSome = true) → (l.take k).filterMap g = (l.filterMap g).take k := by
  intro l
  induction l with
  | nil => intro k _; simp
  | cons x r ih =>
    intro k h
    cases k with
    | zero => simp
    | succ k =>
      have hx := h x (by simp)
      cases hg : g x with
      | none => simp [hg] at hx
      | some y =>
        simp only [List.take_succ_cons, List.filterMap_cons, hg]
        rw [ih k (fun z hz => h z (by simp [hz]))]

/-- the filtered index stream, position by position (`pre` = the results already passed) -/
theorem stream_spec (E : Env) (fa fp : List String) : ∀ (suf pre : List (Option Rec)),
    (((idxFrom pre.length suf).map (mapIdx E fa fp (pre ++ suf))).filter (fun i => i ≥ 0)).filterMap
        (outAt E fa fp (pre ++ suf)) = suf.filterMap (keepAt E fa fp) ∧
    ∀ i ∈ ((idxFrom pre.length suf).map (mapIdx E fa fp (pre ++ suf))).filter (fun i => i ≥ 0),
      (outAt E fa fp (pre ++ suf) i).isSome = true := by
  intro suf
  induction suf with
  | nil => intro pre; simp [idxFrom]
  | cons x r ih =>
    intro pre
    have hrec := ih (pre ++ [x])
    simp only [List.length_append, List.length_cons, List.length_nil, List.append_assoc, List.cons_append,
      List.nil_append, Nat.zero_add] at hrec
    have hget : (pre ++ x :: r)[pre.length]? = some x := by simp
    have hm : mapIdx E fa fp (pre ++ x :: r) (pre.length : Int) =
        if (keepAt E fa fp x).isSome then (pre.length : Int) else -1 := by
      simp only [mapIdx, Int.toNat_natCast, hget]
      cases x with
      | none => simp [keepAt]
      | some rc =>
        simp only [keepAt, Option.bind_some]
        have : (pre.length : Int) ≥ 0 := Int.natCast_nonneg _
        by_cases hs : (applyRec E fa fp rc).isSome = true <;> simp [this, hs]
    simp only [idxFrom, List.map_cons, hm]
    cases hk : keepAt E fa fp x with
    | none =>
      have : ¬ ((-1 : Int) ≥ 0) := by omega
      simp only [Option.isSome_none, Bool.false_eq_true, if_false, List.filter_cons, decide_eq_true_eq, this,
        List.filterMap_cons, hk]
      exact hrec
    | some y =>
      have hp : (pre.length : Int) ≥ 0 := Int.natCast_nonneg _
      have hout : outAt E fa fp (pre ++ x :: r) (pre.length : Int) = some y := by
        simp only [outAt, Int.toNat_natCast, hget]
        cases x with
        | none => simp [keepAt] at hk
        | some rc => simpa [keepAt] using hk
      simp only [Option.isSome_some, if_true, List.filter_cons, decide_eq_true_eq, hp, List.filterMap_cons, hout, hk]
      refine ⟨by rw [hrec.1], ?_⟩
      intro i hi
      simp only [List.mem_cons] at hi
      rcases hi with hi | hi
      · subst hi; simp [hout]
      · exact hrec.2 i hi

/-- the response of a handler: the kept records, in order, capped at the limit when it is positive -/
def specServe (E : Env) (fa fp : List String) (recs : List (Option Rec)) (lim : Int) : List Rec :=
  if lim > 0 then (recs.filterMap (keepAt E fa fp)).take lim.toNat else recs.filterMap (keepAt E fa fp)

theorem serve_eq_outAt (E : Env) (sh : C43.Shape) (fa fp : List String) (recs : List (Option Rec)) :
    serve E sh fa fp recs = ((C43.readAll sh (C43.fresh (idxFrom 0 recs) sh)).2).filterMap (outAt E fa fp recs) := rfl

theorem serveProviders_eq (E : Env) (fa fp : List String) (recs : List (Option Rec)) (lim : Int) :
    serveProviders E fa fp recs lim = specServe E fa fp recs lim := by
  have hs := stream_spec E fa fp recs []
  simp only [List.nil_append, List.length_nil] at hs
  unfold serveProviders specServe
  rw [serve_eq_outAt, C43.c43_compose]
  simp only [provShape, C43.sem]
  by_cases hl : lim > 0
  · simp only [hl, if_true]
    rw [take_filterMap_of_some _ _ _ hs.2, hs.1]
  · simp only [hl, if_false]
    exact hs.1

theorem servePeers_eq (E : Env) (fa fp : List String) (recs : List (Option Rec)) (lim : Int) :
    servePeers E fa fp recs lim = specServe E fa fp recs lim := by
  have hs := stream_spec E fa fp recs []
  simp only [List.nil_append, List.length_nil] at hs
  unfold servePeers specServe
  rw [serve_eq_outAt, C43.c43_compose]
  simp only [peersShape, C43.sem, List.map_id_fun, id_eq, List.map_id]
  by_cases hl : lim > 0
  · simp only [hl, if_true]
    rw [take_filterMap_of_some _ _ _ hs.2, hs.1]
  · simp only [hl, if_false]
    exact hs.1

theorem filterMap_fixed {α : Type} (g : α → Option α) : ∀ (l : List α), (∀ x ∈ l, g x = some x) → l.filterMap g = l := by
  intro l
  induction l with
  | nil => intro _; rfl
  | cons x r ih => intro h; simp [h x (by simp), ih (fun y hy => h y (by simp [hy]))]

theorem applyFilters_schema (E : Env) (r r' : Rec) (fa fp : List String)
    (h : applyFilters E r fa fp = some r') : r'.schema = r.schema ∧ r'.id = r.id ∧ r'.protocols = r.protocols := by
  rw [applyFilters_eq] at h
  unfold specApply at h
  split at h
  · simp at h; subst h; simp
  · split at h
    · simp at h
    · split at h
      · simp at h; subst h; simp
      · split at h
        · simp at h
        · simp at h; subst h; simp

theorem applyRec_idem (E : Env) (fa fp : List String) (r r' : Rec)
    (h : applyRec E fa fp r = some r') : applyRec E fa fp r' = some r' := by
  unfold applyRec at h ⊢
  have hs := (applyFilters_schema E _ r' fa fp h).1
  have : ({ r' with schema := 0 } : Rec) = r' := by
    cases r'; simp_all
  rw [this]
  rw [applyFilters_eq] at h ⊢
  exact specApply_idem E _ r' fa fp h

theorem mem_specServe (E : Env) (fa fp : List String) (recs : List (Option Rec)) (lim : Int) :
    ∀ x ∈ specServe E fa fp recs lim, ∃ r, some r ∈ recs ∧ applyRec E fa fp r = some x := by
  intro x hx
  have hx' : x ∈ recs.filterMap (keepAt E fa fp) := by
    unfold specServe at hx
    split at hx
    · exact List.mem_of_mem_take hx
    · exact hx
  obtain ⟨o, ho, hk⟩ := List.mem_filterMap.1 hx'
  cases o with
  | none => simp [keepAt] at hk
  | some r => exact ⟨r, ho, by simpa [keepAt] using hk⟩
end C42
