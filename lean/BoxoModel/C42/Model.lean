import BoxoModel.C43.Model
/-
C42 — delegated routing over HTTP: IPIP-484 filters and record limits. Executable model.

Transcribed by hand from
  /repo/routing/http/filters/filters.go   ParseFilter, applyFilters, applyAddrFilter, containsAny,
                                          containsProtocol, protocolsAllowed, ApplyFiltersToIter,
                                          ApplyFiltersToPeerRecordIter
  /repo/routing/http/server/server.go     findProvidersJSON / findProvidersNDJSON / findPeersJSON /
                                          findPeersNDJSON: `iter.Limit(ApplyFilters…(it, …), recordsLimit)`
  /repo/routing/http/client/client.go     FindProviders / FindPeers: local filtering of the decoded response
The iterator combinators are NOT re-modelled: the pipelines are C43 shapes (`C43.Shape`, `C43.readAll`)
over record indices, with "nil result" encoded as a negative index.
Parameters (external libraries): `codeOf : String → Nat` = `multiaddr.ProtocolWithName(name).Code`
(0 for an unknown name), and the protocol codes of each address (`addr.Protocols()`); both are supplied by
the harness as it observed them. `strings.EqualFold` / `strings.ToLower` are modelled for ASCII.
Core-only (no Mathlib): imported by the line-protocol driver.
-/
namespace C42

structure Addr where
  id : Nat
  /-- codes of `addr.Protocols()` -/
  protos : List Nat
  deriving DecidableEq, Repr

structure Rec where
  /-- 0 = peer schema, 1 = (legacy) bitswap schema -/
  schema : Nat
  id : Nat
  addrs : List Addr
  protocols : List String
  deriving DecidableEq, Repr

/-- `ParseFilter`: "" ↦ nil, else lower-case and split at commas -/
def parseFilter (param : String) : List String :=
  if param == "" then [] else param.toLower.splitOn ","

/-- `strings.EqualFold` (ASCII) -/
def eqFold (a b : String) : Bool := a.toLower == b.toLower

/-- `containsProtocol` -/
def containsProtocol : List Nat → Nat → Bool
  | [], _ => false
  | p :: r, proto => if p == proto then true else containsProtocol r proto

/-- `containsAny` -/
def containsAny (protocols : List Nat) : List Nat → Bool
  | [] => false
  | f :: r => if containsProtocol protocols f then true else containsAny protocols r

/-- the first loop of applyAddrFilter: (positiveFilters, negativeFilters) as protocol codes -/
def splitFilters (codeOf : String → Nat) : List String → List Nat × List Nat
  | [] => ([], [])
  | f :: r =>
    let (pos, neg) := splitFilters codeOf r
    if f.startsWith "!" then (pos, codeOf (f.drop 1).toString :: neg) else (codeOf f :: pos, neg)

/-- the second loop of applyAddrFilter -/
def addrLoop (pos neg : List Nat) : List Addr → List Addr
  | [] => []
  | a :: r =>
    if containsAny a.protos neg then addrLoop pos neg r
    else if pos.isEmpty || containsAny a.protos pos then a :: addrLoop pos neg r
    else addrLoop pos neg r

/-- `applyAddrFilter` -/
def applyAddrFilter (codeOf : String → Nat) (addrs : List Addr) (filterAddrs : List String) : List Addr :=
  if filterAddrs.isEmpty then addrs
  else
    let (pos, neg) := splitFilters codeOf filterAddrs
    addrLoop pos neg addrs

/-- the inner loop of protocolsAllowed -/
def anyFold (f : String) : List String → Bool
  | [] => false
  | p :: r => if eqFold p f then true else anyFold f r

/-- `protocolsAllowed` -/
def protocolsAllowed (peerProtocols : List String) (filterProtocols : List String) : Bool :=
  if filterProtocols.isEmpty then true
  else
    let rec go : List String → Bool
      | [] => false
      | f :: r =>
        if f == "unknown" && peerProtocols.isEmpty then true
        else if anyFold f peerProtocols then true
        else go r
    go filterProtocols

/-- `applyFilters` (`none` = nil: the record is omitted) -/
def applyFilters (codeOf : String → Nat) (r : Rec) (filterAddrs filterProtocols : List String) : Option Rec :=
  if filterAddrs.isEmpty && filterProtocols.isEmpty then some r
  else if !protocolsAllowed r.protocols filterProtocols then none
  else if filterAddrs.isEmpty || (r.addrs.isEmpty && filterAddrs.contains "unknown") then some r
  else
    let filtered := applyAddrFilter codeOf r.addrs filterAddrs
    if filtered.isEmpty then none else some { r with addrs := filtered }

/-- the mapping function of ApplyFiltersToIter on one (non-error) record: a bitswap-schema record is first
converted with FromBitswapRecord (schema peer; `Protocols = [Protocol]` is already how `Rec` stores it) -/
def applyRec (codeOf : String → Nat) (fa fp : List String) (r : Rec) : Option Rec :=
  applyFilters codeOf { r with schema := 0 } fa fp

/-! ## pipelines as C43 iterators over record indices (`none` in `recs` = an error result of the source) -/

/-- the `iter.Map` function of ApplyFiltersToIter on indices: a dropped record (or an error result, which the
following `iter.Filter` drops as well) becomes -1 -/
def mapIdx (codeOf : String → Nat) (fa fp : List String) (recs : List (Option Rec)) (i : Int) : Int :=
  match recs[i.toNat]? with
  | some (some r) => if i ≥ 0 ∧ (applyRec codeOf fa fp r).isSome then i else -1
  | _ => -1

/-- findProviders{JSON,NDJSON}: `Limit(Filter(Map(src)))` -/
def provShape (codeOf : String → Nat) (fa fp : List String) (recs : List (Option Rec)) (lim : Int) : C43.Shape :=
  .limit lim (.filter (fun i => i ≥ 0) (.map (mapIdx codeOf fa fp recs) .src))

/-- findPeers{JSON,NDJSON}: ApplyFiltersToPeerRecordIter wraps the same pipeline between two conversions -/
def peersShape (codeOf : String → Nat) (fa fp : List String) (recs : List (Option Rec)) (lim : Int) : C43.Shape :=
  .limit lim (.map id (.filter (fun i => i ≥ 0) (.map (mapIdx codeOf fa fp recs) (.map id .src))))

/-- the source iterator yields the positions k, k+1, … of the router's results -/
def idxFrom {α : Type} : Nat → List α → List Int
  | _, [] => []
  | k, _ :: r => (k : Int) :: idxFrom (k + 1) r

/-- what the handler writes: the records behind the indices the pipeline yields (ReadAll / the NDJSON loop) -/
def serve (codeOf : String → Nat) (sh : C43.Shape) (fa fp : List String) (recs : List (Option Rec)) : List Rec :=
  ((C43.readAll sh (C43.fresh (idxFrom 0 recs) sh)).2).filterMap fun i =>
    match recs[i.toNat]? with
    | some (some r) => applyRec codeOf fa fp r
    | _ => none

def serveProviders (codeOf : String → Nat) (fa fp : List String) (recs : List (Option Rec)) (lim : Int) : List Rec :=
  serve codeOf (provShape codeOf fa fp recs lim) fa fp recs

def servePeers (codeOf : String → Nat) (fa fp : List String) (recs : List (Option Rec)) (lim : Int) : List Rec :=
  serve codeOf (peersShape codeOf fa fp recs lim) fa fp recs

/-- the client keeps its filter values lower-cased (fix commit "routing/http/client: local filtering is
case-sensitive …"; it also sorts them, which `c42_filter_order` shows to be irrelevant) -/
def normalizeFilter (filter : List String) : List String := filter.map String.toLower

/-- the client's local filtering of the decoded response with its own filter lists -/
def clientFilter (codeOf : String → Nat) (fa fp : List String) (resp : List Rec) : List Rec :=
  resp.filterMap (applyRec codeOf fa fp)

end C42
