import BoxoModel.C43.Model
/-
C42 — delegated routing over HTTP: IPIP-484 filters and record limits. Executable model.

Transcribed by hand from
  /repo/routing/http/filters/filters.go   ParseFilter, applyFilters, applyAddrFilter, containsAny,
                                          containsProtocol, protocolsAllowed, ApplyFiltersToIter,
                                          ApplyFiltersToPeerRecordIter
  /repo/routing/http/server/server.go     findProvidersJSON / findProvidersNDJSON / findPeersJSON /
                                          findPeersNDJSON: `iter.Limit(ApplyFilters…(it, …), recordsLimit)`
  /repo/routing/http/client/client.go     FindProviders / FindPeers: local filtering of the decoded response
The iterator combinators are NOT re-modelled: the pipelines are C43 shapes (`C43.Shape`, `C43.readAll`)
over record indices, with "nil result" encoded as a negative index.
Parameters (external libraries), bundled in `Env`: `codeOf` = `multiaddr.ProtocolWithName(name).Code`
(0 for an unknown name), `fold` = `strings.EqualFold`, `lower` = `strings.ToLower` (full Unicode in Go), and the
protocol codes of each address (`addr.Protocols()`); all are supplied by the harness as it observed them.
Core-only (no Mathlib): imported by the line-protocol driver.
-/
namespace C42

structure Addr where
  id : Nat
  /-- codes of `addr.Protocols()` -/
  protos : List Nat
  deriving DecidableEq, Repr

structure Rec where
  /-- 0 = peer schema, 1 = (legacy) bitswap schema -/
  schema : Nat
  id : Nat
  addrs : List Addr
  protocols : List String
  deriving DecidableEq, Repr

/-- The external string / table functions the filter code calls — parameters of the model, supplied by the
harness as it observed them (theorems hold for every `Env`):
`codeOf` = `multiaddr.ProtocolWithName(name).Code` (0 for an unknown name),
`fold` = `strings.EqualFold` (Unicode simple case folding), `lower` = `strings.ToLower` (Unicode). -/
structure Env where
  codeOf : String → Nat
  fold : String → String → Bool
  lower : String → String

/-- `strings.EqualFold` restricted to ASCII (used by the examples) -/
def eqFold (a b : String) : Bool := a.toLower == b.toLower

/-- an `Env` for ASCII-only strings -/
def asciiEnv (codeOf : String → Nat) : Env := { codeOf := codeOf, fold := eqFold, lower := String.toLower }

/-- `ParseFilter`: "" ↦ nil, else lower-case and split at commas -/
def parseFilter (E : Env) (param : String) : List String :=
  if param == "" then [] else (E.lower param).splitOn ","

/-- `containsProtocol` -/
def containsProtocol : List Nat → Nat → Bool
  | [], _ => false
  | p :: r, proto => if p == proto then true else containsProtocol r proto

/-- `containsAny` -/
def containsAny (protocols : List Nat) : List Nat → Bool
  | [] => false
  | f :: r => if containsProtocol protocols f then true else containsAny protocols r

/-- the first loop of applyAddrFilter: (positiveFilters, negativeFilters) as protocol codes -/
def splitFilters (E : Env) : List String → List Nat × List Nat
  | [] => ([], [])
  | f :: r =>
    let (pos, neg) := splitFilters E r
    if f.startsWith "!" then (pos, E.codeOf (f.drop 1).toString :: neg) else (E.codeOf f :: pos, neg)

/-- the second loop of applyAddrFilter -/
def addrLoop (pos neg : List Nat) : List Addr → List Addr
  | [] => []
  | a :: r =>
    if containsAny a.protos neg then addrLoop pos neg r
    else if pos.isEmpty || containsAny a.protos pos then a :: addrLoop pos neg r
    else addrLoop pos neg r

/-- `applyAddrFilter` -/
def applyAddrFilter (E : Env) (addrs : List Addr) (filterAddrs : List String) : List Addr :=
  if filterAddrs.isEmpty then addrs
  else
    let (pos, neg) := splitFilters E filterAddrs
    addrLoop pos neg addrs

/-- the inner loop of protocolsAllowed -/
def anyFold (E : Env) (f : String) : List String → Bool
  | [] => false
  | p :: r => if E.fold p f then true else anyFold E f r

/-- `protocolsAllowed` -/
def protocolsAllowed (E : Env) (peerProtocols : List String) (filterProtocols : List String) : Bool :=
  if filterProtocols.isEmpty then true
  else
    let rec go : List String → Bool
      | [] => false
      | f :: r =>
        if f == "unknown" && peerProtocols.isEmpty then true
        else if anyFold E f peerProtocols then true
        else go r
    go filterProtocols

/-- `applyFilters` (`none` = nil: the record is omitted) -/
def applyFilters (E : Env) (r : Rec) (filterAddrs filterProtocols : List String) : Option Rec :=
  if filterAddrs.isEmpty && filterProtocols.isEmpty then some r
  else if !protocolsAllowed E r.protocols filterProtocols then none
  else if filterAddrs.isEmpty || (r.addrs.isEmpty && filterAddrs.contains "unknown") then some r
  else
    let filtered := applyAddrFilter E r.addrs filterAddrs
    if filtered.isEmpty then none else some { r with addrs := filtered }

/-- the mapping function of ApplyFiltersToIter on one (non-error) record: a bitswap-schema record is first
converted with FromBitswapRecord (schema peer; `Protocols = [Protocol]` is already how `Rec` stores it) -/
def applyRec (E : Env) (fa fp : List String) (r : Rec) : Option Rec :=
  applyFilters E { r with schema := 0 } fa fp

/-! ## pipelines as C43 iterators over record indices (`none` in `recs` = an error result of the source) -/

/-- the `iter.Map` function of ApplyFiltersToIter on indices: a dropped record (or an error result, which the
following `iter.Filter` drops as well) becomes -1 -/
def mapIdx (E : Env) (fa fp : List String) (recs : List (Option Rec)) (i : Int) : Int :=
  match recs[i.toNat]? with
  | some (some r) => if i ≥ 0 ∧ (applyRec E fa fp r).isSome then i else -1
  | _ => -1

/-- findProviders{JSON,NDJSON}: `Limit(Filter(Map(src)))` -/
def provShape (E : Env) (fa fp : List String) (recs : List (Option Rec)) (lim : Int) : C43.Shape :=
  .limit lim (.filter (fun i => i ≥ 0) (.map (mapIdx E fa fp recs) .src))

/-- findPeers{JSON,NDJSON}: ApplyFiltersToPeerRecordIter wraps the same pipeline between two conversions -/
def peersShape (E : Env) (fa fp : List String) (recs : List (Option Rec)) (lim : Int) : C43.Shape :=
  .limit lim (.map id (.filter (fun i => i ≥ 0) (.map (mapIdx E fa fp recs) (.map id .src))))

/-- the source iterator yields the positions k, k+1, … of the router's results -/
def idxFrom {α : Type} : Nat → List α → List Int
  | _, [] => []
  | k, _ :: r => (k : Int) :: idxFrom (k + 1) r

/-- what the handler writes: the records behind the indices the pipeline yields (ReadAll / the NDJSON loop) -/
def serve (E : Env) (sh : C43.Shape) (fa fp : List String) (recs : List (Option Rec)) : List Rec :=
  ((C43.readAll sh (C43.fresh (idxFrom 0 recs) sh)).2).filterMap fun i =>
    match recs[i.toNat]? with
    | some (some r) => applyRec E fa fp r
    | _ => none

def serveProviders (E : Env) (fa fp : List String) (recs : List (Option Rec)) (lim : Int) : List Rec :=
  serve E (provShape E fa fp recs lim) fa fp recs

def servePeers (E : Env) (fa fp : List String) (recs : List (Option Rec)) (lim : Int) : List Rec :=
  serve E (peersShape E fa fp recs lim) fa fp recs

/-- the client keeps its filter values lower-cased (fix commit "routing/http/client: local filtering is
case-sensitive …"; it also sorts them, which `c42_filter_order` shows to be irrelevant) -/
def normalizeFilter (E : Env) (filter : List String) : List String := filter.map E.lower

/-- the client's local filtering of the decoded response with its own filter lists -/
def clientFilter (E : Env) (fa fp : List String) (resp : List Rec) : List Rec :=
  resp.filterMap (applyRec E fa fp)

/-! ## the HTTP handlers: content negotiation, per-media-type limits, IPNS GET / PUT decisions -/

/-- what `mime.ParseMediaType` makes of one comma-separated element of an Accept header (parameter) -/
inductive MT where
  | json | ndjson | wildcard | other
  | bad            -- ParseMediaType returns an error
  deriving DecidableEq, Repr

inductive Media where
  | json | ndjson
  deriving DecidableEq, Repr

/-- `detectResponseType`: `none` = 400. `accepts = []` ⇔ no Accept header. -/
def detectResponseType (disableNDJSON : Bool) (accepts : List MT) : Option Media :=
  if accepts.isEmpty then some .json
  else
    let rec go (supportsNDJSON supportsJSON : Bool) : List MT → Option Media
      | [] =>
        if supportsNDJSON && !disableNDJSON then some .ndjson
        else if supportsJSON then some .json
        else none                      -- "no supported content types"
      | .bad :: _ => none              -- "unable to parse Accept header"
      | .json :: r => go supportsNDJSON true r
      | .wildcard :: r => go supportsNDJSON true r
      | .ndjson :: r => go true supportsJSON r
      | .other :: r => go supportsNDJSON supportsJSON r
    go false false accepts

structure SrvCfg where
  recordsLimit : Int
  streamingRecordsLimit : Int
  disableNDJSON : Bool

/-- findProviders / findPeers: 400 on a bad Accept header, else 200 with the media type chosen and the records
of the pipeline run with THAT media type's limit (`peers` selects the findPeers pipeline). -/
def findHandler (E : Env) (cfg : SrvCfg) (peers : Bool) (accepts : List MT) (faParam fpParam : String)
    (recs : List (Option Rec)) : Nat × Option (Media × List Rec) :=
  match detectResponseType cfg.disableNDJSON accepts with
  | none => (400, none)
  | some m =>
    let lim := match m with
      | .ndjson => cfg.streamingRecordsLimit
      | .json => cfg.recordsLimit
    let fa := parseFilter E faParam
    let fp := parseFilter E fpParam
    (200, some (m, if peers then servePeers E fa fp recs lim else serveProviders E fa fp recs lim))

/-- facts about a PUT /routing/v1/ipns/{cid} request, as the handler establishes them one after the other -/
structure PutReq where
  ctOk : Bool          -- Content-Type contains application/vnd.ipfs.ipns-record
  cidOk : Bool         -- cid.Decode succeeds
  nameOk : Bool        -- ipns.NameFromCid succeeds
  unmarshalOk : Bool   -- ipns.UnmarshalRecord of the (size-limited) body succeeds
  valid : Bool         -- ipns.ValidateWithName(record, name) succeeds
  routerOk : Bool      -- the delegate's PutIPNS succeeds

/-- `PutIPNS`: status code, and whether the record reached the router -/
def putStatus (r : PutReq) : Nat × Bool :=
  if !r.ctOk then (406, false)
  else if !r.cidOk then (400, false)
  else if !r.nameOk then (400, false)
  else if !r.unmarshalOk then (400, false)
  else if !r.valid then (400, false)
  else if !r.routerOk then (500, true)   -- the router was called and failed
  else (200, true)

inductive Lookup where
  | found | notFound | error
  deriving DecidableEq, Repr

/-- `GetIPNS`: status code and whether the record bytes are the body. `acceptOk`: no Accept header, or it
contains */* or the IPNS record media type. Not found = 200 with a text/plain body (IPIP-513). -/
def getStatus (acceptOk cidOk nameOk : Bool) (l : Lookup) : Nat × Bool :=
  if !acceptOk then (406, false)
  else if !cidOk then (400, false)
  else if !nameOk then (400, false)
  else match l with
    | .found => (200, true)
    | .notFound => (200, false)
    | .error => (500, false)

end C42
