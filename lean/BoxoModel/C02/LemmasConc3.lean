import BoxoModel.C02.LemmasConc2
/-!
C02 — the invariant is preserved by every event (`Inv.step`), hence holds in every reachable state.
-/
namespace C02.Conc
open C02
variable {hash : Nat → List Nat}

/-- progOK, read backwards -/
theorem prog_reader {pr : Prog} {pc : PC} (h : progOK pr pc = true)
    (hpc : pc = .rPtr ∨ (∃ p, pc = .rActive p) ∨ (∃ p, pc = .rRecheck p) ∨ (∃ p, pc = .rFilter p) ∨ pc = .rPass) :
    ∀ pc', (pc' = .rPtr ∨ (∃ p, pc' = .rActive p) ∨ (∃ p, pc' = .rRecheck p) ∨ (∃ p, pc' = .rFilter p) ∨ pc' = .rPass ∨
      ∃ r, pc' = .done r) → progOK pr pc' = true := by
  intro pc' h'
  rcases hpc with rfl | ⟨p, rfl⟩ | ⟨p, rfl⟩ | ⟨p, rfl⟩ | rfl <;> cases pr <;> simp [progOK] at h <;>
    rcases h' with rfl | ⟨p, rfl⟩ | ⟨p, rfl⟩ | ⟨p, rfl⟩ | rfl | ⟨r, rfl⟩ <;> rfl

theorem Inv.stepReader {s s' : St} {t : Nat} {th0 : Thread} (hI : Inv hash s)
    (hth : s.threads[t]? = some th0) (hs : stepThread hash s t th0 = some s')
    (hpc : th0.pc = .rPtr ∨ (∃ p, th0.pc = .rActive p) ∨ (∃ p, th0.pc = .rRecheck p) ∨ (∃ p, th0.pc = .rFilter p)) :
    Inv hash s' := by
  have hT := hI.thr t th0 hth
  have hP := prog_reader hT.prog (by
    rcases hpc with h | h | h | h
    · exact Or.inl h
    · exact Or.inr (Or.inl h)
    · exact Or.inr (Or.inr (Or.inl h))
    · exact Or.inr (Or.inr (Or.inr (Or.inl h))))
  unfold stepThread at hs
  rcases hpc with hpc | ⟨p, hpc⟩ | ⟨p, hpc⟩ | ⟨p, hpc⟩
  · simp only [observe, hpc] at hs
    obtain rfl : setThread s t (mv s th0 (.rActive s.cur)) = s' := Option.some.inj hs
    refine hI.readerStep hth (by rw [hpc]; rfl) (by rw [hpc]; rfl) rfl rfl (hP _ (Or.inr (Or.inl ⟨_, rfl⟩))) ?_
    show (s.cur ≤ s.cur)
    exact Nat.le_refl _
  · simp only [observe, hpc] at hs
    have hp := hT.pc
    simp only [pcInv, hpc] at hp
    split at hs
    · rename_i hact
      obtain rfl : setThread s t (mv s th0 (.rRecheck p)) = s' := Option.some.inj hs
      refine hI.readerStep hth (by rw [hpc]; rfl) (by rw [hpc]; rfl) rfl rfl (hP _ (Or.inr (Or.inr (Or.inl ⟨_, rfl⟩)))) ?_
      show p ≤ s.cur ∧ (p = s.cur → (mv s th0 (.rRecheck p)).okAbs = true ∨ hasK hash (setThread s t _) p th0.prog.key = true)
      refine ⟨hp, fun hpe => ?_⟩
      rw [hasK_setThread]
      cases hk : th0.prog.key with
      | none => exact Or.inr rfl
      | some k =>
        by_cases hin : k ∈ s.store
        · rcases hI.act hact k hin with h | h
          · exact Or.inr (by rw [hpe]; exact h)
          · exact Or.inl (mv_okAbs_of (by simp [absentOK, hk, h]))
        · exact Or.inl (mv_okAbs_of (by simp [absentOK, hk, hin]))
    · obtain rfl : setThread s t (mv s th0 .rPass) = s' := Option.some.inj hs
      exact hI.readerStep hth (by rw [hpc]; rfl) (by rw [hpc]; rfl) rfl rfl (hP _ (Or.inr (Or.inr (Or.inr (Or.inr (Or.inl rfl)))))) trivial
  · simp only [observe, hpc] at hs
    have hp := hT.pc
    simp only [pcInv, hpc] at hp
    split at hs
    · rename_i hcur
      obtain rfl : setThread s t (mv s th0 (.rFilter p)) = s' := Option.some.inj hs
      refine hI.readerStep hth (by rw [hpc]; rfl) (by rw [hpc]; rfl) rfl rfl (hP _ (Or.inr (Or.inr (Or.inr (Or.inl ⟨_, rfl⟩))))) ?_
      show (mv s th0 (.rFilter p)).okAbs = true ∨ hasK hash (setThread s t _) p th0.prog.key = true
      rw [hasK_setThread]
      have hcur' : p = s.cur := (by simpa using hcur : s.cur = p).symm
      exact (hp.2 hcur').imp mv_okAbs_mono id
    · obtain rfl : setThread s t (mv s th0 .rPass) = s' := Option.some.inj hs
      exact hI.readerStep hth (by rw [hpc]; rfl) (by rw [hpc]; rfl) rfl rfl (hP _ (Or.inr (Or.inr (Or.inr (Or.inr (Or.inl rfl)))))) trivial
  · simp only [observe, hpc] at hs
    have hp := hT.pc
    simp only [pcInv, hpc] at hp
    cases hk : th0.prog.key with
    | none =>
      simp only [hk] at hs
      obtain rfl : setThread s t (mv s th0 .rPass) = s' := by simpa [mv, hk] using hs
      exact hI.readerStep hth (by rw [hpc]; rfl) (by rw [hpc]; rfl) rfl rfl (hP _ (Or.inr (Or.inr (Or.inr (Or.inr (Or.inl rfl)))))) trivial
    | some k =>
      simp only [hk] at hs
      split at hs
      · obtain rfl : setThread s t (mv s th0 .rPass) = s' := by simpa [mv, hk] using hs
        exact hI.readerStep hth (by rw [hpc]; rfl) (by rw [hpc]; rfl) rfl rfl (hP _ (Or.inr (Or.inr (Or.inr (Or.inr (Or.inl rfl)))))) trivial
      · rename_i hno
        obtain rfl : setThread s t (mv s th0 (.done .absent)) = s' := by simpa [mv, hk] using hs
        refine hI.readerStep hth (by rw [hpc]; rfl) (by rw [hpc]; rfl) rfl rfl (hP _ (Or.inr (Or.inr (Or.inr (Or.inr (Or.inr ⟨_, rfl⟩)))))) ?_
        show (mv s th0 (.done .absent)).okAbs = true
        rcases hp with h | h
        · exact mv_okAbs_mono h
        · rw [hk] at h; exact absurd h hno

/-- TI of a moved thread whose old and new program counters are outside the locked section,
after a step that leaves the lock alone -/
theorem TI.moved_unlocked {s s' : St} {t : Nat} {th0 : Thread} {pc' : PC} (hT : TI hash s t th0)
    (hl0 : th0.pc.locked = false) (hl' : pc'.locked = false) (hlock : s'.lock = s.lock)
    (hprog : progOK th0.prog pc' = true) (hpc : pcInv hash s' (mv s th0 pc')) : TI hash s' t (mv s th0 pc') := by
  refine ⟨hprog, ?_, hpc, mv_ghost hT.ghost⟩
  have := hT.lock
  rw [hl0] at this
  show pc'.locked = true ↔ s'.lock = some t
  rw [hl', hlock]; exact this

/-- the store call of Has/Get/GetSize/View/DeleteBlock -/
theorem Inv.stepPass {s s' : St} {t : Nat} {th0 : Thread} (hI : Inv hash s)
    (hth : s.threads[t]? = some th0) (hs : stepThread hash s t th0 = some s') (hpc : th0.pc = .rPass) :
    Inv hash s' := by
  have hT := hI.thr t th0 hth
  have hP := prog_reader hT.prog (Or.inr (Or.inr (Or.inr (Or.inr hpc))))
  unfold stepThread at hs
  cases hprog : th0.prog with
  | read kind k =>
    simp only [observe, hpc, hprog] at hs
    obtain rfl : setThread s t (mv s th0 (.done (if (Base.present ⟨s.store⟩ k) = true then .present else .absent))) = s' := by
      simpa [mv, hprog] using hs
    refine hI.readerStep hth (by rw [hpc]; rfl) (by rw [hpc]; rfl) rfl rfl (hP _ (Or.inr (Or.inr (Or.inr (Or.inr (Or.inr ⟨_, rfl⟩)))))) ?_
    unfold pcInv
    cases hpr : Base.present ⟨s.store⟩ k with
    | true => simp [mv]
    | false =>
      simp only [mv, Bool.false_eq_true, if_false]
      have : absentOK s th0.prog.key = true := by
        rw [hprog]
        cases k with
        | none => rfl
        | some k =>
          have hc : ¬ k ∈ s.store := by simpa [Base.present] using hpr
          simp [absentOK, Prog.key, hc]
      simp [this]
  | del k =>
    cases k with
    | none =>
      simp only [observe, hpc, hprog] at hs
      obtain rfl : setThread s t (mv s th0 (.done .ok)) = s' := by simpa [mv, hprog] using hs
      exact hI.readerStep hth (by rw [hpc]; rfl) (by rw [hpc]; rfl) rfl rfl (hP _ (Or.inr (Or.inr (Or.inr (Or.inr (Or.inr ⟨_, rfl⟩)))))) trivial
    | some k =>
      simp only [observe, hpc, hprog] at hs
      obtain rfl : setThread { s with store := s.store.filter (· != k), writer := fun j => if j = k then none else s.writer j } t (mv s th0 (.done .ok)) = s' := by
        simpa [mv, hprog] using hs
      refine hI.classA hth rfl rfl rfl rfl rfl (fun _ _ h => h) (covStep_del hth (by rw [hpc]; rfl)) ?_
      exact hT.moved_unlocked (by rw [hpc]; rfl) rfl rfl (hP _ (Or.inr (Or.inr (Or.inr (Or.inr (Or.inr ⟨_, rfl⟩)))))) trivial
  | put ks => simp [observe, hpc, hprog] at hs
  | rebuild => simp [observe, hpc, hprog] at hs
  | build => simp [observe, hpc, hprog] at hs

/-- Put / PutMany -/
theorem Inv.stepWriter {s s' : St} {t : Nat} {th0 : Thread} (hI : Inv hash s)
    (hth : s.threads[t]? = some th0) (hs : stepThread hash s t th0 = some s')
    (hpc : th0.pc = .wStore ∨ (∃ ks, th0.pc = .wAdd ks) ∨ (∃ p ks, th0.pc = .wAdding p ks)) :
    Inv hash s' := by
  have hT := hI.thr t th0 hth
  obtain ⟨ks0, hprog⟩ : ∃ ks0, th0.prog = .put ks0 := by
    have := hT.prog
    rcases hpc with h | ⟨ks, h⟩ | ⟨p, ks, h⟩ <;> rw [h] at this <;> cases hp : th0.prog <;> simp [hp, progOK] at this <;> exact ⟨_, rfl⟩
  have hPW : ∀ ks, progOK th0.prog (afterW ks) = true := fun ks => by rw [hprog]; exact afterW_progOK
  unfold stepThread at hs
  rcases hpc with hpc | ⟨ks, hpc⟩ | ⟨p, ks, hpc⟩
  · simp only [observe, hpc, hprog] at hs
    obtain rfl : setThread { s with store := ks0.foldl (fun st k => if st.contains k then st else k :: st) s.store, writer := fun j => if ks0.contains j && !s.store.contains j then some t else s.writer j } t (mv s th0 (afterW ks0)) = s' := by
      simpa [mv, hprog] using hs
    refine hI.classA hth rfl rfl rfl rfl rfl (fun _ _ h => h) (covStep_store hth hpc rfl) ?_
    exact hT.moved_unlocked (by rw [hpc]; rfl) (afterW_not_locked _) rfl (hPW _) (afterW_pcInv rfl)
  · cases ks with
    | nil =>
      simp only [observe, hpc] at hs
      obtain rfl : setThread s t (mv s th0 (.done .ok)) = s' := Option.some.inj hs
      refine hI.classA hth rfl rfl rfl rfl rfl (fun _ _ h => h) (covStep_thread hth ?_) ?_
      · intro k; show pendingAt s.cur k (.done .ok) = pendingAt s.cur k th0.pc
        rw [hpc]; simp [pendingAt]
      · exact hT.moved_unlocked (by rw [hpc]; rfl) rfl rfl (by rw [hprog]; rfl) trivial
    | cons k ks =>
      simp only [observe, hpc] at hs
      obtain rfl : setThread s t (mv s th0 (.wAdding s.cur (k :: ks))) = s' := Option.some.inj hs
      refine hI.classA hth rfl rfl rfl rfl rfl (fun _ _ h => h) (covStep_thread hth ?_) ?_
      · intro j; show pendingAt s.cur j (.wAdding s.cur (k :: ks)) = pendingAt s.cur j th0.pc
        rw [hpc]; exact pendingAt_wAdding_eq _ _ _ _
      · exact hT.moved_unlocked (by rw [hpc]; rfl) rfl rfl (by rw [hprog]; rfl) trivial
  · cases ks with
    | nil =>
      simp only [observe, hpc] at hs
      obtain rfl : setThread s t (mv s th0 (.done .ok)) = s' := Option.some.inj hs
      refine hI.classA hth rfl rfl rfl rfl rfl (fun _ _ h => h) (covStep_thread hth ?_) ?_
      · intro k; show pendingAt s.cur k (.done .ok) = pendingAt s.cur k th0.pc
        rw [hpc]; simp [pendingAt]
      · exact hT.moved_unlocked (by rw [hpc]; rfl) rfl rfl (by rw [hprog]; rfl) trivial
    | cons k ks =>
      simp only [observe, hpc] at hs
      obtain rfl : setThread { s with filters := addF hash s p k } t (mv s th0 (afterW ks)) = s' := Option.some.inj hs
      refine hI.classA hth rfl rfl rfl rfl (by simp [setThread, addF]) (fun _ _ h => hasBits_addF_mono h)
        (covStep_adding hth hpc rfl hI.cur) ?_
      exact hT.moved_unlocked (by rw [hpc]; rfl) (afterW_not_locked _) rfl (hPW _) (afterW_pcInv rfl)

theorem prog_builder {pr : Prog} {pc : PC} (h : progOK pr pc = true) (hl : pc.locked = true ∨ pc = .bLock ∨ pc = .iLock) :
    pr = .rebuild ∨ pr = .build := by
  cases pr <;> cases pc <;> simp_all [progOK, PC.locked]

theorem prog_rebuild_of {pr : Prog} {pc : PC} (h : progOK pr pc = true)
    (hpc : pc = .bLock ∨ pc = .bDeact ∨ pc = .bSwap ∨ pc = .bPop) : pr = .rebuild := by
  rcases hpc with rfl | rfl | rfl | rfl <;> cases pr <;> simp_all [progOK]

theorem prog_build_of {pr : Prog} {pc : PC} (h : progOK pr pc = true)
    (hpc : pc = .iLock ∨ pc = .iPop ∨ ∃ tg, pc = .iSnap tg) : pr = .build := by
  rcases hpc with rfl | rfl | ⟨tg, rfl⟩ <;> cases pr <;> simp_all [progOK]

/-- coverage after a step of the lock holder that changes only `lock` / `active` and its own pc -/
theorem covered_builder_move {s s1 : St} {t : Nat} {th0 th' : Thread} (hth : s.threads[t]? = some th0)
    (hw0 : th0.pc.writing = false) (hw' : th'.pc.writing = false)
    (hf : s1.filters = s.filters) (hc : s1.cur = s.cur) (hwr : s1.writer = s.writer) (htr : s1.threads = s.threads)
    (k : Nat) : covered hash (setThread s1 t th') k ↔ covered hash s k := by
  have h1 : covered hash (setThread s1 t th') k ↔ covered hash (setThread s t th') k :=
    covered_congr (by simp [setThread, hf]) (by simp [setThread, hc]) (by simp [setThread, hwr]) (by simp [setThread, htr]) k
  rw [h1]
  exact covered_setThread hth (fun j => by rw [pendingAt_of_not_writing hw0, pendingAt_of_not_writing hw']) k

/-- Rebuild / build: every step except the snapshot -/
theorem Inv.stepBuilder {s s' : St} {t : Nat} {th0 : Thread} (hI : Inv hash s)
    (hth : s.threads[t]? = some th0) (hs : stepThread hash s t th0 = some s')
    (hpc : th0.pc.locked = true ∨ th0.pc = .bLock ∨ th0.pc = .iLock) : Inv hash s' := by
  have hT := hI.thr t th0 hth
  have hB := prog_builder hT.prog hpc
  have hnw : th0.pc.writing = false := by
    rcases hpc with h | h | h
    · cases hp : th0.pc <;> simp_all [PC.locked, PC.writing]
    · rw [h]; rfl
    · rw [h]; rfl
  unfold stepThread at hs
  cases hp0 : th0.pc with
  | rPtr => simp [hp0, PC.locked] at hpc
  | rActive p => simp [hp0, PC.locked] at hpc
  | rRecheck p => simp [hp0, PC.locked] at hpc
  | rFilter p => simp [hp0, PC.locked] at hpc
  | rPass => simp [hp0, PC.locked] at hpc
  | wStore => simp [hp0, PC.locked] at hpc
  | wAdd ks => simp [hp0, PC.locked] at hpc
  | wAdding p ks => simp [hp0, PC.locked] at hpc
  | done r => simp [hp0, PC.locked] at hpc
  | bPop => simp [observe, hp0] at hs
  | iSnap tg => simp [observe, hp0] at hs
  | bLock =>
    simp only [observe, hp0] at hs
    split at hs
    · rename_i hfree
      have hfree' : s.lock = none := by simpa [lockFree] using hfree
      obtain rfl : setThread { s with lock := some t } t (mv s th0 .bDeact) = s' := Option.some.inj hs
      refine hI.classBC hth rfl (Or.inr hfree') (Or.inl rfl) (Nat.le_refl _) (fun h => absurd rfl h) (fun _ _ h => h) hI.cur ?_ ?_
      · intro ha k hk
        exact (covered_builder_move hth hnw rfl rfl rfl rfl rfl k).2 (hI.act ha k hk)
      · exact ⟨(show progOK th0.prog _ = true by rw [prog_rebuild_of hT.prog (Or.inl hp0)]; rfl), by simp [mv, PC.locked, setThread], trivial, mv_ghost hT.ghost⟩
    · cases hs
  | iLock =>
    simp only [observe, hp0] at hs
    split at hs
    · rename_i hfree
      have hfree' : s.lock = none := by simpa [lockFree] using hfree
      obtain rfl : setThread { s with lock := some t } t (mv s th0 .iPop) = s' := Option.some.inj hs
      refine hI.classBC hth rfl (Or.inr hfree') (Or.inl rfl) (Nat.le_refl _) (fun h => absurd rfl h) (fun _ _ h => h) hI.cur ?_ ?_
      · intro ha k hk
        exact (covered_builder_move hth hnw rfl rfl rfl rfl rfl k).2 (hI.act ha k hk)
      · exact ⟨(show progOK th0.prog _ = true by rw [prog_build_of hT.prog (Or.inl hp0)]; rfl), by simp [mv, PC.locked, setThread], trivial, mv_ghost hT.ghost⟩
    · cases hs
  | bDeact =>
    simp only [observe, hp0] at hs
    have hlk : s.lock = some t := hT.lock.1 (by rw [hp0]; rfl)
    obtain rfl : setThread { s with active := false } t (mv s th0 .bSwap) = s' := Option.some.inj hs
    refine hI.classBC hth rfl (Or.inl hlk) (Or.inl hlk) (Nat.le_refl _) (fun h => absurd rfl h) (fun _ _ h => h) hI.cur ?_ ?_
    · intro ha; simp [setThread] at ha
    · refine ⟨(show progOK th0.prog _ = true by rw [prog_rebuild_of hT.prog (Or.inr (Or.inl hp0))]; rfl), ?_, by simp [pcInv, mv, setThread], mv_ghost hT.ghost⟩
      simpa [mv, PC.locked, setThread] using hlk
  | bSwap =>
    simp only [observe, hp0] at hs
    have hlk : s.lock = some t := hT.lock.1 (by rw [hp0]; rfl)
    have hact : s.active = false := by have := hT.pc; simpa [pcInv, hp0] using this
    obtain rfl : setThread { s with cur := s.filters.length, filters := s.filters ++ [[]] } t (mv s th0 .bPop) = s' :=
      Option.some.inj hs
    refine hI.classBC hth rfl (Or.inl hlk) (Or.inl hlk) (Nat.le_of_lt hI.cur) ?_ ?_ ?_ ?_ ?_
    · intro _ p hp; exact Nat.ne_of_lt (Nat.lt_of_le_of_lt hp hI.cur)
    · intro p k h
      show Bloom.hasBits hash ((s.filters ++ [[]]).getD p []) k = true
      rw [getF_append]; exact h
    · simp [setThread]
    · intro ha; simp [setThread, hact] at ha
    · refine ⟨(show progOK th0.prog _ = true by rw [prog_rebuild_of hT.prog (Or.inr (Or.inr (Or.inl hp0)))]; rfl), ?_, by simpa [pcInv, mv, setThread] using hact, mv_ghost hT.ghost⟩
      simpa [mv, PC.locked, setThread] using hlk
  | iPop =>
    simp only [observe, hp0] at hs
    have hlk : s.lock = some t := hT.lock.1 (by rw [hp0]; rfl)
    obtain rfl : setThread s t (mv s th0 (.iSnap s.cur)) = s' := Option.some.inj hs
    refine hI.classA hth rfl rfl rfl rfl rfl (fun _ _ h => h) (covStep_thread hth ?_) ?_
    · intro k; show pendingAt s.cur k (.iSnap s.cur) = pendingAt s.cur k th0.pc
      rw [hp0]; rfl
    · refine ⟨(show progOK th0.prog _ = true by rw [prog_build_of hT.prog (Or.inr (Or.inl hp0))]; rfl), ?_, by simp [pcInv, mv, setThread], mv_ghost hT.ghost⟩
      simpa [mv, PC.locked, setThread] using hlk
  | bAdd tg rem e =>
    have hlk : s.lock = some t := hT.lock.1 (by rw [hp0]; rfl)
    have hp := hT.pc
    simp only [pcInv, hp0] at hp
    cases rem with
    | nil =>
      simp only [observe, hp0] at hs
      obtain rfl : setThread s t (mv s th0 (.bErrFn e)) = s' := Option.some.inj hs
      refine hI.classA hth rfl rfl rfl rfl rfl (fun _ _ h => h) (covStep_thread hth ?_) ?_
      · intro k; show pendingAt s.cur k (.bErrFn e) = pendingAt s.cur k th0.pc
        rw [hp0]; rfl
      · refine ⟨(show progOK th0.prog _ = true by rcases hB with h | h <;> rw [h] <;> rfl), by simpa [mv, PC.locked, setThread] using hlk, ?_, mv_ghost hT.ghost⟩
        show (th0.prog = .rebuild → s.active = false) ∧ (e = false → ∀ k, k ∈ s.store → covered hash (setThread s t _) k)
        refine ⟨hp.2.1, fun he k hk => ?_⟩
        refine (covered_setThread hth (fun j => ?_) k).2 ((hp.2.2 he k hk).elim id (fun h => by simp at h))
        show pendingAt s.cur j (.bErrFn e) = pendingAt s.cur j th0.pc
        rw [hp0]; rfl
    | cons k rem =>
      simp only [observe, hp0] at hs
      obtain rfl : setThread { s with filters := addF hash s tg k } t (mv s th0 (afterAdd tg rem e)) = s' := Option.some.inj hs
      have hcov := covStep_addF (hash := hash) (th' := mv s th0 (afterAdd tg rem e)) (q := tg) (i := k) hth hnw
      refine hI.classA hth rfl rfl rfl rfl (by simp [setThread, addF]) (fun _ _ h => hasBits_addF_mono h) hcov ?_
      refine ⟨(show progOK th0.prog _ = true from afterAdd_progOK hB _ _ _),
        ?_, ?_, mv_ghost hT.ghost⟩
      · show (afterAdd tg rem e).locked = true ↔ s.lock = some t
        simp [afterAdd_locked, hlk]
      · refine afterAdd_pcInv rfl hp.1 hp.2.1 (fun he j hj => ?_)
        have hj' : j ∈ s.store := hj
        rcases hp.2.2 he j hj' with h | h
        · exact Or.inl ((hcov j hj).1 hj' h)
        · rcases List.mem_cons.1 h with rfl | h
          · left; left
            have : tg < s.filters.length := hp.1 ▸ hI.cur
            show Bloom.hasBits hash ((addF hash s tg j).getD s.cur []) j = true
            rw [← hp.1]; exact hasBits_addF_self this
          · exact Or.inr h
  | bErrFn e =>
    have hlk : s.lock = some t := hT.lock.1 (by rw [hp0]; rfl)
    have hp := hT.pc
    simp only [pcInv, hp0] at hp
    simp only [observe, hp0] at hs
    cases e with
    | true =>
      simp only [if_true] at hs
      obtain rfl : setThread s t (mv s th0 (.bUnlock .err)) = s' := Option.some.inj hs
      refine hI.classA hth rfl rfl rfl rfl rfl (fun _ _ h => h) (covStep_thread hth ?_) ?_
      · intro k; show pendingAt s.cur k (.bUnlock .err) = pendingAt s.cur k th0.pc
        rw [hp0]; rfl
      · refine ⟨(show progOK th0.prog _ = true by rcases hB with h | h <;> rw [h] <;> rfl), by simpa [mv, PC.locked, setThread] using hlk, ?_, mv_ghost hT.ghost⟩
        show Res.err ≠ .absent ∧ (Res.err = .err → th0.prog = .rebuild → s.active = false)
        exact ⟨by simp, fun _ => hp.1⟩
    | false =>
      simp only [Bool.false_eq_true, if_false] at hs
      obtain rfl : setThread s t (mv s th0 .bActivate) = s' := Option.some.inj hs
      refine hI.classA hth rfl rfl rfl rfl rfl (fun _ _ h => h) (covStep_thread hth ?_) ?_
      · intro k; show pendingAt s.cur k .bActivate = pendingAt s.cur k th0.pc
        rw [hp0]; rfl
      · refine ⟨(show progOK th0.prog _ = true by rcases hB with h | h <;> rw [h] <;> rfl), by simpa [mv, PC.locked, setThread] using hlk, ?_, mv_ghost hT.ghost⟩
        show (th0.prog = .rebuild → s.active = false) ∧ (∀ k, k ∈ s.store → covered hash (setThread s t _) k)
        refine ⟨hp.1, fun k hk => (covered_setThread hth (fun j => ?_) k).2 (hp.2 rfl k hk)⟩
        show pendingAt s.cur j .bActivate = pendingAt s.cur j th0.pc
        rw [hp0]; rfl
  | bActivate =>
    have hlk : s.lock = some t := hT.lock.1 (by rw [hp0]; rfl)
    have hp := hT.pc
    simp only [pcInv, hp0] at hp
    simp only [observe, hp0] at hs
    obtain rfl : setThread { s with active := true } t (mv s th0 (.bUnlock .ok)) = s' := Option.some.inj hs
    refine hI.classBC hth rfl (Or.inl hlk) (Or.inl hlk) (Nat.le_refl _) (fun h => absurd rfl h) (fun _ _ h => h) hI.cur ?_ ?_
    · intro _ k hk
      exact (covered_builder_move hth hnw rfl rfl rfl rfl rfl k).2 (hp.2 k hk)
    · refine ⟨(show progOK th0.prog _ = true by rcases hB with h | h <;> rw [h] <;> rfl), by simpa [mv, PC.locked, setThread] using hlk, ?_, mv_ghost hT.ghost⟩
      show Res.ok ≠ .absent ∧ (Res.ok = .err → _)
      exact ⟨by simp, fun h => by cases h⟩
  | bUnlock r =>
    have hlk : s.lock = some t := hT.lock.1 (by rw [hp0]; rfl)
    have hp := hT.pc
    simp only [pcInv, hp0] at hp
    simp only [observe, hp0] at hs
    obtain rfl : setThread { s with lock := none } t (mv s th0 (.done r)) = s' := Option.some.inj hs
    refine hI.classBC hth rfl (Or.inl hlk) (Or.inr rfl) (Nat.le_refl _) (fun h => absurd rfl h) (fun _ _ h => h) hI.cur ?_ ?_
    · intro ha k hk
      exact (covered_builder_move hth hnw rfl rfl rfl rfl rfl k).2 (hI.act ha k hk)
    · refine ⟨(show progOK th0.prog _ = true by cases th0.prog <;> rfl), by simp [mv, PC.locked, setThread], ?_, mv_ghost hT.ghost⟩
      unfold pcInv
      cases r <;> simp [mv] at hp ⊢

/-- the snapshot event (AllKeysChanWithErr) of a builder -/
theorem Inv.stepSnap {s s' : St} {t : Nat} {th0 : Thread} {ks : List Nat} {e : Bool} (hI : Inv hash s)
    (hth : s.threads[t]? = some th0) (hs : snapThread s t th0 ks e = some s') : Inv hash s' := by
  have hT := hI.thr t th0 hth
  unfold snapThread at hs
  split at hs
  · cases hs
  · rename_i hok
    have hok' : e = false → ∀ k, k ∈ s.store → k ∈ ks := by
      intro he k hk
      have : snapOK s ks e = true := by simpa using hok
      simp only [snapOK, he, Bool.false_or, List.all_eq_true] at this
      simpa using this k hk
    -- both builders continue with `afterAdd target ks e`, target = the live filter
    have key : ∀ tg, tg = s.cur → (th0.pc = .bPop ∨ th0.pc = .iSnap tg) → (th0.prog = .rebuild → s.active = false) →
        Inv hash (setThread s t { th0 with pc := afterAdd tg ks e }) := by
      intro tg htg hpc hact
      have hlk : s.lock = some t := hT.lock.1 (by rcases hpc with h | h <;> rw [h] <;> rfl)
      have hnw : th0.pc.writing = false := by rcases hpc with h | h <;> rw [h] <;> rfl
      have hB := prog_builder hT.prog (Or.inl (by rcases hpc with h | h <;> rw [h] <;> rfl))
      refine hI.classA hth rfl rfl rfl rfl rfl (fun _ _ h => h) (covStep_thread hth ?_) ?_
      · intro k
        show pendingAt s.cur k (afterAdd tg ks e) = pendingAt s.cur k th0.pc
        rw [pendingAt_of_not_writing hnw, pendingAt_of_not_writing (afterAdd_not_writing _ _ _)]
      · refine ⟨(show progOK th0.prog (afterAdd tg ks e) = true from afterAdd_progOK hB _ _ _), ?_, ?_, hT.ghost⟩
        · show (afterAdd tg ks e).locked = true ↔ s.lock = some t
          simp [afterAdd_locked, hlk]
        · exact afterAdd_pcInv rfl htg hact (fun he k hk => Or.inr (hok' he k hk))
    have hp := hT.pc
    cases hp0 : th0.pc <;> simp only [hp0] at hs <;> try (cases hs)
    · -- bPop
      simp only [pcInv, hp0] at hp
      exact key s.cur rfl (Or.inl hp0) (fun _ => hp)
    · -- iSnap
      rename_i tg
      simp only [pcInv, hp0] at hp
      refine key tg hp (Or.inr hp0) (fun h => ?_)
      have := prog_build_of hT.prog (Or.inr (Or.inr ⟨tg, hp0⟩))
      rw [this] at h; cases h

/-- a new call starts -/
theorem Inv.spawn {s : St} (hI : Inv hash s) (p : Prog) :
    Inv hash { s with threads := s.threads ++ [{ prog := p, pc := firstPC p }] } := by
  have hfw : (firstPC p).writing = false := by
    cases p with
    | read kind k => cases k <;> rfl
    | del k => cases k <;> rfl
    | _ => rfl
  have hfl : (firstPC p).locked = false := by
    cases p with
    | read kind k => cases k <;> rfl
    | del k => cases k <;> rfl
    | _ => rfl
  have hcov : ∀ k, covered hash { s with threads := s.threads ++ [{ prog := p, pc := firstPC p }] } k ↔ covered hash s k := by
    intro k
    have : pendW { s with threads := s.threads ++ [{ prog := p, pc := firstPC p }] } k = pendW s k := by
      apply pendW_congr (s := s) (by rfl) (by rfl)
      · intro u _ thu hu
        refine ⟨thu, ?_, rfl⟩
        have hlt : u < s.threads.length := by
          cases hlt : decide (u < s.threads.length) with
          | true => simpa using hlt
          | false =>
            have : s.threads.length ≤ u := by simpa using hlt
            rw [List.getElem?_eq_none this] at hu; cases hu
        show (s.threads ++ _)[u]? = some thu
        rw [List.getElem?_append_left hlt]; exact hu
      · intro u _ hu th' hu'
        have hge : s.threads.length ≤ u := by
          cases hlt : decide (u < s.threads.length) with
          | false => simpa using hlt
          | true =>
            have hlt' : u < s.threads.length := by simpa using hlt
            rw [List.getElem?_eq_getElem hlt'] at hu; cases hu
        have hu'' : (s.threads ++ [({ prog := p, pc := firstPC p } : Thread)])[u]? = some th' := hu'
        rw [List.getElem?_append_right hge] at hu''
        cases hd : u - s.threads.length with
        | zero =>
          rw [hd] at hu''; simp at hu''
          subst hu''
          exact pendingAt_of_not_writing hfw
        | succ n => rw [hd] at hu''; simp at hu''
    simp only [covered, this]; rfl
  have hcs : CovStep hash s { s with threads := s.threads ++ [{ prog := p, pc := firstPC p }] } :=
    fun k hk => ⟨fun _ h => (hcov k).2 h, fun hn => absurd hk hn⟩
  refine ⟨hI.cur, fun ha => hcs.all' (hI.act ha), ?_, ?_⟩
  · intro u thu hu
    have hu' : (s.threads ++ [({ prog := p, pc := firstPC p } : Thread)])[u]? = some thu := hu
    by_cases hlt : u < s.threads.length
    · rw [List.getElem?_append_left hlt] at hu'
      exact (hI.thr u thu hu').frame rfl rfl rfl (fun _ _ h => h) hcs
    · have hge : s.threads.length ≤ u := Nat.le_of_not_lt hlt
      rw [List.getElem?_append_right hge] at hu'
      cases hd : u - s.threads.length with
      | zero =>
        rw [hd] at hu'; simp at hu'
        subst hu'
        have hul : u = s.threads.length := by omega
        refine ⟨?_, ?_, ?_, by simp⟩
        · cases p with
          | read kind k => cases k <;> rfl
          | del k => cases k <;> rfl
          | _ => rfl
        · show (firstPC p).locked = true ↔ s.lock = some u
          rw [hfl]
          constructor
          · intro h; cases h
          · intro h
            obtain ⟨th, hth⟩ := hI.lk u h
            rw [hul, List.getElem?_eq_none (Nat.le_refl _)] at hth; cases hth
        · unfold pcInv
          cases p with
          | read kind k => cases k <;> simp [firstPC]
          | del k => cases k <;> simp [firstPC]
          | _ => simp [firstPC]
      | succ n => rw [hd] at hu'; simp at hu'
  · intro u hu
    obtain ⟨th, hth⟩ := hI.lk u hu
    have hlt : u < s.threads.length := by
      cases hlt : decide (u < s.threads.length) with
      | true => simpa using hlt
      | false =>
        have : s.threads.length ≤ u := by simpa using hlt
        rw [List.getElem?_eq_none this] at hth; cases hth
    exact ⟨th, by show (s.threads ++ _)[u]? = some th; rw [List.getElem?_append_left hlt]; exact hth⟩

/-- every event preserves the invariant -/
theorem Inv.step {s s' : St} {ev : Ev} (hI : Inv hash s) (hs : step hash s ev = some s') : Inv hash s' := by
  cases ev with
  | spawn p =>
    simp only [Conc.step] at hs
    obtain rfl := Option.some.inj hs
    exact hI.spawn p
  | snap t ks e =>
    simp only [Conc.step] at hs
    cases hth : s.threads[t]? with
    | none => simp [hth] at hs
    | some th0 => rw [hth] at hs; exact hI.stepSnap hth hs
  | step t =>
    simp only [Conc.step] at hs
    cases hth : s.threads[t]? with
    | none => simp [hth] at hs
    | some th0 =>
      rw [hth] at hs
      simp only at hs
      cases hp0 : th0.pc with
      | rPtr => exact hI.stepReader hth hs (Or.inl hp0)
      | rActive p => exact hI.stepReader hth hs (Or.inr (Or.inl ⟨p, hp0⟩))
      | rRecheck p => exact hI.stepReader hth hs (Or.inr (Or.inr (Or.inl ⟨p, hp0⟩)))
      | rFilter p => exact hI.stepReader hth hs (Or.inr (Or.inr (Or.inr ⟨p, hp0⟩)))
      | rPass => exact hI.stepPass hth hs hp0
      | wStore => exact hI.stepWriter hth hs (Or.inl hp0)
      | wAdd ks => exact hI.stepWriter hth hs (Or.inr (Or.inl ⟨ks, hp0⟩))
      | wAdding p ks => exact hI.stepWriter hth hs (Or.inr (Or.inr ⟨p, ks, hp0⟩))
      | bLock => exact hI.stepBuilder hth hs (Or.inr (Or.inl hp0))
      | iLock => exact hI.stepBuilder hth hs (Or.inr (Or.inr hp0))
      | bDeact => exact hI.stepBuilder hth hs (Or.inl (by rw [hp0]; rfl))
      | bSwap => exact hI.stepBuilder hth hs (Or.inl (by rw [hp0]; rfl))
      | bPop => exact hI.stepBuilder hth hs (Or.inl (by rw [hp0]; rfl))
      | iPop => exact hI.stepBuilder hth hs (Or.inl (by rw [hp0]; rfl))
      | iSnap tg => exact hI.stepBuilder hth hs (Or.inl (by rw [hp0]; rfl))
      | bAdd tg rem e => exact hI.stepBuilder hth hs (Or.inl (by rw [hp0]; rfl))
      | bErrFn e => exact hI.stepBuilder hth hs (Or.inl (by rw [hp0]; rfl))
      | bActivate => exact hI.stepBuilder hth hs (Or.inl (by rw [hp0]; rfl))
      | bUnlock r => exact hI.stepBuilder hth hs (Or.inl (by rw [hp0]; rfl))
      | done r => unfold stepThread at hs; simp [observe, hp0] at hs

theorem Inv.init {s : St} (h : Conc.init s) : Inv hash s := by
  obtain ⟨ha, hc, hf, hl, ht, _⟩ := h
  refine ⟨(by rw [hc, hf]; simp), (by rw [ha]; intro h'; cases h'), ?_, ?_⟩
  · intro t th hth; rw [ht] at hth; simp at hth
  · intro u hu; rw [hl] at hu; cases hu

/-- the invariant holds in every reachable state: every interleaving, any number of threads and
rebuilds, every enumeration outcome admitted by `snapOK` -/
theorem Inv.reachable {s : St} (h : Steps.Reach (Conc.step hash) Conc.init s) : Inv hash s :=
  Steps.invariant_of_init_step (Inv hash) (fun _ hi => Inv.init hi) (fun _ _ _ hI hs => Inv.step hI hs) h

end C02.Conc
