/-
C02 — caching blockstore layers (blockstore/twoqueue_cache.go, bloom_cache.go, caching.go):
executable SEQUENTIAL model.  (The small-step concurrent model of the Bloom cache is in
`BoxoModel/C02/Conc.lean`.)

Layers are step functions `StepFn σ = σ → Op → σ × Out` stacked on an *inner* step function, exactly
like the Go structs wrap a `Blockstore`:

  Base.step                      the uncached store seen through the fault-injecting wrapper of the
                                 harness: a set of keys, per-call failure flag, key enumeration that
                                 delivers a prefix and reports an error
  TQ.step P inner viewer         tqcache over `inner`; the 2Q cache is ANY `CacheOps` `P` (get/add/remove);
                                 `TwoQ.ops` below is the exact transcription of golang-lru's 2Q used by
                                 the driver, the theorems hold for every lawful `P` (arbitrary eviction)
  Bloom.step hash inner viewer   bloomcache over `inner` for an arbitrary hash family
                                 `hash : Nat → List Nat` (bit positions of a key)

Blocks are identified by their key (pool index) and `sz k` is the length of the block's bytes: this
is the "functional pool" hypothesis (equal multihash ⇒ equal bytes), built into the types.
`none : Key` is the undefined CID.  Core-only (imported by the driver).
-/
namespace C02

abbrev Key := Option Nat

inductive Op where
  | has (k : Key) (f : Bool)            -- f: the backing store fails this call (if the call reaches it)
  | get (k : Key) (f : Bool)
  | size (k : Key) (f : Bool)
  | view (k : Key) (f : Bool)
  | del (k : Key) (f : Bool)
  | put (k : Nat) (f : Bool)
  | putMany (ks : List Nat) (f : Bool)
  | enum (cut : Nat) (err : Bool)       -- AllKeysChanWithErr: delivers the first `cut` keys, then reports `err`
  | build (cut : Nat) (err : Bool)      -- bloomcache.build (initial build; enumeration parameters)
  | rebuild (cut : Nat) (err : Bool)    -- bloomcache.Rebuild
  deriving Repr, DecidableEq

inductive Out where
  | bool (b : Bool)
  | found (n : Nat)        -- Get / View: a block of n bytes
  | size (n : Nat)         -- GetSize
  | notfound
  | ok
  | err
  | keys (ks : List Nat) (err : Bool)
  deriving Repr, DecidableEq

abbrev StepFn (σ : Type) := σ → Op → σ × Out

/-- an op whose answer must be identical with and without caches: no injected failure, and not the
Bloom-only maintenance calls (which the uncached store does not have) -/
def Op.transparent : Op → Bool
  | .has _ f | .get _ f | .size _ f | .view _ f | .del _ f | .put _ f | .putMany _ f => !f
  | .enum _ _ => true
  | .build _ _ | .rebuild _ _ => false

/-! ## sorted, duplicate-free key lists (enumeration order of the harness wrapper; tqcache.sortAndDedup) -/

def ins (k : Nat) : List Nat → List Nat
  | [] => [k]
  | x :: xs => if k < x then k :: x :: xs else if k = x then x :: xs else x :: ins k xs

def canon (l : List Nat) : List Nat := l.foldr ins []

/-- `keyedBlocks.sortAndDedup`: tqcache sorts the PutMany batch by the multihash bytes; `rank k` is
the position of key `k` in that order (a parameter, observed by the harness) -/
def insBy (rank : Nat → Nat) (k : Nat) : List Nat → List Nat
  | [] => [k]
  | x :: xs => if k = x then x :: xs else if rank k < rank x then k :: x :: xs else x :: insBy rank k xs

def sortDedupBy (rank : Nat → Nat) (l : List Nat) : List Nat := l.foldr (insBy rank) []

/-! ## the uncached store -/

structure Base where
  keys : List Nat
  deriving Repr

namespace Base
def present (b : Base) : Key → Bool
  | none => false
  | some k => b.keys.contains k

def insert (b : Base) (k : Nat) : Base := if b.keys.contains k then b else { keys := k :: b.keys }
def erase (b : Base) (k : Nat) : Base := { keys := b.keys.filter (· != k) }

def step (sz : Nat → Nat) (b : Base) : Op → Base × Out
  | .has k f => (b, if f then .err else .bool (b.present k))
  | .get k f | .view k f =>
    (b, if f then .err else match k with
      | some i => if b.present k then .found (sz i) else .notfound
      | none => .notfound)
  | .size k f =>
    (b, if f then .err else match k with
      | some i => if b.present k then .size (sz i) else .notfound
      | none => .notfound)
  | .del k f =>
    if f then (b, .err) else match k with
      | some i => (b.erase i, .ok)
      | none => (b, .ok)
  | .put k f => if f then (b, .err) else (b.insert k, .ok)
  | .putMany ks f => if f then (b, .err) else (ks.foldl insert b, .ok)
  | .enum cut err =>
    let all := canon b.keys
    (b, .keys (all.take cut) (err || decide (cut < all.length)))
  | .build _ _ | .rebuild _ _ => (b, .ok)
end Base

/-! ## tqcache -/

/-- a cached value: `cacheHave(b)` or `cacheSize(n)` -/
inductive Entry where
  | have (b : Bool)
  | size (n : Nat)
  deriving Repr, DecidableEq

def Entry.isHave : Entry → Bool
  | .have b => b
  | .size _ => true

/-- the three operations tqcache uses of `lru.TwoQueueCache` (Get mutates recency) -/
structure CacheOps (C : Type) where
  get : C → Nat → C × Option Entry
  add : C → Nat → Entry → C
  remove : C → Nat → C

namespace TQ
variable {C σ : Type}

/-- the filtering loop of PutMany: `queryCache` for every block, keep those not known to be present -/
def filterGood (P : CacheOps C) : C → List Nat → C × List Nat
  | c, [] => (c, [])
  | c, k :: ks =>
    let r := P.get c k
    let keep := match r.2 with
      | some e => !e.isHave
      | none => true
    let r' := filterGood P r.1 ks
    (r'.1, if keep then k :: r'.2 else r'.2)

/-- common shape of Get / View: conclusive only for a cached "absent"; otherwise ask the store
(`iop` = the call made on the wrapped store) and cache what it said -/
def readBlock (P : CacheOps C) (inner : StepFn σ) (c : C) (s : σ) (k : Nat) (iop : Op) : (C × σ) × Out :=
  let r := P.get c k
  match r.2 with
  | some (.have false) => ((r.1, s), .notfound)
  | _ =>
    let i := inner s iop
    match i.2 with
    | .notfound => ((P.add r.1 k (.have false), i.1), .notfound)
    | .found n => ((P.add r.1 k (.size n), i.1), .found n)
    | o => ((r.1, i.1), o)

def step (sz rank : Nat → Nat) (P : CacheOps C) (inner : StepFn σ) (viewer : Bool) : StepFn (C × σ)
  | (c, s), .has none _ => ((c, s), .bool false)
  | (c, s), .has (some k) f =>
    let r := P.get c k
    match r.2 with
    | some e => ((r.1, s), .bool e.isHave)
    | none =>
      let i := inner s (.has (some k) f)
      match i.2 with
      | .bool b => ((P.add r.1 k (.have b), i.1), .bool b)
      | o => ((r.1, i.1), o)
  | (c, s), .size none _ => ((c, s), .notfound)
  | (c, s), .size (some k) f =>
    let r := P.get c k
    match r.2 with
    | some (.have false) => ((r.1, s), .notfound)
    | some (.size n) => ((r.1, s), .size n)
    | _ =>
      let i := inner s (.size (some k) f)
      match i.2 with
      | .notfound => ((P.add r.1 k (.have false), i.1), .notfound)
      | .size n => ((P.add r.1 k (.size n), i.1), .size n)
      | o => ((r.1, i.1), o)
  | (c, s), .get none _ => ((c, s), .notfound)
  | (c, s), .get (some k) f => readBlock P inner c s k (.get (some k) f)
  | (c, s), .view none _ => ((c, s), .notfound)
  | (c, s), .view (some k) f =>
    -- no Viewer below: View = Get + callback
    readBlock P inner c s k (if viewer then .view (some k) f else .get (some k) f)
  | (c, s), .del none _ => ((c, s), .ok)
  | (c, s), .del (some k) f =>
    let r := P.get c k
    match r.2 with
    | some (.have false) => ((r.1, s), .ok)
    | _ =>
      let i := inner s (.del (some k) f)
      match i.2 with
      | .ok => ((P.add r.1 k (.have false), i.1), .ok)
      | o => ((P.remove r.1 k, i.1), o)
  | (c, s), .put k f =>
    let r := P.get c k
    let known := match r.2 with
      | some e => e.isHave
      | none => false
    if known then ((r.1, s), .ok)
    else
      let i := inner s (.put k f)
      match i.2 with
      | .ok => ((P.add r.1 k (.size (sz k)), i.1), .ok)
      | o => ((P.remove r.1 k, i.1), o)
  | (c, s), .putMany ks f =>
    let g := filterGood P c ks
    if g.2.isEmpty then ((g.1, s), .ok)
    else
      let good := sortDedupBy rank g.2
      let i := inner s (.putMany good f)
      match i.2 with
      | .ok => ((good.foldl (fun c k => P.add c k (.size (sz k))) g.1, i.1), .ok)
      | o => ((g.1, i.1), o)
  | (c, s), .enum cut err => let i := inner s (.enum cut err); ((c, i.1), i.2)
  | (c, s), .build cut err => let i := inner s (.build cut err); ((c, i.1), i.2)
  | (c, s), .rebuild cut err => let i := inner s (.rebuild cut err); ((c, i.1), i.2)
end TQ

/-! ## bloomcache -/

structure BloomSt where
  active : Bool := false
  bits : List Nat := []
  deriving Repr

namespace Bloom
variable {σ : Type}

def hasBits (hash : Nat → List Nat) (bits : List Nat) (k : Nat) : Bool := (hash k).all (bits.contains ·)
def addBits (hash : Nat → List Nat) (bits : List Nat) (k : Nat) : List Nat := hash k ++ bits

/-- `hasCached`: true = "conclusively absent" (the only conclusive answer the filter gives) -/
def absent (hash : Nat → List Nat) (b : BloomSt) : Key → Bool
  | none => false
  | some k => b.active && !hasBits hash b.bits k

/-- `populate` into the current filter + activation on success -/
def populate (hash : Nat → List Nat) (inner : StepFn σ) (b : BloomSt) (s : σ) (cut : Nat) (err : Bool) :
    (BloomSt × σ) × Out :=
  let i := inner s (.enum cut err)
  match i.2 with
  | .keys ks e =>
    let bits := ks.foldl (addBits hash) b.bits
    if e then (({ b with bits := bits }, i.1), .err)
    else (({ active := true, bits := bits }, i.1), .ok)
  | _ => ((b, i.1), .err)

def step (hash : Nat → List Nat) (inner : StepFn σ) (viewer : Bool) : StepFn (BloomSt × σ)
  | (b, s), .has k f =>
    if absent hash b k then ((b, s), .bool false)
    else let i := inner s (.has k f); ((b, i.1), i.2)
  | (b, s), .size k f =>
    if absent hash b k then ((b, s), .notfound)
    else let i := inner s (.size k f); ((b, i.1), i.2)
  | (b, s), .get k f =>
    if absent hash b k then ((b, s), .notfound)
    else let i := inner s (.get k f); ((b, i.1), i.2)
  | (b, s), .view k f =>
    if absent hash b k then ((b, s), .notfound)
    else let i := inner s (if viewer then .view k f else .get k f); ((b, i.1), i.2)
  | (b, s), .del k f =>
    if absent hash b k then ((b, s), .ok)
    else let i := inner s (.del k f); ((b, i.1), i.2)
  | (b, s), .put k f =>
    let i := inner s (.put k f)
    match i.2 with
    | .ok => (({ b with bits := addBits hash b.bits k }, i.1), .ok)
    | o => ((b, i.1), o)
  | (b, s), .putMany ks f =>
    let i := inner s (.putMany ks f)
    match i.2 with
    | .ok => (({ b with bits := ks.foldl (addBits hash) b.bits }, i.1), .ok)
    | o => ((b, i.1), o)
  | (b, s), .enum cut err => let i := inner s (.enum cut err); ((b, i.1), i.2)
  | (b, s), .build cut err => populate hash inner b s cut err
  | (_, s), .rebuild cut err => populate hash inner { active := false, bits := [] } s cut err
end Bloom

/-! ## running op lists -/

def runOuts {σ : Type} (step : StepFn σ) : σ → List Op → List Out
  | _, [] => []
  | s, op :: ops => let r := step s op; r.2 :: runOuts step r.1 ops

def runState {σ : Type} (step : StepFn σ) : σ → List Op → σ
  | s, [] => s
  | s, op :: ops => runState step (step s op).1 ops

/-! ## exact transcription of golang-lru/v2 `TwoQueueCache` (2q.go + simplelru/lru.go) -/

/-- simplelru.LRU as a list, head = front (most recently used) -/
abbrev LRU (V : Type) := List (Nat × V)

namespace LRU
variable {V : Type}
def contains (l : LRU V) (k : Nat) : Bool := l.any (·.1 == k)
def peek (l : LRU V) (k : Nat) : Option V := (l.find? (·.1 == k)).map (·.2)
def remove (l : LRU V) (k : Nat) : LRU V := l.filter (·.1 != k)
/-- Add: existing key → move to front with the new value; otherwise push front, evict the back
when over `size` -/
def add (size : Nat) (l : LRU V) (k : Nat) (v : V) : LRU V :=
  if l.contains k then (k, v) :: l.remove k
  else
    let l' := (k, v) :: l
    if l'.length > size then l'.dropLast else l'
/-- Get: move to front -/
def touch (l : LRU V) (k : Nat) : LRU V :=
  match l.peek k with
  | some v => (k, v) :: l.remove k
  | none => l
/-- Keys(): oldest first -/
def keysOldestFirst (l : LRU V) : List (Nat × V) := l.reverse
end LRU

structure TwoQ where
  size : Nat
  recentSize : Nat
  evictSize : Nat
  recent : LRU Entry := []
  frequent : LRU Entry := []
  ghost : LRU Unit := []
  deriving Repr

namespace TwoQ
/-- `New2Q(size)`: recentSize = int(size·0.25), evictSize = int(size·0.5) -/
def new (size : Nat) : TwoQ := { size := size, recentSize := size / 4, evictSize := size / 2 }

def get (c : TwoQ) (k : Nat) : TwoQ × Option Entry :=
  if c.frequent.contains k then ({ c with frequent := c.frequent.touch k }, c.frequent.peek k)
  else match c.recent.peek k with
    | some v => ({ c with recent := c.recent.remove k, frequent := LRU.add c.size c.frequent k v }, some v)
    | none => (c, none)

def ensureSpace (c : TwoQ) (recentEvict : Bool) : TwoQ :=
  let recentLen := c.recent.length
  let freqLen := c.frequent.length
  if recentLen + freqLen < c.size then c
  else if recentLen > 0 && (recentLen > c.recentSize || (recentLen == c.recentSize && !recentEvict)) then
    match c.recent.getLast? with
    | some (k, _) => { c with recent := c.recent.dropLast, ghost := LRU.add c.evictSize c.ghost k () }
    | none => c
  else { c with frequent := c.frequent.dropLast }

def add (c : TwoQ) (k : Nat) (v : Entry) : TwoQ :=
  if c.frequent.contains k then { c with frequent := LRU.add c.size c.frequent k v }
  else if c.recent.contains k then
    { c with recent := c.recent.remove k, frequent := LRU.add c.size c.frequent k v }
  else if c.ghost.contains k then
    let c := c.ensureSpace true
    { c with ghost := c.ghost.remove k, frequent := LRU.add c.size c.frequent k v }
  else
    let c := c.ensureSpace false
    { c with recent := LRU.add c.size c.recent k v }

def remove (c : TwoQ) (k : Nat) : TwoQ :=
  if c.frequent.contains k then { c with frequent := c.frequent.remove k }
  else if c.recent.contains k then { c with recent := c.recent.remove k }
  else { c with ghost := c.ghost.remove k }

def ops : CacheOps TwoQ := { get := get, add := add, remove := remove }

/-- `Keys()` with the values: frequent (oldest first) then recent (oldest first) -/
def dump (c : TwoQ) : List (Nat × Entry) := c.frequent.keysOldestFirst ++ c.recent.keysOldestFirst
end TwoQ

end C02
