import BoxoModel.C02.Conc
import BoxoModel.C02.LemmasBloom
/-!
C02 — inductive invariant of the small-step Bloom-cache model (every interleaving, any number of
threads, any number of rebuilds, failed enumerations included).
-/
namespace C02.Conc
open C02

variable {hash : Nat → List Nat}

/-! ## basic facts -/

def PC.locked : PC → Bool
  | .bDeact | .bSwap | .bPop | .iPop | .iSnap _ | .bAdd _ _ _ | .bErrFn _ | .bActivate | .bUnlock _ => true
  | _ => false

/-- is the thread at `pc` in the middle of adding keys after its store write? -/
def PC.writing : PC → Bool
  | .wAdd _ | .wAdding _ _ => true
  | _ => false

theorem pendingAt_of_not_writing {cur k : Nat} {pc : PC} (h : pc.writing = false) : pendingAt cur k pc = false := by
  cases pc <;> simp_all [PC.writing, pendingAt]

def progOK : Prog → PC → Bool
  | .read _ _, .rPtr | .read _ _, .rActive _ | .read _ _, .rRecheck _ | .read _ _, .rFilter _ | .read _ _, .rPass => true
  | .del _, .rPtr | .del _, .rActive _ | .del _, .rRecheck _ | .del _, .rFilter _ | .del _, .rPass => true
  | .put _, .wStore | .put _, .wAdd _ | .put _, .wAdding _ _ => true
  | .rebuild, .bLock | .rebuild, .bDeact | .rebuild, .bSwap | .rebuild, .bPop => true
  | .build, .iLock | .build, .iPop | .build, .iSnap _ => true
  | .rebuild, .bAdd _ _ _ | .rebuild, .bErrFn _ | .rebuild, .bActivate | .rebuild, .bUnlock _ => true
  | .build, .bAdd _ _ _ | .build, .bErrFn _ | .build, .bActivate | .build, .bUnlock _ => true
  | _, .done _ => true
  | _, _ => false

theorem getF_append (s : St) (p : Nat) : (s.filters ++ [[]]).getD p [] = s.filters.getD p [] := by
  simp only [List.getD_eq_getElem?_getD]
  by_cases h : p < s.filters.length
  · rw [List.getElem?_append_left h]
  · have h' : s.filters.length ≤ p := Nat.le_of_not_lt h
    rw [List.getElem?_append_right h']
    rw [List.getElem?_eq_none h']
    cases hq : p - s.filters.length <;> simp

theorem getD_set_eq {l : List (List Nat)} {q p : Nat} {v : List Nat} :
    (l.set q v).getD p [] = if q = p ∧ p < l.length then v else l.getD p [] := by
  simp only [List.getD_eq_getElem?_getD, List.getElem?_set]
  by_cases h : q = p
  · subst h
    by_cases h2 : q < l.length <;> simp [h2]
  · simp [h]

/-- adding to filter `q` never removes an answer "maybe present" of any filter -/
theorem hasBits_addF_mono {s : St} {q j p k : Nat}
    (h : Bloom.hasBits hash (s.filters.getD p []) k = true) :
    Bloom.hasBits hash ((addF hash s q j).getD p []) k = true := by
  simp only [addF, getD_set_eq]
  split
  · rename_i hq
    obtain ⟨rfl, _⟩ := hq
    exact Bloom.hasBits_mono (fun _ hp => Bloom.mem_addBits hp) h
  · exact h

theorem hasBits_addF_self {s : St} {q j : Nat} (hq : q < s.filters.length) :
    Bloom.hasBits hash ((addF hash s q j).getD q []) j = true := by
  simp only [addF, getD_set_eq, hq, and_self, if_true]
  exact Bloom.hasBits_addBits_self _ _

theorem threads_set_self {s : St} {t : Nat} {th th' : Thread} (h : s.threads[t]? = some th) :
    (s.threads.set t th')[t]? = some th' := by
  have : t < s.threads.length := by
    cases hlt : decide (t < s.threads.length) with
    | true => simpa using hlt
    | false =>
      have : s.threads.length ≤ t := by simpa using hlt
      rw [List.getElem?_eq_none this] at h; simp at h
  simp [this]

theorem threads_set_other {l : List Thread} {t u : Nat} {th' : Thread} (h : u ≠ t) :
    (l.set t th')[u]? = l[u]? := by
  simp [Ne.symm h]

/-! ## coverage of a stored key by the live filter -/

def covered (hash : Nat → List Nat) (s : St) (k : Nat) : Prop :=
  hasF hash s s.cur k = true ∨ pendW s k = true

/-- what one step must preserve about coverage (all steps except the filter swap do) -/
def CovStep (hash : Nat → List Nat) (s s' : St) : Prop :=
  ∀ k, k ∈ s'.store → (k ∈ s.store → covered hash s k → covered hash s' k) ∧ (k ∉ s.store → covered hash s' k)

theorem CovStep.all {s s' : St} (h : CovStep hash s s') {rem : List Nat}
    (hc : ∀ k, k ∈ s.store → covered hash s k ∨ k ∈ rem) :
    ∀ k, k ∈ s'.store → covered hash s' k ∨ k ∈ rem := by
  intro k hk
  by_cases hin : k ∈ s.store
  · rcases hc k hin with h' | h'
    · exact Or.inl ((h k hk).1 hin h')
    · exact Or.inr h'
  · exact Or.inl ((h k hk).2 hin)

theorem CovStep.all' {s s' : St} (h : CovStep hash s s')
    (hc : ∀ k, k ∈ s.store → covered hash s k) : ∀ k, k ∈ s'.store → covered hash s' k := by
  intro k hk
  have := h.all (rem := []) (fun k hk => Or.inl (hc k hk)) k hk
  simpa using this

/-- pendW only looks at the writer table, the live pointer and the writers' program counters -/
theorem pendW_congr {s s' : St} {k : Nat} (hw : s'.writer k = s.writer k) (hc : s'.cur = s.cur)
    (ht : ∀ t, s.writer k = some t → ∀ th, s.threads[t]? = some th →
      ∃ th', s'.threads[t]? = some th' ∧ pendingAt s.cur k th'.pc = pendingAt s.cur k th.pc)
    (hnone : ∀ t, s.writer k = some t → s.threads[t]? = none →
      ∀ th', s'.threads[t]? = some th' → pendingAt s.cur k th'.pc = false) :
    pendW s' k = pendW s k := by
  unfold pendW
  rw [hw, hc]
  cases hwk : s.writer k with
  | none => rfl
  | some t =>
    simp only
    cases hth : s.threads[t]? with
    | some th =>
      obtain ⟨th', h1, h2⟩ := ht t hwk th hth
      simp [h1, h2]
    | none =>
      cases hth' : s'.threads[t]? with
      | none => rfl
      | some th' => simp [hnone t hwk hth th' hth']

/-- a step that only moves thread `t` between program counters with the same pending status
leaves coverage alone -/
theorem covered_setThread {s : St} {t : Nat} {th th' : Thread} (hth : s.threads[t]? = some th)
    (hp : ∀ k, pendingAt s.cur k th'.pc = pendingAt s.cur k th.pc) (k : Nat) :
    covered hash (setThread s t th') k ↔ covered hash s k := by
  have : pendW (setThread s t th') k = pendW s k := by
    apply pendW_congr (s := s) (s' := setThread s t th') (by rfl) (by rfl)
    · intro u _ thu hu
      by_cases hut : u = t
      · subst hut
        refine ⟨th', threads_set_self hth, ?_⟩
        rw [hth] at hu; cases hu; exact hp k
      · exact ⟨thu, by simpa [setThread, threads_set_other hut] using hu, rfl⟩
    · intro u _ hu th'' hu'
      by_cases hut : u = t
      · subst hut; rw [hth] at hu; cases hu
      · simp [setThread, threads_set_other hut, hu] at hu'
  simp only [covered, this]
  rfl

/-! ## the invariant -/

/-- what filter `p` answers for the key of a reader (`true` for the undefined CID, which never
reaches the filter) -/
def hasK (hash : Nat → List Nat) (s : St) (p : Nat) : Key → Bool
  | none => true
  | some k => hasF hash s p k

/-- the part of the invariant that talks about one thread -/
def pcInv (hash : Nat → List Nat) (s : St) (th : Thread) : Prop :=
  match th.pc with
  | .rActive p => p ≤ s.cur
  | .rRecheck p => p ≤ s.cur ∧ (p = s.cur → th.okAbs = true ∨ hasK hash s p th.prog.key = true)
  | .rFilter p => th.okAbs = true ∨ hasK hash s p th.prog.key = true
  | .done .absent => th.okAbs = true
  | .bSwap | .bPop => s.active = false
  | .iSnap tg => tg = s.cur
  | .bAdd tg rem e => tg = s.cur ∧ (th.prog = .rebuild → s.active = false) ∧
      (e = false → ∀ k, k ∈ s.store → covered hash s k ∨ k ∈ rem)
  | .bErrFn e => (th.prog = .rebuild → s.active = false) ∧ (e = false → ∀ k, k ∈ s.store → covered hash s k)
  | .bActivate => (th.prog = .rebuild → s.active = false) ∧ ∀ k, k ∈ s.store → covered hash s k
  | .bUnlock r => r ≠ .absent ∧ (r = .err → th.prog = .rebuild → s.active = false)
  | _ => True

structure TI (hash : Nat → List Nat) (s : St) (t : Nat) (th : Thread) : Prop where
  prog : progOK th.prog th.pc = true
  lock : th.pc.locked = true ↔ s.lock = some t
  pc : pcInv hash s th
  ghost : th.okAbs = true → th.stable = false

structure Inv (hash : Nat → List Nat) (s : St) : Prop where
  cur : s.cur < s.filters.length
  act : s.active = true → ∀ k, k ∈ s.store → covered hash s k
  thr : ∀ t th, s.threads[t]? = some th → TI hash s t th
  lk : ∀ u, s.lock = some u → ∃ th, s.threads[u]? = some th

/-- threads other than the one that moves keep their invariant when the step changes neither the
lock, the live pointer nor the active flag, never clears a filter bit, and preserves coverage -/
theorem TI.frame {s s' : St} {u : Nat} {th : Thread} (h : TI hash s u th)
    (hl : s'.lock = s.lock) (hc : s'.cur = s.cur) (ha : s'.active = s.active)
    (hf : ∀ p k, hasF hash s p k = true → hasF hash s' p k = true)
    (hcov : CovStep hash s s') : TI hash s' u th := by
  have hk : ∀ p key, hasK hash s p key = true → hasK hash s' p key = true := by
    intro p key; cases key with
    | none => exact id
    | some k => exact hf p k
  refine ⟨h.prog, by rw [hl]; exact h.lock, ?_, h.ghost⟩
  have hp := h.pc
  unfold pcInv at hp ⊢
  split
  all_goals (rename_i heq; simp only [heq] at hp)
  · rw [hc]; exact hp
  · rw [hc]; exact ⟨hp.1, fun e => (hp.2 e).imp id (hk _ _)⟩
  · exact hp.imp id (hk _ _)
  · exact hp
  · rw [ha]; exact hp
  · rw [ha]; exact hp
  · rw [hc]; exact hp
  · rw [hc, ha]; exact ⟨hp.1, hp.2.1, fun e => hcov.all (hp.2.2 e)⟩
  · rw [ha]; exact ⟨hp.1, fun e => hcov.all' (hp.2 e)⟩
  · rw [ha]; exact ⟨hp.1, hcov.all' hp.2⟩
  · rw [ha]; exact hp
  · trivial

/-- a thread that does not hold the build lock keeps its invariant across the lock holder's
writes to `lock`, `active` and the live pointer -/
theorem TI.unlocked {s s' : St} {u : Nat} {th : Thread} (h : TI hash s u th)
    (hnl : th.pc.locked = false) (hl : s'.lock ≠ some u)
    (hc : s.cur ≤ s'.cur) (hne : s'.cur ≠ s.cur → ∀ p, p ≤ s.cur → p ≠ s'.cur)
    (hf : ∀ p k, hasF hash s p k = true → hasF hash s' p k = true) : TI hash s' u th := by
  have hk : ∀ p key, hasK hash s p key = true → hasK hash s' p key = true := by
    intro p key; cases key with
    | none => exact id
    | some k => exact hf p k
  refine ⟨h.prog, by simp [hnl, hl], ?_, h.ghost⟩
  have hp := h.pc
  unfold pcInv at hp ⊢
  split
  all_goals (rename_i heq; simp only [heq] at hp; try (simp [heq, PC.locked] at hnl))
  · exact Nat.le_trans hp hc
  · refine ⟨Nat.le_trans hp.1 hc, fun e => ?_⟩
    by_cases hcc : s'.cur = s.cur
    · exact (hp.2 (e.trans hcc)).imp id (hk _ _)
    · exact absurd e (hne hcc _ hp.1)
  · exact hp.imp id (hk _ _)
  · exact hp
  · trivial

/-! ## the moved thread -/

/-- the record of a thread after one of its own steps: new program counter, ghost observation made
in the state before the step -/
def mv (s : St) (th0 : Thread) (pc' : PC) : Thread :=
  { prog := th0.prog, pc := pc', okAbs := th0.okAbs || absentOK s th0.prog.key,
    stable := th0.stable && !absentOK s th0.prog.key }

theorem mv_ghost {s : St} {th0 : Thread} {pc' : PC} (h : th0.okAbs = true → th0.stable = false) :
    (mv s th0 pc').okAbs = true → (mv s th0 pc').stable = false := by
  simp only [mv, Bool.or_eq_true, Bool.and_eq_false_iff, Bool.not_eq_false']
  rintro (h' | h')
  · exact Or.inl (h h')
  · exact Or.inr h'

theorem mv_okAbs_mono {s : St} {th0 : Thread} {pc' : PC} (h : th0.okAbs = true) : (mv s th0 pc').okAbs = true := by
  simp [mv, h]

theorem mv_okAbs_of {s : St} {th0 : Thread} {pc' : PC} (h : absentOK s th0.prog.key = true) :
    (mv s th0 pc').okAbs = true := by
  simp [mv, h]

/-- steps that touch neither the lock, the live pointer nor the active flag -/
theorem Inv.classA {s s' : St} {t : Nat} {th0 th' : Thread} (hI : Inv hash s)
    (hth : s.threads[t]? = some th0) (hthr : s'.threads = s.threads.set t th')
    (hl : s'.lock = s.lock) (hc : s'.cur = s.cur) (ha : s'.active = s.active)
    (hlen : s'.filters.length = s.filters.length)
    (hf : ∀ p k, hasF hash s p k = true → hasF hash s' p k = true)
    (hcov : CovStep hash s s') (hself : TI hash s' t th') : Inv hash s' where
  cur := by rw [hc, hlen]; exact hI.cur
  act := by rw [ha]; exact fun h => hcov.all' (hI.act h)
  thr := by
    intro u thu hu
    rw [hthr] at hu
    by_cases hut : u = t
    · subst hut
      rw [threads_set_self hth] at hu
      cases hu; exact hself
    · rw [threads_set_other hut] at hu
      exact (hI.thr u thu hu).frame hl hc ha hf hcov
  lk := by
    intro u hu
    rw [hl] at hu
    obtain ⟨thu, hthu⟩ := hI.lk u hu
    rw [hthr]
    by_cases hut : u = t
    · subst hut; exact ⟨th', threads_set_self hth⟩
    · exact ⟨thu, by rw [threads_set_other hut]; exact hthu⟩

/-- steps of the thread that holds (or takes) the build lock and writes `lock`, `active` or the
live pointer: nobody else is in a locked section -/
theorem Inv.classBC {s s' : St} {t : Nat} {th0 th' : Thread} (hI : Inv hash s)
    (hth : s.threads[t]? = some th0) (hthr : s'.threads = s.threads.set t th')
    (hown : s.lock = some t ∨ s.lock = none) (hown' : s'.lock = some t ∨ s'.lock = none)
    (hc : s.cur ≤ s'.cur) (hne : s'.cur ≠ s.cur → ∀ p, p ≤ s.cur → p ≠ s'.cur)
    (hf : ∀ p k, hasF hash s p k = true → hasF hash s' p k = true)
    (hcur : s'.cur < s'.filters.length)
    (hact : s'.active = true → ∀ k, k ∈ s'.store → covered hash s' k)
    (hself : TI hash s' t th') : Inv hash s' where
  cur := hcur
  act := hact
  thr := by
    intro u thu hu
    rw [hthr] at hu
    by_cases hut : u = t
    · subst hut
      rw [threads_set_self hth] at hu
      cases hu; exact hself
    · rw [threads_set_other hut] at hu
      have hTu := hI.thr u thu hu
      have hnl : thu.pc.locked = false := by
        cases hl : thu.pc.locked with
        | false => rfl
        | true =>
          have := hTu.lock.1 hl
          rcases hown with h | h <;> rw [h] at this
          · cases this; exact absurd rfl hut
          · cases this
      refine hTu.unlocked hnl ?_ hc hne hf
      rcases hown' with h | h <;> rw [h]
      · intro e; cases e; exact hut rfl
      · simp
  lk := by
    intro u hu
    rw [hthr]
    rcases hown' with h | h <;> rw [h] at hu
    · cases hu; exact ⟨th', threads_set_self hth⟩
    · cases hu

end C02.Conc
