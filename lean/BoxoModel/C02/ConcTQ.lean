import BoxoModel.C02.Model
import BoxoModel.Lib.Steps
/-
C02 — small-step model of `tqcache` (blockstore/twoqueue_cache.go): cache lookup BEFORE the per-key
RW lock, readers / writers, PutMany's multi-lock.  One event = one access to shared state:

  Has / Get / GetSize     qQuery   b.queryCache(key)            conclusive hit → return
                          rLock    b.lock(key, false)           (blocks while a writer holds the key)
                          rRead    b.blockstore.Has/Get/GetSize
                          rCache   b.cacheHave / b.cacheSize
                          rUnlock  deferred b.unlock(key, false)
  Put / DeleteBlock       qQuery   b.queryCache(key)            Put: cached "have" → return; Delete: cached "absent" → return
                          wLock    b.lock(key, true)            (blocks while readers or a writer hold the key)
                          wWrite   b.blockstore.Put / DeleteBlock
                          wCache   b.cacheSize / b.cacheHave(false)
                          wUnlock  deferred b.unlock(key, true)
  PutMany                 mQuery   queryCache per block (filter), then sortAndDedup (modelled by `canon`: sorted by key,
                                   duplicate-free; the real order is by multihash bytes — any fixed total order)
                          mLock    b.lock(key, true) per key, in order
                          mWrite   b.blockstore.PutMany(good)
                          mCache   b.cacheSize per key
                          mUnlock  deferred unlock per key
  the 2Q cache            evict k  any entry may disappear at any time (arbitrary eviction policy)

The per-key lock is the list of reader thread ids plus an optional writer thread id; the refcounted
lock table (`lks`, `lklk`) that creates these locks on demand is not modelled.  The backing store is
an atomic map (store errors are not modelled here).  Ghost: per reader `just` — at one of its own
steps its answer agreed with the store, or the key was *dirty* (a writer holding the key's lock had
written the store and not yet updated the cache, i.e. had not returned).  Core-only.
-/
namespace C02.TQC
open C02

inductive RKind where
  | has | get | size
  deriving Repr, DecidableEq

inductive Prog where
  | read (kind : RKind) (k : Nat)
  | put (k : Nat)
  | del (k : Nat)
  | putMany (ks : List Nat)
  deriving Repr, DecidableEq

inductive PC where
  | qQuery
  | rLock | rRead | rCache (present : Bool) | rUnlock (present : Bool)
  | wLock | wWrite | wCache | wUnlock
  | mQuery (todo good : List Nat) | mLock (todo held : List Nat) | mWrite (held : List Nat)
  | mCache (todo held : List Nat) | mUnlock (todo : List Nat)
  | done (present : Bool)
  deriving Repr, DecidableEq

structure Thread where
  prog : Prog
  pc : PC
  just : Bool := false     -- ghost
  deriving Repr

structure St where
  store : List Nat := []
  cache : Nat → Option Entry := fun _ => none
  rholders : Nat → List Nat := fun _ => []
  writer : Nat → Option Nat := fun _ => none
  threads : List Thread := []

inductive Ev where
  | spawn (p : Prog)
  | step (t : Nat)
  | evict (k : Nat)
  deriving Repr, DecidableEq

/-- the conclusive answers of the cache, per method -/
def hit : RKind → Option Entry → Option Bool
  | .has, some e => some e.isHave
  | .get, some (.have false) => some false
  | .size, some (.have false) => some false
  | .size, some (.size _) => some true
  | _, _ => none

def firstPC : Prog → PC
  | .putMany ks => .mQuery ks []
  | _ => .qQuery

/-- is the thread at `pc` (running `prog`) between its store write and its cache update of key `k`? -/
def dirtyAt (prog : Prog) (k : Nat) : PC → Bool
  | .wCache => match prog with
    | .put j | .del j => j == k
    | _ => false
  | .mCache todo _ => todo.contains k
  | _ => false

def dirty (s : St) (k : Nat) : Bool :=
  match s.writer k with
  | some t => match s.threads[t]? with
    | some th => dirtyAt th.prog k th.pc
    | none => false
  | none => false

def present (s : St) (k : Nat) : Bool := s.store.contains k

def setThread (s : St) (t : Nat) (th : Thread) : St := { s with threads := s.threads.set t th }

def upd {α : Type} (f : Nat → α) (k : Nat) (v : α) : Nat → α := fun j => if j = k then v else f j

/-- what a reader caches: `cacheHave(has)` for Has, `cacheHave(false)` / `cacheSize(len)` for Get and GetSize -/
def readEntry (sz : Nat → Nat) (kind : RKind) (k : Nat) (p : Bool) : Entry :=
  match kind, p with
  | .has, b => .have b
  | _, false => .have false
  | _, true => .size (sz k)

def stepThread (sz : Nat → Nat) (s : St) (t : Nat) (th : Thread) : Option St :=
  let go (pc : PC) (s' : St) (j : Bool) : Option St := some (setThread s' t { th with pc := pc, just := th.just || j })
  match th.prog, th.pc with
  -- readers
  | .read kind k, .qQuery =>
    match hit kind (s.cache k) with
    | some a => go (.done a) s (a == present s k || dirty s k)
    | none => go .rLock s false
  | .read _ k, .rLock => if (s.writer k).isNone then go .rRead { s with rholders := upd s.rholders k (t :: s.rholders k) } false else none
  | .read _ k, .rRead => go (.rCache (present s k)) s true
  | .read kind k, .rCache p => go (.rUnlock p) { s with cache := upd s.cache k (some (readEntry sz kind k p)) } false
  | .read _ k, .rUnlock p => go (.done p) { s with rholders := upd s.rholders k ((s.rholders k).filter (· != t)) } false
  -- Put / DeleteBlock
  | .put k, .qQuery =>
    match s.cache k with
    | some e => if e.isHave then go (.done true) s false else go .wLock s false
    | none => go .wLock s false
  | .del k, .qQuery =>
    match s.cache k with
    | some (.have false) => go (.done false) s false
    | _ => go .wLock s false
  | .put k, .wLock | .del k, .wLock =>
    if (s.writer k).isNone && (s.rholders k).isEmpty then go .wWrite { s with writer := upd s.writer k (some t) } false else none
  | .put k, .wWrite => go .wCache { s with store := if s.store.contains k then s.store else k :: s.store } false
  | .del k, .wWrite => go .wCache { s with store := s.store.filter (· != k) } false
  | .put k, .wCache => go .wUnlock { s with cache := upd s.cache k (some (.size (sz k))) } false
  | .del k, .wCache => go .wUnlock { s with cache := upd s.cache k (some (.have false)) } false
  | .put k, .wUnlock => go (.done true) { s with writer := upd s.writer k none } false
  | .del k, .wUnlock => go (.done false) { s with writer := upd s.writer k none } false
  -- PutMany
  | .putMany _, .mQuery (k :: todo) good =>
    let keep := match s.cache k with
      | some e => !e.isHave
      | none => true
    go (.mQuery todo (if keep then good ++ [k] else good)) s false
  | .putMany _, .mQuery [] good =>
    if good.isEmpty then go (.done true) s false else go (.mLock (canon good) []) s false
  | .putMany _, .mLock (k :: todo) held =>
    if (s.writer k).isNone && (s.rholders k).isEmpty then go (.mLock todo (held ++ [k])) { s with writer := upd s.writer k (some t) } false else none
  | .putMany _, .mLock [] held => go (.mWrite held) s false
  | .putMany _, .mWrite held =>
    go (.mCache held held) { s with store := held.foldl (fun st k => if st.contains k then st else k :: st) s.store } false
  | .putMany _, .mCache (k :: todo) held => go (.mCache todo held) { s with cache := upd s.cache k (some (.size (sz k))) } false
  | .putMany _, .mCache [] held => go (.mUnlock held) s false
  | .putMany _, .mUnlock (k :: todo) => go (.mUnlock todo) { s with writer := upd s.writer k none } false
  | .putMany _, .mUnlock [] => go (.done true) s false
  | _, _ => none

def step (sz : Nat → Nat) (s : St) : Ev → Option St
  | .spawn p => some { s with threads := s.threads ++ [{ prog := p, pc := firstPC p }] }
  | .evict k => some { s with cache := upd s.cache k none }
  | .step t => match s.threads[t]? with
    | some th => stepThread sz s t th
    | none => none

/-- initial states: any store content, empty cache, no locks, no threads -/
def init (s : St) : Prop :=
  s.cache = (fun _ => none) ∧ s.rholders = (fun _ => []) ∧ s.writer = (fun _ => none) ∧ s.threads = []

/-! ### the accesses the program counters stand for (names of the T-gen-4 `steps` extractor) -/

def accessOf (prog : Prog) : PC → Option String
  | .qQuery | .mQuery _ _ => some "cache.Get"
  | .rLock => some "lock.R"
  | .rUnlock _ => some "defer unlock.R"
  | .wLock | .mLock _ _ => some "lock.W"
  | .wUnlock | .mUnlock _ => some "defer unlock.W"
  | .rRead => match prog with
    | .read .has _ => some "store.Has"
    | .read .get _ => some "store.Get"
    | .read .size _ => some "store.GetSize"
    | _ => none
  | .wWrite => match prog with
    | .put _ => some "store.Put"
    | .del _ => some "store.Delete"
    | _ => none
  | .mWrite _ => some "store.PutMany"
  | .rCache true => match prog with
    | .read .has _ => some "cache.AddHave"
    | _ => some "cache.AddSize"
  | .rCache false => match prog with
    | .read .has _ => some "cache.AddHave"
    | _ => some "cache.AddHave(false)"
  | .wCache => match prog with
    | .del _ => some "cache.AddHave(false)"
    | _ => some "cache.AddSize"
  | .mCache _ _ => some "cache.AddSize"
  | .done _ => none

/-- program counters of the tqcache methods in SOURCE order (deferred unlock where the `defer` stands) -/
def pcsRead : List PC := [.qQuery, .rLock, .rUnlock true, .rRead, .rCache false, .rCache true]
def pcsWrite : List PC := [.qQuery, .wLock, .wUnlock, .wWrite, .wCache]
def pcsPutMany : List PC := [.mQuery [] [], .mLock [] [], .mUnlock [], .mWrite [], .mCache [] []]

def accesses (prog : Prog) (pcs : List PC) : List String := (pcs.filterMap (accessOf prog)).eraseDups

end C02.TQC
