import BoxoModel.C02.LemmasTQ
/-!
C02 — the exact transcription of golang-lru's 2Q (`TwoQ.ops`, used by the driver) is a lawful cache,
so the refinement theorems apply to it.
-/
namespace C02

namespace LRU
variable {V : Type}

theorem contains_iff {l : LRU V} {k : Nat} : l.contains k = true ↔ ∃ v, (k, v) ∈ l := by
  simp only [contains, List.any_eq_true, beq_iff_eq]
  constructor
  · rintro ⟨⟨k', v⟩, hm, rfl⟩; exact ⟨v, hm⟩
  · rintro ⟨v, hm⟩; exact ⟨(k, v), hm, rfl⟩

theorem contains_false_iff {l : LRU V} {k : Nat} : l.contains k = false ↔ ∀ x, x ∈ l → x.1 ≠ k := by
  constructor
  · intro h x hx he
    have : l.contains k = true := contains_iff.2 ⟨x.2, by cases x; cases he; exact hx⟩
    simp [h] at this
  · intro h
    cases hc : l.contains k with
    | false => rfl
    | true =>
      obtain ⟨v, hm⟩ := contains_iff.1 hc
      exact absurd rfl (h _ hm)

theorem mem_remove {l : LRU V} {k : Nat} {x : Nat × V} : x ∈ l.remove k ↔ x ∈ l ∧ x.1 ≠ k := by
  simp [remove]

theorem peek_some {l : LRU V} {k : Nat} {v : V} (h : l.peek k = some v) : (k, v) ∈ l := by
  simp only [peek, Option.map_eq_some_iff] at h
  obtain ⟨⟨k', v'⟩, hf, rfl⟩ := h
  have := List.find?_some hf
  have hm := List.mem_of_find?_eq_some hf
  simp at this
  subst this
  exact hm

theorem mem_add {size : Nat} {l : LRU V} {k : Nat} {v : V} {x : Nat × V} (h : x ∈ add size l k v) :
    x = (k, v) ∨ (x ∈ l ∧ x.1 ≠ k) := by
  unfold add at h
  split at h
  · rcases List.mem_cons.1 h with h | h
    · exact Or.inl h
    · exact Or.inr (mem_remove.1 h)
  · rename_i hc
    have hc' : l.contains k = false := by cases h' : l.contains k <;> simp_all
    have hne := contains_false_iff.1 hc'
    have hx : x ∈ (k, v) :: l := by
      simp only at h
      split at h
      · exact List.dropLast_subset _ h
      · exact h
    rcases List.mem_cons.1 hx with h | h
    · exact Or.inl h
    · exact Or.inr ⟨h, hne x h⟩

theorem mem_touch {l : LRU V} {k : Nat} {x : Nat × V} (h : x ∈ l.touch k) : x ∈ l := by
  unfold touch at h
  split at h
  · rename_i v hp
    rcases List.mem_cons.1 h with h | h
    · exact h ▸ peek_some hp
    · exact (mem_remove.1 h).1
  · exact h

end LRU

namespace TwoQ

def ents (c : TwoQ) : List (Nat × Entry) := c.frequent ++ c.recent

/-- representation invariant: no key is in both the frequent and the recent list -/
def wf (c : TwoQ) : Prop := ∀ x y, x ∈ c.frequent → y ∈ c.recent → x.1 ≠ y.1

theorem ensureSpace_frequent {c : TwoQ} {r : Bool} {x : Nat × Entry}
    (h : x ∈ (c.ensureSpace r).frequent) : x ∈ c.frequent := by
  unfold ensureSpace at h
  simp only at h
  split at h
  · exact h
  · split at h
    · split at h <;> exact h
    · exact List.dropLast_subset _ h

theorem ensureSpace_recent {c : TwoQ} {r : Bool} {x : Nat × Entry}
    (h : x ∈ (c.ensureSpace r).recent) : x ∈ c.recent := by
  unfold ensureSpace at h
  simp only at h
  split at h
  · exact h
  · split at h
    · split at h
      · exact List.dropLast_subset _ h
      · exact h
    · exact h

theorem ensureSpace_size (c : TwoQ) (r : Bool) : (c.ensureSpace r).size = c.size := by
  unfold ensureSpace
  simp only
  split
  · rfl
  · split
    · split <;> rfl
    · rfl

theorem get_some (c : TwoQ) (k : Nat) (e : Entry) (h : (get c k).2 = some e) : (k, e) ∈ ents c := by
  unfold get at h
  split at h
  · exact List.mem_append_left _ (LRU.peek_some h)
  · split at h
    · rename_i v hp
      simp only [Option.some.injEq] at h
      subst h
      exact List.mem_append_right _ (LRU.peek_some hp)
    · simp at h

theorem get_ents (c : TwoQ) (k : Nat) (x : Nat × Entry) (h : x ∈ ents (get c k).1) : x ∈ ents c := by
  unfold get at h
  split at h
  · rcases List.mem_append.1 h with h | h
    · exact List.mem_append_left _ (LRU.mem_touch h)
    · exact List.mem_append_right _ h
  · split at h
    · rename_i v hp
      rcases List.mem_append.1 h with h | h
      · rcases LRU.mem_add h with h | h
        · exact h ▸ List.mem_append_right _ (LRU.peek_some hp)
        · exact List.mem_append_left _ h.1
      · exact List.mem_append_right _ (LRU.mem_remove.1 h).1
    · exact h

theorem get_wf (c : TwoQ) (k : Nat) (hw : wf c) : wf (get c k).1 := by
  unfold get
  split
  · intro x y hx hy
    exact hw x y (LRU.mem_touch hx) hy
  · split
    · rename_i v hp
      intro x y hx hy
      have hy' := LRU.mem_remove.1 hy
      rcases LRU.mem_add hx with h | h
      · subst h; exact fun he => hy'.2 he.symm
      · exact hw x y h.1 hy'.1
    · exact hw

theorem add_ents (c : TwoQ) (k : Nat) (e : Entry) (x : Nat × Entry) (hw : wf c)
    (h : x ∈ ents (add c k e)) : x = (k, e) ∨ (x ∈ ents c ∧ x.1 ≠ k) := by
  unfold add at h
  split at h
  · -- already frequent: value replaced in place
    rename_i hf
    obtain ⟨v, hv⟩ := LRU.contains_iff.1 hf
    rcases List.mem_append.1 h with h | h
    · rcases LRU.mem_add h with h | h
      · exact Or.inl h
      · exact Or.inr ⟨List.mem_append_left _ h.1, h.2⟩
    · exact Or.inr ⟨List.mem_append_right _ h, fun he => hw _ _ hv h he.symm⟩
  · rename_i hf
    have hf' : c.frequent.contains k = false := by cases h' : c.frequent.contains k <;> simp_all
    have hnf := LRU.contains_false_iff.1 hf'
    split at h
    · -- recent: promoted
      rcases List.mem_append.1 h with h | h
      · rcases LRU.mem_add h with h | h
        · exact Or.inl h
        · exact Or.inr ⟨List.mem_append_left _ h.1, h.2⟩
      · have := LRU.mem_remove.1 h
        exact Or.inr ⟨List.mem_append_right _ this.1, this.2⟩
    · rename_i hr
      have hr' : c.recent.contains k = false := by cases h' : c.recent.contains k <;> simp_all
      have hnr := LRU.contains_false_iff.1 hr'
      split at h
      · -- recently evicted: straight to frequent
        rcases List.mem_append.1 h with h | h
        · rcases LRU.mem_add h with h | h
          · exact Or.inl h
          · exact Or.inr ⟨List.mem_append_left _ (ensureSpace_frequent h.1), h.2⟩
        · have := ensureSpace_recent h
          exact Or.inr ⟨List.mem_append_right _ this, hnr x this⟩
      · -- new key: recent list
        rcases List.mem_append.1 h with h | h
        · have := ensureSpace_frequent h
          exact Or.inr ⟨List.mem_append_left _ this, hnf x this⟩
        · rcases LRU.mem_add h with h | h
          · exact Or.inl h
          · exact Or.inr ⟨List.mem_append_right _ (ensureSpace_recent h.1), h.2⟩

theorem add_wf (c : TwoQ) (k : Nat) (e : Entry) (hw : wf c) : wf (add c k e) := by
  unfold add
  split
  · rename_i hf
    obtain ⟨v, hv⟩ := LRU.contains_iff.1 hf
    intro x y hx hy
    rcases LRU.mem_add hx with h | h
    · subst h; exact hw (k, v) y hv hy
    · exact hw x y h.1 hy
  · rename_i hf
    have hf' : c.frequent.contains k = false := by cases h' : c.frequent.contains k <;> simp_all
    have hnf := LRU.contains_false_iff.1 hf'
    split
    · intro x y hx hy
      have hy' := LRU.mem_remove.1 hy
      rcases LRU.mem_add hx with h | h
      · subst h; exact fun he => hy'.2 he.symm
      · exact hw x y h.1 hy'.1
    · rename_i hr
      have hr' : c.recent.contains k = false := by cases h' : c.recent.contains k <;> simp_all
      have hnr := LRU.contains_false_iff.1 hr'
      split
      · intro x y hx hy
        have hy' := ensureSpace_recent hy
        rcases LRU.mem_add hx with h | h
        · subst h; exact fun he => hnr y hy' he.symm
        · exact hw x y (ensureSpace_frequent h.1) hy'
      · intro x y hx hy
        have hx' := ensureSpace_frequent hx
        rcases LRU.mem_add hy with h | h
        · subst h; exact hnf x hx'
        · exact hw x y hx' (ensureSpace_recent h.1)

theorem remove_ents (c : TwoQ) (k : Nat) (x : Nat × Entry) (hw : wf c)
    (h : x ∈ ents (remove c k)) : x ∈ ents c ∧ x.1 ≠ k := by
  unfold remove at h
  split at h
  · rename_i hf
    obtain ⟨v, hv⟩ := LRU.contains_iff.1 hf
    rcases List.mem_append.1 h with h | h
    · have := LRU.mem_remove.1 h
      exact ⟨List.mem_append_left _ this.1, this.2⟩
    · exact ⟨List.mem_append_right _ h, fun he => hw _ _ hv h he.symm⟩
  · rename_i hf
    have hf' : c.frequent.contains k = false := by cases h' : c.frequent.contains k <;> simp_all
    have hnf := LRU.contains_false_iff.1 hf'
    split at h
    · rcases List.mem_append.1 h with h | h
      · exact ⟨List.mem_append_left _ h, hnf x h⟩
      · have := LRU.mem_remove.1 h
        exact ⟨List.mem_append_right _ this.1, this.2⟩
    · rename_i hr
      have hr' : c.recent.contains k = false := by cases h' : c.recent.contains k <;> simp_all
      have hnr := LRU.contains_false_iff.1 hr'
      rcases List.mem_append.1 h with h | h
      · exact ⟨List.mem_append_left _ h, hnf x h⟩
      · exact ⟨List.mem_append_right _ h, hnr x h⟩

theorem remove_wf (c : TwoQ) (k : Nat) (hw : wf c) : wf (remove c k) := by
  unfold remove
  split
  · intro x y hx hy; exact hw x y (LRU.mem_remove.1 hx).1 hy
  · split
    · intro x y hx hy; exact hw x y hx (LRU.mem_remove.1 hy).1
    · exact hw

/-- golang-lru's 2Q, as transcribed, is a lawful cache -/
def lawful : Lawful TwoQ.ops where
  wf := wf
  ents := ents
  get_some := fun c k e _ h => get_some c k e h
  get_wf := fun c k hw => get_wf c k hw
  get_ents := fun c k x _ h => get_ents c k x h
  add_wf := fun c k e hw => add_wf c k e hw
  add_ents := fun c k e x hw h => add_ents c k e x hw h
  remove_wf := fun c k hw => remove_wf c k hw
  remove_ents := fun c k x hw h => remove_ents c k x hw h

theorem wf_new (n : Nat) : wf (TwoQ.new n) := by
  intro x y hx; simp [TwoQ.new] at hx

theorem ents_new (n : Nat) : ents (TwoQ.new n) = [] := by simp [ents, TwoQ.new]

end TwoQ

end C02
