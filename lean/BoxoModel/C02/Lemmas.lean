import BoxoModel.C02.Model
/-!
C02 — helper lemmas for the sequential refinement (`Props/C02.lean` has the theorems).
Core Lean only.
-/
namespace C02

/-! ## sorted duplicate-free lists -/

theorem mem_ins {a k : Nat} {l : List Nat} : a ∈ ins k l ↔ a = k ∨ a ∈ l := by
  induction l with
  | nil => simp [ins]
  | cons x xs ih =>
    simp only [ins]
    split
    · simp
    · split
      · rename_i h; subst h; simp
      · simp [ih]; grind

theorem mem_canon {a : Nat} {l : List Nat} : a ∈ canon l ↔ a ∈ l := by
  induction l with
  | nil => simp [canon]
  | cons x xs ih => simp only [canon, List.foldr_cons] at ih ⊢; rw [mem_ins, ih]; simp

theorem mem_insBy {rank : Nat → Nat} {a k : Nat} {l : List Nat} : a ∈ insBy rank k l ↔ a = k ∨ a ∈ l := by
  induction l with
  | nil => simp [insBy]
  | cons x xs ih =>
    simp only [insBy]
    split
    · rename_i h; subst h; simp
    · split
      · simp
      · simp [ih]; grind

theorem mem_sortDedupBy {rank : Nat → Nat} {a : Nat} {l : List Nat} : a ∈ sortDedupBy rank l ↔ a ∈ l := by
  induction l with
  | nil => simp [sortDedupBy]
  | cons x xs ih => simp only [sortDedupBy, List.foldr_cons] at ih ⊢; rw [mem_insBy, ih]; simp

theorem sorted_ins {k : Nat} {l : List Nat} (h : l.Pairwise (· < ·)) : (ins k l).Pairwise (· < ·) := by
  induction l with
  | nil => simp [ins]
  | cons x xs ih =>
    simp only [ins]
    rw [List.pairwise_cons] at h
    split
    · rename_i hk
      refine List.pairwise_cons.2 ⟨?_, List.pairwise_cons.2 h⟩
      intro a ha
      rcases List.mem_cons.1 ha with rfl | ha
      · exact hk
      · exact Nat.lt_trans hk (h.1 a ha)
    · split
      · exact List.pairwise_cons.2 h
      · refine List.pairwise_cons.2 ⟨?_, ih h.2⟩
        intro a ha
        rcases mem_ins.1 ha with rfl | ha
        · omega
        · exact h.1 a ha

theorem sorted_canon (l : List Nat) : (canon l).Pairwise (· < ·) := by
  induction l with
  | nil => simp [canon]
  | cons x xs ih => simp only [canon, List.foldr_cons] at ih ⊢; exact sorted_ins ih

/-- a strictly sorted list is determined by its members -/
theorem sorted_ext : ∀ {l₁ l₂ : List Nat}, l₁.Pairwise (· < ·) → l₂.Pairwise (· < ·) →
    (∀ a, a ∈ l₁ ↔ a ∈ l₂) → l₁ = l₂
  | [], [], _, _, _ => rfl
  | [], y :: ys, _, _, h => by have := (h y).2 (by simp); simp at this
  | x :: xs, [], _, _, h => by have := (h x).1 (by simp); simp at this
  | x :: xs, y :: ys, h₁, h₂, h => by
    rw [List.pairwise_cons] at h₁ h₂
    have hxy : x = y := by
      have hx := (h x).1 (by simp)
      have hy := (h y).2 (by simp)
      rcases List.mem_cons.1 hx with e | hx
      · exact e
      · rcases List.mem_cons.1 hy with e | hy
        · exact e.symm
        · have := h₂.1 x hx; have := h₁.1 y hy; omega
    subst hxy
    congr 1
    apply sorted_ext h₁.2 h₂.2
    intro a
    constructor
    · intro ha
      have := (h a).1 (List.mem_cons_of_mem _ ha)
      rcases List.mem_cons.1 this with e | h'
      · have := h₁.1 a ha; omega
      · exact h'
    · intro ha
      have := (h a).2 (List.mem_cons_of_mem _ ha)
      rcases List.mem_cons.1 this with e | h'
      · have := h₂.1 a ha; omega
      · exact h'

theorem canon_congr {l₁ l₂ : List Nat} (h : ∀ a, a ∈ l₁ ↔ a ∈ l₂) : canon l₁ = canon l₂ :=
  sorted_ext (sorted_canon _) (sorted_canon _) (fun a => by rw [mem_canon, mem_canon]; exact h a)

/-! ## the uncached store -/

namespace Base

/-- same set of keys -/
def Equiv (b b' : Base) : Prop := ∀ k : Nat, k ∈ b.keys ↔ k ∈ b'.keys

theorem Equiv.refl (b : Base) : Equiv b b := fun _ => Iff.rfl
theorem Equiv.symm {b b' : Base} (h : Equiv b b') : Equiv b' b := fun k => (h k).symm
theorem Equiv.trans {a b c : Base} (h : Equiv a b) (h' : Equiv b c) : Equiv a c := fun k => (h k).trans (h' k)

theorem present_some (b : Base) (k : Nat) : b.present (some k) = true ↔ k ∈ b.keys := by
  simp [present]

theorem Equiv.present {b b' : Base} (h : Equiv b b') (k : Key) : b.present k = b'.present k := by
  cases k with
  | none => rfl
  | some k =>
    have := h k
    cases h1 : b.present (some k) <;> cases h2 : b'.present (some k) <;> simp_all [Base.present]

theorem mem_insert {b : Base} {k a : Nat} : a ∈ (b.insert k).keys ↔ a = k ∨ a ∈ b.keys := by
  unfold insert
  split
  · rename_i h; simp at h; constructor
    · exact Or.inr
    · rintro (rfl | h') <;> assumption
  · simp

theorem mem_erase {b : Base} {k a : Nat} : a ∈ (b.erase k).keys ↔ a ≠ k ∧ a ∈ b.keys := by
  simp [erase]; exact And.comm

theorem mem_foldl_insert {ks : List Nat} {b : Base} {a : Nat} :
    a ∈ (ks.foldl insert b).keys ↔ a ∈ ks ∨ a ∈ b.keys := by
  induction ks generalizing b with
  | nil => simp
  | cons k ks ih => simp only [List.foldl_cons, ih, mem_insert, List.mem_cons]; grind

theorem insert_equiv_of_mem {b : Base} {k : Nat} (h : k ∈ b.keys) : Equiv (b.insert k) b := by
  intro a; rw [mem_insert]; constructor
  · rintro (rfl | h') <;> assumption
  · exact Or.inr

theorem erase_equiv_of_not_mem {b : Base} {k : Nat} (h : k ∉ b.keys) : Equiv (b.erase k) b := by
  intro a; rw [mem_erase]; constructor
  · exact And.right
  · intro ha; exact ⟨fun e => h (e ▸ ha), ha⟩

/-- `Base.step` only looks at the set of keys -/
theorem step_equiv (sz : Nat → Nat) {b b' : Base} (h : Equiv b b') (op : Op) :
    Equiv (step sz b op).1 (step sz b' op).1 ∧ (step sz b op).2 = (step sz b' op).2 := by
  have hp := h.present
  cases op with
  | has k f => simp [step, hp k, h]
  | get k f => simp [step, hp k, h]
  | view k f => simp [step, hp k, h]
  | size k f => simp [step, hp k, h]
  | del k f =>
    cases f <;> cases k <;> simp [step, h]
    intro a; simp [mem_erase, h a]
  | put k f =>
    cases f <;> simp [step, h]
    intro a; simp [mem_insert, h a]
  | putMany ks f =>
    cases f <;> simp [step, h]
    intro a; simp [mem_foldl_insert, h a]
  | enum cut err => simp [step, h, canon_congr h]
  | build c e => simp [step, h]
  | rebuild c e => simp [step, h]

end Base

/-! ## what a layer may answer -/

def Op.failing : Op → Bool
  | .has _ f | .get _ f | .size _ f | .view _ f | .del _ f | .put _ f | .putMany _ f => f
  | _ => false

def Op.clear : Op → Op
  | .has k _ => .has k false
  | .get k _ => .get k false
  | .size k _ => .size k false
  | .view k _ => .view k false
  | .del k _ => .del k false
  | .put k _ => .put k false
  | .putMany ks _ => .putMany ks false
  | op => op

def Op.maint : Op → Bool
  | .build _ _ | .rebuild _ _ => true
  | _ => false

/-- The answer `o` of a cached stack to `op`, when the uncached store is `b`: it is the uncached
store's answer; or, when a failure was injected for this call, it may instead be the answer the
fault-free call would give, provided that call would not change the store (the cache answered
without reaching the failing store).  The Bloom-only maintenance calls are unconstrained. -/
def OutOK (sz : Nat → Nat) (b : Base) (op : Op) (o : Out) : Prop :=
  op.maint = true ∨ o = (Base.step sz b op).2 ∨
    (op.failing = true ∧ o = (Base.step sz b op.clear).2 ∧ Base.Equiv (Base.step sz b op.clear).1 b)

theorem Op.clear_of_not_failing {op : Op} (h : op.failing = false) : op.clear = op := by
  cases op <;> simp_all [Op.failing, Op.clear]

/-- a fault-free answer of a call that leaves the store alone is always acceptable -/
theorem OutOK.of_clear {sz : Nat → Nat} {b : Base} {op : Op} {o : Out}
    (ho : o = (Base.step sz b op.clear).2) (hs : Base.Equiv (Base.step sz b op.clear).1 b) :
    OutOK sz b op o := by
  cases hf : op.failing with
  | false => rw [Op.clear_of_not_failing hf] at ho; exact Or.inr (Or.inl ho)
  | true => exact Or.inr (Or.inr ⟨hf, ho, hs⟩)

theorem OutOK.transparent {sz : Nat → Nat} {b : Base} {op : Op} {o : Out}
    (h : OutOK sz b op o) (ht : op.transparent = true) : o = (Base.step sz b op).2 := by
  rcases h with h | h | ⟨hf, _, _⟩
  · cases op <;> simp_all [Op.maint, Op.transparent]
  · exact h
  · cases op <;> simp_all [Op.failing, Op.transparent]

/-- a failing call never changes the uncached store -/
theorem Base.step_failing (sz : Nat → Nat) (b : Base) {op : Op} (h : op.failing = true) :
    (Base.step sz b op).1 = b := by
  cases op <;> simp_all [Op.failing, Base.step]

theorem Base.step_maint (sz : Nat → Nat) (b : Base) {op : Op} (h : op.maint = true) :
    (Base.step sz b op).1 = b := by
  cases op <;> simp_all [Op.maint, Base.step]

/-- `step` on `σ` simulates the uncached store through the relation `R` -/
structure Refines (sz : Nat → Nat) {σ : Type} (step : StepFn σ) (R : σ → Base → Prop) : Prop where
  congr : ∀ s b b', R s b → Base.Equiv b b' → R s b'
  sim : ∀ s b op, R s b → R (step s op).1 (Base.step sz b op).1 ∧ OutOK sz b op (step s op).2

/-- the uncached store refines itself (up to the representation of the key set) -/
theorem Base.refines (sz : Nat → Nat) : Refines sz (Base.step sz) (fun s b => Base.Equiv s b) where
  congr := fun _ _ _ h h' => h.trans h'
  sim := fun s b op h => by
    have := Base.step_equiv sz h op
    exact ⟨this.1, Or.inr (Or.inl this.2)⟩

/-! ## running op lists: outputs of transparent ops coincide -/

/-- blank the answers that are not required to coincide (injected faults, maintenance calls) -/
def mask : List Op → List Out → List (Option Out)
  | op :: ops, o :: os => (if op.transparent then some o else none) :: mask ops os
  | _, _ => []

theorem Refines.run {sz : Nat → Nat} {σ : Type} {step : StepFn σ} {R : σ → Base → Prop}
    (h : Refines sz step R) (ops : List Op) : ∀ (s : σ) (b : Base), R s b →
      mask ops (runOuts step s ops) = mask ops (runOuts (Base.step sz) b ops) ∧
      R (runState step s ops) (runState (Base.step sz) b ops) := by
  induction ops with
  | nil => intro s b hr; exact ⟨rfl, hr⟩
  | cons op ops ih =>
    intro s b hr
    obtain ⟨hr', ho⟩ := h.sim s b op hr
    obtain ⟨h1, h2⟩ := ih _ _ hr'
    refine ⟨?_, h2⟩
    simp only [runOuts, mask]
    rw [h1]
    cases ht : op.transparent with
    | false => simp
    | true => simp [ho.transparent ht]

end C02
