import BoxoModel.C02.LemmasTQC2
/-! C02 — tqcache small-step model: every event preserves the invariant. -/
namespace C02.TQC
open C02

theorem nodup_canon (l : List Nat) : (canon l).Nodup :=
  (sorted_canon l).imp (fun h => Nat.ne_of_lt h)

theorem holdsW_read {kind : RKind} {k j : Nat} {pc : PC} : holdsW (.read kind k) pc j = false := by
  cases pc <;> rfl

/-- TI of a thread at a pc that carries no obligation -/
theorem TI.trivial' {s : St} {t : Nat} {th : Thread}
    (hpk : progOK th.prog th.pc = true) (hold : ∀ k, holdsW th.prog th.pc k = false) (hrs : th.pc.rsec = false)
    (hne : (∀ p, th.pc ≠ .rCache p) ∧ (∀ p, th.pc ≠ .rUnlock p) ∧ th.pc ≠ .wCache ∧ (∀ a b, th.pc ≠ .mCache a b) ∧ (∀ a, th.pc ≠ .mWrite a) ∧
      (∀ a, th.pc ≠ .mUnlock a) ∧ (∀ a b, th.pc ≠ .mLock a b))
    (hjs : ∀ a, th.pc = .done a → readKey th.prog ≠ none → th.just = true) : TI s t th := by
  refine ⟨hpk, ?_, ?_, ?_, ?_, ?_, ?_, ?_, ?_, ?_, hjs, ?_⟩
  · intro k hk; rw [hold k] at hk; cases hk
  · intro h; rw [hrs] at h; cases h
  · intro p k hp; exact absurd hp (hne.1 p)
  · intro hp; exact absurd hp hne.2.2.1
  · intro a b hp; exact absurd hp (hne.2.2.2.1 a b)
  · intro a b hp; exact absurd hp (hne.2.2.2.2.2.2 a b)
  · intro a hp; exact absurd hp (hne.2.2.2.2.1 a)
  · intro a b hp; exact absurd hp (hne.2.2.2.1 a b)
  · intro a hp; exact absurd hp (hne.2.2.2.2.2.1 a)
  · intro p hp; rcases hp with hp | hp
    · exact absurd hp (hne.1 p)
    · exact absurd hp (hne.2.1 p)

theorem Inv.spawn {s : St} (hI : Inv s) (p : Prog) :
    Inv { s with threads := s.threads ++ [{ prog := p, pc := firstPC p }] } := by
  have hlt : ∀ {u : Nat} {x : Thread}, s.threads[u]? = some x → u < s.threads.length := by
    intro u x hu
    cases h : decide (u < s.threads.length) with
    | true => simpa using h
    | false =>
      have : s.threads.length ≤ u := by simpa using h
      rw [List.getElem?_eq_none this] at hu; cases hu
  have keep : ∀ {u : Nat} {x : Thread}, s.threads[u]? = some x →
      (s.threads ++ [({ prog := p, pc := firstPC p } : Thread)])[u]? = some x := by
    intro u x hu; rw [List.getElem?_append_left (hlt hu)]; exact hu
  have hdirty : ∀ k, dirty { s with threads := s.threads ++ [{ prog := p, pc := firstPC p }] } k = dirty s k := by
    intro k
    unfold dirty
    cases hw : s.writer k with
    | none => rfl
    | some w =>
      obtain ⟨thw, h1, _⟩ := hI.wv k w hw
      simp only [hw, h1, keep h1]
  refine ⟨?_, ?_, ?_, hI.ex, ?_⟩
  · intro u thu hu
    have hu' : (s.threads ++ [({ prog := p, pc := firstPC p } : Thread)])[u]? = some thu := hu
    by_cases hul : u < s.threads.length
    · rw [List.getElem?_append_left hul] at hu'
      have h := hI.thr u thu hu'
      exact ⟨h.pk, h.wl, h.rl, h.rc, h.wc, h.mc, h.ml, h.mw, h.mh, h.mu, h.js, h.jr⟩
    · have hge : s.threads.length ≤ u := Nat.le_of_not_lt hul
      rw [List.getElem?_append_right hge] at hu'
      cases hd : u - s.threads.length with
      | zero =>
        rw [hd] at hu'; simp at hu'; subst hu'
        apply TI.trivial'
        · cases p <;> rfl
        · intro k; cases p <;> rfl
        · cases p <;> rfl
        · cases p <;> simp [firstPC]
        · intro a h; cases p <;> simp [firstPC] at h
      | succ n => rw [hd] at hu'; simp at hu'
  · intro k w hw
    obtain ⟨thw, h1, h2⟩ := hI.wv k w hw
    exact ⟨thw, keep h1, h2⟩
  · intro k x hx
    obtain ⟨thx, h1, h2, h3⟩ := hI.rv k x hx
    exact ⟨thx, keep h1, h2, h3⟩
  · intro k e hk
    rw [hdirty k]; exact hI.ci k e hk

theorem Inv.evict {s : St} (hI : Inv s) (k0 : Nat) : Inv { s with cache := upd s.cache k0 none } := by
  refine ⟨?_, hI.wv, hI.rv, hI.ex, ?_⟩
  · intro u thu hu
    have h := hI.thr u thu hu
    exact ⟨h.pk, h.wl, h.rl, h.rc, h.wc, h.mc, h.ml, h.mw, h.mh, h.mu, h.js, h.jr⟩
  · intro k e hk
    have hk' : upd s.cache k0 none k = some e := hk
    by_cases hkk : k = k0
    · subst hkk; rw [upd_same] at hk'; cases hk'
    · rw [upd_other _ _ hkk] at hk'
      exact hI.ci k e hk'

/-- what the other fields of the invariant need when the step leaves `writer`, `rholders`, `store` alone -/
theorem Frame.same {s s' : St} {t : Nat} (hw : s'.writer = s.writer) (hr : s'.rholders = s.rholders) (hs : s'.store = s.store) :
    Frame s s' t :=
  ⟨fun k => Or.inl (by rw [hw]), fun k x _ => by rw [hr], fun k => Or.inl (by simp [present, hs])⟩

theorem Inv.stepRead {sz : Nat → Nat} {s s' : St} {t : Nat} {th : Thread} {kind : RKind} {k : Nat} (hI : Inv s)
    (hth : s.threads[t]? = some th) (hprog : th.prog = .read kind k) (hs : stepThread sz s t th = some s') : Inv s' := by
  obtain ⟨prog0, pc0, just0⟩ := th
  simp only at hprog
  subst hprog
  have hprog : (Thread.mk (.read kind k) pc0 just0).prog = .read kind k := rfl
  have hT := hI.thr t _ hth
  have hpk := hT.pk
  have hnw : ∀ pc j, holdsW (.read kind k) pc j = false := fun pc j => holdsW_read
  unfold stepThread at hs
  simp only at hs
  cases hpc : pc0 with
  | qQuery =>
    simp only [hpc] at hs
    cases hh : hit kind (s.cache k) with
    | none =>
      simp only [hh, Option.some.injEq] at hs; subst hs
      exact hI.localStep (pc' := .rLock) (j := false) hth (hnw _) (by rw [hpc]; rfl) (hnw _) rfl (fun _ => by rw [hprog]; rfl)
        (by rw [hprog]; rfl) (fun _ _ h => by cases h) (fun _ h => by cases h) (by simp)
    | some a =>
      simp only [hh, Option.some.injEq] at hs; subst hs
      refine hI.localStep (pc' := .done a) (j := a == present s k || dirty s k) hth (hnw _) (by rw [hpc]; rfl) (hnw _) rfl
        (fun _ => by rw [hprog]; rfl) (by rw [hprog]; rfl) (fun _ _ h => by cases h) ?_ (by simp)
      intro _ _ _
      -- the cache entry that produced the hit agrees with the store, or the key is dirty
      cases hc : s.cache k with
      | none => rw [hc] at hh; cases kind <;> simp [hit] at hh
      | some e =>
        rw [hc] at hh
        rcases hI.ci k e hc with hagr | hd
        · have := hit_agr hh hagr
          simp [this]
        · simp [hd]
  | rLock =>
    simp only [hpc] at hs
    split at hs
    · rename_i hfree
      have hfree' : s.writer k = none := by simpa using hfree
      simp only [Option.some.injEq] at hs; subst hs
      refine hI.mk_step (th' := mv (Thread.mk (.read kind k) pc0 just0) .rRead false) hth rfl ?_ ?_ ?_ ?_ ?_ ?_
      · refine ⟨fun _ => Or.inl rfl, ?_, fun _ => Or.inl rfl⟩
        intro j x hx
        show x ∈ upd s.rholders k (t :: s.rholders k) j ↔ x ∈ s.rholders j
        by_cases hjk : j = k
        · subst hjk; rw [upd_same]; simp [hx]
        · rw [upd_other _ _ hjk]
      · refine ⟨by rw [show (mv (Thread.mk (.read kind k) pc0 just0) .rRead false).prog = Prog.read kind k from rfl]; rfl, ?_, ?_, ?_, ?_, ?_, ?_, ?_, ?_, ?_, ?_, ?_⟩
        · intro j hj; have := hnw .rRead j; simp [mv] at hj; rw [this] at hj; cases hj
        · intro _ j hj
          have : j = k := by simp [mv, hprog, readKey] at hj; exact hj.symm
          subst this
          show t ∈ upd s.rholders j (t :: s.rholders j) j
          rw [upd_same]; simp
        · intro p j h; cases h
        · intro h; cases h
        · intro a b h; cases h
        · intro a b h; cases h
        · intro a h; cases h
        · intro a b h; cases h
        · intro a h; cases h
        · intro a h; cases h
        · intro p hp; rcases hp with hp | hp <;> cases hp
      · intro j hj
        obtain ⟨thx, h1, h2⟩ := hI.wv j t hj
        rw [hth] at h1; cases h1
        rw [hnw _ j] at h2; cases h2
      · intro j hj
        have hj' : t ∈ upd s.rholders k (t :: s.rholders k) j := hj
        by_cases hjk : j = k
        · subst hjk; exact ⟨rfl, by simp [mv, hprog, readKey]⟩
        · rw [upd_other _ _ hjk] at hj'
          obtain ⟨thx, h1, h2, _⟩ := hI.rv j t hj'
          rw [hth] at h1; cases h1
          rw [hpc] at h2; cases h2
      · intro j w hw
        show upd s.rholders k (t :: s.rholders k) j = []
        by_cases hjk : j = k
        · subst hjk
          have hw' : s.writer j = some w := hw
          rw [hfree'] at hw'; cases hw'
        · rw [upd_other _ _ hjk]; exact hI.ex j w hw
      · refine ci_step (th' := mv (Thread.mk (.read kind k) pc0 just0) .rRead false) hI hth rfl ?_ (fun j e h => Or.inl h) (fun j h => absurd rfl h) ?_
        · refine ⟨fun _ => Or.inl rfl, ?_, fun _ => Or.inl rfl⟩
          intro j x hx
          show x ∈ upd s.rholders k (t :: s.rholders k) j ↔ x ∈ s.rholders j
          by_cases hjk : j = k
          · subst hjk; rw [upd_same]; simp [hx]
          · rw [upd_other _ _ hjk]
        · intro j hw _
          obtain ⟨thx, h1, h2⟩ := hI.wv j t hw
          rw [hth] at h1; cases h1
          rw [hnw _ j] at h2; cases h2
    · cases hs
  | rRead =>
    simp only [hpc, Option.some.injEq] at hs; subst hs
    have hin : t ∈ s.rholders k := hT.rl (by rw [hpc]; rfl) k (by rw [hprog]; rfl)
    refine hI.mk_step (th' := mv (Thread.mk (.read kind k) pc0 just0) (.rCache (present s k)) true) hth rfl (Frame.same rfl rfl rfl) ?_ ?_ ?_ hI.ex ?_
    · refine ⟨by rw [show (mv (Thread.mk (.read kind k) pc0 just0) (.rCache (present s k)) true).prog = Prog.read kind k from rfl]; rfl, ?_, ?_, ?_, ?_, ?_, ?_, ?_, ?_, ?_, ?_, ?_⟩
      · intro j hj; have := hnw (.rCache (present s k)) j; simp [mv] at hj; rw [this] at hj; cases hj
      · intro _ j hj
        have : j = k := by simp [mv, hprog, readKey] at hj; exact hj.symm
        subst this; exact hin
      · intro p j hp hj
        have hp' : PC.rCache (present s k) = .rCache p := hp
        have : j = k := by simp [mv, hprog, readKey] at hj; exact hj.symm
        subst this
        cases hp'; rfl
      · intro h; cases h
      · intro a b h; cases h
      · intro a b h; cases h
      · intro a h; cases h
      · intro a b h; cases h
      · intro a h; cases h
      · intro a h; cases h
      · intro p _; simp [mv]
    · intro j hj
      obtain ⟨thx, h1, h2⟩ := hI.wv j t hj
      rw [hth] at h1; cases h1
      rw [hnw _ j] at h2; cases h2
    · intro j hj
      obtain ⟨thx, h1, h2, h3⟩ := hI.rv j t hj
      rw [hth] at h1; cases h1
      exact ⟨rfl, h3⟩
    · refine ci_step (th' := mv (Thread.mk (.read kind k) pc0 just0) (.rCache (present s k)) true) hI hth rfl (Frame.same rfl rfl rfl) (fun j e h => Or.inl h)
        (fun j h => absurd rfl h) ?_
      intro j hw _
      obtain ⟨thx, h1, h2⟩ := hI.wv j t hw
      rw [hth] at h1; cases h1
      rw [hnw _ j] at h2; cases h2
  | rCache p =>
    simp only [hpc, Option.some.injEq] at hs; subst hs
    have hin : t ∈ s.rholders k := hT.rl (by rw [hpc]; rfl) k (by rw [hprog]; rfl)
    have hp : p = present s k := hT.rc p k hpc (by rw [hprog]; rfl)
    refine hI.mk_step (th' := mv (Thread.mk (.read kind k) pc0 just0) (.rUnlock p) false) hth rfl (Frame.same rfl rfl rfl) ?_ ?_ ?_ hI.ex ?_
    · refine ⟨by rw [show (mv (Thread.mk (.read kind k) pc0 just0) (.rUnlock p) false).prog = Prog.read kind k from rfl]; rfl, ?_, ?_, ?_, ?_, ?_, ?_, ?_, ?_, ?_, ?_, ?_⟩
      · intro j hj; have := hnw (.rUnlock p) j; simp [mv] at hj; rw [this] at hj; cases hj
      · intro _ j hj
        have : j = k := by simp [mv, hprog, readKey] at hj; exact hj.symm
        subst this; exact hin
      · intro q j h; cases h
      · intro h; cases h
      · intro a b h; cases h
      · intro a b h; cases h
      · intro a h; cases h
      · intro a b h; cases h
      · intro a h; cases h
      · intro a h; cases h
      · intro q _
        have := hT.jr p (Or.inl hpc)
        simp only at this
        simp [mv, this]
    · intro j hj
      obtain ⟨thx, h1, h2⟩ := hI.wv j t hj
      rw [hth] at h1; cases h1
      rw [hnw _ j] at h2; cases h2
    · intro j hj
      obtain ⟨thx, h1, h2, h3⟩ := hI.rv j t hj
      rw [hth] at h1; cases h1
      exact ⟨rfl, h3⟩
    · refine ci_step (th' := mv (Thread.mk (.read kind k) pc0 just0) (.rUnlock p) false) hI hth rfl (Frame.same rfl rfl rfl) ?_ (fun j h => absurd rfl h) ?_
      · intro j e he
        by_cases hjk : j = k
        · subst hjk
          right
          have he' : upd s.cache j (some (readEntry sz kind j p)) j = some e := he
          rw [upd_same] at he'
          cases he'
          show agr (present s j) _
          rw [← hp]
          cases kind <;> cases p <;> simp [agr, readEntry]
        · left
          have he' : upd s.cache k _ j = some e := he
          rw [upd_other _ _ hjk] at he'; exact he'
      · intro j hw _
        obtain ⟨thx, h1, h2⟩ := hI.wv j t hw
        rw [hth] at h1; cases h1
        rw [hnw _ j] at h2; cases h2
  | rUnlock p =>
    simp only [hpc, Option.some.injEq] at hs; subst hs
    have hFr : Frame s { s with rholders := upd s.rholders k ((s.rholders k).filter (· != t)) } t := by
      refine ⟨fun _ => Or.inl rfl, ?_, fun _ => Or.inl rfl⟩
      intro j x hx
      show x ∈ upd s.rholders k ((s.rholders k).filter (· != t)) j ↔ x ∈ s.rholders j
      by_cases hjk : j = k
      · subst hjk; rw [upd_same]; simp [hx]
      · rw [upd_other _ _ hjk]
    have hFr' : Frame s (setThread { s with rholders := upd s.rholders k ((s.rholders k).filter (· != t)) } t (mv (Thread.mk (.read kind k) pc0 just0) (.done p) false)) t :=
      ⟨hFr.hw, hFr.hr, hFr.hs⟩
    have hnot : ∀ j, t ∉ upd s.rholders k ((s.rholders k).filter (· != t)) j := by
      intro j hj
      by_cases hjk : j = k
      · subst hjk; rw [upd_same] at hj; simp at hj
      · rw [upd_other _ _ hjk] at hj
        obtain ⟨thx, h1, _, h3⟩ := hI.rv j t hj
        rw [hth] at h1; cases h1
        rw [hprog] at h3; simp [readKey] at h3; exact hjk h3.symm
    refine hI.mk_step (th' := mv (Thread.mk (.read kind k) pc0 just0) (.done p) false) hth rfl hFr' ?_ ?_ ?_ ?_ ?_
    · apply TI.trivial'
      · rw [show (mv (Thread.mk (.read kind k) pc0 just0) (.done p) false).prog = Prog.read kind k from rfl]; rfl
      · intro j; exact hnw _ j
      · rfl
      · simp [mv]
      · intro a _ _
        -- the answer was read from the store at rRead: `just` was set there
        have := hT.jr p (Or.inr hpc)
        simp only at this
        simp [mv, this]
    · intro j hj
      obtain ⟨thx, h1, h2⟩ := hI.wv j t hj
      rw [hth] at h1; cases h1
      rw [hnw _ j] at h2; cases h2
    · intro j hj; exact absurd hj (hnot j)
    · intro j w hw
      show upd s.rholders k ((s.rholders k).filter (· != t)) j = []
      by_cases hjk : j = k
      · subst hjk; rw [upd_same]; rw [hI.ex j w hw]; rfl
      · rw [upd_other _ _ hjk]; exact hI.ex j w hw
    · refine ci_step (th' := mv (Thread.mk (.read kind k) pc0 just0) (.done p) false) hI hth rfl hFr' (fun j e h => Or.inl h) (fun j h => absurd rfl h) ?_
      intro j hw _
      obtain ⟨thx, h1, h2⟩ := hI.wv j t hw
      rw [hth] at h1; cases h1
      rw [hnw _ j] at h2; cases h2
  | _ => simp [hpc] at hs

theorem Inv.stepPut {sz : Nat → Nat} {s s' : St} {t : Nat} {th : Thread} {k : Nat} (hI : Inv s)
    (hth : s.threads[t]? = some th) (hprog : th.prog = .put k) (hs : stepThread sz s t th = some s') : Inv s' := by
  obtain ⟨prog0, pc0, just0⟩ := th
  simp only at hprog
  subst hprog
  have hT := hI.thr t _ hth
  have hH : ∀ pc j, holdsW (.put k) pc j = true → (pc = .wWrite ∨ pc = .wCache ∨ pc = .wUnlock) ∧ j = k := by
    intro pc j h; cases pc <;> simp [holdsW] at h <;> simp [h]
  have noW : ∀ pc, pc ≠ .wWrite → pc ≠ .wCache → pc ≠ .wUnlock → ∀ j, holdsW (.put k) pc j = false := by
    intro pc h1 h2 h3 j
    cases hh : holdsW (.put k) pc j with
    | false => rfl
    | true => rcases (hH pc j hh).1 with e | e | e <;> contradiction
  have notW : ∀ j, s.writer j = some t → holdsW (.put k) pc0 j = true := by
    intro j hj
    obtain ⟨thx, h1, h2⟩ := hI.wv j t hj
    rw [hth] at h1; cases h1; exact h2
  have notR : ∀ j, t ∉ s.rholders j := by
    intro j hj
    obtain ⟨thx, h1, _, h3⟩ := hI.rv j t hj
    rw [hth] at h1; cases h1; simp [readKey] at h3
  unfold stepThread at hs
  simp only at hs
  cases hpc : pc0 with
  | qQuery =>
    simp only [hpc] at hs
    have loc : ∀ pc', (pc' = .done true ∨ pc' = .wLock) →
        Inv (setThread s t (mv ⟨.put k, pc0, just0⟩ pc' false)) := by
      intro pc' hp'
      refine hI.localStep (pc' := pc') (j := false) hth (by rw [hpc]; exact noW _ (by simp) (by simp) (by simp)) (by rw [hpc]; rfl)
        (by rcases hp' with e | e <;> rw [e] <;> exact noW _ (by simp) (by simp) (by simp)) (by rcases hp' with e | e <;> rw [e] <;> rfl)
        (fun j => by rcases hp' with e | e <;> rw [e] <;> rfl) (by rcases hp' with e | e <;> rw [e] <;> rfl)
        (fun a b h => by rcases hp' with e | e <;> rw [e] at h <;> cases h)
        (fun a _ h => by simp [readKey] at h) (by rcases hp' with e | e <;> rw [e] <;> simp)
    cases hc : s.cache k with
    | none => simp only [hc, Option.some.injEq] at hs; subst hs; exact loc _ (Or.inr rfl)
    | some e =>
      simp only [hc] at hs
      split at hs
      · simp only [Option.some.injEq] at hs; subst hs; exact loc _ (Or.inl rfl)
      · simp only [Option.some.injEq] at hs; subst hs; exact loc _ (Or.inr rfl)
  | wLock =>
    simp only [hpc] at hs
    split at hs
    · rename_i hfree
      have hfree' : s.writer k = none ∧ s.rholders k = [] := by simpa using hfree
      simp only [Option.some.injEq] at hs; subst hs
      have hFr : Frame s (setThread { s with writer := upd s.writer k (some t) } t (mv ⟨.put k, pc0, just0⟩ .wWrite false)) t := by
        refine ⟨?_, fun _ _ _ => Iff.rfl, fun _ => Or.inl rfl⟩
        intro j
        by_cases hjk : j = k
        · subst hjk; exact Or.inr (Or.inl ⟨hfree'.1, by show upd s.writer j (some t) j = some t; rw [upd_same]⟩)
        · exact Or.inl (by show upd s.writer k (some t) j = s.writer j; rw [upd_other _ _ hjk])
      refine hI.mk_step (th' := mv ⟨.put k, pc0, just0⟩ .wWrite false) hth rfl hFr ?_ ?_ ?_ ?_ ?_
      · refine ⟨rfl, ?_, (fun h => by cases h), (fun p j h => by cases h), (fun h => by cases h), (fun a b h => by cases h),
          (fun a b h => by cases h), (fun a h => by cases h), (fun a b h => by cases h), (fun a h => by cases h), (fun a h => by cases h),
          (fun p h => by rcases h with h | h <;> cases h)⟩
        intro j hj
        have := (hH .wWrite j hj).2; subst this
        show upd s.writer j (some t) j = some t
        rw [upd_same]
      · intro j hj
        have hj' : upd s.writer k (some t) j = some t := hj
        by_cases hjk : j = k
        · subst hjk; simp [mv, holdsW]
        · rw [upd_other _ _ hjk] at hj'
          have := notW j hj'; rw [hpc, noW .wLock (by simp) (by simp) (by simp) j] at this; cases this
      · intro j hj; exact absurd hj (notR j)
      · intro j w hw
        have hw' : upd s.writer k (some t) j = some w := hw
        by_cases hjk : j = k
        · subst hjk; exact hfree'.2
        · rw [upd_other _ _ hjk] at hw'; exact hI.ex j w hw'
      · refine ci_step (th' := mv ⟨.put k, pc0, just0⟩ .wWrite false) hI hth rfl hFr (fun j e h => Or.inl h) (fun j h => absurd rfl h) ?_
        intro j hw _
        have := notW j hw; rw [hpc, noW .wLock (by simp) (by simp) (by simp) j] at this; cases this
    · cases hs
  | wWrite =>
    simp only [hpc, Option.some.injEq] at hs; subst hs
    have hwk : s.writer k = some t := hT.wl k (by rw [hpc]; simp [holdsW])
    have hpres : ∀ j, j ≠ k → present { s with store := if s.store.contains k then s.store else k :: s.store } j = present s j := by
      intro j hjk
      simp only [present]
      rw [present_insert]; simp [hjk]
    have hFr : Frame s (setThread { s with store := if s.store.contains k then s.store else k :: s.store } t (mv ⟨.put k, pc0, just0⟩ .wCache false)) t := by
      refine ⟨fun _ => Or.inl rfl, fun _ _ _ => Iff.rfl, ?_⟩
      intro j
      by_cases hjk : j = k
      · subst hjk; exact Or.inr hwk
      · exact Or.inl (hpres j hjk)
    refine hI.mk_step (th' := mv ⟨.put k, pc0, just0⟩ .wCache false) hth rfl hFr ?_ ?_ ?_ hI.ex ?_
    · refine ⟨rfl, ?_, (fun h => by cases h), (fun p j h => by cases h), ?_, (fun a b h => by cases h),
        (fun a b h => by cases h), (fun a h => by cases h), (fun a b h => by cases h), (fun a h => by cases h), (fun a h => by cases h),
        (fun p h => by rcases h with h | h <;> cases h)⟩
      · intro j hj
        have := (hH .wCache j hj).2; subst this; exact hwk
      · intro _
        refine ⟨fun j hj => ?_, fun j hj => by cases hj⟩
        have : j = k := by cases hj; rfl
        subst this
        show (if s.store.contains j then s.store else j :: s.store).contains j = true
        rw [present_insert]; simp
    · intro j hj
      have := notW j hj; rw [hpc] at this
      have := (hH .wWrite j this).2; subst this
      simp [mv, holdsW]
    · intro j hj; exact absurd hj (notR j)
    · refine ci_step (th' := mv ⟨.put k, pc0, just0⟩ .wCache false) hI hth rfl hFr (fun j e h => Or.inl h) ?_ ?_
      · intro j hne
        have hjk : j = k := by
          by_cases hjk : j = k
          · exact hjk
          · exact absurd (hpres j hjk) hne
        subst hjk
        exact ⟨by simp [mv, dirtyAt], hwk⟩
      · intro j _ hd; rw [hpc] at hd; simp [dirtyAt] at hd
  | wCache =>
    simp only [hpc, Option.some.injEq] at hs; subst hs
    have hwk : s.writer k = some t := hT.wl k (by rw [hpc]; simp [holdsW])
    have hwc := hT.wc hpc
    have hFr : Frame s (setThread { s with cache := upd s.cache k (some (Entry.size (sz k))) } t (mv ⟨.put k, pc0, just0⟩ .wUnlock false)) t :=
      ⟨fun _ => Or.inl rfl, fun _ _ _ => Iff.rfl, fun _ => Or.inl rfl⟩
    refine hI.mk_step (th' := mv ⟨.put k, pc0, just0⟩ .wUnlock false) hth rfl hFr ?_ ?_ ?_ hI.ex ?_
    · refine ⟨rfl, ?_, (fun h => by cases h), (fun p j h => by cases h), (fun h => by cases h), (fun a b h => by cases h),
        (fun a b h => by cases h), (fun a h => by cases h), (fun a b h => by cases h), (fun a h => by cases h), (fun a h => by cases h),
        (fun p h => by rcases h with h | h <;> cases h)⟩
      intro j hj
      have := (hH .wUnlock j hj).2; subst this; exact hwk
    · intro j hj
      have := notW j hj; rw [hpc] at this
      have := (hH .wCache j this).2; subst this
      simp [mv, holdsW]
    · intro j hj; exact absurd hj (notR j)
    · have hnew : ∀ e, upd s.cache k (some (Entry.size (sz k))) k = some e → agr (present s k) e := by
        intro e he; rw [upd_same] at he; cases he
        show agr (present s k) (Entry.size (sz k))
        exact (hwc.1 k rfl)
      refine ci_step (th' := mv ⟨.put k, pc0, just0⟩ .wUnlock false) hI hth rfl hFr ?_ (fun j h => absurd rfl h) ?_
      · intro j e he
        by_cases hjk : j = k
        · subst hjk; exact Or.inr (hnew e he)
        · left
          have he' : upd s.cache k _ j = some e := he
          rw [upd_other _ _ hjk] at he'; exact he'
      · intro j _ hd
        rw [hpc] at hd
        have hjk : k = j := by simpa [dirtyAt] using hd
        subst hjk
        exact Or.inr (fun e he => hnew e he)
  | wUnlock =>
    simp only [hpc, Option.some.injEq] at hs; subst hs
    have hwk : s.writer k = some t := hT.wl k (by rw [hpc]; simp [holdsW])
    have hFr : Frame s (setThread { s with writer := upd s.writer k none } t (mv ⟨.put k, pc0, just0⟩ (.done true) false)) t := by
      refine ⟨?_, fun _ _ _ => Iff.rfl, fun _ => Or.inl rfl⟩
      intro j
      by_cases hjk : j = k
      · subst hjk; exact Or.inr (Or.inr ⟨hwk, by show upd s.writer j none j = none; rw [upd_same]⟩)
      · exact Or.inl (by show upd s.writer k none j = s.writer j; rw [upd_other _ _ hjk])
    refine hI.mk_step (th' := mv ⟨.put k, pc0, just0⟩ (.done true) false) hth rfl hFr ?_ ?_ ?_ ?_ ?_
    · apply TI.trivial'
      · rfl
      · intro j; exact noW _ (by simp [mv]) (by simp [mv]) (by simp [mv]) j
      · rfl
      · simp [mv]
      · intro a _ h; simp [mv, readKey] at h
    · intro j hj
      have hj' : upd s.writer k none j = some t := hj
      by_cases hjk : j = k
      · subst hjk; rw [upd_same] at hj'; cases hj'
      · rw [upd_other _ _ hjk] at hj'
        have := notW j hj'; rw [hpc] at this
        exact absurd (hH .wUnlock j this).2 hjk
    · intro j hj; exact absurd hj (notR j)
    · intro j w hw
      have hw' : upd s.writer k none j = some w := hw
      by_cases hjk : j = k
      · subst hjk; rw [upd_same] at hw'; cases hw'
      · rw [upd_other _ _ hjk] at hw'; exact hI.ex j w hw'
    · refine ci_step (th' := mv ⟨.put k, pc0, just0⟩ (.done true) false) hI hth rfl hFr (fun j e h => Or.inl h) (fun j h => absurd rfl h) ?_
      intro j _ hd; rw [hpc] at hd; simp [dirtyAt] at hd
  | _ => simp [hpc] at hs

theorem Inv.stepDel {sz : Nat → Nat} {s s' : St} {t : Nat} {th : Thread} {k : Nat} (hI : Inv s)
    (hth : s.threads[t]? = some th) (hprog : th.prog = .del k) (hs : stepThread sz s t th = some s') : Inv s' := by
  obtain ⟨prog0, pc0, just0⟩ := th
  simp only at hprog
  subst hprog
  have hT := hI.thr t _ hth
  have hH : ∀ pc j, holdsW (.del k) pc j = true → (pc = .wWrite ∨ pc = .wCache ∨ pc = .wUnlock) ∧ j = k := by
    intro pc j h; cases pc <;> simp [holdsW] at h <;> simp [h]
  have noW : ∀ pc, pc ≠ .wWrite → pc ≠ .wCache → pc ≠ .wUnlock → ∀ j, holdsW (.del k) pc j = false := by
    intro pc h1 h2 h3 j
    cases hh : holdsW (.del k) pc j with
    | false => rfl
    | true => rcases (hH pc j hh).1 with e | e | e <;> contradiction
  have notW : ∀ j, s.writer j = some t → holdsW (.del k) pc0 j = true := by
    intro j hj
    obtain ⟨thx, h1, h2⟩ := hI.wv j t hj
    rw [hth] at h1; cases h1; exact h2
  have notR : ∀ j, t ∉ s.rholders j := by
    intro j hj
    obtain ⟨thx, h1, _, h3⟩ := hI.rv j t hj
    rw [hth] at h1; cases h1; simp [readKey] at h3
  unfold stepThread at hs
  simp only at hs
  cases hpc : pc0 with
  | qQuery =>
    simp only [hpc] at hs
    have loc : ∀ pc', (pc' = .done false ∨ pc' = .wLock) →
        Inv (setThread s t (mv ⟨.del k, pc0, just0⟩ pc' false)) := by
      intro pc' hp'
      refine hI.localStep (pc' := pc') (j := false) hth (by rw [hpc]; exact noW _ (by simp) (by simp) (by simp)) (by rw [hpc]; rfl)
        (by rcases hp' with e | e <;> rw [e] <;> exact noW _ (by simp) (by simp) (by simp)) (by rcases hp' with e | e <;> rw [e] <;> rfl)
        (fun j => by rcases hp' with e | e <;> rw [e] <;> rfl) (by rcases hp' with e | e <;> rw [e] <;> rfl)
        (fun a b h => by rcases hp' with e | e <;> rw [e] at h <;> cases h)
        (fun a _ h => by simp [readKey] at h) (by rcases hp' with e | e <;> rw [e] <;> simp)
    split at hs
    · simp only [Option.some.injEq] at hs; subst hs; exact loc _ (Or.inl rfl)
    · simp only [Option.some.injEq] at hs; subst hs; exact loc _ (Or.inr rfl)
  | wLock =>
    simp only [hpc] at hs
    split at hs
    · rename_i hfree
      have hfree' : s.writer k = none ∧ s.rholders k = [] := by simpa using hfree
      simp only [Option.some.injEq] at hs; subst hs
      have hFr : Frame s (setThread { s with writer := upd s.writer k (some t) } t (mv ⟨.del k, pc0, just0⟩ .wWrite false)) t := by
        refine ⟨?_, fun _ _ _ => Iff.rfl, fun _ => Or.inl rfl⟩
        intro j
        by_cases hjk : j = k
        · subst hjk; exact Or.inr (Or.inl ⟨hfree'.1, by show upd s.writer j (some t) j = some t; rw [upd_same]⟩)
        · exact Or.inl (by show upd s.writer k (some t) j = s.writer j; rw [upd_other _ _ hjk])
      refine hI.mk_step (th' := mv ⟨.del k, pc0, just0⟩ .wWrite false) hth rfl hFr ?_ ?_ ?_ ?_ ?_
      · refine ⟨rfl, ?_, (fun h => by cases h), (fun p j h => by cases h), (fun h => by cases h), (fun a b h => by cases h),
          (fun a b h => by cases h), (fun a h => by cases h), (fun a b h => by cases h), (fun a h => by cases h), (fun a h => by cases h),
          (fun p h => by rcases h with h | h <;> cases h)⟩
        intro j hj
        have := (hH .wWrite j hj).2; subst this
        show upd s.writer j (some t) j = some t
        rw [upd_same]
      · intro j hj
        have hj' : upd s.writer k (some t) j = some t := hj
        by_cases hjk : j = k
        · subst hjk; simp [mv, holdsW]
        · rw [upd_other _ _ hjk] at hj'
          have := notW j hj'; rw [hpc, noW .wLock (by simp) (by simp) (by simp) j] at this; cases this
      · intro j hj; exact absurd hj (notR j)
      · intro j w hw
        have hw' : upd s.writer k (some t) j = some w := hw
        by_cases hjk : j = k
        · subst hjk; exact hfree'.2
        · rw [upd_other _ _ hjk] at hw'; exact hI.ex j w hw'
      · refine ci_step (th' := mv ⟨.del k, pc0, just0⟩ .wWrite false) hI hth rfl hFr (fun j e h => Or.inl h) (fun j h => absurd rfl h) ?_
        intro j hw _
        have := notW j hw; rw [hpc, noW .wLock (by simp) (by simp) (by simp) j] at this; cases this
    · cases hs
  | wWrite =>
    simp only [hpc, Option.some.injEq] at hs; subst hs
    have hwk : s.writer k = some t := hT.wl k (by rw [hpc]; simp [holdsW])
    have hpres : ∀ j, j ≠ k → present { s with store := s.store.filter (· != k) } j = present s j := by
      intro j hjk
      simp only [present]
      rw [present_erase]; simp [hjk]
    have hFr : Frame s (setThread { s with store := s.store.filter (· != k) } t (mv ⟨.del k, pc0, just0⟩ .wCache false)) t := by
      refine ⟨fun _ => Or.inl rfl, fun _ _ _ => Iff.rfl, ?_⟩
      intro j
      by_cases hjk : j = k
      · subst hjk; exact Or.inr hwk
      · exact Or.inl (hpres j hjk)
    refine hI.mk_step (th' := mv ⟨.del k, pc0, just0⟩ .wCache false) hth rfl hFr ?_ ?_ ?_ hI.ex ?_
    · refine ⟨rfl, ?_, (fun h => by cases h), (fun p j h => by cases h), ?_, (fun a b h => by cases h),
        (fun a b h => by cases h), (fun a h => by cases h), (fun a b h => by cases h), (fun a h => by cases h), (fun a h => by cases h),
        (fun p h => by rcases h with h | h <;> cases h)⟩
      · intro j hj
        have := (hH .wCache j hj).2; subst this; exact hwk
      · intro _
        refine ⟨(fun j hj => by cases hj), (fun j hj => ?_)⟩
        have : j = k := by cases hj; rfl
        subst this
        show (s.store.filter (· != j)).contains j = false
        rw [present_erase]; simp
    · intro j hj
      have := notW j hj; rw [hpc] at this
      have := (hH .wWrite j this).2; subst this
      simp [mv, holdsW]
    · intro j hj; exact absurd hj (notR j)
    · refine ci_step (th' := mv ⟨.del k, pc0, just0⟩ .wCache false) hI hth rfl hFr (fun j e h => Or.inl h) ?_ ?_
      · intro j hne
        have hjk : j = k := by
          by_cases hjk : j = k
          · exact hjk
          · exact absurd (hpres j hjk) hne
        subst hjk
        exact ⟨by simp [mv, dirtyAt], hwk⟩
      · intro j _ hd; rw [hpc] at hd; simp [dirtyAt] at hd
  | wCache =>
    simp only [hpc, Option.some.injEq] at hs; subst hs
    have hwk : s.writer k = some t := hT.wl k (by rw [hpc]; simp [holdsW])
    have hwc := hT.wc hpc
    have hFr : Frame s (setThread { s with cache := upd s.cache k (some (Entry.have false)) } t (mv ⟨.del k, pc0, just0⟩ .wUnlock false)) t :=
      ⟨fun _ => Or.inl rfl, fun _ _ _ => Iff.rfl, fun _ => Or.inl rfl⟩
    refine hI.mk_step (th' := mv ⟨.del k, pc0, just0⟩ .wUnlock false) hth rfl hFr ?_ ?_ ?_ hI.ex ?_
    · refine ⟨rfl, ?_, (fun h => by cases h), (fun p j h => by cases h), (fun h => by cases h), (fun a b h => by cases h),
        (fun a b h => by cases h), (fun a h => by cases h), (fun a b h => by cases h), (fun a h => by cases h), (fun a h => by cases h),
        (fun p h => by rcases h with h | h <;> cases h)⟩
      intro j hj
      have := (hH .wUnlock j hj).2; subst this; exact hwk
    · intro j hj
      have := notW j hj; rw [hpc] at this
      have := (hH .wCache j this).2; subst this
      simp [mv, holdsW]
    · intro j hj; exact absurd hj (notR j)
    · have hnew : ∀ e, upd s.cache k (some (Entry.have false)) k = some e → agr (present s k) e := by
        intro e he; rw [upd_same] at he; cases he
        show agr (present s k) (Entry.have false)
        simp [agr, hwc.2 k rfl]
      refine ci_step (th' := mv ⟨.del k, pc0, just0⟩ .wUnlock false) hI hth rfl hFr ?_ (fun j h => absurd rfl h) ?_
      · intro j e he
        by_cases hjk : j = k
        · subst hjk; exact Or.inr (hnew e he)
        · left
          have he' : upd s.cache k _ j = some e := he
          rw [upd_other _ _ hjk] at he'; exact he'
      · intro j _ hd
        rw [hpc] at hd
        have hjk : k = j := by simpa [dirtyAt] using hd
        subst hjk
        exact Or.inr (fun e he => hnew e he)
  | wUnlock =>
    simp only [hpc, Option.some.injEq] at hs; subst hs
    have hwk : s.writer k = some t := hT.wl k (by rw [hpc]; simp [holdsW])
    have hFr : Frame s (setThread { s with writer := upd s.writer k none } t (mv ⟨.del k, pc0, just0⟩ (.done false) false)) t := by
      refine ⟨?_, fun _ _ _ => Iff.rfl, fun _ => Or.inl rfl⟩
      intro j
      by_cases hjk : j = k
      · subst hjk; exact Or.inr (Or.inr ⟨hwk, by show upd s.writer j none j = none; rw [upd_same]⟩)
      · exact Or.inl (by show upd s.writer k none j = s.writer j; rw [upd_other _ _ hjk])
    refine hI.mk_step (th' := mv ⟨.del k, pc0, just0⟩ (.done false) false) hth rfl hFr ?_ ?_ ?_ ?_ ?_
    · apply TI.trivial'
      · rfl
      · intro j; exact noW _ (by simp [mv]) (by simp [mv]) (by simp [mv]) j
      · rfl
      · simp [mv]
      · intro a _ h; simp [mv, readKey] at h
    · intro j hj
      have hj' : upd s.writer k none j = some t := hj
      by_cases hjk : j = k
      · subst hjk; rw [upd_same] at hj'; cases hj'
      · rw [upd_other _ _ hjk] at hj'
        have := notW j hj'; rw [hpc] at this
        exact absurd (hH .wUnlock j this).2 hjk
    · intro j hj; exact absurd hj (notR j)
    · intro j w hw
      have hw' : upd s.writer k none j = some w := hw
      by_cases hjk : j = k
      · subst hjk; rw [upd_same] at hw'; cases hw'
      · rw [upd_other _ _ hjk] at hw'; exact hI.ex j w hw'
    · refine ci_step (th' := mv ⟨.del k, pc0, just0⟩ (.done false) false) hI hth rfl hFr (fun j e h => Or.inl h) (fun j h => absurd rfl h) ?_
      intro j _ hd; rw [hpc] at hd; simp [dirtyAt] at hd
  | _ => simp [hpc] at hs

theorem Inv.stepPutMany {sz : Nat → Nat} {s s' : St} {t : Nat} {th : Thread} {ks : List Nat} (hI : Inv s)
    (hth : s.threads[t]? = some th) (hprog : th.prog = .putMany ks) (hs : stepThread sz s t th = some s') : Inv s' := by
  obtain ⟨prog0, pc0, just0⟩ := th
  simp only at hprog
  subst hprog
  have hT := hI.thr t _ hth
  have notW : ∀ j, s.writer j = some t → holdsW (.putMany ks) pc0 j = true := by
    intro j hj
    obtain ⟨thx, h1, h2⟩ := hI.wv j t hj
    rw [hth] at h1; cases h1; exact h2
  have notR : ∀ j, t ∉ s.rholders j := by
    intro j hj
    obtain ⟨thx, h1, _, h3⟩ := hI.rv j t hj
    rw [hth] at h1; cases h1; simp [readKey] at h3
  have trivTI : ∀ (s1 : St) (pc' : PC) (jb : Bool),
      (∀ j, holdsW (.putMany ks) pc' j = true → s1.writer j = some t) →
      (∀ a b, pc' = .mCache a b → (∀ k, k ∈ b → present s1 k = true) ∧ (∀ k, k ∈ a → k ∈ b)) →
      (∀ a b, pc' = .mLock a b → (a ++ b).Nodup) → (∀ a, pc' = .mWrite a → a.Nodup) →
      (∀ a b, pc' = .mCache a b → b.Nodup) → (∀ a, pc' = .mUnlock a → a.Nodup) →
      progOK (.putMany ks) pc' = true →
      TI s1 t (mv ⟨.putMany ks, pc0, just0⟩ pc' jb) := by
    intro s1 pc' jb h1 h2 h3 h4 h5 h6 h7
    refine ⟨h7, h1, ?_, ?_, ?_, h2, h3, h4, h5, h6, ?_, ?_⟩
    · intro h k hk; simp [mv, readKey] at hk
    · intro p k _ hk; simp [mv, readKey] at hk
    · intro hp
      have hp' : pc' = .wCache := hp
      rw [hp'] at h7; simp [progOK] at h7
    · intro a _ h; simp [mv, readKey] at h
    · intro p hp
      have hp' : pc' = .rCache p ∨ pc' = .rUnlock p := hp
      rcases hp' with e | e <;> rw [e] at h7 <;> simp [progOK] at h7
  unfold stepThread at hs
  simp only at hs
  cases hpc : pc0 with
  | mQuery todo good =>
    have loc : ∀ pc', (∀ j, holdsW (.putMany ks) pc' j = false) → pc'.rsec = false → (∀ j, dirtyAt (.putMany ks) j pc' = false) →
        progOK (.putMany ks) pc' = true → (∀ a b, pc' = .mLock a b → (a ++ b).Nodup) →
        ((∀ p, pc' ≠ .rCache p) ∧ (∀ p, pc' ≠ .rUnlock p) ∧ pc' ≠ .wCache ∧ (∀ a b, pc' ≠ .mCache a b) ∧ (∀ a, pc' ≠ .mWrite a) ∧ (∀ a, pc' ≠ .mUnlock a)) →
        Inv (setThread s t (mv ⟨.putMany ks, pc0, just0⟩ pc' false)) := by
      intro pc' h1 h2 h3 h4 h5 h6
      exact hI.localStep (pc' := pc') (j := false) hth (by rw [hpc]; intro j; rfl) (by rw [hpc]; rfl) h1 h2 h3 h4 h5
        (fun a _ h => by simp [readKey] at h) h6
    cases todo with
    | nil =>
      simp only [hpc] at hs
      split at hs
      · simp only [Option.some.injEq] at hs; subst hs
        exact loc _ (fun _ => rfl) rfl (fun _ => rfl) rfl (fun a b h => by cases h) (by simp)
      · simp only [Option.some.injEq] at hs; subst hs
        refine loc _ (fun j => by simp [holdsW]) rfl (fun _ => rfl) rfl ?_ (by simp)
        intro a b h; cases h; simpa using nodup_canon good
    | cons k todo =>
      simp only [hpc, Option.some.injEq] at hs; subst hs
      exact loc _ (fun _ => rfl) rfl (fun _ => rfl) rfl (fun a b h => by cases h) (by simp)
  | mLock todo held =>
    have hnd := hT.ml todo held hpc
    have hheld : ∀ j, j ∈ held → s.writer j = some t := fun j hj => hT.wl j (by rw [hpc]; simpa [holdsW] using hj)
    cases todo with
    | nil =>
      simp only [hpc, Option.some.injEq] at hs; subst hs
      have hFr : Frame s (setThread s t (mv ⟨.putMany ks, pc0, just0⟩ (.mWrite held) false)) t := Frame.refl' s t _
      refine hI.mk_step (th' := mv ⟨.putMany ks, pc0, just0⟩ (.mWrite held) false) hth rfl hFr ?_ ?_ ?_ hI.ex ?_
      · refine trivTI _ _ _ ?_ (fun a b h => by cases h) (fun a b h => by cases h) ?_ (fun a b h => by cases h) (fun a h => by cases h) rfl
        · intro j hj; exact hheld j (by simpa [holdsW] using hj)
        · intro a h; cases h; simpa using hnd
      · intro j hj
        have := notW j hj; rw [hpc] at this
        simpa [mv, holdsW] using this
      · intro j hj; exact absurd hj (notR j)
      · refine ci_step (th' := mv ⟨.putMany ks, pc0, just0⟩ (.mWrite held) false) hI hth rfl hFr (fun j e h => Or.inl h) (fun j h => absurd rfl h) ?_
        intro j _ hd; rw [hpc] at hd; simp [dirtyAt] at hd
    | cons k todo =>
      simp only [hpc] at hs
      split at hs
      · rename_i hfree
        have hfree' : s.writer k = none ∧ s.rholders k = [] := by simpa using hfree
        simp only [Option.some.injEq] at hs; subst hs
        have hFr : Frame s (setThread { s with writer := upd s.writer k (some t) } t (mv ⟨.putMany ks, pc0, just0⟩ (.mLock todo (held ++ [k])) false)) t := by
          refine ⟨?_, fun _ _ _ => Iff.rfl, fun _ => Or.inl rfl⟩
          intro j
          by_cases hjk : j = k
          · subst hjk; exact Or.inr (Or.inl ⟨hfree'.1, by show upd s.writer j (some t) j = some t; rw [upd_same]⟩)
          · exact Or.inl (by show upd s.writer k (some t) j = s.writer j; rw [upd_other _ _ hjk])
        refine hI.mk_step (th' := mv ⟨.putMany ks, pc0, just0⟩ (.mLock todo (held ++ [k])) false) hth rfl hFr ?_ ?_ ?_ ?_ ?_
        · refine trivTI _ _ _ ?_ (fun a b h => by cases h) ?_ (fun a h => by cases h) (fun a b h => by cases h) (fun a h => by cases h) rfl
          · intro j hj
            have hj' : j ∈ held ∨ j = k := by simpa [holdsW] using hj
            show upd s.writer k (some t) j = some t
            by_cases hjk : j = k
            · subst hjk; rw [upd_same]
            · rw [upd_other _ _ hjk]; exact hheld j (hj'.resolve_right hjk)
          · intro a b h; cases h
            have : ((k :: todo) ++ held).Nodup := hnd
            simp only [List.cons_append, List.nodup_cons, List.nodup_append, List.mem_append, List.mem_singleton,
              List.mem_cons, List.nodup_nil, and_true, true_and] at this ⊢
            grind
        · intro j hj
          have hj' : upd s.writer k (some t) j = some t := hj
          by_cases hjk : j = k
          · subst hjk; simp [mv, holdsW]
          · rw [upd_other _ _ hjk] at hj'
            have := notW j hj'; rw [hpc] at this
            have hm : j ∈ held := by simpa [holdsW] using this
            simp [mv, holdsW, hm]
        · intro j hj; exact absurd hj (notR j)
        · intro j w hw
          have hw' : upd s.writer k (some t) j = some w := hw
          by_cases hjk : j = k
          · subst hjk; exact hfree'.2
          · rw [upd_other _ _ hjk] at hw'; exact hI.ex j w hw'
        · refine ci_step (th' := mv ⟨.putMany ks, pc0, just0⟩ (.mLock todo (held ++ [k])) false) hI hth rfl hFr (fun j e h => Or.inl h) (fun j h => absurd rfl h) ?_
          intro j _ hd; rw [hpc] at hd; simp [dirtyAt] at hd
      · cases hs
  | mWrite held =>
    simp only [hpc, Option.some.injEq] at hs; subst hs
    have hnd := hT.mw held hpc
    have hheld : ∀ j, j ∈ held → s.writer j = some t := fun j hj => hT.wl j (by rw [hpc]; simpa [holdsW] using hj)
    have hpres : ∀ j, present { s with store := held.foldl (fun st k => if st.contains k then st else k :: st) s.store } j = (present s j || held.contains j) := by
      intro j; simp only [present]; exact present_foldl held s.store j
    have hFr : Frame s (setThread { s with store := held.foldl (fun st k => if st.contains k then st else k :: st) s.store } t (mv ⟨.putMany ks, pc0, just0⟩ (.mCache held held) false)) t := by
      refine ⟨fun _ => Or.inl rfl, fun _ _ _ => Iff.rfl, ?_⟩
      intro j
      by_cases hj : j ∈ held
      · exact Or.inr (hheld j hj)
      · left
        have := hpres j
        have hc : held.contains j = false := by simpa using hj
        rw [hc, Bool.or_false] at this; exact this
    refine hI.mk_step (th' := mv ⟨.putMany ks, pc0, just0⟩ (.mCache held held) false) hth rfl hFr ?_ ?_ ?_ hI.ex ?_
    · refine trivTI _ _ _ ?_ ?_ (fun a b h => by cases h) (fun a h => by cases h) ?_ (fun a h => by cases h) rfl
      · intro j hj; exact hheld j (by simpa [holdsW] using hj)
      · intro a b h; cases h
        refine ⟨fun j hj => ?_, fun _ h => h⟩
        have := hpres j
        have hc : held.contains j = true := by simpa using hj
        rw [hc, Bool.or_true] at this; exact this
      · intro a b h; cases h; exact hnd
    · intro j hj
      have := notW j hj; rw [hpc] at this
      simpa [mv, holdsW] using this
    · intro j hj; exact absurd hj (notR j)
    · refine ci_step (th' := mv ⟨.putMany ks, pc0, just0⟩ (.mCache held held) false) hI hth rfl hFr (fun j e h => Or.inl h) ?_ ?_
      · intro j hne
        have hj : j ∈ held := by
          by_cases hj : j ∈ held
          · exact hj
          · exfalso; apply hne
            have := hpres j
            have hc : held.contains j = false := by simpa using hj
            rw [hc, Bool.or_false] at this; exact this
        exact ⟨by simpa [mv, dirtyAt] using hj, hheld j hj⟩
      · intro j _ hd; rw [hpc] at hd; simp [dirtyAt] at hd
  | mCache todo held =>
    have hmc := hT.mc todo held hpc
    have hnd := hT.mh todo held hpc
    have hheld : ∀ j, j ∈ held → s.writer j = some t := fun j hj => hT.wl j (by rw [hpc]; simpa [holdsW] using hj)
    cases todo with
    | nil =>
      simp only [hpc, Option.some.injEq] at hs; subst hs
      have hFr : Frame s (setThread s t (mv ⟨.putMany ks, pc0, just0⟩ (.mUnlock held) false)) t := Frame.refl' s t _
      refine hI.mk_step (th' := mv ⟨.putMany ks, pc0, just0⟩ (.mUnlock held) false) hth rfl hFr ?_ ?_ ?_ hI.ex ?_
      · refine trivTI _ _ _ ?_ (fun a b h => by cases h) (fun a b h => by cases h) (fun a h => by cases h) (fun a b h => by cases h) ?_ rfl
        · intro j hj; exact hheld j (by simpa [holdsW] using hj)
        · intro a h; cases h; exact hnd
      · intro j hj
        have := notW j hj; rw [hpc] at this
        simpa [mv, holdsW] using this
      · intro j hj; exact absurd hj (notR j)
      · refine ci_step (th' := mv ⟨.putMany ks, pc0, just0⟩ (.mUnlock held) false) hI hth rfl hFr (fun j e h => Or.inl h) (fun j h => absurd rfl h) ?_
        intro j _ hd; rw [hpc] at hd; simp [dirtyAt] at hd
    | cons k todo =>
      simp only [hpc, Option.some.injEq] at hs; subst hs
      have hkheld : k ∈ held := hmc.2 k (by simp)
      have hFr : Frame s (setThread { s with cache := upd s.cache k (some (Entry.size (sz k))) } t (mv ⟨.putMany ks, pc0, just0⟩ (.mCache todo held) false)) t :=
        ⟨fun _ => Or.inl rfl, fun _ _ _ => Iff.rfl, fun _ => Or.inl rfl⟩
      refine hI.mk_step (th' := mv ⟨.putMany ks, pc0, just0⟩ (.mCache todo held) false) hth rfl hFr ?_ ?_ ?_ hI.ex ?_
      · refine trivTI _ _ _ ?_ ?_ (fun a b h => by cases h) (fun a h => by cases h) ?_ (fun a h => by cases h) rfl
        · intro j hj; exact hheld j (by simpa [holdsW] using hj)
        · intro a b h; cases h
          exact ⟨hmc.1, fun j hj => hmc.2 j (List.mem_cons_of_mem _ hj)⟩
        · intro a b h; cases h; exact hnd
      · intro j hj
        have := notW j hj; rw [hpc] at this
        simpa [mv, holdsW] using this
      · intro j hj; exact absurd hj (notR j)
      · have hnew : ∀ e, upd s.cache k (some (Entry.size (sz k))) k = some e → agr (present s k) e := by
          intro e he; rw [upd_same] at he; cases he
          exact hmc.1 k hkheld
        refine ci_step (th' := mv ⟨.putMany ks, pc0, just0⟩ (.mCache todo held) false) hI hth rfl hFr ?_ (fun j h => absurd rfl h) ?_
        · intro j e he
          by_cases hjk : j = k
          · subst hjk; exact Or.inr (hnew e he)
          · left
            have he' : upd s.cache k _ j = some e := he
            rw [upd_other _ _ hjk] at he'; exact he'
        · intro j hw hd
          rw [hpc] at hd
          have hd' : j = k ∨ j ∈ todo := by simpa [dirtyAt] using hd
          by_cases hjt : j ∈ todo
          · exact Or.inl ⟨by simpa [mv, dirtyAt] using hjt, hw⟩
          · have hjk : j = k := hd'.resolve_right hjt
            subst hjk
            exact Or.inr (fun e he => hnew e he)
  | mUnlock todo =>
    have hnd := hT.mu todo hpc
    have hheld : ∀ j, j ∈ todo → s.writer j = some t := fun j hj => hT.wl j (by rw [hpc]; simpa [holdsW] using hj)
    cases todo with
    | nil =>
      simp only [hpc, Option.some.injEq] at hs; subst hs
      refine hI.localStep (pc' := .done true) (j := false) hth (by rw [hpc]; intro j; simp [holdsW]) (by rw [hpc]; rfl)
        (fun _ => rfl) rfl (fun _ => rfl) rfl (fun a b h => by cases h) (fun a _ h => by simp [readKey] at h) (by simp)
    | cons k todo =>
      simp only [hpc, Option.some.injEq] at hs; subst hs
      have hwk : s.writer k = some t := hheld k (by simp)
      have hknot : k ∉ todo := (List.nodup_cons.1 hnd).1
      have hFr : Frame s (setThread { s with writer := upd s.writer k none } t (mv ⟨.putMany ks, pc0, just0⟩ (.mUnlock todo) false)) t := by
        refine ⟨?_, fun _ _ _ => Iff.rfl, fun _ => Or.inl rfl⟩
        intro j
        by_cases hjk : j = k
        · subst hjk; exact Or.inr (Or.inr ⟨hwk, by show upd s.writer j none j = none; rw [upd_same]⟩)
        · exact Or.inl (by show upd s.writer k none j = s.writer j; rw [upd_other _ _ hjk])
      refine hI.mk_step (th' := mv ⟨.putMany ks, pc0, just0⟩ (.mUnlock todo) false) hth rfl hFr ?_ ?_ ?_ ?_ ?_
      · refine trivTI _ _ _ ?_ (fun a b h => by cases h) (fun a b h => by cases h) (fun a h => by cases h) (fun a b h => by cases h) ?_ rfl
        · intro j hj
          have hj' : j ∈ todo := by simpa [holdsW] using hj
          have hjk : j ≠ k := fun e => hknot (e ▸ hj')
          show upd s.writer k none j = some t
          rw [upd_other _ _ hjk]; exact hheld j (List.mem_cons_of_mem _ hj')
        · intro a h; cases h; exact (List.nodup_cons.1 hnd).2
      · intro j hj
        have hj' : upd s.writer k none j = some t := hj
        by_cases hjk : j = k
        · subst hjk; rw [upd_same] at hj'; cases hj'
        · rw [upd_other _ _ hjk] at hj'
          have := notW j hj'; rw [hpc] at this
          have hm : j = k ∨ j ∈ todo := by simpa [holdsW] using this
          simpa [mv, holdsW] using hm.resolve_left hjk
      · intro j hj; exact absurd hj (notR j)
      · intro j w hw
        have hw' : upd s.writer k none j = some w := hw
        by_cases hjk : j = k
        · subst hjk; rw [upd_same] at hw'; cases hw'
        · rw [upd_other _ _ hjk] at hw'; exact hI.ex j w hw'
      · refine ci_step (th' := mv ⟨.putMany ks, pc0, just0⟩ (.mUnlock todo) false) hI hth rfl hFr (fun j e h => Or.inl h) (fun j h => absurd rfl h) ?_
        intro j _ hd; rw [hpc] at hd; simp [dirtyAt] at hd
  | _ => simp [hpc] at hs

/-- every event preserves the invariant -/
theorem Inv.step {sz : Nat → Nat} {s s' : St} {ev : Ev} (hI : Inv s) (hs : TQC.step sz s ev = some s') : Inv s' := by
  cases ev with
  | spawn p => simp only [TQC.step, Option.some.injEq] at hs; subst hs; exact hI.spawn p
  | evict k => simp only [TQC.step, Option.some.injEq] at hs; subst hs; exact hI.evict k
  | step t =>
    simp only [TQC.step] at hs
    cases hth : s.threads[t]? with
    | none => simp [hth] at hs
    | some th =>
      rw [hth] at hs
      simp only at hs
      cases hp : th.prog with
      | read kind k => exact hI.stepRead hth hp hs
      | put k => exact hI.stepPut hth hp hs
      | del k => exact hI.stepDel hth hp hs
      | putMany ks => exact hI.stepPutMany hth hp hs

theorem Inv.reachable {sz : Nat → Nat} {s : St} (h : Steps.Reach (TQC.step sz) TQC.init s) : Inv s :=
  Steps.invariant_of_init_step Inv (fun _ hi => Inv.init hi) (fun _ _ _ hI hs => Inv.step hI hs) h

end C02.TQC
