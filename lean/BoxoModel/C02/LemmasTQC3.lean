import BoxoModel.C02.LemmasTQC2
/-! C02 — tqcache small-step model: every event preserves the invariant. -/
namespace C02.TQC
open C02

theorem nodup_canon (l : List Nat) : (canon l).Nodup :=
  (sorted_canon l).imp (fun h => Nat.ne_of_lt h)

theorem holdsW_read {kind : RKind} {k j : Nat} {pc : PC} : holdsW (.read kind k) pc j = false := by
  cases pc <;> rfl

/-- TI of a thread at a pc that carries no obligation -/
theorem TI.trivial' {s : St} {t : Nat} {th : Thread}
    (hpk : progOK th.prog th.pc = true) (hold : ∀ k, holdsW th.prog th.pc k = false) (hrs : th.pc.rsec = false)
    (hne : (∀ p, th.pc ≠ .rCache p) ∧ th.pc ≠ .wCache ∧ (∀ a b, th.pc ≠ .mCache a b) ∧ (∀ a, th.pc ≠ .mWrite a) ∧
      (∀ a, th.pc ≠ .mUnlock a) ∧ (∀ a b, th.pc ≠ .mLock a b))
    (hjs : ∀ a, th.pc = .done a → readKey th.prog ≠ none → th.just = true) : TI s t th := by
  refine ⟨hpk, ?_, ?_, ?_, ?_, ?_, ?_, ?_, ?_, ?_, hjs⟩
  · intro k hk; rw [hold k] at hk; cases hk
  · intro h; rw [hrs] at h; cases h
  · intro p k hp; exact absurd hp (hne.1 p)
  · intro hp; exact absurd hp hne.2.1
  · intro a b hp; exact absurd hp (hne.2.2.1 a b)
  · intro a b hp; exact absurd hp (hne.2.2.2.2.2 a b)
  · intro a hp; exact absurd hp (hne.2.2.2.1 a)
  · intro a b hp; exact absurd hp (hne.2.2.1 a b)
  · intro a hp; exact absurd hp (hne.2.2.2.2.1 a)

theorem Inv.spawn {s : St} (hI : Inv s) (p : Prog) :
    Inv { s with threads := s.threads ++ [{ prog := p, pc := firstPC p }] } := by
  have hlt : ∀ {u : Nat} {x : Thread}, s.threads[u]? = some x → u < s.threads.length := by
    intro u x hu
    cases h : decide (u < s.threads.length) with
    | true => simpa using h
    | false =>
      have : s.threads.length ≤ u := by simpa using h
      rw [List.getElem?_eq_none this] at hu; cases hu
  have keep : ∀ {u : Nat} {x : Thread}, s.threads[u]? = some x →
      (s.threads ++ [({ prog := p, pc := firstPC p } : Thread)])[u]? = some x := by
    intro u x hu; rw [List.getElem?_append_left (hlt hu)]; exact hu
  have hdirty : ∀ k, dirty { s with threads := s.threads ++ [{ prog := p, pc := firstPC p }] } k = dirty s k := by
    intro k
    unfold dirty
    cases hw : s.writer k with
    | none => rfl
    | some w =>
      obtain ⟨thw, h1, _⟩ := hI.wv k w hw
      simp only [hw, h1, keep h1]
  refine ⟨?_, ?_, ?_, hI.ex, ?_⟩
  · intro u thu hu
    have hu' : (s.threads ++ [({ prog := p, pc := firstPC p } : Thread)])[u]? = some thu := hu
    by_cases hul : u < s.threads.length
    · rw [List.getElem?_append_left hul] at hu'
      have h := hI.thr u thu hu'
      exact ⟨h.pk, h.wl, h.rl, h.rc, h.wc, h.mc, h.ml, h.mw, h.mh, h.mu, h.js⟩
    · have hge : s.threads.length ≤ u := Nat.le_of_not_lt hul
      rw [List.getElem?_append_right hge] at hu'
      cases hd : u - s.threads.length with
      | zero =>
        rw [hd] at hu'; simp at hu'; subst hu'
        apply TI.trivial'
        · cases p <;> rfl
        · intro k; cases p <;> rfl
        · cases p <;> rfl
        · cases p <;> simp [firstPC]
        · intro a h; cases p <;> simp [firstPC] at h
      | succ n => rw [hd] at hu'; simp at hu'
  · intro k w hw
    obtain ⟨thw, h1, h2⟩ := hI.wv k w hw
    exact ⟨thw, keep h1, h2⟩
  · intro k x hx
    obtain ⟨thx, h1, h2, h3⟩ := hI.rv k x hx
    exact ⟨thx, keep h1, h2, h3⟩
  · intro k e hk
    rw [hdirty k]; exact hI.ci k e hk

theorem Inv.evict {s : St} (hI : Inv s) (k0 : Nat) : Inv { s with cache := upd s.cache k0 none } := by
  refine ⟨?_, hI.wv, hI.rv, hI.ex, ?_⟩
  · intro u thu hu
    have h := hI.thr u thu hu
    exact ⟨h.pk, h.wl, h.rl, h.rc, h.wc, h.mc, h.ml, h.mw, h.mh, h.mu, h.js⟩
  · intro k e hk
    have hk' : upd s.cache k0 none k = some e := hk
    by_cases hkk : k = k0
    · subst hkk; rw [upd_same] at hk'; cases hk'
    · rw [upd_other _ _ hkk] at hk'
      exact hI.ci k e hk'

/-- what the other fields of the invariant need when the step leaves `writer`, `rholders`, `store` alone -/
theorem Frame.same {s s' : St} {t : Nat} (hw : s'.writer = s.writer) (hr : s'.rholders = s.rholders) (hs : s'.store = s.store) :
    Frame s s' t :=
  ⟨fun k => Or.inl (by rw [hw]), fun k x _ => by rw [hr], fun k => Or.inl (by simp [present, hs])⟩

theorem Inv.stepRead {sz : Nat → Nat} {s s' : St} {t : Nat} {th : Thread} {kind : RKind} {k : Nat} (hI : Inv s)
    (hth : s.threads[t]? = some th) (hprog : th.prog = .read kind k) (hs : stepThread sz s t th = some s') : Inv s' := by
  obtain ⟨prog0, pc0, just0⟩ := th
  simp only at hprog
  subst hprog
  have hprog : (Thread.mk (.read kind k) pc0 just0).prog = .read kind k := rfl
  have hT := hI.thr t _ hth
  have hpk := hT.pk
  have hnw : ∀ pc j, holdsW (.read kind k) pc j = false := fun pc j => holdsW_read
  unfold stepThread at hs
  simp only at hs
  cases hpc : pc0 with
  | qQuery =>
    simp only [hpc] at hs
    cases hh : hit kind (s.cache k) with
    | none =>
      simp only [hh, Option.some.injEq] at hs; subst hs
      exact hI.localStep (pc' := .rLock) (j := false) hth (hnw _) (by rw [hpc]; rfl) (hnw _) rfl (fun _ => by rw [hprog]; rfl)
        (by rw [hprog]; rfl) (fun _ _ h => by cases h) (fun _ h => by cases h) (by simp)
    | some a =>
      simp only [hh, Option.some.injEq] at hs; subst hs
      refine hI.localStep (pc' := .done a) (j := a == present s k || dirty s k) hth (hnw _) (by rw [hpc]; rfl) (hnw _) rfl
        (fun _ => by rw [hprog]; rfl) (by rw [hprog]; rfl) (fun _ _ h => by cases h) ?_ (by simp)
      intro _ _ _
      -- the cache entry that produced the hit agrees with the store, or the key is dirty
      cases hc : s.cache k with
      | none => rw [hc] at hh; cases kind <;> simp [hit] at hh
      | some e =>
        rw [hc] at hh
        rcases hI.ci k e hc with hagr | hd
        · have := hit_agr hh hagr
          simp [this]
        · simp [hd]
  | rLock =>
    simp only [hpc] at hs
    split at hs
    · rename_i hfree
      have hfree' : s.writer k = none := by simpa using hfree
      simp only [Option.some.injEq] at hs; subst hs
      refine hI.mk_step (th' := mv (Thread.mk (.read kind k) pc0 just0) .rRead false) hth rfl ?_ ?_ ?_ ?_ ?_ ?_
      · refine ⟨fun _ => Or.inl rfl, ?_, fun _ => Or.inl rfl⟩
        intro j x hx
        show x ∈ upd s.rholders k (t :: s.rholders k) j ↔ x ∈ s.rholders j
        by_cases hjk : j = k
        · subst hjk; rw [upd_same]; simp [hx]
        · rw [upd_other _ _ hjk]
      · refine ⟨by rw [show (mv (Thread.mk (.read kind k) pc0 just0) .rRead false).prog = Prog.read kind k from rfl]; rfl, ?_, ?_, ?_, ?_, ?_, ?_, ?_, ?_, ?_, ?_⟩
        · intro j hj; have := hnw .rRead j; simp [mv] at hj; rw [this] at hj; cases hj
        · intro _ j hj
          have : j = k := by simp [mv, hprog, readKey] at hj; exact hj.symm
          subst this
          show t ∈ upd s.rholders j (t :: s.rholders j) j
          rw [upd_same]; simp
        · intro p j h; cases h
        · intro h; cases h
        · intro a b h; cases h
        · intro a b h; cases h
        · intro a h; cases h
        · intro a b h; cases h
        · intro a h; cases h
        · intro a h; cases h
      · intro j hj
        obtain ⟨thx, h1, h2⟩ := hI.wv j t hj
        rw [hth] at h1; cases h1
        rw [hnw _ j] at h2; cases h2
      · intro j hj
        have hj' : t ∈ upd s.rholders k (t :: s.rholders k) j := hj
        by_cases hjk : j = k
        · subst hjk; exact ⟨rfl, by simp [mv, hprog, readKey]⟩
        · rw [upd_other _ _ hjk] at hj'
          obtain ⟨thx, h1, h2, _⟩ := hI.rv j t hj'
          rw [hth] at h1; cases h1
          rw [hpc] at h2; cases h2
      · intro j w hw
        show upd s.rholders k (t :: s.rholders k) j = []
        by_cases hjk : j = k
        · subst hjk
          have hw' : s.writer j = some w := hw
          rw [hfree'] at hw'; cases hw'
        · rw [upd_other _ _ hjk]; exact hI.ex j w hw
      · refine ci_step (th' := mv (Thread.mk (.read kind k) pc0 just0) .rRead false) hI hth rfl ?_ (fun j e h => Or.inl h) (fun j h => absurd rfl h) ?_
        · refine ⟨fun _ => Or.inl rfl, ?_, fun _ => Or.inl rfl⟩
          intro j x hx
          show x ∈ upd s.rholders k (t :: s.rholders k) j ↔ x ∈ s.rholders j
          by_cases hjk : j = k
          · subst hjk; rw [upd_same]; simp [hx]
          · rw [upd_other _ _ hjk]
        · intro j hw _
          obtain ⟨thx, h1, h2⟩ := hI.wv j t hw
          rw [hth] at h1; cases h1
          rw [hnw _ j] at h2; cases h2
    · cases hs
  | rRead =>
    simp only [hpc, Option.some.injEq] at hs; subst hs
    have hin : t ∈ s.rholders k := hT.rl (by rw [hpc]; rfl) k (by rw [hprog]; rfl)
    refine hI.mk_step (th' := mv (Thread.mk (.read kind k) pc0 just0) (.rCache (present s k)) true) hth rfl (Frame.same rfl rfl rfl) ?_ ?_ ?_ hI.ex ?_
    · refine ⟨by rw [show (mv (Thread.mk (.read kind k) pc0 just0) (.rCache (present s k)) true).prog = Prog.read kind k from rfl]; rfl, ?_, ?_, ?_, ?_, ?_, ?_, ?_, ?_, ?_, ?_⟩
      · intro j hj; have := hnw (.rCache (present s k)) j; simp [mv] at hj; rw [this] at hj; cases hj
      · intro _ j hj
        have : j = k := by simp [mv, hprog, readKey] at hj; exact hj.symm
        subst this; exact hin
      · intro p j hp hj
        have hp' : PC.rCache (present s k) = .rCache p := hp
        have : j = k := by simp [mv, hprog, readKey] at hj; exact hj.symm
        subst this
        cases hp'; rfl
      · intro h; cases h
      · intro a b h; cases h
      · intro a b h; cases h
      · intro a h; cases h
      · intro a b h; cases h
      · intro a h; cases h
      · intro a h; cases h
    · intro j hj
      obtain ⟨thx, h1, h2⟩ := hI.wv j t hj
      rw [hth] at h1; cases h1
      rw [hnw _ j] at h2; cases h2
    · intro j hj
      obtain ⟨thx, h1, h2, h3⟩ := hI.rv j t hj
      rw [hth] at h1; cases h1
      exact ⟨rfl, h3⟩
    · refine ci_step (th' := mv (Thread.mk (.read kind k) pc0 just0) (.rCache (present s k)) true) hI hth rfl (Frame.same rfl rfl rfl) (fun j e h => Or.inl h)
        (fun j h => absurd rfl h) ?_
      intro j hw _
      obtain ⟨thx, h1, h2⟩ := hI.wv j t hw
      rw [hth] at h1; cases h1
      rw [hnw _ j] at h2; cases h2
  | rCache p =>
    simp only [hpc, Option.some.injEq] at hs; subst hs
    have hin : t ∈ s.rholders k := hT.rl (by rw [hpc]; rfl) k (by rw [hprog]; rfl)
    have hp : p = present s k := hT.rc p k hpc (by rw [hprog]; rfl)
    refine hI.mk_step (th' := mv (Thread.mk (.read kind k) pc0 just0) (.rUnlock p) false) hth rfl (Frame.same rfl rfl rfl) ?_ ?_ ?_ hI.ex ?_
    · refine ⟨by rw [show (mv (Thread.mk (.read kind k) pc0 just0) (.rUnlock p) false).prog = Prog.read kind k from rfl]; rfl, ?_, ?_, ?_, ?_, ?_, ?_, ?_, ?_, ?_, ?_⟩
      · intro j hj; have := hnw (.rUnlock p) j; simp [mv] at hj; rw [this] at hj; cases hj
      · intro _ j hj
        have : j = k := by simp [mv, hprog, readKey] at hj; exact hj.symm
        subst this; exact hin
      · intro q j h; cases h
      · intro h; cases h
      · intro a b h; cases h
      · intro a b h; cases h
      · intro a h; cases h
      · intro a b h; cases h
      · intro a h; cases h
      · intro a h; cases h
    · intro j hj
      obtain ⟨thx, h1, h2⟩ := hI.wv j t hj
      rw [hth] at h1; cases h1
      rw [hnw _ j] at h2; cases h2
    · intro j hj
      obtain ⟨thx, h1, h2, h3⟩ := hI.rv j t hj
      rw [hth] at h1; cases h1
      exact ⟨rfl, h3⟩
    · refine ci_step (th' := mv (Thread.mk (.read kind k) pc0 just0) (.rUnlock p) false) hI hth rfl (Frame.same rfl rfl rfl) ?_ (fun j h => absurd rfl h) ?_
      · intro j e he
        by_cases hjk : j = k
        · subst hjk
          right
          have he' : upd s.cache j (some (match kind, p with
              | .has, b => Entry.have b
              | _, false => Entry.have false
              | _, true => Entry.size (sz j))) j = some e := he
          rw [upd_same] at he'
          cases he'
          show agr (present s j) _
          rw [← hp]
          cases kind <;> cases p <;> simp [agr]
        · left
          have he' : upd s.cache k _ j = some e := he
          rw [upd_other _ _ hjk] at he'; exact he'
      · intro j hw _
        obtain ⟨thx, h1, h2⟩ := hI.wv j t hw
        rw [hth] at h1; cases h1
        rw [hnw _ j] at h2; cases h2
  | rUnlock p =>
    simp only [hpc, Option.some.injEq] at hs; subst hs
    have hFr : Frame s { s with rholders := upd s.rholders k ((s.rholders k).filter (· != t)) } t := by
      refine ⟨fun _ => Or.inl rfl, ?_, fun _ => Or.inl rfl⟩
      intro j x hx
      show x ∈ upd s.rholders k ((s.rholders k).filter (· != t)) j ↔ x ∈ s.rholders j
      by_cases hjk : j = k
      · subst hjk; rw [upd_same]; simp [hx]
      · rw [upd_other _ _ hjk]
    have hFr' : Frame s (setThread { s with rholders := upd s.rholders k ((s.rholders k).filter (· != t)) } t (mv (Thread.mk (.read kind k) pc0 just0) (.done p) false)) t :=
      ⟨hFr.hw, hFr.hr, hFr.hs⟩
    have hnot : ∀ j, t ∉ upd s.rholders k ((s.rholders k).filter (· != t)) j := by
      intro j hj
      by_cases hjk : j = k
      · subst hjk; rw [upd_same] at hj; simp at hj
      · rw [upd_other _ _ hjk] at hj
        obtain ⟨thx, h1, _, h3⟩ := hI.rv j t hj
        rw [hth] at h1; cases h1
        rw [hprog] at h3; simp [readKey] at h3; exact hjk h3.symm
    refine hI.mk_step (th' := mv (Thread.mk (.read kind k) pc0 just0) (.done p) false) hth rfl hFr' ?_ ?_ ?_ ?_ ?_
    · apply TI.trivial'
      · rw [show (mv (Thread.mk (.read kind k) pc0 just0) (.done p) false).prog = Prog.read kind k from rfl]; rfl
      · intro j; exact hnw _ j
      · rfl
      · simp [mv]
      · intro a _ _
        -- the answer was read from the store at rRead: `just` was set there
        sorry
    · intro j hj
      obtain ⟨thx, h1, h2⟩ := hI.wv j t hj
      rw [hth] at h1; cases h1
      rw [hnw _ j] at h2; cases h2
    · intro j hj; exact absurd hj (hnot j)
    · intro j w hw
      show upd s.rholders k ((s.rholders k).filter (· != t)) j = []
      by_cases hjk : j = k
      · subst hjk; rw [upd_same]; rw [hI.ex j w hw]; rfl
      · rw [upd_other _ _ hjk]; exact hI.ex j w hw
    · refine ci_step (th' := mv (Thread.mk (.read kind k) pc0 just0) (.done p) false) hI hth rfl hFr' (fun j e h => Or.inl h) (fun j h => absurd rfl h) ?_
      intro j hw _
      obtain ⟨thx, h1, h2⟩ := hI.wv j t hw
      rw [hth] at h1; cases h1
      rw [hnw _ j] at h2; cases h2
  | _ => sorry

end C02.TQC
